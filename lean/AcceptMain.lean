/- `lake env lean --run AcceptMain.lean`: traces in, acceptor verdicts out (one reply line per input line). -/
import DfolsVerif.Driver.AcceptDrv
open Dfols

partial def loop (h : IO.FS.Stream) (out : IO.FS.Stream) (st : AcceptDrv.DSt) : IO Unit := do
  let line ← h.getLine
  if line.isEmpty then return ()
  let (st', reply) := AcceptDrv.handle st (Proto.tokens line)
  out.putStrLn reply
  loop h out st'

def main : IO Unit := do
  loop (← IO.getStdin) (← IO.getStdout) {}
