/-
  Line-protocol driver: one operation per input line, one reply per line.
  Run with `lake env lean --run Main.lean < ops.txt` (imports only Mathlib-free model files).
-/
import DfolsVerif.Driver.ModelDrv

open Dfols

structure DrvState where
  model : Option ModelDrv.St := none

def step (st : DrvState) (line : String) : DrvState × String :=
  let ts := Proto.tokens line
  match ts with
  | [] => (st, "")
  | t :: _ =>
    if t.startsWith "m" then
      let (m, out) := ModelDrv.handle st.model ts
      ({ st with model := m }, out)
    else (st, "bad-op")

partial def loop (h : IO.FS.Stream) (out : IO.FS.Stream) (st : DrvState) : IO Unit := do
  let line ← h.getLine
  if line.isEmpty then return ()
  let (st', reply) := step st line
  out.putStrLn reply
  loop h out st'

def main : IO Unit := do
  let stdin ← IO.getStdin
  let stdout ← IO.getStdout
  loop stdin stdout {}
