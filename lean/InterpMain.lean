/-
  Line-protocol driver for C16 / C11 / C05: `lake env lean --run InterpMain.lean < lines`
  (one reply line per input line).  See `DfolsVerif/Driver/InterpDrv.lean` for the protocol.
-/
import DfolsVerif.Driver.InterpDrv

open Dfols

partial def loop (h : IO.FS.Stream) (out : IO.FS.Stream) (st : Option ModelDrv.St) : IO Unit := do
  let line ← h.getLine
  if line.isEmpty then return ()
  let ts := Proto.tokens line
  match ts with
  | [] => out.putStrLn ""; loop h out st
  | t :: _ =>
    if t.startsWith "m" then
      let (st', reply) := InterpDrv.handleM st ts
      out.putStrLn reply
      loop h out st'
    else
      out.putStrLn (InterpDrv.handleI (ts.filter (· ≠ "|")))
      loop h out st

def main : IO Unit := do
  let stdin ← IO.getStdin
  let stdout ← IO.getStdout
  loop stdin stdout none
