import DfolsVerif.Driver.IterDrv
open Dfols
partial def loop (h : IO.FS.Stream) (out : IO.FS.Stream) : IO Unit := do
  let line ← h.getLine
  if line.isEmpty then return ()
  out.putStrLn (IterDrv.handle (Proto.tokens line))
  loop h out
def main : IO Unit := do loop (← IO.getStdin) (← IO.getStdout)
