import DfolsVerif.Driver.SfistaDrv
open Dfols
partial def loop (h : IO.FS.Stream) (out : IO.FS.Stream) : IO Unit := do
  let line ← h.getLine
  if line.isEmpty then return ()
  out.putStrLn (SfistaDrv.handle (Proto.tokens line))
  loop h out
def main : IO Unit := do loop (← IO.getStdin) (← IO.getStdout)
