/-
  Line-protocol driver for the JSON model (C20): one request per input line, one reply per line.
  Run with `lake env lean --run JsonMain.lean < lines` (imports only Mathlib-free model files).
-/
import DfolsVerif.Driver.JsonDrv

open Dfols

partial def loop (h : IO.FS.Stream) (out : IO.FS.Stream) : IO Unit := do
  let line ← h.getLine
  if line.isEmpty then return ()
  out.putStrLn (JsonDrv.handle (Proto.tokens line))
  loop h out

def main : IO Unit := do
  let stdin ← IO.getStdin
  let stdout ← IO.getStdout
  loop stdin stdout
