/-
  Line-protocol driver for the C14 kernels (InitDirs, RandDirs): one request per input line,
  one reply per line.  `lake env lean --run InitDirsMain.lean < lines`  (Mathlib-free imports).
-/
import DfolsVerif.Driver.InitDirsDrv

open Dfols

partial def loop (h : IO.FS.Stream) (out : IO.FS.Stream) : IO Unit := do
  let line ← h.getLine
  if line.isEmpty then return ()
  out.putStrLn (InitDirsDrv.handle (Proto.tokens line))
  loop h out

def main : IO Unit := do
  let stdin ← IO.getStdin
  let stdout ← IO.getStdout
  loop stdin stdout
