-- Root of the `DfolsVerif` library: formal model of DFO-LS and its property theorems.
import DfolsVerif.Val
import DfolsVerif.Book.ModelState
import DfolsVerif.Proofs.ModelState
import DfolsVerif.Proofs.ModelKopt
import DfolsVerif.Proofs.ModelObj
import DfolsVerif.Proofs.RunningMean
import DfolsVerif.Properties.C17
import DfolsVerif.Driver.Proto
import DfolsVerif.Driver.ModelDrv
