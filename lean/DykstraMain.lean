/-
  Line-protocol driver for the Dykstra kernel and the C09 trace acceptor (C09, C15).
  Run with `lake env lean --run DykstraMain.lean < lines` (imports only Mathlib-free files).
-/
import DfolsVerif.Driver.DykstraDrv

open Dfols

partial def loop (h : IO.FS.Stream) (out : IO.FS.Stream) : IO Unit := do
  let line ← h.getLine
  if line.isEmpty then return ()
  out.putStrLn (DykstraDrv.handle (Proto.tokens line))
  loop h out

def main : IO Unit := do
  let stdin ← IO.getStdin
  let stdout ← IO.getStdout
  loop stdin stdout
