/-
  Line-protocol driver for the `Validate` model (C07): one request per input line, one reply per line.
  Run with `lake env lean --run ValidateMain.lean < lines` (imports only Mathlib-free model files and the
  tables regenerated from /repo).
-/
import DfolsVerif.Driver.ValidateDrv

open Dfols

partial def loop (h : IO.FS.Stream) (out : IO.FS.Stream) (st : ValidateDrv.St) : IO Unit := do
  let line ← h.getLine
  if line.isEmpty then return ()
  let ts := Proto.tokens line
  let (st', reply) := match ts with
    | [] => (st, "")
    | _ => ValidateDrv.handle st ts
  out.putStrLn reply
  loop h out st'

def main : IO Unit := do
  let stdin ← IO.getStdin
  let stdout ← IO.getStdout
  loop stdin stdout {}
