/-
  Line-protocol driver for the trust-region kernels (C12 / C13 correspondence).
  Run with `lake env lean --run TrsMain.lean < lines` (imports only Mathlib-free model files);
  one reply line per input line.  Protocol: see `DfolsVerif/Driver/TrsDrv.lean`.
-/
import DfolsVerif.Driver.TrsDrv

open Dfols

partial def loop (h : IO.FS.Stream) (out : IO.FS.Stream) : IO Unit := do
  let line ← h.getLine
  if line.isEmpty then return ()
  out.putStrLn (TrsDrv.handle (Proto.tokens line))
  loop h out

def main : IO Unit := do
  let stdin ← IO.getStdin
  let stdout ← IO.getStdout
  loop stdin stdout
