/-
  L0 — conversion of an interpolation point / step to the absolute coordinates at which the user's
  residual function is called (after the `fix:` commit "evaluation points never leave the bounds by rounding"):

    Model.as_absolute_coordinates / Model.xpt(abs)   model.py     `asAbs`
    util.remove_scaling                              util.py      `removeScaling`
    x0 clamping in solve                             solver.py    `clampX0`

  One definition, two interpretations (DESIGN 2.1): the operations are a parameter `ClipOps F`;
  `F = Float` (NumPy semantics, bit-exact) for the driver, `F = Val` with ARBITRARY `add`/`mul`
  (any rounding, may even return NaN) for the theorems.
-/
import DfolsVerif.Val

namespace Dfols

structure ClipOps (F : Type) where
  add : F → F → F
  mul : F → F → F
  min : F → F → F          -- np.minimum (NaN-propagating)
  max : F → F → F          -- np.maximum (NaN-propagating)
  lt  : F → F → Bool       -- Python `<` (false with NaN)

namespace Clip
variable {F : Type} (o : ClipOps F)

/-- `np.minimum(np.maximum(lo, x), hi)` -/
def clip (lo hi x : F) : F := o.min (o.max lo x) hi

/-- pinned `as_absolute_coordinates`: `xbase + clip(x, sl, su)` -/
def asAbsOld (xbase sl su x : F) : F := o.add xbase (clip o sl su x)

/-- repaired: `np.minimum(np.maximum(xl, xbase + clip(x, sl, su)), xu)` (model.py) -/
def asAbs (xl xu xbase sl su x : F) : F := o.min (o.max xl (asAbsOld o xbase sl su x)) xu

/-- pinned `remove_scaling`: `shift + x*scale` -/
def removeScalingOld (shift scale x : F) : F := o.add shift (o.mul x scale)

/-- repaired: `np.minimum(np.maximum(shift + x*scale, xl), xu)` (util.py) -/
def removeScaling (shift scale xl xu x : F) : F := o.min (o.max (removeScalingOld o shift scale x) xl) xu

/-- `x0[x0 < xl] = xl; x0[x0 > xu] = xu` (solver.py) -/
def clampX0 (xl xu x : F) : F :=
  let x1 := if o.lt x xl then xl else x
  if o.lt xu x1 then xu else x1

/-- the argument of `objfun` for a point given relative to `xbase`, scaled problem:
    `remove_scaling(as_absolute_coordinates(x))` -/
def evalArgScaled (shift scale xlU xuU xlS xuS xbase sl su x : F) : F :=
  removeScaling o shift scale xlU xuU (asAbs o xlS xuS xbase sl su x)

end Clip

/-! ### interpretation X: IEEE doubles as NumPy computes them -/

def npMinF (a b : Float) : Float := if a.isNaN || b.isNaN then (0.0 / 0.0) else if b < a then b else a
def npMaxF (a b : Float) : Float := if a.isNaN || b.isNaN then (0.0 / 0.0) else if a < b then b else a

def floatOps : ClipOps Float :=
  { add := (· + ·), mul := (· * ·), min := npMinF, max := npMaxF, lt := fun a b => a < b }

/-! ### interpretation A: order keys with arbitrary (uninterpreted) arithmetic -/

def npMinV : Val → Val → Val
  | .num a, .num b => .num (if b < a then b else a)
  | _, _ => .nan
def npMaxV : Val → Val → Val
  | .num a, .num b => .num (if a < b then b else a)
  | _, _ => .nan

/-- any rounding: `add`, `mul` are arbitrary functions on values -/
def valOps (add mul : Val → Val → Val) : ClipOps Val :=
  { add := add, mul := mul, min := npMinV, max := npMaxV, lt := Val.lt }

end Dfols
