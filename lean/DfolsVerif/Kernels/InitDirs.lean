/-
  L0 kernel `InitDirs` — the default (coordinate) initialisation of the interpolation set,
  bound-constrained branch without projections and without `init.run_in_parallel`:

  (line numbers: /repo at commit 25b8a47)
    solver.py:1107-1116       x0 clamped into [xl, xu]
    model.py:70-74            xbase = x0, sl = xl - xbase, su = xu - xbase
    controller.py:255-256     at_lower_boundary / at_upper_boundary (threshold 0.01*delta)
    controller.py:290-326     the step table xpts_added[k, :], k = 1 … num_directions
    controller.py:348-351     swap of rows k and k-n of the table (objective dependent)
    model.py:157-162          as_absolute_coordinates = min(max(xl, xbase + min(max(sl, x), su)), xu)
                              (the outer clip was added by the `fix:` commit for C01; `asAbsOld` is the pinned formula)

  Mathlib-free and written ONCE, polymorphic in the scalar type: it runs on `Float` in the driver
  (every operation is a scalar / elementwise IEEE operation, so the comparison with NumPy is bit for
  bit) and is instantiated at a linearly ordered field in `Proofs/InitDirs.lean`.

  Vectors are functions `Nat → α` (index ↦ component) together with the dimension `n`; the driver
  converts to and from lists.  The only objective-dependent decision (the swap at lines 348-351,
  `objval[k] < objval[k-n]`) is an INPUT: `lt i` is the outcome of that comparison for coordinate `i`
  (k = n+1+i), so the function stays pure.
-/

namespace Dfols.InitDirs

section
variable {α : Type} [Add α] [Sub α] [Mul α] [Neg α] [LT α] [DecidableLT α] [OfScientific α]

/-- Python builtin `min(a, b)` on floats: `b if b < a else a`. -/
def pymin (a b : α) : α := if b < a then b else a
/-- Python builtin `max(a, b)` on floats: `b if b > a else a`. -/
def pymax (a b : α) : α := if a < b then b else a
/-- `np.minimum(a, b)` on non-NaN doubles (signed zeros are not distinguished by the comparison). -/
def npmin (a b : α) : α := if a < b then a else b
/-- `np.maximum(a, b)` on non-NaN doubles. -/
def npmax (a b : α) : α := if b < a then a else b

/-- solver.py:1107-1116, one coordinate: `x0[x0 < xl] = xl; x0[x0 > xu] = xu` (in this order). -/
def clampX0 (x l u : α) : α :=
  let x1 := if x < l then l else x
  if u < x1 then u else x1

/-- model.py:162, one coordinate of `np.minimum(np.maximum(sl, x), su)`. -/
def clip (sl su x : α) : α := npmin (npmax sl x) su

/-- the pinned tree's `as_absolute_coordinates` (before `fix: evaluation points never leave the
    bounds by rounding`): `xbase + clip`; in floating point `xbase + su` can exceed `xu`. -/
def asAbsOld (xbase sl su x : α) : α := xbase + clip sl su x

/-- model.py:162, one coordinate of `as_absolute_coordinates`:
    `np.minimum(np.maximum(xl, xbase + np.minimum(np.maximum(sl, x), su)), xu)`. -/
def asAbs (xl xu xbase sl su x : α) : α := npmin (npmax xl (xbase + clip sl su x)) xu

/-- controller.py:255  `sl > -0.01 * delta`. -/
def atLower (delta sl : α) : Bool := decide ((-(0.01 : α)) * delta < sl)
/-- controller.py:256  `su < 0.01 * delta`. -/
def atUpper (delta su : α) : Bool := decide (su < (0.01 : α) * delta)

/-- controller.py:297  first step along a coordinate: `delta if not at_upper else -delta`. -/
def step1 (delta su : α) : α := if atUpper delta su then -delta else delta

/-- controller.py:304-310  second step along a coordinate (both `if`s are executed in this order). -/
def step2 (delta sl su : α) : α :=
  let b := -delta
  let b := if atLower delta sl then pymin ((2.0 : α) * delta) su else b
  let b := if atUpper delta su then pymax ((-(2.0 : α)) * delta) sl else b
  b

/-- controller.py:350  `stepa * stepb < 0.0 and objval[k] < objval[k-n]`;
    `lt` is the recorded outcome of the objective comparison. -/
def swapped (delta sl su : α) (lt : Bool) : Bool :=
  decide (step1 delta su * step2 delta sl su < (0.0 : α)) && lt

/-- entry `xpts_added[i+1, i]` once all 2n coordinate steps are done (after the possible swap). -/
def rowFinal (delta sl su : α) (lt : Bool) : α :=
  if swapped delta sl su lt then step2 delta sl su else step1 delta su

end

/-- controller.py:319-323  the two coordinates (1-based `p`, `q`) combined at step `k > 2n`. -/
def pairIdx (n k : Nat) : Nat × Nat :=
  let itemp := (k - n - 1) / n
  let q := k - itemp * n - n
  let p := q + itemp
  if p > n then (q, p - n) else (p, q)

section
variable {α : Type} [Add α] [Sub α] [Mul α] [Neg α] [LT α] [DecidableLT α] [OfScientific α]

/-- component `j` of `xpts_added[k, :]` at the moment it is evaluated (controller.py:290-326),
    for `k ≥ 1`; `sl su` are the relative bounds, `lt i` the swap oracle of coordinate `i`. -/
def relPoint (n : Nat) (delta : α) (sl su : Nat → α) (lt : Nat → Bool) (k j : Nat) : α :=
  if k < n + 1 then
    if j = k - 1 then step1 delta (su j) else (0.0 : α)
  else if k < 2 * n + 1 then
    if j = k - n - 1 then step2 delta (sl j) (su j) else (0.0 : α)
  else
    let pq := pairIdx n k
    -- lines 325-326: column p-1 is written first, then column q-1
    if j = pq.2 - 1 then rowFinal delta (sl j) (su j) (lt j)
    else if j = pq.1 - 1 then rowFinal delta (sl j) (su j) (lt j)
    else (0.0 : α)

/-- clamped starting point = `xbase` -/
def xbase (x0 xl xu : Nat → α) (j : Nat) : α := clampX0 (x0 j) (xl j) (xu j)
/-- model.py:73 -/
def slOf (x0 xl xu : Nat → α) (j : Nat) : α := xl j - xbase x0 xl xu j
/-- model.py:74 -/
def suOf (x0 xl xu : Nat → α) (j : Nat) : α := xu j - xbase x0 xl xu j

/-- component `j` of the `k`-th point handed to the objective (k = 0: the clamped x0 itself;
    k ≥ 1: `as_absolute_coordinates(xpts_added[k, :])`). -/
def evalPoint (n : Nat) (delta : α) (x0 xl xu : Nat → α) (lt : Nat → Bool) (k j : Nat) : α :=
  if k = 0 then xbase x0 xl xu j
  else asAbs (xl j) (xu j) (xbase x0 xl xu j) (slOf x0 xl xu j) (suOf x0 xl xu j)
         (relPoint n delta (slOf x0 xl xu) (suOf x0 xl xu) lt k j)

/-- the same with the pinned tree's `as_absolute_coordinates` -/
def evalPointOld (n : Nat) (delta : α) (x0 xl xu : Nat → α) (lt : Nat → Bool) (k j : Nat) : α :=
  if k = 0 then xbase x0 xl xu j
  else asAbsOld (xbase x0 xl xu j) (slOf x0 xl xu j) (suOf x0 xl xu j)
         (relPoint n delta (slOf x0 xl xu) (suOf x0 xl xu) lt k j)

/-- the first `npt` evaluation points as lists (what the driver prints) -/
def evalPoints (n npt : Nat) (delta : α) (x0 xl xu : Nat → α) (lt : Nat → Bool) : List (List α) :=
  (List.range npt).map fun k => (List.range n).map (evalPoint n delta x0 xl xu lt k)

/-- which coordinates are swapped (reported by the driver as a branch tag and compared with the
    product test the harness recomputes) -/
def swapFlags (n : Nat) (delta : α) (x0 xl xu : Nat → α) (lt : Nat → Bool) : List Bool :=
  (List.range n).map fun i => swapped delta (slOf x0 xl xu i) (suOf x0 xl xu i) (lt i)

end

end Dfols.InitDirs
