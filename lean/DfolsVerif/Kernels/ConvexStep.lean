/-
  Shape shared by the convex-constrained step solvers of `dfols/trust_region.py`

      ctrsbox_sfista (88-166), ctrsbox_pgd (168-232), ctrsbox_linear (573-623)

  Each of them is   `d = zeros(n); for …: d = proj(w_k)`   and returns the last `d`
  (`ctrsbox_sfista` returns `d`, not `d_best`), where
      proj(d0) = dykstra(P ++ [trust-region ball], xopt + d0) - xopt        (133-137, 194-198, 596-600).
  Whatever trial points `w_k` the momentum arithmetic produces (any rounding, any number of
  iterations, early `break`), the result is `runProj zero proj ws` for the list `ws` of trial points.
  Mathlib-free.
-/
namespace Dfols
namespace ConvexStep

/-- the value returned after projecting the trial points `ws` in turn (the zero step if there is none) -/
def runProj {V : Type} (zero : V) (proj : V → V) (ws : List V) : V := ws.foldl (fun _ w => proj w) zero

/-- any property of the zero step and of every projected point holds for the result. -/
theorem runProj_inv {V : Type} (P : V → Prop) (zero : V) (proj : V → V) (h0 : P zero) (hp : ∀ w, P (proj w))
    (ws : List V) : P (runProj zero proj ws) := by
  unfold runProj
  induction ws generalizing zero with
  | nil => exact h0
  | cons w ws ih => exact ih (proj w) (hp w)

end ConvexStep
end Dfols
