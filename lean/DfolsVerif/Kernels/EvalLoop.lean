/-
  L0 — the two sampling loops that spend the evaluation budget (C02).

    Controller.evaluate_objective   controller.py   `for i in range(number_of_samples): …`      `evalObjBody`
    solve_main, the block at x0     solver.py       `for i in range(1, number_of_samples): …`   `x0Body`

  State = the integer/boolean variables the loops assign, the exit they may create, and (ghost) the list of
  `(eval_num, pt_num)` pairs handed to `eval_least_squares_with_regularisation`, in call order.
  A loop body returns the new state and whether it executed `break`.  `forRange n body s` runs the body
  `n` times or until it breaks.  No Mathlib.
-/
namespace Dfols
namespace EvalLoop

structure LoopSt where
  nf : Nat                      -- self.nf / nf
  nx : Nat                      -- self.nx / nx
  incremented : Bool            -- incremented_nx
  runs : Nat                    -- num_samples_run
  exit : Option Int             -- flag of the ExitInformation created (none = exit_info is None)
  calls : List (Nat × Nat)      -- ghost: (eval_num, pt_num) of every objfun call, oldest first
deriving Repr, DecidableEq

/-- `for _ in range(n): body` with `break` -/
def forRange : Nat → (LoopSt → LoopSt × Bool) → LoopSt → LoopSt
  | 0, _, s => s
  | n + 1, body, s =>
    let r := body s
    if r.2 then r.1 else forRange n body r.1

/-- body of the loop in `Controller.evaluate_objective` -/
def evalObjBody (maxfun : Nat) (s : LoopSt) : LoopSt × Bool :=
  if s.nf ≥ maxfun then
    ({ s with exit := some 1 }, true)
  else
    let s := { s with nf := s.nf + 1 }
    let s := if !s.incremented then { s with nx := s.nx + 1, incremented := true } else s
    let s := { s with calls := s.calls ++ [(s.nf, s.nx)] }
    let s := { s with runs := s.runs + 1 }
    (s, false)

/-- body of the loop over the 2nd..k-th sample at x0 in `solve_main` -/
def x0Body (maxfun : Nat) (s : LoopSt) : LoopSt × Bool :=
  if s.nf ≥ maxfun then
    ({ s with exit := some 1 }, true)
  else
    let s := { s with nf := s.nf + 1 }
    let s := { s with calls := s.calls ++ [(s.nf, s.nx)] }
    let s := { s with runs := s.runs + 1 }
    (s, false)

/-- `evaluate_objective(x, number_of_samples)`: the loop from its initial state -/
def evaluateObjective (maxfun nf nx numberOfSamples : Nat) : LoopSt :=
  forRange numberOfSamples (evalObjBody maxfun)
    { nf := nf, nx := nx, incremented := false, runs := 0, exit := none, calls := [] }

/-- the block at x0: the first evaluation is unconditional (`nf = nf_so_far + 1`, `nx = nx_so_far + 1`), then
    `for i in range(1, number_of_samples)` -/
def evaluateX0 (maxfun nfSoFar nxSoFar numberOfSamples : Nat) : LoopSt :=
  forRange (numberOfSamples - 1) (x0Body maxfun)
    { nf := nfSoFar + 1, nx := nxSoFar + 1, incremented := true, runs := 1, exit := none,
      calls := [(nfSoFar + 1, nxSoFar + 1)] }

end EvalLoop
end Dfols
