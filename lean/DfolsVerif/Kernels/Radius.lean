/-
  L0 — trust-region radius updates, exactly the Python expressions.

    Controller.reduce_rho                      controller.py      `reduceRho`
    delta update by the ratio class            solver.py (main loop, after calculate_ratio)   `trUpdate`
    check_and_fix_geometry(update_delta=True)  controller.py      `geomDelta`
    safety step while growing (reduce_delta)   solver.py          `geomDelta` (same expression)
    soft restart / end of growing              delta = rho = rhobeg   (`resetRadii`)

  One definition over an operations record `RadOps F`: `F = Float` for the bit-exact correspondence
  with observed (ratio, dnorm, tau, delta, rho) of real runs, `F = ℝ` for the invariants.
-/
namespace Dfols

structure RadOps (F : Type) where
  mul : F → F → F
  div : F → F → F
  sqrt : F → F
  min : F → F → F      -- Python builtin min(a, b): b if b < a else a
  max : F → F → F      -- Python builtin max(a, b): b if a < b else a
  lt : F → F → Bool
  le : F → F → Bool
  lit : Nat → Nat → F  -- decimal literal  m / 10^e   (0.1 = lit 1 1, 1.5 = lit 15 1, 16.0 = lit 16 0, 1e10 = lit 10000000000 0)

structure TRParams (F : Type) where
  eta1 : F
  eta2 : F
  gammaDec : F          -- tr_radius.gamma_dec, or growing.gamma_dec while growing
  gammaInc : F
  gammaIncOverline : F
  alpha1 : F
  alpha2 : F

namespace Radius
variable {F : Type} (o : RadOps F)

/-- `Controller.reduce_rho`: returns (delta', rho') -/
def reduceRho (p : TRParams F) (rho rhoend : F) : F × F :=
  let ratio := o.div rho rhoend
  let newRho :=
    if o.le ratio (o.lit 16 0) then rhoend
    else if o.le ratio (o.lit 250 0) then o.mul (o.sqrt ratio) rhoend
    else o.mul p.alpha1 rho
  (o.max (o.mul p.alpha2 rho) newRho, newRho)

/-- the new `control.delta` by ratio class (before the cap to rho) -/
def trCandidate (p : TRParams F) (ratio dnorm tau delta : F) : F :=
  if o.lt ratio p.eta1 then o.div (o.min (o.mul p.gammaDec delta) dnorm) tau
  else if o.le ratio p.eta2 then o.max (o.mul p.gammaDec delta) dnorm
  else o.min (o.max (o.mul p.gammaInc delta) (o.mul p.gammaIncOverline dnorm)) (o.lit 10000000000 0)

/-- `if control.delta <= 1.5 * control.rho: control.delta = control.rho` -/
def capToRho (d1 rho : F) : F := if o.le d1 (o.mul (o.lit 15 1) rho) then rho else d1

/-- the update of `control.delta` after `calculate_ratio` (three ratio classes, then the cap to rho) -/
def trUpdate (p : TRParams F) (ratio dnorm tau delta rho : F) : F :=
  capToRho o (trCandidate o p ratio dnorm tau delta) rho

/-- `delta = max(min(0.1*delta, 0.5*dist), 1.5*rho)` -/
def geomDelta (delta rho dist : F) : F :=
  o.max (o.min (o.mul (o.lit 1 1) delta) (o.mul (o.lit 5 1) dist)) (o.mul (o.lit 15 1) rho)

/-- `Controller.calculate_ratio`, the decision part: `(ratio, exit flag)` from the predicted and the actual
    reduction.  `pred_reduction < 0.0` gives EXIT_TR_INCREASE_WARNING (5) with more than one projection,
    EXIT_TR_INCREASE_ERROR (-2) otherwise; the ratio is `actual_reduction / pred_reduction` in both cases. -/
def calcRatio (pred actual : F) (nproj : Nat) : F × Option Int :=
  (o.div actual pred, if o.lt pred (o.lit 0 0) then (if 1 < nproj then some 5 else some (-2)) else none)

/-- solver.py: `if ratio > 0.0:` re-select the point to replace with `skip_kopt=False` (the incumbent's row may
    be overwritten); otherwise the incumbent's row is protected. -/
def mayReplaceKopt (ratio : F) : Bool := o.lt (o.lit 0 0) ratio

end Radius

/-! ### interpretation X (IEEE doubles, Python scalar semantics) -/

def pyMinF (a b : Float) : Float := if b < a then b else a
def pyMaxF (a b : Float) : Float := if a < b then b else a

def floatRadOps : RadOps Float :=
  { mul := (· * ·), div := (· / ·), sqrt := Float.sqrt, min := pyMinF, max := pyMaxF,
    lt := fun a b => a < b, le := fun a b => a ≤ b,
    lit := fun m e => Float.ofScientific m true e }

end Dfols
