/-
  Control-flow skeletons (layer G target): the body of a loop as a tree of significant actions, two-way tests, single-action
  inner loops and the three jumps.  `Gen/MainLoop.lean` is the skeleton of solve_main's main loop, regenerated from the AST on
  every run (harness/gen_skeleton.py).

  * `Exec p tr e`   — `tr` is the list of actions of ONE execution of `p` that ends with `e` (falls through, `continue`, `break`,
                      `raise`); every outcome of every test and every repetition count of an inner loop is an execution.
  * `reach m p q`   — the states in which a deterministic monitor `m` (a fold over the actions) can be when `p` ends, with the ending.
  * `reach_sound`   — (Proofs/Skeleton.lean) every execution ends in a listed state: a property of ALL paths is decided by
                      evaluating `reach` on the generated term.
  No Mathlib.
-/
namespace Dfols
namespace Skel

inductive Prog where
  | done | cont | brk | raise
  | act (a : String) (k : Prog)
  | ite (c : String) (t e k : Prog)
  | rep (a : String) (k : Prog)
deriving Repr, Inhabited

inductive Ending where
  | fall | cont | brk | raise
deriving DecidableEq, Repr, Inhabited

/-- one execution: the actions performed and how the body was left -/
inductive Exec : Prog → List String → Ending → Prop
  | done : Exec .done [] .fall
  | cont : Exec .cont [] .cont
  | brk : Exec .brk [] .brk
  | raise : Exec .raise [] .raise
  | act {a k tr e} : Exec k tr e → Exec (.act a k) (a :: tr) e
  | thenFall {c t el k tr1 tr2 e} : Exec t tr1 .fall → Exec k tr2 e → Exec (.ite c t el k) (tr1 ++ tr2) e
  | thenJump {c t el k tr1 e} : Exec t tr1 e → e ≠ .fall → Exec (.ite c t el k) tr1 e
  | elseFall {c t el k tr1 tr2 e} : Exec el tr1 .fall → Exec k tr2 e → Exec (.ite c t el k) (tr1 ++ tr2) e
  | elseJump {c t el k tr1 e} : Exec el tr1 e → e ≠ .fall → Exec (.ite c t el k) tr1 e
  | rep {a k tr e} (n : Nat) : Exec k tr e → Exec (.rep a k) (List.replicate n a ++ tr) e

/-- a deterministic monitor over action names -/
structure Mon (Q : Type) where
  step : Q → String → Q

def Mon.run {Q} (m : Mon Q) (q : Q) (tr : List String) : Q := tr.foldl m.step q

/-- continue with `k` from every state that fell through -/
def thenK {Q} (rs : List (Q × Ending)) (k : Q → List (Q × Ending)) : List (Q × Ending) :=
  rs.flatMap fun r => if r.2 = .fall then k r.1 else [r]

/-- insert if new / remove duplicates (keeps `reach` small: the monitors have a handful of states) -/
def ins {α} [DecidableEq α] (x : α) (l : List α) : List α := if x ∈ l then l else x :: l
def dedup {α} [DecidableEq α] (l : List α) : List α := l.foldr ins []

/-- monitor states (with endings) reachable at the end of `p` from state `q`.  For `rep a k` the monitor is assumed not to
    react to `a` (hypothesis of `reach_sound`, checked by `repInert`). -/
def reach {Q} [DecidableEq Q] (m : Mon Q) : Prog → Q → List (Q × Ending)
  | .done, q => [(q, .fall)]
  | .cont, q => [(q, .cont)]
  | .brk, q => [(q, .brk)]
  | .raise, q => [(q, .raise)]
  | .act a k, q => reach m k (m.step q a)
  | .ite _ t e k, q => dedup (thenK (dedup (reach m t q ++ reach m e q)) (reach m k))
  | .rep _ k, q => reach m k q

/-- the actions of inner loops -/
def repActs : Prog → List String
  | .done | .cont | .brk | .raise => []
  | .act _ k => repActs k
  | .ite _ t e k => repActs t ++ repActs e ++ repActs k
  | .rep a k => a :: repActs k

/-- all action names of a skeleton (for reporting) -/
def acts : Prog → List String
  | .done | .cont | .brk | .raise => []
  | .act a k => a :: acts k
  | .ite _ t e k => acts t ++ acts e ++ acts k
  | .rep a k => a :: acts k

def size : Prog → Nat
  | .done | .cont | .brk | .raise => 1
  | .act _ k => 1 + size k
  | .ite _ t e k => 1 + size t + size e + size k
  | .rep _ k => 1 + size k

/-- every reachable (state, ending) satisfies `ok` -/
def allReach {Q} [DecidableEq Q] (m : Mon Q) (p : Prog) (q : Q) (ok : Q → Ending → Bool) : Bool :=
  (reach m p q).all fun r => ok r.1 r.2

end Skel
end Dfols
