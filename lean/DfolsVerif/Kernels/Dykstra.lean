/-
  L0 kernel: Dykstra's alternating projection, `pball`, `pbox`  (dfols/util.py:226-257).  No Mathlib.

  ```
  def dykstra(P,x0,max_iter=100,tol=1e-10):          # util.py:226
      x = x0.copy(); p = len(P); y = np.zeros((p,x0.shape[0]))
      n = 0; cI = float('inf')
      while n < max_iter and cI >= tol:              # util.py:233
          cI = 0
          for i in range(0,p):
              prev_x = x.copy()
              x = P[i](prev_x - y[i,:])              # util.py:238
              prev_y = y[i,:].copy()
              y[i,:] = x - (prev_x - prev_y)         # util.py:242
              cI += np.linalg.norm(prev_y - y[i,:])**2
          n += 1
      return x
  def pball(x,c,r): return c + (r/np.max([np.linalg.norm(x-c),r]))*(x-c)     # util.py:252
  def pbox(x,l,u):  return np.minimum(np.maximum(x,l), u)                     # util.py:256
  ```

  The definitions are generic in the vector type `V` and the scalar type `S`; every arithmetic
  operation is a field of `Ops` / `BallOps`.  The SAME `dykstra` is
    * run on `List Float` by the driver (`Driver/DykstraDrv.lean`, interpretation X),
    * proved about a real inner-product space (`Proofs/Dykstra.lean`, interpretation E, `realOps`),
    * proved about *arbitrary* operations (any rounding) for the statements that need no arithmetic
      (`dykstra_sweeps`, `dykstra_last_in`, `dykstra_fixed_point`).
  Projectors are opaque functions `V → V`.
-/

namespace Dfols
namespace Dykstra

/-- the operations `dykstra` performs.  `cI` starts as `float('inf')`, which no exact scalar type
    has: the loop state keeps `cI : Option S` with `none` = "no sweep done yet, `cI = inf`", and the
    first test `inf >= tol` is the field `infGe` (false only for a NaN `tol`). -/
structure Ops (V S : Type) where
  sub : V → V → V          -- elementwise `-`
  zero : V                 -- a row of `np.zeros`
  normSq : V → S           -- `np.linalg.norm(v)**2`
  sadd : S → S → S         -- `cI += …`
  szero : S                -- `cI = 0`
  ge : S → S → Bool        -- `cI >= tol`   (false on NaN)
  infGe : S → Bool         -- `float('inf') >= tol`

variable {V S : Type}

/-- one pass of the body of the `for` loop (util.py:236-245): new `x`, new `y_i`, the term added to `cI`. -/
def sub1 (o : Ops V S) (P : V → V) (x y : V) : V × V × S :=
  let x' := P (o.sub x y)                 -- x = P[i](prev_x - y[i,:])
  let y' := o.sub x' (o.sub x y)          -- y[i,:] = x - (prev_x - prev_y)
  (x', y', o.normSq (o.sub y y'))         -- norm(prev_y - y[i,:])**2

/-- the inner `for i in range(p)` loop (util.py:235-245), `c` is the running `cI`.
    Returns the final `x`, the new rows of `y`, the final `cI`. -/
def sweep (o : Ops V S) : List (V → V) → List V → V → S → V × List V × S
  | P :: Ps, y :: ys, x, c =>
    let r := sub1 o P x y
    let t := sweep o Ps ys r.1 (o.sadd c r.2.2)
    (t.1, r.2.1 :: t.2.1, t.2.2)
  | _, _, x, c => (x, [], c)

/-- everything the routine knows when it returns -/
structure Result (V S : Type) where
  x : V
  ys : List V
  sweeps : Nat               -- `n`
  cI : Option S              -- `none` = still `inf` (no sweep performed)

/-- `cI >= tol` with `none` = `inf` -/
def cont (o : Ops V S) (tol : S) : Option S → Bool
  | none => o.infGe tol
  | some c => o.ge c tol

/-- the `while n < max_iter and cI >= tol` loop (util.py:233-247); fuel = `max_iter - n`. -/
def loop (o : Ops V S) (Ps : List (V → V)) (tol : S) : Nat → V → List V → Option S → Nat → Result V S
  | 0, x, ys, cI, n => ⟨x, ys, n, cI⟩
  | fuel + 1, x, ys, cI, n =>
    if cont o tol cI then
      let r := sweep o Ps ys x o.szero          -- cI = 0; for …
      loop o Ps tol fuel r.1 r.2.1 (some r.2.2) (n + 1)
    else ⟨x, ys, n, cI⟩

/-- `dykstra` with its final internal state. -/
def dykstraFull (o : Ops V S) (Ps : List (V → V)) (x0 : V) (maxIter : Nat) (tol : S) : Result V S :=
  loop o Ps tol maxIter x0 (List.replicate Ps.length o.zero) none 0

/-- `dfols.util.dykstra(P, x0, max_iter, tol)`. -/
def dykstra (o : Ops V S) (Ps : List (V → V)) (x0 : V) (maxIter : Nat) (tol : S) : V :=
  (dykstraFull o Ps x0 maxIter tol).x

/-- the routine left its loop because `cI < tol` (as opposed to: ran out of sweeps with `cI >= tol`). -/
def Result.stoppedByRule (o : Ops V S) (tol : S) (r : Result V S) : Bool :=
  match r.cI with
  | none => false
  | some c => !o.ge c tol

/-! ### `pball`, `pbox` -/

/-- operations of `pball` -/
structure BallOps (V S : Type) where
  add : V → V → V
  sub : V → V → V
  smul : S → V → V
  norm : V → S             -- `np.linalg.norm`
  div : S → S → S
  max : S → S → S          -- `np.max([a, b])`  (NaN-propagating)

/-- util.py:252-253 `c + (r/np.max([np.linalg.norm(x-c),r]))*(x-c)` -/
def pball (b : BallOps V S) (x c : V) (r : S) : V :=
  b.add c (b.smul (b.div r (b.max (b.norm (b.sub x c)) r)) (b.sub x c))

/-- util.py:256-257 `np.minimum(np.maximum(x,l), u)`, elementwise; `mn`/`mx` are `np.minimum`/`np.maximum`. -/
def pbox {α : Type} (mn mx : α → α → α) (x l u : List α) : List α :=
  List.zipWith mn (List.zipWith mx x l) u

end Dykstra
end Dfols
