/-
  Control-flow skeletons WITH general loops and `return` (for the Controller methods): same idea as Kernels/Skeleton.lean.

    done | cont | brk | ret | raise | act a k | ite c t e k | loop body k

  `loop body k`: the body any number of times — an iteration that falls through or `continue`s goes back to the loop head,
  `break` (or the end of the iteration space, at any loop head) goes on with `k`, `return` / `raise` leave the function.
  `reach` computes the monitor states at loop heads by iterating to a fixed point with fuel; `wf` checks that the fixed point
  was reached (closedness) wherever a loop is met; `reach_sound` (Proofs/SkeletonL.lean) needs `wf`.  No Mathlib.
-/
namespace Dfols
namespace SkelL

inductive Prog where
  | done | cont | brk | ret | raise
  | act (a : String) (k : Prog)
  | ite (c : String) (t e k : Prog)
  | loop (b k : Prog)
deriving Repr, Inhabited

inductive Ending where
  | fall | cont | brk | ret | raise
deriving DecidableEq, Repr, Inhabited

def Ending.again (e : Ending) : Bool := e == .fall || e == .cont
def Ending.leaves (e : Ending) : Bool := e == .ret || e == .raise

inductive Exec : Prog → List String → Ending → Prop
  | done : Exec .done [] .fall
  | cont : Exec .cont [] .cont
  | brk : Exec .brk [] .brk
  | ret : Exec .ret [] .ret
  | raise : Exec .raise [] .raise
  | act {a k tr e} : Exec k tr e → Exec (.act a k) (a :: tr) e
  | thenFall {c t el k tr1 tr2 e} : Exec t tr1 .fall → Exec k tr2 e → Exec (.ite c t el k) (tr1 ++ tr2) e
  | thenJump {c t el k tr1 e} : Exec t tr1 e → e ≠ .fall → Exec (.ite c t el k) tr1 e
  | elseFall {c t el k tr1 tr2 e} : Exec el tr1 .fall → Exec k tr2 e → Exec (.ite c t el k) (tr1 ++ tr2) e
  | elseJump {c t el k tr1 e} : Exec el tr1 e → e ≠ .fall → Exec (.ite c t el k) tr1 e
  | loopExit {b k tr e} : Exec k tr e → Exec (.loop b k) tr e
  | loopIter {b k tr1 tr2 e1 e} : Exec b tr1 e1 → e1.again = true → Exec (.loop b k) tr2 e → Exec (.loop b k) (tr1 ++ tr2) e
  | loopBrk {b k tr1 tr2 e} : Exec b tr1 .brk → Exec k tr2 e → Exec (.loop b k) (tr1 ++ tr2) e
  | loopLeave {b k tr1 e} : Exec b tr1 e → e.leaves = true → Exec (.loop b k) tr1 e

structure Mon (Q : Type) where
  step : Q → String → Q

def Mon.run {Q} (m : Mon Q) (q : Q) (tr : List String) : Q := tr.foldl m.step q

def ins {α} [DecidableEq α] (x : α) (l : List α) : List α := if x ∈ l then l else x :: l
def dedup {α} [DecidableEq α] (l : List α) : List α := l.foldr ins []

def thenK {Q} (rs : List (Q × Ending)) (k : Q → List (Q × Ending)) : List (Q × Ending) :=
  rs.flatMap fun r => if r.2 = .fall then k r.1 else [r]

/-- loop heads reachable from the heads `S` in one more iteration of a body with results `b` -/
def nextHeads {Q} [DecidableEq Q] (b : Q → List (Q × Ending)) (S : List Q) : List Q :=
  dedup (S ++ (S.flatMap b).filterMap fun r => if r.2.again then some r.1 else none)

def iterHeads {Q} [DecidableEq Q] (b : Q → List (Q × Ending)) : Nat → List Q → List Q
  | 0, S => S
  | n + 1, S => iterHeads b n (nextHeads b S)

/-- what a loop yields from the head set `H`: leave through `k` at any head or after a `break`, or leave the function -/
def loopOut {Q} (b k : Q → List (Q × Ending)) (H : List Q) : List (Q × Ending) :=
  H.flatMap fun h => k h ++ (b h).flatMap fun r =>
    if r.2 = .brk then k r.1 else if r.2.leaves then [r] else []

def fuel : Nat := 12

def reach {Q} [DecidableEq Q] (m : Mon Q) : Prog → Q → List (Q × Ending)
  | .done, q => [(q, .fall)]
  | .cont, q => [(q, .cont)]
  | .brk, q => [(q, .brk)]
  | .ret, q => [(q, .ret)]
  | .raise, q => [(q, .raise)]
  | .act a k, q => reach m k (m.step q a)
  | .ite _ t e k, q => dedup (thenK (dedup (reach m t q ++ reach m e q)) (reach m k))
  | .loop b k, q => dedup (loopOut (reach m b) (reach m k) (iterHeads (reach m b) fuel [q]))

/-- the head set is closed under one more iteration -/
def closed {Q} [DecidableEq Q] (b : Q → List (Q × Ending)) (H : List Q) : Bool :=
  H.all fun h => (b h).all fun r => !r.2.again || H.contains r.1

/-- the fixed points were reached, everywhere a loop is met on the way from `q` -/
def wf {Q} [DecidableEq Q] (m : Mon Q) : Prog → Q → Bool
  | .done, _ | .cont, _ | .brk, _ | .ret, _ | .raise, _ => true
  | .act a k, q => wf m k (m.step q a)
  | .ite _ t e k, q => wf m t q && wf m e q &&
      (dedup (reach m t q ++ reach m e q)).all fun r => r.2 != .fall || wf m k r.1
  | .loop b k, q =>
      let H := iterHeads (reach m b) fuel [q]
      closed (reach m b) H && H.all (fun h => wf m b h && wf m k h &&
        (reach m b h).all fun r => r.2 != .brk || wf m k r.1)

def allReach {Q} [DecidableEq Q] (m : Mon Q) (p : Prog) (q : Q) (ok : Q → Ending → Bool) : Bool :=
  wf m p q && (reach m p q).all fun r => ok r.1 r.2

def size : Prog → Nat
  | .done | .cont | .brk | .ret | .raise => 1
  | .act _ k => 1 + size k
  | .ite _ t e k => 1 + size t + size e + size k
  | .loop b k => 1 + size b + size k

end SkelL
end Dfols
