/-
  L0 kernel: the bound-constrained *linear* trust-region solvers of `dfols/trust_region.py`

      ball_step        (lines 556-571)
      trsbox_linear    (lines 625-681)   active-set loop, with the +-ZERO_THRESH widening of the box
      trsbox_geometry  (lines 700-717)

  and the final clipping of `trsbox`

      d_within_bounds  (lines 546-553).

  ONE definition, polymorphic in the scalar type `α` (Mathlib-free):
    * run on `Float` by the driver (`Driver/TrsDrv.lean`), where the reduction `Num.sum` is
      instantiated by left-to-right / right-to-left / nudged summation (DESIGN 2.1 comparator);
    * instantiated at an ordered field with a square root (`sum := sumTo`; `Real.sqrt` over `ℝ`) in
      `Proofs/TrsLinear.lean`;
    * `dWithinBounds` is used with *uninterpreted* `+`/`-` over an arbitrary linear order in
      `Proofs/TrsBox.lean` (any rounding).

  Inputs are total functions `Nat → α` (only indices `< n` are meaningful); every COMPUTED vector is
  materialised in an array (`vmk`) and read with `vget` — compiled Lean re-evaluates a closure-valued
  `let` at every call, which made function-valued iterates exponentially slow.
-/
namespace Dfols
namespace TrsLin

/-- The numerical environment: how reductions are summed, the square root, and `ZERO_THRESH`. -/
structure Num (α : Type) where
  /-- `sum n f` = the reduction `f 0 + … + f (n-1)` (np.dot / np.linalg.norm / np.sum) -/
  sum : Nat → (Nat → α) → α
  sqrt : α → α
  /-- `x ** 2` (libm `pow(x, 2.0)` on doubles — NOT always bit-identical to `x * x`; `x * x` on a field) -/
  sq : α → α
  /-- trust_region.py:86 `ZERO_THRESH = 1e-14` -/
  zt : α

/-- left-to-right summation starting from 0: the reference reduction. -/
def sumTo {α : Type} [OfNat α 0] [Add α] : Nat → (Nat → α) → α
  | 0, _ => 0
  | k + 1, f => sumTo k f + f k

/-- materialise the first `n` components of a vector -/
def vmk {α : Type} (n : Nat) (f : Nat → α) : Array α := Array.ofFn (n := n) fun i => f i.val

/-- read a component (0 outside the array) -/
def vget {α : Type} [OfNat α 0] (v : Array α) (i : Nat) : α := v.getD i 0

theorem vget_vmk {α : Type} [OfNat α 0] (n : Nat) (f : Nat → α) (i : Nat) (hi : i < n) : vget (vmk n f) i = f i := by
  simp [vget, vmk, Array.getD, hi]

section kernel
variable {α : Type} [OfNat α 0] [Add α] [Sub α] [Mul α] [Div α] [Neg α]
  [LT α] [LE α] [DecidableLT α] [DecidableLE α]

/-- `abs` of Python / NumPy on a non-NaN double (sign of zero aside). -/
def absv (x : α) : α := if x < 0 then -x else x

/-- `np.minimum(x, y)` / `np.maximum(x, y)` on non-NaN doubles. -/
def minv (x y : α) : α := if x ≤ y then x else y
def maxv (x y : α) : α := if x ≤ y then y else x

/-- `np.dot(u, v)` over the first `n` components. -/
def dot (N : Num α) (n : Nat) (u v : Nat → α) : α := N.sum n fun i => u i * v i

/-- trust_region.py:556-571.  Largest `alpha ≥ 0` with `‖x0 + alpha g‖ = Delta`. -/
def ballStep (N : Num α) (n : Nat) (x0 g : Nat → α) (Delta : α) : α :=
  let gdotx0 := dot N n g x0                              -- 561
  let gsqnorm := dot N n g g                              -- 562
  let x0sqnorm := dot N n x0 x0                           -- 563
  if N.sqrt gsqnorm < N.zt then 0                         -- 564-565
  else
    let inner := N.sq gdotx0 + gsqnorm * (N.sq Delta - x0sqnorm)
    (N.sqrt (maxv 0 inner) - gdotx0) / gsqnorm            -- 571

/-- state of the active-set loop of `trsbox_linear` -/
structure LinState (α : Type) where
  x : Array α
  dirn : Array α
  /-- `cons_dirns` -/
  cons : List Nat

def LinState.xf (st : LinState α) : Nat → α := vget st.x
def LinState.df (st : LinState α) : Nat → α := vget st.dirn

/-- result of the scan `for j in range(n)` at lines 658-670 -/
inductive Hit where
  | none
  | lower (j : Nat)
  | upper (j : Nat)
deriving Repr, DecidableEq

/-- lines 658-670: first index (in the given order) not in `cons_dirns` whose trial component
    reaches a side of the (widened) box. -/
def scan (cons : List Nat) (xnew a b : Nat → α) : List Nat → Hit
  | [] => .none
  | j :: js =>
    if j ∈ cons then scan cons xnew a b js                -- 659-660
    else if xnew j ≤ a j then .lower j                    -- 661-665
    else if b j ≤ xnew j then .upper j                    -- 666-670
    else scan cons xnew a b js

/-- lines 675-680: go along `dirn` until coordinate `j` sits on `bd`, fix it there. -/
def fixAt (n : Nat) (st : LinState α) (j : Nat) (bd : α) : LinState α :=
  { x := vmk n fun i => if i = j then bd else st.xf i + (bd - st.xf j) / st.df j * st.df i   -- 677-679
    dirn := vmk n fun i => if i = j then 0 else st.df i   -- 680
    cons := st.cons ++ [j] }                              -- 676

/-- `x + alpha * d` materialised (`noinline`: the scalar is evaluated once, before the call) -/
@[noinline] def axpy (n : Nat) (x : Nat → α) (alpha : α) (d : Nat → α) : Array α := vmk n fun i => x i + alpha * d i

/-- the trial point of line 653 -/
def trial (N : Num α) (n : Nat) (Delta : α) (st : LinState α) : Array α :=
  axpy n st.xf (ballStep N n st.xf st.df Delta) st.df               -- 652-653

/-- one pass of the body of `for i in range(n)` (lines 650-680): either the routine returns
    (`inl x`) or one more coordinate has been fixed (`inr st'`). -/
def linStep (N : Num α) (n : Nat) (a b : Nat → α) (Delta : α) (st : LinState α) : Sum (Array α) (LinState α) :=
  if N.sqrt (dot N n st.df st.df) < N.zt then .inl st.x                -- 650-651
  else
    match scan st.cons (vget (trial N n Delta st)) a b (List.range n) with
    | .none => .inl (trial N n Delta st)                               -- 672-673
    | .lower j => .inr (fixAt n st j (a j))
    | .upper j => .inr (fixAt n st j (b j))

/-- lines 649-681 with the `for i in range(n)` counter as fuel. -/
def linLoop (N : Num α) (n : Nat) (a b : Nat → α) (Delta : α) : Nat → LinState α → Array α
  | 0, st => st.x                                                     -- 681
  | f + 1, st =>
    match linStep N n a b Delta st with
    | .inl x => x
    | .inr st' => linLoop N n a b Delta f st'

/-- lines 631-632: the widened box. -/
def widenLo (N : Num α) (aIn : Nat → α) : Nat → α := fun i => minv (aIn i) (-N.zt)
def widenHi (N : Num α) (bIn : Nat → α) : Nat → α := fun i => maxv (bIn i) N.zt

/-- lines 641-647: initial direction `-g` with tiny components zeroed and declared constant. -/
def initDirn (N : Num α) (g : Nat → α) : Nat → α :=
  fun i => if absv (-(g i)) < N.zt then 0 else -(g i)

def initCons (N : Num α) (n : Nat) (g : Nat → α) : List Nat :=
  (List.range n).filter fun i => decide (absv (-(g i)) < N.zt)

def initState (N : Num α) (n : Nat) (g : Nat → α) : LinState α :=
  { x := vmk n fun _ => 0, dirn := vmk n (initDirn N g), cons := initCons N n g }

/-- trust_region.py:625-681 (Python branch, `use_fortran = False`); read the result with `vget`. -/
def trsboxLinear (N : Num α) (n : Nat) (g aIn bIn : Nat → α) (Delta : α) : Array α :=
  linLoop N n (widenLo N aIn) (widenHi N bIn) Delta n (initState N n g)

/-- the two candidates of `trsbox_geometry` (lines 712-713) -/
def geomSmin (N : Num α) (n : Nat) (xbase g lower upper : Nat → α) (Delta : α) : Array α :=
  trsboxLinear N n g (fun i => lower i - xbase i) (fun i => upper i - xbase i) Delta
def geomSmax (N : Num α) (n : Nat) (xbase g lower upper : Nat → α) (Delta : α) : Array α :=
  trsboxLinear N n (fun i => -(g i)) (fun i => lower i - xbase i) (fun i => upper i - xbase i) Delta

/-- the step `s = x - xbase` chosen at lines 714-717 -/
def geomStep (N : Num α) (n : Nat) (xbase : Nat → α) (c : α) (g lower upper : Nat → α) (Delta : α) : Array α :=
  if absv (c + dot N n g (vget (geomSmax N n xbase g lower upper Delta))) ≤
     absv (c + dot N n g (vget (geomSmin N n xbase g lower upper Delta)))            -- 714
  then geomSmin N n xbase g lower upper Delta else geomSmax N n xbase g lower upper Delta

/-- `xbase + s` materialised (`noinline`: `s` is evaluated once, before the call) -/
@[noinline] def addStep (n : Nat) (xbase : Nat → α) (s : Array α) : Array α := vmk n fun i => xbase i + vget s i

/-- trust_region.py:700-717. -/
def trsboxGeometry (N : Num α) (n : Nat) (xbase : Nat → α) (c : α) (g lower upper : Nat → α) (Delta : α) : Array α :=
  addStep n xbase (geomStep N n xbase c g lower upper Delta)                         -- 715 / 717

end kernel

/-! ### `d_within_bounds` (trust_region.py:546-553) -/
section clip
variable {α : Type} [Add α] [Sub α] [Min α] [Max α]

/-- lines 549-551: `xnew = max(min(xopt + d, su), sl)`, then components flagged `xbdi = -1 / +1`
    are set to the bound itself. -/
def xnewClip (d xopt sl su : Nat → α) (xbdi : Nat → Int) : Nat → α :=
  fun i => if xbdi i = -1 then sl i else if xbdi i = 1 then su i
           else max (min (xopt i + d i) (su i)) (sl i)

/-- lines 552-553: the returned step. -/
def dWithinBounds (d xopt sl su : Nat → α) (xbdi : Nat → Int) : Nat → α :=
  fun i => xnewClip d xopt sl su xbdi i - xopt i

end clip

end TrsLin
end Dfols
