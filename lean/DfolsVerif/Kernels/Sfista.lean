/-
  Operation record for the parameter block of `trust_region.ctrsbox_sfista` (S-FISTA: number of iterations, smoothing
  parameter, Lipschitz constant).  The block itself is translated from /repo's AST on every run (Gen/SfistaFns.lean);
  Proofs/Sfista.lean instantiates the record with real arithmetic.
-/
namespace Dfols

structure SfistaOps (F : Type) where
  add : F → F → F
  mul : F → F → F
  div : F → F → F
  sqrt : F → F            -- math.sqrt (raises ValueError on a negative argument: the `except` branch)
  ceil : F → Nat          -- math.ceil of a non-negative float
  ofNat : Nat → F

/-- how a name in the `return` statement of `ctrsbox_sfista` gets its value -/
structure RetBinding where
  name : String
  boundBeforeLoop : Bool          -- assigned by a top-level statement before the `for k in range(MAX_LOOP_ITERS)` loop
  boundInLoopBody : Bool          -- assigned by a top-level (unconditional) statement of the loop body
deriving DecidableEq, Repr

end Dfols
