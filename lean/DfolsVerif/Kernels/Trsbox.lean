/-
  L0 kernel: executable port of the bound-constrained trust-region sub-problem solver

      trsbox            dfols/trust_region.py:234-384   (truncated CG with active-set restarts)
      alt_trust_step    dfols/trust_region.py:388-543   (two-dimensional boundary refinement)
      d_within_bounds   dfols/trust_region.py:546-553   (= `TrsLin.dWithinBounds`, shared with the proofs)

  over `Array Float` (IEEE binary64, the same arithmetic as NumPy) with explicit fuel
  `MAX_LOOP_ITERS = 100·n²` exactly as in the code (lines 278, 389).

  Every *reduction* (`np.dot`, `sumsq`, `H.dot`, `np.sum`) goes through `Arith.red`, so that the
  driver can run the port under several summation orders (DESIGN 2.1, conditioning-aware
  comparator); every `x ** 2` goes through `Arith.sq` (libm `pow(x,2)` in CPython/NumPy scalars).
  Everything else is scalar / elementwise double arithmetic in the order written in the Python.

  Structure (so that the box clause can be proved for every input, `Proofs/TrsBox.lean`):
      trsbox = finish ∘ (alt loop)? ∘ (CG loop) ,   finish = d_within_bounds
  `xbdi` bookkeeping is isolated in `initXbdi`, `fixAfterCG`, `angScan` and `fixAfterRotation`.
-/
import DfolsVerif.Kernels.TrsboxLinear

namespace Dfols
namespace Trs

abbrev FV := Array Float

/-- how reductions and squares are evaluated -/
structure Arith where
  red : List Float → Float
  sq : Float → Float

/-- reference arithmetic: left-to-right sums from 0.0, `pow(x, 2.0)` -/
def Arith.ltr : Arith := { red := fun l => l.foldl (· + ·) 0.0, sq := fun x => Float.pow x 2.0 }

/-- Python's builtin `min(a, b)` / `max(a, b)` on floats (first argument wins ties / NaN). -/
def pymin (a b : Float) : Float := if b < a then b else a
def pymax (a b : Float) : Float := if b > a then b else a

@[inline] def at' (v : FV) (i : Nat) : Float := v.getD i 0.0

/-- indices with `xbdi == 0`, increasing (the order of NumPy's boolean-mask compression) -/
def freeIdx (n : Nat) (xbdi : Array Int) : List Nat := (List.range n).filter fun i => xbdi.getD i 0 == 0

def dotOn (A : Arith) (idx : List Nat) (u v : FV) : Float := A.red (idx.map fun i => at' u i * at' v i)

/-- `H.dot(s)`, `H` row-major -/
def matVec (A : Arith) (n : Nat) (H s : FV) : FV :=
  Array.ofFn (n := n) fun i => A.red ((List.range n).map fun j => at' H (i.val * n + j) * at' s j)

def vmap2 {α : Type} (n : Nat) (f : Nat → α) : Array α := Array.ofFn (n := n) fun i => f i.val

/-! ### xbdi bookkeeping -/

/-- lines 265-267 -/
def initXbdi (n : Nat) (xopt g sl su : FV) : Array Int :=
  Array.ofFn (n := n) fun i =>
    let i := i.val
    if at' xopt i ≥ at' su i ∧ at' g i ≤ 0.0 then 1          -- 267 (assigned second, wins)
    else if at' xopt i ≤ at' sl i ∧ at' g i ≥ 0.0 then -1    -- 266
    else 0

/-! ### the final projection (lines 546-553), shared with the proofs -/

/-- `d_within_bounds` over any scalar type (arbitrary `+`, `-`, `min`, `max`) -/
def finishG {α : Type} [Add α] [Sub α] [Min α] [Max α] (n : Nat) (d xopt sl su : Nat → α) (xbdi : Nat → Int) : Array α :=
  vmap2 n (TrsLin.dWithinBounds d xopt sl su xbdi)

/-- the instance the port runs: IEEE doubles -/
def finish (n : Nat) (d xopt sl su : FV) (xbdi : Array Int) : FV :=
  finishG n (at' d) (at' xopt) (at' sl) (at' su) (fun i => xbdi.getD i 0)

/-! ### main CG loop (lines 262-376) -/

structure CG where
  d : FV
  s : FV
  gnew : FV
  xbdi : Array Int
  nact : Nat := 0
  iterc : Nat := 0
  itermax : Nat := 0
  qred : Float := 0.0
  delsq : Float
  crvmin : Float := -1.0
  beta : Float := 0.0
  gredsq : Float := 0.0
  gredsq0 : Float := 0.0
  ggsav : Float := 0.0

inductive Step (σ : Type) where
  | continue (st : σ)
  | quit (st : σ)       -- need_alt_trust_step = False
  | alt (st : σ)        -- need_alt_trust_step = True

/-- lines 330-336: reduce `stplen` to preserve the simple bounds -/
def boundScan (xopt sl su d s : FV) : List Nat → Float × Option Nat → Float × Option Nat
  | [], acc => acc
  | i :: is, (stplen, iact) =>
    let si := at' s i
    if si != 0.0 then
      let num := if si > 0.0 then at' su i - at' xopt i - at' d i else at' sl i - at' xopt i - at' d i
      let temp := num / si
      if temp < stplen then boundScan xopt sl su d s is (temp, some i)
      else boundScan xopt sl su d s is (stplen, iact)
    else boundScan xopt sl su d s is (stplen, iact)

/-- lines 353-356: fix the variable that hit its bound -/
def fixAfterCG (xbdi : Array Int) (iact : Nat) (siact : Float) : Array Int :=
  xbdi.setIfInBounds iact (if siact ≥ 0.0 then 1 else -1)

/-- one pass of the `for ii in range(MAX_LOOP_ITERS)` body, lines 281-375 -/
def cgStep (A : Arith) (n : Nat) (xopt H sl su : FV) (st : CG) : Step CG :=
  let free := freeIdx n st.xbdi
  let isFree := fun i => st.xbdi.getD i 0 == 0
  -- 281-285
  let s : FV := vmap2 n fun i =>
    if isFree i then (if st.beta == 0.0 then -(at' st.gnew i) else st.beta * at' st.s i - at' st.gnew i) else 0.0
  let stepsq := dotOn A (List.range n) s s                                   -- 286
  let st := { st with s := s }
  if stepsq == 0.0 then .quit st else                                        -- 288-290
  let st := if st.beta == 0.0 then { st with gredsq := stepsq, itermax := st.iterc + n - st.nact } else st   -- 292-294
  let st := if st.iterc == 0 then { st with gredsq0 := st.gredsq } else st   -- 296-297
  -- 300
  if st.gredsq ≤ pymin (1.0e-6 * st.gredsq0) 1.0e-18 ∨ st.gredsq * st.delsq ≤ pymin (1.0e-6 * A.sq st.qred) 1.0e-18 then .quit st else
  let hs := matVec A n H s                                                   -- 309
  let ds := dotOn A free s st.d                                              -- 312
  let shs := dotOn A free s hs                                               -- 313
  let resid := st.delsq - dotOn A free st.d st.d                             -- 314
  if resid ≤ 0.0 then .alt st else                                           -- 315-317
  let temp := Float.sqrt (stepsq * resid + A.sq ds)                          -- 319
  let blen := if ds ≥ 0.0 then resid / (temp + ds) else (temp - ds) / stepsq -- 320
  let stplen := if shs ≤ 0.0 then blen else pymin blen (st.gredsq / shs)     -- 321
  if stplen ≤ 1.0e-30 then .quit st else                                     -- 324-326
  let (stplen, iact) := boundScan xopt sl su st.d s (List.range n) (stplen, none)   -- 330-336
  -- 339-350
  let (st, sdec) :=
    if stplen > 0.0 then
      let temp := shs / stepsq
      let crvmin := if iact.isNone ∧ temp > 0.0 then (if st.crvmin != -1.0 then pymin st.crvmin temp else temp) else st.crvmin
      let ggsav := st.gredsq
      let gnew := vmap2 n fun i => at' st.gnew i + stplen * at' hs i         -- 346
      let d := vmap2 n fun i => at' st.d i + stplen * at' s i                -- 347
      let gredsq := dotOn A free gnew gnew                                   -- 348
      let sdec := pymax (stplen * (ggsav - 0.5 * stplen * shs)) 0.0          -- 349
      ({ st with iterc := st.iterc + 1, crvmin := crvmin, ggsav := ggsav, gnew := gnew, d := d,
                 gredsq := gredsq, qred := st.qred + sdec }, sdec)
    else (st, 0.0)
  match iact with
  | some ia =>                                                               -- 353-361
    let st := { st with nact := st.nact + 1, xbdi := fixAfterCG st.xbdi ia (at' s ia),
                        delsq := st.delsq - A.sq (at' st.d ia) }
    if st.delsq ≤ 0.0 then .alt st else .continue { st with beta := 0.0 }
  | none =>
    if stplen ≥ blen then .alt st else                                       -- 365-367
    if st.iterc == st.itermax ∨ sdec ≤ 1.0e-6 * st.qred then .quit st else   -- 370-372
    .continue { st with beta := st.gredsq / st.ggsav }                       -- 374

/-- lines 280-376; `true` = need_alt_trust_step.  Fuel exhausted ⇒ the flag keeps its initial `False`. -/
def cgLoop (A : Arith) (n : Nat) (xopt H sl su : FV) : Nat → CG → Bool × CG
  | 0, st => (false, st)
  | f + 1, st =>
    match cgStep A n xopt H sl su st with
    | .continue st' => cgLoop A n xopt H sl su f st'
    | .quit st' => (false, st')
    | .alt st' => (true, st')

/-! ### alternative (boundary) iteration, lines 388-543 -/

structure Alt where
  d : FV
  gnew : FV
  xbdi : Array Int
  nact : Nat
  qred : Float
  -- locals of the label-120 loop
  s : FV := #[]
  hred : FV := #[]
  dredsq : Float := 0.0
  dredg : Float := 0.0
  gredsq : Float := 0.0
  rdprev : Float := 0.0
  rdnext : Float := 0.0

/-- lines 431-460: either a free variable already sits on a bound (`inl (i, ±1)`), or the bound
    `angbd` on the tangent of half the rotation angle with the restricting variable. -/
def angScan (xopt sl su d s : FV) (xbdi : Array Int) :
    List Nat → Float × Option (Nat × Int) → Sum (Nat × Int) (Float × Option (Nat × Int))
  | [], acc => .inr acc
  | i :: is, (angbd, iact) =>
    if xbdi.getD i 0 == 0 then
      let tempa := at' xopt i + at' d i - at' sl i                           -- 433
      let tempb := at' su i - at' xopt i - at' d i                           -- 434
      if tempa ≤ 0.0 then .inl (i, -1)                                       -- 435-439
      else if tempb ≤ 0.0 then .inl (i, 1)                                   -- 440-444
      else
        let di := at' d i
        let si := at' s i
        let ssq := Float.pow di 2.0 + Float.pow si 2.0                       -- 445
        let (angbd, iact) :=
          let temp := ssq - Float.pow (at' xopt i - at' sl i) 2.0            -- 446
          if temp > 0.0 then
            let temp := Float.sqrt temp - si
            if angbd * temp > tempa then (tempa / temp, some (i, (-1 : Int))) else (angbd, iact)
          else (angbd, iact)
        let (angbd, iact) :=
          let temp := ssq - Float.pow (at' su i - at' xopt i) 2.0            -- 453
          if temp > 0.0 then
            let temp := Float.sqrt temp + si
            if angbd * temp > tempb then (tempb / temp, some (i, (1 : Int))) else (angbd, iact)
          else (angbd, iact)
        angScan xopt sl su d s xbdi is (angbd, iact)
    else angScan xopt sl su d s xbdi is (angbd, iact)

/-- lines 436-443 / 525-526 -/
def fixAfterRotation (xbdi : Array Int) (i : Nat) (side : Int) : Array Int := xbdi.setIfInBounds i side

structure Grid where
  redmax : Float := 0.0
  isav : Int := -1
  redsav : Float := 0.0
  rdprev : Float
  rdnext : Float
  angt : Float := 0.0

/-- lines 482-493 -/
def gridSearch (angbd shs dhd dhs dredg sredg : Float) (iu : Nat) : List Nat → Grid → Grid
  | [], g => g
  | i :: is, g =>
    let angt := angbd * Float.ofNat (i + 1) / Float.ofNat iu                 -- 483
    let sth := 2.0 * angt / (1.0 + Float.pow angt 2.0)                       -- 484
    let temp := shs + angt * (angt * dhd - 2.0 * dhs)                        -- 485
    let rednew := sth * (angt * dredg - sredg - 0.5 * sth * temp)            -- 486
    let g := { g with angt := angt }
    let g :=
      if rednew > g.redmax then { g with redmax := rednew, isav := i, rdprev := g.redsav }   -- 487-490
      else if (i : Int) == g.isav + 1 then { g with rdnext := rednew }                        -- 491-492
      else g
    gridSearch angbd shs dhd dhs dredg sredg iu is { g with redsav := rednew }                -- 493

inductive AltStep where
  | continue (st : Alt)
  | ret (st : Alt)        -- restart_alt_loop = False
  | restart (st : Alt)    -- restart_alt_loop = True

/-- one pass of the label-120 loop body, lines 415-533 -/
def altInner (A : Arith) (n : Nat) (xopt H sl su : FV) (st : Alt) : AltStep :=
  let free := freeIdx n st.xbdi
  let isFree := fun i => st.xbdi.getD i 0 == 0
  let temp := st.gredsq * st.dredsq - A.sq st.dredg                          -- 415
  if temp ≤ 1.0e-4 * A.sq st.qred then .ret st else                          -- 416-418
  let temp := Float.sqrt temp                                                -- 419
  let s : FV := vmap2 n fun i =>
    if isFree i then (st.dredg * at' st.d i - st.dredsq * at' st.gnew i) / temp else 0.0   -- 420-421
  let sredg := -temp                                                         -- 422
  let st := { st with s := s }
  match angScan xopt sl su st.d s st.xbdi (List.range n) (1.0, none) with
  | .inl (i, side) =>                                                        -- 435-444, 461-463
    .restart { st with nact := st.nact + 1, xbdi := fixAfterRotation st.xbdi i side }
  | .inr (angbd, iact) =>
    let hs := matVec A n H s                                                 -- 466
    let shs := A.red (free.map fun i => at' s i * at' hs i)                  -- 470
    let dhs := A.red (free.map fun i => at' st.d i * at' hs i)               -- 471
    let dhd := A.red (free.map fun i => at' st.d i * at' st.hred i)          -- 472
    let iu := (17.0 * angbd + 3.1).floor.toUInt64.toNat                      -- 481
    let g := gridSearch angbd shs dhd dhs st.dredg sredg iu (List.range iu)
      { rdprev := st.rdprev, rdnext := st.rdnext }
    let st := { st with rdprev := g.rdprev, rdnext := g.rdnext }
    if g.isav == -1 then .ret st else                                        -- 497-499
    let angt :=
      if g.isav < (iu : Int) - 1 then                                        -- 501-503
        let temp := (g.rdnext - g.rdprev) / (2.0 * g.redmax - g.rdprev - g.rdnext)
        angbd * (Float.ofInt (g.isav + 1) + 0.5 * temp) / Float.ofNat iu
      else g.angt
    let cth := (1.0 - Float.pow angt 2.0) / (1.0 + Float.pow angt 2.0)       -- 505
    let sth := 2.0 * angt / (1.0 + Float.pow angt 2.0)                       -- 506
    let temp := shs + angt * (angt * dhd - 2.0 * dhs)                        -- 507
    let sdec := sth * (angt * st.dredg - sredg - 0.5 * sth * temp)           -- 508
    if sdec ≤ 0.0 then .ret st else                                          -- 510-512
    let gnew := vmap2 n fun i => at' st.gnew i + ((cth - 1.0) * at' st.hred i + sth * at' hs i)   -- 517
    let d := vmap2 n fun i => if isFree i then cth * at' st.d i + sth * at' s i else at' st.d i  -- 518
    let dredg := dotOn A free d gnew                                         -- 519
    let gredsq := dotOn A free gnew gnew                                     -- 520
    let hred := vmap2 n fun i => cth * at' st.hred i + sth * at' hs i        -- 521
    let st := { st with gnew := gnew, d := d, dredg := dredg, gredsq := gredsq, hred := hred,
                        qred := st.qred + sdec }                             -- 523
    match iact with
    | some (ia, side) =>
      if g.isav == (iu : Int) - 1 then                                       -- 524-528
        .restart { st with nact := st.nact + 1, xbdi := fixAfterRotation st.xbdi ia side }
      else if sdec ≤ 0.01 * st.qred then .ret st else .continue st           -- 530-533
    | none => if sdec ≤ 0.01 * st.qred then .ret st else .continue st

/-- label-120 loop (lines 414-533) with fuel; `true` = restart_alt_loop -/
def altInnerLoop (A : Arith) (n : Nat) (xopt H sl su : FV) : Nat → Alt → Bool × Alt
  | 0, st => (false, st)
  | f + 1, st =>
    match altInner A n xopt H sl su st with
    | .continue st' => altInnerLoop A n xopt H sl su f st'
    | .ret st' => (false, st')
    | .restart st' => (true, st')

/-- label-100 loop (lines 391-540) with fuel; returns the state that is then clipped -/
def altLoop (A : Arith) (n : Nat) (xopt H sl su : FV) (maxIters : Nat) : Nat → Alt → Alt
  | 0, st => st
  | f + 1, st =>
    if st.nact ≥ n - 1 then st else                                          -- 392-393
    let free := freeIdx n st.xbdi
    let s := vmap2 n fun i => if st.xbdi.getD i 0 == 0 then at' st.d i else 0.0    -- 398-399
    let st := { st with
      s := s
      dredsq := dotOn A free st.d st.d                                       -- 400
      dredg := dotOn A free st.d st.gnew                                     -- 401
      gredsq := dotOn A free st.gnew st.gnew                                 -- 402
      hred := matVec A n H s }                                               -- 405-407
    match altInnerLoop A n xopt H sl su maxIters st with
    | (true, st') => altLoop A n xopt H sl su maxIters f st'                 -- 537-538
    | (false, st') => st'                                                    -- 539-540

/-! ### trsbox -/

structure Result where
  d : FV
  gnew : FV
  crvmin : Float
  /-- coverage tags (not part of the Python result) -/
  alt : Bool
  iterc : Nat
  nact : Nat
  /-- the un-clipped step and the flags handed to `d_within_bounds` -/
  dRaw : FV
  xbdi : Array Int

/-- the state after both loops, before the final clipping: (alt taken?, d, gnew, xbdi, crvmin, iterc, nact) -/
def trsboxCore (A : Arith) (n : Nat) (xopt g H sl su : FV) (delta : Float) : Result :=
  let maxIters := 100 * n ^ 2                                                -- 278 / 389
  let st0 : CG := { d := vmap2 n fun _ => 0.0, s := vmap2 n fun _ => 0.0, gnew := vmap2 n (at' g),
                    xbdi := initXbdi n xopt g sl su, delsq := A.sq delta }
  let (needAlt, st) := cgLoop A n xopt H sl su maxIters st0
  if needAlt then                                                            -- 379-382
    let a := altLoop A n xopt H sl su maxIters maxIters
      { d := st.d, gnew := st.gnew, xbdi := st.xbdi, nact := st.nact, qred := st.qred }
    { d := a.d, gnew := a.gnew, crvmin := 0.0, alt := true, iterc := st.iterc, nact := a.nact, dRaw := a.d, xbdi := a.xbdi }
  else                                                                       -- 383-384
    { d := st.d, gnew := st.gnew, crvmin := st.crvmin, alt := false, iterc := st.iterc, nact := st.nact, dRaw := st.d, xbdi := st.xbdi }

/-- trust_region.py:234-384 (Python branch). Both return paths (382 via 393/543, and 384) end in
    `d_within_bounds`. -/
def trsbox (A : Arith) (n : Nat) (xopt g H sl su : FV) (delta : Float) : Result :=
  let r := trsboxCore A n xopt g H sl su delta
  { r with d := finish n r.dRaw xopt sl su r.xbdi }

end Trs
end Dfols
