/-
  L0 — the interpolation *specification* of `dfols.model.Model` (exact arithmetic, interpretation E).

  Mirrors (function names are the stable reference; line numbers are those of dfols/model.py at
  /repo commit 37fd173 = pinned commit + the `fix:` commits so far, and move with every further fix):

    interpolation_matrix            309-322   `design`, `rightScaling`
    factorise_geom_system           324-335   (QR: a *hypothesis*, see `Proofs/Interp.lean` `qr_normal_eqs`, `qr_growing`)
    solve_geom_system               337-355   `colScale`; the LAPACK solve itself is a *hypothesis*
                                              (`W * x = F`, or the normal equations `Wᵀ * (W * x - F) = 0`)
    interpolate_mini_models_svd     392-393   `modelJac`, `modelConst`, `IModel.fit`
                                    409-410   `IModel.fitCompleted` (full-rank completion; `…Old` = pinned formula)
    model_value                     302-307   `modelVal`
    shift_base                      258-269   `IModel.shiftBase`
    build_full_model                420-429   `IModel.buildFullModel`
    lagrange_gradient               431-450   `lagrangeVal` (value of L_k, "all based at xopt")
    solver.py 1170-1172 (+ util.remove_scaling 219-229)   `unscaleJac`, `unscalePoint`
    controller.calculate_ratio      736-757, util.model_value 82-90   `quadModel`, `sumsq`

  Everything is over a field `K` (ℚ for the `example`s and the executable driver, ℝ for the
  analytic reading).  Index types: `ι` interpolation points (rows of `points`), `ν` coordinates,
  `μ` residual components; the columns of the interpolation matrix are indexed by `Option ν`
  (`none` = the column of ones, `some j` = coordinate `j`).

  What is *not* here (and is not provable with this tool chain): LAPACK (`qr`, `solve_triangular`,
  `lstsq`) and every rounding error.  A theorem about this file says what the code computes *if*
  the linear solve is exact; the float gap is watched by the correspondence / search with
  tolerances proportional to cond(W).

  The only Mathlib import is the definition of matrix products (`Matrix`, `*ᵥ`, `ᵀ`).
-/
import Mathlib.Data.Matrix.Mul

namespace Dfols
namespace Interp

open Matrix

variable {K : Type*} [Field K] {ι ν μ : Type*} [Fintype ι] [Fintype ν] [Fintype μ]

/-! ### the interpolation system -/

/-- `interpolation_matrix` (model.py:309-317): row `t` is `(1, (y_t - xopt) / approx_delta)`.
    `δ` is `approx_delta` (`sqrt(max_t ‖y_t - xopt‖²)`, or `1.0` without preconditioning); the
    theorems hold for every `δ` (`δ ≠ 0` where a division has to be undone). -/
def design (Y : Matrix ι ν K) (xopt : ν → K) (δ : K) : Matrix ι (Option ν) K :=
  Matrix.of fun t o =>
    match o with
    | none => 1
    | some j => (Y t j - xopt j) / δ

/-- `right_scaling` (model.py:320-321): `1` for the constant column, `1/approx_delta` elsewhere. -/
def rightScaling (δ : K) : Option ν → K
  | none => 1
  | some _ => 1 / δ

/-- `col_scale(x, right_scaling)` (model.py:339, 346, 350): row `o` of the solution is multiplied
    by `right_scaling[o]`. -/
def colScale (s : Option ν → K) (x : Matrix (Option ν) μ K) : Matrix (Option ν) μ K :=
  Matrix.of fun o i => s o * x o i

/-- `model_jac = dg[1:,:].T` (model.py:392). -/
def modelJac (dg : Matrix (Option ν) μ K) : Matrix μ ν K :=
  Matrix.of fun i j => dg (some j) i

/-- `model_const = dg[0,:] - np.dot(model_jac, xopt)` (model.py:393). -/
def modelConst (dg : Matrix (Option ν) μ K) (xopt : ν → K) : μ → K :=
  fun i => dg none i - (modelJac dg *ᵥ xopt) i

/-- `model_value(y, d_based_at_xopt=False, with_const_term=True)` (model.py:302-307):
    the vector of residual models at the point `xbase + y`. -/
def modelVal (c : μ → K) (J : Matrix μ ν K) (y : ν → K) : μ → K :=
  c + J *ᵥ y

/-- value at `y` (relative to xbase) of the Lagrange function whose coefficients are column `k` of
    the solution for the right-hand side `I` (model.py:440-450: "constant, gradient [all based at
    xopt]"; evaluated as `c + g·(y - xopt)` in `poisedness_constant`, model.py:470). -/
def lagrangeVal (dg : Matrix (Option ν) ι K) (xopt : ν → K) (k : ι) (y : ν → K) : K :=
  dg none k + ∑ j, dg (some j) k * (y j - xopt j)

/-! ### the fit, stated without reference to the centre `xopt` or the preconditioner -/

/-- `(c, J)` reproduces the data `F` at the points `Y`. -/
def Interpolates (Y : Matrix ι ν K) (F : Matrix ι μ K) (c : μ → K) (J : Matrix μ ν K) : Prop :=
  ∀ t, modelVal c J (Y t) = F t

/-- `(c, J)` is a least-squares fit of the data `F` at the points `Y`: for every residual
    component the misfit vector is orthogonal to the column of ones and to every coordinate
    column (the normal equations of `min Σ_t (c + J y_t - F_t)²`). -/
def IsLSQFit (Y : Matrix ι ν K) (F : Matrix ι μ K) (c : μ → K) (J : Matrix μ ν K) : Prop :=
  (∀ i, ∑ t, (modelVal c J (Y t) i - F t i) = 0) ∧
  (∀ j i, ∑ t, Y t j * (modelVal c J (Y t) i - F t i) = 0)

/-- the points do not lie in a common hyperplane: the matrix with rows `(1, y_t)` has full column
    rank (`n+1` points: affine independence).  Independent of the base point and of `xopt`. -/
def FullRank (Y : Matrix ι ν K) : Prop :=
  ∀ (a : K) (v : ν → K), (∀ t, a + v ⬝ᵥ Y t = 0) → a = 0 ∧ v = 0

/-! ### the numerical content of a `Model` object -/

/-- the arrays of `Model` that the interpolation code reads and writes. -/
structure IModel (K : Type*) (ι ν μ : Type*) where
  xbase : ν → K              -- xbase
  Y : Matrix ι ν K           -- points[t,:]  (relative to xbase)
  F : Matrix ι μ K           -- fval_v[t,:]
  kopt : ι
  c : μ → K                  -- model_const
  J : Matrix μ ν K           -- model_jac

namespace IModel

/-- `xopt()` (relative coordinates) -/
def xopt (s : IModel K ι ν μ) : ν → K := s.Y s.kopt

/-- absolute coordinates of point `t` (`xbase + points[t]`). -/
def absPoint (s : IModel K ι ν μ) (t : ι) : ν → K := s.xbase + s.Y t

/-- residual models at an *absolute* point `x`. -/
def valueAtAbs (s : IModel K ι ν μ) (x : ν → K) : μ → K := modelVal s.c s.J (x - s.xbase)

/-- the assignments of `interpolate_mini_models_svd` (model.py:384, 392-393) given the value `x`
    returned by the triangular solve (before `col_scale(·, right_scaling)`). -/
def fit (s : IModel K ι ν μ) (δ : K) (x : Matrix (Option ν) μ K) : IModel K ι ν μ :=
  let dg := colScale (rightScaling δ) x
  { s with J := modelJac dg, c := modelConst dg s.xopt }

/-- `shift_base(sh)` (model.py:258-269): `points -= sh; xbase += sh; model_const += J·sh`
    (`sl`, `su` are not part of this state). -/
def shiftBase (s : IModel K ι ν μ) (sh : ν → K) : IModel K ι ν μ :=
  { s with Y := fun t => s.Y t - sh, xbase := s.xbase + sh, c := s.c + s.J *ᵥ sh }

/-- `build_full_model()` (model.py:420-429): `r = c + J·xopt`, `g = 2 Jᵀ r`, `H = 2 Jᵀ J`. -/
def buildFullModel (s : IModel K ι ν μ) : (ν → K) × Matrix ν ν K :=
  let r := s.c + s.J *ᵥ s.xopt
  ((2 : K) • (s.Jᵀ *ᵥ r), (2 : K) • (s.Jᵀ * s.J))

/-- full-rank completion (`make_full_rank=True`, model.py:401-410, after `fix:` e983ea1): the
    Jacobian is replaced by the SVD-completed `Jn` **and the constant term is recomputed from it**
    (`model_const = dg[0,:] - np.dot(model_jac, xopt)` with the new `model_jac`). -/
def fitCompleted (s : IModel K ι ν μ) (dg : Matrix (Option ν) μ K) (Jn : Matrix μ ν K) : IModel K ι ν μ :=
  { s with J := Jn, c := fun i => dg none i - (Jn *ᵥ s.xopt) i }

/-- the pinned formula: `model_const` keeps the value computed from the *un-completed* Jacobian
    (model.py:387 at the pinned commit), only `model_jac` is replaced (pinned model.py:403). -/
def fitCompletedOld (s : IModel K ι ν μ) (dg : Matrix (Option ν) μ K) (Jn : Matrix μ ν K) : IModel K ι ν μ :=
  { s with J := Jn, c := modelConst dg s.xopt }

end IModel

/-! ### Gauss–Newton model and the acceptance ratio -/

/-- `sumsq` (util.py) -/
def sumsq (r : μ → K) : K := r ⬝ᵥ r

/-- `model_value(g, H, d)` (util.py:82-86): `d·(g + ½ H d)`. -/
def quadModel (g : ν → K) (H : Matrix ν ν K) (d : ν → K) : K :=
  d ⬝ᵥ (g + (1 / 2 : K) • (H *ᵥ d))

/-- affine residuals `r(x) = A x - b`. -/
def affineResid (A : Matrix μ ν K) (b : μ → K) (x : ν → K) : μ → K := A *ᵥ x - b

/-! ### internal scaling (solver.py:1009-1017, 1170-1172; util.py:212-229) -/

/-- `remove_scaling(z, (shift, scale)) = shift + z * scale` (elementwise). -/
def unscalePoint (shift scale : ν → K) (z : ν → K) : ν → K := fun j => shift j + z j * scale j

/-- `jacmin[:, i] = jacmin[:, i] / scale[i]` (solver.py:1170-1172). -/
def unscaleJac (scale : ν → K) (J : Matrix μ ν K) : Matrix μ ν K := Matrix.of fun i j => J i j / scale j

end Interp
end Dfols
