/-
  L0 kernel `RandDirs` — the random-direction generators of util.py:

    util.py:93-100     get_scale
    util.py:175-209    random_directions_within_bounds
    util.py:103-172    random_orthog_directions_within_bounds

  The random inputs are INPUTS of the model: the raw `np.random.normal` draws, the value
  `np.linalg.norm(dirn)` the implementation computed for each of them (a BLAS reduction, not
  bit-reproducible: passed in as an oracle value), and the orthonormal factor `Qred` returned by
  `np.linalg.qr`.  Everything else is scalar / elementwise and is compared bit for bit on `Float`.

  Mathlib-free, polymorphic in the scalar type; vectors are functions `Nat → α` plus a dimension.
-/
import DfolsVerif.Kernels.InitDirs

namespace Dfols.RandDirs
open Dfols.InitDirs (pymin npmin npmax)

section
variable {α : Type} [Add α] [Sub α] [Mul α] [Div α] [Neg α] [LT α] [DecidableLT α] [BEq α] [OfScientific α]

/-- util.py:93-100, loop body for index `j` -/
def scaleStep (dirn lower upper : Nat → α) (s : α) (j : Nat) : α :=
  if dirn j < (0.0 : α) then pymin s (lower j / dirn j)
  else if (0.0 : α) < dirn j then pymin s (upper j / dirn j)
  else s

/-- util.py:93-100 -/
def getScale (n : Nat) (dirn : Nat → α) (delta : α) (lower upper : Nat → α) : α :=
  (List.range n).foldl (scaleStep dirn lower upper) delta

/-- util.py:121-123 / 189-191: `lower == 0` or `upper == 0` -/
def active (lower upper : Nat → α) (j : Nat) : Bool := lower j == (0.0 : α) || upper j == (0.0 : α)

/-- `1.0 if idx_l[idx] else -1.0` -/
def signOf (lower : Nat → α) (j : Nat) : α := if lower j == (0.0 : α) then (1.0 : α) else -(1.0 : α)

/-- util.py:198-202 (and 161-165): make the draw point into the box on active coordinates -/
def flip (lower upper raw : Nat → α) (j : Nat) : α :=
  if active lower upper j then
    if raw j * signOf lower j < (0.0 : α) then raw j * (-(1.0 : α)) else raw j
  else raw j

/-- final clip, util.py:171 / 208: `np.maximum(np.minimum(r, upper), lower)` -/
def clipDir (lower upper : α) (r : α) : α := npmax (npmin r upper) lower

/-- util.py:203 `dirn / np.linalg.norm(dirn)` with the computed norm `nrm` supplied -/
def unitOf (lower upper raw : Nat → α) (nrm : α) (j : Nat) : α := flip lower upper raw j / nrm

/-- util.py:204-205: `dirn * get_scale(dirn, delta, lower, upper)` (before the final clip) -/
def scaledDir (n : Nat) (delta : α) (lower upper u : Nat → α) (j : Nat) : α :=
  u j * getScale n u delta lower upper

/-- component `j` of one direction of `random_directions_within_bounds` -/
def randDir (n : Nat) (delta : α) (lower upper raw : Nat → α) (nrm : α) (j : Nat) : α :=
  clipDir (lower j) (upper j) (scaledDir n delta lower upper (unitOf lower upper raw nrm) j)

/-- util.py:175-209; `raws i` is the i-th draw, `nrms i` the norm computed for it -/
def randDirs (numPts n : Nat) (delta : α) (lower upper : Nat → α) (raws : Nat → Nat → α) (nrms : Nat → α) :
    List (List α) :=
  (List.range numPts).map fun i => (List.range n).map (randDir n delta lower upper (raws i) (nrms i))

/-! ### random_orthog_directions_within_bounds -/

/-- util.py:138 `np.where(active)[0]` -/
def activeIdx (n : Nat) (lower upper : Nat → α) : List Nat := (List.range n).filter (active lower upper)

/-- row of `Qred` that `Q[inactive, :] = Qred` (util.py:132) puts into row `j` of `Q` -/
def inactiveRank (lower upper : Nat → α) (j : Nat) : Nat :=
  ((List.range j).filter fun t => !active lower upper t).length

/-- util.py:131-132: `Q` (n × ninactive), zero rows for active variables -/
def qFull (lower upper : Nat → α) (qred : Nat → Nat → α) (j i : Nat) : α :=
  if active lower upper j then (0.0 : α) else qred (inactiveRank lower upper j) i

/-- a multiple of a coordinate vector -/
def single (idx : Nat) (v : α) (j : Nat) : α := if j = idx then v else (0.0 : α)

/-- util.py:152-155: the entry of an "extra direction for an active constraint" before scaling -/
def block4Entry (delta lower upper : α) (sign : α) : α :=
  if delta < upper - lower then (2.0 : α) * sign * delta else (0.5 : α) * sign * (upper - lower)

/-- which block of util.py:133-168 column `c` belongs to (1…5), as a branch tag -/
def blockOf (n nin : Nat) (neg : Bool) (c : Nat) : Nat :=
  if c < nin then 1 else if c < n then 2
  else if neg && c < n + nin then 3 else if neg && c < 2 * n then 4 else 5

/-- component `j` of column `c` of `results` before the final clip (util.py:133-168).
    `neg` = `with_neg_dirns`; `raws i`, `nrms i` feed block 5. -/
def orthogRaw (n : Nat) (neg : Bool) (delta : α) (lower upper : Nat → α) (qred : Nat → Nat → α)
    (raws : Nat → Nat → α) (nrms : Nat → α) (c j : Nat) : α :=
  let act := activeIdx n lower upper
  let nin := n - act.length
  let base := if neg then 2 * n else n
  if c < nin then
    -- 1. orthogonal directions: `scale * Q[:, i]`
    let q := fun t => qFull lower upper qred t c
    getScale n q delta lower upper * q j
  else if c < n then
    -- 2. directions for active constraints
    let idx := act.getD (c - nin) 0
    let col := single idx (signOf lower idx)
    getScale n col delta lower upper * col j
  else if neg && c < n + nin then
    -- 3. negative orthogonal directions: `-scale * Q[:, i]`, scale = get_scale(-Q[:, i], …)
    let q := fun t => qFull lower upper qred t (c - n)
    (-(getScale n (fun t => -(q t)) delta lower upper)) * q j
  else if neg && c < 2 * n then
    -- 4. extra directions for active constraints (scaled with get_scale(·, 1.0, …))
    let idx := act.getD (c - n - nin) 0
    let col := single idx (block4Entry delta (lower idx) (upper idx) (signOf lower idx))
    getScale n col (1.0 : α) lower upper * col j
  else
    -- 5. random extra directions
    let i := c - base
    scaledDir n delta lower upper (unitOf lower upper (raws i) (nrms i)) j

/-- component `j` of the `c`-th returned direction (after the clip of util.py:170-171) -/
def orthogDir (n : Nat) (neg : Bool) (delta : α) (lower upper : Nat → α) (qred : Nat → Nat → α)
    (raws : Nat → Nat → α) (nrms : Nat → α) (c j : Nat) : α :=
  clipDir (lower j) (upper j) (orthogRaw n neg delta lower upper qred raws nrms c j)

/-- util.py:103-172 -/
def orthogDirs (numPts n : Nat) (neg : Bool) (delta : α) (lower upper : Nat → α) (qred : Nat → Nat → α)
    (raws : Nat → Nat → α) (nrms : Nat → α) : List (List α) :=
  (List.range numPts).map fun c => (List.range n).map (orthogDir n neg delta lower upper qred raws nrms c)

end

end Dfols.RandDirs
