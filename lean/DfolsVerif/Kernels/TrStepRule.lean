/-
  L1-style model of the *decision logic* of `Controller.trust_region_step`
  (dfols/controller.py:507-555): which sub-problem solver is called, and the rule that replaces a
  regularised step by the zero step when the model would increase (lines 550-553).

  Numbers are `Val` (NaN or an order key): the code only *compares* `pred_reduction` with `0.0`.
  `Val.num 0` is the key of `0.0` (and of `-0.0`).
-/
import DfolsVerif.Val

namespace Dfols
namespace TrStep

/-- the solver reached in `trust_region_step` -/
inductive Solver where
  | trsbox       -- line 527: no regulariser, no projections
  | pgd          -- line 525: no regulariser, projections
  | sfista       -- line 537: regulariser, projections
  | sfistaBox    -- line 545: regulariser, box handled as a projection
  | zeroBadModel -- lines 519-523 / 531-535: NaN/inf in gopt or H ⇒ d = 0 without calling a solver
  | linalgError  -- line 513: `np.linalg.norm(H, 2)` raised `LinAlgError` (LAPACK's SVD on a non-finite H);
                 -- LAPACK is modelled, not verified: whether it raises is an INPUT of the model
deriving DecidableEq, Repr

/-- lines 513-548.  `bad` = "gopt or H contains NaN or ±inf"; `normRaises` = the 2-norm of `H` at
    line 513 raised (observed only when `H` is non-finite, in which case the guards at 519/531 are
    never reached and the exception propagates to the caller). -/
def pickSolver (hasH hasProj bad normRaises : Bool) : Solver :=
  if normRaises then .linalgError else
  if !hasH then
    if hasProj then (if bad then .zeroBadModel else .pgd) else .trsbox
  else
    if bad then .zeroBadModel else if hasProj then .sfista else .sfistaBox

/-- lines 550-553 are executed only in the regularised branch. -/
def checksDecrease (hasH : Bool) : Bool := hasH

/-- lines 551-553: `if pred_reduction < 0.0: d = zeros`.  (`NaN < 0.0` is `False`: the step is kept.) -/
def chooseStep {D : Type} (predRed : Val) (d zero : D) : D :=
  if Val.lt predRed (Val.num 0) then zero else d

/-- the whole decision: the step returned, given the solver's step `d` -/
def returnedStep {D : Type} (hasH : Bool) (predRed : Val) (d zero : D) : D :=
  if checksDecrease hasH then chooseStep predRed d zero else d

def Solver.name : Solver → String
  | .trsbox => "trsbox" | .pgd => "pgd" | .sfista => "sfista" | .sfistaBox => "sfista-box" | .zeroBadModel => "zero" | .linalgError => "linalg-error"

end TrStep
end Dfols
