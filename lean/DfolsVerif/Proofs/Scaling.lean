/-
  `scaling_within_bounds`: `apply_scaling` / `remove_scaling` as translated from util.py, and `shift`, `scale` as `solve()`
  defines them (Gen/ScalingFns.lean, regenerated on every run), over a linearly ordered field (exact arithmetic):
  the scaled box is [0, 1], un-scaling a scaled point of the box gives the point back, un-scaling ANY point lands in the
  user's box (the clamp), and un-scaling is monotone.  Rounding is outside these statements (for the clamp under rounding:
  `C01_gen_eval_in_bounds`, which is about `np.minimum` / `np.maximum` only).
-/
import DfolsVerif.Gen.ScalingFns
import Mathlib.Algebra.Order.Field.Basic
import Mathlib.Tactic.Linarith
import Mathlib.Tactic.FieldSimp
import Mathlib.Tactic.Ring

namespace Dfols
namespace Scaling

variable {K : Type*} [Field K] [LinearOrder K] [IsStrictOrderedRing K]

/-- the lower bound is scaled to 0 and the upper bound to 1 -/
theorem scaled_box (xl xu : K) (h : xl < xu) :
    Gen.applyScalingSrc (Gen.scalingShiftSrc xl xu) (Gen.scalingScaleSrc xl xu) xl = 0 ∧
    Gen.applyScalingSrc (Gen.scalingShiftSrc xl xu) (Gen.scalingScaleSrc xl xu) xu = 1 := by
  have hs : xu - xl ≠ 0 := by intro h0; linarith
  simp only [Gen.applyScalingSrc, Gen.scalingShiftSrc, Gen.scalingScaleSrc]
  exact ⟨by simp, div_self hs⟩

/-- a point of the box is scaled into [0, 1] -/
theorem scaled_in_unit (xl xu x : K) (h : xl < xu) (hx : xl ≤ x ∧ x ≤ xu) :
    0 ≤ Gen.applyScalingSrc (Gen.scalingShiftSrc xl xu) (Gen.scalingScaleSrc xl xu) x ∧
    Gen.applyScalingSrc (Gen.scalingShiftSrc xl xu) (Gen.scalingScaleSrc xl xu) x ≤ 1 := by
  have hs : 0 < xu - xl := by linarith
  simp only [Gen.applyScalingSrc, Gen.scalingShiftSrc, Gen.scalingScaleSrc]
  exact ⟨div_nonneg (by linarith) hs.le, (div_le_one hs).mpr (by linarith)⟩

/-- **round trip**: un-scaling the scaled image of a point of the box gives the point back -/
theorem remove_apply (xl xu x : K) (h : xl < xu) (hx : xl ≤ x ∧ x ≤ xu) :
    Gen.removeScalingSrc (Gen.scalingShiftSrc xl xu) (Gen.scalingScaleSrc xl xu) xl xu
      (Gen.applyScalingSrc (Gen.scalingShiftSrc xl xu) (Gen.scalingScaleSrc xl xu) x) = x := by
  have hs : xu - xl ≠ 0 := by intro h0; linarith
  simp only [Gen.removeScalingSrc, Gen.applyScalingSrc, Gen.scalingShiftSrc, Gen.scalingScaleSrc]
  have e : xl + (x - xl) / (xu - xl) * (xu - xl) = x := by field_simp; ring
  rw [e, max_eq_left hx.1, min_eq_left hx.2]

/-- **the clamp**: un-scaling ANY internal point gives a point of the user's box -/
theorem remove_in_box (shift scale lo hi z : K) (h : lo ≤ hi) :
    lo ≤ Gen.removeScalingSrc shift scale lo hi z ∧ Gen.removeScalingSrc shift scale lo hi z ≤ hi := by
  simp only [Gen.removeScalingSrc]
  exact ⟨le_min (le_max_right _ _) h, min_le_right _ _⟩

/-- un-scaling is monotone (positive scale): the order of points along a coordinate is kept -/
theorem remove_mono (shift scale lo hi z z' : K) (hs : 0 < scale) (hz : z ≤ z') :
    Gen.removeScalingSrc shift scale lo hi z ≤ Gen.removeScalingSrc shift scale lo hi z' := by
  simp only [Gen.removeScalingSrc]
  have : shift + z * scale ≤ shift + z' * scale := by nlinarith
  exact min_le_min (max_le_max this le_rfl) le_rfl

/-- `solve()` builds `scaling_changes = (shift, scale, xl, xu)`: the clamp of `remove_scaling` uses the user's bounds -/
theorem tuple_shape : Gen.scalingTuple = ["shift", "scale", "xl", "xu"] := by decide

/-- non-vacuity over ℚ-like numerals is immediate: x = xl satisfies the hypotheses of `remove_apply` -/
example (xl xu : K) (h : xl < xu) : xl ≤ xl ∧ xl ≤ xu := ⟨le_rfl, h.le⟩

end Scaling
end Dfols
