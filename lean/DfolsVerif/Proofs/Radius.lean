/-
  (exact arithmetic, ℝ) invariants of the radius updates.
-/
import DfolsVerif.Kernels.Radius
import Mathlib.Analysis.Real.Sqrt
import Mathlib.Tactic.Linarith
import Mathlib.Tactic.Positivity
import Mathlib.Tactic.NormNum

namespace Dfols
open Classical

/-- interpretation E: real numbers -/
noncomputable def realRadOps : RadOps ℝ :=
  { mul := (· * ·), div := (· / ·), sqrt := Real.sqrt, min := fun a b => if b < a then b else a,
    max := fun a b => if a < b then b else a, lt := fun a b => decide (a < b), le := fun a b => decide (a ≤ b),
    lit := fun m e => (m : ℝ) / (10 : ℝ) ^ e }

namespace Radius

theorem rmax_ge_right (a b : ℝ) : b ≤ realRadOps.max a b := by
  simp only [realRadOps]; split <;> linarith
theorem rmax_ge_left (a b : ℝ) : a ≤ realRadOps.max a b := by
  simp only [realRadOps]; split <;> linarith
theorem rmin_le_left (a b : ℝ) : realRadOps.min a b ≤ a := by
  simp only [realRadOps]; split <;> linarith
theorem rmin_le_right (a b : ℝ) : realRadOps.min a b ≤ b := by
  simp only [realRadOps]; split <;> linarith
theorem rmax_le {a b c : ℝ} (h1 : a ≤ c) (h2 : b ≤ c) : realRadOps.max a b ≤ c := by
  simp only [realRadOps]; split <;> assumption

/-- the invariant the main loop maintains -/
def RadInv (rhobeg rhoend delta rho : ℝ) : Prop := 0 < rhoend ∧ rhoend ≤ rho ∧ rho ≤ rhobeg ∧ rho ≤ delta

/-- `reduce_rho` (called only while `rho > rhoend`): keeps `rhoend ≤ rho' ≤ rho ≤ rhobeg`, `rho' ≤ delta'`,
    and strictly decreases rho when `alpha1 < 1`.  Needs `1/250 ≤ alpha1 ≤ 1` (defaults 0.1 / 0.9). -/
theorem reduceRho_inv (p : TRParams ℝ) (rhobeg rhoend delta rho : ℝ) (hi : RadInv rhobeg rhoend delta rho)
    (hgt : rhoend < rho) (ha1 : 1 / 250 ≤ p.alpha1) (ha1' : p.alpha1 ≤ 1) :
    let r := reduceRho realRadOps p rho rhoend
    RadInv rhobeg rhoend r.1 r.2 ∧ r.2 ≤ rho ∧ (p.alpha1 < 1 → r.2 < rho) := by
  obtain ⟨h0, h1, h2, _⟩ := hi
  have hratio : 1 < rho / rhoend := by rw [lt_div_iff₀ h0]; linarith
  simp only [reduceRho, realRadOps, decide_eq_true_eq]
  split
  · -- ratio ≤ 16
    refine ⟨⟨h0, le_refl _, by linarith, ?_⟩, by linarith, fun _ => hgt⟩
    split <;> linarith
  · split
    · -- 16 < ratio ≤ 250: geometric mean
      rename_i h16 h250
      have hr0 : 0 ≤ rho / rhoend := by positivity
      have hs1 : 1 ≤ Real.sqrt (rho / rhoend) := by
        rw [Real.le_sqrt (by norm_num) hr0]; norm_num; linarith
      have hs2 : Real.sqrt (rho / rhoend) ≤ rho / rhoend := by
        rw [Real.sqrt_le_iff]; exact ⟨hr0, by nlinarith⟩
      have hs3 : Real.sqrt (rho / rhoend) < rho / rhoend := by
        rcases lt_or_eq_of_le hs2 with h | h
        · exact h
        · exfalso
          have hsq := Real.sq_sqrt hr0
          rw [h] at hsq
          have : rho / rhoend = 1 ∨ rho / rhoend = 0 := by
            have : rho / rhoend * (rho / rhoend - 1) = 0 := by nlinarith
            rcases mul_eq_zero.mp this with h' | h'
            · exact Or.inr h'
            · exact Or.inl (by linarith)
          rcases this with h' | h' <;> linarith
      have hlo : rhoend ≤ Real.sqrt (rho / rhoend) * rhoend := by nlinarith
      have hhi : Real.sqrt (rho / rhoend) * rhoend < rho := by
        have : rho / rhoend * rhoend = rho := div_mul_cancel₀ rho (ne_of_gt h0)
        nlinarith
      refine ⟨⟨h0, hlo, by linarith, ?_⟩, by linarith, fun _ => hhi⟩
      split <;> linarith
    · -- ratio > 250
      rename_i h16 h250
      have h250' : 250 < rho / rhoend := by
        simp only [Nat.cast_ofNat, pow_zero, div_one] at h250; linarith
      have hrho : 250 * rhoend < rho := by
        have := (lt_div_iff₀ h0).mp h250'; linarith
      have hpos : 0 < rho := by linarith
      have hlo : rhoend ≤ p.alpha1 * rho := by nlinarith
      have hhi : p.alpha1 * rho ≤ rho := by nlinarith
      refine ⟨⟨h0, hlo, by linarith, ?_⟩, hhi, fun hlt => by nlinarith⟩
      split <;> linarith

theorem capToRho_ge (d1 rho : ℝ) (hrho : 0 < rho) : rho ≤ capToRho realRadOps d1 rho := by
  simp only [capToRho, realRadOps, decide_eq_true_eq]
  split
  · exact le_refl _
  · rename_i h
    have h' : (15 : ℝ) / 10 ^ 1 * rho < d1 := by
      have := not_le.mp h
      norm_num at this ⊢
      exact this
    have : (15 : ℝ) / 10 ^ 1 * rho > rho := by norm_num; linarith
    linarith

theorem capToRho_le (d1 rho c : ℝ) (h1 : d1 ≤ c) (h2 : rho ≤ c) : capToRho realRadOps d1 rho ≤ c := by
  simp only [capToRho]; split <;> assumption

/-- the delta update after a trust-region step never goes below rho (the final cap) -/
theorem trUpdate_ge_rho (p : TRParams ℝ) (ratio dnorm tau delta rho : ℝ) (hrho : 0 < rho) :
    rho ≤ trUpdate realRadOps p ratio dnorm tau delta rho := capToRho_ge _ _ hrho

/-- with `tau = 1` (no regulariser), `gamma_dec ≤ 1` and `dnorm ≤ delta` the update keeps `delta ≤ 1e10` -/
theorem trUpdate_le_cap (p : TRParams ℝ) (ratio dnorm delta rho : ℝ)
    (hd : delta ≤ 1e10) (hdn : dnorm ≤ delta) (hrho : rho ≤ delta) (hg0 : 0 ≤ p.gammaDec) (hg : p.gammaDec ≤ 1)
    (hdel : 0 ≤ delta) :
    trUpdate realRadOps p ratio dnorm 1 delta rho ≤ 1e10 := by
  have hgd : p.gammaDec * delta ≤ delta := by nlinarith
  apply capToRho_le _ _ _ _ (by linarith)
  simp only [trCandidate]
  split
  · have := rmin_le_left (realRadOps.mul p.gammaDec delta) dnorm
    simp only [realRadOps, div_one] at this ⊢
    linarith
  · split
    · apply rmax_le
      · show p.gammaDec * delta ≤ 1e10
        linarith
      · linarith
    · have := rmin_le_right (realRadOps.max (realRadOps.mul p.gammaInc delta) (realRadOps.mul p.gammaIncOverline dnorm))
          (realRadOps.lit 10000000000 0)
      simp only [realRadOps, pow_zero, div_one] at this ⊢
      norm_num at this ⊢
      exact this

/-- geometry-fixing reduction of delta stays at or above `1.5·rho ≥ rho` -/
theorem geomDelta_ge_rho (delta rho dist : ℝ) (hrho : 0 < rho) : rho ≤ geomDelta realRadOps delta rho dist := by
  have := rmax_ge_right (realRadOps.min (realRadOps.mul (realRadOps.lit 1 1) delta) (realRadOps.mul (realRadOps.lit 5 1) dist))
    (realRadOps.mul (realRadOps.lit 15 1) rho)
  simp only [geomDelta]
  have h2 : rho ≤ realRadOps.mul (realRadOps.lit 15 1) rho := by
    simp only [realRadOps]; norm_num; linarith
  linarith

/-- and never increases delta beyond `max(0.1·delta, 1.5·rho)` -/
theorem geomDelta_le (delta rho dist : ℝ) :
    geomDelta realRadOps delta rho dist ≤ max ((1 : ℝ) / 10 * delta) ((15 : ℝ) / 10 * rho) := by
  simp only [geomDelta]
  apply rmax_le
  · have := rmin_le_left (realRadOps.mul (realRadOps.lit 1 1) delta) (realRadOps.mul (realRadOps.lit 5 1) dist)
    simp only [realRadOps] at this ⊢
    norm_num at this ⊢
    exact Or.inl this
  · simp only [realRadOps]; norm_num

/-- `calculate_ratio` exits exactly when the predicted reduction is negative -/
theorem calcRatio_exit_iff {F : Type} (o : RadOps F) (pred actual : F) (nproj : Nat) :
    (calcRatio o pred actual nproj).2 = none ↔ o.lt pred (o.lit 0 0) = false := by
  simp only [calcRatio]
  cases o.lt pred (o.lit 0 0) <;> simp <;> split <;> simp

/-- exact arithmetic: when `calculate_ratio` does not exit and the division is defined (`pred ≠ 0`), the
    incumbent's row is open for replacement (`ratio > 0`) only if the trial point is strictly better
    (`actual_reduction > 0`) -/
theorem mayReplaceKopt_imp_decrease (pred actual : ℝ) (nproj : Nat)
    (hex : (calcRatio realRadOps pred actual nproj).2 = none) (hp : pred ≠ 0)
    (hr : mayReplaceKopt realRadOps (calcRatio realRadOps pred actual nproj).1 = true) : 0 < actual := by
  have hnn : ¬ pred < 0 := by
    have := (calcRatio_exit_iff realRadOps pred actual nproj).mp hex
    simpa [realRadOps] using this
  have hpos : 0 < pred := lt_of_le_of_ne (not_lt.mp hnn) (Ne.symm hp)
  simp only [mayReplaceKopt, calcRatio, realRadOps, decide_eq_true_eq] at hr
  have hr' : 0 < actual / pred := by simpa using hr
  exact (div_pos_iff_of_pos_right hpos).mp hr'

end Radius
end Dfols
