/-
  Calls of the user's regulariser — decided over the table generated from /repo's AST on every run (`Gen/HCalls.lean`).
-/
import DfolsVerif.Gen.HCalls

namespace Dfols
namespace HCalls

/-- every call of `h` passes exactly one point and the user's extra arguments (`*argsh`), and the point is
    `remove_scaling(P, scaling_changes)` — the USER's coordinates — except inside `eval_least_squares_with_regularisation`,
    whose callers have already un-scaled `x` (C01's call-site table: every objfun argument goes through `remove_scaling`) -/
theorem h_sees_user_coordinates : ∀ c ∈ Gen.hCalls,
    c.npos = 1 ∧ c.nkw = 0 ∧ (c.star = "self.argsh" ∨ c.star = "argsh") ∧
    ((c.point ≠ "" ∧ (c.scaling = "self.scaling_changes" ∨ c.scaling = "scaling_changes")) ∨
     (c.func = "util.py:eval_least_squares_with_regularisation" ∧ c.arg = "x")) := by
  decide +kernel

/-- the five places in model.py that store an objective value evaluate `h` at the point AS IT IS USED (evaluated, returned):
    the initial point; `as_absolute_coordinates(x)` — clipped to the bounds / projected — for the point written by
    `change_point` / `add_new_point`; `xpt(k, abs_coordinates=True)` when a sample is added to row `k`; the absolute point
    handed to `save_point`.  (Pinned and until fix "h at the point as used": `self.xbase + x`, the raw stored coordinates, which
    under projections or next to a bound is not the point the residuals were evaluated at.) -/
theorem model_h_at_stored_point :
    (Gen.hCalls.filter (fun c => c.func.startsWith "model.py:")).map (fun c => (c.func, c.point)) =
    [("model.py:__init__", "x0"), ("model.py:change_point", "self.as_absolute_coordinates(x)"),
     ("model.py:add_new_sample", "self.xpt(k, abs_coordinates=True)"), ("model.py:add_new_point", "self.as_absolute_coordinates(x)"),
     ("model.py:save_point", "xabs")] := by
  decide +kernel

/-- the model value used for predicted reductions evaluates `h` at the un-scaled trial point `xopt + s` -/
theorem model_value_h : ∀ c ∈ Gen.hCalls, c.func = "util.py:model_value" → c.point = "xopt + s" := by
  decide +kernel

/-- the proximal operator is called with two positional arguments and `*argsprox`; every call of `ctrsbox_sfista` hands over
    `self.h`, `self.prox_uh` with `argsh=self.argsh`, `argsprox=self.argsprox` (not mixed up) -/
theorem prox_args_pass_through :
    (∀ c ∈ Gen.proxCalls, c.2.1 = "argsprox" ∧ c.2.2 = 2) ∧ Gen.proxCalls ≠ [] ∧
    (∀ w ∈ Gen.sfistaWiring, w.2.1 = "self.argsh" ∧ w.2.2.1 = "self.argsprox" ∧ w.2.2.2.1 = "self.h" ∧ w.2.2.2.2 = "self.prox_uh") ∧
    Gen.sfistaWiring.length = 4 := by
  decide +kernel

end HCalls
end Dfols
