/-
  (exact arithmetic) `trsbox_linear` / `trsbox_geometry` of `Kernels/TrsboxLinear.lean` over a linearly
  ordered field `K` with a square root satisfying its specification
        `SqrtSpec sqrt : ∀ x ≥ 0, 0 ≤ sqrt x ∧ sqrt x * sqrt x = x`
  (instantiated with `Real.sqrt` in `Properties/C13.lean`).

  Main result `trsboxLinear_good`: the point returned by the active-set loop
    * lies in the (widened) box `[min(a_in, -ZT), max(b_in, ZT)]`,
    * has `Σ x_i² ≤ Δ²`,
    * and satisfies `g_i x_i ≤ 0` for every `i` (so `g·x ≤ 0`: never worse than not moving).

  Why the loop is correct although it fixes the FIRST coordinate (in index order) that reaches a
  bound rather than the one reached first along the ray (so intermediate iterates may leave the box
  and `alpha_con` may be negative): all free coordinates stay on one ray `x_k = T·dirn_k` (`Inv.free_ray`),
  every fixing time `T' = bound_j / dirn_j` satisfies `0 ≤ T' ≤ U` where `U` is the ray parameter of the
  trial point on the sphere, so each iterate is componentwise dominated by the trial point
  (`‖x'‖ ≤ ‖xnew‖ = Δ`), and the routine only ever *returns* a point whose free coordinates passed the
  scan of lines 658-670 (or has no free coordinate left).
-/
import DfolsVerif.Kernels.TrsboxLinear
import Mathlib.Algebra.Order.Field.Basic
import Mathlib.Algebra.Order.BigOperators.Ring.Finset
import Mathlib.Algebra.BigOperators.Ring.Finset
import Mathlib.Algebra.Order.Ring.Abs
import Mathlib.Data.Finset.Card
import Mathlib.Tactic.Ring
import Mathlib.Tactic.Linarith
import Mathlib.Tactic.FieldSimp
import Mathlib.Tactic.Positivity

set_option linter.unusedSectionVars false

namespace Dfols
namespace TrsProofs

open TrsLin

variable {K : Type} [Field K] [LinearOrder K] [IsStrictOrderedRing K]

/-- specification of the square root -/
def SqrtSpec (sqrt : K → K) : Prop := ∀ x, 0 ≤ x → 0 ≤ sqrt x ∧ sqrt x * sqrt x = x

/-- exact numerics: left-to-right sums (= `Finset.sum`), exact squares -/
def exactNum (sqrt : K → K) (zt : K) : Num K := { sum := sumTo, sqrt := sqrt, sq := fun x => x * x, zt := zt }

theorem sumTo_eq_sum (n : Nat) (f : Nat → K) : sumTo n f = ∑ i ∈ Finset.range n, f i := by
  induction n with
  | zero => simp [sumTo]
  | succ k ih => rw [sumTo, ih, Finset.sum_range_succ]

theorem absv_eq_abs (x : K) : absv x = |x| := by
  unfold absv
  split_ifs with h
  · exact (abs_of_neg h).symm
  · exact (abs_of_nonneg (not_lt.mp h)).symm

theorem minv_le_right (x y : K) : minv x y ≤ y := by
  unfold minv; split_ifs with h
  · exact h
  · exact le_rfl

theorem minv_le_left (x y : K) : minv x y ≤ x := by
  unfold minv; split_ifs with h
  · exact le_rfl
  · exact (not_le.mp h).le

theorem le_maxv_right (x y : K) : y ≤ maxv x y := by
  unfold maxv; split_ifs with h
  · exact le_rfl
  · exact (not_le.mp h).le

theorem le_maxv_left (x y : K) : x ≤ maxv x y := by
  unfold maxv; split_ifs with h
  · exact h
  · exact le_rfl

/-! ### the scan of lines 658-670 -/

theorem scan_none {cons : List Nat} {xnew a b : Nat → K} :
    ∀ {l : List Nat}, scan cons xnew a b l = .none → ∀ j ∈ l, j ∉ cons → a j < xnew j ∧ xnew j < b j := by
  intro l
  induction l with
  | nil => intro _ j hj; simp at hj
  | cons i is ih =>
    intro h j hj hjc
    unfold scan at h
    split_ifs at h with h1 h2 h3
    · rcases List.mem_cons.mp hj with rfl | hj'
      · exact absurd h1 hjc
      · exact ih h j hj' hjc
    · rcases List.mem_cons.mp hj with rfl | hj'
      · exact ⟨not_le.mp h2, not_le.mp h3⟩
      · exact ih h j hj' hjc

theorem scan_lower {cons : List Nat} {xnew a b : Nat → K} {j : Nat} :
    ∀ {l : List Nat}, scan cons xnew a b l = .lower j → j ∈ l ∧ j ∉ cons ∧ xnew j ≤ a j := by
  intro l
  induction l with
  | nil => intro h; simp [scan] at h
  | cons i is ih =>
    intro h
    unfold scan at h
    split_ifs at h with h1 h2 h3
    · obtain ⟨h4, h5⟩ := ih h; exact ⟨List.mem_cons_of_mem _ h4, h5⟩
    · injection h with h; subst h; exact ⟨List.mem_cons_self, h1, h2⟩
    · obtain ⟨h4, h5⟩ := ih h; exact ⟨List.mem_cons_of_mem _ h4, h5⟩

theorem scan_upper {cons : List Nat} {xnew a b : Nat → K} {j : Nat} :
    ∀ {l : List Nat}, scan cons xnew a b l = .upper j → j ∈ l ∧ j ∉ cons ∧ b j ≤ xnew j := by
  intro l
  induction l with
  | nil => intro h; simp [scan] at h
  | cons i is ih =>
    intro h
    unfold scan at h
    split_ifs at h with h1 h2 h3
    · obtain ⟨h4, h5⟩ := ih h; exact ⟨List.mem_cons_of_mem _ h4, h5⟩
    · injection h with h; subst h; exact ⟨List.mem_cons_self, h1, h3⟩
    · obtain ⟨h4, h5⟩ := ih h; exact ⟨List.mem_cons_of_mem _ h4, h5⟩

/-! ### ball_step -/

/-- `ball_step` (lines 556-571) in exact arithmetic: from a point inside the ball, along a direction
    that passes the `ZERO_THRESH` test, the step is non-negative and lands exactly on the sphere. -/
theorem ballStep_spec {sqrt : K → K} (hs : SqrtSpec sqrt) {zt : K} (n : Nat) (x d : Nat → K) (Δ : K)
    (hbig : ¬ sqrt (sumTo n fun i => d i * d i) < zt) (hzt : 0 < zt)
    (hin : sumTo n (fun i => x i * x i) ≤ Δ * Δ) :
    0 ≤ ballStep (exactNum sqrt zt) n x d Δ ∧
    sumTo n (fun i => (x i + ballStep (exactNum sqrt zt) n x d Δ * d i) *
                      (x i + ballStep (exactNum sqrt zt) n x d Δ * d i)) = Δ * Δ := by
  set a := sumTo n fun i => d i * d i with ha
  set b := sumTo n fun i => d i * x i with hb
  set c := sumTo n fun i => x i * x i with hc
  have ha0 : 0 ≤ a := by
    rw [ha, sumTo_eq_sum]; exact Finset.sum_nonneg fun i _ => mul_self_nonneg _
  have hsa := hs a ha0
  have hapos : 0 < a := by
    have h1 : zt ≤ sqrt a := not_lt.mp hbig
    have h2 : 0 < sqrt a := lt_of_lt_of_le hzt h1
    rw [← hsa.2]; exact mul_pos h2 h2
  set D := b * b + a * (Δ * Δ - c) with hD
  have hD0 : b * b ≤ D := by
    have : 0 ≤ a * (Δ * Δ - c) := mul_nonneg ha0 (sub_nonneg.mpr hin)
    linarith
  have hDnn : 0 ≤ D := le_trans (mul_self_nonneg b) hD0
  have hsD := hs D hDnn
  set r := sqrt D with hr
  have hrb : b ≤ r := by
    by_contra hlt
    have hlt : r < b := not_le.mp hlt
    have : r * r < b * b := mul_self_lt_mul_self hsD.1 hlt
    linarith [hsD.2]
  have hstep : ballStep (exactNum sqrt zt) n x d Δ = (r - b) / a := by
    have hmax : maxv 0 D = D := by unfold maxv; rw [if_pos hDnn]
    have hbig' : ¬ (exactNum sqrt zt).sqrt (dot (exactNum sqrt zt) n d d) < (exactNum sqrt zt).zt := hbig
    unfold ballStep
    rw [if_neg hbig']
    change (sqrt (maxv 0 D) - b) / a = (r - b) / a
    rw [hmax]
  rw [hstep]
  refine ⟨div_nonneg (sub_nonneg.mpr hrb) hapos.le, ?_⟩
  have hexp : ∀ i, (x i + (r - b) / a * d i) * (x i + (r - b) / a * d i) =
      x i * x i + (2 * ((r - b) / a)) * (d i * x i) + ((r - b) / a * ((r - b) / a)) * (d i * d i) := by
    intro i; ring
  rw [sumTo_eq_sum]
  simp only [hexp, Finset.sum_add_distrib, ← Finset.mul_sum]
  rw [← sumTo_eq_sum, ← sumTo_eq_sum, ← sumTo_eq_sum, ← ha, ← hb, ← hc]
  have hane : a ≠ 0 := ne_of_gt hapos
  have hrr : r * r = b * b + a * (Δ * Δ - c) := hsD.2
  field_simp
  nlinarith [hrr]

/-! ### the loop invariant -/

theorem sumTo_congr {n : Nat} {f h : Nat → K} (hfh : ∀ i < n, f i = h i) : sumTo n f = sumTo n h := by
  rw [sumTo_eq_sum, sumTo_eq_sum]
  exact Finset.sum_congr rfl fun i hi => hfh i (Finset.mem_range.mp hi)

/-- invariant of the active-set loop; `T` is the common ray parameter of the free coordinates. -/
structure Inv (n : Nat) (zt Δ : K) (g a b : Nat → K) (st : LinState K) (T : K) : Prop where
  T_nonneg : 0 ≤ T
  cons_dirn : ∀ k < n, k ∈ st.cons → st.df k = 0
  cons_box : ∀ k < n, k ∈ st.cons → a k ≤ st.xf k ∧ st.xf k ≤ b k
  free_ray : ∀ k < n, k ∉ st.cons → st.xf k = T * st.df k
  free_dirn : ∀ k < n, k ∉ st.cons → st.df k = -g k
  free_big : ∀ k < n, k ∉ st.cons → zt ≤ |st.df k|
  ball : sumTo n (fun i => st.xf i * st.xf i) ≤ Δ * Δ
  descent : ∀ k < n, g k * st.xf k ≤ 0

/-- what the routine promises about its result -/
def Good (n : Nat) (Δ : K) (g a b x : Nat → K) : Prop :=
  (∀ k < n, a k ≤ x k ∧ x k ≤ b k) ∧ sumTo n (fun i => x i * x i) ≤ Δ * Δ ∧ ∀ k < n, g k * x k ≤ 0

/-- number of coordinates not yet constrained -/
def nfree (n : Nat) (cons : List Nat) : Nat := ((Finset.range n).filter fun k => k ∉ cons).card

theorem nfree_zero {n : Nat} {cons : List Nat} (h : nfree n cons = 0) : ∀ k < n, k ∈ cons := by
  intro k hk
  by_contra hkc
  have : k ∈ (Finset.range n).filter fun k => k ∉ cons := by simp [hk, hkc]
  rw [nfree, Finset.card_eq_zero] at h
  simp [h] at this

theorem nfree_append {n : Nat} {cons : List Nat} {j : Nat} (hj : j < n) (hjc : j ∉ cons) :
    nfree n (cons ++ [j]) + 1 ≤ nfree n cons := by
  unfold nfree
  have hsub : ((Finset.range n).filter fun k => k ∉ cons ++ [j]) ⊆
      ((Finset.range n).filter fun k => k ∉ cons).erase j := by
    intro k hk
    simp only [Finset.mem_filter, Finset.mem_range, List.mem_append, List.mem_singleton, not_or] at hk
    simp only [Finset.mem_erase, Finset.mem_filter, Finset.mem_range]
    exact ⟨hk.2.2, hk.1, hk.2.1⟩
  have hmem : j ∈ (Finset.range n).filter fun k => k ∉ cons := by simp [hj, hjc]
  have h1 := Finset.card_le_card hsub
  rw [Finset.card_erase_of_mem hmem] at h1
  have hpos : 0 < ((Finset.range n).filter fun k => k ∉ cons).card := Finset.card_pos.mpr ⟨j, hmem⟩
  omega

/-- fixing coordinate `j` at `bd = T'·dirn_j` with `0 ≤ T' ≤ U` preserves the invariant (new ray
    parameter `T'`), where `xU = x + (U - T)·dirn` is a point of the ball. -/
theorem inv_fixAt {n : Nat} {zt Δ : K} {g a b : Nat → K} {st : LinState K} {T : K}
    (hI : Inv n zt Δ g a b st T) {j : Nat} (hj : j < n) (hjc : j ∉ st.cons) (bd αu : K)
    (hbd : a j ≤ bd ∧ bd ≤ b j) (hdj : st.df j ≠ 0)
    (hT'0 : 0 ≤ bd / st.df j) (hT'U : bd / st.df j ≤ T + αu)
    (hballU : sumTo n (fun i => (st.xf i + αu * st.df i) * (st.xf i + αu * st.df i)) ≤ Δ * Δ) :
    Inv n zt Δ g a b (fixAt n st j bd) (bd / st.df j) := by
  set T' := bd / st.df j with hT'
  have hbdT : bd = T' * st.df j := by rw [hT']; field_simp
  have hac : (bd - st.xf j) / st.df j = T' - T := by
    rw [hI.free_ray j hj hjc, hT']; field_simp
  have hx' : ∀ k < n, (fixAt n st j bd).xf k = if k = j then bd else st.xf k + (T' - T) * st.df k := by
    intro k hk
    have h0 : (fixAt n st j bd).xf k = if k = j then bd else st.xf k + (bd - st.xf j) / st.df j * st.df k :=
      vget_vmk n (fun i => if i = j then bd else st.xf i + (bd - st.xf j) / st.df j * st.df i) k hk
    rw [h0, hac]
  have hd' : ∀ k < n, (fixAt n st j bd).df k = if k = j then 0 else st.df k := by
    intro k hk
    exact vget_vmk n (fun i => if i = j then 0 else st.df i) k hk
  have hc' : (fixAt n st j bd).cons = st.cons ++ [j] := rfl
  have hfree : ∀ k, k ∉ (fixAt n st j bd).cons → k ≠ j ∧ k ∉ st.cons := by
    intro k hk
    rw [hc'] at hk
    simp only [List.mem_append, List.mem_singleton, not_or] at hk
    exact ⟨hk.2, hk.1⟩
  have hcons : ∀ k, k ∈ (fixAt n st j bd).cons → k = j ∨ (k ≠ j ∧ k ∈ st.cons) := by
    intro k hk
    rw [hc'] at hk
    simp only [List.mem_append, List.mem_singleton] at hk
    by_cases hkj : k = j
    · exact Or.inl hkj
    · rcases hk with hk | hk
      · exact Or.inr ⟨hkj, hk⟩
      · exact absurd hk hkj
  -- componentwise domination by the trial point
  have hdom : ∀ k < n, (fixAt n st j bd).xf k * (fixAt n st j bd).xf k ≤
      (st.xf k + αu * st.df k) * (st.xf k + αu * st.df k) := by
    intro k hk
    by_cases hkc : k ∈ st.cons
    · have hkj : k ≠ j := fun h => hjc (h ▸ hkc)
      rw [hx' k hk, if_neg hkj, hI.cons_dirn k hk hkc]; simp
    · have hxk : (fixAt n st j bd).xf k = T' * st.df k := by
        rw [hx' k hk]
        by_cases hkj : k = j
        · rw [if_pos hkj, hkj]; exact hbdT
        · rw [if_neg hkj, hI.free_ray k hk hkc]; ring
      rw [hxk, hI.free_ray k hk hkc]
      have h1 : T * st.df k + αu * st.df k = (T + αu) * st.df k := by ring
      rw [h1]
      have h2 : T' * T' ≤ (T + αu) * (T + αu) := mul_self_le_mul_self hT'0 hT'U
      have h3 : 0 ≤ st.df k * st.df k := mul_self_nonneg _
      nlinarith [mul_le_mul_of_nonneg_right h2 h3]
  refine ⟨hT'0, ?_, ?_, ?_, ?_, ?_, ?_, ?_⟩
  · intro k hk hkc
    rcases hcons k hkc with rfl | ⟨hkj, hkc'⟩
    · rw [hd' k hk, if_pos rfl]
    · rw [hd' k hk, if_neg hkj]; exact hI.cons_dirn k hk hkc'
  · intro k hk hkc
    rcases hcons k hkc with rfl | ⟨hkj, hkc'⟩
    · rw [hx' k hk, if_pos rfl]; exact hbd
    · rw [hx' k hk, if_neg hkj, hI.cons_dirn k hk hkc']; simpa using hI.cons_box k hk hkc'
  · intro k hk hkc
    obtain ⟨hkj, hkc'⟩ := hfree k hkc
    rw [hx' k hk, if_neg hkj, hd' k hk, if_neg hkj, hI.free_ray k hk hkc']; ring
  · intro k hk hkc
    obtain ⟨hkj, hkc'⟩ := hfree k hkc
    rw [hd' k hk, if_neg hkj]; exact hI.free_dirn k hk hkc'
  · intro k hk hkc
    obtain ⟨hkj, hkc'⟩ := hfree k hkc
    rw [hd' k hk, if_neg hkj]; exact hI.free_big k hk hkc'
  · refine le_trans ?_ hballU
    rw [sumTo_eq_sum, sumTo_eq_sum]
    exact Finset.sum_le_sum fun k hk => hdom k (Finset.mem_range.mp hk)
  · intro k hk
    by_cases hkc : k ∈ st.cons
    · have hkj : k ≠ j := fun h => hjc (h ▸ hkc)
      rw [hx' k hk, if_neg hkj, hI.cons_dirn k hk hkc]; simpa using hI.descent k hk
    · have hxk : (fixAt n st j bd).xf k = T' * st.df k := by
        rw [hx' k hk]
        by_cases hkj : k = j
        · rw [if_pos hkj, hkj]; exact hbdT
        · rw [if_neg hkj, hI.free_ray k hk hkc]; ring
      rw [hxk, hI.free_dirn k hk hkc]
      nlinarith [mul_nonneg hT'0 (mul_self_nonneg (g k))]

theorem dot_exact (sqrt : K → K) (zt : K) (n : Nat) (u v : Nat → K) :
    dot (exactNum sqrt zt) n u v = sumTo n fun i => u i * v i := rfl

/-- the trial point of line 653, componentwise -/
theorem vget_trial (N : Num K) (n : Nat) (Δ : K) (st : LinState K) (k : Nat) (hk : k < n) :
    vget (trial N n Δ st) k = st.xf k + ballStep N n st.xf st.df Δ * st.df k := by
  exact vget_vmk n (fun i => st.xf i + ballStep N n st.xf st.df Δ * st.df i) k hk

/-- one pass of the loop body: either returns a good point, or re-establishes the invariant with one
    free coordinate fewer. -/
theorem linStep_spec {sqrt : K → K} (hs : SqrtSpec sqrt) {zt : K} (hzt : 0 < zt) {n : Nat} {Δ : K}
    {g a b : Nat → K} (ha : ∀ k < n, a k < 0) (hb : ∀ k < n, 0 < b k)
    {st : LinState K} {T : K} (hI : Inv n zt Δ g a b st T) :
    (∀ x, linStep (exactNum sqrt zt) n a b Δ st = .inl x → Good n Δ g a b (vget x)) ∧
    (∀ st', linStep (exactNum sqrt zt) n a b Δ st = .inr st' →
      (∃ T', Inv n zt Δ g a b st' T') ∧ nfree n st'.cons + 1 ≤ nfree n st.cons) := by
  unfold linStep
  by_cases hsmall : sqrt (sumTo n fun i => st.df i * st.df i) < zt
  · -- lines 650-651: no free coordinate is left
    have hcond : (exactNum sqrt zt).sqrt (dot (exactNum sqrt zt) n st.df st.df) < (exactNum sqrt zt).zt := hsmall
    rw [if_pos hcond]
    have hall : ∀ k < n, k ∈ st.cons := by
      intro k hk
      by_contra hkc
      have hbig := hI.free_big k hk hkc
      have hnn : 0 ≤ sumTo n fun i => st.df i * st.df i := by
        rw [sumTo_eq_sum]; exact Finset.sum_nonneg fun i _ => mul_self_nonneg _
      have hsq := hs _ hnn
      have hle : st.df k * st.df k ≤ sumTo n fun i => st.df i * st.df i := by
        rw [sumTo_eq_sum]
        exact Finset.single_le_sum (f := fun i => st.df i * st.df i) (fun i _ => mul_self_nonneg _)
          (Finset.mem_range.mpr hk)
      have h1 : zt * zt ≤ st.df k * st.df k := by
        rw [← abs_mul_abs_self (st.df k)]
        exact mul_self_le_mul_self hzt.le hbig
      have h2 : sqrt (sumTo n fun i => st.df i * st.df i) * sqrt (sumTo n fun i => st.df i * st.df i)
          < zt * zt := mul_self_lt_mul_self hsq.1 hsmall
      rw [hsq.2] at h2
      linarith
    refine ⟨fun x hx => ?_, fun st' h => (by cases h)⟩
    injection hx with hx
    subst hx
    exact ⟨fun k hk => hI.cons_box k hk (hall k hk), hI.ball, hI.descent⟩
  · have hcond : ¬ (exactNum sqrt zt).sqrt (dot (exactNum sqrt zt) n st.df st.df) < (exactNum sqrt zt).zt := hsmall
    rw [if_neg hcond]
    obtain ⟨hα0, hαball⟩ := ballStep_spec hs n st.xf st.df Δ hsmall hzt hI.ball
    have htr : ∀ k < n, vget (trial (exactNum sqrt zt) n Δ st) k =
        st.xf k + ballStep (exactNum sqrt zt) n st.xf st.df Δ * st.df k :=
      fun k hk => vget_trial _ n Δ st k hk
    set αu := ballStep (exactNum sqrt zt) n st.xf st.df Δ with hαu
    have hU0 : 0 ≤ T + αu := add_nonneg hI.T_nonneg hα0
    have hxfree : ∀ k < n, k ∉ st.cons → st.xf k + αu * st.df k = (T + αu) * st.df k := by
      intro k hk hkc; rw [hI.free_ray k hk hkc]; ring
    have hballT : sumTo n (fun i => vget (trial (exactNum sqrt zt) n Δ st) i * vget (trial (exactNum sqrt zt) n Δ st) i) = Δ * Δ := by
      rw [← hαball]
      exact sumTo_congr fun i hi => by rw [htr i hi]
    cases hscan : scan st.cons (vget (trial (exactNum sqrt zt) n Δ st)) a b (List.range n) with
    | none =>
      -- no bound reached: return the trial point (lines 672-673)
      refine ⟨fun x hx => ?_, fun st' h => (by cases h)⟩
      injection hx with hx
      subst hx
      refine ⟨?_, le_of_eq hballT, ?_⟩
      · intro k hk
        by_cases hkc : k ∈ st.cons
        · rw [htr k hk, hI.cons_dirn k hk hkc, mul_zero, add_zero]; exact hI.cons_box k hk hkc
        · have := scan_none hscan k (List.mem_range.mpr hk) hkc
          exact ⟨this.1.le, this.2.le⟩
      · intro k hk
        by_cases hkc : k ∈ st.cons
        · rw [htr k hk, hI.cons_dirn k hk hkc, mul_zero, add_zero]; exact hI.descent k hk
        · rw [htr k hk, hxfree k hk hkc, hI.free_dirn k hk hkc]
          nlinarith [mul_nonneg hU0 (mul_self_nonneg (g k))]
    | lower j =>
      -- lower bound of coordinate j reached
      refine ⟨fun x h => (by cases h), fun st' hst => ?_⟩
      injection hst with hst
      subst hst
      obtain ⟨hjl, hjc, hle⟩ := scan_lower hscan
      have hj : j < n := List.mem_range.mp hjl
      rw [htr j hj, hxfree j hj hjc] at hle
      have haj := ha j hj
      have hdneg : st.df j < 0 := by
        by_contra hnn
        have : 0 ≤ (T + αu) * st.df j := mul_nonneg hU0 (not_lt.mp hnn)
        linarith
      exact ⟨⟨a j / st.df j, inv_fixAt hI hj hjc (a j) αu ⟨le_rfl, (haj.trans (hb j hj)).le⟩ (ne_of_lt hdneg)
        (div_nonneg_of_nonpos haj.le hdneg.le) ((div_le_iff_of_neg hdneg).mpr hle) (le_of_eq hαball)⟩,
        nfree_append hj hjc⟩
    | upper j =>
      -- upper bound of coordinate j reached
      refine ⟨fun x h => (by cases h), fun st' hst => ?_⟩
      injection hst with hst
      subst hst
      obtain ⟨hjl, hjc, hge⟩ := scan_upper hscan
      have hj : j < n := List.mem_range.mp hjl
      rw [htr j hj, hxfree j hj hjc] at hge
      have hbj := hb j hj
      have hdpos : 0 < st.df j := by
        by_contra hnp
        have : (T + αu) * st.df j ≤ 0 := mul_nonpos_of_nonneg_of_nonpos hU0 (not_lt.mp hnp)
        linarith
      exact ⟨⟨b j / st.df j, inv_fixAt hI hj hjc (b j) αu ⟨((ha j hj).trans hbj).le, le_rfl⟩ (ne_of_gt hdpos)
        (div_nonneg hbj.le hdpos.le) ((div_le_iff₀ hdpos).mpr hge) (le_of_eq hαball)⟩,
        nfree_append hj hjc⟩

/-- the loop: with enough fuel for the free coordinates, the result is good. -/
theorem linLoop_good {sqrt : K → K} (hs : SqrtSpec sqrt) {zt : K} (hzt : 0 < zt) {n : Nat} {Δ : K}
    {g a b : Nat → K} (ha : ∀ k < n, a k < 0) (hb : ∀ k < n, 0 < b k) :
    ∀ (f : Nat) (st : LinState K) (T : K), Inv n zt Δ g a b st T → nfree n st.cons ≤ f →
      Good n Δ g a b (vget (linLoop (exactNum sqrt zt) n a b Δ f st)) := by
  intro f
  induction f with
  | zero =>
    intro st T hI hf
    have hall := nfree_zero (Nat.le_zero.mp hf)
    exact ⟨fun k hk => hI.cons_box k hk (hall k hk), hI.ball, hI.descent⟩
  | succ f ih =>
    intro st T hI hf
    have hstep := linStep_spec hs hzt ha hb hI
    rw [linLoop]
    cases hres : linStep (exactNum sqrt zt) n a b Δ st with
    | inl x => exact hstep.1 x hres
    | inr st' =>
      obtain ⟨⟨T', hI'⟩, hcard⟩ := hstep.2 st' hres
      exact ih st' T' hI' (by omega)

/-- **`trsbox_linear`** (exact): the returned point lies in the widened box and in the ball, and
    `g_i x_i ≤ 0` componentwise. -/
theorem trsboxLinear_good {sqrt : K → K} (hs : SqrtSpec sqrt) {zt : K} (hzt : 0 < zt) (n : Nat)
    (g aIn bIn : Nat → K) (Δ : K) :
    Good n Δ g (widenLo (exactNum sqrt zt) aIn) (widenHi (exactNum sqrt zt) bIn)
      (vget (trsboxLinear (exactNum sqrt zt) n g aIn bIn Δ)) := by
  have ha : ∀ k < n, widenLo (exactNum sqrt zt) aIn k < 0 := by
    intro k _
    have : widenLo (exactNum sqrt zt) aIn k ≤ -zt := minv_le_right _ _
    linarith
  have hb : ∀ k < n, 0 < widenHi (exactNum sqrt zt) bIn k := by
    intro k _
    have : zt ≤ widenHi (exactNum sqrt zt) bIn k := le_maxv_right _ _
    linarith
  unfold trsboxLinear
  refine linLoop_good hs hzt ha hb n _ 0 ?_ ?_
  · have hmem : ∀ k, k ∈ (initState (exactNum sqrt zt) n g).cons ↔ k < n ∧ |(-(g k))| < zt := by
      intro k
      simp [initState, initCons, exactNum, absv_eq_abs]
    have hdirn : ∀ k < n, (initState (exactNum sqrt zt) n g).df k = if |(-(g k))| < zt then 0 else -(g k) := by
      intro k hk
      have := vget_vmk n (initDirn (exactNum sqrt zt) g) k hk
      simp only [initDirn, exactNum, absv_eq_abs] at this
      exact this
    have hx0 : ∀ k < n, (initState (exactNum sqrt zt) n g).xf k = 0 := by
      intro k hk
      exact vget_vmk n (fun _ => (0 : K)) k hk
    refine ⟨le_rfl, ?_, ?_, ?_, ?_, ?_, ?_, ?_⟩
    · intro k hk hkc
      rw [hdirn k hk, if_pos ((hmem k).mp hkc).2]
    · intro k hk _
      rw [hx0 k hk]
      exact ⟨(ha k hk).le, (hb k hk).le⟩
    · intro k hk _
      rw [hx0 k hk]; simp
    · intro k hk hkc
      have : ¬ |(-(g k))| < zt := fun h => hkc ((hmem k).mpr ⟨hk, h⟩)
      rw [hdirn k hk, if_neg this]
    · intro k hk hkc
      have : ¬ |(-(g k))| < zt := fun h => hkc ((hmem k).mpr ⟨hk, h⟩)
      rw [hdirn k hk, if_neg this]
      exact not_lt.mp this
    · have : sumTo n (fun i => (initState (exactNum sqrt zt) n g).xf i * (initState (exactNum sqrt zt) n g).xf i) = 0 := by
        rw [sumTo_congr (h := fun _ => 0) fun i hi => by rw [hx0 i hi, mul_zero], sumTo_eq_sum]; simp
      rw [this]; exact mul_self_nonneg Δ
    · intro k hk
      rw [hx0 k hk]; simp
  · unfold nfree
    calc ((Finset.range n).filter fun k => k ∉ (initState (exactNum sqrt zt) n g).cons).card
        ≤ (Finset.range n).card := Finset.card_filter_le _ _
      _ = n := Finset.card_range n

/-! ### trsbox_geometry -/

theorem dot_nonpos_of_good {n : Nat} {Δ : K} {g a b x : Nat → K} (h : Good n Δ g a b x) :
    sumTo n (fun i => g i * x i) ≤ 0 := by
  rw [sumTo_eq_sum]
  exact Finset.sum_nonpos fun i hi => h.2.2 i (Finset.mem_range.mp hi)

/-- **never worse than not moving** (exact): `|c + g·s| ≥ |c|` for the step chosen at lines 714-717. -/
theorem geomStep_not_worse {sqrt : K → K} (hs : SqrtSpec sqrt) {zt : K} (hzt : 0 < zt) (n : Nat)
    (xbase : Nat → K) (c : K) (g lower upper : Nat → K) (Δ : K) :
    |c| ≤ |c + sumTo n fun i => g i * vget (geomStep (exactNum sqrt zt) n xbase c g lower upper Δ) i| := by
  have hmin : (sumTo n fun i => g i * vget (geomSmin (exactNum sqrt zt) n xbase g lower upper Δ) i) ≤ 0 :=
    dot_nonpos_of_good
      (trsboxLinear_good hs hzt n g (fun i => lower i - xbase i) (fun i => upper i - xbase i) Δ)
  have hmax' := dot_nonpos_of_good
    (trsboxLinear_good hs hzt n (fun i => -(g i)) (fun i => lower i - xbase i) (fun i => upper i - xbase i) Δ)
  have hmax : 0 ≤ sumTo n fun i => g i * vget (geomSmax (exactNum sqrt zt) n xbase g lower upper Δ) i := by
    have : (sumTo n fun i => -(g i) * vget (trsboxLinear (exactNum sqrt zt) n (fun i => -(g i))
        (fun i => lower i - xbase i) (fun i => upper i - xbase i) Δ) i) =
        -(sumTo n fun i => g i * vget (geomSmax (exactNum sqrt zt) n xbase g lower upper Δ) i) := by
      rw [sumTo_eq_sum, sumTo_eq_sum, ← Finset.sum_neg_distrib]
      exact Finset.sum_congr rfl fun i _ => by simp [geomSmax]
    rw [this] at hmax'
    linarith
  unfold geomStep
  split_ifs with hch
  · -- smin chosen: |c + g·smax| ≤ |c + g·smin|
    rw [absv_eq_abs, absv_eq_abs, dot_exact, dot_exact] at hch
    rcases le_total 0 c with hc | hc
    · refine le_trans ?_ hch
      rw [abs_of_nonneg hc, abs_of_nonneg (by linarith)]; linarith
    · rw [abs_of_nonpos hc, abs_of_nonpos (by linarith)]; linarith
  · rw [absv_eq_abs, absv_eq_abs, dot_exact, dot_exact] at hch
    have hch := (not_le.mp hch).le
    rcases le_total 0 c with hc | hc
    · rw [abs_of_nonneg hc, abs_of_nonneg (by linarith)]; linarith
    · refine le_trans ?_ hch
      rw [abs_of_nonpos hc, abs_of_nonpos (by linarith)]; linarith

/-- the geometry step lies in the widened box around `xbase` and in the ball (exact). -/
theorem geomStep_box_ball {sqrt : K → K} (hs : SqrtSpec sqrt) {zt : K} (hzt : 0 < zt) (n : Nat)
    (xbase : Nat → K) (c : K) (g lower upper : Nat → K) (Δ : K) :
    let s := vget (geomStep (exactNum sqrt zt) n xbase c g lower upper Δ)
    (∀ k < n, minv (lower k - xbase k) (-zt) ≤ s k ∧ s k ≤ maxv (upper k - xbase k) zt) ∧
    sumTo n (fun i => s i * s i) ≤ Δ * Δ := by
  have hmin := trsboxLinear_good hs hzt n g (fun i => lower i - xbase i) (fun i => upper i - xbase i) Δ
  have hmax := trsboxLinear_good hs hzt n (fun i => -(g i)) (fun i => lower i - xbase i) (fun i => upper i - xbase i) Δ
  intro s
  have : s = vget (geomSmin (exactNum sqrt zt) n xbase g lower upper Δ) ∨
         s = vget (geomSmax (exactNum sqrt zt) n xbase g lower upper Δ) := by
    simp only [s, geomStep]
    split_ifs
    · exact Or.inl rfl
    · exact Or.inr rfl
  rcases this with h | h
  · rw [h]; exact ⟨hmin.1, hmin.2.1⟩
  · rw [h]; exact ⟨hmax.1, hmax.2.1⟩

/-- line 715/717: the returned point is `xbase + s`, componentwise. -/
theorem vget_trsboxGeometry (N : Num K) (n : Nat) (xbase : Nat → K) (c : K) (g lower upper : Nat → K) (Δ : K)
    (k : Nat) (hk : k < n) :
    vget (trsboxGeometry N n xbase c g lower upper Δ) k = xbase k + vget (geomStep N n xbase c g lower upper Δ) k := by
  exact vget_vmk n (fun i => xbase i + vget (geomStep N n xbase c g lower upper Δ) i) k hk

end TrsProofs
end Dfols
