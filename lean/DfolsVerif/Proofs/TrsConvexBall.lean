/-
  C13, clause (4) without the `LastBall` hypothesis: the connection to `Proofs/Dykstra.lean`
  (`ball_last`: a `dykstra` call whose last projector is the trust-region ball, with `max_iter ≥ 1`,
  returns a point within `Δ` of the centre — exact arithmetic in a real normed space).
-/
import DfolsVerif.Kernels.ConvexStep
import DfolsVerif.Proofs.Dykstra

namespace Dfols
namespace TrsProofs

open ConvexStep Dykstra

variable {E : Type} [NormedAddCommGroup E] [NormedSpace ℝ E]

/-- `proj` of the convex solvers (trust_region.py:133-137, 194-198, 596-600) with the real `dykstra` model:
    user projections `Qs`, then the trust-region ball. -/
noncomputable def projReal (Qs : List (E → E)) (xopt : E) (Δ : ℝ) (maxIter : Nat) (tol : ℝ) (d0 : E) : E :=
  dykstra realOps (Qs ++ [fun w => pball realBallOps w xopt Δ]) (xopt + d0) maxIter tol - xopt

/-- every projected step is in the ball. -/
theorem projReal_norm_le (Qs : List (E → E)) (xopt : E) (Δ : ℝ) (hΔ : 0 < Δ) (maxIter : Nat) (tol : ℝ)
    (hmax : 1 ≤ maxIter) (d0 : E) : ‖projReal Qs xopt Δ maxIter tol d0‖ ≤ Δ :=
  ball_last Qs xopt (xopt + d0) Δ hΔ maxIter tol hmax

/-- **`ctrsbox_pgd`, `ctrsbox_sfista`, `ctrsbox_linear` return `‖d‖ ≤ Δ`** (exact arithmetic), for arbitrary
    user projections `Qs` (no property of them is used), any trial points, `dykstra.max_iters ≥ 1`. -/
theorem convex_step_norm_le (Qs : List (E → E)) (xopt : E) (Δ : ℝ) (hΔ : 0 < Δ) (maxIter : Nat) (tol : ℝ)
    (hmax : 1 ≤ maxIter) (ws : List E) :
    ‖runProj 0 (projReal Qs xopt Δ maxIter tol) ws‖ ≤ Δ :=
  runProj_inv (fun d => ‖d‖ ≤ Δ) 0 _ (by simpa using hΔ.le)
    (fun w => projReal_norm_le Qs xopt Δ hΔ maxIter tol hmax w) ws

end TrsProofs
end Dfols
