/-
  The sampling loop (L0 kernel, translated from the source) refines into the counter acceptor (L2):
  the events an `evaluate_objective` call produces according to `Kernels/EvalLoop.lean` are ACCEPTED by
  `CountAcc.step`, and the acceptor's counters after the block are the kernel's.  (So the acceptor's rules are
  not stricter than the modelled code: the set of accepted traces contains the model's behaviour.)
-/
import DfolsVerif.Accept.CountAcc
import DfolsVerif.Proofs.EvalLoop

namespace Dfols
namespace EvalLoopAcc
open CountAcc

/-- the `obj` event of call `(evalNo, ptNo)` at point `xid` with objective `v` -/
def objEv (xid : Nat) (v : Val) (c : Nat × Nat) : Ev := .obj c.1 c.1 c.2 xid v 1

theorem fold_objs (maxfun want nf0 nx0 x : Nat) (v : Val) :
    ∀ (m j : Nat) (s : St), s.maxfun = maxfun → s.phase = .inEval j want nf0 x → s.nf = nf0 + j →
      (j = 0 → s.nx = nx0) → (0 < j → s.nx = nx0 + 1 ∧ s.curX = x) → j + m ≤ want → nf0 + j + m ≤ maxfun →
      ∃ s', ((List.range m).map (fun i => objEv x v (nf0 + j + i + 1, nx0 + 1))).foldlM step s = .ok s' ∧
        s'.maxfun = maxfun ∧ s'.phase = .inEval (j + m) want nf0 x ∧ s'.nf = nf0 + j + m ∧
        (j + m = 0 → s'.nx = nx0) ∧ (0 < j + m → s'.nx = nx0 + 1 ∧ s'.curX = x) ∧
        s'.groups = s.groups ∧ s'.lastNs = s.lastNs := by
  intro m
  induction m with
  | zero =>
    intro j s hm hp hn h0 h1 _ _
    exact ⟨s, by simp [pure, Except.pure], hm, by simpa using hp, by simpa using hn, by simpa using h0, by simpa using h1, rfl, rfl⟩
  | succ m ih =>
    intro j s hm hp hn h0 h1 hw hb
    rw [List.range_succ_eq_map, List.map_cons, List.map_map, List.foldlM_cons]
    -- the first event
    have hlt : s.nf < s.maxfun := by rw [hm, hn]; omega
    have hjw : j < want := by omega
    by_cases hj : j = 0
    · subst hj
      have hnx := h0 rfl
      simp only [Nat.add_zero] at hn
      have hlt' : nf0 < s.maxfun := by omega
      have hstep : step s (objEv x v (nf0 + 0 + 0 + 1, nx0 + 1)) =
          .ok { s with nf := s.nf + 1, nx := s.nx + 1, curX := x, phase := .inEval 1 want nf0 x,
                       calls := (nf0 + 0 + 0 + 1, nx0 + 1, x) :: s.calls } := by
        simp only [objEv, step, hp]
        simp [hn, hlt', hjw, hnx]
      simp only [hstep, bind, Except.bind]
      obtain ⟨s', hs', r1, r2, r3, r4, r5, r6, r7⟩ := ih 1
        { s with nf := s.nf + 1, nx := s.nx + 1, curX := x, phase := .inEval 1 want nf0 x,
                 calls := (nf0 + 0 + 0 + 1, nx0 + 1, x) :: s.calls }
        hm rfl (by show s.nf + 1 = nf0 + 1; omega) (fun h => absurd h (by decide))
        (fun _ => ⟨by show s.nx + 1 = nx0 + 1; omega, rfl⟩) (by omega) (by omega)
      refine ⟨s', ?_, r1, by rw [r2]; congr 1; omega, by rw [r3]; omega, by omega, fun _ => r5 (by omega), r6, r7⟩
      rw [← hs']
      congr 1
      apply List.map_congr_left
      intro i _
      simp only [Function.comp, objEv]
      congr 1 <;> omega
    · have hpos : 0 < j := Nat.pos_of_ne_zero hj
      obtain ⟨hnx, hcx⟩ := h1 hpos
      have hlt' : nf0 + j < s.maxfun := by omega
      have hstep : step s (objEv x v (nf0 + j + 0 + 1, nx0 + 1)) =
          .ok { s with nf := s.nf + 1, phase := .inEval (j + 1) want nf0 x,
                       calls := (nf0 + j + 0 + 1, nx0 + 1, x) :: s.calls } := by
        simp only [objEv, step, hp]
        simp [hn, hlt', hjw, hnx, hcx, hj]
      simp only [hstep, bind, Except.bind]
      obtain ⟨s', hs', r1, r2, r3, r4, r5, r6, r7⟩ := ih (j + 1)
        { s with nf := s.nf + 1, phase := .inEval (j + 1) want nf0 x,
                 calls := (nf0 + j + 0 + 1, nx0 + 1, x) :: s.calls }
        hm rfl (by show s.nf + 1 = nf0 + (j + 1); omega) (fun h => absurd h (by omega))
        (fun _ => ⟨hnx, hcx⟩) (by omega) (by omega)
      refine ⟨s', ?_, r1, by rw [r2]; congr 1; omega, by rw [r3]; omega, by omega, fun _ => r5 (by omega), r6, r7⟩
      rw [← hs']
      congr 1
      apply List.map_congr_left
      intro i _
      simp only [Function.comp, objEv]
      congr 1 <;> omega

/-- **refinement of `evaluate_objective` into the acceptor**: from an idle acceptor state whose counters are
    `(nf, nx)` with `nf ≤ maxfun` and whose latest `nsamples` callback asked for `want ≥ 1`, the event block
    `evb want x, obj…, eve runs …` built from the KERNEL's calls is accepted, and afterwards the acceptor is idle
    with exactly the kernel's counters. -/
theorem evaluateObjective_accepted (maxfun nf nx want x : Nat) (v : Val) (s : St)
    (hm : s.maxfun = maxfun) (hp : s.phase = .idle) (hn : s.nf = nf) (hx : s.nx = nx) (hl : s.lastNs = want)
    (hb : nf ≤ maxfun) (ex : Option Int) (cls : MsgCls) (vm thr : Val) (nan : Bool) :
    let t := EvalLoop.evaluateObjective maxfun nf nx want
    ∃ s', ([Ev.evb want x] ++ t.calls.map (objEv x v) ++ [Ev.eve t.runs ex cls vm thr nan]).foldlM step s = .ok s' ∧
      s'.phase = .idle ∧ s'.nf = t.nf ∧ s'.nx = t.nx ∧ s'.maxfun = maxfun := by
  have hspec := EvalLoop.evaluateObjective_spec maxfun nf nx want
  simp only at hspec
  obtain ⟨t1, t2, t3, t4, _, _, _⟩ := hspec
  simp only
  rw [t4, t3, t1, t2, List.map_map]
  have hkw : min want (maxfun - nf) ≤ want := Nat.min_le_left _ _
  have hkb : nf + min want (maxfun - nf) ≤ maxfun := by omega
  generalize hk : min want (maxfun - nf) = k at hkw hkb ⊢
  rw [List.append_assoc, List.singleton_append, List.foldlM_cons]
  have hevb : step s (.evb want x) = .ok { s with phase := .inEval 0 want s.nf x } := by
    simp [step, hp, hl]
  simp only [hevb, bind, Except.bind]
  rw [List.foldlM_append]
  obtain ⟨s1, hs1, r1, r2, r3, r4, r5, _, _⟩ := fold_objs maxfun want nf nx x v k 0 { s with phase := .inEval 0 want s.nf x }
    hm (by show Phase.inEval 0 want s.nf x = Phase.inEval 0 want nf x; rw [hn]) (by show s.nf = nf + 0; omega)
    (fun _ => hx) (fun h => absurd h (by omega)) (by omega) (by omega)
  have hmap : (List.range k).map (objEv x v ∘ fun j => (nf + j + 1, nx + 1)) =
      (List.range k).map (fun i => objEv x v (nf + 0 + i + 1, nx + 1)) := by
    apply List.map_congr_left
    intro i _
    simp only [Function.comp, objEv]
    congr 1 <;> omega
  rw [hmap, hs1]
  simp only [bind, Except.bind, List.foldlM_cons, List.foldlM_nil]
  simp only [Nat.zero_add] at r2 r3 r4 r5
  have heve : step s1 (.eve k ex cls vm thr nan) =
      .ok { s1 with phase := .idle, groups := (want, k, s1.maxfun - nf) :: s1.groups } := by
    simp only [step, r2]
    simp [r1, hk]
  rw [heve]
  refine ⟨_, rfl, rfl, by simpa using r3, ?_, by simpa using r1⟩
  by_cases hk0 : k = 0
  · simp [hk0, r4 hk0]
  · simp [hk0, (r5 (Nat.pos_of_ne_zero hk0)).1]

/-! ### the block at x0 -/

theorem fold_objs_x0 (maxfun want nf0 nx1 x : Nat) (v : Val) :
    ∀ (m j : Nat) (s : St), s.maxfun = maxfun → s.phase = .x0 j want nf0 → 0 < j → s.nf = nf0 + j →
      s.nx = nx1 → s.curX = x → j + m ≤ want → nf0 + j + m ≤ maxfun →
      ∃ s', ((List.range m).map (fun i => objEv x v (nf0 + j + i + 1, nx1))).foldlM step s = .ok s' ∧
        s'.maxfun = maxfun ∧ s'.phase = .x0 (j + m) want nf0 ∧ s'.nf = nf0 + j + m ∧ s'.nx = nx1 ∧ s'.curX = x ∧
        s'.groups = s.groups := by
  intro m
  induction m with
  | zero =>
    intro j s hm hp _ hn hx hc _ _
    exact ⟨s, by simp [pure, Except.pure], hm, by simpa using hp, by simpa using hn, hx, hc, rfl⟩
  | succ m ih =>
    intro j s hm hp hj hn hx hc hw hb
    rw [List.range_succ_eq_map, List.map_cons, List.map_map, List.foldlM_cons]
    have hlt' : nf0 + j < s.maxfun := by rw [hm]; omega
    have hjw : j < want := by omega
    have hj0 : j ≠ 0 := by omega
    have hstep : step s (objEv x v (nf0 + j + 0 + 1, nx1)) =
        .ok { s with nf := s.nf + 1, phase := .x0 (j + 1) want nf0,
                     calls := (nf0 + j + 0 + 1, nx1, x) :: s.calls } := by
      simp only [objEv, step, hp]
      simp [hn, hlt', hjw, hx, hc, hj0]
    simp only [hstep, bind, Except.bind]
    obtain ⟨s', hs', r1, r2, r3, r4, r5, r6⟩ := ih (j + 1)
      { s with nf := s.nf + 1, phase := .x0 (j + 1) want nf0, calls := (nf0 + j + 0 + 1, nx1, x) :: s.calls }
      hm rfl (by omega) (by show s.nf + 1 = nf0 + (j + 1); omega) hx hc (by omega) (by omega)
    refine ⟨s', ?_, r1, by rw [r2]; congr 1; omega, by rw [r3]; omega, r4, r5, r6⟩
    rw [← hs']
    congr 1
    apply List.map_congr_left
    intro i _
    simp only [Function.comp, objEv]
    congr 1 <;> omega

/-- **refinement of the block at x0 into the acceptor**: from an idle acceptor state with counters `(nf, nx)`,
    `nf < maxfun`, the events `rst …, ns want, obj…, ctrl …` built from the KERNEL's calls for `want ≥ 1` requested
    samples are accepted, and afterwards the acceptor is idle with exactly the kernel's counters. -/
theorem evaluateX0_accepted (maxfun nf nx want x nruns npt : Nat) (v : Val) (s : St)
    (hm : s.maxfun = maxfun) (hp : s.phase = .idle) (hn : s.nf = nf) (hx : s.nx = nx)
    (hb : nf < maxfun) (hw : 1 ≤ want) (lab ns' cap : Nat) (v0 thr : Val) :
    let t := EvalLoop.evaluateX0 maxfun nf nx want
    ∃ s', ([Ev.rst nruns nf nx false maxfun npt, Ev.ns (want : Int)] ++ t.calls.map (objEv x v) ++
            [Ev.ctrl lab ns' v0 cap thr]).foldlM step s = .ok s' ∧
      s'.phase = .idle ∧ s'.nf = t.nf ∧ s'.nx = t.nx ∧ s'.maxfun = maxfun := by
  have hspec := EvalLoop.evaluateX0_spec maxfun nf nx want hw
  simp only at hspec
  obtain ⟨t1, t2, _, t4, _, _⟩ := hspec
  simp only
  rw [t4, t1, t2, List.map_map]
  have hkw : min (want - 1) (maxfun - (nf + 1)) ≤ want - 1 := Nat.min_le_left _ _
  have hkb : nf + 1 + min (want - 1) (maxfun - (nf + 1)) ≤ maxfun := by omega
  generalize hk : min (want - 1) (maxfun - (nf + 1)) = k at hkw hkb ⊢
  -- rst
  have hrst : step s (.rst nruns nf nx false maxfun npt) = .ok { s with started := true, phase := .x0 0 0 s.nf } := by
    simp only [step, hp]
    simp [hn, hx, hm, hb]
  -- ns
  have hns : ∀ s0 : St, step s0 (.ns (want : Int)) = .ok { s0 with lastNs := want } := by
    intro s0
    simp only [step]
    by_cases h1 : (want : Int) ≤ 1
    · have : want = 1 := by omega
      subst this; simp
    · simp [h1]
  simp only [List.cons_append, List.nil_append, List.foldlM_cons, hrst, hns, bind, Except.bind]
  -- the first, unconditional call, then the loop's calls
  rw [List.range_succ_eq_map, List.map_cons, List.map_map, List.cons_append, List.foldlM_cons]
  have hfirst : step { s with started := true, phase := .x0 0 0 s.nf, lastNs := want }
      ((objEv x v ∘ fun j => (nf + j + 1, nx + 1)) 0) =
      .ok { s with started := true, lastNs := want, nf := s.nf + 1, nx := s.nx + 1, curX := x, phase := .x0 1 want s.nf,
                   calls := (nf + 0 + 1, nx + 1, x) :: s.calls } := by
    simp only [Function.comp, objEv, step]
    simp [hn, hx, hm, hb]
  simp only [hfirst, bind, Except.bind]
  rw [List.foldlM_append]
  obtain ⟨s1, hs1, r1, r2, r3, r4, _, _⟩ := fold_objs_x0 maxfun want nf (nx + 1) x v k 1
    { s with started := true, lastNs := want, nf := s.nf + 1, nx := s.nx + 1, curX := x, phase := .x0 1 want s.nf,
             calls := (nf + 0 + 1, nx + 1, x) :: s.calls }
    hm (by show Phase.x0 1 want s.nf = Phase.x0 1 want nf; rw [hn]) (by omega) (by show s.nf + 1 = nf + 1; omega)
    (by show s.nx + 1 = nx + 1; omega) rfl (by omega) (by omega)
  have hmap : (List.range k).map ((objEv x v ∘ fun j => (nf + j + 1, nx + 1)) ∘ Nat.succ) =
      (List.range k).map (fun i => objEv x v (nf + 1 + i + 1, nx + 1)) := by
    apply List.map_congr_left
    intro i _
    simp only [Function.comp, objEv]
    congr 1 <;> omega
  rw [hmap, hs1]
  simp only [bind, Except.bind, List.foldlM_cons, List.foldlM_nil]
  have hctrl : step s1 (.ctrl lab ns' v0 cap thr) =
      .ok { s1 with phase := .idle, groups := (want, 1 + k, s1.maxfun - nf) :: s1.groups } := by
    simp only [step, r2]
    have h1 : (1 + k = 0) = False := by simp
    have h2 : 1 + k = min want (s1.maxfun - nf) := by rw [r1]; omega
    simp [h2]
    omega
  rw [hctrl]
  exact ⟨_, rfl, rfl, by simpa using (by omega : s1.nf = nf + 1 + k), by simpa using r4, by simpa using r1⟩

end EvalLoopAcc
end Dfols
