/-
  Theorems decided over the ownership / persistent-state tables that harness/gen_ownership.py regenerates from
  /repo's AST on every run (Gen/Ownership.lean).  No reference copy: the statements quantify over the generated
  tables themselves, so a source change that adds a write through a caller-owned name, lets caller data escape into
  the solver, or introduces state that outlives a call, makes these theorems false.
-/
import DfolsVerif.Gen.Ownership

namespace Dfols
namespace Ownership

/-- the parameters the analysis tracks are parameters of `solve` (a rename would silently untrack them) -/
theorem tracked_are_params : ∀ p ∈ Gen.trackedParams, p ∈ Gen.solveParams := by decide

/-- every in-place write `solve` makes through a local name goes to an object created inside the call -/
theorem writes_fresh : ∀ w ∈ Gen.solveWrites, w.owner = "fresh" := by decide

/-- callees that only read their argument (builtins) or copy the value out of it (`params(key, new_value=val)`) -/
def readers : List String := ["len", "list", "params", "str", "dict", "tuple", "isinstance", "type"]

/-- caller-owned data are handed on only to readers; what reaches the solver proper (`solve_main`, `dykstra`) as the
    caller's own object is at most the `projections` list, and only when it is empty -/
theorem escapes_read_only :
    ∀ e ∈ Gen.solveEscapes,
      (e.owner = "caller" → e.callee ∈ readers) ∧
      (e.owner = "caller-empty" → e.arg = "projections") ∧
      (e.owner = "caller" ∨ e.owner = "caller-empty") := by decide

/-- no class-level bindings and no `global` / `nonlocal` statement anywhere in the package -/
theorem no_shared_class_or_global_state : Gen.classState = [] ∧ Gen.globalStatements = [] := by decide

/-- module-level bindings are constants, name lists (`__all__`) or loggers -/
theorem module_state_immutable :
    ∀ b ∈ Gen.moduleState, b.kind = "const" ∨ (b.kind = "names" ∧ b.name = "__all__") ∨ (b.kind = "logger" ∧ b.name = "module_logger") := by
  decide +kernel

/-- the only default argument that is not a constant is `solve(projections=[])` — which `writes_fresh` and
    `escapes_read_only` show is never written to and is passed on only while empty -/
theorem only_mutable_default :
    ∀ b ∈ Gen.nonConstantDefaults, b.file = "solver.py" ∧ b.name = "solve.projections" := by decide

end Ownership
end Dfols
