/-
  Lemmas for C12 (`trsbox`):
    * the final clipping `d_within_bounds` puts the new point in the box for ANY rounding
      (arbitrary linear order, uninterpreted `+` and `-`);
    * in exact arithmetic the returned step itself satisfies `sl ≤ xopt + d ≤ su`;
    * both return paths of the `Float` port end in that clipping;
    * (exact) `gnew = g + H d` is preserved by the CG update (lines 346-347) and by the rotation of
      the alternative iteration (lines 517-521);
    * (exact) the model value after a step `t•s` along a direction with `g·s = -‖s‖²`
      (the first, steepest-descent, CG iteration) is `-(t(‖s‖² - t/2 · sHs))` — line 349's `sdec` —
      and is at most `-t‖s‖²/2` when `t` respects the curvature bound of line 321.
-/
import DfolsVerif.Kernels.Trsbox
import Mathlib.Order.MinMax
import Mathlib.Order.Lattice
import Mathlib.Algebra.Order.Group.Defs
import Mathlib.Algebra.Order.Field.Basic
import Mathlib.Data.Matrix.Mul
import Mathlib.Tactic.Ring
import Mathlib.Tactic.Abel
import Mathlib.Tactic.Linarith
import Mathlib.Tactic.FieldSimp

namespace Dfols
namespace TrsProofs

open TrsLin Trs

/-! ### (a) the box -/

section anyRounding
variable {α : Type} [LinearOrder α] [Add α] [Sub α]

omit [Sub α] in
/-- any rounding of `xopt + d`: the clipped point lies in `[sl, su]` as soon as `sl ≤ su`. -/
theorem xnewClip_mem (d xopt sl su : Nat → α) (xbdi : Nat → Int) (i : Nat) (h : sl i ≤ su i) :
    sl i ≤ xnewClip d xopt sl su xbdi i ∧ xnewClip d xopt sl su xbdi i ≤ su i := by
  unfold xnewClip
  split_ifs
  · exact ⟨le_rfl, h⟩
  · exact ⟨h, le_rfl⟩
  · exact ⟨le_max_right _ _, max_le (min_le_right _ _) h⟩

omit [Sub α] in
/-- flagged components sit on the bound itself. -/
theorem xnewClip_fixed_lower (d xopt sl su : Nat → α) (xbdi : Nat → Int) (i : Nat) (h : xbdi i = -1) :
    xnewClip d xopt sl su xbdi i = sl i := by simp [xnewClip, h]

omit [Sub α] in
theorem xnewClip_fixed_upper (d xopt sl su : Nat → α) (xbdi : Nat → Int) (i : Nat) (h : xbdi i = 1) :
    xnewClip d xopt sl su xbdi i = su i := by simp [xnewClip, h]

/-- the array returned by `d_within_bounds`: component `i` is `xnew_i ⊖ xopt_i` with `xnew_i` in the box. -/
theorem finishG_spec (n : Nat) (d xopt sl su : Nat → α) (xbdi : Nat → Int) (hbox : ∀ i < n, sl i ≤ su i) :
    (finishG n d xopt sl su xbdi).size = n ∧
    ∀ i, i < n → ∃ xnew : α, sl i ≤ xnew ∧ xnew ≤ su i ∧
      (finishG n d xopt sl su xbdi)[i]? = some (xnew - xopt i) := by
  refine ⟨by simp [finishG, vmap2], ?_⟩
  intro i hi
  refine ⟨xnewClip d xopt sl su xbdi i, (xnewClip_mem d xopt sl su xbdi i (hbox i hi)).1,
    (xnewClip_mem d xopt sl su xbdi i (hbox i hi)).2, ?_⟩
  simp [finishG, vmap2, dWithinBounds, hi]

end anyRounding

section exact
variable {α : Type} [AddCommGroup α] [LinearOrder α]

/-- exact arithmetic: the returned step satisfies the box. -/
theorem dWithinBounds_exact (d xopt sl su : Nat → α) (xbdi : Nat → Int) (i : Nat) (h : sl i ≤ su i) :
    sl i ≤ xopt i + dWithinBounds d xopt sl su xbdi i ∧ xopt i + dWithinBounds d xopt sl su xbdi i ≤ su i := by
  have := xnewClip_mem d xopt sl su xbdi i h
  simpa [dWithinBounds] using this

end exact

section exactId
variable {α : Type} [AddCommGroup α] [LinearOrder α]

/-- exact arithmetic: on a step that already satisfies the bounds and whose flagged components sit
    on their bounds, the final clipping is the identity. -/
theorem dWithinBounds_id (d xopt sl su : Nat → α) (xbdi : Nat → Int) (i : Nat)
    (hin : sl i ≤ xopt i + d i ∧ xopt i + d i ≤ su i)
    (hlo : xbdi i = -1 → xopt i + d i = sl i) (hup : xbdi i = 1 → xopt i + d i = su i) :
    dWithinBounds d xopt sl su xbdi i = d i := by
  unfold dWithinBounds xnewClip
  split_ifs with h1 h2
  · rw [← hlo h1]; abel
  · rw [← hup h2]; abel
  · rw [min_eq_left hin.2, max_eq_left hin.1]; abel

end exactId

/-- Both return paths of the port (`trust_region.py:382` via `393/543`, and `384`) hand the
    un-clipped step and the flags to `d_within_bounds`. -/
theorem trsbox_d_eq_finish (A : Arith) (n : Nat) (xopt g H sl su : FV) (delta : Float) :
    (trsbox A n xopt g H sl su delta).d =
      finishG n (at' (trsboxCore A n xopt g H sl su delta).dRaw) (at' xopt) (at' sl) (at' su)
        (fun i => (trsboxCore A n xopt g H sl su delta).xbdi.getD i 0) := rfl

/-! ### (d) gnew = g + H d -/

section gnew
variable {n : Nat} {K : Type} [CommRing K]
open Matrix

/-- CG update, lines 346-347: `gnew += stplen*hs; d += stplen*s` with `hs = H s`. -/
theorem gnew_cg_update (H : Matrix (Fin n) (Fin n) K) (g d s gnew hs : Fin n → K) (t : K)
    (hinv : gnew = g + H *ᵥ d) (hhs : hs = H *ᵥ s) :
    gnew + t • hs = g + H *ᵥ (d + t • s) := by
  subst hinv hhs
  rw [mulVec_add, mulVec_smul]
  abel

/-- alternative iteration, lines 517-521: with `hred = H d_red` (the free part of `d`, lines
    398-407), `hs = H s` and `s` supported on the free variables, the rotation
    `d_free ← cth d_free + sth s_free`, `gnew += (cth-1) hred + sth hs`, `hred ← cth hred + sth hs`
    preserves both `gnew = g + H d` and `hred = H d_red`. -/
theorem gnew_alt_update (H : Matrix (Fin n) (Fin n) K) (g d s gnew hs hred : Fin n → K) (cth sth : K)
    (free : Fin n → Prop) [DecidablePred free]
    (hinv : gnew = g + H *ᵥ d)
    (hhred : hred = H *ᵥ (fun i => if free i then d i else 0))
    (hhs : hs = H *ᵥ s) (hs0 : ∀ i, ¬ free i → s i = 0) :
    let d' : Fin n → K := fun i => if free i then cth * d i + sth * s i else d i
    gnew + ((cth - 1) • hred + sth • hs) = g + H *ᵥ d' ∧
    cth • hred + sth • hs = H *ᵥ (fun i => if free i then d' i else 0) := by
  intro d'
  subst hinv hhred hhs
  have h1 : d' = d + ((cth - 1) • (fun i => if free i then d i else 0) + sth • s) := by
    funext i
    by_cases hf : free i
    · simp [d', hf]; ring
    · simp [d', hf, hs0 i hf]
  have h2 : (fun i => if free i then d' i else 0) = cth • (fun i => if free i then d i else 0) + sth • s := by
    funext i
    by_cases hf : free i
    · simp [d', hf]
    · simp [hf, hs0 i hf]
  constructor
  · rw [h1, mulVec_add, mulVec_add, mulVec_smul, mulVec_smul]; abel
  · rw [h2, mulVec_add, mulVec_smul, mulVec_smul]

end gnew

/-! ### (e) the first CG step is a (projected) steepest-descent step with decrease `sdec` -/

section cauchy
variable {n : Nat} {K : Type} [Field K] [LinearOrder K] [IsStrictOrderedRing K]
open Matrix

/-- the quadratic model `Q(d) = g·d + ½ d·H d` -/
def Q (g : Fin n → K) (H : Matrix (Fin n) (Fin n) K) (d : Fin n → K) : K := g ⬝ᵥ d + (1 / 2) * (d ⬝ᵥ (H *ᵥ d))

/-- along any direction `s`: `Q(t s) = t (g·s) + ½ t² (s·Hs)`. -/
theorem Q_ray (g : Fin n → K) (H : Matrix (Fin n) (Fin n) K) (s : Fin n → K) (t : K) :
    Q g H (t • s) = t * (g ⬝ᵥ s) + (1 / 2) * t * t * (s ⬝ᵥ (H *ᵥ s)) := by
  unfold Q
  rw [mulVec_smul, dotProduct_smul, smul_dotProduct, dotProduct_smul]
  simp only [smul_eq_mul]
  ring

omit [LinearOrder K] [IsStrictOrderedRing K] in
/-- the (projected) steepest-descent direction of the first iteration (lines 281-283):
    `s = -g` on the free variables, `0` on the variables fixed at an active bound. -/
theorem sd_dir_dot (g : Fin n → K) (free : Fin n → Prop) [DecidablePred free] :
    let s : Fin n → K := fun i => if free i then -g i else 0
    g ⬝ᵥ s = -(s ⬝ᵥ s) := by
  intro s
  simp only [dotProduct, ← Finset.sum_neg_distrib]
  refine Finset.sum_congr rfl fun i _ => ?_
  by_cases hf : free i <;> simp [s, hf]

/-- line 349: after the first iteration (`d = t s`, `g·s = -‖s‖²`) the model value is exactly
    `-sdec` with `sdec = t (‖s‖² - ½ t sHs)`; and if `t ≥ 0` respects the curvature bound of line 321
    (`t ≤ ‖s‖²/sHs` whenever `sHs > 0`) the decrease is at least `½ t ‖s‖² ≥ 0`. -/
theorem first_step_decrease (g : Fin n → K) (H : Matrix (Fin n) (Fin n) K) (s : Fin n → K) (t : K)
    (hgs : g ⬝ᵥ s = -(s ⬝ᵥ s)) (ht : 0 ≤ t)
    (hcurv : 0 < s ⬝ᵥ (H *ᵥ s) → t ≤ (s ⬝ᵥ s) / (s ⬝ᵥ (H *ᵥ s))) :
    Q g H (t • s) = -(t * (s ⬝ᵥ s - (1 / 2) * t * (s ⬝ᵥ (H *ᵥ s)))) ∧
    Q g H (t • s) ≤ -((1 / 2) * t * (s ⬝ᵥ s)) := by
  have hQ : Q g H (t • s) = -(t * (s ⬝ᵥ s - (1 / 2) * t * (s ⬝ᵥ (H *ᵥ s)))) := by
    rw [Q_ray, hgs]; ring
  refine ⟨hQ, ?_⟩
  rw [hQ]
  have hss : 0 ≤ s ⬝ᵥ s := by
    simp only [dotProduct]
    exact Finset.sum_nonneg fun i _ => mul_self_nonneg _
  -- t * shs ≤ ss
  have key : t * (s ⬝ᵥ (H *ᵥ s)) ≤ s ⬝ᵥ s := by
    by_cases hpos : 0 < s ⬝ᵥ (H *ᵥ s)
    · have := hcurv hpos
      calc t * (s ⬝ᵥ (H *ᵥ s)) ≤ (s ⬝ᵥ s) / (s ⬝ᵥ (H *ᵥ s)) * (s ⬝ᵥ (H *ᵥ s)) :=
            mul_le_mul_of_nonneg_right this hpos.le
        _ = s ⬝ᵥ s := by field_simp
    · have hle : s ⬝ᵥ (H *ᵥ s) ≤ 0 := not_lt.mp hpos
      exact le_trans (mul_nonpos_of_nonneg_of_nonpos ht hle) hss
  nlinarith [mul_le_mul_of_nonneg_left key ht]

end cauchy

end TrsProofs
end Dfols
