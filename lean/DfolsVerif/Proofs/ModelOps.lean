/-
  Structural facts about single L1 operations used by the L2 acceptor proofs:
  where the rows of the new state come from, what happens to `kopt`, `saved`, `objopt`.
-/
import DfolsVerif.Proofs.ModelKopt

namespace Dfols
namespace MState

variable {P R : Type}
open Val

def newSlot (x : P) (r : R) (v : Val) (en : Nat) : Slot P R :=
  { pt := x, resid := r, obj := v, ns := 1, en := en, gpt := x, glabel := en, gsamples := [r], gobjSrc := (r, x) }

/-- rows after `change_point`: old rows or the new one; `saved` untouched; `kopt` in range. -/
theorem mem_append_single {α : Type} {l : List α} {a b : α} (h : b ∈ l ++ [a]) : b ∈ l ∨ b = a := by
  simpa using h

theorem changePoint_struct {s s' : MState P R} (hk : s.kopt < s.slots.length)
    {k : Nat} {x : P} {r : R} {v : Val} {en : Nat} {a : Bool}
    (h : s.changePoint k x r v en a = .ok s') :
    s'.kopt < s'.slots.length ∧ s'.saved = s.saved ∧ s'.cap = s.cap ∧
    (∀ sl ∈ s'.slots, sl ∈ s.slots ∨ sl = newSlot x r v en) ∧
    s'.slots[k]? = some (newSlot x r v en) ∧ s.slots.length ≤ s'.slots.length := by
  unfold changePoint at h
  simp only at h
  split at h
  · split at h
    · rename_i hk1 hk2
      subst hk2
      simp only [Except.ok.injEq] at h
      split at h <;> subst h
      · exact ⟨by simp, rfl, rfl, fun sl hsl => mem_append_single hsl, by simp [newSlot], by simp⟩
      · exact ⟨by simp; omega, rfl, rfl, fun sl hsl => mem_append_single hsl, by simp [newSlot], by simp⟩
    · simp at h
  · split at h
    · rename_i hk1 hk2
      simp only [Except.ok.injEq] at h
      have hmem : ∀ sl ∈ s.slots.set k (newSlot x r v en), sl ∈ s.slots ∨ sl = newSlot x r v en := by
        intro sl hsl
        rcases mem_set_cases hsl with e | e
        · exact Or.inr e
        · exact Or.inl e
      split at h <;> subst h
      · exact ⟨by simp; omega, rfl, rfl, hmem, by simp [newSlot, hk2], by simp⟩
      · exact ⟨by simp; omega, rfl, rfl, hmem, by simp [newSlot, hk2], by simp⟩
    · simp at h

/-- the incumbent's value after `change_point` with the update allowed: it is the better of the new
    value and the (possibly overwritten) old incumbent value. -/
theorem changePoint_objopt {s s' : MState P R} (hk : s.kopt < s.slots.length)
    {k : Nat} {x : P} {r : R} {v : Val} {en : Nat}
    (h : s.changePoint k x r v en true = .ok s') :
    (s'.objopt = v ∨ (k ≠ s.kopt ∧ s'.objopt = s.objopt)) ∧ Better s'.objopt v ∧
    (k ≠ s.kopt → Better s'.objopt s.objopt) := by
  unfold changePoint at h
  simp only at h
  split at h
  · rename_i hk1
    split at h
    · rename_i hk2
      subst hk2
      simp only [Bool.true_and, Except.ok.injEq] at h
      have hne : s.kopt ≠ s.slots.length := by omega
      split at h
      · rename_i himp
        subst h
        refine ⟨?_, ?_, ?_⟩
        · left; simp [objopt, objAt, objL_append]
        · simp only [objopt, objAt, objL_append, ↓reduceIte]; exact Better.refl _
        · intro _; simp only [objopt, objAt, objL_append, ↓reduceIte]; exact improves_better himp
      · rename_i himp
        subst h
        refine ⟨?_, ?_, ?_⟩
        · right; exact ⟨hne.symm, by simp [objopt, objAt, objL_append, hne]⟩
        · simp only [objopt, objAt, objL_append, hne, ↓reduceIte]
          exact not_improves_better (by simpa [objopt, objAt] using himp)
        · intro _; simp only [objopt, objAt, objL_append, hne, ↓reduceIte]; exact Better.refl _
    · simp at h
  · split at h
    · rename_i hk1 hk2
      simp only [Bool.true_and, Except.ok.injEq, objopt, objAt] at h
      rw [objL_set _ _ _ _ hk2] at h
      by_cases hkk : k = s.kopt
      · subst hkk
        simp only [↓reduceIte, improves_self, Bool.false_eq_true] at h
        subst h
        refine ⟨?_, ?_, ?_⟩
        · left; simp [objopt, objAt, objL_set _ _ _ _ hk2]
        · simp only [objopt, objAt, objL_set _ _ _ _ hk2, ↓reduceIte]; exact Better.refl _
        · intro h; exact absurd rfl h
      · have hkk' : ¬ s.kopt = k := fun e => hkk e.symm
        simp only [hkk', ↓reduceIte] at h
        split at h
        · rename_i himp
          subst h
          refine ⟨?_, ?_, ?_⟩
          · left; simp [objopt, objAt, objL_set _ _ _ _ hk2]
          · simp only [objopt, objAt, objL_set _ _ _ _ hk2, ↓reduceIte]; exact Better.refl _
          · intro _; simp only [objopt, objAt, objL_set _ _ _ _ hk2, ↓reduceIte]; exact improves_better himp
        · rename_i himp
          subst h
          refine ⟨?_, ?_, ?_⟩
          · right; exact ⟨hkk, by simp [objopt, objAt, objL_set _ _ _ _ hk2, hkk']⟩
          · simp only [objopt, objAt, objL_set _ _ _ _ hk2, hkk', ↓reduceIte]
            exact not_improves_better (by simpa using himp)
          · intro _; simp only [objopt, objAt, objL_set _ _ _ _ hk2, hkk', ↓reduceIte]; exact Better.refl _
    · simp at h

theorem addPoint_struct {s : MState P R} (hk : s.kopt < s.slots.length) (x : P) (r : R) (v : Val) (en : Nat) :
    let s' := s.addPoint x r v en
    s'.kopt < s'.slots.length ∧ s'.saved = s.saved ∧
    (∀ sl ∈ s'.slots, sl ∈ s.slots ∨ sl = newSlot x r v en) ∧
    s'.slots[s.slots.length]? = some (newSlot x r v en) ∧
    (s'.objopt = v ∨ s'.objopt = s.objopt) ∧ Better s'.objopt v ∧ Better s'.objopt s.objopt := by
  have hne : s.kopt ≠ s.slots.length := by omega
  simp only [addPoint]
  split
  · rename_i himp
    refine ⟨by simp, rfl, ?_, by simp [newSlot], ?_, ?_, ?_⟩
    · intro sl hsl
      simp only [List.mem_append, List.mem_singleton] at hsl
      exact hsl
    · left; simp [objopt, objAt, objL_append]
    · simp only [objopt, objAt, objL_append, ↓reduceIte]; exact Better.refl _
    · simp only [objopt, objAt, objL_append, ↓reduceIte]
      exact improves_better (by simpa [objopt, objAt] using himp)
  · rename_i himp
    refine ⟨by simp; omega, rfl, ?_, by simp [newSlot], ?_, ?_, ?_⟩
    · intro sl hsl
      simp only [List.mem_append, List.mem_singleton] at hsl
      exact hsl
    · right; simp [objopt, objAt, objL_append, hne]
    · simp only [objopt, objAt, objL_append, hne, ↓reduceIte]
      exact not_improves_better (by simpa [objopt, objAt] using himp)
    · simp only [objopt, objAt, objL_append, hne, ↓reduceIte]; exact Better.refl _

/-- rows after `add_new_sample`: old rows, or row `k` with the sample appended to its mean. -/
theorem addSample_struct (avg : Nat → R → R → R) {s s' : MState P R} (hk : s.kopt < s.slots.length)
    {k : Nat} {r : R} {v : Val} (h : s.addSample avg k r v = .ok s') :
    s'.kopt < s'.slots.length ∧ s'.saved = s.saved ∧ s'.slots.length = s.slots.length ∧
    (∀ sl ∈ s'.slots, sl ∈ s.slots ∨
      ∃ old, s.slots[k]? = some old ∧ sl.pt = old.pt ∧ sl.en = old.en ∧ sl.resid = avg old.ns old.resid r) ∧
    (∃ old sl, s.slots[k]? = some old ∧ s'.slots[k]? = some sl ∧ sl.pt = old.pt ∧ sl.en = old.en) := by
  unfold addSample at h
  split at h
  · simp at h
  · rename_i old hold
    simp only [Except.ok.injEq] at h
    subst h
    have hkl : k < s.slots.length := by
      rcases Nat.lt_or_ge k s.slots.length with hc | hc
      · exact hc
      · rw [List.getElem?_eq_none_iff.mpr hc] at hold; simp at hold
    refine ⟨?_, rfl, by simp, ?_, ?_⟩
    · simp only [List.length_set]
      split
      · exact hk
      · have := argminNanLast_lt ((s.slots.set k
            { old with resid := avg old.ns old.resid r, obj := v, ns := old.ns + 1,
                       gsamples := old.gsamples ++ [r],
                       gobjSrc := (avg old.ns old.resid r, old.pt) }).map (·.obj)) (by simp; omega)
        simpa using this
    · intro sl hsl
      rcases mem_set_cases hsl with e | e
      · right; exact ⟨old, hold, by simp [e], by simp [e], by simp [e]⟩
      · left; exact e
    · refine ⟨old, ?_⟩
      simp only [List.getElem?_set, hkl, ↓reduceIte]
      exact ⟨_, hold, rfl, rfl, rfl⟩

theorem savePoint_struct (s : MState P R) (x : P) (r : R) (v : Val) (ns en : Nat) :
    let s' := (s.savePoint x r v ns en).1
    s'.slots = s.slots ∧ s'.kopt = s.kopt ∧ s'.cap = s.cap ∧
    (s'.saved = s.saved ∨ ∃ j, s'.saved = some { pt := x, resid := r, obj := v, ns := ns, en := en, jacNums := j }) := by
  simp only [savePoint]
  split
  · exact ⟨rfl, rfl, rfl, Or.inr ⟨_, rfl⟩⟩
  · exact ⟨rfl, rfl, rfl, Or.inl rfl⟩

/-- `get_final_results` returns the incumbent's row or the saved point. -/
theorem getFinal_mem {s : MState P R} {f : Final P R} (h : s.getFinal = some f) :
    (∃ sl, s.slots[s.kopt]? = some sl ∧ f.pt = sl.pt ∧ f.resid = sl.resid ∧ f.en = sl.en ∧ f.ns = sl.ns ∧ f.obj = sl.obj) ∨
    (∃ sv, s.saved = some sv ∧ f.pt = sv.pt ∧ f.resid = sv.resid ∧ f.en = sv.en ∧ f.ns = sv.ns ∧ f.obj = sv.obj) := by
  unfold getFinal at h
  split at h
  · simp at h
  · rename_i sl hsl
    split at h
    · simp only [Option.some.injEq] at h; subst h
      exact Or.inl ⟨sl, hsl, rfl, rfl, rfl, rfl, rfl⟩
    · split at h
      · simp at h
      · rename_i sv hsv
        simp only [Option.some.injEq] at h; subst h
        exact Or.inr ⟨sv, hsv, rfl, rfl, rfl, rfl, rfl⟩

end MState
end Dfols
