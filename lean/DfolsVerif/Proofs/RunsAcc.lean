/- Invariants of the exit/run-count acceptor. -/
import DfolsVerif.Accept.RunsAcc

namespace Dfols
namespace RunsAcc

def isObj : Ev → Bool
  | .obj .. => true
  | _ => false

structure Inv (s : St) : Prop where
  nruns : s.nruns = s.rends + s.softOK
  rsts : s.rsts = s.rends + (if s.inRun then 1 else 0)
  small : ∀ v thr, s.lastSmall = some (v, thr) → Val.le v thr = true
  rho : ∀ r re, s.lastRho = some (r, re) → Val.le r re = true

theorem init_inv (a b : Nat) (c : Val) : Inv (init a b c) :=
  ⟨by simp [init], by simp [init], by simp [init], by simp [init]⟩

theorem step_inv {s s' : St} {e : Ev} (hi : Inv s) (h : step s e = .ok s') : Inv s' := by
  obtain ⟨h1, h2, h3, h4⟩ := hi
  cases e <;> simp only [step] at h
  case rst nruns nf nx hasOld maxfun npt =>
    repeat' split at h
    all_goals (first | (simp at h; done) | skip)
    all_goals (simp only [Except.ok.injEq] at h; subst h)
    rename_i hin _
    refine ⟨h1, ?_, h3, h4⟩
    simp only [Bool.not_eq_true] at hin
    simp only [hin] at h2
    simp [h2]
  case obj => simp only [Except.ok.injEq] at h; subst h; exact ⟨h1, h2, h3, h4⟩
  case eve k ex cls vmean thr anyNaN =>
    repeat' split at h
    all_goals (first | (simp at h; done) | skip)
    all_goals (simp only [Except.ok.injEq] at h; subst h)
    · rename_i hle
      refine ⟨h1, h2, ?_, h4⟩
      intro v t hv
      simp only [Option.some.injEq, Prod.mk.injEq] at hv
      rw [← hv.1, ← hv.2]; exact hle
    all_goals exact ⟨h1, h2, h3, h4⟩
  case ext flag cls rho rhoend nf =>
    repeat' split at h
    all_goals (first | (simp at h; done) | skip)
    all_goals (simp only [Except.ok.injEq] at h; subst h)
    · rename_i hle
      refine ⟨h1, h2, h3, ?_⟩
      intro r re hr
      simp only [Option.some.injEq, Prod.mk.injEq] at hr
      rw [← hr.1, ← hr.2]; exact hle
    all_goals exact ⟨h1, h2, h3, h4⟩
  case sre exited =>
    repeat' split at h
    all_goals (first | (simp at h; done) | skip)
    all_goals (simp only [Except.ok.injEq] at h; subst h)
    · exact ⟨h1, h2, h3, h4⟩
    · exact ⟨by simp only; omega, h2, h3, h4⟩
  case rend nf nx nruns flag cls label ns v jacNone hadCtrl =>
    split at h
    · simp at h
    rename_i hin
    split at h
    · simp at h
    split at h
    · simp at h
    rename_i hnr
    split at h
    · simp at h
    split at h
    · simp at h
    rename_i hsm
    simp only [Except.ok.injEq] at h; subst h
    simp only [ne_eq, Decidable.not_not] at hin hnr
    refine ⟨by simp only; omega, ?_, ?_, h4⟩
    · simp [hin] at h2; simp; omega
    · intro v' t hv
      simp only at hv
      split at hv
      · rename_i hc
        simp only [Option.some.injEq, Prod.mk.injEq] at hv
        rw [← hv.1, ← hv.2]
        simp only [not_and, Decidable.not_not] at hsm
        exact hsm hc.1 hc.2
      · exact h3 v' t hv
  case res nf nx nruns flag cls label v jacNone =>
    repeat' split at h
    all_goals (first | (simp at h; done) | skip)
    all_goals (simp only [Except.ok.injEq] at h; subst h)
    exact ⟨h1, h2, h3, h4⟩
  all_goals (simp only [Except.ok.injEq] at h; subst h; exact ⟨h1, h2, h3, h4⟩)

theorem foldlM_inv {s s' : St} (evs : List Ev) (hi : Inv s) (h : evs.foldlM step s = .ok s') : Inv s' := by
  induction evs generalizing s with
  | nil => simp only [List.foldlM_nil, pure, Except.pure, Except.ok.injEq] at h; subst h; exact hi
  | cons e evs ih =>
    simp only [List.foldlM_cons, bind, Except.bind] at h
    cases hs : step s e with
    | error m => simp [hs] at h
    | ok s1 => rw [hs] at h; exact ih (step_inv hi hs) h

theorem accept_inv {a b : Nat} {c : Val} {evs : List Ev} {s : St} (h : accept a b c evs = .ok s) : Inv s :=
  foldlM_inv evs (init_inv a b c) h

end RunsAcc
end Dfols
