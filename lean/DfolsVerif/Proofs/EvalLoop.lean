/-
  Invariants of the sampling loops (all budgets, counters and sample counts).
-/
import DfolsVerif.Kernels.EvalLoop

namespace Dfols
namespace EvalLoop

/-- the calls `(nf+1, p), (nf+2, p), …, (nf+k, p)` -/
def consecutive (nf p : Nat) : Nat → List (Nat × Nat)
  | 0 => []
  | k + 1 => consecutive nf p k ++ [(nf + k + 1, p)]

theorem consecutive_length (nf p k : Nat) : (consecutive nf p k).length = k := by
  induction k with
  | zero => rfl
  | succ k ih => simp [consecutive, ih]

/-- what the x0 loop does from a state that has made `r ≥ 1` calls at point `s.nx`: it makes
    `min n (maxfun - nf)` further calls, numbered consecutively, all at the same point; it never passes
    `maxfun`; it creates the max-evaluations exit exactly when it could not make all `n` calls. -/
theorem forRange_x0 (maxfun : Nat) : ∀ (n : Nat) (s : LoopSt), s.exit = none →
    let k := min n (maxfun - s.nf)
    let t := forRange n (x0Body maxfun) s
    t.nf = s.nf + k ∧ t.nx = s.nx ∧ t.runs = s.runs + k ∧ t.incremented = s.incremented ∧
    t.calls = s.calls ++ (List.range k).map (fun j => (s.nf + j + 1, s.nx)) ∧
    (t.exit = some 1 ↔ k < n) ∧ (t.exit = none ↔ k = n) := by
  intro n
  induction n with
  | zero =>
    intro s he
    simp [forRange, he]
  | succ n ih =>
    intro s he
    simp only [forRange, x0Body]
    by_cases hb : s.nf ≥ maxfun
    · have h0 : maxfun - s.nf = 0 := by omega
      simp [hb, h0]
    · simp only [hb, if_false, Bool.false_eq_true]
      have hlt : s.nf < maxfun := by omega
      have := ih { s with nf := s.nf + 1, calls := s.calls ++ [(s.nf + 1, s.nx)], runs := s.runs + 1 } he
      simp only at this
      obtain ⟨h1, h2, h3, h4, h5, h6, h7⟩ := this
      have hk : min (n + 1) (maxfun - s.nf) = min n (maxfun - (s.nf + 1)) + 1 := by omega
      refine ⟨by rw [h1, hk]; omega, h2, by rw [h3, hk]; omega, h4, ?_, ?_, ?_⟩
      · rw [h5, hk, List.range_succ_eq_map, List.map_cons, List.map_map, List.append_assoc]
        simp only [List.singleton_append, Nat.add_zero]
        congr 2
        apply List.map_congr_left
        intro j _
        simp only [Function.comp]
        congr 1
        omega
      · rw [h6, hk]; omega
      · rw [h7, hk]; omega

/-- the same for `evaluate_objective`'s loop once `nx` has been incremented (after its first pass) -/
theorem forRange_evalObj_inc (maxfun : Nat) : ∀ (n : Nat) (s : LoopSt), s.exit = none → s.incremented = true →
    forRange n (evalObjBody maxfun) s = forRange n (x0Body maxfun) s := by
  intro n
  induction n with
  | zero => intro s _ _; rfl
  | succ n ih =>
    intro s he hi
    simp only [forRange, evalObjBody, x0Body]
    by_cases hb : s.nf ≥ maxfun
    · simp [hb]
    · simp only [hb, if_false, Bool.false_eq_true, hi, Bool.not_true]
      exact ih _ he rfl

/-- **`evaluate_objective`** from counters `(nf, nx)` with `number_of_samples = n`:
    it makes `k = min n (maxfun - nf)` calls, numbered `nf+1 … nf+k`, all labelled with the ONE new point
    number `nx+1` (no new point number if `k = 0`), reports `num_samples_run = k`, never passes `maxfun`, and
    creates the max-evaluations warning exactly when `k < n`. -/
theorem evaluateObjective_spec (maxfun nf nx n : Nat) :
    let k := min n (maxfun - nf)
    let t := evaluateObjective maxfun nf nx n
    t.nf = nf + k ∧ t.nx = (if k = 0 then nx else nx + 1) ∧ t.runs = k ∧
    t.calls = (List.range k).map (fun j => (nf + j + 1, nx + 1)) ∧
    (t.exit = some 1 ↔ k < n) ∧ (t.exit = none ↔ k = n) ∧ (nf ≤ maxfun → t.nf ≤ maxfun) := by
  cases n with
  | zero => simp [evaluateObjective, forRange]
  | succ n =>
    simp only [evaluateObjective, forRange, evalObjBody]
    by_cases hb : nf ≥ maxfun
    · have h0 : maxfun - nf = 0 := by omega
      simp [hb, h0]
    · simp only [hb, if_false, Bool.false_eq_true, Bool.not_false, if_true]
      rw [forRange_evalObj_inc maxfun n _ rfl rfl]
      have := forRange_x0 maxfun n { nf := nf + 1, nx := nx + 1, incremented := true, runs := 0 + 1, exit := none,
                                     calls := [] ++ [(nf + 1, nx + 1)] } rfl
      simp only at this
      obtain ⟨h1, h2, h3, _, h5, h6, h7⟩ := this
      have hk : min (n + 1) (maxfun - nf) = min n (maxfun - (nf + 1)) + 1 := by omega
      have hk0 : min (n + 1) (maxfun - nf) ≠ 0 := by omega
      refine ⟨by rw [h1, hk]; omega, by rw [h2]; simp [hk0], by rw [h3, hk]; omega, ?_, by rw [h6, hk]; omega,
        by rw [h7, hk]; omega, fun _ => by rw [h1]; omega⟩
      rw [h5, hk, List.range_succ_eq_map, List.map_cons, List.map_map]
      simp only [List.nil_append, List.singleton_append, Nat.add_zero]
      congr 1
      apply List.map_congr_left
      intro j _
      simp only [Function.comp]
      congr 1
      omega

/-- **the block at x0** with `number_of_samples = n ≥ 1`: one unconditional call `(nf_so_far+1, nx_so_far+1)`, then
    `min (n-1) (maxfun - nf_so_far - 1)` further calls at the same point; exit exactly when samples are missing. -/
theorem evaluateX0_spec (maxfun nf nx n : Nat) (hn : 1 ≤ n) :
    let k := min (n - 1) (maxfun - (nf + 1))
    let t := evaluateX0 maxfun nf nx n
    t.nf = nf + 1 + k ∧ t.nx = nx + 1 ∧ t.runs = 1 + k ∧
    t.calls = (List.range (k + 1)).map (fun j => (nf + j + 1, nx + 1)) ∧
    (t.exit = some 1 ↔ 1 + k < n) ∧ (nf + 1 ≤ maxfun → t.nf ≤ maxfun) := by
  have := forRange_x0 maxfun (n - 1) (⟨nf + 1, nx + 1, true, 1, none, [(nf + 1, nx + 1)]⟩ : LoopSt) rfl
  simp only at this
  obtain ⟨h1, h2, h3, _, h5, h6, _⟩ := this
  simp only [evaluateX0]
  refine ⟨h1, h2, h3, ?_, by rw [h6]; omega, fun _ => by rw [h1]; omega⟩
  rw [h5, List.range_succ_eq_map, List.map_cons, List.map_map]
  simp only [List.singleton_append, Nat.add_zero]
  congr 1
  apply List.map_congr_left
  intro j _
  simp only [Function.comp]
  congr 1
  omega

end EvalLoop
end Dfols
