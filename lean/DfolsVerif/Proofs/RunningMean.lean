/-
  (exact arithmetic) The recurrence used by `Model.add_new_sample`,
      t = k/(k+1);  mean' = t*mean + (1-t)*r
  yields the arithmetic mean of all samples, over any field of characteristic 0.
  Vectors are averaged componentwise, so the scalar statement is the whole statement.
-/
import DfolsVerif.Proofs.ModelState
import Mathlib.Tactic.FieldSimp
import Mathlib.Tactic.Ring
import Mathlib.Algebra.Field.Basic
import Mathlib.Algebra.CharZero.Defs
import Mathlib.Data.Nat.Cast.Basic

namespace Dfols

variable {K : Type} [Field K] [CharZero K]

/-- model.py:218-219 in exact arithmetic -/
def avgK (k : Nat) (m r : K) : K := ((k : K) / ((k : K) + 1)) * m + (1 - (k : K) / ((k : K) + 1)) * r

theorem avgK_step (k : Nat) (S r : K) (hk : (k : K) ≠ 0) :
    avgK k (S / (k : K)) r = (S + r) / (((k + 1 : Nat) : K)) := by
  have h1 : ((k : K) + 1) ≠ 0 := by exact_mod_cast Nat.succ_ne_zero k
  unfold avgK
  push_cast
  field_simp
  ring

theorem meanFold_avgK (rs : List K) (k : Nat) (hk : 0 < k) (S : K) :
    MState.meanFold avgK (S / (k : K)) k rs = (S + rs.sum) / ((k + rs.length : Nat) : K) := by
  induction rs generalizing k S with
  | nil => simp [MState.meanFold]
  | cons r rs ih =>
    have hk0 : (k : K) ≠ 0 := by exact_mod_cast (Nat.pos_iff_ne_zero.mp hk)
    simp only [MState.meanFold, List.sum_cons, List.length_cons]
    rw [avgK_step k S r hk0, ih (k+1) (by omega) (S + r)]
    congr 1
    · ring
    · congr 1; omega

/-- the stored residual of a point sampled `rs.length ≥ 1` times is the arithmetic mean. -/
theorem meanOf_avgK (rs : List K) (h : rs ≠ []) :
    MState.meanOf avgK rs = some (rs.sum / (rs.length : K)) := by
  cases rs with
  | nil => exact absurd rfl h
  | cons r rs =>
    simp only [MState.meanOf, List.sum_cons, List.length_cons]
    have := meanFold_avgK rs 1 (by omega) r
    simp only [Nat.cast_one, div_one] at this
    rw [this]
    congr 2
    push_cast; ring

end Dfols
