/-
  Lemmas about `Kernels/Dykstra.lean` (`dfols/util.py:226-257`).

  Part 1 — **any arithmetic** (`o : Ops V S` arbitrary: every rounding, NaN, overflow behaviour):
     `dykstra_sweeps`, `dykstra_exit`, `dykstra_last_in`, `dykstra_fixed_point`.
  Part 2 — the box over any linear order: `pbox_in_box`, `dykstra_last_box`.
  Part 3 — **exact arithmetic** in a real normed space (`realOps`): `sweep_real_spec`,
     `sum_sqrt_sq_le`, `dykstra_feasible` (+ set / `infDist` forms), `dykstra_fixed_point_real`.
  Part 4 — `pball_in_ball`, `ball_last` (used by C13).
-/
import DfolsVerif.Kernels.Dykstra
import Mathlib.Analysis.InnerProductSpace.Basic
import Mathlib.Topology.MetricSpace.HausdorffDistance

namespace Dfols
namespace Dykstra

/-! ## Part 1 — statements that hold for every arithmetic -/

section Generic
variable {V S : Type} (o : Ops V S)

theorem sweep_length : ∀ (Ps : List (V → V)) (ys : List V) (x : V) (c : S),
    (sweep o Ps ys x c).2.1.length = min Ps.length ys.length
  | [], ys, x, c => by simp [sweep]
  | _ :: _, [], x, c => by simp [sweep]
  | P :: Ps, y :: ys, x, c => by
    simp only [sweep, List.length_cons]
    rw [sweep_length Ps ys]
    omega

theorem loop_sweeps_le (Ps : List (V → V)) (tol : S) :
    ∀ (fuel : Nat) (x : V) (ys : List V) (cI : Option S) (n : Nat),
      (loop o Ps tol fuel x ys cI n).sweeps ≤ n + fuel
  | 0, x, ys, cI, n => by simp [loop]
  | fuel + 1, x, ys, cI, n => by
    simp only [loop]
    split
    · have := loop_sweeps_le Ps tol fuel (sweep o Ps ys x o.szero).1 (sweep o Ps ys x o.szero).2.1
        (some (sweep o Ps ys x o.szero).2.2) (n + 1)
      omega
    · simp

/-- **at most `max_iter` sweeps**, whatever the arithmetic and the projectors do. -/
theorem dykstra_sweeps (Ps : List (V → V)) (x0 : V) (maxIter : Nat) (tol : S) :
    (dykstraFull o Ps x0 maxIter tol).sweeps ≤ maxIter := by
  have := loop_sweeps_le o Ps tol maxIter x0 (List.replicate Ps.length o.zero) none 0
  simpa [dykstraFull] using this

theorem loop_exit (Ps : List (V → V)) (tol : S) :
    ∀ (fuel : Nat) (x : V) (ys : List V) (cI : Option S) (n : Nat),
      (loop o Ps tol fuel x ys cI n).sweeps = n + fuel ∨
      cont o tol (loop o Ps tol fuel x ys cI n).cI = false
  | 0, x, ys, cI, n => by simp [loop]
  | fuel + 1, x, ys, cI, n => by
    simp only [loop]
    split
    · rcases loop_exit Ps tol fuel (sweep o Ps ys x o.szero).1 (sweep o Ps ys x o.szero).2.1
        (some (sweep o Ps ys x o.szero).2.2) (n + 1) with h | h
      · left; omega
      · right; exact h
    · rename_i hc
      right; simpa using hc

/-- the two ways out of the loop: all `max_iter` sweeps used, or the test `cI >= tol` failed. -/
theorem dykstra_exit (Ps : List (V → V)) (x0 : V) (maxIter : Nat) (tol : S) :
    (dykstraFull o Ps x0 maxIter tol).sweeps = maxIter ∨
    cont o tol (dykstraFull o Ps x0 maxIter tol).cI = false := by
  have := loop_exit o Ps tol maxIter x0 (List.replicate Ps.length o.zero) none 0
  simpa [dykstraFull] using this

/-- a sweep over a non-empty list ends with an application of the last projector. -/
theorem sweep_last (Pl : V → V) : ∀ (Qs : List (V → V)) (ys : List V) (x : V) (c : S),
    ys.length = Qs.length + 1 → ∃ v, (sweep o (Qs ++ [Pl]) ys x c).1 = Pl v
  | [], ys, x, c, h => by
    match ys, h with
    | [y], _ => exact ⟨o.sub x y, by simp [sweep, sub1]⟩
  | Q :: Qs, ys, x, c, h => by
    match ys, h with
    | y :: ys, h =>
      have h' : ys.length = Qs.length + 1 := by simpa using h
      obtain ⟨v, hv⟩ := sweep_last Pl Qs ys (sub1 o Q x y).1 (o.sadd c (sub1 o Q x y).2.2) h'
      exact ⟨v, by simpa [sweep] using hv⟩

theorem loop_last_in (Qs : List (V → V)) (Pl : V → V) (tol : S) (T : V → Prop) (hPl : ∀ v, T (Pl v)) :
    ∀ (fuel : Nat) (x : V) (ys : List V) (cI : Option S) (n : Nat),
      ys.length = Qs.length + 1 →
      (T x ∨ (cI = none ∧ 0 < fuel ∧ o.infGe tol = true)) →
      T (loop o (Qs ++ [Pl]) tol fuel x ys cI n).x
  | 0, x, ys, cI, n, _, h => by
    rcases h with h | ⟨_, h, _⟩
    · simpa [loop] using h
    · omega
  | fuel + 1, x, ys, cI, n, hlen, h => by
    simp only [loop]
    split
    · apply loop_last_in Qs Pl tol T hPl fuel
      · rw [sweep_length]; simp [hlen]
      · left
        obtain ⟨v, hv⟩ := sweep_last o Pl Qs ys x o.szero hlen
        rw [hv]; exact hPl v
    · rename_i hc
      rcases h with h | ⟨h1, _, h3⟩
      · exact h
      · subst h1; simp [cont, h3] at hc

/-- **the result lies in the range of the last projector**: with `max_iter ≥ 1` and a tolerance that
    is not NaN (`inf >= tol`), whatever the arithmetic and whatever the other projectors do, the
    returned point satisfies every predicate that all outputs of the last projector satisfy. -/
theorem dykstra_last_in (Qs : List (V → V)) (Pl : V → V) (x0 : V) (maxIter : Nat) (tol : S)
    (T : V → Prop) (hPl : ∀ v, T (Pl v)) (hmax : 1 ≤ maxIter) (htol : o.infGe tol = true) :
    T (dykstra o (Qs ++ [Pl]) x0 maxIter tol) := by
  unfold dykstra dykstraFull
  apply loop_last_in o Qs Pl tol T hPl
  · simp
  · right; exact ⟨rfl, hmax, htol⟩

/-- a sweep started at a common fixed point with all corrections zero changes nothing.
    Needs only `v - 0 = v` and `x0 - x0 = 0` of the arithmetic (true of IEEE doubles for finite `x0`). -/
theorem sweep_fixed (x0 : V) (h0 : o.sub x0 o.zero = x0) (hxx : o.sub x0 x0 = o.zero) :
    ∀ (Ps : List (V → V)) (c : S), (∀ P ∈ Ps, P x0 = x0) →
      (sweep o Ps (List.replicate Ps.length o.zero) x0 c).1 = x0 ∧
      (sweep o Ps (List.replicate Ps.length o.zero) x0 c).2.1 = List.replicate Ps.length o.zero
  | [], c, _ => by simp [sweep]
  | P :: Ps, c, hP => by
    have hPx : P x0 = x0 := hP P (by simp)
    have hrest : ∀ Q ∈ Ps, Q x0 = x0 := fun Q hQ => hP Q (by simp [hQ])
    have h1 : (sub1 o P x0 o.zero).1 = x0 := by simp [sub1, h0, hPx]
    have h2 : (sub1 o P x0 o.zero).2.1 = o.zero := by simp [sub1, h0, hPx, hxx]
    simp only [List.length_cons, List.replicate_succ, sweep, h1, h2]
    obtain ⟨ha, hb⟩ := sweep_fixed x0 h0 hxx Ps (o.sadd c (sub1 o P x0 o.zero).2.2) hrest
    exact ⟨ha, by rw [hb]⟩

theorem loop_fixed (x0 : V) (h0 : o.sub x0 o.zero = x0) (hxx : o.sub x0 x0 = o.zero)
    (Ps : List (V → V)) (hP : ∀ P ∈ Ps, P x0 = x0) (tol : S) :
    ∀ (fuel : Nat) (cI : Option S) (n : Nat),
      (loop o Ps tol fuel x0 (List.replicate Ps.length o.zero) cI n).x = x0
  | 0, cI, n => by simp [loop]
  | fuel + 1, cI, n => by
    simp only [loop]
    obtain ⟨ha, hb⟩ := sweep_fixed o x0 h0 hxx Ps o.szero hP
    split
    · rw [ha, hb]; exact loop_fixed x0 h0 hxx Ps hP tol fuel _ _
    · rfl

/-- **a common fixed point of all projectors is returned unchanged** (exactly, not just up to
    rounding) by every arithmetic in which `x0 - 0 = x0` and `x0 - x0 = 0`. -/
theorem dykstra_fixed_point (x0 : V) (h0 : o.sub x0 o.zero = x0) (hxx : o.sub x0 x0 = o.zero)
    (Ps : List (V → V)) (hP : ∀ P ∈ Ps, P x0 = x0) (maxIter : Nat) (tol : S) :
    dykstra o Ps x0 maxIter tol = x0 :=
  loop_fixed o x0 h0 hxx Ps hP tol maxIter none 0

/-- an invariant of all vectors in play (used for: "every vector has the dimension of the problem"). -/
theorem sweep_inv (I : V → Prop) (hsub : ∀ v w, I v → I w → I (o.sub v w)) :
    ∀ (Ps : List (V → V)) (ys : List V) (x : V) (c : S),
      (∀ P ∈ Ps, ∀ v, I v → I (P v)) → I x → (∀ y ∈ ys, I y) →
      I (sweep o Ps ys x c).1 ∧ ∀ y ∈ (sweep o Ps ys x c).2.1, I y
  | [], ys, x, c, _, hx, _ => by simp [sweep, hx]
  | _ :: _, [], x, c, _, hx, _ => by simp [sweep, hx]
  | P :: Ps, y :: ys, x, c, hP, hx, hy => by
    have hy0 : I y := hy y (by simp)
    have hx' : I (sub1 o P x y).1 := hP P (by simp) _ (hsub _ _ hx hy0)
    have hy' : I (sub1 o P x y).2.1 := hsub _ _ hx' (hsub _ _ hx hy0)
    obtain ⟨ha, hb⟩ := sweep_inv I hsub Ps ys (sub1 o P x y).1 (o.sadd c (sub1 o P x y).2.2)
      (fun Q hQ => hP Q (by simp [hQ])) hx' (fun z hz => hy z (by simp [hz]))
    refine ⟨by simpa [sweep] using ha, ?_⟩
    intro z hz
    simp only [sweep, List.mem_cons] at hz
    rcases hz with rfl | hz
    · exact hy'
    · exact hb z hz

theorem loop_inv (I : V → Prop) (hsub : ∀ v w, I v → I w → I (o.sub v w))
    (Ps : List (V → V)) (hP : ∀ P ∈ Ps, ∀ v, I v → I (P v)) (tol : S) :
    ∀ (fuel : Nat) (x : V) (ys : List V) (cI : Option S) (n : Nat),
      I x → (∀ y ∈ ys, I y) → I (loop o Ps tol fuel x ys cI n).x
  | 0, x, ys, cI, n, hx, _ => by simpa [loop] using hx
  | fuel + 1, x, ys, cI, n, hx, hy => by
    simp only [loop]
    split
    · obtain ⟨ha, hb⟩ := sweep_inv o I hsub Ps ys x o.szero hP hx hy
      exact loop_inv I hsub Ps hP tol fuel _ _ _ _ ha hb
    · exact hx

/-- any property of vectors preserved by `-` and by every projector, and true of `x0` and of the
    zero row, is true of the result. -/
theorem dykstra_inv (I : V → Prop) (hsub : ∀ v w, I v → I w → I (o.sub v w)) (hz : I o.zero)
    (Ps : List (V → V)) (hP : ∀ P ∈ Ps, ∀ v, I v → I (P v)) (x0 : V) (hx0 : I x0)
    (maxIter : Nat) (tol : S) : I (dykstra o Ps x0 maxIter tol) := by
  unfold dykstra dykstraFull
  apply loop_inv o I hsub Ps hP tol _ _ _ _ _ hx0
  intro y hy
  rw [List.eq_of_mem_replicate hy]; exact hz

end Generic

/-! ## Part 2 — the box, over any linear order (non-NaN doubles incl. ±inf), for any rounding -/

section Box
variable {α : Type} [LinearOrder α]

/-- `r` has the shape of the bounds and lies between them, component by component. -/
def InBox (l u r : List α) : Prop :=
  r.length = l.length ∧ ∀ i (hr : i < r.length) (hl : i < l.length) (hu : i < u.length), l[i] ≤ r[i] ∧ r[i] ≤ u[i]

/-- `np.minimum(np.maximum(x,l),u)` lies in `[l,u]` whenever `l ≤ u` componentwise — `min`/`max`
    select one of their arguments, there is no rounding to consider. -/
theorem pbox_in_box (x l u : List α) (hxl : x.length = l.length) (hlu : l.length = u.length)
    (hle : ∀ i (hl : i < l.length) (hu : i < u.length), l[i] ≤ u[i]) :
    InBox l u (pbox min max x l u) := by
  refine ⟨by simp [pbox, hxl, hlu], ?_⟩
  intro i hr hl hu
  have hx : i < x.length := by omega
  simp only [pbox, List.getElem_zipWith]
  exact ⟨le_min (le_max_right _ _) (hle i hl hu), min_le_right _ _⟩

variable {S : Type}

/-- **box projected last ⇒ result exactly inside the box**: any operations `o` on `List α` (any
    rounding of `-`, any stopping quantity), any other (dimension-preserving) projectors,
    `max_iter ≥ 1`, non-NaN `tol`. -/
theorem dykstra_last_box (o : Ops (List α) S) (Qs : List (List α → List α)) (l u : List α)
    (hlu : l.length = u.length) (hle : ∀ i (hl : i < l.length) (hu : i < u.length), l[i] ≤ u[i])
    (hdim : ∀ v w : List α, v.length = l.length → w.length = l.length → (o.sub v w).length = l.length)
    (hzero : o.zero.length = l.length)
    (hQ : ∀ Q ∈ Qs, ∀ v : List α, v.length = l.length → (Q v).length = l.length)
    (x0 : List α) (hx0 : x0.length = l.length) (maxIter : Nat) (tol : S)
    (hmax : 1 ≤ maxIter) (htol : o.infGe tol = true) :
    InBox l u (dykstra o (Qs ++ [fun w => pbox min max w l u]) x0 maxIter tol) := by
  have key : ∃ w : List α, dykstra o (Qs ++ [fun w => pbox min max w l u]) x0 maxIter tol = pbox min max w l u :=
    dykstra_last_in o Qs (fun w => pbox min max w l u) x0 maxIter tol
      (fun r => ∃ w : List α, r = pbox min max w l u) (fun v => ⟨v, rfl⟩) hmax htol
  have hlen : (dykstra o (Qs ++ [fun w => pbox min max w l u]) x0 maxIter tol).length = l.length := by
    apply dykstra_inv o (fun v => v.length = l.length) hdim hzero _ _ x0 hx0
    intro P hP v hv
    rcases List.mem_append.mp hP with hP | hP
    · exact hQ P hP v hv
    · simp only [List.mem_singleton] at hP
      subst hP
      simp [pbox, hv, hlu]
  obtain ⟨w, hw⟩ := key
  refine ⟨hlen, ?_⟩
  intro i hr hl hu
  have hr' : i < (pbox min max w l u).length := by rw [← hw]; exact hr
  have : (dykstra o (Qs ++ [fun w => pbox min max w l u]) x0 maxIter tol)[i] = (pbox min max w l u)[i] := by
    simp only [hw]
  rw [this]
  simp only [pbox, List.getElem_zipWith]
  exact ⟨le_min (le_max_right _ _) (hle i hl hu), min_le_right _ _⟩

end Box

/-! ## Part 3 — exact arithmetic in a real normed space (every real inner-product space is one) -/

section Real
variable {E : Type} [NormedAddCommGroup E]

/-- interpretation E of the operations: exact real arithmetic, `normSq v = ‖v‖²`, `inf >= tol` true. -/
noncomputable def realOps : Ops E ℝ where
  sub := fun a b => a - b
  zero := 0
  normSq := fun v => ‖v‖ ^ 2
  sadd := fun a b => a + b
  szero := 0
  ge := fun a b => decide (b ≤ a)
  infGe := fun _ => true

/-- the step identity: the term added to `cI` is exactly the squared move of `x`
    (`prev_y - y' = prev_x - x` is pure algebra on `y' = x - (prev_x - prev_y)`). -/
theorem sub1_real_term (P : E → E) (x y : E) :
    (sub1 realOps P x y).2.2 = ‖(sub1 realOps P x y).1 - x‖ ^ 2 := by
  simp only [sub1, realOps]
  congr 1
  rw [← norm_neg]
  congr 1
  abel

theorem sub1_real_fst (P : E → E) (x y : E) : (sub1 realOps P x y).1 = P (x - y) := rfl

/-- Cauchy–Schwarz in the form needed: `(Σ √c)² ≤ (#c)·Σ c`. -/
theorem sum_sqrt_sq_le : ∀ (cs : List ℝ), (∀ c ∈ cs, 0 ≤ c) →
    ((cs.map Real.sqrt).sum) ^ 2 ≤ cs.length * cs.sum
  | [], _ => by simp
  | c :: cs, h => by
    have hc : 0 ≤ c := h c (by simp)
    have hcs : ∀ d ∈ cs, 0 ≤ d := fun d hd => h d (by simp [hd])
    have ih := sum_sqrt_sq_le cs hcs
    have hS : 0 ≤ (cs.map Real.sqrt).sum := List.sum_nonneg (by
      intro v hv
      obtain ⟨d, _, rfl⟩ := List.mem_map.mp hv
      exact Real.sqrt_nonneg d)
    have hT : 0 ≤ cs.sum := List.sum_nonneg hcs
    have hs : Real.sqrt c ^ 2 = c := Real.sq_sqrt hc
    have hs0 : 0 ≤ Real.sqrt c := Real.sqrt_nonneg c
    simp only [List.map_cons, List.sum_cons, List.length_cons, Nat.cast_add, Nat.cast_one]
    set S := (cs.map Real.sqrt).sum with hSdef
    set T := cs.sum with hTdef
    set s := Real.sqrt c with hsdef
    set L : ℝ := (cs.length : ℝ) with hLdef
    have hL : 0 ≤ L := Nat.cast_nonneg _
    have key : 2 * s * S ≤ L * c + T := by
      rcases eq_or_lt_of_le hL with hL0 | hLpos
      · have hS0 : S = 0 := by
          have : S ^ 2 ≤ 0 := by rw [← hL0] at ih; simpa using ih
          nlinarith [sq_nonneg S]
        rw [hS0, ← hL0]; simpa using hT
      · have h2 : L ^ 2 * s ^ 2 = L ^ 2 * c := by rw [hs]
        have h1 : L * (2 * s * S) ≤ L * (L * c + T) := by
          nlinarith [sq_nonneg (L * s - S)]
        exact le_of_mul_le_mul_left h1 hLpos
    nlinarith

/-- What one sweep does (exact arithmetic): there are `p` non-negative terms `t_i` (the summands of
    `cI`) such that the final `cI` is `c + Σ t_i`, the sweep moved `x` by at most `Σ √t_i`, and the
    final point is within `Σ √t_i` of an *output of every projector* `P_i` of this sweep. -/
theorem sweep_real_spec : ∀ (Ps : List (E → E)) (ys : List E) (x : E) (c : ℝ),
    ys.length = Ps.length →
    ∃ ts : List ℝ, ts.length = Ps.length ∧ (∀ t ∈ ts, 0 ≤ t) ∧
      (sweep realOps Ps ys x c).2.2 = c + ts.sum ∧
      ‖(sweep realOps Ps ys x c).1 - x‖ ≤ (ts.map Real.sqrt).sum ∧
      ∀ i (hi : i < Ps.length), ∃ v, ‖(sweep realOps Ps ys x c).1 - Ps[i] v‖ ≤ (ts.map Real.sqrt).sum
  | [], ys, x, c, _ => ⟨[], by simp [sweep]⟩
  | P :: Ps, [], x, c, h => by simp at h
  | P :: Ps, y :: ys, x, c, h => by
    have h' : ys.length = Ps.length := by simpa using h
    set x' := (sub1 realOps P x y).1 with hx'
    set t := (sub1 realOps P x y).2.2 with ht
    obtain ⟨ts, hlen, hnn, hsum, hmove, hnear⟩ := sweep_real_spec Ps ys x' (c + t) h'
    have htt : t = ‖x' - x‖ ^ 2 := sub1_real_term P x y
    have ht0 : 0 ≤ t := by rw [htt]; positivity
    have hsq : Real.sqrt t = ‖x' - x‖ := by rw [htt]; exact Real.sqrt_sq (norm_nonneg _)
    have hS : 0 ≤ (ts.map Real.sqrt).sum := List.sum_nonneg (by
      intro v hv
      obtain ⟨d, _, rfl⟩ := List.mem_map.mp hv
      exact Real.sqrt_nonneg d)
    have hfst : (sweep realOps (P :: Ps) (y :: ys) x c).1 = (sweep realOps Ps ys x' (c + t)).1 := rfl
    have hcI : (sweep realOps (P :: Ps) (y :: ys) x c).2.2 = (sweep realOps Ps ys x' (c + t)).2.2 := rfl
    refine ⟨t :: ts, by simp [hlen], ?_, ?_, ?_, ?_⟩
    · intro u hu
      rcases List.mem_cons.mp hu with rfl | hu
      · exact ht0
      · exact hnn u hu
    · rw [hcI, hsum]; simp [add_assoc]
    · rw [hfst]
      simp only [List.map_cons, List.sum_cons, hsq]
      calc ‖(sweep realOps Ps ys x' (c + t)).1 - x‖
          = ‖((sweep realOps Ps ys x' (c + t)).1 - x') + (x' - x)‖ := by congr 1; abel
        _ ≤ ‖(sweep realOps Ps ys x' (c + t)).1 - x'‖ + ‖x' - x‖ := norm_add_le _ _
        _ ≤ ‖x' - x‖ + (ts.map Real.sqrt).sum := by linarith
    · intro i hi
      rw [hfst]
      simp only [List.map_cons, List.sum_cons, hsq]
      cases i with
      | zero =>
        refine ⟨x - y, ?_⟩
        have : (P :: Ps)[0] (x - y) = x' := rfl
        rw [this]
        linarith [norm_nonneg (x' - x)]
      | succ i =>
        have hi' : i < Ps.length := by simpa using hi
        obtain ⟨v, hv⟩ := hnear i hi'
        refine ⟨v, ?_⟩
        have : (P :: Ps)[i + 1] v = Ps[i] v := rfl
        rw [this]
        linarith [norm_nonneg (x' - x)]

/-- `x` is within `ρ` of some output of every projector in the list. -/
def Near (Ps : List (E → E)) (x : E) (ρ : ℝ) : Prop :=
  ∀ i (hi : i < Ps.length), ∃ v, ‖x - Ps[i] v‖ ≤ ρ

theorem Near.mono {Ps : List (E → E)} {x : E} {ρ ρ' : ℝ} (h : Near Ps x ρ) (hle : ρ ≤ ρ') : Near Ps x ρ' :=
  fun i hi => (h i hi).imp fun _ hv => hv.trans hle

/-- after a full sweep started with `cI = 0`: the new `cI` is non-negative and the new `x` is within
    `√(p·cI)` of an output of every projector. -/
theorem sweep_real_near (Ps : List (E → E)) (ys : List E) (x : E) (hlen : ys.length = Ps.length) :
    0 ≤ (sweep realOps Ps ys x 0).2.2 ∧
    Near Ps (sweep realOps Ps ys x 0).1 (Real.sqrt (Ps.length * (sweep realOps Ps ys x 0).2.2)) := by
  obtain ⟨ts, hl, hnn, hsum, _, hnear⟩ := sweep_real_spec Ps ys x 0 hlen
  have hT : 0 ≤ ts.sum := List.sum_nonneg hnn
  have hcs := sum_sqrt_sq_le ts hnn
  rw [hsum, zero_add]
  refine ⟨hT, ?_⟩
  intro i hi
  obtain ⟨v, hv⟩ := hnear i hi
  refine ⟨v, hv.trans ?_⟩
  apply Real.le_sqrt_of_sq_le
  rw [← hl]; exact hcs

/-- loop invariant: once a sweep has been made, `x` is within `√(p·cI)` of an output of every projector. -/
def RInv (Ps : List (E → E)) (x : E) (cI : Option ℝ) : Prop :=
  ∀ c, cI = some c → 0 ≤ c ∧ Near Ps x (Real.sqrt (Ps.length * c))

theorem loop_real_inv (Ps : List (E → E)) (tol : ℝ) :
    ∀ (fuel : Nat) (x : E) (ys : List E) (cI : Option ℝ) (n : Nat),
      ys.length = Ps.length → RInv Ps x cI →
      RInv Ps (loop realOps Ps tol fuel x ys cI n).x (loop realOps Ps tol fuel x ys cI n).cI
  | 0, x, ys, cI, n, _, h => by simpa [loop] using h
  | fuel + 1, x, ys, cI, n, hlen, h => by
    simp only [loop]
    split
    · apply loop_real_inv Ps tol fuel
      · rw [sweep_length]; simp [hlen]
      · intro c hc
        simp only [Option.some.injEq] at hc
        subst hc
        exact sweep_real_near Ps ys x hlen
    · exact h

/-- **feasibility from the stopping rule** (exact arithmetic): if the routine leaves its loop with
    `cI < tol` then the returned point is within `√(p·tol)` of an output `P_i(v_i)` of *every* one of
    the `p` projectors (arbitrary maps — no convexity, no idempotence is used). -/
theorem dykstra_feasible (Ps : List (E → E)) (x0 : E) (maxIter : Nat) (tol c : ℝ)
    (hcI : (dykstraFull realOps Ps x0 maxIter tol).cI = some c) (hstop : c < tol) :
    Near Ps (dykstra realOps Ps x0 maxIter tol) (Real.sqrt (Ps.length * tol)) := by
  have hinv := loop_real_inv Ps tol maxIter x0 (List.replicate Ps.length (realOps (E := E)).zero) none 0
    (by simp) (by intro c hc; simp at hc)
  obtain ⟨_, hnear⟩ := hinv c hcI
  refine hnear.mono (Real.sqrt_le_sqrt ?_)
  have : (0 : ℝ) ≤ Ps.length := Nat.cast_nonneg _
  nlinarith

/-- "stopped by its tolerance rule", in `ℝ`: some sweep was made and the last `cI` is `< tol`. -/
theorem stoppedByRule_real (tol : ℝ) (r : Result E ℝ) :
    r.stoppedByRule realOps tol = true ↔ ∃ c, r.cI = some c ∧ c < tol := by
  unfold Result.stoppedByRule
  cases r.cI with
  | none => simp
  | some c => simp [realOps]

/-- fewer than `max_iter` sweeps ⇒ the routine stopped by its rule (exact arithmetic). -/
theorem stopped_of_sweeps_lt (Ps : List (E → E)) (x0 : E) (maxIter : Nat) (tol : ℝ)
    (h : (dykstraFull realOps Ps x0 maxIter tol).sweeps < maxIter) :
    (dykstraFull realOps Ps x0 maxIter tol).stoppedByRule realOps tol = true := by
  rcases dykstra_exit realOps Ps x0 maxIter tol with h' | h'
  · omega
  · unfold Result.stoppedByRule
    cases hc : (dykstraFull realOps Ps x0 maxIter tol).cI with
    | none => rw [hc] at h'; simp [cont, realOps] at h'
    | some c => rw [hc] at h'; simpa [cont] using h'

/-- set form: when every `P_i` maps into `C_i`, the result is within `√(p·tol)` of a point of every `C_i`. -/
theorem dykstra_feasible_sets (Ps : List (E → E)) (C : Nat → Set E)
    (hC : ∀ i (hi : i < Ps.length) v, Ps[i] v ∈ C i)
    (x0 : E) (maxIter : Nat) (tol : ℝ)
    (hstop : (dykstraFull realOps Ps x0 maxIter tol).stoppedByRule realOps tol = true) :
    ∀ i, i < Ps.length → ∃ z ∈ C i, ‖dykstra realOps Ps x0 maxIter tol - z‖ ≤ Real.sqrt (Ps.length * tol) := by
  obtain ⟨c, hc, hlt⟩ := (stoppedByRule_real tol _).mp hstop
  intro i hi
  obtain ⟨v, hv⟩ := dykstra_feasible Ps x0 maxIter tol c hc hlt i hi
  exact ⟨Ps[i] v, hC i hi v, hv⟩

/-- distance form. -/
theorem dykstra_feasible_infDist (Ps : List (E → E)) (C : Nat → Set E)
    (hC : ∀ i (hi : i < Ps.length) v, Ps[i] v ∈ C i)
    (x0 : E) (maxIter : Nat) (tol : ℝ)
    (hstop : (dykstraFull realOps Ps x0 maxIter tol).stoppedByRule realOps tol = true) :
    ∀ i, i < Ps.length →
      Metric.infDist (dykstra realOps Ps x0 maxIter tol) (C i) ≤ Real.sqrt (Ps.length * tol) := by
  intro i hi
  obtain ⟨z, hz, hle⟩ := dykstra_feasible_sets Ps C hC x0 maxIter tol hstop i hi
  exact (Metric.infDist_le_dist_of_mem hz).trans (by rwa [dist_eq_norm])

/-- exact arithmetic instance of `dykstra_fixed_point`: a point fixed by every projector (e.g. a
    point of all the sets, when each `P_i` is the identity on `C_i`) is returned unchanged. -/
theorem dykstra_fixed_point_real (x0 : E) (Ps : List (E → E)) (hP : ∀ P ∈ Ps, P x0 = x0)
    (maxIter : Nat) (tol : ℝ) : dykstra realOps Ps x0 maxIter tol = x0 :=
  dykstra_fixed_point realOps x0 (by simp [realOps]) (by simp [realOps]) Ps hP maxIter tol

end Real

/-! ## Part 4 — the ball projector -/

section Ball
variable {E : Type} [NormedAddCommGroup E] [NormedSpace ℝ E]

/-- exact real operations of `pball`. -/
noncomputable def realBallOps : BallOps E ℝ where
  add := fun a b => a + b
  sub := fun a b => a - b
  smul := fun a v => a • v
  norm := fun v => ‖v‖
  div := fun a b => a / b
  max := fun a b => max a b

theorem pball_real (x c : E) (r : ℝ) :
    pball realBallOps x c r = c + (r / max ‖x - c‖ r) • (x - c) := rfl

/-- **`pball` maps into the ball** (exact arithmetic): `‖pball(x,c,r) − c‖ ≤ r` for `r > 0`. -/
theorem pball_in_ball (x c : E) (r : ℝ) (hr : 0 < r) : ‖pball realBallOps x c r - c‖ ≤ r := by
  rw [pball_real, add_sub_cancel_left, norm_smul]
  have hm : 0 < max ‖x - c‖ r := lt_max_of_lt_right hr
  have hq : 0 ≤ r / max ‖x - c‖ r := div_nonneg hr.le hm.le
  rw [Real.norm_of_nonneg hq]
  calc r / max ‖x - c‖ r * ‖x - c‖ ≤ r / max ‖x - c‖ r * max ‖x - c‖ r :=
        mul_le_mul_of_nonneg_left (le_max_left _ _) hq
    _ = r := div_mul_cancel₀ r hm.ne'

/-- `pball` is the identity on its ball (so a point of the ball is a fixed point). -/
theorem pball_of_mem (x c : E) (r : ℝ) (hr : 0 < r) (hx : ‖x - c‖ ≤ r) : pball realBallOps x c r = x := by
  rw [pball_real, max_eq_right hx, div_self hr.ne', one_smul]
  abel

/-- **ball projected last ⇒ result inside the ball** (the trust-region ball of `ctrsbox_*`,
    `trust_region.py:128,189,591`): with `max_iter ≥ 1` any Dykstra run whose last projector is
    `pball(·, c, Δ)` returns a point within `Δ` of `c`, whatever the other projectors are. -/
theorem ball_last (Qs : List (E → E)) (c x0 : E) (Δ : ℝ) (hΔ : 0 < Δ) (maxIter : Nat) (tol : ℝ)
    (hmax : 1 ≤ maxIter) :
    ‖dykstra realOps (Qs ++ [fun w => pball realBallOps w c Δ]) x0 maxIter tol - c‖ ≤ Δ :=
  dykstra_last_in realOps Qs (fun w => pball realBallOps w c Δ) x0 maxIter tol
    (fun v => ‖v - c‖ ≤ Δ) (fun v => pball_in_ball v c Δ hΔ) hmax rfl

end Ball

section BoxFixed
variable {α : Type} [LinearOrder α]

/-- `pbox` is the identity on its box. -/
theorem pbox_of_inBox (x l u : List α) (hlu : l.length = u.length) (h : InBox l u x) :
    pbox min max x l u = x := by
  obtain ⟨hlen, hb⟩ := h
  apply List.ext_getElem
  · simp [pbox, hlen, hlu]
  · intro i h1 h2
    have hl : i < l.length := by omega
    have hu : i < u.length := by omega
    simp only [pbox, List.getElem_zipWith]
    obtain ⟨h3, h4⟩ := hb i h2 hl hu
    rw [max_eq_left h3, min_eq_left h4]

end BoxFixed

end Dykstra
end Dfols
