/-
  Two more invariants of the L1 `Model` state machine (`Book/ModelState.lean`), for every
  operation sequence — used by C16 (`factorisation_current`) and C11 (`jacmin_eval_nums`):

  * `run_fact_geometry` : whenever `factCur = true`, some operation of the sequence computed a
    factorisation (`interpolate` / `factorise`) and **the point set and `kopt` have not changed
    since** — the semantic reading of the ghost-version invariant `WF.fact`
    (`factCur = true → factVersion = version`, `Proofs/ModelState.lean`), proved without the ghost.
  * `run_snapshot` : `jacNums` (`model_jac_eval_nums`) and the copy kept with a saved point
    (`jacsave_eval_nums`) are always the label array of the slots *as it was at some
    `interpolate`* of the sequence.

  No Mathlib.
-/
import DfolsVerif.Proofs.ModelState

namespace Dfols
namespace MState

variable {P R : Type}

/-- one operation, skipping a raising one (the body of `run`). -/
def stepSkip (avg : Nat → R → R → R) (s : MState P R) (op : MOp P R) : MState P R :=
  match s.step avg op with
  | .ok s' => s'
  | .error _ => s

theorem run_append_single (avg : Nat → R → R → R) (s : MState P R) (ops : List (MOp P R)) (op : MOp P R) :
    s.run avg (ops ++ [op]) = stepSkip avg (s.run avg ops) op := by
  simp only [run, List.foldl_append, List.foldl_cons, List.foldl_nil]
  rfl

/-- induction from the right (kept local: this file imports no Mathlib). -/
theorem snoc_induction {α : Type} {motive : List α → Prop} (nil : motive [])
    (snoc : ∀ l a, motive l → motive (l ++ [a])) : ∀ l, motive l := by
  intro l
  have h : ∀ r : List α, motive r.reverse := by
    intro r
    induction r with
    | nil => simpa using nil
    | cons a r ih => simpa using snoc _ a ih
  simpa using h l.reverse

/-! ### what the cached QR depends on -/

/-- the data the interpolation matrix is built from (model.py:309-317): the stored points in row
    order and the index of `xopt`. -/
def geom (s : MState P R) : List P × Nat := (s.slots.map (·.pt), s.kopt)

/-- the operations that (re)compute the factorisation. -/
def isFactOp : MOp P R → Bool
  | .interpolate => true
  | .factorise => true
  | _ => false

/-- one step: if the flag is set afterwards then the geometry did not change in this step, and
    either this step computed the factorisation or the flag was already set. -/
theorem step_fact (avg : Nat → R → R → R) {s s' : MState P R} {op : MOp P R}
    (h : s.step avg op = .ok s') (hf : s'.factCur = true) :
    geom s' = geom s ∧ (isFactOp op = true ∨ s.factCur = true) := by
  cases op with
  | change k x r v en a =>
    simp only [step] at h
    unfold changePoint at h
    split at h
    · split at h
      · simp only [Except.ok.injEq] at h
        split at h <;> subst h <;> simp at hf
      · simp at h
    · split at h
      · simp only [Except.ok.injEq] at h
        split at h <;> subst h <;> simp at hf
      · simp at h
  | swap k1 k2 =>
    simp only [step] at h
    unfold swap at h
    split at h
    · simp only [Except.ok.injEq] at h; subst h; simp at hf
    · simp at h
  | sample k r v =>
    simp only [step] at h
    unfold addSample at h
    split at h
    · simp at h
    · simp only [Except.ok.injEq] at h; subst h; simp at hf
  | addPoint x r v en =>
    simp only [step] at h
    split at h
    · simp only [Except.ok.injEq] at h; subst h
      unfold addPoint at hf
      simp only at hf
      split at hf <;> simp at hf
    · simp at h
  | shift =>
    simp only [step, Except.ok.injEq] at h; subst h; simp [shiftBase] at hf
  | save x r v ns en =>
    simp only [step, Except.ok.injEq] at h; subst h
    unfold savePoint at hf ⊢
    split at hf <;> simp_all [geom]
  | interpolate =>
    simp only [step, Except.ok.injEq] at h; subst h
    exact ⟨rfl, Or.inl rfl⟩
  | factorise =>
    simp only [step, Except.ok.injEq] at h; subst h
    refine ⟨?_, Or.inl rfl⟩
    unfold factorise; split <;> rfl

/-- **for every operation sequence** starting from a state whose flag is clear: if
    `factorisation_current` is set at the end, the sequence splits as `ops1 ++ op :: ops2` where
    `op` computed a factorisation and the point set and `kopt` after `op` are those at the end. -/
theorem run_fact_geometry (avg : Nat → R → R → R) (s0 : MState P R) (h0 : s0.factCur = false)
    (ops : List (MOp P R)) (hf : (s0.run avg ops).factCur = true) :
    ∃ ops1 op ops2, ops = ops1 ++ op :: ops2 ∧ isFactOp op = true ∧
      geom (s0.run avg (ops1 ++ [op])) = geom (s0.run avg ops) := by
  induction ops using snoc_induction with
  | nil => simp [run, h0] at hf
  | snoc ops o ih =>
    rw [run_append_single] at hf ⊢
    unfold stepSkip at hf ⊢
    cases hstep : (s0.run avg ops).step avg o with
    | error e =>
      rw [hstep] at hf; simp only at hf ⊢
      obtain ⟨ops1, op, ops2, e1, e2, e3⟩ := ih hf
      exact ⟨ops1, op, ops2 ++ [o], by simp [e1], e2, e3⟩
    | ok s' =>
      rw [hstep] at hf; simp only at hf ⊢
      obtain ⟨hg, hcase⟩ := step_fact avg hstep hf
      rcases hcase with hop | hprev
      · refine ⟨ops, o, [], rfl, hop, ?_⟩
        rw [run_append_single]; unfold stepSkip; rw [hstep]
      · obtain ⟨ops1, op, ops2, e1, e2, e3⟩ := ih hprev
        exact ⟨ops1, op, ops2 ++ [o], by simp [e1], e2, by rw [e3, hg]⟩

/-! ### the evaluation-number snapshot -/

/-- `eval_num.copy()` (model.py:394): the labels of the rows, zero beyond `npt_so_far`. -/
def labelsOf (s : MState P R) : List Nat :=
  s.slots.map (·.en) ++ List.replicate (s.cap - s.slots.length) 0

/-- `jn` is nothing, or the label array as it was when some `interpolate` of `ops` ran. -/
def Snap (avg : Nat → R → R → R) (s0 : MState P R) (ops : List (MOp P R)) (jn : Option (List Nat)) : Prop :=
  jn = none ∨ ∃ ops1 ops2, ops = ops1 ++ MOp.interpolate :: ops2 ∧ jn = some (labelsOf (s0.run avg ops1))

theorem Snap.mono {avg : Nat → R → R → R} {s0 : MState P R} {ops : List (MOp P R)} {jn : Option (List Nat)}
    (h : Snap avg s0 ops jn) (o : MOp P R) : Snap avg s0 (ops ++ [o]) jn := by
  rcases h with h | ⟨ops1, ops2, e1, e2⟩
  · exact Or.inl h
  · exact Or.inr ⟨ops1, ops2 ++ [o], by simp [e1], e2⟩

/-- effect of one step on `jacNums` and on the saved point's copy. -/
theorem step_jac (avg : Nat → R → R → R) {s s' : MState P R} {op : MOp P R} (h : s.step avg op = .ok s') :
    (op = .interpolate ∧ s'.jacNums = some (labelsOf s) ∧ s'.saved = s.saved) ∨
    (s'.jacNums = s.jacNums ∧ (s'.saved = s.saved ∨ ∃ sv, s'.saved = some sv ∧ sv.jacNums = s.jacNums)) := by
  cases op with
  | change k x r v en a =>
    right
    simp only [step] at h
    unfold changePoint at h
    split at h
    · split at h
      · simp only [Except.ok.injEq] at h
        split at h <;> subst h <;> simp
      · simp at h
    · split at h
      · simp only [Except.ok.injEq] at h
        split at h <;> subst h <;> simp
      · simp at h
  | swap k1 k2 =>
    right
    simp only [step] at h
    unfold swap at h
    split at h
    · simp only [Except.ok.injEq] at h; subst h; simp
    · simp at h
  | sample k r v =>
    right
    simp only [step] at h
    unfold addSample at h
    split at h
    · simp at h
    · simp only [Except.ok.injEq] at h; subst h; simp
  | addPoint x r v en =>
    right
    simp only [step] at h
    split at h
    · simp only [Except.ok.injEq] at h; subst h
      unfold addPoint
      simp only
      split <;> simp
    · simp at h
  | shift =>
    right
    simp only [step, Except.ok.injEq] at h; subst h; simp [shiftBase]
  | save x r v ns en =>
    right
    simp only [step, Except.ok.injEq] at h; subst h
    unfold savePoint
    split <;> simp
  | interpolate =>
    left
    simp only [step, Except.ok.injEq] at h; subst h
    exact ⟨rfl, rfl, rfl⟩
  | factorise =>
    right
    simp only [step, Except.ok.injEq] at h; subst h
    unfold factorise; split <;> simp

/-- **for every operation sequence**: `model_jac_eval_nums` and `jacsave_eval_nums` are snapshots
    taken by an `interpolate` of the sequence. -/
theorem run_snapshot (avg : Nat → R → R → R) (s0 : MState P R) (hj : s0.jacNums = none) (hs : s0.saved = none)
    (ops : List (MOp P R)) :
    Snap avg s0 ops (s0.run avg ops).jacNums ∧
      ∀ sv, (s0.run avg ops).saved = some sv → Snap avg s0 ops sv.jacNums := by
  induction ops using snoc_induction with
  | nil => simp [run, hj, hs, Snap]
  | snoc ops o ih =>
    obtain ⟨ih1, ih2⟩ := ih
    rw [run_append_single]
    unfold stepSkip
    cases hstep : (s0.run avg ops).step avg o with
    | error e => exact ⟨ih1.mono o, fun sv hsv => (ih2 sv hsv).mono o⟩
    | ok s' =>
      simp only
      rcases step_jac avg hstep with ⟨hop, hjn, hsv⟩ | ⟨hjn, hsv⟩
      · subst hop
        refine ⟨Or.inr ⟨ops, [], rfl, hjn⟩, fun sv h => ?_⟩
        rw [hsv] at h
        exact (ih2 sv h).mono _
      · refine ⟨by rw [hjn]; exact ih1.mono o, fun sv h => ?_⟩
        rcases hsv with hsv | ⟨sv', hsv', hjn'⟩
        · rw [hsv] at h; exact (ih2 sv h).mono o
        · rw [hsv'] at h
          cases h
          rw [hjn']; exact ih1.mono o

/-- `get_final_results` hands out one of the two. -/
theorem getFinal_jacNums {s : MState P R} {f : Final P R} (h : s.getFinal = some f) :
    f.jacNums = s.jacNums ∨ ∃ sv, s.saved = some sv ∧ f.jacNums = sv.jacNums := by
  unfold getFinal at h
  split at h
  · simp at h
  · split at h
    · simp only [Option.some.injEq] at h; subst h; exact Or.inl rfl
    · split at h
      · simp at h
      · rename_i sv hsv
        simp only [Option.some.injEq] at h; subst h
        exact Or.inr ⟨sv, hsv, rfl⟩

end MState
end Dfols
