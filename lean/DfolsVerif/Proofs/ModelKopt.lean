/-
  The incumbent index designates the best stored value (`KoptMin`), `get_final_results`
  returns the better of the saved point and the incumbent, stale-factorisation flag soundness.
-/
import DfolsVerif.Proofs.ModelState

namespace Dfols
namespace MState

variable {P R : Type}

open Val

/-- the incumbent's value is at least as good as every stored value (NaN is worst). -/
def KoptMinL (l : List (Slot P R)) (kopt : Nat) : Prop := ∀ j, Better (objL l kopt) (objL l j)

def KoptMin (s : MState P R) : Prop := KoptMinL s.slots s.kopt

theorem improves_better {v opt : Val} (h : improves v opt = true) : Better v opt := by
  cases v <;> cases opt <;> simp_all [improves, Val.lt, Val.isNaN, Better] <;> omega

theorem not_improves_better {v opt : Val} (h : improves v opt = false) : Better opt v := by
  cases v <;> cases opt <;> simp_all [improves, Val.lt, Val.isNaN, Better] <;> omega

theorem improves_self (v : Val) : improves v v = false := by
  cases v <;> simp [improves, Val.lt, Val.isNaN]

theorem objL_set (l : List (Slot P R)) (k j : Nat) (new : Slot P R) (hk : k < l.length) :
    objL (l.set k new) j = if j = k then new.obj else objL l j := by
  unfold objL
  simp only [List.getElem?_set]
  split
  · rename_i h; subst h; simp
  · rename_i h; simp [show ¬ j = k from fun e => h e.symm]

theorem objL_append (l : List (Slot P R)) (j : Nat) (new : Slot P R) :
    objL (l ++ [new]) j = if j = l.length then new.obj else objL l j := by
  unfold objL
  by_cases h : j < l.length
  · simp [List.getElem?_append_left h, Nat.ne_of_lt h]
  · by_cases h2 : j = l.length
    · subst h2; simp
    · have h3 : l.length < j := by omega
      have e1 : (l ++ [new])[j]? = none := List.getElem?_eq_none_iff.mpr (by simp; omega)
      have e2 : l[j]? = none := List.getElem?_eq_none_iff.mpr (by omega)
      simp [h2, e1, e2]

/-- Guard for a replacement: the incumbent's own row may only be overwritten by a value that is
    at least as good as every other stored value, and the incumbent update must be allowed. -/
def ChangeGuard (s : MState P R) (k : Nat) (v : Val) (a : Bool) : Prop :=
  a = true ∧ (k = s.kopt → ∀ j, j < s.slots.length → j ≠ k → Better v (s.objAt j))

instance (s : MState P R) (k : Nat) (v : Val) (a : Bool) : Decidable (ChangeGuard s k v a) := by
  unfold ChangeGuard; exact inferInstance

theorem objL_ge (l : List (Slot P R)) (j : Nat) (h : l.length ≤ j) : objL l j = nan := by
  simp [objL, List.getElem?_eq_none_iff.mpr h]

theorem changePoint_koptMin {s s' : MState P R} (hk : s.kopt < s.slots.length) (hs : KoptMin s)
    {k : Nat} {x : P} {r : R} {v : Val} {en : Nat} {a : Bool} (hg : ChangeGuard s k v a)
    (h : s.changePoint k x r v en a = .ok s') : KoptMin s' := by
  obtain ⟨ha, hg⟩ := hg
  subst ha
  unfold KoptMin KoptMinL at hs
  unfold changePoint at h
  split at h
  · rename_i hk1
    split at h
    · rename_i hk2
      subst hk2
      simp only [Bool.true_and, Except.ok.injEq] at h
      split at h
      · rename_i himp
        subst h
        intro j
        simp only [objL_append, ↓reduceIte]
        split
        · exact Better.refl _
        · exact Better.trans (improves_better himp) (hs j)
      · rename_i himp
        subst h
        intro j
        have hne : s.kopt ≠ s.slots.length := by omega
        simp only [objL_append, hne, ↓reduceIte]
        split
        · exact not_improves_better (by simpa [objopt, objAt] using himp)
        · exact hs j
    · simp at h
  · split at h
    · rename_i hk1 hk2
      simp only [Bool.true_and, Except.ok.injEq, objopt, objAt] at h
      rw [objL_set _ _ _ _ hk2] at h
      by_cases hkk : k = s.kopt
      · -- overwrite the incumbent's own row
        subst hkk
        simp only [↓reduceIte, improves_self, Bool.false_eq_true] at h
        subst h
        intro j
        simp only [objL_set _ _ _ _ hk2, ↓reduceIte]
        split
        · exact Better.refl _
        · rename_i hj
          by_cases hjl : j < s.slots.length
          · exact hg rfl j hjl hj
          · rw [objL_ge _ _ (by omega)]; exact better_nan _
      · simp only [show ¬ s.kopt = k from fun e => hkk e.symm, ↓reduceIte] at h
        split at h
        · rename_i himp
          subst h
          intro j
          simp only [objL_set _ _ _ _ hk2, ↓reduceIte]
          split
          · exact Better.refl _
          · exact Better.trans (improves_better himp) (hs j)
        · rename_i himp
          subst h
          intro j
          simp only [objL_set _ _ _ _ hk2, show ¬ s.kopt = k from fun e => hkk e.symm, ↓reduceIte]
          split
          · exact not_improves_better (by simpa using himp)
          · exact hs j
    · simp at h


theorem addPoint_koptMin {s : MState P R} (hk : s.kopt < s.slots.length) (hs : KoptMin s)
    (x : P) (r : R) (v : Val) (en : Nat) : KoptMin (s.addPoint x r v en) := by
  unfold KoptMin KoptMinL at hs ⊢
  unfold addPoint
  simp only
  split
  · rename_i himp
    intro j
    simp only [objL_append, ↓reduceIte]
    split
    · exact Better.refl _
    · exact Better.trans (improves_better himp) (hs j)
  · rename_i himp
    intro j
    have hne : s.kopt ≠ s.slots.length := by omega
    simp only [objL_append, hne, ↓reduceIte]
    split
    · exact not_improves_better (by simpa [objopt, objAt] using himp)
    · exact hs j

/-! #### `argminNanLast` really is a best index -/

theorem argminFrom_spec (vs : List Val) (pre : List Val) (best : Nat) (bv : Val)
    (hb : best < pre.length) (hbv : (pre[best]?).getD nan = bv)
    (hpre : ∀ j : Nat, j < pre.length → Better bv ((pre[j]?).getD nan)) :
    ∀ j : Nat, Better (((pre ++ vs)[argminFrom vs pre.length best bv]?).getD nan) (((pre ++ vs)[j]?).getD nan) := by
  induction vs generalizing pre best bv with
  | nil =>
    intro j
    simp only [argminFrom, List.append_nil]
    rw [hbv]
    by_cases hj : j < pre.length
    · exact hpre j hj
    · rw [List.getElem?_eq_none_iff.mpr (by omega)]; exact better_nan _
  | cons v vs ih =>
    simp only [argminFrom]
    have happ : pre ++ v :: vs = (pre ++ [v]) ++ vs := by simp
    have hlen : (pre ++ [v]).length = pre.length + 1 := by simp
    split
    · rename_i himp
      rw [happ, ← hlen]
      apply ih (pre ++ [v]) pre.length v (by simp) (by simp)
      intro j hj
      by_cases hj2 : j < pre.length
      · rw [List.getElem?_append_left hj2]
        exact Better.trans (improves_better himp) (hpre j hj2)
      · have : j = pre.length := by simp at hj; omega
        subst this; simp; exact Better.refl _
    · rename_i himp
      rw [happ, ← hlen]
      apply ih (pre ++ [v]) best bv (by simp; omega)
      · rw [List.getElem?_append_left hb]; exact hbv
      · intro j hj
        by_cases hj2 : j < pre.length
        · rw [List.getElem?_append_left hj2]; exact hpre j hj2
        · have : j = pre.length := by simp at hj; omega
          subst this; simp; exact not_improves_better (by simpa using himp)

theorem argminNanLast_spec (vs : List Val) :
    ∀ j : Nat, Better ((vs[argminNanLast vs]?).getD nan) ((vs[j]?).getD nan) := by
  cases vs with
  | nil => intro j; simp [better_nan]
  | cons v rest =>
    intro j
    simp only [argminNanLast]
    have := argminFrom_spec rest [v] 0 v (by simp) (by simp)
      (by intro j hj; have : j = 0 := by simp at hj; omega
          subst this; simp; exact Better.refl _) j
    simpa using this

theorem objL_eq_map (l : List (Slot P R)) (j : Nat) : objL l j = (((l.map (·.obj))[j]?).getD nan) := by
  simp [objL]

theorem all_nan_better (vs : List Val) (h : vs.all Val.isNaN = true) (a : Val) (j : Nat) :
    Better a ((vs[j]?).getD nan) := by
  by_cases hj : j < vs.length
  · have hmem : vs[j] ∈ vs := List.getElem_mem hj
    have := (List.all_eq_true.mp h) _ hmem
    rw [List.getElem?_eq_getElem hj]
    cases hv : vs[j] with
    | nan => exact better_nan _
    | num k => simp [hv, Val.isNaN] at this
  · rw [List.getElem?_eq_none_iff.mpr (by omega)]; exact better_nan _

/-- `add_new_sample` re-establishes `KoptMin` unconditionally (it recomputes the arg-min). -/
theorem addSample_koptMin (avg : Nat → R → R → R) {s s' : MState P R}
    {k : Nat} {r : R} {v : Val} (h : s.addSample avg k r v = .ok s') : KoptMin s' := by
  unfold addSample at h
  split at h
  · simp at h
  · rename_i sl hsl
    simp only [Except.ok.injEq] at h
    subst h
    unfold KoptMin KoptMinL
    intro j
    simp only [objL_eq_map]
    split
    · rename_i hall
      exact all_nan_better _ hall _ j
    · exact argminNanLast_spec _ j

theorem swapList_getElem? {α : Type} (l : List α) (i j n : Nat) (hi : i < l.length) (hj : j < l.length) :
    (swapList l i j)[n]? = if n = j then l[i]? else if n = i then l[j]? else l[n]? := by
  unfold swapList
  rw [List.getElem?_eq_getElem hi, List.getElem?_eq_getElem hj]
  simp only [List.getElem?_set, List.length_set]
  by_cases h1 : n = j
  · subst h1; simp [hj, List.getElem?_eq_getElem hi]
  · by_cases h2 : n = i
    · subst h2; simp [h1, hi, show ¬ j = n from fun e => h1 e.symm, List.getElem?_eq_getElem hj]
    · simp [h1, h2, show ¬ j = n from fun e => h1 e.symm, show ¬ i = n from fun e => h2 e.symm]

theorem swap_koptMin {s s' : MState P R} (hs : KoptMin s) {k1 k2 : Nat}
    (h : s.swap k1 k2 = .ok s') : KoptMin s' := by
  unfold swap at h
  split at h
  · rename_i hk
    simp only [Except.ok.injEq] at h
    subst h
    unfold KoptMin KoptMinL at hs ⊢
    have key : ∀ n, objL (swapList s.slots k1 k2) n
        = objL s.slots (if n = k2 then k1 else if n = k1 then k2 else n) := by
      intro n
      unfold objL
      rw [swapList_getElem? _ _ _ _ hk.1 hk.2]
      split
      · rfl
      · split <;> rfl
    intro j
    simp only [key]
    have hopt : objL s.slots (if (if s.kopt = k1 then k2 else if s.kopt = k2 then k1 else s.kopt) = k2
        then k1 else if (if s.kopt = k1 then k2 else if s.kopt = k2 then k1 else s.kopt) = k1 then k2
        else (if s.kopt = k1 then k2 else if s.kopt = k2 then k1 else s.kopt)) = objL s.slots s.kopt := by
      congr 1
      split <;> split <;> (try split) <;> (try split) <;> omega
    rw [hopt]
    exact hs _
  · simp at h

/-! #### `get_final_results` -/

/-- the returned value is at least as good as the incumbent's and as the saved one. -/
theorem getFinal_better {s : MState P R} {f : Final P R} (h : s.getFinal = some f) :
    Better f.obj s.objopt ∧ (∀ sv, s.saved = some sv → Better f.obj sv.obj) := by
  unfold getFinal at h
  split at h
  · simp at h
  · rename_i sl hsl
    have hopt : s.objopt = sl.obj := by simp [objopt, objAt, objL, hsl]
    split at h
    · rename_i hpref
      simp only [Option.some.injEq] at h
      subst h
      refine ⟨by rw [hopt]; exact Better.refl _, ?_⟩
      intro sv hsv
      simp only [hsv, Option.map_some, finalPrefersOpt, Bool.or_eq_true] at hpref
      rcases hpref with h1 | h1
      · exact better_of_le h1
      · cases hv : sv.obj with
        | nan => exact better_nan _
        | num k => simp [hv, Val.isNaN] at h1
    · rename_i hpref
      split at h
      · simp at h
      · rename_i sv hsv
        simp only [Option.some.injEq] at h
        subst h
        simp only [hsv, Option.map_some, finalPrefersOpt, Bool.or_eq_true, not_or,
          Bool.not_eq_true] at hpref
        refine ⟨?_, ?_⟩
        · rw [hopt]; exact better_of_not_le hpref.1 hpref.2
        · intro sv' hsv'; rw [hsv] at hsv'; cases hsv'; exact Better.refl _

theorem getFinal_isSome {s : MState P R} (hk : s.kopt < s.slots.length) : s.getFinal.isSome = true := by
  unfold getFinal
  rw [List.getElem?_eq_getElem hk]
  simp only
  split
  · rfl
  · rename_i hpref
    cases hsv : s.saved with
    | none => simp [hsv, finalPrefersOpt] at hpref
    | some sv => simp

/-- after `save_point` the saved value is at least as good as the offered one and the old one. -/
theorem savePoint_better (s : MState P R) (x : P) (r : R) (v : Val) (ns en : Nat) :
    ∃ sv, (s.savePoint x r v ns en).1.saved = some sv ∧ Better sv.obj v ∧
      (∀ old, s.saved = some old → Better sv.obj old.obj) := by
  unfold savePoint
  split
  · rename_i hacc
    refine ⟨_, rfl, Better.refl _, ?_⟩
    intro old hold
    simp only [hold, Option.map_some, saveAccepts, Bool.or_eq_true, Bool.and_eq_true,
      Bool.not_eq_eq_eq_not, Bool.not_true] at hacc
    rcases hacc with h1 | h1
    · exact better_of_le h1
    · cases hv : old.obj with
      | nan => exact better_nan _
      | num k => simp [hv, Val.isNaN] at h1
  · rename_i hacc
    cases hsv : s.saved with
    | none => simp [hsv, saveAccepts] at hacc
    | some old =>
      refine ⟨old, by simp, ?_, ?_⟩
      · simp only [hsv, Option.map_some, saveAccepts, Bool.or_eq_true, Bool.and_eq_true,
          Bool.not_eq_eq_eq_not, Bool.not_true, not_or, Bool.not_eq_true, not_and] at hacc
        obtain ⟨h1, h2⟩ := hacc
        cases ho : old.obj with
        | nan =>
          have := h2 (by simp [ho, Val.isNaN])
          cases hv : v with
          | nan => exact better_nan _
          | num k => simp [hv, Val.isNaN] at this
        | num k => rw [ho] at h1; exact better_of_not_le h1 (by simp [Val.isNaN])
      · intro old' h'; simp at h'; subst h'; exact Better.refl _

end MState
end Dfols
