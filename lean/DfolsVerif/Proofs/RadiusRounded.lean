/-
  Radius invariants under ROUNDING.

  `Proofs/Radius.lean` proves the invariants of the radius updates in exact arithmetic.  Here every
  arithmetic operation of the kernels (`*`, `/`, `sqrt`, decimal literals) is followed by an arbitrary
  rounding `rnd : ℝ → ℝ` that is
    * monotone,
    * idempotent (the results of roundings — "representable numbers" — are fixed points),
    * and overshoots a non-negative number by at most a factor 2  (`rnd x ≤ 2x`; IEEE: `≤ (1+2⁻⁵³)x`).
  Comparisons, `min`, `max` are exact (as in IEEE).  Round-to-nearest-even on binary64 satisfies the three
  laws as long as no operation overflows or underflows; nothing else about IEEE is used, so the theorems
  cover every rounding mode and every precision.
-/
import DfolsVerif.Proofs.Radius

namespace Dfols
open Classical

structure Rounding where
  rnd : ℝ → ℝ
  mono : ∀ {x y : ℝ}, x ≤ y → rnd x ≤ rnd y
  idem : ∀ x, rnd (rnd x) = rnd x
  over : ∀ x, 0 ≤ x → rnd x ≤ 2 * x

namespace Rounding
variable (R : Rounding)

/-- representable: a fixed point of the rounding -/
def Rep (x : ℝ) : Prop := R.rnd x = x

theorem rep_rnd (x : ℝ) : R.Rep (R.rnd x) := R.idem x

theorem le_rnd {a x : ℝ} (ha : R.Rep a) (h : a ≤ x) : a ≤ R.rnd x := by
  have := R.mono h; rwa [ha] at this
theorem rnd_le {b x : ℝ} (hb : R.Rep b) (h : x ≤ b) : R.rnd x ≤ b := by
  have := R.mono h; rwa [hb] at this
/-- strict comparisons with a representable bound survive un-rounding -/
theorem lt_of_lt_rnd {b x : ℝ} (hb : R.Rep b) (h : b < R.rnd x) : b < x := by
  by_contra hc
  exact absurd (R.rnd_le hb (not_lt.mp hc)) (not_le.mpr h)

end Rounding

/-- interpretation R: real numbers, every arithmetic result rounded -/
noncomputable def roundedRadOps (R : Rounding) : RadOps ℝ :=
  { mul := fun a b => R.rnd (a * b), div := fun a b => R.rnd (a / b), sqrt := fun a => R.rnd (Real.sqrt a),
    min := fun a b => if b < a then b else a, max := fun a b => if a < b then b else a,
    lt := fun a b => decide (a < b), le := fun a b => decide (a ≤ b),
    lit := fun m e => R.rnd ((m : ℝ) / (10 : ℝ) ^ e) }

namespace Radius
variable (R : Rounding)

/-- the constants the proofs need to be representable (all are small integers, exactly representable in
    binary64) -/
structure RepConsts : Prop where
  one : R.Rep 1
  four : R.Rep 4
  sixteen : R.Rep 16
  c250 : R.Rep 250
  cap : R.Rep 10000000000

theorem qmax_ge_left (a b : ℝ) : a ≤ (roundedRadOps R).max a b := by
  simp only [roundedRadOps]; split <;> linarith
theorem qmax_ge_right (a b : ℝ) : b ≤ (roundedRadOps R).max a b := by
  simp only [roundedRadOps]; split <;> linarith
theorem qmax_le {a b c : ℝ} (h1 : a ≤ c) (h2 : b ≤ c) : (roundedRadOps R).max a b ≤ c := by
  simp only [roundedRadOps]; split <;> assumption
theorem qmin_le_left (a b : ℝ) : (roundedRadOps R).min a b ≤ a := by
  simp only [roundedRadOps]; split <;> linarith
theorem qmin_le_right (a b : ℝ) : (roundedRadOps R).min a b ≤ b := by
  simp only [roundedRadOps]; split <;> linarith
theorem qmax_rep {a b : ℝ} (ha : R.Rep a) (hb : R.Rep b) : R.Rep ((roundedRadOps R).max a b) := by
  simp only [roundedRadOps]; split <;> assumption
theorem qmin_rep {a b : ℝ} (ha : R.Rep a) (hb : R.Rep b) : R.Rep ((roundedRadOps R).min a b) := by
  simp only [roundedRadOps]; split <;> assumption

theorem lit16 (hc : RepConsts R) : (roundedRadOps R).lit 16 0 = 16 := by
  simp only [roundedRadOps, pow_zero, div_one, Nat.cast_ofNat]; exact hc.sixteen
theorem lit250 (hc : RepConsts R) : (roundedRadOps R).lit 250 0 = 250 := by
  simp only [roundedRadOps, pow_zero, div_one, Nat.cast_ofNat]; exact hc.c250
theorem litcap (hc : RepConsts R) : (roundedRadOps R).lit 10000000000 0 = 10000000000 := by
  simp only [roundedRadOps, pow_zero, div_one, Nat.cast_ofNat]; exact hc.cap
/-- the literal `1.5`, however it is rounded, is at least 1 -/
theorem lit15_ge_one (hc : RepConsts R) : 1 ≤ (roundedRadOps R).lit 15 1 := by
  simp only [roundedRadOps]
  apply R.le_rnd hc.one
  norm_num

/-- the invariant, with representability of the three state components -/
def RadInvR (rhobeg rhoend delta rho : ℝ) : Prop :=
  RadInv rhobeg rhoend delta rho ∧ R.Rep rhoend ∧ R.Rep delta ∧ R.Rep rho

/-- **`reduce_rho` under rounding** (called only while `rho > rhoend`): `rhoend ≤ rho' ≤ rho`, `rho' ≤ delta'`,
    all results representable.  Needs `1/250 ≤ alpha1 ≤ 1`. -/
theorem reduceRho_inv_rounded (hc : RepConsts R) (p : TRParams ℝ) (rhobeg rhoend delta rho : ℝ)
    (hi : RadInvR R rhobeg rhoend delta rho) (hgt : rhoend < rho) (ha1 : 1 / 250 ≤ p.alpha1) (ha1' : p.alpha1 ≤ 1) :
    let r := reduceRho (roundedRadOps R) p rho rhoend
    RadInvR R rhobeg rhoend r.1 r.2 ∧ r.2 ≤ rho := by
  obtain ⟨⟨h0, h1, h2, _⟩, hre, _, hr⟩ := hi
  have hrho0 : 0 < rho := by linarith
  -- the three candidate values of new_rho
  have key : ∀ nr : ℝ, rhoend ≤ nr → nr ≤ rho → R.Rep nr →
      RadInvR R rhobeg rhoend ((roundedRadOps R).max ((roundedRadOps R).mul p.alpha2 rho) nr) nr ∧ nr ≤ rho := by
    intro nr hlo hhi hrep
    refine ⟨⟨⟨h0, hlo, by linarith, qmax_ge_right R _ _⟩, hre, qmax_rep R ?_ hrep, hrep⟩, hhi⟩
    simp only [roundedRadOps]; exact R.rep_rnd _
  simp only [reduceRho]
  rw [lit16 R hc, lit250 R hc]
  by_cases c1 : (roundedRadOps R).le ((roundedRadOps R).div rho rhoend) 16 = true
  · simp only [c1, if_true]
    exact key rhoend (le_refl _) (le_of_lt hgt) hre
  · simp only [c1]
    have hq16 : (16 : ℝ) < R.rnd (rho / rhoend) := by
      simp only [roundedRadOps, decide_eq_true_eq] at c1; exact not_le.mp c1
    have hq16' : 16 < rho / rhoend := R.lt_of_lt_rnd hc.sixteen hq16
    have hqover : R.rnd (rho / rhoend) ≤ 2 * (rho / rhoend) := R.over _ (by positivity)
    by_cases c2 : (roundedRadOps R).le ((roundedRadOps R).div rho rhoend) 250 = true
    · simp only [c2, if_true, Bool.false_eq_true, if_false]
      -- geometric mean branch
      set q := R.rnd (rho / rhoend) with hq
      have hq0 : 0 ≤ q := by linarith
      have hs4 : 4 ≤ Real.sqrt q := by
        rw [show (4 : ℝ) = Real.sqrt 16 by
          rw [show (16 : ℝ) = 4 ^ 2 by norm_num]; exact (Real.sqrt_sq (by norm_num)).symm]
        exact Real.sqrt_le_sqrt (le_of_lt hq16)
      have hsle : Real.sqrt q ≤ q / 4 := by
        rw [Real.sqrt_le_iff]
        refine ⟨by linarith, ?_⟩
        nlinarith
      set s := R.rnd (Real.sqrt q) with hs
      have hs_lo : 4 ≤ s := R.le_rnd hc.four hs4
      have hs_hi : s ≤ 2 * Real.sqrt q := R.over _ (Real.sqrt_nonneg _)
      -- s ≤ 2·(q/4) = q/2 ≤ rho/rhoend
      have hs_q : s ≤ rho / rhoend := by linarith
      have hprod_hi : s * rhoend ≤ rho := by
        have := mul_le_mul_of_nonneg_right hs_q (le_of_lt h0)
        rwa [div_mul_cancel₀ rho (ne_of_gt h0)] at this
      have hprod_lo : rhoend ≤ s * rhoend := by nlinarith
      show RadInvR R rhobeg rhoend ((roundedRadOps R).max ((roundedRadOps R).mul p.alpha2 rho)
          ((roundedRadOps R).mul ((roundedRadOps R).sqrt ((roundedRadOps R).div rho rhoend)) rhoend))
          ((roundedRadOps R).mul ((roundedRadOps R).sqrt ((roundedRadOps R).div rho rhoend)) rhoend) ∧ _
      have hval : (roundedRadOps R).mul ((roundedRadOps R).sqrt ((roundedRadOps R).div rho rhoend)) rhoend
          = R.rnd (s * rhoend) := rfl
      rw [hval]
      exact key _ (R.le_rnd hre hprod_lo) (R.rnd_le hr hprod_hi) (R.rep_rnd _)
    · simp only [c2, Bool.false_eq_true, if_false]
      have hq250 : (250 : ℝ) < R.rnd (rho / rhoend) := by
        simp only [roundedRadOps, decide_eq_true_eq] at c2; exact not_le.mp c2
      have hq250' : 250 < rho / rhoend := R.lt_of_lt_rnd hc.c250 hq250
      have hrho250 : 250 * rhoend < rho := by
        have := (lt_div_iff₀ h0).mp hq250'; linarith
      have hlo : rhoend ≤ p.alpha1 * rho := by nlinarith
      have hhi : p.alpha1 * rho ≤ rho := by nlinarith
      have hval : (roundedRadOps R).mul p.alpha1 rho = R.rnd (p.alpha1 * rho) := rfl
      rw [hval]
      exact key _ (R.le_rnd hre hlo) (R.rnd_le hr hhi) (R.rep_rnd _)

/-- the cap `if delta <= 1.5*rho: delta = rho` never yields less than rho, whatever `1.5*rho` rounds to -/
theorem capToRho_ge_rounded (hc : RepConsts R) (d1 rho : ℝ) (hrho : 0 < rho) (hr : R.Rep rho) :
    rho ≤ capToRho (roundedRadOps R) d1 rho := by
  simp only [capToRho]
  split
  · exact le_refl _
  · rename_i h
    have h' : R.rnd ((roundedRadOps R).lit 15 1 * rho) < d1 := by
      simp only [roundedRadOps, decide_eq_true_eq, not_le] at h ⊢; exact h
    have h1 := lit15_ge_one R hc
    have : rho ≤ R.rnd ((roundedRadOps R).lit 15 1 * rho) := R.le_rnd hr (by nlinarith)
    linarith

theorem capToRho_rep {d1 rho : ℝ} (hd : R.Rep d1) (hr : R.Rep rho) : R.Rep (capToRho (roundedRadOps R) d1 rho) := by
  simp only [capToRho]; split <;> assumption

theorem capToRho_le_rounded (d1 rho c : ℝ) (h1 : d1 ≤ c) (h2 : rho ≤ c) : capToRho (roundedRadOps R) d1 rho ≤ c := by
  simp only [capToRho]; split <;> assumption

/-- **the delta update under rounding** never goes below rho -/
theorem trUpdate_ge_rho_rounded (hc : RepConsts R) (p : TRParams ℝ) (ratio dnorm tau delta rho : ℝ)
    (hrho : 0 < rho) (hr : R.Rep rho) : rho ≤ trUpdate (roundedRadOps R) p ratio dnorm tau delta rho :=
  capToRho_ge_rounded R hc _ _ hrho hr

/-- the candidate is representable when `dnorm` is -/
theorem trCandidate_rep (hc : RepConsts R) (p : TRParams ℝ) (ratio dnorm tau delta : ℝ) (hdn : R.Rep dnorm) :
    R.Rep (trCandidate (roundedRadOps R) p ratio dnorm tau delta) := by
  simp only [trCandidate]
  split
  · show R.Rep (R.rnd _); exact R.rep_rnd _
  · split
    · exact qmax_rep R (R.rep_rnd _) hdn
    · refine qmin_rep R (qmax_rep R (R.rep_rnd _) (R.rep_rnd _)) ?_
      rw [litcap R hc]; exact hc.cap

theorem trUpdate_rep (hc : RepConsts R) (p : TRParams ℝ) (ratio dnorm tau delta rho : ℝ) (hdn : R.Rep dnorm) (hr : R.Rep rho) :
    R.Rep (trUpdate (roundedRadOps R) p ratio dnorm tau delta rho) :=
  capToRho_rep R (trCandidate_rep R hc p ratio dnorm tau delta hdn) hr

/-- with `tau = 1`, `0 ≤ gamma_dec ≤ 1` and `dnorm ≤ delta ≤ 1e10` the rounded update keeps `delta ≤ 1e10` -/
theorem trUpdate_le_cap_rounded (hc : RepConsts R) (p : TRParams ℝ) (ratio dnorm delta rho : ℝ)
    (hd : delta ≤ 10000000000) (hdn : dnorm ≤ delta) (hrho : rho ≤ delta) (hg0 : 0 ≤ p.gammaDec) (hg : p.gammaDec ≤ 1)
    (hdel : 0 ≤ delta) (hdrep : R.Rep delta) :
    trUpdate (roundedRadOps R) p ratio dnorm 1 delta rho ≤ 10000000000 := by
  have hgd : p.gammaDec * delta ≤ delta := by nlinarith
  have hgdr : R.rnd (p.gammaDec * delta) ≤ delta := R.rnd_le hdrep hgd
  apply capToRho_le_rounded R _ _ _ _ (by linarith)
  simp only [trCandidate]
  split
  · -- rnd (min(rnd(gdec*delta), dnorm) / 1)
    have hm : (roundedRadOps R).min ((roundedRadOps R).mul p.gammaDec delta) dnorm ≤ delta := by
      have := qmin_le_right R ((roundedRadOps R).mul p.gammaDec delta) dnorm; linarith
    show R.rnd (_ / 1) ≤ _
    rw [div_one]
    exact R.rnd_le hc.cap (by linarith)
  · split
    · apply qmax_le R
      · show R.rnd (p.gammaDec * delta) ≤ _; linarith
      · linarith
    · rw [litcap R hc]
      exact qmin_le_right R _ _

/-- the geometry reduction under rounding stays at or above rho -/
theorem geomDelta_ge_rho_rounded (hc : RepConsts R) (delta rho dist : ℝ) (hrho : 0 < rho) (hr : R.Rep rho) :
    rho ≤ geomDelta (roundedRadOps R) delta rho dist := by
  have h1 := qmax_ge_right R ((roundedRadOps R).min ((roundedRadOps R).mul ((roundedRadOps R).lit 1 1) delta)
      ((roundedRadOps R).mul ((roundedRadOps R).lit 5 1) dist)) ((roundedRadOps R).mul ((roundedRadOps R).lit 15 1) rho)
  have h2 : rho ≤ (roundedRadOps R).mul ((roundedRadOps R).lit 15 1) rho := by
    show rho ≤ R.rnd (_ * rho)
    have := lit15_ge_one R hc
    exact R.le_rnd hr (by nlinarith)
  simp only [geomDelta]
  linarith

theorem geomDelta_rep (delta rho dist : ℝ) : R.Rep (geomDelta (roundedRadOps R) delta rho dist) := by
  simp only [geomDelta]
  exact qmax_rep R (qmin_rep R (R.rep_rnd _) (R.rep_rnd _)) (R.rep_rnd _)

end Radius
end Dfols
