/-
  Invariants of the L1 `Model` bookkeeping state machine, for every operation sequence.
-/
import DfolsVerif.Book.ModelState

namespace Dfols
namespace MState

variable {P R : Type}

/-! ### running mean as a fold -/

/-- the mean the code holds after receiving `rs` on top of a mean `m` of `k` samples -/
def meanFold (avg : Nat → R → R → R) : R → Nat → List R → R
  | m, _, [] => m
  | m, k, r :: rs => meanFold avg (avg k m r) (k+1) rs

/-- the value `fval_v[k,:]` holds after the samples `rs` (first sample stored as is). -/
def meanOf (avg : Nat → R → R → R) : List R → Option R
  | [] => none
  | r :: rs => some (meanFold avg r 1 rs)

theorem meanFold_append (avg : Nat → R → R → R) (m : R) (k : Nat) (rs : List R) (r : R) :
    meanFold avg m k (rs ++ [r]) = avg (k + rs.length) (meanFold avg m k rs) r := by
  induction rs generalizing m k with
  | nil => simp [meanFold]
  | cons a rs ih =>
    simp only [List.cons_append, meanFold, ih, List.length_cons]
    congr 1; omega

theorem meanOf_append (avg : Nat → R → R → R) (rs : List R) (r m : R)
    (h : meanOf avg rs = some m) :
    meanOf avg (rs ++ [r]) = some (avg rs.length m r) := by
  cases rs with
  | nil => simp [meanOf] at h
  | cons a rs =>
    simp only [meanOf, Option.some.injEq] at h
    simp only [List.cons_append, meanOf, meanFold_append, h, List.length_cons]
    congr 2; omega

/-! ### per-slot ghost consistency -/

/-- labels, sample counts and means agree with what was supplied (ghost record). -/
structure SlotOK (avg : Nat → R → R → R) (sl : Slot P R) : Prop where
  label : sl.en = sl.glabel
  point : sl.pt = sl.gpt
  count : sl.ns = sl.gsamples.length
  mean  : meanOf avg sl.gsamples = some sl.resid
  src   : sl.gobjSrc = (sl.resid, sl.pt)

/-- well-formedness of the whole state -/
structure WF (avg : Nat → R → R → R) (s : MState P R) : Prop where
  nonempty : 0 < s.slots.length
  kopt_lt : s.kopt < s.slots.length
  le_cap : s.slots.length ≤ s.cap
  slots_ok : ∀ sl ∈ s.slots, SlotOK avg sl
  fact : s.factCur = true → s.factVersion = s.version

theorem slotOK_new (avg : Nat → R → R → R) (x : P) (r : R) (v : Val) (en : Nat) :
    SlotOK avg ({ pt := x, resid := r, obj := v, ns := 1, en := en,
                  gpt := x, glabel := en, gsamples := [r], gobjSrc := (r, x) } : Slot P R) :=
  ⟨rfl, rfl, rfl, rfl, rfl⟩

theorem init_wf (avg : Nat → R → R → R) (cap : Nat) (hcap : 1 ≤ cap) (x0 : P) (r0 : R) (v0 : Val)
    (ns0 label : Nat) (samples0 : List R) (hlen : ns0 = samples0.length)
    (hmean : meanOf avg samples0 = some r0) :
    WF avg (init cap x0 r0 v0 ns0 label samples0) := by
  refine ⟨by simp [init], by simp [init], by simpa [init] using hcap, ?_, by simp [init]⟩
  intro sl hsl
  simp only [init, List.mem_singleton] at hsl
  subst hsl
  exact ⟨rfl, rfl, hlen, hmean, rfl⟩

theorem mem_set_cases {α : Type} {l : List α} {k : Nat} {a b : α} (h : b ∈ l.set k a) :
    b = a ∨ b ∈ l := by
  rcases List.mem_or_eq_of_mem_set h with h | h
  · exact Or.inr h
  · exact Or.inl h

theorem changePoint_wf (avg : Nat → R → R → R) {s s' : MState P R} (hs : WF avg s)
    {k : Nat} {x : P} {r : R} {v : Val} {en : Nat} {a : Bool}
    (h : s.changePoint k x r v en a = .ok s') : WF avg s' := by
  obtain ⟨h1, h2, h3, h4, h5⟩ := hs
  unfold changePoint at h
  split at h
  · rename_i hk
    split at h
    · rename_i hk2
      simp only [Except.ok.injEq] at h
      split at h <;> subst h <;> refine ⟨?_, ?_, ?_, ?_, ?_⟩ <;>
        simp_all only [List.length_append, List.length_cons, List.length_nil, List.mem_append,
          List.mem_singleton, Bool.false_eq_true, false_implies] <;> first
        | omega
        | (intro sl hsl; rcases hsl with hsl | hsl
           · exact h4 sl hsl
           · subst hsl; exact slotOK_new avg x r v en)
    · simp at h
  · split at h
    · rename_i hk
      simp only [Except.ok.injEq] at h
      split at h <;> subst h <;> refine ⟨?_, ?_, ?_, ?_, ?_⟩ <;>
        simp_all only [List.length_set, Bool.false_eq_true, false_implies] <;> first
        | omega
        | (intro sl hsl; rcases mem_set_cases hsl with hsl | hsl
           · subst hsl; exact slotOK_new avg x r v en
           · exact h4 sl hsl)
    · simp at h

theorem swapList_length {α : Type} (l : List α) (i j : Nat) : (swapList l i j).length = l.length := by
  unfold swapList; split <;> simp

theorem mem_swapList {α : Type} {l : List α} {i j : Nat} {a : α} (h : a ∈ swapList l i j) : a ∈ l := by
  unfold swapList at h
  split at h
  · rename_i x y hx hy
    rcases mem_set_cases h with h | h
    · subst h; exact List.mem_of_getElem? hx
    · rcases mem_set_cases h with h | h
      · subst h; exact List.mem_of_getElem? hy
      · exact h
  · exact h

theorem swap_wf (avg : Nat → R → R → R) {s s' : MState P R} (hs : WF avg s) {k1 k2 : Nat}
    (h : s.swap k1 k2 = .ok s') : WF avg s' := by
  obtain ⟨h1, h2, h3, h4, h5⟩ := hs
  unfold swap at h
  split at h
  · rename_i hk
    simp only [Except.ok.injEq] at h
    subst h
    refine ⟨?_, ?_, ?_, ?_, ?_⟩
    · simpa [swapList_length] using h1
    · simp only [swapList_length]
      split
      · omega
      · split <;> omega
    · simpa [swapList_length] using h3
    · intro sl hsl; exact h4 sl (mem_swapList hsl)
    · simp
  · simp at h

theorem argminFrom_lt (vs : List Val) (i best : Nat) (bv : Val) (hb : best < i) :
    argminFrom vs i best bv < i + vs.length := by
  induction vs generalizing i best bv with
  | nil => simp [argminFrom]; omega
  | cons v vs ih =>
    simp only [argminFrom, List.length_cons]
    split
    · have := ih (i+1) i v (by omega); omega
    · have := ih (i+1) best bv (by omega); omega

theorem argminNanLast_lt (vs : List Val) (h : 0 < vs.length) : argminNanLast vs < vs.length := by
  cases vs with
  | nil => simp at h
  | cons v rest =>
    simp only [argminNanLast, List.length_cons]
    have := argminFrom_lt rest 1 0 v (by omega); omega

theorem addSample_wf (avg : Nat → R → R → R) {s s' : MState P R} (hs : WF avg s)
    {k : Nat} {r : R} {v : Val} (h : s.addSample avg k r v = .ok s') : WF avg s' := by
  obtain ⟨h1, h2, h3, h4, h5⟩ := hs
  unfold addSample at h
  split at h
  · simp at h
  · rename_i sl hsl
    simp only [Except.ok.injEq] at h
    subst h
    have hmem : sl ∈ s.slots := List.mem_of_getElem? hsl
    have hok := h4 sl hmem
    refine ⟨?_, ?_, ?_, ?_, ?_⟩
    · simpa using h1
    · simp only [List.length_set]
      split
      · exact h2
      · have := argminNanLast_lt ((s.slots.set k
            { sl with resid := avg sl.ns sl.resid r, obj := v, ns := sl.ns + 1,
                      gsamples := sl.gsamples ++ [r],
                      gobjSrc := (avg sl.ns sl.resid r, sl.pt) }).map (·.obj)) (by simpa using h1)
        simpa using this
    · simpa using h3
    · intro sl' hsl'
      rcases mem_set_cases hsl' with e | e
      · subst e
        refine ⟨hok.label, hok.point, ?_, ?_, rfl⟩
        · simp [hok.count]
        · simp only
          rw [meanOf_append avg _ _ _ hok.mean, hok.count]
      · exact h4 sl' e
    · simp

theorem addPoint_wf (avg : Nat → R → R → R) {s : MState P R} (hs : WF avg s)
    (x : P) (r : R) (v : Val) (en : Nat) : WF avg (s.addPoint x r v en) := by
  obtain ⟨h1, h2, h3, h4, h5⟩ := hs
  unfold addPoint
  simp only
  split <;> refine ⟨?_, ?_, ?_, ?_, ?_⟩ <;>
    simp_all only [List.length_append, List.length_cons, List.length_nil, List.mem_append,
      List.mem_singleton, Bool.false_eq_true, false_implies] <;> first
    | omega
    | (intro sl hsl; rcases hsl with hsl | hsl
       · exact h4 sl hsl
       · subst hsl; exact slotOK_new avg x r v en)

theorem shiftBase_wf (avg : Nat → R → R → R) {s : MState P R} (hs : WF avg s) : WF avg s.shiftBase := by
  obtain ⟨h1, h2, h3, h4, h5⟩ := hs
  exact ⟨h1, h2, h3, h4, by simp [shiftBase]⟩

theorem savePoint_wf (avg : Nat → R → R → R) {s : MState P R} (hs : WF avg s)
    (x : P) (r : R) (v : Val) (ns en : Nat) : WF avg (s.savePoint x r v ns en).1 := by
  obtain ⟨h1, h2, h3, h4, h5⟩ := hs
  unfold savePoint
  split <;> exact ⟨h1, h2, h3, h4, h5⟩

theorem interpolate_wf (avg : Nat → R → R → R) {s : MState P R} (hs : WF avg s) : WF avg s.interpolate := by
  obtain ⟨h1, h2, h3, h4, h5⟩ := hs
  exact ⟨h1, h2, h3, h4, by simp [interpolate]⟩

theorem factorise_wf (avg : Nat → R → R → R) {s : MState P R} (hs : WF avg s) : WF avg s.factorise := by
  obtain ⟨h1, h2, h3, h4, h5⟩ := hs
  unfold factorise
  split
  · exact ⟨h1, h2, h3, h4, h5⟩
  · exact ⟨h1, h2, h3, h4, by simp⟩

theorem step_wf (avg : Nat → R → R → R) {s s' : MState P R} (hs : WF avg s) {op : MOp P R}
    (h : s.step avg op = .ok s') : WF avg s' := by
  cases op <;> simp only [step, Except.ok.injEq] at h
  · exact changePoint_wf avg hs h
  · exact swap_wf avg hs h
  · exact addSample_wf avg hs h
  · split at h
    · simp only [Except.ok.injEq] at h; subst h; exact addPoint_wf avg hs _ _ _ _
    · simp at h
  · subst h; exact shiftBase_wf avg hs
  · subst h; exact savePoint_wf avg hs _ _ _ _ _
  · subst h; exact interpolate_wf avg hs
  · subst h; exact factorise_wf avg hs

/-- the invariant holds after **every** operation sequence (no bound on its length). -/
theorem run_wf (avg : Nat → R → R → R) (ops : List (MOp P R)) {s : MState P R} (hs : WF avg s) :
    WF avg (s.run avg ops) := by
  induction ops generalizing s with
  | nil => simpa [run] using hs
  | cons op ops ih =>
    have hrun : s.run avg (op :: ops) =
        (match s.step avg op with | .ok s' => s' | .error _ => s).run avg ops := rfl
    rw [hrun]
    cases hstep : s.step avg op with
    | error e => exact ih hs
    | ok s' => exact ih (step_wf avg hs hstep)

end MState
end Dfols
