/-
  Invariant of the C09 trace acceptor (`Book/ProjTrace.lean`): the acceptor's state is exactly the
  observables of the prefix processed so far.  No Mathlib.
-/
import DfolsVerif.Book.ProjTrace

namespace Dfols
namespace ProjTrace

variable {V : Type}

theorem firstEval_snoc (l : List (Ev V)) (e : Ev V) : firstEval (l ++ [e]) = (firstEval l).or (evalOf e) := by
  simp [firstEval, List.findSome?_append]
theorem firstStart_snoc (l : List (Ev V)) (e : Ev V) : firstStart (l ++ [e]) = (firstStart l).or (startOf e) := by
  simp [firstStart, List.findSome?_append]
theorem firstProj_snoc (l : List (Ev V)) (e : Ev V) : firstProj (l ++ [e]) = (firstProj l).or (projOf e) := by
  simp [firstProj, List.findSome?_append]

/-- the state after a prefix `done` records exactly: first evaluated point, user x0, first box-last
    Dykstra output, and the set of all box-last Dykstra outputs of `done`. -/
def Rel (done : List (Ev V)) (s : St V) : Prop :=
  s.first = firstEval done ∧ s.x0 = firstStart done ∧ s.xp = firstProj done ∧
  ∀ x, x ∈ s.outs ↔ Ev.dykOut x true ∈ done

theorem rel_init : Rel ([] : List (Ev V)) {} := by
  simp [Rel, firstEval, firstStart, firstProj]

variable [DecidableEq V]

theorem step_rel (close : V → V → Bool) {done : List (Ev V)} {s s' : St V} {e : Ev V}
    (h : Rel done s) (hs : step close s e = .ok s') : Rel (done ++ [e]) s' := by
  obtain ⟨h1, h2, h3, h4⟩ := h
  unfold Rel
  rw [firstEval_snoc, firstStart_snoc, firstProj_snoc, ← h1, ← h2, ← h3]
  cases e with
  | start a =>
    simp only [step] at hs
    by_cases hx0 : s.x0.isSome = true
    · simp [hx0] at hs
    · simp only [hx0] at hs
      simp only [Bool.false_eq_true, ↓reduceIte, Except.ok.injEq] at hs
      subst hs
      have : s.x0 = none := by simpa using hx0
      simp [evalOf, startOf, projOf, this, h4]
  | dykOut x b =>
    cases b with
    | true =>
      simp only [step, ↓reduceIte, Except.ok.injEq] at hs
      subst hs
      refine ⟨by simp [evalOf], by simp [startOf], ?_, ?_⟩
      · cases s.xp <;> simp [projOf, Option.orElse]
      · intro y
        simp [h4, or_comm]
    | false =>
      simp only [step, Bool.false_eq_true, ↓reduceIte, Except.ok.injEq] at hs
      subst hs
      simp [evalOf, startOf, projOf, h4]
  | eval x =>
    simp only [step] at hs
    cases hf : s.first with
    | some f =>
      rw [hf] at hs
      simp only at hs
      by_cases hc : x = f ∨ x ∈ s.outs
      · simp only [hc, ↓reduceIte, Except.ok.injEq] at hs
        subst hs
        simp [evalOf, startOf, projOf, hf, h4]
      · simp [hc] at hs
    | none =>
      rw [hf] at hs
      simp only at hs
      cases ha : s.x0 with
      | none => rw [ha] at hs; simp at hs
      | some a =>
        cases hp : s.xp with
        | none => rw [ha, hp] at hs; simp at hs
        | some p =>
          rw [ha, hp] at hs
          simp only at hs
          by_cases hc : x = (if close p a = true then a else p)
          · rw [if_pos hc] at hs
            simp only [Except.ok.injEq] at hs
            subst hs
            simp [evalOf, startOf, projOf, h4]
          · rw [if_neg hc] at hs
            cases hs

theorem foldlM_rel (close : V → V → Bool) : ∀ (evs done : List (Ev V)) (s s' : St V),
    Rel done s → evs.foldlM (step close) s = .ok s' → Rel (done ++ evs) s'
  | [], done, s, s', h, hs => by
    simp only [List.foldlM_nil, pure, Except.pure, Except.ok.injEq] at hs
    subst hs; simpa using h
  | e :: evs, done, s, s', h, hs => by
    simp only [List.foldlM_cons, bind, Except.bind] at hs
    cases h1 : step close s e with
    | error m => rw [h1] at hs; simp at hs
    | ok s1 =>
      rw [h1] at hs
      have := foldlM_rel close evs (done ++ [e]) s1 s' (step_rel close h h1) hs
      simpa using this

theorem run_rel (close : V → V → Bool) (evs : List (Ev V)) (s : St V) (h : run close evs = .ok s) :
    Rel evs s := by
  have := foldlM_rel close evs [] {} s rel_init h
  simpa using this

/-- an accepted trace, cut at any event: the prefix is accepted (with the state `Rel` describes)
    and the event is accepted from that state. -/
theorem accept_split (close : V → V → Bool) (pre post : List (Ev V)) (e : Ev V)
    (h : accept close (pre ++ e :: post) = true) :
    ∃ s s', run close pre = .ok s ∧ step close s e = .ok s' := by
  unfold accept run at h
  rw [List.foldlM_append] at h
  simp only [bind, Except.bind] at h
  unfold run
  cases hp : List.foldlM (step close) {} pre with
  | error m => rw [hp] at h; simp at h
  | ok s =>
    rw [hp] at h
    simp only [List.foldlM_cons, bind, Except.bind] at h
    cases he : step close s e with
    | error m => rw [he] at h; simp at h
    | ok s' => exact ⟨s, s', rfl, he⟩

end ProjTrace
end Dfols
