/-
  No `try` block of the package can reach a call of the user's residual function (tables of Gen/TrySites.lean, regenerated from
  the AST on every run): the set of package functions reachable — by bare name, through the package's call graph — from the
  functions called inside any `try` body is computed by iteration, checked to be closed, and is disjoint from the functions that
  call `objfun`.  `reach_in_closed` is the (generic) reason why a closed superset of the roots contains everything reachable.
-/
import DfolsVerif.Gen.TrySites

namespace Dfols
namespace TrySites

/-- reachability in a call graph given as an edge list -/
inductive Reach (edges : List (String × String)) (roots : List String) : String → Prop
  | root {f} : f ∈ roots → Reach edges roots f
  | step {f g} : Reach edges roots f → (f, g) ∈ edges → Reach edges roots g

def closed (edges : List (String × String)) (R : List String) : Bool :=
  edges.all fun e => !R.contains e.1 || R.contains e.2

theorem reach_in_closed (edges : List (String × String)) (roots R : List String)
    (hroots : ∀ f ∈ roots, f ∈ R) (hcl : closed edges R = true) {f : String} (h : Reach edges roots f) : f ∈ R := by
  induction h with
  | root hf => exact hroots _ hf
  | step _ he ih =>
    unfold closed at hcl
    rw [List.all_eq_true] at hcl
    have := hcl _ he
    simp only [Bool.or_eq_true, Bool.not_eq_true', List.contains_iff_mem] at this
    rcases this with h1 | h2
    · have h3 := List.contains_iff_mem.mpr ih
      rw [h1] at h3
      exact absurd h3 (by simp)
    · exact h2

def ins (x : String) (l : List String) : List String := if l.contains x then l else x :: l

def next (edges : List (String × String)) (S : List String) : List String :=
  edges.foldl (fun acc e => if S.contains e.1 then ins e.2 acc else acc) S

def iter (edges : List (String × String)) : Nat → List String → List String
  | 0, S => S
  | n + 1, S => iter edges n (next edges S)

/-- the functions called inside `try` bodies -/
def roots : List String := (Gen.trySites.flatMap fun t => t.2.2).foldl (fun acc x => ins x acc) []

/-- everything reachable from them -/
def reachSet : List String := iter Gen.callEdges 10 roots

theorem facts :
    (∀ f ∈ roots, f ∈ reachSet) ∧ closed Gen.callEdges reachSet = true ∧
    (∀ f ∈ reachSet, f ∉ Gen.objfunCallers ∧ f ≠ "objfun") ∧
    Gen.objfunCallers = ["eval_least_squares_with_regularisation"] ∧ Gen.trySites.length = 7 := by decide +kernel

/-- **no `try` body reaches the residual function**: a package function reachable from a call made inside any `try` body neither
    is `objfun` nor calls it -/
theorem no_handler_around_objfun {f : String} (h : Reach Gen.callEdges roots f) : f ∉ Gen.objfunCallers ∧ f ≠ "objfun" :=
  facts.2.2.1 f (reach_in_closed Gen.callEdges roots reachSet facts.1 facts.2.1 h)

/-! ### nothing is evaluated before the input checks have passed -/

/-- everything reachable from the calls `solve` makes up to its input-error return -/
def preludeReach : List String := iter Gen.callEdges 10 Gen.solvePreludeCalls

theorem prelude_facts :
    (∀ f ∈ Gen.solvePreludeCalls, f ∈ preludeReach) ∧ closed Gen.callEdges preludeReach = true ∧
    (∀ f ∈ preludeReach, f ∉ Gen.objfunCallers ∧ f ∉ ["objfun", "h", "prox_uh", "nsamples", "solve_main", "dykstra"]) := by
  decide +kernel

/-- **zero evaluations on an input error, at the source**: no package function reachable from a call that `solve` makes before
    (or in) its input-error return calls the residual function, and none of those calls is the residual function, the regulariser,
    its prox, the `nsamples` callback, `solve_main` or `dykstra` (which would call the user's projections) -/
theorem no_evaluation_before_validation {f : String} (h : Reach Gen.callEdges Gen.solvePreludeCalls f) :
    f ∉ Gen.objfunCallers ∧ f ∉ ["objfun", "h", "prox_uh", "nsamples", "solve_main", "dykstra"] :=
  prelude_facts.2.2 f (reach_in_closed Gen.callEdges Gen.solvePreludeCalls preludeReach prelude_facts.1 prelude_facts.2.1 h)

/-! ### every call of the residual function goes through the two counted places -/

/-- the residual function is called by `eval_least_squares_with_regularisation` only; that helper is called by
    `Controller.evaluate_objective` and by `solve_main` (the block at x0) only — the two sampling loops translated in
    Gen/EvalLoopFns.lean, where `nf` / `nx` are advanced; `evaluate_objective` is called by the seven places whose skeletons are in
    Gen/CtrlSkel.lean and Gen/MainLoop.lean -/
theorem choke_points :
    Gen.objfunCallers = ["eval_least_squares_with_regularisation"] ∧
    (Gen.callEdges.filter (fun e => e.2 == "eval_least_squares_with_regularisation")).map (·.1) = ["evaluate_objective", "solve_main"] ∧
    (Gen.callEdges.filter (fun e => e.2 == "evaluate_objective")).map (·.1) =
      ["add_new_direction_while_growing", "geometry_step", "initialise_coordinate_directions", "initialise_random_directions",
       "move_furthest_points_momentum", "soft_restart", "solve_main"] := by decide +kernel

end TrySites
end Dfols
