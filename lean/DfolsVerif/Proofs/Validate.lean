/-
  Helper lemmas about the `Validate` model (no Mathlib needed).
-/
import DfolsVerif.Book.Validate

namespace Dfols.Py

/-! ### ParameterList -/

namespace PList

def keys (pl : PList) : List String := pl.map (·.key)

/-- value stored under `key` (`None` if absent — only used where the key is known to be present) -/
def val (pl : PList) (key : String) : PyVal := ((pl.get? key).map (·.val)).getD .none

theorem keys_init (d : List (String × DExpr)) (s : Sizes) : (init d s).keys = d.map (·.1) := by
  simp [keys, init, List.map_map, Function.comp_def]

theorem unchanged_init (d : List (String × DExpr)) (s : Sizes) : ∀ p ∈ init d s, p.changed = false := by
  intro p hp
  simp only [init, List.mem_map] at hp
  obtain ⟨kd, _, rfl⟩ := hp
  rfl

theorem keys_set (pl : PList) (k : String) (v : PyVal) : (pl.set k v).keys = pl.keys := by
  induction pl with
  | nil => rfl
  | cons q qs ih =>
    simp only [keys, set, List.map_cons] at ih ⊢
    rw [ih]
    split <;> rfl

theorem get?_isSome (pl : PList) (k : String) : (pl.get? k).isSome = true ↔ k ∈ pl.keys := by
  simp only [get?, keys, List.find?_isSome, List.mem_map, beq_iff_eq]

theorem get?_eq_none (pl : PList) (k : String) : pl.get? k = none ↔ k ∉ pl.keys := by
  rw [← get?_isSome]
  cases pl.get? k <;> simp

theorem get?_key {pl : PList} {k : String} {p : Param} (h : pl.get? k = some p) : p.key = k := by
  have := List.find?_some h
  simpa using this

/-- every error of `params(key, new_value)` is a `ValueError` -/
theorem call_error {pl : PList} {k : String} {v : PyVal} {e : Exc} (h : pl.call k v = .error e) : e = .valueError := by
  unfold call at h
  split at h
  · cases h; rfl
  · split at h
    · cases h
    · split at h
      · cases h; rfl
      · cases h

theorem call_keys {pl pl' : PList} {k : String} {v r : PyVal} (h : pl.call k v = .ok (pl', r)) : pl'.keys = pl.keys := by
  unfold call at h
  split at h
  · cases h
  · split at h
    · cases h; rfl
    · split at h
      · cases h
      · cases h; exact keys_set _ _ _

theorem call_unknown {pl : PList} {k : String} (v : PyVal) (h : k ∉ pl.keys) : pl.call k v = .error .valueError := by
  unfold call
  rw [(get?_eq_none pl k).2 h]

theorem update_error {ups : List (String × PyVal)} : ∀ {pl : PList} {e : Exc}, pl.update ups = .error e → e = .valueError := by
  induction ups with
  | nil => intro pl e h; cases h
  | cons kv rest ih =>
    intro pl e h
    unfold update at h
    split at h
    · next e' he => cases h; exact call_error he
    · exact ih h

theorem update_keys {ups : List (String × PyVal)} : ∀ {pl pl' : PList}, pl.update ups = .ok pl' → pl'.keys = pl.keys := by
  induction ups with
  | nil => intro pl pl' h; cases h; rfl
  | cons kv rest ih =>
    intro pl pl' h
    unfold update at h
    split at h
    · cases h
    · next pl1 r he => rw [ih h, call_keys he]

/-- an unknown key anywhere in `user_params` makes the update loop raise (`ValueError`, by `update_error`) -/
theorem update_unknown {ups : List (String × PyVal)} : ∀ {pl : PList}, (∃ kv ∈ ups, kv.1 ∉ pl.keys) → ∃ e, pl.update ups = .error e := by
  induction ups with
  | nil => intro pl h; obtain ⟨kv, hkv, _⟩ := h; cases hkv
  | cons kv rest ih =>
    intro pl h
    unfold update
    split
    · next e he => exact ⟨e, rfl⟩
    · next pl1 r he =>
      obtain ⟨kv', hmem, hnot⟩ := h
      rcases List.mem_cons.1 hmem with rfl | hrest
      · rw [call_unknown _ hnot] at he; cases he
      · exact ih ⟨kv', hrest, by rw [call_keys he]; exact hnot⟩

/-! #### the effect of `user_params`: dictionary semantics, `None` = leave the default -/

theorem get?_set_same {pl : PList} {k : String} {v : PyVal} {p : Param} (h : pl.get? k = some p) :
    (pl.set k v).get? k = some { p with val := v, changed := true } := by
  induction pl with
  | nil => cases h
  | cons q qs ih =>
    simp only [get?, List.find?_cons] at h
    simp only [get?, set, List.map_cons, List.find?_cons]
    cases hq : (q.key == k)
    · rw [hq] at h
      simp only [Bool.false_eq_true, ↓reduceIte, hq]
      exact ih h
    · rw [hq] at h
      cases h
      simp only [↓reduceIte, hq]

theorem get?_set_other {pl : PList} {k k' : String} {v : PyVal} (hne : k ≠ k') : (pl.set k' v).get? k = pl.get? k := by
  induction pl with
  | nil => rfl
  | cons q qs ih =>
    simp only [get?, set, List.map_cons, List.find?_cons] at ih ⊢
    cases hq' : (q.key == k')
    · simp only [Bool.false_eq_true, ↓reduceIte]
      cases hk : (q.key == k)
      · exact ih
      · rfl
    · have hqk' : q.key = k' := by simpa using hq'
      have hk : (q.key == k) = false := by
        have : q.key ≠ k := by rw [hqk']; exact fun h => hne h.symm
        simpa using this
      simp only [↓reduceIte, hk]
      exact ih

theorem lookup_none_of_not_mem {α : Type} {l : List (String × α)} {k : String} (h : k ∉ l.map (·.1)) : l.lookup k = none := by
  induction l with
  | nil => rfl
  | cons a as ih =>
    obtain ⟨a1, a2⟩ := a
    simp only [List.map_cons, List.mem_cons, not_or] at h
    have : (k == a1) = false := by simpa using h.1
    simp only [List.lookup, this]
    exact ih h.2

theorem val_set_other {pl : PList} {k k' : String} {v : PyVal} (hne : k ≠ k') : (pl.set k' v).val k = pl.val k := by
  simp [val, get?_set_other hne]

theorem read_of_mem {pl : PList} {k : String} (h : k ∈ pl.keys) : pl.read k = .ok (pl.val k) := by
  have := (get?_isSome pl k).2 h
  unfold read val
  cases hg : pl.get? k with
  | none => rw [hg] at this; cases this
  | some p => rfl

/-- value the dictionary `ups` leaves under key `k` when the default is `d` -/
def effective (ups : List (String × PyVal)) (k : String) (d : PyVal) : PyVal :=
  match ups.lookup k with
  | some v => if v.isNone then d else v
  | none => d

/-- invariant: keys already changed are exactly those the processed part of the dictionary set -/
theorem update_effect {ups : List (String × PyVal)} :
    ∀ {pl : PList}, (ups.map (·.1)).Nodup → (∀ kv ∈ ups, kv.1 ∈ pl.keys) →
      (∀ kv ∈ ups, ∀ p, pl.get? kv.1 = some p → p.changed = false) →
      ∃ pl', pl.update ups = .ok pl' ∧ ∀ k, pl'.val k = effective ups k (pl.val k) := by
  induction ups with
  | nil => intro pl _ _ _; exact ⟨pl, rfl, fun k => by simp [effective]⟩
  | cons kv rest ih =>
    intro pl hnd hknown hunch
    obtain ⟨k0, v0⟩ := kv
    have hnd' : (rest.map (·.1)).Nodup := (List.nodup_cons.1 (by simpa using hnd)).2
    have hnotin : k0 ∉ rest.map (·.1) := (List.nodup_cons.1 (by simpa using hnd)).1
    have hlk : rest.lookup k0 = none := lookup_none_of_not_mem hnotin
    have hk : k0 ∈ pl.keys := hknown (k0, v0) (List.mem_cons_self ..)
    obtain ⟨p, hp⟩ : ∃ p, pl.get? k0 = some p := by
      have := (get?_isSome pl k0).2 hk
      cases hg : pl.get? k0 with
      | none => rw [hg] at this; cases this
      | some p => exact ⟨p, rfl⟩
    have hpc : p.changed = false := hunch (k0, v0) (List.mem_cons_self ..) p hp
    unfold update
    by_cases hnone : v0.isNone = true
    · -- a read: nothing changes
      have hcall : pl.call k0 v0 = .ok (pl, p.val) := by simp [call, hp, hnone]
      rw [hcall]
      obtain ⟨pl', h1, h2⟩ := ih (pl := pl) hnd' (fun kv' h => hknown kv' (List.mem_cons_of_mem _ h))
        (fun kv' h => hunch kv' (List.mem_cons_of_mem _ h))
      refine ⟨pl', h1, fun k => ?_⟩
      rw [h2 k]
      simp only [effective, List.lookup_cons]
      by_cases hkk : k = k0
      · subst hkk
        simp [hlk, hnone]
      · have : (k == k0) = false := by simpa using hkk
        simp [this]
    · have hnone' : v0.isNone = false := by simpa using hnone
      have hcall : pl.call k0 v0 = .ok (pl.set k0 v0, v0) := by simp [call, hp, hnone', hpc]
      rw [hcall]
      obtain ⟨pl', h1, h2⟩ := ih (pl := pl.set k0 v0) hnd'
        (fun kv' h => by rw [keys_set]; exact hknown kv' (List.mem_cons_of_mem _ h))
        (fun kv' h q hq => by
          have hne : kv'.1 ≠ k0 := fun heq => hnotin (List.mem_map.2 ⟨kv', h, heq⟩)
          rw [get?_set_other hne] at hq
          exact hunch kv' (List.mem_cons_of_mem _ h) q hq)
      refine ⟨pl', h1, fun k => ?_⟩
      rw [h2 k]
      simp only [effective, List.lookup_cons]
      by_cases hkk : k = k0
      · subst hkk
        simp [hlk, hnone', val, get?_set_same hp]
      · have : (k == k0) = false := by simpa using hkk
        simp [this, val_set_other hkk]

end PList

end Dfols.Py

namespace Dfols.Py

/-! ### the checks -/

/-- the test holds (evaluates to `True` without raising) -/
def Test.holds (t : Test) : Bool :=
  match t.1 () with
  | .ok true => true
  | _ => false

theorem firstM_ok {ts : List Test} (h : ∀ t ∈ ts, ∃ b, t.1 () = .ok b) :
    firstM ts = .ok ((ts.find? Test.holds).map (·.2)) := by
  induction ts with
  | nil => rfl
  | cons t ts ih =>
    obtain ⟨b, hb⟩ := h t (List.mem_cons_self ..)
    have ih' := ih (fun t' ht' => h t' (List.mem_cons_of_mem _ ht'))
    unfold firstM
    cases b with
    | true => simp [hb, Test.holds]
    | false => simp [hb, Test.holds, ih']

/-- bad keys as a pure function (what `check_all_params` computes when every key has a table entry) -/
def badKeys (types : List (String × TypeEntry)) (pl : PList) (npt : F) : List String :=
  (pl.filter fun p => match types.lookup p.key with
                      | some te => !checkEntry te p.val npt
                      | none => false).map (·.key)

theorem checkAll_ok {types : List (String × TypeEntry)} {npt : F} :
    ∀ {pl : PList}, (∀ k ∈ pl.keys, (types.lookup k).isSome = true) → checkAll types pl npt = .ok (badKeys types pl npt) := by
  intro pl
  induction pl with
  | nil => intro _; rfl
  | cons p ps ih =>
    intro h
    have hp : (types.lookup p.key).isSome = true := h p.key (by simp [PList.keys])
    have ih' := ih (fun k hk => h k (by simp only [PList.keys, List.map_cons, List.mem_cons] at hk ⊢; exact Or.inr hk))
    cases hl : types.lookup p.key with
    | none => rw [hl] at hp; cases hp
    | some te =>
      simp only [checkAll, checkParam, hl, ih', badKeys, List.filter_cons]
      cases hc : checkEntry te p.val npt <;> simp

/-- a missing table entry makes `check_all_params` hit `assert False` -/
theorem checkAll_missing {types : List (String × TypeEntry)} {npt : F} :
    ∀ {pl : PList}, (∃ k ∈ pl.keys, types.lookup k = none) → ∃ e, checkAll types pl npt = .error e := by
  intro pl
  induction pl with
  | nil => intro h; obtain ⟨k, hk, _⟩ := h; cases hk
  | cons p ps ih =>
    intro h
    cases hl : types.lookup p.key with
    | none => exact ⟨.assertionError, by simp [checkAll, checkParam, hl]⟩
    | some te =>
      obtain ⟨k, hk, hnone⟩ := h
      simp only [PList.keys, List.map_cons, List.mem_cons] at hk
      rcases hk with rfl | hk
      · rw [hl] at hnone; cases hnone
      · obtain ⟨e, he⟩ := ih ⟨k, hk, hnone⟩
        exact ⟨e, by simp [checkAll, checkParam, hl, he]⟩

/-! #### option checks -/

def optionKeys : List String :=
  ["growing.safety.full_geom_step", "growing.safety.reduce_delta", "growing.full_rank.use_full_rank_interp",
   "growing.perturb_trust_region_step", "noise.quit_on_noise_level", "noise.multiplicative_noise_level",
   "noise.additive_noise_level", "init.run_in_parallel", "init.random_initial_directions", "growing.reset_rho",
   "growing.reset_delta"]

/-- solver.py:1054-1083 as a list of (condition, message) in order -/
def optionConds (pl : PList) (bad : List String) : List (Bool × Msg) :=
  [ (!bad.isEmpty, .badParams bad),
    ((pl.val "growing.safety.full_geom_step").truthy && (pl.val "growing.safety.reduce_delta").truthy, .safetyBoth),
    ((pl.val "growing.full_rank.use_full_rank_interp").truthy && (pl.val "growing.perturb_trust_region_step").truthy, .growingBoth),
    ((pl.val "noise.quit_on_noise_level").truthy && !(pl.val "noise.multiplicative_noise_level").isNone
        && !(pl.val "noise.additive_noise_level").isNone, .noiseBoth),
    ((pl.val "init.run_in_parallel").truthy && !(pl.val "init.random_initial_directions").truthy, .parallelCoord),
    ((pl.val "growing.reset_rho").truthy && !(pl.val "growing.reset_delta").truthy, .resetRho) ]

theorem bothTruthy_ok {pl : PList} {a b : String} (ha : a ∈ pl.keys) (hb : b ∈ pl.keys) :
    bothTruthy pl a b = .ok ((pl.val a).truthy && (pl.val b).truthy) := by
  unfold bothTruthy
  rw [PList.read_of_mem ha, PList.read_of_mem hb]
  dsimp only
  cases h : (pl.val a).truthy <;> simp

theorem truthyAndNot_ok {pl : PList} {a b : String} (ha : a ∈ pl.keys) (hb : b ∈ pl.keys) :
    truthyAndNot pl a b = .ok ((pl.val a).truthy && !(pl.val b).truthy) := by
  unfold truthyAndNot
  rw [PList.read_of_mem ha, PList.read_of_mem hb]
  dsimp only
  cases h : (pl.val a).truthy <;> simp

/-- a parameter is marked changed only after a non-`None` value was stored (reads never mark) -/
def PList.Inv (pl : PList) : Prop := ∀ p ∈ pl, p.changed = true → p.val.isNone = false

theorem PList.inv_of_unchanged {pl : PList} (h : ∀ p ∈ pl, p.changed = false) : pl.Inv := by
  intro p hp hc; rw [h p hp] at hc; cases hc

theorem PList.inv_set {pl : PList} {k : String} {v : PyVal} (h : pl.Inv) (hv : v.isNone = false) : (pl.set k v).Inv := by
  intro p hp hc
  simp only [PList.set, List.mem_map] at hp
  obtain ⟨q, hq, rfl⟩ := hp
  split
  · exact hv
  · next hne =>
    simp only [hne, Bool.false_eq_true, ↓reduceIte] at hc
    exact h q hq hc

theorem PList.inv_call {pl pl' : PList} {k : String} {v r : PyVal} (h : pl.Inv) (hc : pl.call k v = .ok (pl', r)) : pl'.Inv := by
  unfold PList.call at hc
  split at hc
  · cases hc
  · split at hc
    · cases hc; exact h
    · next hn =>
      split at hc
      · cases hc
      · cases hc; exact PList.inv_set h (by simpa using hn)

theorem PList.inv_update {ups : List (String × PyVal)} : ∀ {pl pl' : PList}, pl.Inv → pl.update ups = .ok pl' → pl'.Inv := by
  induction ups with
  | nil => intro pl pl' h hu; cases hu; exact h
  | cons kv rest ih =>
    intro pl pl' h hu
    unfold PList.update at hu
    split at hu
    · cases hu
    · next pl1 r he => exact ih (PList.inv_call h he) hu

theorem PList.find_mem {pl : PList} {k : String} {p : Param} (h : pl.get? k = some p) : p ∈ pl := List.mem_of_find?_eq_some h

theorem noiseStep_ok {pl : PList} (hinv : pl.Inv)
    (hq : "noise.quit_on_noise_level" ∈ pl.keys) (hm : "noise.multiplicative_noise_level" ∈ pl.keys)
    (ha : "noise.additive_noise_level" ∈ pl.keys) :
    ∃ pl', noiseStep pl = .ok ((pl.val "noise.quit_on_noise_level").truthy && !(pl.val "noise.multiplicative_noise_level").isNone
                                && !(pl.val "noise.additive_noise_level").isNone, pl') ∧
      pl'.keys = pl.keys ∧ ∀ k, k ≠ "noise.additive_noise_level" → pl'.val k = pl.val k := by
  unfold noiseStep
  rw [PList.read_of_mem hq, PList.read_of_mem hm, PList.read_of_mem ha]
  dsimp only
  cases hqt : (pl.val "noise.quit_on_noise_level").truthy
  · exact ⟨pl, by simp, rfl, fun _ _ => rfl⟩
  · cases hmu : (pl.val "noise.multiplicative_noise_level").isNone
    · exact ⟨pl, by simp, rfl, fun _ _ => rfl⟩
    · cases had : (pl.val "noise.additive_noise_level").isNone
      · exact ⟨pl, by simp, rfl, fun _ _ => rfl⟩
      · -- both None: the additive level is set to 0.0; it cannot have been changed before (it is still None)
        obtain ⟨p, hp⟩ : ∃ p, pl.get? "noise.additive_noise_level" = some p := by
          have := (PList.get?_isSome pl _).2 ha
          cases hg : pl.get? "noise.additive_noise_level" with
          | none => rw [hg] at this; cases this
          | some p => exact ⟨p, rfl⟩
        have hpv : p.val.isNone = true := by simpa [PList.val, hp] using had
        have hpc : p.changed = false := by
          cases hc : p.changed
          · rfl
          · have := hinv p (PList.find_mem hp) hc; rw [hpv] at this; cases this
        have hcall : pl.call "noise.additive_noise_level" zeroF = .ok (pl.set "noise.additive_noise_level" zeroF, zeroF) := by
          simp [PList.call, hp, hpc, zeroF, PyVal.isNone]
        refine ⟨pl.set "noise.additive_noise_level" zeroF, by simp [hcall], PList.keys_set _ _ _, fun k hk => PList.val_set_other hk⟩

theorem optionChecks_ok {pl : PList} (bad : List String) (hinv : pl.Inv) (hk : ∀ k ∈ optionKeys, k ∈ pl.keys) :
    ∃ pl', optionChecks pl bad = .ok (((optionConds pl bad).find? (·.1)).map (·.2), pl') ∧ pl'.keys = pl.keys := by
  have k1 := hk "growing.safety.full_geom_step" (by decide)
  have k2 := hk "growing.safety.reduce_delta" (by decide)
  have k3 := hk "growing.full_rank.use_full_rank_interp" (by decide)
  have k4 := hk "growing.perturb_trust_region_step" (by decide)
  have k5 := hk "noise.quit_on_noise_level" (by decide)
  have k6 := hk "noise.multiplicative_noise_level" (by decide)
  have k7 := hk "noise.additive_noise_level" (by decide)
  have k8 := hk "init.run_in_parallel" (by decide)
  have k9 := hk "init.random_initial_directions" (by decide)
  have k10 := hk "growing.reset_rho" (by decide)
  have k11 := hk "growing.reset_delta" (by decide)
  obtain ⟨pl', hn, hkeys, hvals⟩ := noiseStep_ok hinv k5 k6 k7
  have v8 : pl'.val "init.run_in_parallel" = pl.val "init.run_in_parallel" := hvals _ (by decide)
  have v9 : pl'.val "init.random_initial_directions" = pl.val "init.random_initial_directions" := hvals _ (by decide)
  have v10 : pl'.val "growing.reset_rho" = pl.val "growing.reset_rho" := hvals _ (by decide)
  have v11 : pl'.val "growing.reset_delta" = pl.val "growing.reset_delta" := hvals _ (by decide)
  have t1 := truthyAndNot_ok (pl := pl') (a := "init.run_in_parallel") (b := "init.random_initial_directions")
    (by rw [hkeys]; exact k8) (by rw [hkeys]; exact k9)
  have t2 := truthyAndNot_ok (pl := pl') (a := "growing.reset_rho") (b := "growing.reset_delta")
    (by rw [hkeys]; exact k10) (by rw [hkeys]; exact k11)
  rw [v8, v9] at t1
  rw [v10, v11] at t2
  unfold optionChecks optionConds
  rw [bothTruthy_ok k1 k2, bothTruthy_ok k3 k4, hn]
  cases h0 : bad.isEmpty
  · exact ⟨pl, by simp, rfl⟩
  · cases h1 : ((pl.val "growing.safety.full_geom_step").truthy && (pl.val "growing.safety.reduce_delta").truthy)
    · cases h2 : ((pl.val "growing.full_rank.use_full_rank_interp").truthy && (pl.val "growing.perturb_trust_region_step").truthy)
      · cases h3 : ((pl.val "noise.quit_on_noise_level").truthy && !(pl.val "noise.multiplicative_noise_level").isNone
                      && !(pl.val "noise.additive_noise_level").isNone)
        · cases h4 : ((pl.val "init.run_in_parallel").truthy && !(pl.val "init.random_initial_directions").truthy)
          · cases h5 : ((pl.val "growing.reset_rho").truthy && !(pl.val "growing.reset_delta").truthy)
            · exact ⟨pl', by simp [t1, t2, h4, h5], hkeys⟩
            · exact ⟨pl', by simp [t1, t2, h4, h5], hkeys⟩
          · exact ⟨pl', by simp [t1, h4], hkeys⟩
        · exact ⟨pl', by simp, hkeys⟩
      · exact ⟨pl, by simp, rfl⟩
    · exact ⟨pl, by simp, rfl⟩

end Dfols.Py

namespace Dfols.Py

/-! ### argument checks on numeric arguments -/

theorem Test.holds_of_ok {t : Test} {b : Bool} (h : t.1 () = .ok b) : t.holds = b := by
  unfold Test.holds; rw [h]; cases b <;> rfl

/-- the arguments that are compared are numbers (`bool`/`int`/`float`); `lh` only when it is looked at -/
structure Eff.Numeric (e : Eff) : Prop where
  lh : e.hasH = true → e.lh.isNone = false → e.lh.num?.isSome = true
  npt : e.npt.num?.isSome = true
  rhobeg : e.rhobeg.num?.isSome = true
  rhoend : e.rhoend.num?.isSome = true
  maxfun : e.maxfun.num?.isSome = true

def Eff.lhF (e : Eff) : F := e.lh.num?.getD .nan
def Eff.nptF (e : Eff) : F := e.npt.num?.getD .nan
def Eff.rhobegF (e : Eff) : F := e.rhobeg.num?.getD .nan
def Eff.rhoendF (e : Eff) : F := e.rhoend.num?.getD .nan
def Eff.maxfunF (e : Eff) : F := e.maxfun.num?.getD .nan

/-- solver.py:1013-1046 as (condition, message) pairs over the numeric values -/
def Eff.argConds (e : Eff) : List (Bool × Msg) :=
  [ (e.hasH && !e.hasProx, .proxMissing),
    (e.hasH && e.lh.isNone, .lhMissing),
    (e.hasH && !e.lh.isNone && F.le e.lhF (.fin 0), .lhNonpos),
    (F.lt e.nptF (F.ofInt ((e.n : Int) + 1)), .nptSmall),
    (F.le e.rhobegF (.fin 0), .rhobegNonpos),
    (F.le e.rhoendF (.fin 0), .rhoendNonpos),
    (F.le e.rhobegF e.rhoendF, .rhobegLeRhoend),
    (F.le e.maxfunF (F.ofInt 0), .maxfunNonpos),
    (e.x0shape != [e.n], .x0NotVector),
    (e.x0shape != e.xl, .xlShape),
    (e.x0shape != e.xu, .xuShape),
    (F.lt e.gap (F.dbl e.rhobegF), .gapSmall) ]

theorem isSome_num {v : PyVal} (h : v.num?.isSome = true) : ∃ x, v.num? = some x := by
  cases hv : v.num? with
  | none => rw [hv] at h; cases h
  | some x => exact ⟨x, rfl⟩

theorem argTests_spec (e : Eff) (h : e.Numeric) :
    (∀ t ∈ argTests e, ∃ b, t.1 () = .ok b) ∧ (argTests e).map (fun t => (t.holds, t.2)) = e.argConds := by
  obtain ⟨npt, hnpt⟩ := isSome_num h.npt
  obtain ⟨rb, hrb⟩ := isSome_num h.rhobeg
  obtain ⟨re, hre⟩ := isSome_num h.rhoend
  obtain ⟨mf, hmf⟩ := isSome_num h.maxfun
  have hz : zeroF.num? = some (.fin 0) := rfl
  have hi : ∀ i : Int, (PyVal.int i).num? = some (F.ofInt i) := fun _ => rfl
  -- the lh test
  have hlh : ∃ b, (if (e.hasH && !e.lh.isNone) = true then pyLe e.lh zeroF else Except.ok false) = .ok b ∧
      b = (e.hasH && !e.lh.isNone && F.le e.lhF (.fin 0)) := by
    cases hH : e.hasH
    · exact ⟨false, by simp, by simp⟩
    · cases hN : e.lh.isNone
      · obtain ⟨x, hx⟩ := isSome_num (h.lh hH hN)
        exact ⟨F.le x (.fin 0), by simp [pyLe, hx, hz], by simp [Eff.lhF, hx]⟩
      · exact ⟨false, by simp, by simp⟩
  obtain ⟨blh, hblh, hblh'⟩ := hlh
  constructor
  · intro t ht
    simp only [argTests, List.mem_cons, List.mem_nil_iff, or_false] at ht
    rcases ht with rfl | rfl | rfl | rfl | rfl | rfl | rfl | rfl | rfl | rfl | rfl | rfl
    · exact ⟨_, rfl⟩
    · exact ⟨_, rfl⟩
    · exact ⟨blh, hblh⟩
    · exact ⟨F.lt npt (F.ofInt ((e.n : Int) + 1)), by simp [pyLt, hnpt, hi]⟩
    · exact ⟨F.le rb (.fin 0), by simp [pyLe, hrb, hz]⟩
    · exact ⟨F.le re (.fin 0), by simp [pyLe, hre, hz]⟩
    · exact ⟨F.le rb re, by simp [pyLe, hrb, hre]⟩
    · exact ⟨F.le mf (F.ofInt 0), by simp [pyLe, hmf, hi]⟩
    · exact ⟨_, rfl⟩
    · exact ⟨_, rfl⟩
    · exact ⟨_, rfl⟩
    · exact ⟨F.lt e.gap (F.dbl rb), by simp [gapLt, hrb]⟩
  · simp only [argTests, Eff.argConds, List.map_cons, List.map_nil]
    have e1 : Test.holds (fun _ => Except.ok (e.hasH && !e.hasProx), Msg.proxMissing) = (e.hasH && !e.hasProx) := Test.holds_of_ok rfl
    have e2 : Test.holds (fun _ => Except.ok (e.hasH && e.lh.isNone), Msg.lhMissing) = (e.hasH && e.lh.isNone) := Test.holds_of_ok rfl
    have e3 : Test.holds (fun _ => if (e.hasH && !e.lh.isNone) = true then pyLe e.lh zeroF else Except.ok false, Msg.lhNonpos)
        = (e.hasH && !e.lh.isNone && F.le e.lhF (.fin 0)) := by rw [← hblh']; exact Test.holds_of_ok hblh
    have e4 : Test.holds (fun _ => pyLt e.npt (.int ((e.n : Int) + 1)), Msg.nptSmall) = F.lt e.nptF (F.ofInt ((e.n : Int) + 1)) :=
      Test.holds_of_ok (by simp [pyLt, hnpt, hi, Eff.nptF])
    have e5 : Test.holds (fun _ => pyLe e.rhobeg zeroF, Msg.rhobegNonpos) = F.le e.rhobegF (.fin 0) :=
      Test.holds_of_ok (by simp [pyLe, hrb, hz, Eff.rhobegF])
    have e6 : Test.holds (fun _ => pyLe e.rhoend zeroF, Msg.rhoendNonpos) = F.le e.rhoendF (.fin 0) :=
      Test.holds_of_ok (by simp [pyLe, hre, hz, Eff.rhoendF])
    have e7 : Test.holds (fun _ => pyLe e.rhobeg e.rhoend, Msg.rhobegLeRhoend) = F.le e.rhobegF e.rhoendF :=
      Test.holds_of_ok (by simp [pyLe, hrb, hre, Eff.rhobegF, Eff.rhoendF])
    have e8 : Test.holds (fun _ => pyLe e.maxfun (.int 0), Msg.maxfunNonpos) = F.le e.maxfunF (F.ofInt 0) :=
      Test.holds_of_ok (by simp [pyLe, hmf, hi, Eff.maxfunF])
    have e9 : Test.holds (fun _ => Except.ok (e.x0shape != [e.n]), Msg.x0NotVector) = (e.x0shape != [e.n]) := Test.holds_of_ok rfl
    have e10 : Test.holds (fun _ => Except.ok (e.x0shape != e.xl), Msg.xlShape) = (e.x0shape != e.xl) := Test.holds_of_ok rfl
    have e11 : Test.holds (fun _ => Except.ok (e.x0shape != e.xu), Msg.xuShape) = (e.x0shape != e.xu) := Test.holds_of_ok rfl
    have e12 : Test.holds (fun _ => gapLt e.gap e.rhobeg, Msg.gapSmall) = F.lt e.gap (F.dbl e.rhobegF) :=
      Test.holds_of_ok (by simp [gapLt, hrb, Eff.rhobegF])
    rw [e1, e2, e3, e4, e5, e6, e7, e8, e9, e10, e11, e12]

theorem find_holds (ts : List Test) :
    (ts.find? Test.holds).map (·.2) = ((ts.map fun t => (t.holds, t.2)).find? (·.1)).map (·.2) := by
  induction ts with
  | nil => rfl
  | cons t ts ih =>
    simp only [List.find?_cons, List.map_cons]
    cases t.holds
    · exact ih
    · rfl

/-- every documented condition, in the order the code tests them -/
def Eff.conds (T : Tables) (e : Eff) : List (Bool × Msg) :=
  e.argConds ++ optionConds e.pl (badKeys T.types e.pl e.nptF)

/-- `solve`'s checks, on numeric arguments and a well-formed parameter list, never raise and
    report exactly the first documented condition that holds -/
theorem checkInputs_ok (T : Tables) (e : Eff) (hn : e.Numeric) (hinv : e.pl.Inv)
    (hopt : ∀ k ∈ optionKeys, k ∈ e.pl.keys) (hty : ∀ k ∈ e.pl.keys, (T.types.lookup k).isSome = true) :
    ∃ pl', checkInputs T e = .ok (((e.conds T).find? (·.1)).map (·.2), pl') ∧ pl'.keys = e.pl.keys := by
  obtain ⟨htot, hmap⟩ := argTests_spec e hn
  obtain ⟨npt, hnpt⟩ := isSome_num hn.npt
  obtain ⟨mf, hmf⟩ := isSome_num hn.maxfun
  have hnptF : e.nptF = npt := by simp [Eff.nptF, hnpt]
  unfold checkInputs Eff.conds
  rw [firstM_ok htot, find_holds, hmap, List.find?_append]
  simp only [pyLe, hmf, hnpt, checkAll_ok hty, hnptF]
  cases hf : e.argConds.find? (·.1) with
  | some c => exact ⟨e.pl, by simp, rfl⟩
  | none =>
    obtain ⟨pl', h1, h2⟩ := optionChecks_ok (badKeys T.types e.pl npt) hinv hopt
    exact ⟨pl', by simp [h1], h2⟩

end Dfols.Py

namespace Dfols.Py

/-! ### `prepare` on the documented domain -/

/-- not one of the two situations the model declines (0-d `x0`; `scaling_within_bounds` effective with mis-shaped arrays) -/
def Args.modelled (a : Args) : Bool :=
  match a.x0shape with
  | [] => false
  | n :: _ => !a.scal || (a.x0shape == [n] && a.xlShape == some [n] && a.xuShape == some [n])

def Args.Modelled (a : Args) : Prop := a.modelled = true

theorem Args.modelled_cons {a : Args} {n : Nat} {rest : List Nat} (hx : a.x0shape = n :: rest) (hm : a.Modelled) :
    (a.scal && !(n :: rest == [n] && a.xlShape == some [n] && a.xuShape == some [n])) = false := by
  unfold Args.Modelled Args.modelled at hm
  rw [hx] at hm
  cases hs : a.scal
  · simp
  · simp only [hs, Bool.not_true, Bool.false_or] at hm
    rw [hm]; rfl

/-- the documented argument types: `npt`, `maxfun` ints (or omitted), `rhobeg` a number (or omitted), `rhoend` a number,
    `lh` a number whenever it is looked at, `user_params` a dictionary (no repeated key) of known keys -/
structure Args.InDomain (T : Tables) (a : Args) : Prop where
  modelled : a.Modelled
  lh : a.hasH = true → a.lh.isNone = false → a.lh.num?.isSome = true
  npt : a.npt = .none ∨ ∃ i, a.npt = .int i
  maxfun : a.maxfun = .none ∨ ∃ i, a.maxfun = .int i
  rhobeg : a.rhobeg = .none ∨ a.rhobeg.num?.isSome = true
  rhoend : a.rhoend.num?.isSome = true
  known : ∀ kv ∈ a.userParams.getD [], kv.1 ∈ T.defaults.map (·.1)
  dict : ((a.userParams.getD []).map (·.1)).Nodup

def Args.n (a : Args) : Nat := a.x0shape.headD 0

/-- the sizes `ParameterList.__init__` receives on the documented domain -/
def Args.sizes (a : Args) : Sizes :=
  { n := a.n,
    npt := match a.npt with | .int i => i | _ => (a.n : Int) + 1,
    maxfun := match a.maxfun with | .int i => i | _ => min (100 * ((a.n : Int) + 1)) 1000,
    noise := a.noise }

theorem get?_init_unchanged {d : List (String × DExpr)} {s : Sizes} {k : String} {p : Param}
    (h : (PList.init d s).get? k = some p) : p.changed = false :=
  PList.unchanged_init d s p (PList.find_mem h)

/-- on the documented domain the preparation succeeds; the parameter list holds, under every key, the user's value if
    one (other than `None`) was given and the default otherwise -/
theorem prepare_ok (T : Tables) (a : Args) (h : a.InDomain T) :
    ∃ pl, prepare T a = .ok (mkEff a a.n pl) ∧ (mkEff a a.n pl).Numeric ∧ pl.Inv ∧ pl.keys = T.defaults.map (·.1) ∧
      (∀ k, pl.val k = PList.effective (a.userParams.getD []) k ((PList.init T.defaults a.sizes).val k)) := by
  have hm := h.modelled
  cases hx : a.x0shape with
  | nil => simp [Args.Modelled, Args.modelled, hx] at hm
  | cons n rest =>
    have hn : a.n = n := by simp [Args.n, hx]
    obtain ⟨nptI, hnptI, hnptS⟩ : ∃ i, pyInt (a.effNpt n) = .ok i ∧ a.sizes.npt = i := by
      rcases h.npt with hnone | ⟨i, hi⟩
      · exact ⟨(n : Int) + 1, by simp [Args.effNpt, hnone, PyVal.isNone, pyInt], by simp [Args.sizes, hnone, hn]⟩
      · exact ⟨i, by simp [Args.effNpt, hi, PyVal.isNone, pyInt], by simp [Args.sizes, hi]⟩
    obtain ⟨mfI, hmfI, hmfS⟩ : ∃ i, pyInt (a.effMaxfun n) = .ok i ∧ a.sizes.maxfun = i := by
      rcases h.maxfun with hnone | ⟨i, hi⟩
      · exact ⟨min (100 * ((n : Int) + 1)) 1000, by simp [Args.effMaxfun, hnone, PyVal.isNone, pyInt], by simp [Args.sizes, hnone, hn]⟩
      · exact ⟨i, by simp [Args.effMaxfun, hi, PyVal.isNone, pyInt], by simp [Args.sizes, hi]⟩
    have hsz : (⟨(n : Int), nptI, mfI, a.noise⟩ : Sizes) = a.sizes := by
      rw [← hnptS, ← hmfS]; simp [Args.sizes, hn]
    obtain ⟨pl, hup, hval⟩ := PList.update_effect (pl := PList.init T.defaults a.sizes) (ups := a.userParams.getD []) h.dict
      (fun kv hkv => by rw [PList.keys_init]; exact h.known kv hkv)
      (fun kv _ p hp => get?_init_unchanged hp)
    have hkeys : pl.keys = T.defaults.map (·.1) := by rw [PList.update_keys hup, PList.keys_init]
    have hinv : pl.Inv := PList.inv_update (PList.inv_of_unchanged (PList.unchanged_init _ _)) hup
    have hnotun := Args.modelled_cons hx hm
    refine ⟨pl, ?_, ⟨?_, ?_, ?_, ?_, ?_⟩, hinv, hkeys, hval⟩
    · unfold prepare
      simp only [hx, hnotun, Bool.false_eq_true, ↓reduceIte, hnptI, hmfI, hsz, hup, hn]
    · exact h.lh
    · rcases h.npt with hnone | ⟨i, hi⟩ <;> simp [mkEff, Args.effNpt, *, PyVal.isNone, PyVal.num?]
    · rcases h.rhobeg with hnone | hnum
      · simp [mkEff, Args.effRhobeg, hnone, PyVal.isNone, PyVal.num?]
      · have : a.rhobeg.isNone = false := by
          cases hr : a.rhobeg <;> simp_all [PyVal.num?, PyVal.isNone]
        simp [mkEff, Args.effRhobeg, this, hnum]
    · exact h.rhoend
    · rcases h.maxfun with hnone | ⟨i, hi⟩ <;> simp [mkEff, Args.effMaxfun, *, PyVal.isNone, PyVal.num?]

end Dfols.Py
