/-
  Helper lemmas about the `Validate` model (no Mathlib needed).
-/
import DfolsVerif.Book.Validate

namespace Dfols.Py

/-! ### ParameterList -/

namespace PList

def keys (pl : PList) : List String := pl.map (·.key)

/-- value stored under `key` (`None` if absent — only used where the key is known to be present) -/
def val (pl : PList) (key : String) : PyVal := ((pl.get? key).map (·.val)).getD .none

theorem keys_init (d : List (String × DExpr)) (s : Sizes) : (init d s).keys = d.map (·.1) := by
  simp [keys, init, List.map_map, Function.comp_def]

theorem unchanged_init (d : List (String × DExpr)) (s : Sizes) : ∀ p ∈ init d s, p.changed = false := by
  intro p hp
  simp only [init, List.mem_map] at hp
  obtain ⟨kd, _, rfl⟩ := hp
  rfl

theorem keys_set (pl : PList) (k : String) (v : PyVal) : (pl.set k v).keys = pl.keys := by
  induction pl with
  | nil => rfl
  | cons q qs ih =>
    simp only [keys, set, List.map_cons] at ih ⊢
    rw [ih]
    split <;> rfl

theorem get?_isSome (pl : PList) (k : String) : (pl.get? k).isSome = true ↔ k ∈ pl.keys := by
  simp only [get?, keys, List.find?_isSome, List.mem_map, beq_iff_eq]

theorem get?_eq_none (pl : PList) (k : String) : pl.get? k = none ↔ k ∉ pl.keys := by
  rw [← get?_isSome]
  cases pl.get? k <;> simp

theorem get?_key {pl : PList} {k : String} {p : Param} (h : pl.get? k = some p) : p.key = k := by
  have := List.find?_some h
  simpa using this

/-- every error of `params(key, new_value)` is a `ValueError` -/
theorem call_error {pl : PList} {k : String} {v : PyVal} {e : Exc} (h : pl.call k v = .error e) : e = .valueError := by
  unfold call at h
  split at h
  · cases h; rfl
  · split at h
    · cases h
    · split at h
      · cases h; rfl
      · cases h

theorem call_keys {pl pl' : PList} {k : String} {v r : PyVal} (h : pl.call k v = .ok (pl', r)) : pl'.keys = pl.keys := by
  unfold call at h
  split at h
  · cases h
  · split at h
    · cases h; rfl
    · split at h
      · cases h
      · cases h; exact keys_set _ _ _

theorem call_unknown {pl : PList} {k : String} (v : PyVal) (h : k ∉ pl.keys) : pl.call k v = .error .valueError := by
  unfold call
  rw [(get?_eq_none pl k).2 h]

theorem update_error {ups : List (String × PyVal)} : ∀ {pl : PList} {e : Exc}, pl.update ups = .error e → e = .valueError := by
  induction ups with
  | nil => intro pl e h; cases h
  | cons kv rest ih =>
    intro pl e h
    unfold update at h
    split at h
    · next e' he => cases h; exact call_error he
    · exact ih h

theorem update_keys {ups : List (String × PyVal)} : ∀ {pl pl' : PList}, pl.update ups = .ok pl' → pl'.keys = pl.keys := by
  induction ups with
  | nil => intro pl pl' h; cases h; rfl
  | cons kv rest ih =>
    intro pl pl' h
    unfold update at h
    split at h
    · cases h
    · next pl1 r he => rw [ih h, call_keys he]

/-- an unknown key anywhere in `user_params` makes the update loop raise (`ValueError`, by `update_error`) -/
theorem update_unknown {ups : List (String × PyVal)} : ∀ {pl : PList}, (∃ kv ∈ ups, kv.1 ∉ pl.keys) → ∃ e, pl.update ups = .error e := by
  induction ups with
  | nil => intro pl h; obtain ⟨kv, hkv, _⟩ := h; cases hkv
  | cons kv rest ih =>
    intro pl h
    unfold update
    split
    · next e he => exact ⟨e, rfl⟩
    · next pl1 r he =>
      obtain ⟨kv', hmem, hnot⟩ := h
      rcases List.mem_cons.1 hmem with rfl | hrest
      · rw [call_unknown _ hnot] at he; cases he
      · exact ih ⟨kv', hrest, by rw [call_keys he]; exact hnot⟩

/-! #### the effect of `user_params`: dictionary semantics, `None` = leave the default -/

theorem get?_set_same {pl : PList} {k : String} {v : PyVal} {p : Param} (h : pl.get? k = some p) :
    (pl.set k v).get? k = some { p with val := v, changed := true } := by
  induction pl with
  | nil => cases h
  | cons q qs ih =>
    simp only [get?, List.find?_cons] at h
    simp only [get?, set, List.map_cons, List.find?_cons]
    cases hq : (q.key == k)
    · rw [hq] at h
      simp only [Bool.false_eq_true, ↓reduceIte, hq]
      exact ih h
    · rw [hq] at h
      cases h
      simp only [↓reduceIte, hq]

theorem get?_set_other {pl : PList} {k k' : String} {v : PyVal} (hne : k ≠ k') : (pl.set k' v).get? k = pl.get? k := by
  induction pl with
  | nil => rfl
  | cons q qs ih =>
    simp only [get?, set, List.map_cons, List.find?_cons] at ih ⊢
    cases hq' : (q.key == k')
    · simp only [Bool.false_eq_true, ↓reduceIte]
      cases hk : (q.key == k)
      · exact ih
      · rfl
    · have hqk' : q.key = k' := by simpa using hq'
      have hk : (q.key == k) = false := by
        have : q.key ≠ k := by rw [hqk']; exact fun h => hne h.symm
        simpa using this
      simp only [↓reduceIte, hk]
      exact ih

theorem lookup_none_of_not_mem {α : Type} {l : List (String × α)} {k : String} (h : k ∉ l.map (·.1)) : l.lookup k = none := by
  induction l with
  | nil => rfl
  | cons a as ih =>
    obtain ⟨a1, a2⟩ := a
    simp only [List.map_cons, List.mem_cons, not_or] at h
    have : (k == a1) = false := by simpa using h.1
    simp only [List.lookup, this]
    exact ih h.2

theorem val_set_other {pl : PList} {k k' : String} {v : PyVal} (hne : k ≠ k') : (pl.set k' v).val k = pl.val k := by
  simp [val, get?_set_other hne]

theorem read_of_mem {pl : PList} {k : String} (h : k ∈ pl.keys) : pl.read k = .ok (pl.val k) := by
  have := (get?_isSome pl k).2 h
  unfold read val
  cases hg : pl.get? k with
  | none => rw [hg] at this; cases this
  | some p => rfl

/-- value the dictionary `ups` leaves under key `k` when the default is `d` -/
def effective (ups : List (String × PyVal)) (k : String) (d : PyVal) : PyVal :=
  match ups.lookup k with
  | some v => if v.isNone then d else v
  | none => d

/-- invariant: keys already changed are exactly those the processed part of the dictionary set -/
theorem update_effect {ups : List (String × PyVal)} :
    ∀ {pl : PList}, (ups.map (·.1)).Nodup → (∀ kv ∈ ups, kv.1 ∈ pl.keys) →
      (∀ kv ∈ ups, ∀ p, pl.get? kv.1 = some p → p.changed = false) →
      ∃ pl', pl.update ups = .ok pl' ∧ ∀ k, pl'.val k = effective ups k (pl.val k) := by
  induction ups with
  | nil => intro pl _ _ _; exact ⟨pl, rfl, fun k => by simp [effective]⟩
  | cons kv rest ih =>
    intro pl hnd hknown hunch
    obtain ⟨k0, v0⟩ := kv
    have hnd' : (rest.map (·.1)).Nodup := (List.nodup_cons.1 (by simpa using hnd)).2
    have hnotin : k0 ∉ rest.map (·.1) := (List.nodup_cons.1 (by simpa using hnd)).1
    have hlk : rest.lookup k0 = none := lookup_none_of_not_mem hnotin
    have hk : k0 ∈ pl.keys := hknown (k0, v0) (List.mem_cons_self ..)
    obtain ⟨p, hp⟩ : ∃ p, pl.get? k0 = some p := by
      have := (get?_isSome pl k0).2 hk
      cases hg : pl.get? k0 with
      | none => rw [hg] at this; cases this
      | some p => exact ⟨p, rfl⟩
    have hpc : p.changed = false := hunch (k0, v0) (List.mem_cons_self ..) p hp
    unfold update
    by_cases hnone : v0.isNone = true
    · -- a read: nothing changes
      have hcall : pl.call k0 v0 = .ok (pl, p.val) := by simp [call, hp, hnone]
      rw [hcall]
      obtain ⟨pl', h1, h2⟩ := ih (pl := pl) hnd' (fun kv' h => hknown kv' (List.mem_cons_of_mem _ h))
        (fun kv' h => hunch kv' (List.mem_cons_of_mem _ h))
      refine ⟨pl', h1, fun k => ?_⟩
      rw [h2 k]
      simp only [effective, List.lookup_cons]
      by_cases hkk : k = k0
      · subst hkk
        simp [hlk, hnone]
      · have : (k == k0) = false := by simpa using hkk
        simp [this]
    · have hnone' : v0.isNone = false := by simpa using hnone
      have hcall : pl.call k0 v0 = .ok (pl.set k0 v0, v0) := by simp [call, hp, hnone', hpc]
      rw [hcall]
      obtain ⟨pl', h1, h2⟩ := ih (pl := pl.set k0 v0) hnd'
        (fun kv' h => by rw [keys_set]; exact hknown kv' (List.mem_cons_of_mem _ h))
        (fun kv' h q hq => by
          have hne : kv'.1 ≠ k0 := fun heq => hnotin (List.mem_map.2 ⟨kv', h, heq⟩)
          rw [get?_set_other hne] at hq
          exact hunch kv' (List.mem_cons_of_mem _ h) q hq)
      refine ⟨pl', h1, fun k => ?_⟩
      rw [h2 k]
      simp only [effective, List.lookup_cons]
      by_cases hkk : k = k0
      · subst hkk
        simp [hlk, hnone', val, get?_set_same hp]
      · have : (k == k0) = false := by simpa using hkk
        simp [this, val_set_other hkk]

end PList

end Dfols.Py
