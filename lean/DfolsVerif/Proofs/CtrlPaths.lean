/-
  Path theorems about the skeletons of the Controller methods that evaluate the objective (Gen/CtrlSkel.lean, regenerated from
  controller.py on every run; loops and `return` included): on EVERY execution — every outcome of every test, every number of
  iterations of every loop — an evaluated point is handed to `change_point` / `add_new_point` / `save_point` before the next
  evaluation and before the method returns, except on the excused paths.
-/
import DfolsVerif.Proofs.SkeletonL
import DfolsVerif.Gen.CtrlSkel

namespace Dfols
namespace CtrlPaths
open SkelL

/-- `pend`: evaluated, not yet stored; `dropped`: a second evaluation while one was pending; `excused`: the path went through
    `num_samples_run > 0` being false (nothing was evaluated) or through the failure of `choose_point_to_replace` called for
    the evaluated point (`linalg_error`); `par`: the documented parallel initialisation (`init.run_in_parallel`: all points are
    evaluated before any is stored — a recorded finding, C03/C04 `parallel-init`). -/
structure QS where
  pend : Bool
  excused : Bool
  dropped : Bool
  chose : Bool
  par : Bool
deriving DecidableEq, Repr

def mS : Mon QS := ⟨fun q a =>
  if a == "eval" then { q with pend := true, dropped := q.dropped || q.pend, chose := false }
  else if a == "chg" || a == "sav" || a == "adp" then { q with pend := false, chose := false }
  else if a == "F:num_samples_run > 0" then { q with excused := true, chose := false }
  else if a == "choose" then { q with chose := true }
  else if a == "T:linalg_error" then { q with excused := q.excused || (q.chose && q.pend), chose := false }
  else if a == "T:params('init.run_in_parallel')" || a == "T:params('init.run_in_parallel') and num_directions <= self.n()"
    then { q with par := true }
  else if a == "smp" then q
  else { q with chose := false }⟩

def q0 : QS := ⟨false, false, false, false, false⟩

def okS (q : QS) (_ : Ending) : Bool := q.par || (!q.dropped && (!q.pend || q.excused))

/-- stronger: methods without a parallel branch and without an excused path at all -/
def okStrict (q : QS) (_ : Ending) : Bool := !q.par && !q.dropped && !q.pend

theorem grow_all : allReach mS Gen.Ctrl.addNewDirectionWhileGrowing q0 okS = true := by decide +kernel
theorem geomstep_all : allReach mS Gen.Ctrl.geometryStep q0 okS = true := by decide +kernel
theorem checkfix_all : allReach mS Gen.Ctrl.checkAndFixGeometry q0 okStrict = true := by decide +kernel
theorem move_all : allReach mS Gen.Ctrl.moveFurthestPoints q0 okStrict = true := by decide +kernel
theorem momentum_all : allReach mS Gen.Ctrl.moveFurthestPointsMomentum q0 okS = true := by decide +kernel
theorem soft_all : allReach mS Gen.Ctrl.softRestart q0 okS = true := by decide +kernel
theorem coord_all : allReach mS Gen.Ctrl.initialiseCoordinateDirections q0 okS = true := by decide +kernel
theorem rand_all : allReach mS Gen.Ctrl.initialiseRandomDirections q0 okS = true := by decide +kernel

/-- the methods and their skeletons -/
def methods : List (String × Prog) :=
  [("add_new_direction_while_growing", Gen.Ctrl.addNewDirectionWhileGrowing), ("geometry_step", Gen.Ctrl.geometryStep),
   ("check_and_fix_geometry", Gen.Ctrl.checkAndFixGeometry), ("move_furthest_points", Gen.Ctrl.moveFurthestPoints),
   ("move_furthest_points_momentum", Gen.Ctrl.moveFurthestPointsMomentum), ("soft_restart", Gen.Ctrl.softRestart),
   ("initialise_coordinate_directions", Gen.Ctrl.initialiseCoordinateDirections),
   ("initialise_random_directions", Gen.Ctrl.initialiseRandomDirections)]

theorem no_drop {name : String} {p : Prog} (hm : (name, p) ∈ methods) {tr : List String} {e : Ending} (hx : Exec p tr e) :
    okS (mS.run q0 tr) e = true := by
  simp only [methods, List.mem_cons, Prod.mk.injEq, List.mem_nil_iff, or_false] at hm
  rcases hm with ⟨_, rfl⟩ | ⟨_, rfl⟩ | ⟨_, rfl⟩ | ⟨_, rfl⟩ | ⟨_, rfl⟩ | ⟨_, rfl⟩ | ⟨_, rfl⟩ | ⟨_, rfl⟩
  · exact all_paths mS _ q0 okS grow_all hx
  · exact all_paths mS _ q0 okS geomstep_all hx
  · have := all_paths mS _ q0 okStrict checkfix_all hx
    simp only [okStrict, Bool.and_eq_true, Bool.not_eq_true'] at this
    simp [okS, this.1.2, this.2]
  · have := all_paths mS _ q0 okStrict move_all hx
    simp only [okStrict, Bool.and_eq_true, Bool.not_eq_true'] at this
    simp [okS, this.1.2, this.2]
  · exact all_paths mS _ q0 okS momentum_all hx
  · exact all_paths mS _ q0 okS soft_all hx
  · exact all_paths mS _ q0 okS coord_all hx
  · exact all_paths mS _ q0 okS rand_all hx

/-! ### a geometry fix means an evaluation (closes the `did_fix_geom` case of `C18_src_no_stall`) -/

structure QG where
  geomstep : Bool
  eval : Bool
  chg : Bool
  retTrue : Bool
  retFalse : Bool
  retNone : Bool
  retExit : Bool
deriving DecidableEq, Repr

def mG : Mon QG := ⟨fun q a =>
  if a == "geomstep" then { q with geomstep := true }
  else if a == "eval" then { q with eval := true }
  else if a == "chg" then { q with chg := true }
  else if a == "ret:(True, exit_info)" then { q with retTrue := true }
  else if a == "ret:(False, None)" then { q with retFalse := true }
  else if a == "ret:None" then { q with retNone := true }
  else if a == "ret:exit_info" then { q with retExit := true }
  else q⟩

def qG0 : QG := ⟨false, false, false, false, false, false, false⟩

/-- `check_and_fix_geometry` ends by `return` only, with `(False, None)` or `(True, exit_info)`; it reports `True` only after
    calling `geometry_step` -/
theorem checkfix_geom : allReach mG Gen.Ctrl.checkAndFixGeometry qG0
    (fun q e => e == .ret && (q.retTrue != q.retFalse) && (!q.retTrue || q.geomstep) && (!q.retFalse || !q.geomstep)) = true := by
  decide +kernel

/-- `geometry_step` ends by `return` only; it returns `None` (no exit) only after it has evaluated the new point and put it into
    the model with `change_point` -/
theorem geomstep_evaluates : allReach mG Gen.Ctrl.geometryStep qG0
    (fun q e => e == .ret && (q.retNone != q.retExit) && (!q.retNone || (q.eval && q.chg))) = true := by
  decide +kernel

theorem checkfix_trace {tr : List String} {e : Ending} (hx : Exec Gen.Ctrl.checkAndFixGeometry tr e) :
    e = .ret ∧ ((mG.run qG0 tr).retTrue = true → (mG.run qG0 tr).geomstep = true) := by
  have h := all_paths mG _ qG0 _ checkfix_geom hx
  simp only [Bool.and_eq_true, beq_iff_eq, Bool.or_eq_true, Bool.not_eq_true'] at h
  refine ⟨h.1.1.1, fun ht => ?_⟩
  rcases h.1.2 with h1 | h1
  · rw [ht] at h1; exact absurd h1 (by simp)
  · exact h1

theorem geomstep_trace {tr : List String} {e : Ending} (hx : Exec Gen.Ctrl.geometryStep tr e) :
    e = .ret ∧ ((mG.run qG0 tr).retNone = true → (mG.run qG0 tr).eval = true ∧ (mG.run qG0 tr).chg = true) := by
  have h := all_paths mG _ qG0 _ geomstep_evaluates hx
  simp only [Bool.and_eq_true, beq_iff_eq, Bool.or_eq_true, Bool.not_eq_true'] at h
  refine ⟨h.1.1, fun ht => ?_⟩
  rcases h.2 with h1 | h1
  · rw [ht] at h1; exact absurd h1 (by simp)
  · exact h1

end CtrlPaths
end Dfols
