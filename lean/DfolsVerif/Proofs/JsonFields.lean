/-
  Theorems decided over the wiring tables of `OptimResults` that harness/gen_json.py regenerates from /repo's solver.py on
  every run (Gen/JsonFields.lean).  No reference copy: a source change that drops a key, reads one that is not written,
  passes a value to the wrong constructor position, or prints an attribute the constructor does not bind, makes these false.
-/
import DfolsVerif.Gen.JsonFields

namespace Dfols
namespace JsonFields

/-- where the value written under `key` by `to_dict` ends up after `from_dict`: the local variable it is read into, the
    position of that variable in the `OptimResults(...)` call, the constructor parameter at that position, the attribute
    the constructor assigns that parameter to — or the attribute set on the result after construction -/
def attrAfterRoundTrip (key : String) : Option String :=
  match Gen.fromDictReads.find? (fun r => r.1 == key) with
  | some (_, v, _) =>
    match Gen.fromDictCtor.idxOf? v with
    | some i =>
      match Gen.ctorParams[i]? with
      | some p => (Gen.ctorAssigns.find? (fun a => a.2 == p)).map (·.1)
      | none => none
    | none => none
  | none => (Gen.fromDictLate.find? (fun t => t.2.1 == key && t.2.2 == Gen.fromDictResultName)).map (·.1)

/-- **every attribute travels back to itself**: attribute `a` written under key `k` comes back as attribute `a` -/
theorem roundtrip_wiring : ∀ w ∈ Gen.toDictWrites, attrAfterRoundTrip w.1 = some w.2.1 := by decide +kernel

/-- `to_dict` writes and `from_dict` reads exactly the same keys, each written once; the constructor call in `from_dict`
    has one argument per constructor parameter, each local variable is used once -/
theorem same_keys :
    (∀ w ∈ Gen.toDictWrites, w.1 ∈ Gen.fromDictKeysRead) ∧
    (∀ k ∈ Gen.fromDictKeysRead, k ∈ Gen.toDictWrites.map (·.1)) ∧
    (Gen.toDictWrites.map (·.1)).Nodup ∧
    Gen.fromDictCtor.length = Gen.ctorParams.length ∧ Gen.fromDictCtor.Nodup ∧ Gen.ctorParams.Nodup ∧
    (Gen.ctorAssigns.map (·.1)).Nodup := by decide +kernel

/-- how a value is written and how it is read back belong together (these are the field kinds of the Lean record model:
    float arrays with `None`, the integer array of evaluation numbers, the float objective with `None → NaN`, plain
    integers and the message) -/
def pairedConversions : List (String × String) := [
  ("self.@.tolist() if self.@ is not None else None", "np.array(@, dtype=float) if @ is not None else None"),
  ("self.@.tolist() if self.@ is not None else None", "np.array(@, dtype=int) if @ is not None else None"),
  ("float(self.@)", "@ if @ is not None else np.nan"),
  ("int(self.@)", "@"),
  ("str(self.@)", "@")]

theorem conversions_paired :
    (∀ r ∈ Gen.fromDictReads, ∃ w ∈ Gen.toDictWrites, w.1 = r.1 ∧ (w.2.2, r.2.2) ∈ pairedConversions) ∧
    (∀ r ∈ Gen.fromDictReads, r.2.2 = "np.array(@, dtype=int) if @ is not None else None" → r.1 = "jacmin_eval_nums") := by
  decide +kernel

/-- `__str__` reads only attributes that `__init__` binds (from a parameter or otherwise) -/
theorem str_reads_bound :
    ∀ a ∈ Gen.strReads, a ∈ Gen.ctorAssigns.map (·.1) ∨ a ∈ Gen.ctorOther.map (·.1) := by decide +kernel

end JsonFields
end Dfols
