/-
  C08, source level: how evaluation faults turn into exits — decided over the generated table of all
  `ExitInformation(...)` creation sites (`Gen/ExitSites.lean`).
-/
import DfolsVerif.Gen.ExitSites

namespace Dfols
namespace ExitSitesC08

/-- the evaluation-error exit ("NaN received …") is created in exactly one place, in `solve_main`, under the test
    `np.any(np.isnan(rvec_list))` on the residuals just returned for the trust-region point -/
theorem evalError_sites : ∀ s ∈ Gen.exitSites, s.flag = "EXIT_EVAL_ERROR" →
    s.func = "solver.py:solve_main" ∧ s.msg = "NaN received from objective function evaluation" ∧
    (⟨true, "np.any(np.isnan(rvec_list))", "", ""⟩ : Lit) ∈ s.path := by
  decide +kernel

example : (Gen.exitSites.filter (·.flag = "EXIT_EVAL_ERROR")).length = 1 := by decide +kernel

/-- linear-algebra failures are turned into the linalg-error exit at five named sites (no other flag is created for them) -/
theorem linalg_sites : ∀ s ∈ Gen.exitSites, s.flag = "EXIT_LINALG_ERROR" →
    s.func ∈ ["controller.py:add_new_direction_while_growing", "controller.py:geometry_step",
              "controller.py:choose_point_to_replace", "solver.py:solve_main", "controller.py:initialise_coordinate_directions",
              "controller.py:initialise_random_directions", "controller.py:soft_restart",
              "controller.py:move_furthest_points", "controller.py:move_furthest_points_momentum"] := by
  decide +kernel

end ExitSitesC08
end Dfols
