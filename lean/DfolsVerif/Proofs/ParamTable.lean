/-
  "Every default passes its own check" lifted from one evaluation to all sizes.

  A default expression is a tree of conditionals (on `objfun_has_noise` or on the sizes) whose
  leaves are literals or integer expressions of n, npt, maxfun.  For every key whose leaves are
  literals and whose bounds do not mention `npt` (67 of the 71 keys), the value and the check do not
  depend on the sizes at all: checking each leaf once (`closedOk`, evaluated by `decide`) proves the
  key for **all** sizes (`closedOk_sound`).  The four size-dependent keys are proved by hand
  (`Properties/C07.lean`).
-/
import DfolsVerif.Book.Validate

namespace Dfols.Py

def DExpr.leaves : DExpr → List DExpr
  | .ite _ t e => t.leaves ++ e.leaves
  | .none => [.none]
  | .bool b => [.bool b]
  | .int e => [.int e]
  | .flt bits => [.flt bits]

/-- a literal -/
def DExpr.closed : DExpr → Bool
  | .none => true
  | .bool _ => true
  | .flt _ => true
  | .int (.lit _) => true
  | _ => false

def Bound.closed : Bound → Bool
  | .nptPlus _ => false
  | _ => true

theorem DExpr.eval_mem_leaves (s : Sizes) : ∀ d : DExpr, ∃ l ∈ d.leaves, d.eval s = l.eval s := by
  intro d
  induction d with
  | none => exact ⟨.none, by simp [DExpr.leaves], rfl⟩
  | bool b => exact ⟨.bool b, by simp [DExpr.leaves], rfl⟩
  | int e => exact ⟨.int e, by simp [DExpr.leaves], rfl⟩
  | flt bits => exact ⟨.flt bits, by simp [DExpr.leaves], rfl⟩
  | ite c t e iht ihe =>
    obtain ⟨lt, hlt, het⟩ := iht
    obtain ⟨le, hle, hee⟩ := ihe
    simp only [DExpr.leaves, List.mem_append, DExpr.eval]
    cases c.eval s
    · exact ⟨le, Or.inr hle, by simpa using hee⟩
    · exact ⟨lt, Or.inl hlt, by simpa using het⟩

theorem DExpr.closed_eval {l : DExpr} (h : l.closed = true) (s s' : Sizes) : l.eval s = l.eval s' := by
  cases l with
  | none => rfl
  | bool b => rfl
  | flt bits => rfl
  | int e =>
    cases e <;> first | rfl | (simp [DExpr.closed] at h)
  | ite c t e => simp [DExpr.closed] at h

theorem Bound.closed_eval {b : Bound} (h : b.closed = true) (x y : F) : b.eval x = b.eval y := by
  cases b <;> first | rfl | (simp [Bound.closed] at h)

theorem checkEntry_closed {te : TypeEntry} (hl : te.lower.closed = true) (hu : te.upper.closed = true) (v : PyVal) (x y : F) :
    checkEntry te v x = checkEntry te v y := by
  unfold checkEntry
  rw [Bound.closed_eval hl x y, Bound.closed_eval hu x y]

def sizes0 : Sizes := ⟨1, 2, 1, false⟩

/-- the key has a table entry with `npt`-free bounds and every leaf of its default is a literal that passes the entry -/
def closedOk (types : List (String × TypeEntry)) (kd : String × DExpr) : Bool :=
  match types.lookup kd.1 with
  | none => false
  | some te =>
    te.lower.closed && te.upper.closed &&
      kd.2.leaves.all (fun l => l.closed && checkEntry te (l.eval sizes0) (F.ofInt 2))

theorem closedOk_sound {types : List (String × TypeEntry)} {kd : String × DExpr} (h : closedOk types kd = true)
    (s : Sizes) (npt : F) :
    ∃ te, types.lookup kd.1 = some te ∧ checkEntry te (kd.2.eval s) npt = true := by
  unfold closedOk at h
  cases hl : types.lookup kd.1 with
  | none => rw [hl] at h; cases h
  | some te =>
    rw [hl] at h
    simp only [Bool.and_eq_true, List.all_eq_true] at h
    obtain ⟨⟨hlo, hup⟩, hall⟩ := h
    obtain ⟨l, hmem, hev⟩ := DExpr.eval_mem_leaves s kd.2
    obtain ⟨hcl, hck⟩ := hall l hmem
    refine ⟨te, rfl, ?_⟩
    rw [hev, DExpr.closed_eval hcl s sizes0, checkEntry_closed hlo hup _ npt (F.ofInt 2)]
    exact hck

end Dfols.Py
