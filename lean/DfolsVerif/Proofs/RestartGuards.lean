/-
  The admission test of soft restarts and the guard of the hard-restart loop, as translated from the source
  (`Gen/RestartGuards.lean`): what their outcomes imply, for all integers.
-/
import DfolsVerif.Gen.RestartGuards

namespace Dfols
namespace RestartGuards

/-- `soft_restart` refuses with the max-evaluations warning only when the budget is spent, with the
    'unsuccessful restarts' success only when that many runs have gone by without progress, creates no other
    exit there, and proceeds exactly when both tests pass. -/
theorem softRestartRefusal_truthful (nruns last maxUnsucc nf maxfun : Int) :
    (∀ m, Gen.softRestartRefusal nruns last maxUnsucc nf maxfun = some (1, m) → maxfun ≤ nf ∧ nruns - last < maxUnsucc) ∧
    (∀ m, Gen.softRestartRefusal nruns last maxUnsucc nf maxfun = some (0, m) → maxUnsucc ≤ nruns - last) ∧
    (∀ f m, Gen.softRestartRefusal nruns last maxUnsucc nf maxfun = some (f, m) → f = 0 ∨ f = 1) ∧
    (Gen.softRestartRefusal nruns last maxUnsucc nf maxfun = none ↔ (nruns - last < maxUnsucc ∧ nf < maxfun)) := by
  unfold Gen.softRestartRefusal
  have hne : ¬ (maxUnsucc ≤ nruns - last ∧ nruns - last < maxUnsucc) := by omega
  by_cases h1 : nruns - last < maxUnsucc <;> by_cases h2 : nf < maxfun <;>
    by_cases h3 : maxUnsucc ≤ nruns - last <;>
    simp [h1, h2, h3] <;> first | omega | (intros; omega) | (intro f m hf _; omega) | skip

/-- the hard-restart loop of `solve` starts another run only with budget left (so the unconditional first
    evaluation of that run stays within `maxfun`), only when restarts are on and soft restarts off, only after a
    restartable exit and fewer than `max_unsuccessful_restarts` runs without progress -/
theorem hardRestartGuard_sound (useRestarts useSoft able : Bool) (nf maxfun nruns last maxUnsucc : Int) :
    Gen.hardRestartGuard useRestarts useSoft able nf maxfun nruns last maxUnsucc = true →
      nf < maxfun ∧ useRestarts = true ∧ useSoft = false ∧ able = true ∧ nruns - last < maxUnsucc := by
  unfold Gen.hardRestartGuard
  simp only [Bool.and_eq_true, Bool.not_eq_true', decide_eq_true_eq]
  intro h
  obtain ⟨⟨⟨⟨a, b⟩, c⟩, d⟩, e⟩ := h
  exact ⟨c, a, b, d, e⟩

/-- the default growing method is switched to the perturbation of the trust-region step (which draws random
    directions) exactly for inverse problems, `m < n` — as documented ("Default is False if m ≥ n and True otherwise") -/
theorem growingSwitch_iff (m n : Int) : Gen.growingSwitchToPerturb m n = true ↔ m < n := by
  unfold Gen.growingSwitchToPerturb
  simp

example : Gen.softRestartRefusal 3 0 10 50 50 = some (1, "Objective has been called MAXFUN times") := by decide
example : Gen.softRestartRefusal 12 2 10 50 50 = some (0, "Reached maximum number of unsuccessful restarts") := by decide
example : Gen.softRestartRefusal 3 0 10 49 50 = none := by decide

end RestartGuards
end Dfols
