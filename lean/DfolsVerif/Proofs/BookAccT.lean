/-
  C03 invariant of the book-keeping acceptor: every label names evaluations really made at the
  stored point ("truthful"), for every accepted event list.
-/
import DfolsVerif.Accept.BookAcc
import DfolsVerif.Proofs.ModelOps

namespace Dfols
namespace BookAcc

abbrev Hist := List (Nat × Nat × Nat × Val)

/-- `resid` is a non-empty list of evaluations that were all made at point number `en`, at `x = pt`. -/
def T (hist : Hist) (pt en : Nat) (resid : List Nat) : Prop :=
  resid ≠ [] ∧ ∀ e ∈ resid, ∃ v, (e, en, pt, v) ∈ hist

theorem T.mono {hist : Hist} {h : Nat × Nat × Nat × Val} {pt en : Nat} {resid : List Nat}
    (ht : T hist pt en resid) : T (h :: hist) pt en resid :=
  ⟨ht.1, fun e he => let ⟨v, hv⟩ := ht.2 e he; ⟨v, List.mem_cons_of_mem _ hv⟩⟩

/-- all evaluations of a group were made at its point number and x -/
def PendT (hist : Hist) (p : Pending) : Prop :=
  (∀ e ∈ p.evals, ∃ v, (e, p.pt, p.xid, v) ∈ hist) ∧ (p.closed = true → p.evals ≠ []) ∧
  (p.closed = false → p.used = 0)

def ModelT (hist : Hist) (m : M) : Prop :=
  m.kopt < m.slots.length ∧ (∀ sl ∈ m.slots, T hist sl.pt sl.en sl.resid) ∧
  (∀ sv, m.saved = some sv → T hist sv.pt sv.en sv.resid)

structure InvT (s : St) : Prop where
  model : ∀ m, s.m = some m → ModelT s.hist m
  best : ∀ b, s.best = some b → T s.hist b.pt b.en b.resid
  pend : ∀ p, s.pend = some p → PendT s.hist p
  x0 : ∀ g, s.mode = .x0 g → PendT s.hist g
  /-- once part of a group has been stored, row `slot` holds that very point -/
  slot : ∀ p m, s.pend = some p → s.m = some m → p.used ≠ 0 →
          ∃ sl, m.slots[p.slot]? = some sl ∧ sl.en = p.pt ∧ sl.pt = p.xid
  /-- nothing is pending while x0 is sampled / before the controller exists -/
  nopend : (∀ g, s.mode = .x0 g → s.pend = none) ∧ (s.mode = .old → s.pend = none)

theorem ModelT.mono {hist : Hist} {h : Nat × Nat × Nat × Val} {m : M} (hm : ModelT hist m) :
    ModelT (h :: hist) m :=
  ⟨hm.1, fun sl hsl => (hm.2.1 sl hsl).mono, fun sv hsv => (hm.2.2 sv hsv).mono⟩

theorem PendT.mono {hist : Hist} {h : Nat × Nat × Nat × Val} {p : Pending} (hp : PendT hist p) :
    PendT (h :: hist) p :=
  ⟨fun e he => let ⟨v, hv⟩ := hp.1 e he; ⟨v, List.mem_cons_of_mem _ hv⟩, hp.2.1, hp.2.2⟩

theorem init_invT (hasH : Bool) : InvT (init hasH) :=
  ⟨by simp [init], by simp [init], by simp [init], by simp [init], by simp [init], by simp [init]⟩

theorem T_of_final {hist : Hist} {m : M} (hm : ModelT hist m) {f : MState.Final Nat (List Nat)}
    (hf : m.getFinal = some f) : T hist f.pt f.en f.resid := by
  rcases MState.getFinal_mem hf with ⟨sl, hsl, h1, h2, h3, _, _⟩ | ⟨sv, hsv, h1, h2, h3, _, _⟩
  · rw [h1, h2, h3]; exact hm.2.1 sl (List.mem_of_getElem? hsl)
  · rw [h1, h2, h3]; exact hm.2.2 sv hsv

theorem T_merge {hist : Hist} {best : Option Cand} {c : Cand}
    (hb : ∀ b, best = some b → T hist b.pt b.en b.resid) (hc : T hist c.pt c.en c.resid) :
    T hist (merge best c).pt (merge best c).en (merge best c).resid := by
  unfold merge
  split
  · exact hc
  · rename_i b
    split
    · exact hc
    · exact hb b rfl


theorem step_invT {s s' : St} {e : Ev} (hi : InvT s) (h : step s e = .ok s') : InvT s' := by
  obtain ⟨hM, hB, hP, hX, hS, hN⟩ := hi
  cases e <;> simp only [step] at h
  case rst nruns nf nx hasOld maxfun npt =>
    cases hmode : s.mode <;> rw [hmode] at h <;> simp only at h
    case idle =>
      repeat' split at h
      all_goals (first | (simp at h; done) | skip)
      all_goals (simp only [Except.ok.injEq] at h; subst h)
      · exact ⟨by simp, hB, by simp, by simp, by simp, by simp⟩
      · refine ⟨by simp, hB, by simp, ?_, by simp, by simp⟩
        intro g hg
        simp only [Mode.x0.injEq] at hg
        subst hg
        exact ⟨by simp, by simp, by simp⟩
    all_goals simp at h
  case obj i evalNo ptNo xid v ncalls =>
    cases hmode : s.mode <;> rw [hmode] at h <;> simp only at h
    case x0 g =>
      have hg := hX g hmode
      repeat' split at h
      all_goals (first | (simp at h; done) | skip)
      all_goals (simp only [Except.ok.injEq] at h; subst h)
      · rename_i hev
        refine ⟨fun m hm => (hM m hm).mono, fun b hb => (hB b hb).mono, fun p hp => (hP p hp).mono, ?_,
                fun p m hp hm hu => hS p m hp hm hu, ⟨fun _ _ => hN.1 g hmode, by simp⟩⟩
        intro g' hg'
        simp only [Mode.x0.injEq] at hg'
        subst hg'
        exact ⟨by simp, by simp, hg.2.2⟩
      · rename_i hev hpx
        refine ⟨fun m hm => (hM m hm).mono, fun b hb => (hB b hb).mono, fun p hp => (hP p hp).mono, ?_,
                fun p m hp hm hu => hS p m hp hm hu, ⟨fun _ _ => hN.1 g hmode, by simp⟩⟩
        intro g' hg'
        simp only [Mode.x0.injEq] at hg'
        subst hg'
        refine ⟨?_, by simp, hg.2.2⟩
        intro e he
        simp only [List.mem_append, List.mem_singleton] at he
        rcases he with he | he
        · obtain ⟨v', hv'⟩ := hg.1 e he
          exact ⟨v', List.mem_cons_of_mem _ hv'⟩
        · subst he; rw [← hpx.1, ← hpx.2]; exact ⟨v, List.mem_cons_self⟩
    case run =>
      cases hpend : s.pend <;> rw [hpend] at h <;> simp only at h
      case none => simp at h
      case some p =>
        have hp := hP p hpend
        repeat' split at h
        all_goals (first | (simp at h; done) | skip)
        all_goals (simp only [Except.ok.injEq] at h; subst h)
        · rename_i hcl hev hx
          refine ⟨fun m hm => (hM m hm).mono, fun b hb => (hB b hb).mono, ?_,
                  fun g hg => by simp [hmode] at hg, ?_, by simp [hmode]⟩
          · intro p' hp'
            simp only [Option.some.injEq] at hp'
            subst hp'
            refine ⟨?_, ?_, hp.2.2⟩
            · intro e he
              simp only [List.mem_singleton] at he
              subst he; rw [← hx]; exact ⟨v, List.mem_cons_self⟩
            · intro _; simp
          · intro p' m hp' hm hu
            simp only [Option.some.injEq] at hp'
            subst hp'
            exact absurd (hp.2.2 (by simpa using hcl)) hu
        · rename_i hcl hev hpx
          refine ⟨fun m hm => (hM m hm).mono, fun b hb => (hB b hb).mono, ?_,
                  fun g hg => by simp [hmode] at hg, ?_, by simp [hmode]⟩
          · intro p' hp'
            simp only [Option.some.injEq] at hp'
            subst hp'
            refine ⟨?_, ?_, hp.2.2⟩
            · intro e he
              simp only [List.mem_append, List.mem_singleton] at he
              rcases he with he | he
              · obtain ⟨v', hv'⟩ := hp.1 e he
                exact ⟨v', List.mem_cons_of_mem _ hv'⟩
              · subst he; rw [← hpx.1, ← hpx.2]; exact ⟨v, List.mem_cons_self⟩
            · intro _; simp
          · intro p' m hp' hm hu
            simp only [Option.some.injEq] at hp'
            subst hp'
            exact hS p m hpend hm hu
    all_goals simp at h
  case ctrl label ns v cap thr =>
    cases hmode : s.mode <;> rw [hmode] at h <;> simp only at h
    case x0 g =>
      have hg := hX g hmode
      have hnp := hN.1 g hmode
      repeat' split at h
      all_goals (first | (simp at h; done) | skip)
      all_goals (simp only [Except.ok.injEq] at h; subst h)
      rename_i hev hlab hns hv
      refine ⟨?_, hB, hP, by simp, ?_, by simp⟩
      · intro m hm
        simp only [Option.some.injEq] at hm
        subst hm
        refine ⟨by simp [MState.init], ?_, by simp [MState.init]⟩
        intro sl hsl
        simp only [MState.init, List.mem_singleton] at hsl
        subst hsl
        simp only [Decidable.not_not] at hlab
        exact ⟨hev, fun e he => by rw [hlab]; exact hg.1 e he⟩
      · intro p m hp hm hu
        simp only at hp
        rw [hnp] at hp
        simp at hp
    case old =>
      have hnp := hN.2 hmode
      cases hbest : s.best <;> rw [hbest] at h <;> simp only at h
      case none => simp at h
      case some b =>
        have hb := hB b hbest
        repeat' split at h
        all_goals (first | (simp at h; done) | skip)
        all_goals (simp only [Except.ok.injEq] at h; subst h)
        rename_i hlab hns hv
        simp only [Decidable.not_not] at hlab
        refine ⟨?_, fun b' hb' => by simp only [Option.some.injEq] at hb'; subst hb'; exact hb, hP, by simp, ?_, by simp⟩
        · intro m hm
          simp only [Option.some.injEq] at hm
          subst hm
          refine ⟨by simp [MState.init], ?_, by simp [MState.init]⟩
          intro sl hsl
          simp only [MState.init, List.mem_singleton] at hsl
          subst hsl
          rw [hlab]; exact hb
        · intro p m hp hm hu
          simp only at hp
          rw [hnp] at hp
          simp at hp
    all_goals simp at h
  case evb want xid =>
    cases hmode : s.mode <;> rw [hmode] at h <;> simp only at h
    case run =>
      split at h
      · simp only [Except.ok.injEq] at h; subst h
        refine ⟨hM, hB, ?_, by simp [hmode], ?_, by simp [hmode]⟩
        · intro p hp
          simp only [Option.some.injEq] at hp
          subst hp
          exact ⟨by simp, by simp, by simp⟩
        · intro p m hp hm hu
          simp only [Option.some.injEq] at hp
          subst hp
          simp at hu
      · simp at h
    all_goals simp at h
  case eve k ex cls vmean thr anyNaN =>
    cases hpend : s.pend <;> rw [hpend] at h <;> simp only at h
    case none => simp at h
    case some p =>
      have hp := hP p hpend
      repeat' split at h
      all_goals (first | (simp at h; done) | skip)
      all_goals (simp only [Except.ok.injEq] at h; subst h)
      · exact ⟨hM, hB, by simp, hX, by simp, ⟨fun _ _ => rfl, fun _ => rfl⟩⟩
      · rename_i hcl hk hk0 _
        refine ⟨hM, hB, ?_, hX, ?_, ?_⟩
        · intro p' hp'
          simp only [Option.some.injEq] at hp'
          subst hp'
          refine ⟨hp.1, ?_, by simp⟩
          intro _ hnil
          simp only at hnil
          rw [hnil] at hk
          simp only [List.length_nil, Decidable.not_not] at hk
          exact hk0 hk
        · intro p' m hp' hm hu
          simp only [Option.some.injEq] at hp'
          subst hp'
          exact hS p m hpend hm hu
        · refine ⟨fun g hg => ?_, fun hg => ?_⟩
          · have := hN.1 g hg; rw [hpend] at this; simp at this
          · have := hN.2 hg; rw [hpend] at this; simp at this
  case chg k label allow v src koptAfter =>
    cases hm : s.m <;> cases hpend : s.pend <;> rw [hm, hpend] at h <;> simp only at h
    case some.some m p =>
      have hp := hP p hpend
      have hmod := hM m hm
      repeat' split at h
      all_goals (first | (simp at h; done) | skip)
      all_goals (simp only [Except.ok.injEq] at h; subst h)
      rename_i hcu hlab hsrc hal hval hov _ m' hcp hko
      simp only [Decidable.not_not] at hlab hsrc
      obtain ⟨hk', hsv', _, hsl', hnew, _⟩ := MState.changePoint_struct hmod.1 hcp
      have hsrcmem : src ∈ p.evals := by
        cases hev : p.evals with
        | nil => simp [hev] at hsrc
        | cons a rest => simp [hev] at hsrc; simp [hsrc]
      refine ⟨?_, hB, ?_, hX, ?_, ?_⟩
      · intro m'' hm''
        simp only [Option.some.injEq] at hm''
        subst hm''
        refine ⟨hk', ?_, ?_⟩
        · intro sl hsl
          rcases hsl' sl hsl with h1 | h1
          · exact hmod.2.1 sl h1
          · subst h1
            simp only [MState.newSlot]
            refine ⟨by simp, ?_⟩
            intro e he
            simp only [List.mem_singleton] at he
            subst he
            rw [hlab]; exact hp.1 e hsrcmem
        · intro sv hsv; rw [hsv'] at hsv; exact hmod.2.2 sv hsv
      · intro p' hp'
        simp only [Option.some.injEq] at hp'
        subst hp'
        exact ⟨hp.1, hp.2.1, fun hc => by
          simp only [not_or, Decidable.not_not, Bool.not_eq_true] at hcu
          simp only at hc; rw [hc] at hcu; simp at hcu⟩
      · intro p' m'' hp' hm'' _
        simp only [Option.some.injEq] at hp' hm''
        subst hp'; subst hm''
        exact ⟨_, hnew, by simp [MState.newSlot, hlab], by simp [MState.newSlot]⟩
      · refine ⟨fun g hg => ?_, fun hg => ?_⟩
        · have := hN.1 g hg; rw [hpend] at this; simp at this
        · have := hN.2 hg; rw [hpend] at this; simp at this
    all_goals simp at h
  case adp label v src koptAfter =>
    cases hm : s.m <;> cases hpend : s.pend <;> rw [hm, hpend] at h <;> simp only at h
    case some.some m p =>
      have hp := hP p hpend
      have hmod := hM m hm
      repeat' split at h
      all_goals (first | (simp at h; done) | skip)
      all_goals (simp only [Except.ok.injEq] at h; subst h)
      rename_i hcu hlab hsrc hfull hval hko
      simp only [Decidable.not_not] at hlab hsrc
      obtain ⟨hk', hsv', hsl', hnew, _⟩ := MState.addPoint_struct hmod.1 p.xid [src] v label
      have hsrcmem : src ∈ p.evals := by
        cases hev : p.evals with
        | nil => simp [hev] at hsrc
        | cons a rest => simp [hev] at hsrc; simp [hsrc]
      refine ⟨?_, hB, ?_, hX, ?_, ?_⟩
      · intro m'' hm''
        simp only [Option.some.injEq] at hm''
        subst hm''
        refine ⟨hk', ?_, ?_⟩
        · intro sl hsl
          rcases hsl' sl hsl with h1 | h1
          · exact hmod.2.1 sl h1
          · subst h1
            simp only [MState.newSlot]
            refine ⟨by simp, ?_⟩
            intro e he
            simp only [List.mem_singleton] at he
            subst he
            rw [hlab]; exact hp.1 e hsrcmem
        · intro sv hsv; rw [hsv'] at hsv; exact hmod.2.2 sv hsv
      · intro p' hp'
        simp only [Option.some.injEq] at hp'
        subst hp'
        exact ⟨hp.1, hp.2.1, fun hc => by
          simp only [not_or, Decidable.not_not, Bool.not_eq_true] at hcu
          simp only at hc; rw [hc] at hcu; simp at hcu⟩
      · intro p' m'' hp' hm'' _
        simp only [Option.some.injEq] at hp' hm''
        subst hp'; subst hm''
        exact ⟨_, hnew, by simp [MState.newSlot, hlab], by simp [MState.newSlot]⟩
      · refine ⟨fun g hg => ?_, fun hg => ?_⟩
        · have := hN.1 g hg; rw [hpend] at this; simp at this
        · have := hN.2 hg; rw [hpend] at this; simp at this
    all_goals simp at h
  case smp k v src koptAfter =>
    cases hm : s.m <;> cases hpend : s.pend <;> rw [hm, hpend] at h <;> simp only at h
    case some.some m p =>
      have hp := hP p hpend
      have hmod := hM m hm
      repeat' split at h
      all_goals (first | (simp at h; done) | skip)
      all_goals (simp only [Except.ok.injEq] at h; subst h)
      rename_i hcu hk hsrc _ m' has hko
      simp only [Decidable.not_not, not_or] at hcu hk hsrc
      obtain ⟨hk', hsv', hlen', hsl', hrow⟩ := MState.addSample_struct avgL hmod.1 has
      have hsrcmem : src ∈ p.evals := List.mem_of_getElem? hsrc
      obtain ⟨slk, hslk, hen, hpt⟩ := hS p m hpend hm hcu.2
      refine ⟨?_, hB, ?_, hX, ?_, ?_⟩
      · intro m'' hm''
        simp only [Option.some.injEq] at hm''
        subst hm''
        refine ⟨hk', ?_, ?_⟩
        · intro sl hsl
          rcases hsl' sl hsl with h1 | ⟨old, hold, h1, h2, h3⟩
          · exact hmod.2.1 sl h1
          · rw [hk, hslk] at hold
            simp only [Option.some.injEq] at hold
            subst hold
            have hT := hmod.2.1 slk (List.mem_of_getElem? hslk)
            rw [h1, h2, h3]
            refine ⟨by simp [avgL, hT.1], ?_⟩
            intro e he
            simp only [avgL, List.mem_append, List.mem_singleton] at he
            rcases he with he | he
            · exact hT.2 e he
            · subst he; rw [hen, hpt]; exact hp.1 e hsrcmem
        · intro sv hsv; rw [hsv'] at hsv; exact hmod.2.2 sv hsv
      · intro p' hp'
        simp only [Option.some.injEq] at hp'
        subst hp'
        exact ⟨hp.1, hp.2.1, fun hc => by simp only at hc; rw [hc] at hcu; simp at hcu⟩
      · intro p' m'' hp' hm'' _
        simp only [Option.some.injEq] at hp' hm''
        subst hp'; subst hm''
        obtain ⟨old, sl, hold, hsl, h1, h2⟩ := hrow
        rw [hk, hslk] at hold
        simp only [Option.some.injEq] at hold
        subst hold
        rw [hk] at hsl
        exact ⟨sl, hsl, by rw [h2, hen], by rw [h1, hpt]⟩
      · refine ⟨fun g hg => ?_, fun hg => ?_⟩
        · have := hN.1 g hg; rw [hpend] at this; simp at this
        · have := hN.2 hg; rw [hpend] at this; simp at this
    all_goals simp at h
  case sav ns label v acc inc =>
    cases hm : s.m <;> rw [hm] at h <;> simp only at h
    case none => simp at h
    case some m =>
      have hmod := hM m hm
      split at h
      · -- incumbent save of soft_restart
        split at h
        · simp at h
        · cases hsl : m.slots[m.kopt]? <;> rw [hsl] at h <;> simp only at h
          case none => simp at h
          case some sl =>
            repeat' split at h
            all_goals (first | (simp at h; done) | skip)
            all_goals (simp only [Except.ok.injEq] at h; subst h)
            rename_i hlab hns hv hacc
            simp only [Decidable.not_not] at hlab
            obtain ⟨h1, h2, _, h4⟩ := MState.savePoint_struct m sl.pt sl.resid v ns label
            refine ⟨?_, hB, by simp, hX, by simp, ⟨fun _ _ => rfl, fun _ => rfl⟩⟩
            intro m'' hm''
            simp only [Option.some.injEq] at hm''
            subst hm''
            refine ⟨by rw [h1, h2]; exact hmod.1, by rw [h1]; exact hmod.2.1, ?_⟩
            intro sv hsv
            rcases h4 with h4 | ⟨j, h4⟩
            · rw [h4] at hsv; exact hmod.2.2 sv hsv
            · rw [h4] at hsv
              simp only [Option.some.injEq] at hsv
              subst hsv
              simp only
              rw [hlab]
              exact hmod.2.1 sl (List.mem_of_getElem? hsl)
      · cases hpend : s.pend <;> rw [hpend] at h <;> simp only at h
        case none => simp at h
        case some p =>
          have hp := hP p hpend
          repeat' split at h
          all_goals (first | (simp at h; done) | skip)
          all_goals (simp only [Except.ok.injEq] at h; subst h)
          rename_i hcu hlab hns hv hacc
          simp only [Decidable.not_not, not_or] at hlab hcu
          obtain ⟨h1, h2, _, h4⟩ := MState.savePoint_struct m p.xid p.evals v ns label
          refine ⟨?_, hB, by simp, hX, by simp, ⟨fun _ _ => rfl, fun _ => rfl⟩⟩
          intro m'' hm''
          simp only [Option.some.injEq] at hm''
          subst hm''
          refine ⟨by rw [h1, h2]; exact hmod.1, by rw [h1]; exact hmod.2.1, ?_⟩
          intro sv hsv
          rcases h4 with h4 | ⟨j, h4⟩
          · rw [h4] at hsv; exact hmod.2.2 sv hsv
          · rw [h4] at hsv
            simp only [Option.some.injEq] at hsv
            subst hsv
            simp only
            rw [hlab]
            exact ⟨hp.2.1 hcu.1, hp.1⟩
  case fin label ns v jac =>
    repeat' split at h
    all_goals (first | (simp at h; done) | skip)
    all_goals (simp only [Except.ok.injEq] at h; subst h)
    exact ⟨hM, hB, hP, hX, hS, hN⟩
  case shf =>
    simp only [Except.ok.injEq] at h; subst h
    refine ⟨?_, hB, hP, hX, ?_, hN⟩
    · intro m hm
      simp only [Option.map_eq_some_iff] at hm
      obtain ⟨m0, hm0, rfl⟩ := hm
      exact hM m0 hm0
    · intro p m hp hm hu
      simp only [Option.map_eq_some_iff] at hm
      obtain ⟨m0, hm0, rfl⟩ := hm
      exact hS p m0 hp hm0 hu
  case itp ok =>
    simp only [Except.ok.injEq] at h; subst h
    split
    · refine ⟨?_, hB, hP, hX, ?_, hN⟩
      · intro m hm
        simp only [Option.map_eq_some_iff] at hm
        obtain ⟨m0, hm0, rfl⟩ := hm
        exact hM m0 hm0
      · intro p m hp hm hu
        simp only [Option.map_eq_some_iff] at hm
        obtain ⟨m0, hm0, rfl⟩ := hm
        exact hS p m0 hp hm0 hu
    · exact ⟨hM, hB, hP, hX, hS, hN⟩
  case swp k1 k2 => simp at h
  case rend nf nx nruns flag cls label ns v jacNone hadCtrl =>
    split at h
    · simp at h
    · cases hmode : s.mode <;> rw [hmode] at h <;> simp only at h
      case run =>
        split at h
        · simp at h
        · cases hf : s.m.bind MState.getFinal <;> rw [hf] at h <;> simp only at h
          case none => simp at h
          case some f =>
            split at h
            · simp at h
            · simp only [Except.ok.injEq] at h; subst h
              obtain ⟨m, hm, hfm⟩ := Option.bind_eq_some_iff.mp hf
              have hTf := T_of_final (hM m hm) hfm
              refine ⟨hM, ?_, by simp, by simp, by simp, by simp⟩
              intro b hb
              simp only [Option.some.injEq] at hb
              subst hb
              exact T_merge hB (by simpa [candOfFinal] using hTf)
      case x0 g =>
        have hg := hX g hmode
        repeat' split at h
        all_goals (first | (simp at h; done) | skip)
        all_goals (simp only [Except.ok.injEq] at h; subst h)
        rename_i _ hev hlab hns hv
        simp only [Decidable.not_not] at hlab
        refine ⟨hM, ?_, by simp, by simp, by simp, by simp⟩
        intro b hb
        simp only [Option.some.injEq] at hb
        subst hb
        refine T_merge hB ?_
        simp only
        rw [hlab]
        exact ⟨hev, hg.1⟩
      all_goals simp at h
  case res nf nx nruns flag cls label v jacNone =>
    repeat' split at h
    all_goals (first | (simp at h; done) | skip)
    all_goals (simp only [Except.ok.injEq] at h; subst h)
    exact ⟨hM, hB, hP, hX, hS, hN⟩
  all_goals (simp only [Except.ok.injEq] at h; subst h; exact ⟨hM, hB, hP, hX, hS, hN⟩)

theorem foldlM_invT {s s' : St} (evs : List Ev) (hi : InvT s) (h : evs.foldlM step s = .ok s') : InvT s' := by
  induction evs generalizing s with
  | nil => simp only [List.foldlM_nil, pure, Except.pure, Except.ok.injEq] at h; subst h; exact hi
  | cons e evs ih =>
    simp only [List.foldlM_cons, bind, Except.bind] at h
    cases hs : step s e with
    | error m => simp [hs] at h
    | ok s1 => rw [hs] at h; exact ih (step_invT hi hs) h

theorem accept_invT {hasH : Bool} {evs : List Ev} {s : St} (h : accept hasH evs = .ok s) : InvT s :=
  foldlM_invT evs (init_invT hasH) h

end BookAcc
end Dfols

namespace Dfols
namespace BookAcc

/-- every history entry was produced by an evaluation event of the trace -/
def FromEvents (evs : List Ev) (h : Nat × Nat × Nat × Val) : Prop :=
  ∃ evalNo nc, Ev.obj h.1 evalNo h.2.1 h.2.2.1 h.2.2.2 nc ∈ evs

theorem step_hist {s s' : St} {e : Ev} (h : step s e = .ok s') :
    ∀ x ∈ s'.hist, x ∈ s.hist ∨ FromEvents [e] x := by
  cases e <;> simp only [step] at h
  case obj i evalNo ptNo xid v ncalls =>
    cases hmode : s.mode <;> rw [hmode] at h <;> simp only at h
    case x0 g =>
      repeat' split at h
      all_goals (first | (simp at h; done) | skip)
      all_goals (simp only [Except.ok.injEq] at h; subst h)
      all_goals (
        intro x hx
        simp only [List.mem_cons] at hx
        rcases hx with hx | hx
        · right; subst hx; exact ⟨evalNo, ncalls, by simp⟩
        · left; exact hx)
    case run =>
      cases hpend : s.pend <;> rw [hpend] at h <;> simp only at h
      case none => simp at h
      case some p =>
        repeat' split at h
        all_goals (first | (simp at h; done) | skip)
        all_goals (simp only [Except.ok.injEq] at h; subst h)
        all_goals (
          intro x hx
          simp only [List.mem_cons] at hx
          rcases hx with hx | hx
          · right; subst hx; exact ⟨evalNo, ncalls, by simp⟩
          · left; exact hx)
    all_goals simp at h
  case itp ok =>
    simp only [Except.ok.injEq] at h; subst h
    intro x hx; left; split at hx <;> exact hx
  all_goals (
    repeat' split at h
    all_goals (first | (simp at h; done) | skip)
    all_goals (simp only [Except.ok.injEq] at h; subst h)
    all_goals (intro x hx; left; exact hx))

theorem foldlM_hist {s s' : St} (evs : List Ev) (h : evs.foldlM step s = .ok s') :
    ∀ x ∈ s'.hist, x ∈ s.hist ∨ FromEvents evs x := by
  induction evs generalizing s with
  | nil => simp only [List.foldlM_nil, pure, Except.pure, Except.ok.injEq] at h; subst h; intro x hx; exact Or.inl hx
  | cons e evs ih =>
    simp only [List.foldlM_cons, bind, Except.bind] at h
    cases hs : step s e with
    | error m => simp [hs] at h
    | ok s1 =>
      rw [hs] at h
      intro x hx
      rcases ih h x hx with h1 | ⟨a, b, h1⟩
      · rcases step_hist hs x h1 with h2 | ⟨a, b, h2⟩
        · exact Or.inl h2
        · right; exact ⟨a, b, by simp only [List.mem_singleton] at h2; rw [h2]; exact List.mem_cons_self⟩
      · right; exact ⟨a, b, List.mem_cons_of_mem _ h1⟩

end BookAcc
end Dfols
