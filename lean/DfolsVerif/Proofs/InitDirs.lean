/-
  Helper lemmas for C14 about the `InitDirs` kernel.

  * any linear order, no arithmetic laws (= any rounding): the clips put their result in the box;
  * exact arithmetic over a linearly ordered field `K`: the case split at-lower / at-upper / neither
    of controller.py:255-310 yields steps `t` with `δ/100 ≤ |t| ≤ 2δ` that stay in `[sl, su]`,
    the two steps along one coordinate differ, and rows that can be swapped have `|t| ≤ δ`.
-/
import DfolsVerif.Kernels.InitDirs
import Mathlib.Order.Lattice
import Mathlib.Order.Defs.LinearOrder
import Mathlib.Tactic.Linarith
import Mathlib.Tactic.Ring
import Mathlib.Tactic.NormNum.OfScientific
import Mathlib.Algebra.Order.Field.Basic

namespace Dfols.InitDirs

/-! ### any linear order -/
section order
variable {α : Type} [LinearOrder α]

theorem pymin_eq_min (a b : α) : pymin a b = min a b := by
  unfold pymin; split_ifs with h
  · exact (min_eq_right h.le).symm
  · exact (min_eq_left (not_lt.mp h)).symm

theorem pymax_eq_max (a b : α) : pymax a b = max a b := by
  unfold pymax; split_ifs with h
  · exact (max_eq_right h.le).symm
  · exact (max_eq_left (not_lt.mp h)).symm

theorem npmin_eq_min (a b : α) : npmin a b = min a b := by
  unfold npmin; split_ifs with h
  · exact (min_eq_left h.le).symm
  · exact (min_eq_right (not_lt.mp h)).symm

theorem npmax_eq_max (a b : α) : npmax a b = max a b := by
  unfold npmax; split_ifs with h
  · exact (max_eq_left h.le).symm
  · exact (max_eq_right (not_lt.mp h)).symm

theorem clip_eq (sl su x : α) : clip sl su x = min (max sl x) su := by
  unfold clip; rw [npmin_eq_min, npmax_eq_max]

/-- the clip of model.py:162 lands in `[sl, su]` whenever `sl ≤ su` -/
theorem clip_mem {sl su : α} (h : sl ≤ su) (x : α) : sl ≤ clip sl su x ∧ clip sl su x ≤ su := by
  rw [clip_eq]
  exact ⟨le_min (le_max_left _ _) h, min_le_right _ _⟩

theorem clip_of_mem {sl su x : α} (h1 : sl ≤ x) (h2 : x ≤ su) : clip sl su x = x := by
  rw [clip_eq, max_eq_right h1, min_eq_left h2]

/-- x0 after solver.py:1107-1116 lies in `[xl, xu]` whenever `xl ≤ xu` -/
theorem clampX0_mem {l u : α} (h : l ≤ u) (x : α) : l ≤ clampX0 x l u ∧ clampX0 x l u ≤ u := by
  unfold clampX0
  dsimp only
  split_ifs with h1 h2 h2
  · exact ⟨h, le_refl _⟩
  · exact ⟨le_refl _, h⟩
  · exact ⟨h, le_refl _⟩
  · exact ⟨not_lt.mp h1, not_lt.mp h2⟩

/-- a feasible x0 is left alone -/
theorem clampX0_of_mem {l u x : α} (h1 : l ≤ x) (h2 : x ≤ u) : clampX0 x l u = x := by
  unfold clampX0
  dsimp only
  rw [if_neg (not_lt.mpr h1), if_neg (not_lt.mpr h2)]

/-- x0 after clamping is the nearest point of the interval: below → `xl`, above → `xu` -/
theorem clampX0_eq (l u x : α) (h : l ≤ u) : clampX0 x l u = min (max l x) u := by
  unfold clampX0
  dsimp only
  split_ifs with h1 h2 h2
  · exact absurd h (not_le.mpr h2)
  · rw [max_eq_left h1.le, min_eq_left h]
  · rw [max_eq_right (not_lt.mp h1), min_eq_right h2.le]
  · rw [max_eq_right (not_lt.mp h1), min_eq_left (not_lt.mp h2)]

/-- the repaired `as_absolute_coordinates` lands in `[xl, xu]` for ANY `+` (any rounding) -/
theorem asAbs_mem [Add α] {xl xu : α} (h : xl ≤ xu) (xb sl su x : α) :
    xl ≤ asAbs xl xu xb sl su x ∧ asAbs xl xu xb sl su x ≤ xu := by
  unfold asAbs
  rw [npmin_eq_min, npmax_eq_max]
  exact ⟨le_min (le_max_left _ _) h, min_le_right _ _⟩

end order

/-! ### exact arithmetic -/
section field
variable {K : Type} [Field K] [LinearOrder K] [IsStrictOrderedRing K]

theorem lit001 : (0.01 : K) = 1 / 100 := by norm_num
theorem lit2 : (2.0 : K) = 2 := by norm_num
theorem lit0 : (0.0 : K) = 0 := by norm_num

/-- in exact arithmetic the outer clip of the repaired `as_absolute_coordinates` is the identity -/
theorem asAbs_exact {xl xu xb : K} (h : xl ≤ xu) (x : K) :
    asAbs xl xu xb (xl - xb) (xu - xb) x = xb + clip (xl - xb) (xu - xb) x := by
  have hc := clip_mem (show xl - xb ≤ xu - xb by linarith) x
  unfold asAbs
  rw [npmin_eq_min, npmax_eq_max, max_eq_right (by linarith [hc.1]), min_eq_left (by linarith [hc.2])]

/-- the admissible steps: `δ/100 ≤ |t| ≤ c·δ`, sign made explicit -/
def StepOK (δ c t : K) : Prop := (δ / 100 ≤ t ∧ t ≤ c * δ) ∨ (-(c * δ) ≤ t ∧ t ≤ -(δ / 100))

theorem StepOK.abs {δ c t : K} (hδ : 0 < δ) (h : StepOK δ c t) : δ / 100 ≤ |t| ∧ |t| ≤ c * δ := by
  rcases h with ⟨h1, h2⟩ | ⟨h1, h2⟩
  · constructor
    · exact le_trans h1 (le_abs_self t)
    · exact abs_le.mpr ⟨by linarith, h2⟩
  · constructor
    · have := neg_le_abs t
      linarith
    · exact abs_le.mpr ⟨h1, by linarith⟩

theorem StepOK.ne_zero {δ c t : K} (hδ : 0 < δ) (h : StepOK δ c t) : t ≠ 0 := by
  rcases h with ⟨h1, _⟩ | ⟨_, h2⟩
  · intro h0; rw [h0] at h1; linarith
  · intro h0; rw [h0] at h2; linarith

theorem StepOK.mono {δ c c' t : K} (hδ : 0 < δ) (hc : c ≤ c') (h : StepOK δ c t) : StepOK δ c' t := by
  have : c * δ ≤ c' * δ := mul_le_mul_of_nonneg_right hc hδ.le
  rcases h with ⟨h1, h2⟩ | ⟨h1, h2⟩
  · exact Or.inl ⟨h1, by linarith⟩
  · exact Or.inr ⟨by linarith, h2⟩

theorem StepOK.sq {δ c t : K} (hδ : 0 < δ) (h : StepOK δ c t) :
    (δ / 100) ^ 2 ≤ t ^ 2 ∧ t ^ 2 ≤ (c * δ) ^ 2 := by
  have ha := h.abs hδ
  have h0 : 0 ≤ δ / 100 := by positivity
  constructor
  · rw [← sq_abs t]; exact pow_le_pow_left₀ h0 ha.1 2
  · rw [← sq_abs t]; exact pow_le_pow_left₀ (abs_nonneg t) ha.2 2

/-- hypotheses on one coordinate: positive radius, clamped x0, gap at least `2δ` -/
structure Coord (δ sl su : K) : Prop where
  pos : 0 < δ
  lo : sl ≤ 0
  hi : 0 ≤ su
  gap : 2 * δ ≤ su - sl

/-- **first step** (controller.py:297 + clip): `min δ su ≥ δ/100` upwards, or exactly `-δ` -/
theorem step1_clip {δ sl su : K} (h : Coord δ sl su) :
    (¬ su < δ / 100 ∧ clip sl su (step1 δ su) = min δ su) ∨
    (su < δ / 100 ∧ clip sl su (step1 δ su) = -δ) := by
  obtain ⟨hδ, hlo, hhi, hgap⟩ := h
  unfold step1 atUpper
  simp only [lit001]
  by_cases hu : su < 1 / 100 * δ
  · right
    refine ⟨by linarith, ?_⟩
    rw [decide_eq_true hu, if_pos rfl]
    exact clip_of_mem (by linarith) (by linarith)
  · left
    refine ⟨by intro h'; exact hu (by linarith), ?_⟩
    rw [decide_eq_false hu]
    simp only [Bool.false_eq_true, if_false]
    rw [clip_eq, max_eq_right (by linarith)]

/-- **second step** (controller.py:304-310 + clip) in the three cases of the code -/
theorem step2_clip {δ sl su : K} (h : Coord δ sl su) :
    (su < δ / 100 ∧ clip sl su (step2 δ sl su) = max (-(2 * δ)) sl) ∨
    (¬ su < δ / 100 ∧ -(δ / 100) < sl ∧ clip sl su (step2 δ sl su) = min (2 * δ) su) ∨
    (¬ su < δ / 100 ∧ ¬ -(δ / 100) < sl ∧ clip sl su (step2 δ sl su) = max sl (-δ)) := by
  obtain ⟨hδ, hlo, hhi, hgap⟩ := h
  unfold step2 atUpper atLower
  simp only [lit001, lit2, neg_mul, pymin_eq_min, pymax_eq_max]
  by_cases hu : su < 1 / 100 * δ
  · left
    refine ⟨by linarith, ?_⟩
    rw [decide_eq_true hu]
    simp only [if_true]
    apply clip_of_mem (le_max_right _ _)
    exact max_le (by linarith) (by linarith)
  · right
    rw [decide_eq_false hu]
    simp only [Bool.false_eq_true, if_false]
    by_cases hl : -(1 / 100 * δ) < sl
    · left
      refine ⟨by intro h'; exact hu (by linarith), by linarith, ?_⟩
      rw [decide_eq_true hl]
      simp only [if_true]
      apply clip_of_mem _ (min_le_right _ _)
      exact le_min (by linarith) (by linarith)
    · right
      refine ⟨by intro h'; exact hu (by linarith), by intro h'; exact hl (by linarith), ?_⟩
      rw [decide_eq_false hl]
      simp only [Bool.false_eq_true, if_false]
      rw [clip_eq, min_eq_left (by exact max_le (by linarith) (by linarith))]

/-- the first step satisfies `δ/100 ≤ |t| ≤ δ` and stays in `[sl, su]` -/
theorem step1_ok {δ sl su : K} (h : Coord δ sl su) : StepOK δ 1 (clip sl su (step1 δ su)) := by
  have hδ := h.pos
  rcases step1_clip h with ⟨hu, e⟩ | ⟨hu, e⟩ <;> rw [e]
  · left
    exact ⟨le_min (by linarith) (not_lt.mp hu), by rw [one_mul]; exact min_le_left _ _⟩
  · right
    exact ⟨by linarith, by linarith⟩

/-- the second step satisfies `δ/100 ≤ |t| ≤ 2δ` and stays in `[sl, su]` -/
theorem step2_ok {δ sl su : K} (h : Coord δ sl su) : StepOK δ 2 (clip sl su (step2 δ sl su)) := by
  obtain ⟨hδ, hlo, hhi, hgap⟩ := h
  rcases step2_clip ⟨hδ, hlo, hhi, hgap⟩ with ⟨hu, e⟩ | ⟨hu, hl, e⟩ | ⟨hu, hl, e⟩ <;> rw [e]
  · right
    exact ⟨le_max_left _ _, max_le (by linarith) (by linarith)⟩
  · left
    exact ⟨le_min (by linarith) (by linarith), min_le_left _ _⟩
  · right
    exact ⟨le_trans (by linarith) (le_max_right _ _), max_le (by linarith [not_lt.mp hl]) (by linarith)⟩

/-- **the two steps along one coordinate differ** -/
theorem steps_distinct {δ sl su : K} (h : Coord δ sl su) :
    clip sl su (step1 δ su) ≠ clip sl su (step2 δ sl su) := by
  obtain ⟨hδ, hlo, hhi, hgap⟩ := h
  have hc : Coord δ sl su := ⟨hδ, hlo, hhi, hgap⟩
  rcases step1_clip hc with ⟨hu, e1⟩ | ⟨hu, e1⟩ <;>
    rcases step2_clip hc with ⟨hu', e2⟩ | ⟨hu', hl, e2⟩ | ⟨hu', hl, e2⟩ <;>
    first
      | exact absurd hu' hu
      | exact absurd hu hu'
      | skip
  · -- at lower: min δ su = δ  vs  min (2δ) su > 1.99 δ
    rw [e1, e2]
    intro he
    have h1 : min δ su ≤ δ := min_le_left _ _
    have h2 : δ < min (2 * δ) su := lt_min (by linarith) (by linarith)
    linarith
  · -- neither: positive vs negative
    rw [e1, e2]
    intro he
    have h1 : 0 < min δ su := lt_min hδ (by linarith [not_lt.mp hu])
    have h2 : max sl (-δ) < 0 := max_lt (by linarith [not_lt.mp hl]) (by linarith)
    linarith
  · -- at upper: -δ vs max (-2δ) sl < -1.99 δ
    rw [e1, e2]
    intro he
    have h2 : max (-(2 * δ)) sl < -δ := max_lt (by linarith) (by linarith)
    linarith

/-- a swap (controller.py:350) needs steps of opposite sign; this only happens away from both
    bounds, where the second step is `-δ`: the value kept in row `i+1` always has `|t| ≤ δ`. -/
theorem rowFinal_ok {δ sl su : K} (h : Coord δ sl su) (lt : Bool) :
    StepOK δ 1 (clip sl su (rowFinal δ sl su lt)) := by
  obtain ⟨hδ, hlo, hhi, hgap⟩ := h
  have hc : Coord δ sl su := ⟨hδ, hlo, hhi, hgap⟩
  unfold rowFinal
  split_ifs with hs
  · -- swapped: step1 * step2 < 0
    unfold swapped at hs
    rw [Bool.and_eq_true, decide_eq_true_eq, lit0] at hs
    have hprod := hs.1
    -- unclipped values
    unfold step1 step2 atUpper atLower at hprod
    unfold step2 atUpper atLower
    simp only [lit001, lit2, neg_mul, pymin_eq_min, pymax_eq_max] at hprod ⊢
    by_cases hu : su < 1 / 100 * δ
    · exfalso
      rw [decide_eq_true hu] at hprod
      simp only [if_true] at hprod
      have h2 : max (-(2 * δ)) sl < 0 := max_lt (by linarith) (by linarith)
      have : 0 < -δ * max (-(2 * δ)) sl := mul_pos_of_neg_of_neg (by linarith) h2
      linarith
    · rw [decide_eq_false hu] at hprod ⊢
      simp only [Bool.false_eq_true, if_false] at hprod ⊢
      by_cases hl : -(1 / 100 * δ) < sl
      · exfalso
        rw [decide_eq_true hl] at hprod
        simp only [if_true] at hprod
        have h2 : 0 < min (2 * δ) su := lt_min (by linarith) (by linarith)
        have : 0 < δ * min (2 * δ) su := mul_pos hδ h2
        linarith
      · rw [decide_eq_false hl]
        simp only [Bool.false_eq_true, if_false]
        right
        rw [clip_eq, min_eq_left (max_le (by linarith) (by linarith))]
        exact ⟨by rw [one_mul]; exact le_max_right _ _, max_le (by linarith [not_lt.mp hl]) (by linarith)⟩
  · exact step1_ok hc

omit [IsStrictOrderedRing K] in
theorem coord_sl_le_su {δ sl su : K} (h : Coord δ sl su) : sl ≤ su := le_trans h.lo h.hi

theorem clip_zero {δ sl su : K} (h : Coord δ sl su) : clip sl su (0.0 : K) = 0 := by
  rw [lit0]; exact clip_of_mem h.lo h.hi

end field

/-! ### the index pair of controller.py:319-323 -/

theorem pairIdx_spec {n k : Nat} (h1 : 2 * n + 1 ≤ k) (h2 : k ≤ n * n + n) :
    1 ≤ (pairIdx n k).1 ∧ (pairIdx n k).1 ≤ n ∧ 1 ≤ (pairIdx n k).2 ∧ (pairIdx n k).2 ≤ n ∧
      (pairIdx n k).1 ≠ (pairIdx n k).2 := by
  have hn : 0 < n := by
    rcases Nat.eq_zero_or_pos n with h | h
    · subst h; omega
    · exact h
  unfold pairIdx
  have hdm : (k - n - 1) / n * n + (k - n - 1) % n = k - n - 1 := Nat.div_add_mod' _ _
  have hmod : (k - n - 1) % n < n := Nat.mod_lt _ hn
  have hlt : (k - n - 1) / n < n := by
    apply Nat.div_lt_of_lt_mul
    have : k - n - 1 < n * n := by omega
    exact this
  have hge : 1 ≤ (k - n - 1) / n := by
    apply (Nat.le_div_iff_mul_le hn).mpr
    omega
  generalize (k - n - 1) / n = it at *
  generalize hm : (k - n - 1) % n = r at *
  dsimp only
  split_ifs with hp <;> dsimp only <;> omega


/-! ### the whole point set (vectors as functions `Nat → K`) -/
section vectors
variable {K : Type} [Field K] [LinearOrder K] [IsStrictOrderedRing K]
variable {n : Nat} {δ : K} {x0 xl xu : Nat → K}

/-- the property's hypotheses on the box: positive radius, gap at least `2·rhobeg` in every coordinate
    (solver.py:1053).  Nothing is assumed about x0. -/
structure Box (n : Nat) (δ : K) (xl xu : Nat → K) : Prop where
  pos : 0 < δ
  gap : ∀ j, j < n → 2 * δ ≤ xu j - xl j

theorem Box.le (h : Box n δ xl xu) {j : Nat} (hj : j < n) : xl j ≤ xu j := by
  have := h.gap j hj; have := h.pos; linarith

theorem Box.coord (h : Box n δ xl xu) (x0 : Nat → K) {j : Nat} (hj : j < n) :
    Coord δ (slOf x0 xl xu j) (suOf x0 xl xu j) := by
  have hm := clampX0_mem (h.le hj) (x0 j)
  refine ⟨h.pos, ?_, ?_, ?_⟩
  · unfold slOf xbase; linarith [hm.1]
  · unfold suOf xbase; linarith [hm.2]
  · unfold slOf suOf; have := h.gap j hj; linarith

/-- in exact arithmetic an evaluation point is `xbase + clip(step table entry)` -/
theorem evalPoint_exact (h : Box n δ xl xu) (lt : Nat → Bool) {k j : Nat} (hk : 1 ≤ k) (hj : j < n) :
    evalPoint n δ x0 xl xu lt k j = xbase x0 xl xu j +
      clip (slOf x0 xl xu j) (suOf x0 xl xu j) (relPoint n δ (slOf x0 xl xu) (suOf x0 xl xu) lt k j) := by
  unfold evalPoint
  rw [if_neg (by omega)]
  unfold slOf suOf
  exact asAbs_exact (h.le hj) _

/-- the coordinate moved at step `k ≤ 2n` -/
def dirOf (n k : Nat) : Nat := if k < n + 1 then k - 1 else k - n - 1

/-- the (clipped) step taken at step `k ≤ 2n` -/
def stepOf (n : Nat) (δ : K) (x0 xl xu : Nat → K) (k : Nat) : K :=
  let i := dirOf n k
  clip (slOf x0 xl xu i) (suOf x0 xl xu i)
    (if k < n + 1 then step1 δ (suOf x0 xl xu i) else step2 δ (slOf x0 xl xu i) (suOf x0 xl xu i))

theorem dirOf_lt {k : Nat} (h1 : 1 ≤ k) (h2 : k ≤ 2 * n) : dirOf n k < n := by
  unfold dirOf; split_ifs <;> omega

/-- **single-coordinate points**: for `1 ≤ k ≤ 2n` the k-th evaluation point is `xbase + t·e_i` -/
theorem evalPoint_single (h : Box n δ xl xu) (lt : Nat → Bool) {k : Nat} (h1 : 1 ≤ k) (h2 : k ≤ 2 * n)
    {j : Nat} (hj : j < n) :
    evalPoint n δ x0 xl xu lt k j =
      xbase x0 xl xu j + if j = dirOf n k then stepOf n δ x0 xl xu k else 0 := by
  rw [evalPoint_exact h lt h1 hj]
  congr 1
  unfold relPoint dirOf stepOf dirOf
  by_cases hk : k < n + 1
  · simp only [hk, if_true]
    by_cases hji : j = k - 1
    · subst hji; simp
    · simp only [hji, if_false]; exact clip_zero (h.coord x0 hj)
  · have hk2 : k < 2 * n + 1 := by omega
    simp only [hk, hk2, if_true, if_false]
    by_cases hji : j = k - n - 1
    · subst hji; simp
    · simp only [hji, if_false]; exact clip_zero (h.coord x0 hj)

theorem stepOf_ok (h : Box n δ xl xu) {k : Nat} (h1 : 1 ≤ k) (h2 : k ≤ 2 * n) :
    StepOK δ 2 (stepOf n δ x0 xl xu k) := by
  have hc := h.coord x0 (dirOf_lt h1 h2)
  unfold stepOf
  dsimp only
  split_ifs
  · exact (step1_ok hc).mono h.pos (by norm_num)
  · exact step2_ok hc

theorem stepOf_mem (h : Box n δ xl xu) {k : Nat} (h1 : 1 ≤ k) (h2 : k ≤ 2 * n) :
    xl (dirOf n k) ≤ xbase x0 xl xu (dirOf n k) + stepOf n δ x0 xl xu k ∧
      xbase x0 xl xu (dirOf n k) + stepOf n δ x0 xl xu k ≤ xu (dirOf n k) := by
  have hc := h.coord x0 (dirOf_lt h1 h2)
  have hm := clip_mem (coord_sl_le_su hc)
    (if k < n + 1 then step1 δ (suOf x0 xl xu (dirOf n k)) else step2 δ (slOf x0 xl xu (dirOf n k)) (suOf x0 xl xu (dirOf n k)))
  unfold stepOf
  dsimp only
  unfold slOf suOf at hm ⊢
  constructor <;> linarith [hm.1, hm.2]

/-- the value combined into a two-coordinate point for coordinate `i` -/
def pairStep (δ : K) (x0 xl xu : Nat → K) (lt : Nat → Bool) (i : Nat) : K :=
  clip (slOf x0 xl xu i) (suOf x0 xl xu i) (rowFinal δ (slOf x0 xl xu i) (suOf x0 xl xu i) (lt i))

/-- **two-coordinate points**: for `2n < k ≤ n² + n` the k-th evaluation point is
    `xbase + t_p·e_p + t_q·e_q` with `p ≠ q` -/
theorem evalPoint_pair (h : Box n δ xl xu) (lt : Nat → Bool) {k : Nat} (h1 : 2 * n + 1 ≤ k)
    {j : Nat} (hj : j < n) :
    evalPoint n δ x0 xl xu lt k j =
      xbase x0 xl xu j + if j = (pairIdx n k).1 - 1 ∨ j = (pairIdx n k).2 - 1 then pairStep δ x0 xl xu lt j else 0 := by
  rw [evalPoint_exact h lt (by omega) hj]
  congr 1
  unfold relPoint pairStep
  have hk1 : ¬ k < n + 1 := by omega
  have hk2 : ¬ k < 2 * n + 1 := by omega
  simp only [hk1, hk2, if_false]
  by_cases hq : j = (pairIdx n k).2 - 1
  · simp [hq]
  · by_cases hp : j = (pairIdx n k).1 - 1
    · simp [hp]
    · simp only [hq, hp, if_false, or_self]; exact clip_zero (h.coord x0 hj)

theorem pairStep_ok (h : Box n δ xl xu) (lt : Nat → Bool) {i : Nat} (hi : i < n) :
    StepOK δ 1 (pairStep δ x0 xl xu lt i) := rowFinal_ok (h.coord x0 hi) (lt i)

theorem pairStep_mem (h : Box n δ xl xu) (lt : Nat → Bool) {i : Nat} (hi : i < n) :
    xl i ≤ xbase x0 xl xu i + pairStep δ x0 xl xu lt i ∧ xbase x0 xl xu i + pairStep δ x0 xl xu lt i ≤ xu i := by
  have hm := clip_mem (coord_sl_le_su (h.coord x0 hi)) (rowFinal δ (slOf x0 xl xu i) (suOf x0 xl xu i) (lt i))
  unfold pairStep
  unfold slOf suOf at hm ⊢
  constructor <;> linarith [hm.1, hm.2]

end vectors

end Dfols.InitDirs
