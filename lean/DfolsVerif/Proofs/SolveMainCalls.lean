/-
  Decided over the table of every `solve_main(...)` call in `solve` (Gen/SolveMainCalls.lean, regenerated from solver.py
  on every run): each call — the first run and both forms of a hard restart — passes 22 positional arguments that line up with
  `solve_main`'s own parameter list, in particular the regulariser `h`, `lh`, `argsh`, `prox_uh`, `argsprox`, the projections,
  the scaling and the parameter list; only the starting point (`x0` / `xmin`) and the three running counters differ in name.
-/
import DfolsVerif.Gen.SolveMainCalls

namespace Dfols
namespace SolveMainCalls

/-- argument text `a` is what belongs at parameter `p` -/
def argOK (p a : String) : Bool :=
  a == p || (p == "x0" && a == "xmin") || (p == "nruns_so_far" && a == "nruns") || (p == "nf_so_far" && a == "nf") ||
  (p == "nx_so_far" && a == "nx")

def callOK (c : List String × List (String × String)) : Bool :=
  c.1.length == 22 && (List.zip Gen.solveMainParams c.1).all (fun pa => argOK pa.1 pa.2) &&
  c.2.all (fun kv => Gen.solveMainParams.contains kv.1 && !(Gen.solveMainParams.take 22).contains kv.1)

theorem all_calls_ok : Gen.solveMainCalls.all callOK = true ∧ Gen.solveMainCalls.length = 3 := by decide +kernel

/-- in particular the regulariser travels with every run -/
theorem regulariser_positions :
    (Gen.solveMainParams.drop 17).take 5 = ["h", "lh", "argsh", "prox_uh", "argsprox"] ∧
    ∀ c ∈ Gen.solveMainCalls, (c.1.drop 17).take 5 = ["h", "lh", "argsh", "prox_uh", "argsprox"] := by decide +kernel

end SolveMainCalls
end Dfols
