/-
  Decided over the table of every `solve_main(...)` call in `solve` (Gen/SolveMainCalls.lean, regenerated from solver.py
  on every run): each call — the first run and both forms of a hard restart — passes 22 positional arguments that line up with
  `solve_main`'s own parameter list, in particular the regulariser `h`, `lh`, `argsh`, `prox_uh`, `argsprox`, the projections,
  the scaling and the parameter list; only the starting point (`x0` / `xmin`) and the three running counters differ in name.
-/
import DfolsVerif.Gen.SolveMainCalls

namespace Dfols
namespace SolveMainCalls

/-- argument text `a` is what belongs at parameter `p` -/
def argOK (p a : String) : Bool :=
  a == p || (p == "x0" && a == "xmin") || (p == "nruns_so_far" && a == "nruns") || (p == "nf_so_far" && a == "nf") ||
  (p == "nx_so_far" && a == "nx")

def callOK (c : List String × List (String × String)) : Bool :=
  c.1.length == 22 && (List.zip Gen.solveMainParams c.1).all (fun pa => argOK pa.1 pa.2) &&
  c.2.all (fun kv => Gen.solveMainParams.contains kv.1 && !(Gen.solveMainParams.take 22).contains kv.1)

theorem all_calls_ok : Gen.solveMainCalls.all callOK = true ∧ Gen.solveMainCalls.length = 3 := by decide +kernel

/-- in particular the regulariser travels with every run -/
theorem regulariser_positions :
    (Gen.solveMainParams.drop 17).take 5 = ["h", "lh", "argsh", "prox_uh", "argsprox"] ∧
    ∀ c ∈ Gen.solveMainCalls, (c.1.drop 17).take 5 = ["h", "lh", "argsh", "prox_uh", "argsprox"] := by decide +kernel

/-- the counters are rebound from EVERY run's result, unconditionally: each of the three unpackings has twelve targets with
    `nf, nx, nruns, exit_info` at positions 5–8 (the result of a restarted run goes to fresh names `…2` otherwise), and every
    `return` of `solve_main` has twelve elements with the controller's (or, before a controller exists, the local) `nf` / `nx` at
    positions 5 / 6 and `exit_info` at position 8 -/
theorem counters_threaded :
    (Gen.solveMainTargets.length = 3 ∧ ∀ t ∈ Gen.solveMainTargets, t.length = 12 ∧ (t.drop 5).take 4 = ["nf", "nx", "nruns", "exit_info"]) ∧
    (Gen.solveMainReturns.length = 3 ∧ ∀ r ∈ Gen.solveMainReturns, r.length = 12 ∧
      ((r.drop 5).take 2 = ["nf", "nx"] ∨ (r.drop 5).take 2 = ["control.nf", "control.nx"]) ∧ (r.drop 8).take 1 = ["exit_info"]) ∧
    (∀ c ∈ Gen.solveMainCalls, (c.1.drop 10).take 3 = ["nruns", "nf", "nx"]) := by decide +kernel

/-- the run counter handed back: the two returns that stand BEFORE the main loop add the run themselves (`nruns_so_far + 1`), the
    return after the loop hands back `nruns_so_far` as the loop left it (one increment per `break`: `C10_src_nruns_once`) -/
theorem nruns_returned :
    Gen.solveMainReturns.map (fun r => (r.drop 7).take 1) = [["nruns_so_far + 1"], ["nruns_so_far + 1"], ["nruns_so_far"]] := by
  decide +kernel

end SolveMainCalls
end Dfols
