/-
  Exact-arithmetic algebra of the interpolation specification (`Kernels/Interp.lean`).

  Every theorem here is an identity or an implication between *equations*: it says what the
  quantities assembled by `model.py` satisfy **if** the linear solve is exact.  Nothing here is
  about LAPACK or about rounding (see the header of the kernel file and `Properties/C16.lean`).
-/
import DfolsVerif.Kernels.Interp
import Mathlib.Tactic.Ring
import Mathlib.Tactic.FieldSimp
import Mathlib.Tactic.Linarith
import Mathlib.Tactic.Abel
import Mathlib.Tactic.LinearCombination
import Mathlib.LinearAlgebra.Matrix.Nondegenerate

set_option linter.unusedSectionVars false

namespace Dfols
namespace Interp

open Matrix

variable {K : Type*} [Field K] {ι ν μ κ : Type*} [Fintype ι] [Fintype ν] [Fintype μ] [Fintype κ]

/-! ### what the QR-based solves deliver (given exact `Q`, `R` and exact triangular solves) -/

/-- normal case (model.py:329, 349-350): `W = QR` with orthonormal columns of `Q`, and `x` solves
    the triangular system `R x = Qᵀ F`  ⇒  `x` satisfies the normal equations. -/
theorem qr_normal_eqs [DecidableEq κ] {W Q : Matrix ι κ K} {R : Matrix κ κ K} {x : Matrix κ μ K}
    {F : Matrix ι μ K} (hW : W = Q * R) (hQ : Qᵀ * Q = 1) (hx : R * x = Qᵀ * F) :
    Wᵀ * (W * x - F) = 0 := by
  subst hW
  have h : Qᵀ * (Q * R * x - F) = 0 := by
    rw [Matrix.mul_sub, Matrix.mul_assoc Q R x, ← Matrix.mul_assoc Qᵀ Q, hQ, Matrix.one_mul, hx, sub_self]
  rw [Matrix.transpose_mul, Matrix.mul_assoc, h, Matrix.mul_zero]

/-- growing case (model.py:332, 345-346): `Wᵀ = QR`, `Rᵀ Rb = F`, `x = Q Rb`  ⇒  `W x = F`
    (the minimal-norm solution still satisfies every interpolation equation). -/
theorem qr_growing [DecidableEq ι] {W : Matrix ι κ K} {Q : Matrix κ ι K} {R : Matrix ι ι K}
    {Rb : Matrix ι μ K} {F : Matrix ι μ K} (hW : Wᵀ = Q * R) (hQ : Qᵀ * Q = 1) (hRb : Rᵀ * Rb = F) :
    W * (Q * Rb) = F := by
  have hW' : W = Rᵀ * Qᵀ := by
    have := congrArg Matrix.transpose hW
    rwa [Matrix.transpose_transpose, Matrix.transpose_mul] at this
  rw [hW', Matrix.mul_assoc, ← Matrix.mul_assoc Qᵀ, hQ, Matrix.one_mul, hRb]

/-! ### the assembled model in terms of the raw solution -/

/-- row `t` of `W x` **is** the assembled model evaluated at `y_t`: the centre `xopt` and the
    preconditioner `right_scaling` drop out (no hypothesis on `δ`: `a/δ*b = a*(1/δ*b)` always). -/
theorem design_mul_apply (Y : Matrix ι ν K) (xopt : ν → K) (δ : K) (x : Matrix (Option ν) μ K)
    (t : ι) (i : μ) :
    (design Y xopt δ * x) t i =
      modelVal (modelConst (colScale (rightScaling δ) x) xopt) (modelJac (colScale (rightScaling δ) x)) (Y t) i := by
  simp only [Matrix.mul_apply, Fintype.sum_option, design, Matrix.of_apply, modelVal, modelConst,
    modelJac, colScale, rightScaling, Pi.add_apply, Matrix.mulVec, dotProduct]
  rw [sub_add_eq_add_sub, add_sub_assoc, ← Finset.sum_sub_distrib]
  exact congrArg _ (Finset.sum_congr rfl fun j _ => by ring)

/-- the same for the Lagrange functions (right-hand side `I`). -/
theorem design_mul_apply_lagrange (Y : Matrix ι ν K) (xopt : ν → K) (δ : K) (x : Matrix (Option ν) ι K)
    (t k : ι) :
    (design Y xopt δ * x) t k = lagrangeVal (colScale (rightScaling δ) x) xopt k (Y t) := by
  simp only [Matrix.mul_apply, Fintype.sum_option, design, Matrix.of_apply, lagrangeVal, colScale,
    rightScaling]
  exact congrArg _ (Finset.sum_congr rfl fun j _ => by ring)

/-- **interp_reproduces** — if the solve is exact (`W x = F`: `n+1` points, or fewer points in the
    growing phase, see `qr_growing`), every residual model reproduces the stored residual at every
    interpolation point. -/
theorem interp_reproduces (Y : Matrix ι ν K) (F : Matrix ι μ K) (xopt : ν → K) (δ : K)
    (x : Matrix (Option ν) μ K) (hsolve : design Y xopt δ * x = F) :
    Interpolates Y F (modelConst (colScale (rightScaling δ) x) xopt) (modelJac (colScale (rightScaling δ) x)) := by
  intro t
  funext i
  rw [← design_mul_apply, hsolve]

/-- **regression_normal_eqs** — the normal equations of the preconditioned, `xopt`-centred system
    are the normal equations of the plain least-squares problem `min Σ_t ‖c + J y_t − F_t‖²`. -/
theorem regression_normal_eqs (Y : Matrix ι ν K) (F : Matrix ι μ K) (xopt : ν → K) {δ : K} (hδ : δ ≠ 0)
    (x : Matrix (Option ν) μ K)
    (hsolve : (design Y xopt δ)ᵀ * (design Y xopt δ * x - F) = 0) :
    IsLSQFit Y F (modelConst (colScale (rightScaling δ) x) xopt) (modelJac (colScale (rightScaling δ) x)) := by
  have hrow : ∀ o i, ∑ t, design Y xopt δ t o * ((design Y xopt δ * x) t i - F t i) = 0 := by
    intro o i
    have := congrFun (congrFun hsolve o) i
    simpa [Matrix.mul_apply, Matrix.transpose_apply, Matrix.sub_apply] using this
  have h0 : ∀ i, ∑ t, (modelVal (modelConst (colScale (rightScaling δ) x) xopt)
      (modelJac (colScale (rightScaling δ) x)) (Y t) i - F t i) = 0 := by
    intro i
    have := hrow none i
    simp only [design_mul_apply] at this
    simpa [design] using this
  refine ⟨h0, ?_⟩
  intro j i
  have := hrow (some j) i
  simp only [design_mul_apply] at this
  simp only [design, Matrix.of_apply] at this
  -- Σ_t (Y t j - xopt j)/δ * e_t = 0  ⇒  Σ_t Y t j * e_t = xopt j * Σ_t e_t = 0
  set e : ι → K := fun t => modelVal (modelConst (colScale (rightScaling δ) x) xopt)
      (modelJac (colScale (rightScaling δ) x)) (Y t) i - F t i with he
  have h1 : ∑ t, (Y t j - xopt j) / δ * e t = δ⁻¹ * (∑ t, Y t j * e t - xopt j * ∑ t, e t) := by
    rw [Finset.mul_sum, ← Finset.sum_sub_distrib, Finset.mul_sum]
    exact Finset.sum_congr rfl fun t _ => by ring
  have h2 : ∑ t, e t = 0 := h0 i
  rw [h1, h2, mul_zero, sub_zero] at this
  rcases mul_eq_zero.mp this with h3 | h3
  · exact absurd (inv_eq_zero.mp h3) hδ
  · exact h3


/-! ### Lagrange functions -/

/-- **lagrange_delta** — with an exact solve for the right-hand side `I` (`n+1` points, or the
    growing phase) the Lagrange functions satisfy `L_k(y_t) = δ_tk`. -/
theorem lagrange_delta [DecidableEq ι] (Y : Matrix ι ν K) (xopt : ν → K) (δ : K) (x : Matrix (Option ν) ι K)
    (hsolve : design Y xopt δ * x = 1) (t k : ι) :
    lagrangeVal (colScale (rightScaling δ) x) xopt k (Y t) = if t = k then 1 else 0 := by
  rw [← design_mul_apply_lagrange, hsolve, Matrix.one_apply]

/-- the sum of all Lagrange functions is the model fitted to the data "1 at every point". -/
theorem sum_lagrangeVal (xopt : ν → K) (δ : K) (x : Matrix (Option ν) ι K) (y : ν → K) :
    ∑ k, lagrangeVal (colScale (rightScaling δ) x) xopt k y =
      modelVal (modelConst (colScale (rightScaling δ) (x * (Matrix.of fun (_ : ι) (_ : Unit) => (1 : K)))) xopt)
        (modelJac (colScale (rightScaling δ) (x * (Matrix.of fun (_ : ι) (_ : Unit) => (1 : K))))) y () := by
  simp only [lagrangeVal, colScale, rightScaling, Matrix.of_apply, modelVal, modelConst, modelJac,
    Pi.add_apply, Matrix.mulVec, dotProduct, Matrix.mul_apply, mul_one]
  rw [Finset.sum_add_distrib, Finset.sum_comm, sub_add_eq_add_sub, add_sub_assoc, ← Finset.sum_sub_distrib]
  refine congrArg₂ (· + ·) ?_ (Finset.sum_congr rfl fun j _ => ?_)
  · rw [Finset.mul_sum]
  · rw [Finset.mul_sum, Finset.sum_mul, Finset.sum_mul, ← Finset.sum_sub_distrib]
    exact Finset.sum_congr rfl fun k _ => by ring

/-! ### base shifts -/

namespace IModel

variable (s : IModel K ι ν μ) (sh : ν → K)

theorem shiftBase_absPoint (t : ι) : (s.shiftBase sh).absPoint t = s.absPoint t := by
  simp only [shiftBase, absPoint]; abel

theorem shiftBase_modelVal (y : ν → K) :
    modelVal (s.shiftBase sh).c (s.shiftBase sh).J (y - sh) = modelVal s.c s.J y := by
  simp only [shiftBase, modelVal, Matrix.mulVec_sub]; abel

/-- model values at fixed **absolute** points do not change. -/
theorem shiftBase_valueAtAbs (x : ν → K) : (s.shiftBase sh).valueAtAbs x = s.valueAtAbs x := by
  have : x - (s.xbase + sh) = (x - s.xbase) - sh := by abel
  simp only [valueAtAbs]
  rw [show (s.shiftBase sh).xbase = s.xbase + sh from rfl, this, shiftBase_modelVal]

/-- the assembled gradient and Hessian do not change. -/
theorem shiftBase_buildFullModel : (s.shiftBase sh).buildFullModel = s.buildFullModel := by
  have h := shiftBase_modelVal s sh s.xopt
  simp only [modelVal, xopt] at h
  simp only [buildFullModel, xopt]
  rw [show (s.shiftBase sh).Y (s.shiftBase sh).kopt = s.Y s.kopt - sh from rfl, h]
  rfl

theorem shiftBase_interpolates (h : Interpolates s.Y s.F s.c s.J) :
    Interpolates (s.shiftBase sh).Y (s.shiftBase sh).F (s.shiftBase sh).c (s.shiftBase sh).J := by
  intro t
  rw [show (s.shiftBase sh).Y t = s.Y t - sh from rfl, shiftBase_modelVal]
  exact h t

theorem shiftBase_isLSQFit (h : IsLSQFit s.Y s.F s.c s.J) :
    IsLSQFit (s.shiftBase sh).Y (s.shiftBase sh).F (s.shiftBase sh).c (s.shiftBase sh).J := by
  obtain ⟨h0, h1⟩ := h
  have hv : ∀ t, modelVal (s.shiftBase sh).c (s.shiftBase sh).J ((s.shiftBase sh).Y t) = modelVal s.c s.J (s.Y t) := by
    intro t
    rw [show (s.shiftBase sh).Y t = s.Y t - sh from rfl, shiftBase_modelVal]
  refine ⟨fun i => ?_, fun j i => ?_⟩
  · simp only [hv]; exact h0 i
  · simp only [hv]
    have : ∀ t, (s.shiftBase sh).Y t j * (modelVal s.c s.J (s.Y t) i - (s.shiftBase sh).F t i) =
        s.Y t j * (modelVal s.c s.J (s.Y t) i - s.F t i) - sh j * (modelVal s.c s.J (s.Y t) i - s.F t i) := by
      intro t
      rw [show (s.shiftBase sh).Y t j = s.Y t j - sh j from rfl, show (s.shiftBase sh).F = s.F from rfl]
      ring
    simp only [this]
    rw [Finset.sum_sub_distrib, ← Finset.mul_sum, h1 j i, h0 i, mul_zero, sub_zero]

/-- **shift_base_invariant** — `shift_base` changes neither the absolute position of any point,
    nor any model value at a fixed absolute point, nor the gradient and Hessian assembled by
    `build_full_model`; an interpolating / least-squares model stays one. -/
theorem shift_base_invariant :
    (∀ t, (s.shiftBase sh).absPoint t = s.absPoint t) ∧
    (∀ x, (s.shiftBase sh).valueAtAbs x = s.valueAtAbs x) ∧
    (s.shiftBase sh).buildFullModel = s.buildFullModel ∧
    (Interpolates s.Y s.F s.c s.J →
      Interpolates (s.shiftBase sh).Y (s.shiftBase sh).F (s.shiftBase sh).c (s.shiftBase sh).J) ∧
    (IsLSQFit s.Y s.F s.c s.J →
      IsLSQFit (s.shiftBase sh).Y (s.shiftBase sh).F (s.shiftBase sh).c (s.shiftBase sh).J) :=
  ⟨shiftBase_absPoint s sh, shiftBase_valueAtAbs s sh, shiftBase_buildFullModel s sh,
   shiftBase_interpolates s sh, shiftBase_isLSQFit s sh⟩

end IModel

/-! ### uniqueness: exactness for affine residuals -/

/-- two affine models that agree at the points of a full-rank set are equal. -/
theorem interp_unique {Y : Matrix ι ν K} {F : Matrix ι μ K} {c c' : μ → K} {J J' : Matrix μ ν K}
    (hY : FullRank Y) (h : Interpolates Y F c J) (h' : Interpolates Y F c' J') : c = c' ∧ J = J' := by
  have key : ∀ i, c i - c' i = 0 ∧ (fun j => J i j - J' i j) = 0 := by
    intro i
    apply hY
    intro t
    have e1 := congrFun (h t) i
    have e2 := congrFun (h' t) i
    simp only [modelVal, Pi.add_apply, Matrix.mulVec, dotProduct] at e1 e2
    simp only [dotProduct]
    have : ∑ j, (J i j - J' i j) * Y t j = ∑ j, J i j * Y t j - ∑ j, J' i j * Y t j := by
      rw [← Finset.sum_sub_distrib]; exact Finset.sum_congr rfl fun j _ => by ring
    rw [this]
    linear_combination e1 - e2
  constructor
  · funext i; exact sub_eq_zero.mp (key i).1
  · ext i j; exact sub_eq_zero.mp (congrFun (key i).2 j)

/-- affine residuals are interpolated by their own coefficients. -/
theorem affine_interpolates (A : Matrix μ ν K) (b : μ → K) (xbase : ν → K) (Y : Matrix ι ν K) :
    Interpolates Y (fun t => affineResid A b (xbase + Y t)) (affineResid A b xbase) A := by
  intro t
  simp only [modelVal, affineResid, Matrix.mulVec_add]; abel

/-- **interp_affine_exact** — if the residuals are affine, `r(x) = A x − b`, and `(c, J)` satisfies
    the interpolation equations on an affinely independent (full-rank) set, then `J = A` and the
    model is the residual function itself. -/
theorem interp_affine_exact {A : Matrix μ ν K} {b : μ → K} {xbase : ν → K} {Y : Matrix ι ν K}
    {c : μ → K} {J : Matrix μ ν K} (hY : FullRank Y)
    (h : Interpolates Y (fun t => affineResid A b (xbase + Y t)) c J) :
    J = A ∧ ∀ y, modelVal c J y = affineResid A b (xbase + y) := by
  obtain ⟨hc, hJ⟩ := interp_unique hY h (affine_interpolates A b xbase Y)
  refine ⟨hJ, fun y => ?_⟩
  subst hc hJ
  simp only [modelVal, affineResid, Matrix.mulVec_add]; abel

/-! ### Gauss–Newton model -/

theorem dot_transpose_mulVec (J : Matrix μ ν K) (d : ν → K) (r : μ → K) :
    d ⬝ᵥ (Jᵀ *ᵥ r) = (J *ᵥ d) ⬝ᵥ r := by
  rw [Matrix.dotProduct_mulVec, Matrix.vecMul_transpose]

/-- **gauss_newton_exact** — the quadratic built by `build_full_model` is the exact expansion of
    the sum of squares of the residual models around `xopt`:
    `‖m(xopt+d)‖² = ‖m(xopt)‖² + g·d + ½ d·H d`. -/
theorem gauss_newton_exact (h2 : (2 : K) ≠ 0) (s : IModel K ι ν μ) (d : ν → K) :
    sumsq (modelVal s.c s.J (s.xopt + d)) =
      sumsq (modelVal s.c s.J s.xopt) + quadModel s.buildFullModel.1 s.buildFullModel.2 d := by
  simp only [sumsq, quadModel, IModel.buildFullModel, modelVal]
  set r := s.c + s.J *ᵥ s.xopt with hr
  have e1 : s.c + s.J *ᵥ (s.xopt + d) = r + s.J *ᵥ d := by rw [Matrix.mulVec_add, hr]; abel
  rw [e1]
  simp only [add_dotProduct, dotProduct_add, dotProduct_smul, Matrix.smul_mulVec, smul_eq_mul,
    dot_transpose_mulVec, ← Matrix.mulVec_mulVec]
  rw [dotProduct_comm (s.J *ᵥ d) r]
  field_simp
  ring

/-- **ratio_eq_one** — when the model is the residual function (affine residuals, see
    `interp_affine_exact` / `regression_affine_exact`), the actual reduction
    `objopt − sumsq(r(x+d))` of `calculate_ratio` equals the predicted reduction
    `−model_value(g, H, d)`, so the ratio is exactly 1 whenever it is defined. -/
theorem ratio_eq_one (h2 : (2 : K) ≠ 0) (s : IModel K ι ν μ) (rfun : (ν → K) → μ → K)
    (hexact : ∀ y, modelVal s.c s.J y = rfun (s.xbase + y)) (d : ν → K)
    (hpred : - quadModel s.buildFullModel.1 s.buildFullModel.2 d ≠ 0) :
    (sumsq (rfun (s.xbase + s.xopt)) - sumsq (rfun (s.xbase + (s.xopt + d)))) /
      (- quadModel s.buildFullModel.1 s.buildFullModel.2 d) = 1 := by
  rw [← hexact, ← hexact, gauss_newton_exact h2]
  rw [div_eq_one_iff_eq hpred]
  ring

/-! ### internal scaling -/

/-- the un-scaled model is the same function, expressed in the user's coordinates
    (`x = shift + z∘scale`). -/
theorem unscale_modelVal {scale : ν → K} (hs : ∀ j, scale j ≠ 0) (shift : ν → K) (c : μ → K)
    (J : Matrix μ ν K) (z : ν → K) :
    modelVal (c - unscaleJac scale J *ᵥ shift) (unscaleJac scale J) (unscalePoint shift scale z) =
      modelVal c J z := by
  funext i
  simp only [modelVal, unscaleJac, unscalePoint, Pi.add_apply, Pi.sub_apply, Matrix.mulVec, dotProduct,
    Matrix.of_apply]
  rw [sub_add_eq_add_sub, add_sub_assoc, ← Finset.sum_sub_distrib]
  refine congrArg _ (Finset.sum_congr rfl fun j _ => ?_)
  have := hs j
  field_simp
  ring

/-- **unscale_jacobian** — if `c + J_s z` fits `r(shift + z∘scale)` at the scaled points `z_t`,
    then `J_s / scale` (column-wise, solver.py:1170-1172) fits `r` at the user points
    `x_t = shift + z_t∘scale`. -/
theorem unscale_jacobian {scale : ν → K} (hs : ∀ j, scale j ≠ 0) (shift : ν → K) (Z : Matrix ι ν K)
    (F : Matrix ι μ K) (c : μ → K) (J : Matrix μ ν K) (h : Interpolates Z F c J) :
    Interpolates (fun t => unscalePoint shift scale (Z t)) F
      (c - unscaleJac scale J *ᵥ shift) (unscaleJac scale J) := by
  intro t
  rw [unscale_modelVal hs]
  exact h t

/-- the same for the regression fit: the normal equations transfer to user coordinates. -/
theorem unscale_regression {scale : ν → K} (hs : ∀ j, scale j ≠ 0) (shift : ν → K) (Z : Matrix ι ν K)
    (F : Matrix ι μ K) (c : μ → K) (J : Matrix μ ν K) (h : IsLSQFit Z F c J) :
    IsLSQFit (fun t => unscalePoint shift scale (Z t)) F
      (c - unscaleJac scale J *ᵥ shift) (unscaleJac scale J) := by
  obtain ⟨h0, h1⟩ := h
  refine ⟨fun i => ?_, fun j i => ?_⟩
  · simp only [unscale_modelVal hs]; exact h0 i
  · simp only [unscale_modelVal hs, unscalePoint]
    have : ∀ t, (shift j + Z t j * scale j) * (modelVal c J (Z t) i - F t i) =
        shift j * (modelVal c J (Z t) i - F t i) + scale j * (Z t j * (modelVal c J (Z t) i - F t i)) := by
      intro t; ring
    simp only [this]
    rw [Finset.sum_add_distrib, ← Finset.mul_sum, ← Finset.mul_sum, h0 i, h1 j i, mul_zero, mul_zero, add_zero]

/-- full rank is a property of the point set, not of the coordinates: it survives translations … -/
theorem FullRank.translate {Y : Matrix ι ν K} (hY : FullRank Y) (w : ν → K) :
    FullRank (fun t => Y t + w : Matrix ι ν K) := by
  intro a v h
  have := hY (a + v ⬝ᵥ w) v (fun t => by have := h t; rw [dotProduct_add] at this; linear_combination this)
  obtain ⟨h1, h2⟩ := this
  subst h2
  simp only [zero_dotProduct, add_zero] at h1
  exact ⟨h1, rfl⟩

/-- … and coordinate-wise scalings (`remove_scaling`). -/
theorem FullRank.unscale {Z : Matrix ι ν K} (hZ : FullRank Z) {scale : ν → K} (hs : ∀ j, scale j ≠ 0)
    (shift : ν → K) : FullRank (fun t => unscalePoint shift scale (Z t) : Matrix ι ν K) := by
  intro a v h
  have key := hZ (a + v ⬝ᵥ shift) (fun j => v j * scale j) (fun t => by
    have := h t
    simp only [dotProduct, unscalePoint] at this ⊢
    have e : ∑ j, v j * (shift j + Z t j * scale j) = ∑ j, v j * shift j + ∑ j, v j * scale j * Z t j := by
      rw [← Finset.sum_add_distrib]; exact Finset.sum_congr rfl fun j _ => by ring
    rw [e] at this
    linear_combination this)
  obtain ⟨h1, h2⟩ := key
  have hv : v = 0 := by
    funext j
    have := congrFun h2 j
    simp only [Pi.zero_apply] at this
    rcases mul_eq_zero.mp this with h | h
    · exact h
    · exact absurd h (hs j)
  subst hv
  simp only [zero_dotProduct, add_zero] at h1
  exact ⟨h1, rfl⟩



/-! ### full-rank completion of the Jacobian (growing phase) -/

/-- if the completed Jacobian `Jn` acts like the fitted one on every direction `y_t − xopt`
    (the completion only adds components orthogonal to the interpolation directions), the
    completed model — with the constant term recomputed from `Jn` — still interpolates. -/
theorem fitCompleted_interpolates (s : IModel K ι ν μ) (dg : Matrix (Option ν) μ K) (Jn : Matrix μ ν K)
    (hfit : Interpolates s.Y s.F (modelConst dg s.xopt) (modelJac dg))
    (hJn : ∀ t, Jn *ᵥ (s.Y t - s.xopt) = modelJac dg *ᵥ (s.Y t - s.xopt)) :
    Interpolates s.Y s.F (s.fitCompleted dg Jn).c (s.fitCompleted dg Jn).J := by
  intro t
  rw [← hfit t]
  funext i
  have h := congrFun (hJn t) i
  simp only [Matrix.mulVec_sub, Pi.sub_apply] at h
  simp only [IModel.fitCompleted, modelVal, modelConst, Pi.add_apply]
  linear_combination h

/-! ### `n+1` points: the square system -/

/-- `n+1` points (`e : ι ≃ Option ν`) with a nonsingular interpolation matrix: the normal equations
    delivered by the QR path (`qr_normal_eqs`) force `W x = F`. -/
theorem solves_of_normal_eqs_square [DecidableEq ν] (e : ι ≃ Option ν) (W : Matrix ι (Option ν) K)
    (hdet : (W.submatrix e.symm id).det ≠ 0) (x : Matrix (Option ν) μ K) (F : Matrix ι μ K)
    (h : Wᵀ * (W * x - F) = 0) : W * x = F := by
  set E := W * x - F with hE
  have hdetT : ((W.submatrix e.symm id)ᵀ).det ≠ 0 := by rwa [Matrix.det_transpose]
  have hinj := Matrix.mulVec_injective_of_det_ne_zero hdetT
  have hE0 : E = 0 := by
    ext t i
    have hv : (W.submatrix e.symm id)ᵀ *ᵥ (fun o => E (e.symm o) i) = (W.submatrix e.symm id)ᵀ *ᵥ 0 := by
      funext o'
      have := congrFun (congrFun h o') i
      simp only [Matrix.mul_apply, Matrix.transpose_apply, Matrix.zero_apply] at this
      simp only [Matrix.mulVec, dotProduct, Matrix.transpose_apply, Matrix.submatrix_apply, id,
        Pi.zero_apply, mul_zero, Finset.sum_const_zero]
      rw [← this]
      exact Equiv.sum_comp e.symm (fun t => W t o' * E t i)
    have := congrFun (hinj hv) (e t)
    simpa using this
  exact sub_eq_zero.mp hE0

/-- a nonsingular (square) interpolation matrix means the points are in general position. -/
theorem fullRank_of_det_ne_zero [DecidableEq ν] (e : ι ≃ Option ν) (Y : Matrix ι ν K) (xopt : ν → K)
    {δ : K} (hδ : δ ≠ 0) (hdet : ((design Y xopt δ).submatrix e.symm id).det ≠ 0) : FullRank Y := by
  intro a v h
  have hinj := Matrix.mulVec_injective_of_det_ne_zero hdet
  let u : Option ν → K := fun o => match o with
    | none => a + v ⬝ᵥ xopt
    | some j => δ * v j
  have hu : (design Y xopt δ).submatrix e.symm id *ᵥ u = (design Y xopt δ).submatrix e.symm id *ᵥ 0 := by
    funext o
    have := h (e.symm o)
    simp only [Matrix.mulVec, dotProduct, Matrix.submatrix_apply, id, Fintype.sum_option, design,
      Matrix.of_apply, u, Pi.zero_apply, mul_zero, Finset.sum_const_zero] at this ⊢
    have e1 : ∑ j, (Y (e.symm o) j - xopt j) / δ * (δ * v j) = ∑ j, v j * Y (e.symm o) j - ∑ j, v j * xopt j := by
      rw [← Finset.sum_sub_distrib]
      exact Finset.sum_congr rfl fun j _ => by field_simp
    rw [e1]
    linear_combination this
  have hu0 := hinj hu
  have hv : v = 0 := by
    funext j
    have := congrFun hu0 (some j)
    simp only [u, Pi.zero_apply] at this
    rcases mul_eq_zero.mp this with h' | h'
    · exact absurd h' hδ
    · exact h'
  subst hv
  have := congrFun hu0 none
  simp only [u, zero_dotProduct, add_zero, Pi.zero_apply] at this
  exact ⟨this, rfl⟩

/-! ### regression: uniqueness needs an ordered field (a sum of squares vanishes only termwise) -/

section Ordered

variable {K : Type*} [Field K] [LinearOrder K] [IsStrictOrderedRing K]

/-- if the data can be interpolated at all, every least-squares fit interpolates them. -/
theorem lsq_interpolates_of_consistent {Y : Matrix ι ν K} {F : Matrix ι μ K} {c c' : μ → K}
    {J J' : Matrix μ ν K} (h : IsLSQFit Y F c J) (h' : Interpolates Y F c' J') : Interpolates Y F c J := by
  obtain ⟨h0, h1⟩ := h
  intro t0
  funext i
  set e : ι → K := fun t => modelVal c J (Y t) i - F t i with he
  let a : K := c i - c' i
  let v : ν → K := fun j => J i j - J' i j
  have hw : ∀ t, e t = a + ∑ j, v j * Y t j := by
    intro t
    have e2 := congrFun (h' t) i
    simp only [modelVal, Pi.add_apply, Matrix.mulVec, dotProduct] at e2
    simp only [he, a, v, modelVal, Pi.add_apply, Matrix.mulVec, dotProduct, ← e2]
    have : ∑ j, (J i j - J' i j) * Y t j = ∑ j, J i j * Y t j - ∑ j, J' i j * Y t j := by
      rw [← Finset.sum_sub_distrib]; exact Finset.sum_congr rfl fun j _ => by ring
    rw [this]; ring
  have hsq : ∑ t, e t * e t = 0 := by
    have step1 : ∑ t, e t * e t = ∑ t, (a * e t + ∑ j, v j * (Y t j * e t)) := by
      refine Finset.sum_congr rfl fun t _ => ?_
      calc e t * e t = (a + ∑ j, v j * Y t j) * e t := by rw [← hw t]
        _ = a * e t + ∑ j, v j * (Y t j * e t) := by
          rw [add_mul, Finset.sum_mul]
          exact congrArg₂ (· + ·) rfl (Finset.sum_congr rfl fun j _ => by ring)
    rw [step1, Finset.sum_add_distrib, ← Finset.mul_sum, Finset.sum_comm]
    have : ∀ j, ∑ t, v j * (Y t j * e t) = 0 := by
      intro j
      rw [← Finset.mul_sum]
      have := h1 j i
      simp only [he]
      rw [this, mul_zero]
    simp only [this, Finset.sum_const_zero, add_zero]
    have := h0 i
    simp only [he]
    rw [this, mul_zero]
  have hz := (Finset.sum_eq_zero_iff_of_nonneg (fun t _ => mul_self_nonneg (e t))).mp hsq t0 (Finset.mem_univ _)
  have : e t0 = 0 := mul_self_eq_zero.mp hz
  exact sub_eq_zero.mp this

/-- the least-squares fit is unique on a full-rank point set (when the data are consistent). -/
theorem lsq_unique {Y : Matrix ι ν K} {F : Matrix ι μ K} {c c' : μ → K} {J J' : Matrix μ ν K}
    (hY : FullRank Y) (h : IsLSQFit Y F c J) (h' : Interpolates Y F c' J') : c = c' ∧ J = J' :=
  interp_unique hY (lsq_interpolates_of_consistent h h') h'

/-- **regression_affine_exact** — affine residuals, more than `n+1` points of full column rank:
    the least-squares fit is the residual function itself, `J = A`. -/
theorem regression_affine_exact {A : Matrix μ ν K} {b : μ → K} {xbase : ν → K} {Y : Matrix ι ν K}
    {c : μ → K} {J : Matrix μ ν K} (hY : FullRank Y)
    (h : IsLSQFit Y (fun t => affineResid A b (xbase + Y t)) c J) :
    J = A ∧ ∀ y, modelVal c J y = affineResid A b (xbase + y) :=
  interp_affine_exact hY (lsq_interpolates_of_consistent h (affine_interpolates A b xbase Y))

/-- **lagrange_sum_one** — regression Lagrange functions (right-hand side `I`, normal equations)
    sum to one at **every** point `y`. -/
theorem lagrange_sum_one [DecidableEq ι] {Y : Matrix ι ν K} (hY : FullRank Y) (xopt : ν → K) {δ : K}
    (hδ : δ ≠ 0) (x : Matrix (Option ν) ι K)
    (hsolve : (design Y xopt δ)ᵀ * (design Y xopt δ * x - 1) = 0) (y : ν → K) :
    ∑ k, lagrangeVal (colScale (rightScaling δ) x) xopt k y = 1 := by
  rw [sum_lagrangeVal]
  set ones : Matrix ι Unit K := Matrix.of fun _ _ => (1 : K) with hones
  have hn : (design Y xopt δ)ᵀ * (design Y xopt δ * (x * ones) - ones) = 0 := by
    have e1 : design Y xopt δ * (x * ones) - ones = (design Y xopt δ * x - 1) * ones := by
      rw [Matrix.sub_mul, Matrix.mul_assoc, Matrix.one_mul]
    rw [e1, ← Matrix.mul_assoc, hsolve, Matrix.zero_mul]
  have hfit := regression_normal_eqs Y ones xopt hδ (x * ones) hn
  have hint : Interpolates Y ones (fun _ => 1) 0 := by
    intro t; funext i
    simp [modelVal, hones]
  obtain ⟨hc, hJ⟩ := lsq_unique hY hfit hint
  rw [hc, hJ]
  simp [modelVal]

end Ordered

end Interp
end Dfols
