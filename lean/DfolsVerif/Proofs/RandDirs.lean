/-
  Helper lemmas for C14 about the `RandDirs` kernel (util.py:93-209).

  * any linear order, arbitrary arithmetic (= any rounding): the final clip of util.py:171/208 puts
    every component in `[lower, upper]`;
  * exact arithmetic over a linearly ordered field, `lower ≤ 0 ≤ upper`: `0 ≤ get_scale(…) ≤ delta`,
    clipping towards a box that contains 0 does not increase a component's magnitude, hence every
    component of a returned direction satisfies `|d_j| ≤ delta·|w_j|` for the vector `w` that was scaled.
-/
import DfolsVerif.Kernels.RandDirs
import DfolsVerif.Proofs.InitDirs
import Mathlib.Algebra.Order.BigOperators.Group.Finset
import Mathlib.Algebra.BigOperators.Ring.Finset
import Mathlib.Algebra.Order.Ring.Abs

namespace Dfols.RandDirs
open Dfols.InitDirs

/-! ### any linear order -/
section order
variable {α : Type} [LinearOrder α]

theorem clipDir_eq (lower upper r : α) : clipDir lower upper r = max (min r upper) lower := by
  unfold clipDir; rw [npmax_eq_max, npmin_eq_min]

/-- util.py:171 / 208: after the final clip a component lies in `[lower, upper]` — whatever was computed before -/
theorem clipDir_mem {lower upper : α} (h : lower ≤ upper) (r : α) :
    lower ≤ clipDir lower upper r ∧ clipDir lower upper r ≤ upper := by
  rw [clipDir_eq]
  exact ⟨le_max_right _ _, max_le (min_le_right _ _) h⟩

theorem clipDir_of_mem {lower upper r : α} (h1 : lower ≤ r) (h2 : r ≤ upper) : clipDir lower upper r = r := by
  rw [clipDir_eq, min_eq_left h2, max_eq_left h1]

end order

/-! ### exact arithmetic -/
section field
variable {K : Type} [Field K] [LinearOrder K] [IsStrictOrderedRing K]

theorem lit1 : (1.0 : K) = 1 := by norm_num
theorem lit05 : (0.5 : K) = 1 / 2 := by norm_num

/-- one pass of the loop of `get_scale` keeps `0 ≤ scale` and never increases it -/
theorem scaleStep_bounds {w lower upper : Nat → K} {s : K} {j : Nat} (hl : lower j ≤ 0) (hu : 0 ≤ upper j)
    (hs : 0 ≤ s) : 0 ≤ scaleStep w lower upper s j ∧ scaleStep w lower upper s j ≤ s := by
  unfold scaleStep
  simp only [lit0, pymin_eq_min]
  split_ifs with h1 h2
  · exact ⟨le_min hs (div_nonneg_of_nonpos hl h1.le), min_le_left _ _⟩
  · exact ⟨le_min hs (div_nonneg hu h2.le), min_le_left _ _⟩
  · exact ⟨hs, le_refl _⟩

theorem foldl_scale_bounds {n : Nat} {w lower upper : Nat → K} (hl : ∀ j, j < n → lower j ≤ 0)
    (hu : ∀ j, j < n → 0 ≤ upper j) (l : List Nat) (hmem : ∀ j ∈ l, j < n) (s : K) (hs : 0 ≤ s) :
    0 ≤ l.foldl (scaleStep w lower upper) s ∧ l.foldl (scaleStep w lower upper) s ≤ s := by
  induction l generalizing s with
  | nil => exact ⟨hs, le_refl _⟩
  | cons a t ih =>
    have ha : a < n := hmem a (by simp)
    have hb := scaleStep_bounds (w := w) (hl a ha) (hu a ha) hs
    have := ih (fun j hj => hmem j (by simp [hj])) _ hb.1
    simp only [List.foldl_cons]
    exact ⟨this.1, le_trans this.2 hb.2⟩

/-- **`0 ≤ get_scale(dirn, delta, lower, upper) ≤ delta`** when the box contains the origin -/
theorem getScale_bounds {n : Nat} {w lower upper : Nat → K} {s0 : K} (hl : ∀ j, j < n → lower j ≤ 0)
    (hu : ∀ j, j < n → 0 ≤ upper j) (hs : 0 ≤ s0) :
    0 ≤ getScale n w s0 lower upper ∧ getScale n w s0 lower upper ≤ s0 :=
  foldl_scale_bounds hl hu _ (fun _ hj => List.mem_range.mp hj) s0 hs

/-- clipping into a box that contains 0 moves a number towards 0 -/
theorem abs_clipDir_le {lower upper : K} (hl : lower ≤ 0) (hu : 0 ≤ upper) (r : K) :
    |clipDir lower upper r| ≤ |r| := by
  rw [clipDir_eq]
  rcases le_total r upper with h | h
  · rw [min_eq_left h]
    rcases le_total lower r with h' | h'
    · rw [max_eq_left h']
    · rw [max_eq_right h', abs_of_nonpos hl, abs_of_nonpos (le_trans h' hl)]; linarith
  · rw [min_eq_right h, max_eq_left (le_trans hl hu), abs_of_nonneg hu, abs_of_nonneg (le_trans hu h)]
    exact h

/-- **componentwise length bound**: a scaled and clipped component is no larger than `s0·|w_j|` -/
theorem abs_scaled_le {n : Nat} {w lower upper : Nat → K} {s0 : K} (hl : ∀ j, j < n → lower j ≤ 0)
    (hu : ∀ j, j < n → 0 ≤ upper j) (hs : 0 ≤ s0) {j : Nat} (hj : j < n) :
    |clipDir (lower j) (upper j) (getScale n w s0 lower upper * w j)| ≤ s0 * |w j| := by
  have hb := getScale_bounds (w := w) hl hu hs
  refine le_trans (abs_clipDir_le (hl j hj) (hu j hj) _) ?_
  rw [abs_mul, abs_of_nonneg hb.1]
  exact mul_le_mul_of_nonneg_right hb.2 (abs_nonneg _)

/-- from the componentwise bound to the Euclidean one: `Σ d_j² ≤ s0²·Σ w_j²` -/
theorem sum_sq_le {n : Nat} {d w : Nat → K} {s0 : K} (h : ∀ j, j < n → |d j| ≤ s0 * |w j|) :
    (∑ j ∈ Finset.range n, d j ^ 2) ≤ s0 ^ 2 * ∑ j ∈ Finset.range n, w j ^ 2 := by
  rw [Finset.mul_sum]
  apply Finset.sum_le_sum
  intro j hj
  have hj' := Finset.mem_range.mp hj
  have := pow_le_pow_left₀ (abs_nonneg (d j)) (h j hj') 2
  rw [sq_abs, mul_pow, sq_abs] at this
  exact this

end field

end Dfols.RandDirs
