/-
  C04 invariant of the book-keeping acceptor: the value that would be returned is at least as good
  (NaN worst) as every evaluation made so far — for every accepted event list without sample
  averaging and without a regulariser.
-/
import DfolsVerif.Proofs.BookAccT

namespace Dfols
namespace BookAcc

open Val MState

/-! ### facts about `get_final_results` and the hard-restart merge -/

theorem final_init (cap x0 : Nat) (r0 : List Nat) (v0 : Val) (ns0 label : Nat) (ss : List (List Nat)) :
    ∃ f, (MState.init cap x0 r0 v0 ns0 label ss).getFinal = some f ∧ f.obj = v0 := by
  simp [MState.init, getFinal, finalPrefersOpt]

theorem objopt_of_slot {m : M} {sl : Slot Nat (List Nat)} (h : m.slots[m.kopt]? = some sl) : m.objopt = sl.obj := by
  simp [objopt, objAt, objL, h]

/-- the final value only improves when the incumbent's value improves (or a saved value covers the
    old incumbent) and the saved value only improves. -/
theorem final_mono {m m' : M} {f f' : Final Nat (List Nat)} (hf : m.getFinal = some f) (hf' : m'.getFinal = some f')
    (hopt : Better m'.objopt m.objopt ∨ ∃ sv', m'.saved = some sv' ∧ Better sv'.obj m.objopt)
    (hsv : ∀ sv, m.saved = some sv → ∃ sv', m'.saved = some sv' ∧ Better sv'.obj sv.obj) :
    Better f'.obj f.obj := by
  have hb' := getFinal_better hf'
  rcases getFinal_mem hf with ⟨sl, hsl, _, _, _, _, ho⟩ | ⟨sv, hsv0, _, _, _, _, ho⟩
  · rw [ho, ← objopt_of_slot hsl]
    rcases hopt with h1 | ⟨sv', h1, h2⟩
    · exact Better.trans hb'.1 h1
    · exact Better.trans (hb'.2 sv' h1) h2
  · rw [ho]
    obtain ⟨sv', h1, h2⟩ := hsv sv hsv0
    exact Better.trans (hb'.2 sv' h1) h2

theorem merge_right (best : Option Cand) (c : Cand) : Better (merge best c).obj c.obj := by
  unfold merge
  split
  · exact Better.refl _
  · rename_i b
    split
    · exact Better.refl _
    · rename_i hc
      simp only [Bool.or_eq_true, not_or, Bool.not_eq_true] at hc
      exact better_of_not_lt hc.1 hc.2

theorem merge_left (best : Option Cand) (c : Cand) : ∀ b, best = some b → Better (merge best c).obj b.obj := by
  intro b hb
  subst hb
  simp only [merge]
  split
  · rename_i hc
    simp only [Bool.or_eq_true] at hc
    rcases hc with hc | hc
    · exact better_of_lt hc
    · cases hbo : b.obj with
      | nan => exact better_nan _
      | num k => simp [hbo, Val.isNaN] at hc
  · exact Better.refl _

/-! ### the invariant -/

def Mode.isRun : Mode → Bool
  | .run => true
  | _ => false

/-- `v` is dominated by what `solve` holds from earlier runs -/
def DomB (s : St) (v : Val) : Prop := ∃ b, s.best = some b ∧ Better b.obj v
/-- `v` is dominated by what the current run would return -/
def DomM (s : St) (v : Val) : Prop :=
  Mode.isRun s.mode = true ∧ ∃ m f, s.m = some m ∧ m.getFinal = some f ∧ Better f.obj v
/-- evaluation `i` with value `v` is still waiting to be handed to the model -/
def HeldP (s : St) (i : Nat) (v : Val) : Prop :=
  ∃ p, s.pend = some p ∧ p.used = 0 ∧ p.evals = [i] ∧ p.vals = [v]
def HeldX (s : St) (i : Nat) (v : Val) : Prop :=
  ∃ g, s.mode = .x0 g ∧ g.evals = [i] ∧ g.vals = [v]

def Covered (s : St) (i : Nat) (v : Val) : Prop :=
  v = .nan ∨ DomB s v ∨ DomM s v ∨ HeldP s i v ∨ HeldX s i v

def GroupOK (p : Pending) : Prop :=
  p.evals.length ≤ 1 ∧ p.vals.length = p.evals.length ∧
  (p.closed = true → p.evals.length = 1 → p.vals = [p.vmean]) ∧ p.used ≤ p.evals.length

structure InvB (s : St) : Prop where
  cover : ∀ h ∈ s.hist, Covered s h.1 h.2.2.2
  pend : ∀ p, s.pend = some p → GroupOK p
  x0 : ∀ g, s.mode = .x0 g → GroupOK g ∧ g.closed = false
  kopt : ∀ m, s.m = some m → m.kopt < m.slots.length
  runM : Mode.isRun s.mode = true → ∃ m, s.m = some m
  nopend : (∀ g, s.mode = .x0 g → s.pend = none) ∧ (s.mode = .old → s.pend = none) ∧ (s.mode = .idle → s.pend = none)

theorem init_invB (hasH : Bool) : InvB (init hasH) :=
  ⟨by simp [init], by simp [init], by simp [init], by simp [init], by simp [init, Mode.isRun], by simp [init]⟩

/-- coverage survives any step that keeps `best`, only improves the run's final value (or leaves the
    model alone), keeps the mode, and does not release held evaluations. -/
theorem Covered.mono {s s' : St} {i : Nat} {v : Val} (hc : Covered s i v)
    (hbest : ∀ b, s.best = some b → ∃ b', s'.best = some b' ∧ Better b'.obj b.obj)
    (hrun : DomM s v → DomM s' v ∨ DomB s' v)
    (hheldP : HeldP s i v → Covered s' i v)
    (hheldX : HeldX s i v → Covered s' i v) : Covered s' i v := by
  rcases hc with h | ⟨b, hb, hbv⟩ | h | h | h
  · exact Or.inl h
  · obtain ⟨b', hb', hbb⟩ := hbest b hb
    exact Or.inr (Or.inl ⟨b', hb', Better.trans hbb hbv⟩)
  · rcases hrun h with h' | h'
    · exact Or.inr (Or.inr (Or.inl h'))
    · exact Or.inr (Or.inl h')
  · exact hheldP h
  · exact hheldX h


theorem DomM.transfer {s s' : St} {v : Val} (h : DomM s v) (hmode : Mode.isRun s'.mode = true)
    (hm : ∀ m f, s.m = some m → m.getFinal = some f →
            ∃ m' f', s'.m = some m' ∧ m'.getFinal = some f' ∧ Better f'.obj f.obj) : DomM s' v := by
  obtain ⟨_, m, f, h1, h2, h3⟩ := h
  obtain ⟨m', f', h1', h2', h3'⟩ := hm m f h1 h2
  exact ⟨hmode, m', f', h1', h2', Better.trans h3' h3⟩

theorem getFinal_obj_congr {m m' : M} {f : Final Nat (List Nat)} (h : m.getFinal = some f)
    (h1 : m'.slots = m.slots) (h2 : m'.kopt = m.kopt) (h3 : m'.saved = m.saved) :
    ∃ f', m'.getFinal = some f' ∧ f'.obj = f.obj := by
  unfold getFinal at h ⊢
  rw [h1, h2, h3]
  split at h
  · simp at h
  · rename_i sl hsl
    split at h
    · rename_i hp
      simp only [hp, ↓reduceIte]
      simp only [Option.some.injEq] at h; subst h; exact ⟨_, rfl, rfl⟩
    · rename_i hp
      simp only [hp, Bool.false_eq_true, ↓reduceIte]
      split at h
      · simp at h
      · rename_i sv hsv
        simp only [Option.some.injEq] at h; subst h; exact ⟨_, rfl, rfl⟩

theorem getFinal_shiftBase {m : M} {f : Final Nat (List Nat)} (h : m.getFinal = some f) :
    ∃ f', m.shiftBase.getFinal = some f' ∧ f'.obj = f.obj := getFinal_obj_congr h rfl rfl rfl

theorem getFinal_interpolate {m : M} {f : Final Nat (List Nat)} (h : m.getFinal = some f) :
    ∃ f', m.interpolate.getFinal = some f' ∧ f'.obj = f.obj := getFinal_obj_congr h rfl rfl rfl

/-- a step that changes nothing the coverage looks at -/
theorem InvB.of_same {s s' : St} (hi : InvB s) (hh : s'.hist = s.hist) (hb : s'.best = s.best) (hm : s'.m = s.m)
    (hmode : s'.mode = s.mode) (hp : s'.pend = s.pend) : InvB s' := by
  obtain ⟨h1, h2, h3, h4, h5, h6⟩ := hi
  refine ⟨?_, by rw [hp]; exact h2, by rw [hmode]; exact h3, by rw [hm]; exact h4, by rw [hmode, hm]; exact h5,
          by rw [hmode, hp]; exact h6⟩
  intro h hh'
  rw [hh] at hh'
  rcases h1 h hh' with c | ⟨b, c1, c2⟩ | ⟨c0, m, f, c1, c2, c3⟩ | ⟨p, c1, c2⟩ | ⟨g, c1, c2⟩
  · exact Or.inl c
  · exact Or.inr (Or.inl ⟨b, by rw [hb]; exact c1, c2⟩)
  · exact Or.inr (Or.inr (Or.inl ⟨by rw [hmode]; exact c0, m, f, by rw [hm]; exact c1, c2, c3⟩))
  · exact Or.inr (Or.inr (Or.inr (Or.inl ⟨p, by rw [hp]; exact c1, c2⟩)))
  · exact Or.inr (Or.inr (Or.inr (Or.inr ⟨g, by rw [hmode]; exact c1, c2⟩)))


/-- replacing the model by one with the same final value keeps the invariant -/
theorem InvB.of_model_map {s : St} (hi : InvB s) (g : M → M)
    (hg : ∀ m f, m.getFinal = some f → ∃ f', (g m).getFinal = some f' ∧ f'.obj = f.obj)
    (hk : ∀ m, m.kopt < m.slots.length → (g m).kopt < (g m).slots.length) :
    InvB { s with m := s.m.map g } := by
  obtain ⟨h1, h2, h3, h4, h5, h6⟩ := hi
  refine ⟨?_, h2, h3, ?_, ?_, h6⟩
  · intro h hh
    rcases h1 h hh with c | ⟨b, c1, c2⟩ | ⟨c0, m, f, c1, c2, c3⟩ | c | c
    · exact Or.inl c
    · exact Or.inr (Or.inl ⟨b, c1, c2⟩)
    · obtain ⟨f', hf', hfo⟩ := hg m f c2
      exact Or.inr (Or.inr (Or.inl ⟨c0, g m, f', by simp [c1], hf', by rw [hfo]; exact c3⟩))
    · exact Or.inr (Or.inr (Or.inr (Or.inl c)))
    · exact Or.inr (Or.inr (Or.inr (Or.inr c)))
  · intro m hm
    simp only [Option.map_eq_some_iff] at hm
    obtain ⟨m0, hm0, rfl⟩ := hm
    exact hk m0 (h4 m0 hm0)
  · intro hr
    obtain ⟨m, hm⟩ := h5 hr
    exact ⟨g m, by simp [hm]⟩

theorem getFinal_some {m : M} (hk : m.kopt < m.slots.length) : ∃ f, m.getFinal = some f := by
  have := getFinal_isSome hk
  cases hf : m.getFinal with
  | none => simp [hf] at this
  | some f => exact ⟨f, rfl⟩

/-- a guarded `change_point` only improves the final value and covers the new value -/
theorem chg_final {m m' : M} (hk : m.kopt < m.slots.length) {k x : Nat} {r : List Nat} {v : Val} {en : Nat}
    (hcp : m.changePoint k x r v en true = .ok m') (hov : overwriteOK m k v = true)
    {f : Final Nat (List Nat)} (hf : m.getFinal = some f) :
    ∃ f', m'.getFinal = some f' ∧ Better f'.obj f.obj ∧ Better f'.obj v := by
  obtain ⟨hk', hsv', _, _, _, _⟩ := changePoint_struct hk hcp
  obtain ⟨ho1, ho2, ho3⟩ := changePoint_objopt hk hcp
  obtain ⟨f', hf'⟩ := getFinal_some hk'
  refine ⟨f', hf', ?_, Better.trans (getFinal_better hf').1 ho2⟩
  apply final_mono hf hf'
  · by_cases hkk : k = m.kopt
    · simp only [overwriteOK, hkk, ↓reduceIte, Bool.or_eq_true, decide_eq_true_eq] at hov
      rcases hov with hov | hov
      · left
        rcases ho1 with h1 | ⟨h1, _⟩
        · rw [h1]; exact hov
        · exact absurd hkk h1
      · right
        cases hs : m.saved with
        | none => simp [hs] at hov
        | some sv =>
          simp only [hs, decide_eq_true_eq] at hov
          exact ⟨sv, by rw [hsv', hs], hov⟩
    · exact Or.inl (ho3 hkk)
  · intro sv hsv; exact ⟨sv, by rw [hsv', hsv], Better.refl _⟩

theorem adp_final {m : M} (hk : m.kopt < m.slots.length) (x : Nat) (r : List Nat) (v : Val) (en : Nat)
    {f : Final Nat (List Nat)} (hf : m.getFinal = some f) :
    ∃ f', (m.addPoint x r v en).getFinal = some f' ∧ Better f'.obj f.obj ∧ Better f'.obj v := by
  obtain ⟨hk', hsv', _, _, _, ho2, ho3⟩ := addPoint_struct hk x r v en
  obtain ⟨f', hf'⟩ := getFinal_some hk'
  refine ⟨f', hf', ?_, Better.trans (getFinal_better hf').1 ho2⟩
  apply final_mono hf hf' (Or.inl ho3)
  intro sv hsv; exact ⟨sv, by rw [hsv', hsv], Better.refl _⟩

theorem sav_final {m : M} (hk : m.kopt < m.slots.length) (x : Nat) (r : List Nat) (v : Val) (ns en : Nat)
    {f : Final Nat (List Nat)} (hf : m.getFinal = some f) :
    ∃ f', (m.savePoint x r v ns en).1.getFinal = some f' ∧ Better f'.obj f.obj ∧ Better f'.obj v := by
  obtain ⟨h1, h2, _, _⟩ := savePoint_struct m x r v ns en
  obtain ⟨sv, hsv, hb1, hb2⟩ := savePoint_better m x r v ns en
  obtain ⟨f', hf'⟩ := getFinal_some (m := (m.savePoint x r v ns en).1) (by rw [h1, h2]; exact hk)
  refine ⟨f', hf', ?_, Better.trans ((getFinal_better hf').2 sv hsv) hb1⟩
  apply final_mono hf hf'
  · left
    have : (m.savePoint x r v ns en).1.objopt = m.objopt := by simp [objopt, objAt, h1, h2]
    rw [this]; exact Better.refl _
  · intro sv0 hsv0; exact ⟨sv, hsv, hb2 sv0 hsv0⟩

/-- while something is pending the controller exists -/
theorem run_of_pend {s : St} (hi : InvB s) {p : Pending} (hp : s.pend = some p) : Mode.isRun s.mode = true := by
  cases hm : s.mode with
  | run => rfl
  | idle => have := hi.nopend.2.2 hm; rw [hp] at this; simp at this
  | old => have := hi.nopend.2.1 hm; rw [hp] at this; simp at this
  | x0 g => have := hi.nopend.1 g hm; rw [hp] at this; simp at this

/-- common part of chg / adp / non-incumbent sav: the single pending evaluation `src` with value `v`
    is handed to the model, whose final value improves and covers `v`. -/
theorem InvB.consume {s : St} (hi : InvB s) {m m' : M} {p : Pending} (hm : s.m = some m) (hp : s.pend = some p)
    {v : Val}
    (hfin : ∀ f, m.getFinal = some f → ∃ f', m'.getFinal = some f' ∧ Better f'.obj f.obj ∧ Better f'.obj v)
    (hk' : m'.kopt < m'.slots.length)
    (hheld : ∀ i hv, p.used = 0 → p.evals = [i] → p.vals = [hv] → hv = v)
    (pend' : Option Pending) (hp' : ∀ q, pend' = some q → GroupOK q ∧ q.used ≠ 0) :
    InvB { s with m := some m', pend := pend' } := by
  have hrun := run_of_pend hi hp
  obtain ⟨h1, h2, h3, h4, h5, h6⟩ := hi
  obtain ⟨f0, hf0⟩ := getFinal_some (h4 m hm)
  obtain ⟨f0', hf0', _, hb0⟩ := hfin f0 hf0
  have hnx : ∀ g, s.mode ≠ .x0 g := fun g hg => by rw [hg] at hrun; simp [Mode.isRun] at hrun
  have hno : s.mode ≠ .old := fun hg => by rw [hg] at hrun; simp [Mode.isRun] at hrun
  have hni : s.mode ≠ .idle := fun hg => by rw [hg] at hrun; simp [Mode.isRun] at hrun
  refine ⟨?_, fun q hq => (hp' q hq).1, h3, ?_, fun _ => ⟨m', rfl⟩,
          ⟨fun g hg => absurd hg (hnx g), fun hg => absurd hg hno, fun hg => absurd hg hni⟩⟩
  · intro hh hmem
    rcases h1 hh hmem with c | c | ⟨_, m0, f, d1, d2, d3⟩ | ⟨q, c1, c2, c3, c4⟩ | ⟨g, c1, _⟩
    · exact Or.inl c
    · exact Or.inr (Or.inl c)
    · rw [hm] at d1; simp only [Option.some.injEq] at d1; subst d1
      obtain ⟨f', hf', hb, _⟩ := hfin f d2
      exact Or.inr (Or.inr (Or.inl ⟨hrun, m', f', rfl, hf', Better.trans hb d3⟩))
    · rw [hp] at c1; simp only [Option.some.injEq] at c1; subst c1
      have := hheld _ _ c2 c3 c4
      rw [this]
      exact Or.inr (Or.inr (Or.inl ⟨hrun, m', f0', rfl, hf0', hb0⟩))
    · exact absurd c1 (hnx g)
  · intro m'' hm''
    simp only [Option.some.injEq] at hm''
    subst hm''
    exact hk'

/-- a pending single evaluation that may be skipped (`pendOK`) while still unused has value NaN -/
theorem held_nan_of_pendOK {p : Pending} (hg : GroupOK p) (hok : pendOK (some p) = true)
    {i : Nat} {hv : Val} (c2 : p.used = 0) (c3 : p.evals = [i]) (c4 : p.vals = [hv]) : hv = .nan := by
  simp only [pendOK, Pending.settled, c2, c3, Bool.or_eq_true, Bool.and_eq_true, beq_iff_eq,
    List.length_cons, List.length_nil] at hok
  rcases hok with hp | hp
  · omega
  · have h := hg.2.2.1 hp.1.1 (by simp [c3])
    rw [c4] at h
    simp only [List.cons.injEq, and_true] at h
    rw [h]
    cases hvm : p.vmean with
    | nan => rfl
    | num k => simp [hvm, Val.isNaN] at hp

theorem step_hasH {s s' : St} {e : Ev} (h : step s e = .ok s') : s'.hasH = s.hasH := by
  cases e <;> simp only [step] at h
  all_goals (repeat' split at h)
  all_goals (first | (simp at h; done) | skip)
  all_goals (simp only [Except.ok.injEq] at h; subst h; rfl)

/-- `averaged` is never reset -/
theorem step_averaged {s s' : St} {e : Ev} (h : step s e = .ok s') (ha : s'.averaged = false) : s.averaged = false := by
  cases e <;> simp only [step] at h
  all_goals (repeat' split at h)
  all_goals (first | (simp at h; done) | skip)
  all_goals (simp only [Except.ok.injEq] at h; subst h)
  all_goals (first | exact ha | (simp at ha))

theorem step_invB {s s' : St} {e : Ev} (hH : s.hasH = false) (hi : InvB s) (h : step s e = .ok s')
    (hav : s'.averaged = false) : InvB s' := by
  cases e <;> simp only [step] at h
  case ns k => simp only [Except.ok.injEq] at h; subst h; exact hi
  case objraise => simp only [Except.ok.injEq] at h; subst h; exact hi
  case ext => simp only [Except.ok.injEq] at h; subst h; exact hi
  case srb => simp only [Except.ok.injEq] at h; subst h; exact hi
  case sre => simp only [Except.ok.injEq] at h; subst h; exact hi
  case other => simp only [Except.ok.injEq] at h; subst h; exact hi
  case swp k1 k2 => simp at h
  case fin label ns v jac =>
    repeat' split at h
    all_goals (first | (simp at h; done) | skip)
    all_goals (simp only [Except.ok.injEq] at h; subst h)
    exact hi
  case res nf nx nruns flag cls label v jacNone =>
    repeat' split at h
    all_goals (first | (simp at h; done) | skip)
    all_goals (simp only [Except.ok.injEq] at h; subst h)
    exact hi
  case shf =>
    simp only [Except.ok.injEq] at h; subst h
    exact hi.of_model_map MState.shiftBase (fun m f hf => getFinal_shiftBase hf) (fun m hk => hk)
  case itp ok =>
    simp only [Except.ok.injEq] at h; subst h
    split
    · exact hi.of_model_map MState.interpolate (fun m f hf => getFinal_interpolate hf) (fun m hk => hk)
    · exact hi
  case rst nruns nf nx hasOld maxfun npt =>
    obtain ⟨h1, h2, h3, h4, h5, h6⟩ := hi
    cases hmode : s.mode <;> rw [hmode] at h <;> simp only at h
    case idle =>
      have hcov : ∀ s'' : St, s''.hist = s.hist → s''.best = s.best → ∀ hh ∈ s''.hist, Covered s'' hh.1 hh.2.2.2 := by
        intro s'' e1 e2 hh hmem
        rw [e1] at hmem
        rcases h1 hh hmem with c | ⟨b, c1, c2⟩ | ⟨c0, _⟩ | ⟨p, c1, _⟩ | ⟨g, c1, _⟩
        · exact Or.inl c
        · exact Or.inr (Or.inl ⟨b, by rw [e2]; exact c1, c2⟩)
        · rw [hmode] at c0; simp [Mode.isRun] at c0
        · rw [h6.2.2 hmode] at c1; simp at c1
        · rw [hmode] at c1; simp at c1
      repeat' split at h
      all_goals (first | (simp at h; done) | skip)
      all_goals (simp only [Except.ok.injEq] at h; subst h)
      · exact ⟨hcov _ rfl rfl, by simp, by simp, by simp, by simp [Mode.isRun], by simp⟩
      · refine ⟨hcov _ rfl rfl, by simp, ?_, by simp, by simp [Mode.isRun], by simp⟩
        intro g hg
        simp only [Mode.x0.injEq] at hg
        subst hg
        exact ⟨⟨by simp, by simp, by simp, by simp⟩, rfl⟩
    all_goals simp at h
  case evb want xid =>
    obtain ⟨h1, h2, h3, h4, h5, h6⟩ := hi
    cases hmode : s.mode <;> rw [hmode] at h <;> simp only at h
    case run =>
      split at h
      · rename_i hpok
        simp only [Except.ok.injEq] at h; subst h
        refine ⟨?_, ?_, by simp [hmode], h4, fun _ => h5 (by rw [hmode]; rfl), by simp [hmode]⟩
        · intro hh hmem
          rcases h1 hh hmem with c | c | ⟨_, m, f, d1, d2, d3⟩ | ⟨p, c1, c2, c3, c4⟩ | ⟨g, c1, _⟩
          · exact Or.inl c
          · exact Or.inr (Or.inl c)
          · exact Or.inr (Or.inr (Or.inl ⟨rfl, m, f, d1, d2, d3⟩))
          · -- the old pending group was settled or dropped as NaN
            have hg := h2 p c1
            simp only [pendOK, c1, Pending.settled, c2, c3, Bool.or_eq_true, Bool.and_eq_true, beq_iff_eq,
              List.length_cons, List.length_nil] at hpok
            rcases hpok with hp | hp
            · omega
            · have hv := hg.2.2.1 hp.1.1 (by simp [c3])
              rw [c4] at hv
              simp only [List.cons.injEq, and_true] at hv
              left
              rw [hv]
              cases hvm : p.vmean with
              | nan => rfl
              | num k => simp [hvm, Val.isNaN] at hp
          · rw [hmode] at c1; simp at c1
        · intro p hp
          simp only [Option.some.injEq] at hp
          subst hp
          exact ⟨by simp, by simp, by simp, by simp⟩
      · simp at h
    all_goals simp at h
  case obj i evalNo ptNo xid v ncalls =>
    obtain ⟨h1, h2, h3, h4, h5, h6⟩ := hi
    cases hmode : s.mode <;> rw [hmode] at h <;> simp only at h
    case x0 g =>
      have hg := h3 g hmode
      have hnp := h6.1 g hmode
      repeat' split at h
      all_goals (first | (simp at h; done) | skip)
      all_goals (simp only [Except.ok.injEq] at h; subst h)
      · rename_i hev
        refine ⟨?_, h2, ?_, h4, by simp [Mode.isRun], ⟨fun _ _ => hnp, by simp, by simp⟩⟩
        · intro hh hmem
          simp only [List.mem_cons] at hmem
          rcases hmem with hmem | hmem
          · subst hmem
            exact Or.inr (Or.inr (Or.inr (Or.inr ⟨_, rfl, rfl, rfl⟩)))
          · rcases h1 hh hmem with c | ⟨b, c1, c2⟩ | ⟨c0, _⟩ | ⟨p, c1, _⟩ | ⟨g', c1, c2, _⟩
            · exact Or.inl c
            · exact Or.inr (Or.inl ⟨b, c1, c2⟩)
            · rw [hmode] at c0; simp [Mode.isRun] at c0
            · rw [hnp] at c1; simp at c1
            · rw [hmode] at c1; simp only [Mode.x0.injEq] at c1; subst c1; rw [hev] at c2; simp at c2
        · intro g' hg'
          simp only [Mode.x0.injEq] at hg'
          subst hg'
          have hgu : g.used ≤ 1 := by have := hg.1.2.2.2; rw [hev] at this; simp at this; omega
          refine ⟨⟨by simp, by simp, ?_, by simpa using hgu⟩, hg.2⟩
          intro hc; simp only at hc; rw [hg.2] at hc; simp at hc
      · simp at hav
    case run =>
      cases hpend : s.pend <;> rw [hpend] at h <;> simp only at h
      case none => simp at h
      case some p =>
        have hp := h2 p hpend
        repeat' split at h
        all_goals (first | (simp at h; done) | skip)
        all_goals (simp only [Except.ok.injEq] at h; subst h)
        · rename_i hcl hev hx
          have hused : p.used = 0 := by have := hp.2.2.2; rw [hev] at this; simpa using this
          refine ⟨?_, ?_, by simp, h4, fun _ => h5 (by rw [hmode]; rfl), by simp⟩
          · intro hh hmem
            simp only [List.mem_cons] at hmem
            rcases hmem with hmem | hmem
            · subst hmem
              exact Or.inr (Or.inr (Or.inr (Or.inl ⟨_, rfl, hused, rfl, rfl⟩)))
            · rcases h1 hh hmem with c | ⟨b, c1, c2⟩ | ⟨_, m, f, d1, d2, d3⟩ | ⟨p', c1, _, c3, _⟩ | ⟨g', c1, _⟩
              · exact Or.inl c
              · exact Or.inr (Or.inl ⟨b, c1, c2⟩)
              · exact Or.inr (Or.inr (Or.inl ⟨rfl, m, f, d1, d2, d3⟩))
              · rw [hpend] at c1; simp only [Option.some.injEq] at c1; subst c1; rw [hev] at c3; simp at c3
              · rw [hmode] at c1; simp at c1
          · intro p' hp'
            simp only [Option.some.injEq] at hp'
            subst hp'
            refine ⟨by simp, by simp, ?_, by simp [hused]⟩
            intro hc; simp only at hc; simp only [Bool.not_eq_true] at hcl; rw [hcl] at hc; simp at hc
        · simp at hav
    all_goals simp at h
  case eve k ex cls vmean thr anyNaN =>
    obtain ⟨h1, h2, h3, h4, h5, h6⟩ := hi
    cases hpend : s.pend <;> rw [hpend] at h <;> simp only at h
    case none => simp at h
    case some p =>
      have hp := h2 p hpend
      have hnx : ∀ g, s.mode ≠ .x0 g := fun g hg => by have := h6.1 g hg; rw [hpend] at this; simp at this
      have hno : s.mode ≠ .old := fun hg => by have := h6.2.1 hg; rw [hpend] at this; simp at this
      have hni : s.mode ≠ .idle := fun hg => by have := h6.2.2 hg; rw [hpend] at this; simp at this
      repeat' split at h
      all_goals (first | (simp at h; done) | skip)
      all_goals (simp only [Except.ok.injEq] at h; subst h)
      · rename_i hcl hk hk0
        simp only [ne_eq, Decidable.not_not] at hk
        refine ⟨?_, by simp, h3, h4, h5, ⟨fun _ _ => rfl, fun _ => rfl, fun _ => rfl⟩⟩
        intro hh hmem
        rcases h1 hh hmem with c | c | c | ⟨p', c1, _, c3, _⟩ | c
        · exact Or.inl c
        · exact Or.inr (Or.inl c)
        · exact Or.inr (Or.inr (Or.inl c))
        · rw [hpend] at c1; simp only [Option.some.injEq] at c1; subst c1
          rw [c3] at hk; simp at hk; omega
        · exact Or.inr (Or.inr (Or.inr (Or.inr c)))
      · rename_i hcl hk hk0 hv
        simp only [ne_eq, Decidable.not_not] at hk
        refine ⟨?_, ?_, h3, h4, h5, ⟨fun g hg => absurd hg (hnx g), fun hg => absurd hg hno, fun hg => absurd hg hni⟩⟩
        · intro hh hmem
          rcases h1 hh hmem with c | c | c | ⟨p', c1, c2, c3, c4⟩ | c
          · exact Or.inl c
          · exact Or.inr (Or.inl c)
          · exact Or.inr (Or.inr (Or.inl c))
          · rw [hpend] at c1; simp only [Option.some.injEq] at c1; subst c1
            exact Or.inr (Or.inr (Or.inr (Or.inl ⟨_, rfl, c2, c3, c4⟩)))
          · exact Or.inr (Or.inr (Or.inr (Or.inr c)))
        · intro p' hp'
          simp only [Option.some.injEq] at hp'
          subst hp'
          refine ⟨hp.1, hp.2.1, ?_, hp.2.2.2⟩
          intro _ hlen
          simp only at hlen ⊢
          have hvl : p.vals.length = 1 := by rw [hp.2.1]; exact hlen
          simp only [hH, Bool.false_eq_true, not_false_eq_true, true_and, not_and, Decidable.not_not] at hv
          have := hv hvl
          cases hvs : p.vals with
          | nil => simp [hvs] at hvl
          | cons a rest =>
            simp only [hvs, List.length_cons] at hvl
            have hr : rest = [] := by cases rest with | nil => rfl | cons _ _ => simp at hvl
            subst hr
            simp only [hvs, List.head?_cons, Option.some.injEq] at this
            rw [this]
  case ctrl label ns v cap thr =>
    obtain ⟨h1, h2, h3, h4, h5, h6⟩ := hi
    cases hmode : s.mode <;> rw [hmode] at h <;> simp only at h
    case x0 g =>
      have hg := h3 g hmode
      have hnp := h6.1 g hmode
      repeat' split at h
      all_goals (first | (simp at h; done) | skip)
      all_goals (simp only [Except.ok.injEq] at h; subst h)
      rename_i hev hlab hns hv
      obtain ⟨f0, hf0, hf0v⟩ := final_init cap g.xid g.evals v ns label (g.evals.map (fun e => [e]))
      refine ⟨?_, h2, by simp, ?_, fun _ => ⟨_, rfl⟩, by simp⟩
      · intro hh hmem
        rcases h1 hh hmem with c | ⟨b, c1, c2⟩ | ⟨c0, _⟩ | ⟨p, c1, _⟩ | ⟨g', c1, c2, c3⟩
        · exact Or.inl c
        · exact Or.inr (Or.inl ⟨b, c1, c2⟩)
        · rw [hmode] at c0; simp [Mode.isRun] at c0
        · rw [hnp] at c1; simp at c1
        · rw [hmode] at c1; simp only [Mode.x0.injEq] at c1; subst c1
          simp only [hH, Bool.false_eq_true, not_false_eq_true, true_and, not_and, Decidable.not_not] at hv
          have := hv (by rw [c3]; rfl)
          rw [c3] at this
          simp only [List.head?_cons, Option.some.injEq] at this
          refine Or.inr (Or.inr (Or.inl ⟨rfl, _, f0, rfl, hf0, ?_⟩))
          rw [hf0v, this]; exact Better.refl _
      · intro m hm
        simp only [Option.some.injEq] at hm
        subst hm
        simp [MState.init]
    case old =>
      have hnp := h6.2.1 hmode
      cases hbest : s.best <;> rw [hbest] at h <;> simp only at h
      case none => simp at h
      case some b =>
        repeat' split at h
        all_goals (first | (simp at h; done) | skip)
        all_goals (simp only [Except.ok.injEq] at h; subst h)
        refine ⟨?_, h2, by simp, ?_, fun _ => ⟨_, rfl⟩, by simp⟩
        · intro hh hmem
          rcases h1 hh hmem with c | ⟨b', c1, c2⟩ | ⟨c0, _⟩ | ⟨p, c1, _⟩ | ⟨g', c1, _⟩
          · exact Or.inl c
          · exact Or.inr (Or.inl ⟨b', by rw [hbest] at c1; exact c1, c2⟩)
          · rw [hmode] at c0; simp [Mode.isRun] at c0
          · rw [hnp] at c1; simp at c1
          · rw [hmode] at c1; simp at c1
        · intro m hm
          simp only [Option.some.injEq] at hm
          subst hm
          simp [MState.init]
    all_goals simp at h
  case chg k label allow v src koptAfter =>
    cases hm : s.m <;> cases hpend : s.pend <;> rw [hm, hpend] at h <;> simp only at h
    case some.some m p =>
      have hp := hi.pend p hpend
      have hk := hi.kopt m hm
      repeat' split at h
      all_goals (first | (simp at h; done) | skip)
      all_goals (simp only [Except.ok.injEq] at h; subst h)
      rename_i hcu hlab hsrc hal hval hov _ m' hcp hko
      simp only [not_or, Decidable.not_not, ne_eq] at hcu hov
      obtain ⟨hk', _⟩ := changePoint_struct hk hcp
      have hsrc' : allow = true := by simpa using hal
      subst hsrc'
      have hlen1 : p.evals.length = 1 := by
        have h1 := hp.1
        cases hev : p.evals with
        | nil => rw [hev] at hsrc; simp at hsrc
        | cons a t =>
          rw [hev] at h1
          simp only [List.length_cons] at h1 ⊢
          omega
      have hov' : overwriteOK m k v = true := by cases hh : overwriteOK m k v <;> simp_all
      refine hi.consume hm hpend (v := v) (fun f hf => chg_final hk hcp hov' hf) hk' ?_ _ ?_
      · intro i hv _ c3 c4
        have hlen : p.evals.length = 1 := by rw [c3]; rfl
        have hvm := hp.2.2.1 hcu.1 hlen
        rw [c4] at hvm
        simp only [List.cons.injEq, and_true] at hvm
        simp only [hH, Bool.false_eq_true, not_false_eq_true, true_and, not_and, Decidable.not_not] at hval
        rw [hval hlen, hvm]
      · intro q hq
        simp only [Option.some.injEq] at hq
        subst hq
        refine ⟨⟨hp.1, hp.2.1, hp.2.2.1, ?_⟩, by simp⟩
        simp only
        have : p.evals ≠ [] := by intro hnil; rw [hnil] at hsrc; simp at hsrc
        cases hev : p.evals with
        | nil => exact absurd hev this
        | cons a rest => simp
    all_goals simp at h
  case adp label v src koptAfter =>
    cases hm : s.m <;> cases hpend : s.pend <;> rw [hm, hpend] at h <;> simp only at h
    case some.some m p =>
      have hp := hi.pend p hpend
      have hk := hi.kopt m hm
      repeat' split at h
      all_goals (first | (simp at h; done) | skip)
      all_goals (simp only [Except.ok.injEq] at h; subst h)
      rename_i hcu hlab hsrc hfull hval hko
      simp only [not_or, Decidable.not_not, ne_eq] at hcu
      obtain ⟨hk', _⟩ := addPoint_struct hk p.xid [src] v label
      refine hi.consume hm hpend (v := v) (fun f hf => adp_final hk p.xid [src] v label hf) hk' ?_ _ ?_
      · intro i hv _ c3 c4
        have hlen : p.evals.length = 1 := by rw [c3]; rfl
        have hvm := hp.2.2.1 hcu.1 hlen
        rw [c4] at hvm
        simp only [List.cons.injEq, and_true] at hvm
        simp only [hH, Bool.false_eq_true, not_false_eq_true, true_and, not_and, Decidable.not_not] at hval
        rw [hval hlen, hvm]
      · intro q hq
        simp only [Option.some.injEq] at hq
        subst hq
        refine ⟨⟨hp.1, hp.2.1, hp.2.2.1, ?_⟩, by simp⟩
        simp only
        have : p.evals ≠ [] := by intro hnil; rw [hnil] at hsrc; simp at hsrc
        cases hev : p.evals with
        | nil => exact absurd hev this
        | cons a rest => simp
    all_goals simp at h
  case smp k v src koptAfter =>
    -- impossible without averaging: an extra sample needs a group of at least two evaluations
    cases hm : s.m <;> cases hpend : s.pend <;> rw [hm, hpend] at h <;> simp only at h
    case some.some m p =>
      have hp := hi.pend p hpend
      repeat' split at h
      all_goals (first | (simp at h; done) | skip)
      rename_i hcu hk hsrc _ m' has hko
      simp only [not_or, Decidable.not_not, ne_eq] at hcu hsrc
      have h1 : p.used < p.evals.length := by
        rcases Nat.lt_or_ge p.used p.evals.length with hc | hc
        · exact hc
        · rw [List.getElem?_eq_none_iff.mpr hc] at hsrc; simp at hsrc
      have := hp.1
      omega
    all_goals simp at h
  case sav ns label v acc inc =>
    cases hm : s.m <;> rw [hm] at h <;> simp only at h
    case none => simp at h
    case some m =>
      have hk := hi.kopt m hm
      split at h
      · -- incumbent save of soft_restart
        split at h
        · simp at h
        · rename_i hpok
          simp only [Decidable.not_not] at hpok
          cases hsl : m.slots[m.kopt]? <;> rw [hsl] at h <;> simp only at h
          case none => simp at h
          case some sl =>
            repeat' split at h
            all_goals (first | (simp at h; done) | skip)
            all_goals (simp only [Except.ok.injEq] at h; subst h)
            obtain ⟨h1, h2, h3, h4, h5, h6⟩ := hi
            obtain ⟨e1, e2, _, _⟩ := savePoint_struct m sl.pt sl.resid v ns label
            refine ⟨?_, by simp, h3, ?_, fun _ => ⟨_, rfl⟩, ⟨fun _ _ => rfl, fun _ => rfl, fun _ => rfl⟩⟩
            · intro hh hmem
              rcases h1 hh hmem with c | c | ⟨c0, m0, f, d1, d2, d3⟩ | ⟨q, c1, c2, c3, c4⟩ | c
              · exact Or.inl c
              · exact Or.inr (Or.inl c)
              · rw [hm] at d1; simp only [Option.some.injEq] at d1; subst d1
                obtain ⟨f', hf', hb, _⟩ := sav_final hk sl.pt sl.resid v ns label d2
                exact Or.inr (Or.inr (Or.inl ⟨c0, _, f', rfl, hf', Better.trans hb d3⟩))
              · rw [c1] at hpok
                exact Or.inl (held_nan_of_pendOK (h2 q c1) hpok c2 c3 c4)
              · exact Or.inr (Or.inr (Or.inr (Or.inr c)))
            · intro m'' hm''
              simp only [Option.some.injEq] at hm''
              subst hm''
              rw [e1, e2]; exact hk
      · cases hpend : s.pend <;> rw [hpend] at h <;> simp only at h
        case none => simp at h
        case some p =>
          have hp := hi.pend p hpend
          repeat' split at h
          all_goals (first | (simp at h; done) | skip)
          all_goals (simp only [Except.ok.injEq] at h; subst h)
          rename_i hcu hlab hns hv hacc
          simp only [not_or, Decidable.not_not, ne_eq] at hcu
          obtain ⟨e1, e2, _, _⟩ := savePoint_struct m p.xid p.evals v ns label
          refine hi.consume hm hpend (v := v) (fun f hf => sav_final hk p.xid p.evals v ns label hf)
            (by rw [e1, e2]; exact hk) ?_ none (by simp)
          intro i hv' _ c3 c4
          have hlen : p.evals.length = 1 := by rw [c3]; rfl
          have hvm := hp.2.2.1 hcu.1 hlen
          rw [c4] at hvm
          simp only [List.cons.injEq, and_true] at hvm
          simp only [hH, Bool.false_eq_true, not_false_eq_true, true_and, Decidable.not_not] at hv
          rw [hv, hvm]
  case rend nf nx nruns flag cls label ns v jacNone hadCtrl =>
    split at h
    · simp at h
    · rename_i hpok
      simp only [Decidable.not_not] at hpok
      obtain ⟨h1, h2, h3, h4, h5, h6⟩ := hi
      cases hmode : s.mode <;> rw [hmode] at h <;> simp only at h
      case run =>
        split at h
        · simp at h
        · cases hf : s.m.bind MState.getFinal <;> rw [hf] at h <;> simp only at h
          case none => simp at h
          case some f =>
            split at h
            · simp at h
            · simp only [Except.ok.injEq] at h; subst h
              obtain ⟨m, hm, hfm⟩ := Option.bind_eq_some_iff.mp hf
              refine ⟨?_, by simp, by simp, h4, by simp [Mode.isRun], by simp⟩
              intro hh hmem
              rcases h1 hh hmem with c | ⟨b, c1, c2⟩ | ⟨_, m0, f0, d1, d2, d3⟩ | ⟨q, c1, c2, c3, c4⟩ | ⟨g, c1, _⟩
              · exact Or.inl c
              · exact Or.inr (Or.inl ⟨_, rfl, Better.trans (merge_left s.best (candOfFinal f) b c1) c2⟩)
              · rw [hm] at d1; simp only [Option.some.injEq] at d1; subst d1
                rw [hfm] at d2; simp only [Option.some.injEq] at d2; subst d2
                exact Or.inr (Or.inl ⟨_, rfl, Better.trans (merge_right s.best (candOfFinal f)) d3⟩)
              · rw [c1] at hpok
                exact Or.inl (held_nan_of_pendOK (h2 q c1) hpok c2 c3 c4)
              · rw [hmode] at c1; simp at c1
      case x0 g =>
        have hg := h3 g hmode
        repeat' split at h
        all_goals (first | (simp at h; done) | skip)
        all_goals (simp only [Except.ok.injEq] at h; subst h)
        rename_i _ hev hlab hns hv
        refine ⟨?_, by simp, by simp, h4, by simp [Mode.isRun], by simp⟩
        intro hh hmem
        simp only at hmem
        rcases h1 hh hmem with c | ⟨b, c1, c2⟩ | ⟨c0, _⟩ | ⟨q, c1, _⟩ | ⟨g', c1, c2, c3⟩
        · exact Or.inl c
        · exact Or.inr (Or.inl ⟨_, rfl, Better.trans (merge_left s.best _ b c1) c2⟩)
        · rw [hmode] at c0; simp [Mode.isRun] at c0
        · rw [h6.1 g hmode] at c1; simp at c1
        · rw [hmode] at c1; simp only [Mode.x0.injEq] at c1; subst c1
          simp only [hH, Bool.false_eq_true, not_false_eq_true, true_and, not_and, Decidable.not_not] at hv
          have := hv (by rw [c3]; rfl)
          rw [c3] at this
          simp only [List.head?_cons, Option.some.injEq] at this
          refine Or.inr (Or.inl ⟨_, rfl, ?_⟩)
          rw [this]; exact merge_right s.best _
      all_goals simp at h

theorem foldlM_averaged {s s' : St} (evs : List Ev) (h : evs.foldlM step s = .ok s') (hav : s'.averaged = false) :
    s.averaged = false := by
  induction evs generalizing s with
  | nil => simp only [List.foldlM_nil, pure, Except.pure, Except.ok.injEq] at h; subst h; exact hav
  | cons e evs ih =>
    simp only [List.foldlM_cons, bind, Except.bind] at h
    cases hs : step s e with
    | error m => simp [hs] at h
    | ok s1 => rw [hs] at h; exact step_averaged hs (ih h)

theorem foldlM_invB {s s' : St} (evs : List Ev) (hH : s.hasH = false) (hi : InvB s)
    (h : evs.foldlM step s = .ok s') (hav : s'.averaged = false) : InvB s' := by
  induction evs generalizing s with
  | nil => simp only [List.foldlM_nil, pure, Except.pure, Except.ok.injEq] at h; subst h; exact hi
  | cons e evs ih =>
    simp only [List.foldlM_cons, bind, Except.bind] at h
    cases hs : step s e with
    | error m => simp [hs] at h
    | ok s1 =>
      rw [hs] at h
      have hav1 : s1.averaged = false := foldlM_averaged evs h hav
      exact ih (by rw [step_hasH hs]; exact hH) (step_invB hH hi hs hav1) h

theorem accept_invB {evs : List Ev} {s : St} (h : accept false evs = .ok s) (hav : s.averaged = false) : InvB s :=
  foldlM_invB evs rfl (init_invB false) h hav

end BookAcc
end Dfols
