/-
  A whole-function path theorem: the skeleton of ALL of solve_main (prelude with the block at x0 and the initialisation, the main
  loop as a `SkelL.loop`, the final statements; Gen/SolveMainSkel.lean, regenerated from solver.py on every run) — for every
  execution, with ANY number of main-loop iterations and soft restarts, the run counter handed back is the one received plus one
  plus the number of soft restarts performed.
-/
import DfolsVerif.Proofs.SkeletonL
import DfolsVerif.Gen.SolveMainSkel
import DfolsVerif.Proofs.MainLoopPaths

namespace Dfols
namespace SolveMainPaths
open SkelL

/-- `d` = 2 + (increments of the run counter, counting a `return … nruns_so_far + 1 …` as one) − (soft restarts performed), kept in
    1..4 with 0 and 5 absorbing error states; `pend`: `soft_restart` was called and `exit_info` not tested since (a soft restart is
    PERFORMED when that test finds no exit object); `lastBrk` / `infeasible`: `while True:` is left by `break` only — a path that
    reaches the code after the loop without a `break` just before is one Python cannot take (the translator marks both places). -/
structure QN where
  d : Nat
  pend : Bool
  lastBrk : Bool
  infeasible : Bool
deriving DecidableEq, Repr

def up (d : Nat) : Nat := if d ≥ 5 then 5 else if d == 0 then 0 else d + 1
def down (d : Nat) : Nat := if d ≥ 5 then 5 else if d == 0 then 0 else d - 1

def retPlusOne : List String :=
  ["ret:(x0, r0_avg, obj0_avg, None, num_samples_run, nf, nx, nruns_so_far + 1, exit_info, diagnostic_info, xmin_eval_num, jacmin_eval_nums)",
   "ret:(x, rvec, obj, None, nsamples, control.nf, control.nx, nruns_so_far + 1, exit_info, diagnostic_info, x_eval_num, jac_eval_nums)"]

def retPlain : String :=
  "ret:(x, rvec, obj, jacmin, nsamples, control.nf, control.nx, nruns_so_far, exit_info, diagnostic_info, x_eval_num, jac_eval_nums)"

def mN : Mon QN := ⟨fun q a =>
  if a == "brk:while-True" then { q with lastBrk := true }
  else if a == "after:while-True" then { q with infeasible := q.infeasible || !q.lastBrk, lastBrk := false }
  else if a == "nruns" then { q with d := up q.d, lastBrk := false }
  else if a == "nruns:other" then { q with d := 5 }
  else if a == "soft" then { q with pend := true }
  else if a == "F:exit_info is not None" then (if q.pend then { q with d := down q.d, pend := false } else q)
  else if a == "T:exit_info is not None" then { q with pend := false }
  else if retPlusOne.contains a then { q with d := up q.d }
  else if a == retPlain then q
  else if a.startsWith "ret:" then { q with d := 5 }      -- any other `return` is not accounted for
  else q⟩

def q0 : QN := ⟨2, false, false, false⟩

def okN (q : QN) (e : Ending) : Bool :=
  q.infeasible || (e == .ret && q.d == 3) || (e == .raise && (q.d == 2 || q.d == 1 || q.d == 3))

theorem whole_run_all : allReach mN Gen.solveMainBody q0 okN = true := by decide +kernel

/-- **every execution of solve_main hands back `nruns_so_far + 1 + (soft restarts performed)`**: on every path Python can take
    (`infeasible = false`) that ends by `return`, the monitor ends with `d = 3`, i.e. increments − performed soft restarts = 1;
    no path falls off the end, `continue`s or `break`s out of the function; a path that ends by `raise` never over-counts. -/
theorem whole_run {tr : List String} {e : Ending} (hx : Exec Gen.solveMainBody tr e) :
    (mN.run q0 tr).infeasible = true ∨ (e = .ret ∧ (mN.run q0 tr).d = 3) ∨ (e = .raise ∧ 1 ≤ (mN.run q0 tr).d ∧ (mN.run q0 tr).d ≤ 3) := by
  have h := all_paths mN Gen.solveMainBody q0 okN whole_run_all hx
  simp only [okN, Bool.or_eq_true, Bool.and_eq_true, beq_iff_eq] at h
  rcases h with (h | h) | h
  · exact Or.inl h
  · exact Or.inr (Or.inl h)
  · refine Or.inr (Or.inr ⟨h.1, ?_⟩)
    rcases h.2 with (h2 | h2) | h2 <;> omega

/-! ### every `return` of solve_main carries an exit object -/

structure QE where
  known : Bool
  lastBrk : Bool
  infeasible : Bool
deriving DecidableEq, Repr

/-- `known`: `exit_info` is an ExitInformation object — created since, or tested `is not None` since, its last assignment from a call -/
def mE : Mon QE := ⟨fun q a =>
  if a == "brk:while-True" then { q with lastBrk := true }
  else if a == "after:while-True" then { q with infeasible := q.infeasible || !q.lastBrk, lastBrk := false }
  else if a == "T:exit_info is not None" then { q with known := true }
  else if a == "F:exit_info is not None" then { q with known := false }
  else if MainLoopPaths.mayClear.contains a then { q with known := false }
  else if MainLoopPaths.exitActs.contains a then { q with known := true }
  else q⟩

theorem exit_at_return_all : allReach mE Gen.solveMainBody ⟨false, false, false⟩
    (fun q e => q.infeasible || e != .ret || q.known) = true := by decide +kernel

/-- on every execution of solve_main that Python can take and that ends by `return`, `exit_info` is an ExitInformation object (the
    flag and the message `solve` reads from it exist) — prelude returns included, any number of main-loop iterations -/
theorem exit_at_return {tr : List String} {e : Ending} (hx : Exec Gen.solveMainBody tr e) (he : e = .ret) :
    (mE.run ⟨false, false, false⟩ tr).infeasible = true ∨ (mE.run ⟨false, false, false⟩ tr).known = true := by
  have h := all_paths mE Gen.solveMainBody ⟨false, false, false⟩ _ exit_at_return_all hx
  subst he
  simpa using h

/-! ### one diagnostic row per iteration, none outside the loop -/

structure QD where
  inLoop : Bool
  rows : Nat
  bad : Bool
deriving DecidableEq, Repr

/-- `rows`: calls of `diagnostic_info.save_info_from_control` since the current iteration began (`current_iter += 1`);
    `bad`: a second call in one iteration, or a call outside the main loop -/
def mD : Mon QD := ⟨fun q a =>
  if a == "iter+" then { q with inLoop := true, rows := 0 }
  else if a == "after:while-True" then { q with inLoop := false, rows := 0 }
  else if a == "diag" then { q with rows := min (q.rows + 1) 2, bad := q.bad || !q.inLoop || q.rows ≥ 1 }
  else q⟩

theorem one_row_all : allReach mD Gen.solveMainBody ⟨false, 0, false⟩ (fun q _ => !q.bad) = true := by decide +kernel

/-- on every execution of solve_main (any number of iterations): `save_info_from_control` — the only method that appends a row to the
    diagnostic table (`C18_src_diag_sites`) — is called at most once per main-loop iteration and never outside the loop -/
theorem one_row_per_iteration {tr : List String} {e : Ending} (hx : Exec Gen.solveMainBody tr e) :
    (mD.run ⟨false, 0, false⟩ tr).bad = false := by
  have h := all_paths mD Gen.solveMainBody ⟨false, 0, false⟩ _ one_row_all hx
  simpa using h

/-! ### what is returned comes from the final-result query -/

def retInit : String :=
  "ret:(x, rvec, obj, None, nsamples, control.nf, control.nx, nruns_so_far + 1, exit_info, diagnostic_info, x_eval_num, jac_eval_nums)"

structure QF where
  final : Nat
  bad : Bool
deriving DecidableEq, Repr

/-- `final`: calls of `control.model.get_final_results()` so far (saturating at 2); `bad`: a `return` of a run that has a Controller
    (the exit during the initialisation, the return after the main loop) without exactly one such call before it -/
def mF : Mon QF := ⟨fun q a =>
  if a == "final" then { q with final := min (q.final + 1) 2 }
  else if a == retPlain || a == retInit then { q with bad := q.bad || q.final != 1 }
  else q⟩

theorem final_all : allReach mF Gen.solveMainBody ⟨0, false⟩ (fun q _ => !q.bad) = true := by decide +kernel

/-- on every execution of solve_main, the two `return`s of a run that owns a Controller — the exit taken when the initialisation of
    the interpolation set reports an exit, and the return after the main loop — are preceded by exactly one call of
    `get_final_results` (the better of the saved point and the incumbent: `C17_final_better`); seeded change C04_11 returned the
    incumbent directly from the first of them -/
theorem returns_via_final_results {tr : List String} {e : Ending} (hx : Exec Gen.solveMainBody tr e) :
    (mF.run ⟨0, false⟩ tr).bad = false := by
  have h := all_paths mF Gen.solveMainBody ⟨0, false⟩ _ final_all hx
  simpa using h

/-! ### `solve` always returns a result object -/

structure QSo where
  optim : Bool
  runs : Nat
  retRes : Bool
  retOther : Bool
deriving DecidableEq, Repr

/-- `optim`: an `OptimResults(...)` object has been constructed; `runs`: calls of `solve_main` (saturating at 2); `retRes`: `return
    results` reached with a constructed object; `retOther`: any other way out by `return` (falling off the end included) -/
def mSo : Mon QSo := ⟨fun q a =>
  if a == "optim" then { q with optim := true }
  else if a == "run" then { q with runs := min (q.runs + 1) 2 }
  else if a == "ret:results" then { q with retRes := q.optim, retOther := q.retOther || !q.optim }
  else if a == "ret:None" then { q with retOther := true }
  else q⟩

theorem solve_all : allReach mSo Gen.solveBody ⟨false, 0, false, false⟩
    (fun q e => e == .ret && q.retRes && !q.retOther) = true := by decide +kernel

/-- every execution of the skeleton of `solve` (defaults, validation, first run, any number of hard restarts, packaging) ends by
    `return results` with `results` an `OptimResults` object constructed on that path — never by falling off the end, never by a
    `raise` statement of `solve` itself (`assert`s and exceptions raised inside callees are outside the skeleton) -/
theorem solve_returns_result {tr : List String} {e : Ending} (hx : Exec Gen.solveBody tr e) :
    e = .ret ∧ (mSo.run ⟨false, 0, false, false⟩ tr).retRes = true ∧ (mSo.run ⟨false, 0, false, false⟩ tr).retOther = false := by
  have h := all_paths mSo Gen.solveBody ⟨false, 0, false, false⟩ _ solve_all hx
  simp only [Bool.and_eq_true, beq_iff_eq, Bool.not_eq_true'] at h
  exact ⟨h.1.1, h.1.2, h.2⟩

end SolveMainPaths
end Dfols
