/-
  Invariants of the counting acceptor, for every accepted event list.
-/
import DfolsVerif.Accept.CountAcc

namespace Dfols
namespace CountAcc

/-- the recorded evaluations (newest first) are numbered 1,2,… and their point numbers are gap-free,
    non-decreasing, start at 1, and stay equal only while `x` stays the same -/
def WFCalls : List (Nat × Nat × Nat) → Prop
  | [] => True
  | (e, p, x) :: rest =>
      e = rest.length + 1 ∧ WFCalls rest ∧
      (match rest with
       | [] => p = 1
       | (_, p', x') :: _ => (p = p' ∧ x = x') ∨ p = p' + 1)

def PhaseOK (s : St) : Prop :=
  match s.phase with
  | .idle => True
  | .dead => True
  | .x0 k _ nf0 => s.nf = nf0 + k ∧ (k = 0 → nf0 < s.maxfun)
  | .inEval k _ nf0 _ => s.nf = nf0 + k

structure Inv (s : St) : Prop where
  budget : s.nf ≤ s.maxfun
  count : s.calls.length = s.nf
  wf : WFCalls s.calls
  head : match s.calls with
         | [] => s.nx = 0
         | (_, p, x) :: _ => p = s.nx ∧ x = s.curX
  phase : PhaseOK s
  groups : ∀ g ∈ s.groups, g.2.1 = min g.1 g.2.2

theorem init_inv (maxfun : Nat) : Inv (init maxfun) :=
  ⟨by simp [init], by simp [init], by simp [init, WFCalls], by simp [init], by simp [init, PhaseOK],
   by simp [init]⟩

theorem step_inv {s s' : St} {e : Ev} (hi : Inv s) (h : step s e = .ok s') : Inv s' := by
  obtain ⟨h1, h2, h3, h4, h5, h6⟩ := hi
  cases e <;> simp only [step] at h
  case rst nruns nf nx hasOld maxfun npt =>
    repeat' split at h
    all_goals (first | (simp at h; done) | skip)
    all_goals (simp only [Except.ok.injEq] at h; subst h)
    · exact ⟨h1, h2, h3, h4, h5, h6⟩
    · refine ⟨h1, h2, h3, h4, ?_, h6⟩
      simp only [PhaseOK]; omega
  case ns k => simp only [Except.ok.injEq] at h; subst h; exact ⟨h1, h2, h3, h4, h5, h6⟩
  case obj i evalNo ptNo xid v ncalls =>
    simp only [PhaseOK] at h5
    cases hph : s.phase <;> rw [hph] at h h5 <;> simp only at h h5
    all_goals repeat' split at h
    all_goals (first | (simp at h; done) | skip)
    all_goals (simp only [Except.ok.injEq] at h; subst h)
    all_goals refine ⟨?_, ?_, ?_, ?_, ?_, h6⟩
    all_goals (try (simp only [PhaseOK]; omega))
    all_goals (try (simp only [List.length_cons]; omega))
    all_goals (try omega)
    all_goals (try (simp; done))
    all_goals first
      | (dsimp only; constructor <;> omega)
      | (dsimp only
         simp only [WFCalls]
         refine ⟨by omega, h3, ?_⟩
         cases hc : s.calls with
         | nil => simp only [hc, List.length_nil] at h4 h2 ⊢; omega
         | cons c rest =>
           obtain ⟨e', p', x'⟩ := c
           simp only [hc] at h4 ⊢
           omega)
  case objraise =>
    simp only [Except.ok.injEq] at h; subst h
    exact ⟨h1, h2, h3, h4, by simp [PhaseOK], h6⟩
  case ctrl label ns v cap thr =>
    repeat' split at h
    all_goals (first | (simp at h; done) | skip)
    all_goals (simp only [Except.ok.injEq] at h; subst h)
    · refine ⟨h1, h2, h3, h4, by simp [PhaseOK], ?_⟩
      intro g hg
      simp only [List.mem_cons] at hg
      rcases hg with hg | hg
      · subst hg; simp only; assumption
      · exact h6 g hg
    · exact ⟨h1, h2, h3, h4, h5, h6⟩
  case evb want xid =>
    repeat' split at h
    all_goals (first | (simp at h; done) | skip)
    all_goals (simp only [Except.ok.injEq] at h; subst h)
    exact ⟨h1, h2, h3, h4, by simp [PhaseOK], h6⟩
  case eve k ex cls vmean thr anyNaN =>
    repeat' split at h
    all_goals (first | (simp at h; done) | skip)
    all_goals (simp only [Except.ok.injEq] at h; subst h)
    refine ⟨h1, h2, h3, h4, by simp [PhaseOK], ?_⟩
    intro g hg
    simp only [List.mem_cons] at hg
    rcases hg with hg | hg
    · subst hg; simp only; assumption
    · exact h6 g hg
  case rend nf nx nruns flag cls label ns v jacNone hadCtrl =>
    repeat' split at h
    all_goals (first | (simp at h; done) | skip)
    all_goals (simp only [Except.ok.injEq] at h; subst h)
    · exact ⟨h1, h2, h3, h4, h5, h6⟩
    · refine ⟨h1, h2, h3, h4, by simp [PhaseOK], ?_⟩
      intro g hg
      simp only [List.mem_cons] at hg
      rcases hg with hg | hg
      · subst hg; simp only; assumption
      · exact h6 g hg
  case res nf nx nruns flag cls label v jacNone =>
    repeat' split at h
    all_goals (first | (simp at h; done) | skip)
    all_goals (simp only [Except.ok.injEq] at h; subst h)
    exact ⟨h1, h2, h3, h4, h5, h6⟩
  all_goals (simp only [Except.ok.injEq] at h; subst h; exact ⟨h1, h2, h3, h4, h5, h6⟩)

theorem foldlM_inv {s s' : St} (evs : List Ev) (hi : Inv s) (h : evs.foldlM step s = .ok s') : Inv s' := by
  induction evs generalizing s with
  | nil => simp only [List.foldlM_nil, pure, Except.pure, Except.ok.injEq] at h; subst h; exact hi
  | cons e evs ih =>
    simp only [List.foldlM_cons, bind, Except.bind] at h
    cases hs : step s e with
    | error m => simp [hs] at h
    | ok s1 => rw [hs] at h; exact ih (step_inv hi hs) h

theorem accept_inv {maxfun : Nat} {evs : List Ev} {s : St} (h : accept maxfun evs = .ok s) : Inv s :=
  foldlM_inv evs (init_inv maxfun) h

end CountAcc
end Dfols

namespace Dfols
namespace CountAcc

def isObj : Ev → Bool
  | .obj .. => true
  | _ => false

theorem step_nf {s s' : St} {e : Ev} (h : step s e = .ok s') :
    s'.nf = s.nf + (if isObj e then 1 else 0) ∧ s'.maxfun = s.maxfun := by
  cases e <;> simp only [step] at h
  case obj i evalNo ptNo xid v ncalls =>
    cases hph : s.phase <;> rw [hph] at h <;> simp only at h
    all_goals repeat' split at h
    all_goals (first | (simp at h; done) | skip)
    all_goals (simp only [Except.ok.injEq] at h; subst h; simp [isObj])
  all_goals (repeat' split at h)
  all_goals (first | (simp at h; done) | skip)
  all_goals (simp only [Except.ok.injEq] at h; subst h; simp [isObj])

theorem foldlM_nf {s s' : St} (evs : List Ev) (h : evs.foldlM step s = .ok s') :
    s'.nf = s.nf + (evs.filter isObj).length ∧ s'.maxfun = s.maxfun := by
  induction evs generalizing s with
  | nil => simp only [List.foldlM_nil, pure, Except.pure, Except.ok.injEq] at h; subst h; simp
  | cons e evs ih =>
    simp only [List.foldlM_cons, bind, Except.bind] at h
    cases hs : step s e with
    | error m => simp [hs] at h
    | ok s1 =>
      rw [hs] at h
      have h1 := step_nf hs
      have h2 := ih h
      simp only [List.filter_cons]
      split <;> simp_all <;> omega

/-- every earlier call has a point number ≤ the newest one's, and the same `x` if equal -/
theorem wf_head_bound : ∀ (l : List (Nat × Nat × Nat)) (e p x : Nat), WFCalls ((e, p, x) :: l) →
    ∀ c ∈ l, c.2.1 ≤ p ∧ (c.2.1 = p → c.2.2 = x) := by
  intro l
  induction l with
  | nil => intro e p x _ c hc; simp at hc
  | cons c' l' ih =>
    obtain ⟨e', p', x'⟩ := c'
    intro e p x hwf c hc
    simp only [WFCalls] at hwf
    obtain ⟨_, hwf', hadj⟩ := hwf
    have hwf'' : WFCalls ((e', p', x') :: l') := by simpa [WFCalls] using hwf'
    simp only [List.mem_cons] at hc
    rcases hc with hc | hc
    · subst hc
      simp only
      rcases hadj with ⟨h1, h2⟩ | h1
      · exact ⟨by omega, fun _ => h2.symm⟩
      · exact ⟨by omega, fun h => by omega⟩
    · have := ih e' p' x' hwf'' c hc
      rcases hadj with ⟨h1, h2⟩ | h1
      · subst h1; subst h2; exact this
      · exact ⟨by omega, fun h => by omega⟩

/-- calls that share a point number received the identical `x` -/
theorem wf_sameX : ∀ (l : List (Nat × Nat × Nat)), WFCalls l →
    ∀ a ∈ l, ∀ b ∈ l, a.2.1 = b.2.1 → a.2.2 = b.2.2 := by
  intro l
  induction l with
  | nil => intro _ a ha; simp at ha
  | cons c l ih =>
    obtain ⟨e, p, x⟩ := c
    intro hwf a ha b hb hab
    have hb' := wf_head_bound l e p x hwf
    have hwf' : WFCalls l := by simp only [WFCalls] at hwf; exact hwf.2.1
    simp only [List.mem_cons] at ha hb
    rcases ha with ha | ha <;> rcases hb with hb | hb
    · subst ha; subst hb; rfl
    · subst ha; exact ((hb' b hb).2 hab.symm).symm
    · subst hb; exact (hb' a ha).2 hab
    · exact ih hwf' a ha b hb hab

/-- evaluation numbers are 1,2,…: the j-th newest call carries number `length - j` -/
theorem wf_evalNo : ∀ (l : List (Nat × Nat × Nat)), WFCalls l →
    ∀ (j : Nat) (hj : j < l.length), (l[j]).1 = l.length - j := by
  intro l
  induction l with
  | nil => intro _ j hj; simp at hj
  | cons c l ih =>
    obtain ⟨e, p, x⟩ := c
    intro hwf j hj
    simp only [WFCalls] at hwf
    cases j with
    | zero => simp [hwf.1]
    | succ j =>
      simp only [List.length_cons] at hj
      simp only [List.getElem_cons_succ, List.length_cons]
      rw [ih hwf.2.1 j (by omega)]
      omega

/-- point numbers are gap-free and non-decreasing along the calls, starting at 1 -/
theorem wf_ptNo_steps : ∀ (l : List (Nat × Nat × Nat)), WFCalls l →
    (∀ (j : Nat) (hj : j + 1 < l.length), (l[j]).2.1 = (l[j+1]).2.1 ∨ (l[j]).2.1 = (l[j+1]).2.1 + 1) ∧
    (∀ (hl : 0 < l.length), (l[l.length - 1]).2.1 = 1) := by
  intro l
  induction l with
  | nil => intro _; exact ⟨fun j hj => by simp at hj, fun hl => by simp at hl⟩
  | cons c l ih =>
    obtain ⟨e, p, x⟩ := c
    intro hwf
    simp only [WFCalls] at hwf
    obtain ⟨_, hwf', hadj⟩ := hwf
    have := ih hwf'
    constructor
    · intro j hj
      cases j with
      | zero =>
        cases l with
        | nil => simp at hj
        | cons c' l' =>
          obtain ⟨e', p', x'⟩ := c'
          simp only at hadj
          simp only [List.getElem_cons_zero, List.getElem_cons_succ]
          rcases hadj with ⟨h1, _⟩ | h1 <;> omega
      | succ j =>
        simp only [List.length_cons] at hj
        simp only [List.getElem_cons_succ]
        exact this.1 j (by omega)
    · intro hl
      cases l with
      | nil => simp only at hadj; simp [hadj]
      | cons c' l' =>
        have h2 := this.2 (by simp)
        simp only [List.length_cons, Nat.add_sub_cancel] at h2 ⊢
        simpa using h2

end CountAcc
end Dfols

namespace Dfols
namespace CountAcc

/-- after the objective raised, no further evaluation is accepted (the `dead` phase is absorbing) -/
theorem dead_absorbing {s s' : St} {e : Ev} (hd : s.phase = .dead) (h : step s e = .ok s') :
    s'.phase = .dead ∧ isObj e = false := by
  cases e <;> simp only [step, hd] at h
  all_goals (repeat' split at h)
  all_goals (first | (simp at h; done) | skip)
  all_goals (simp only [Except.ok.injEq] at h; subst h)
  all_goals (first | exact ⟨hd, rfl⟩ | exact ⟨rfl, rfl⟩ | (simp_all [isObj]))

theorem dead_foldlM {s s' : St} (evs : List Ev) (hd : s.phase = .dead) (h : evs.foldlM step s = .ok s') :
    ∀ e ∈ evs, isObj e = false := by
  induction evs generalizing s with
  | nil => intro e he; simp at he
  | cons e evs ih =>
    simp only [List.foldlM_cons, bind, Except.bind] at h
    cases hs : step s e with
    | error m => simp [hs] at h
    | ok s1 =>
      rw [hs] at h
      have := dead_absorbing hd hs
      intro e' he'
      simp only [List.mem_cons] at he'
      rcases he' with he' | he'
      · subst he'; exact this.2
      · exact ih this.1 h e' he'

end CountAcc
end Dfols
