/-
  Helper lemmas for C20 (JSON round trip of `OptimResults`). No Mathlib needed.
-/
import DfolsVerif.Book.Json

namespace Dfols
namespace Json

/-! ### the list helpers of the mutual definitions are plain maps / folds -/

theorem replaceNanL_eq_map (xs : List Json) : replaceNanL xs = xs.map replaceNan := by
  induction xs with
  | nil => simp [replaceNanL]
  | cons x xs ih => simp [replaceNanL, ih]

theorem replaceNanF_eq_map (kvs : List (Key × Json)) :
    replaceNanF kvs = kvs.map fun kv => (kv.1, replaceNan kv.2) := by
  induction kvs with
  | nil => simp [replaceNanF]
  | cons kv kvs ih => obtain ⟨k, v⟩ := kv; simp [replaceNanF, ih]

theorem strKeysL_eq_map (xs : List Json) : strKeysL xs = xs.map strKeys := by
  induction xs with
  | nil => simp [strKeysL]
  | cons x xs ih => simp [strKeysL, ih]

theorem strKeysF_eq_map (kvs : List (Key × Json)) :
    strKeysF kvs = kvs.map fun kv => (Key.s kv.1.toStr, strKeys kv.2) := by
  induction kvs with
  | nil => simp [strKeysF]
  | cons kv kvs ih => obtain ⟨k, v⟩ := kv; simp [strKeysF, ih]

theorem isStrictL_eq_all (xs : List Json) : isStrictL xs = xs.all isStrict := by
  induction xs with
  | nil => simp [isStrictL]
  | cons x xs ih => simp [isStrictL, ih]

theorem isStrictF_eq_all (kvs : List (Key × Json)) : isStrictF kvs = kvs.all fun kv => isStrict kv.2 := by
  induction kvs with
  | nil => simp [isStrictF]
  | cons kv kvs ih => obtain ⟨k, v⟩ := kv; simp [isStrictF, ih]

theorem hasNaNL_eq_any (xs : List Json) : hasNaNL xs = xs.any hasNaN := by
  induction xs with
  | nil => simp [hasNaNL]
  | cons x xs ih => simp [hasNaNL, ih]

theorem hasNaNF_eq_any (kvs : List (Key × Json)) : hasNaNF kvs = kvs.any fun kv => hasNaN kv.2 := by
  induction kvs with
  | nil => simp [hasNaNF]
  | cons kv kvs ih => obtain ⟨k, v⟩ := kv; simp [hasNaNF, ih]

/-! ### equation lemmas in `List.map` form (used instead of unfolding the mutual definitions) -/

theorem replaceNan_arr (xs : List Json) : replaceNan (.arr xs) = .arr (xs.map replaceNan) := by
  rw [replaceNan, replaceNanL_eq_map]

theorem replaceNan_obj (kvs : List (Key × Json)) :
    replaceNan (.obj kvs) = .obj (kvs.map fun kv => (kv.1, replaceNan kv.2)) := by
  rw [replaceNan, replaceNanF_eq_map]

theorem replaceNan_null : replaceNan .null = .null := by simp [replaceNan]
theorem replaceNan_int (i : Int) : replaceNan (.int i) = .int i := by simp [replaceNan]
theorem replaceNan_str (s : String) : replaceNan (.str s) = .str s := by simp [replaceNan]
theorem replaceNan_bool (b : Bool) : replaceNan (.bool b) = .bool b := by simp [replaceNan]

theorem strKeys_arr (xs : List Json) : strKeys (.arr xs) = .arr (xs.map strKeys) := by
  rw [strKeys, strKeysL_eq_map]

theorem strKeys_obj (kvs : List (Key × Json)) :
    strKeys (.obj kvs) = .obj (kvs.map fun kv => (Key.s kv.1.toStr, strKeys kv.2)) := by
  rw [strKeys, strKeysF_eq_map]

theorem strKeys_null : strKeys .null = .null := by simp [strKeys]
theorem strKeys_int (i : Int) : strKeys (.int i) = .int i := by simp [strKeys]
theorem strKeys_str (s : String) : strKeys (.str s) = .str s := by simp [strKeys]
theorem strKeys_bool (b : Bool) : strKeys (.bool b) = .bool b := by simp [strKeys]
theorem strKeys_num (x : Fl) : strKeys (.num x) = .num x := by simp [strKeys]

theorem isStrict_arr (xs : List Json) : isStrict (.arr xs) = xs.all isStrict := by
  rw [isStrict, isStrictL_eq_all]

theorem isStrict_obj (kvs : List (Key × Json)) : isStrict (.obj kvs) = kvs.all fun kv => isStrict kv.2 := by
  rw [isStrict, isStrictF_eq_all]

/-! ### `replace_nan_with_none` leaves no NaN anywhere, for every value -/

mutual
theorem hasNaN_replaceNan : ∀ j : Json, hasNaN (replaceNan j) = false
  | .null => by simp [replaceNan, hasNaN]
  | .bool _ => by simp [replaceNan, hasNaN]
  | .int _ => by simp [replaceNan, hasNaN]
  | .str _ => by simp [replaceNan, hasNaN]
  | .num x => by cases x <;> simp [replaceNan, hasNaN, Fl.isNaN]
  | .arr xs => by simp [replaceNan, hasNaN, hasNaNL_replaceNanL xs]
  | .obj kvs => by simp [replaceNan, hasNaN, hasNaNF_replaceNanF kvs]
theorem hasNaNL_replaceNanL : ∀ xs : List Json, hasNaNL (replaceNanL xs) = false
  | [] => by simp [replaceNanL, hasNaNL]
  | x :: xs => by simp [replaceNanL, hasNaNL, hasNaN_replaceNan x, hasNaNL_replaceNanL xs]
theorem hasNaNF_replaceNanF : ∀ kvs : List (Key × Json), hasNaNF (replaceNanF kvs) = false
  | [] => by simp [replaceNanF, hasNaNF]
  | (_, v) :: r => by simp [replaceNanF, hasNaNF, hasNaN_replaceNan v, hasNaNF_replaceNanF r]
end

/-- a value without NaN is untouched by the replacement -/
theorem isStrict_imp_noNaN_num (x : Fl) (h : x.isFinite = true) : x.isNaN = false := by
  cases x <;> simp_all [Fl.isFinite, Fl.isNaN]

end Json

open Json ToDict FromDict

/-! ### `allSome` over a mapped list -/

theorem allSome_map {α β γ : Type} (f : β → Option γ) (g : α → β) (h : α → γ) (l : List α)
    (hfg : ∀ a ∈ l, f (g a) = some (h a)) : allSome f (l.map g) = some (l.map h) := by
  induction l with
  | nil => simp [allSome]
  | cons a l ih =>
    have h1 : f (g a) = some (h a) := hfg a (by simp)
    have h2 : allSome f (l.map g) = some (l.map h) := ih (fun b hb => hfg b (by simp [hb]))
    simp [allSome, h1, h2]

/-- the JSON image of one float after optional NaN replacement and transport -/
def nanToNull : Fl → Json
  | .nan => .null
  | x => .num x

theorem getFl_nanToNull (x : Fl) : getFl (nanToNull x) = some x := by
  cases x <;> simp [nanToNull, getFl]

theorem getFl_num (x : Fl) : getFl (.num x) = some x := by simp [getFl]

theorem replaceNan_num (x : Fl) : replaceNan (.num x) = nanToNull x := by
  cases x <;> simp [replaceNan, nanToNull]

theorem strKeys_nanToNull (x : Fl) : strKeys (nanToNull x) = nanToNull x := by
  cases x <;> simp [strKeys, nanToNull]

/-! ### vectors, matrices, integer lists -/

theorem replaceNan_vecJ (v : List Fl) : replaceNan (vecJ v) = .arr (v.map nanToNull) := by
  simp [vecJ, replaceNan_arr, List.map_map, Function.comp_def, replaceNan_num]

theorem strKeys_vecJ (v : List Fl) : strKeys (vecJ v) = vecJ v := by
  simp [vecJ, strKeys_arr, List.map_map, Function.comp_def, strKeys_num]

theorem strKeys_arr_nanToNull (v : List Fl) : strKeys (.arr (v.map nanToNull)) = .arr (v.map nanToNull) := by
  simp [strKeys_arr, List.map_map, Function.comp_def, strKeys_nanToNull]

theorem getVec_vecJ (v : List Fl) : getVec (vecJ v) = some v := by
  have := allSome_map getFl Json.num id v (fun a _ => by simp [getFl])
  simpa [getVec, vecJ] using this

theorem getVec_nanToNull (v : List Fl) : getVec (.arr (v.map nanToNull)) = some v := by
  have := allSome_map getFl nanToNull id v (fun a _ => by simp [getFl_nanToNull])
  simpa [getVec] using this

theorem replaceNan_matJ (m : List (List Fl)) :
    replaceNan (matJ m) = .arr (m.map fun row => .arr (row.map nanToNull)) := by
  simp [matJ, replaceNan_arr, List.map_map, Function.comp_def, replaceNan_vecJ]

theorem strKeys_matJ (m : List (List Fl)) : strKeys (matJ m) = matJ m := by
  simp [matJ, strKeys_arr, List.map_map, Function.comp_def, strKeys_vecJ]

theorem strKeys_mat_nanToNull (m : List (List Fl)) :
    strKeys (.arr (m.map fun row => Json.arr (row.map nanToNull))) = .arr (m.map fun row => .arr (row.map nanToNull)) := by
  simp [strKeys_arr, List.map_map, Function.comp_def, strKeys_nanToNull]

theorem getMat_matJ (m : List (List Fl)) : getMat (matJ m) = some m := by
  have := allSome_map getVec vecJ id m (fun a _ => by simp [getVec_vecJ])
  simpa [getMat, matJ] using this

theorem getMat_nanToNull (m : List (List Fl)) :
    getMat (.arr (m.map fun row => Json.arr (row.map nanToNull))) = some m := by
  have := allSome_map getVec (fun row => Json.arr (row.map nanToNull)) id m (fun a _ => by simp [getVec_nanToNull])
  simpa [getMat] using this

theorem replaceNan_intsJ (l : List Int) : replaceNan (intsJ l) = intsJ l := by
  simp [intsJ, replaceNan_arr, List.map_map, Function.comp_def, replaceNan_int]

theorem strKeys_intsJ (l : List Int) : strKeys (intsJ l) = intsJ l := by
  simp [intsJ, strKeys_arr, List.map_map, Function.comp_def, strKeys_int]

theorem getInts_intsJ (l : List Int) : getInts (intsJ l) = some l := by
  have := allSome_map getInt Json.int id l (fun a _ => by simp [getInt])
  simpa [getInts, intsJ] using this

/-! ### the diagnostic table -/

/-- a cell after optional NaN replacement -/
def cellJ' (b : Bool) (c : Cell) : Json := if b then replaceNan (cellJ c) else cellJ c

theorem getCell_cellJ (b : Bool) (c : Cell) : getCell (strKeys (cellJ' b c)) = some c.norm := by
  cases b <;> cases c with
  | na => simp [cellJ', cellJ, replaceNan, strKeys, getCell, Cell.norm]
  | int i => simp [cellJ', cellJ, replaceNan, strKeys, getCell, Cell.norm]
  | str s => simp [cellJ', cellJ, replaceNan, strKeys, getCell, Cell.norm]
  | num x => cases x <;> simp [cellJ', cellJ, replaceNan, strKeys, getCell, Cell.norm]

def colJ' (b : Bool) (c : Column) : Json := .obj (c.map fun kc => (kc.1, cellJ' b kc.2))
def tableJ' (b : Bool) (t : Table) : Json := .obj (t.map fun nc => (Key.s nc.1, colJ' b nc.2))

theorem replaceNan_colJ (c : Column) : replaceNan (colJ c) = colJ' true c := by
  simp [colJ, colJ', cellJ', replaceNan_obj, List.map_map, Function.comp_def]

theorem colJ_eq (c : Column) : colJ c = colJ' false c := by
  simp [colJ, colJ', cellJ']

theorem replaceNan_tableJ (t : Table) : replaceNan (tableJ t) = tableJ' true t := by
  simp [tableJ, tableJ', replaceNan_obj, List.map_map, Function.comp_def, replaceNan_colJ]

theorem tableJ_eq (t : Table) : tableJ t = tableJ' false t := by
  simp [tableJ, tableJ', colJ_eq]

theorem getCol_colJ (b : Bool) (c : Column) : getCol (strKeys (colJ' b c)) = some (Column.norm c) := by
  have := allSome_map (fun kv : Key × Json => (getCell kv.2).map fun c => (kv.1, c))
    (fun kc : Key × Cell => (Key.s kc.1.toStr, strKeys (cellJ' b kc.2)))
    (fun kc => (Key.s kc.1.toStr, kc.2.norm)) c (fun a _ => by simp [getCell_cellJ])
  simpa [getCol, colJ', strKeys_obj, List.map_map, Function.comp_def, Column.norm] using this

theorem getTable_tableJ (b : Bool) (t : Table) : getTable (strKeys (tableJ' b t)) = some (Table.norm t) := by
  have := allSome_map (fun kv : Key × Json => (getCol kv.2).map fun c => (kv.1.toStr, c))
    (fun nc : String × Column => (Key.s nc.1, strKeys (colJ' b nc.2)))
    (fun nc => (nc.1, Column.norm nc.2)) t (fun a _ => by simp [getCol_colJ, Key.toStr])
  simpa [getTable, tableJ', strKeys_obj, List.map_map, Function.comp_def, Table.norm, Key.toStr] using this

/-! ### norm is idempotent -/

theorem Cell.norm_norm (c : Cell) : c.norm.norm = c.norm := by
  cases c with
  | num x => cases x <;> simp [Cell.norm]
  | _ => simp [Cell.norm]

theorem Column.norm_norm (c : Column) : Column.norm (Column.norm c) = Column.norm c := by
  simp [Column.norm, List.map_map, Function.comp_def, Key.toStr, Cell.norm_norm]

theorem Table.norm_norm (t : Table) : Table.norm (Table.norm t) = Table.norm t := by
  simp [Table.norm, List.map_map, Function.comp_def, Column.norm_norm]

/-! ### every field of the dict reads back (`rep b` = optional NaN replacement) -/

theorem getOpt_null {α : Type} (f : Json → Option α) : getOpt f .null = some none := rfl
theorem getOpt_arr {α : Type} (f : Json → Option α) (xs : List Json) : getOpt f (.arr xs) = (f (.arr xs)).map some := rfl
theorem getOpt_obj {α : Type} (f : Json → Option α) (kvs : List (Key × Json)) : getOpt f (.obj kvs) = (f (.obj kvs)).map some := rfl

/-- the value stored under a key after optional NaN replacement -/
def rep (b : Bool) (j : Json) : Json := if b then replaceNan j else j

theorem getVec_rep (b : Bool) (v : List Fl) : getVec (strKeys (rep b (vecJ v))) = some v := by
  cases b
  · simp only [rep, Bool.false_eq_true, if_false, strKeys_vecJ, getVec_vecJ]
  · simp only [rep, if_true, replaceNan_vecJ, strKeys_arr_nanToNull, getVec_nanToNull]

theorem getObj_rep (b : Bool) (x : Fl) : getObj (strKeys (rep b (.num x))) = some x := by
  cases b
  · simp only [rep, Bool.false_eq_true, if_false, strKeys_num, getObj, getFl_num]
  · simp only [rep, if_true, replaceNan_num, strKeys_nanToNull, getObj, getFl_nanToNull]

theorem getInt_rep (b : Bool) (i : Int) : getInt (strKeys (rep b (.int i))) = some i := by
  cases b <;> simp [rep, replaceNan_int, strKeys_int, getInt]

theorem getStr_rep (b : Bool) (s : String) : getStr (strKeys (rep b (.str s))) = some s := by
  cases b <;> simp [rep, replaceNan_str, strKeys_str, getStr]

theorem getMat_rep (b : Bool) (m : Option (List (List Fl))) :
    getOpt getMat (strKeys (rep b (optJ matJ m))) = some m := by
  cases m with
  | none => cases b <;> simp [rep, optJ, replaceNan_null, strKeys_null, getOpt_null]
  | some m =>
    cases b
    · simp only [rep, Bool.false_eq_true, if_false, optJ, strKeys_matJ]
      rw [matJ, getOpt_arr, ← matJ, getMat_matJ]; rfl
    · simp only [rep, if_true, optJ, replaceNan_matJ, strKeys_mat_nanToNull]
      rw [getOpt_arr, getMat_nanToNull]; rfl

theorem getInts_rep (b : Bool) (l : Option (List Int)) :
    getOpt getInts (strKeys (rep b (optJ intsJ l))) = some l := by
  cases l with
  | none => cases b <;> simp [rep, optJ, replaceNan_null, strKeys_null, getOpt_null]
  | some l =>
    have h : getOpt getInts (intsJ l) = some (some l) := by
      rw [intsJ, getOpt_arr, ← intsJ, getInts_intsJ]; rfl
    cases b <;> simp [rep, optJ, replaceNan_intsJ, strKeys_intsJ, h]

theorem getTable_rep (b : Bool) (t : Option Table) :
    getOpt getTable (strKeys (rep b (optJ tableJ t))) = some (t.map Table.norm) := by
  cases t with
  | none => cases b <;> simp [rep, optJ, replaceNan_null, strKeys_null, getOpt_null]
  | some t =>
    have h : ∀ b', getOpt getTable (strKeys (tableJ' b' t)) = some (some (Table.norm t)) := by
      intro b'
      rw [tableJ', strKeys_obj, getOpt_obj, ← strKeys_obj, ← tableJ', getTable_tableJ]; rfl
    cases b
    · simp only [rep, Bool.false_eq_true, if_false, optJ, tableJ_eq, h, Option.map]
    · simp only [rep, if_true, optJ, replaceNan_tableJ, h, Option.map]

theorem rep_obj (b : Bool) (kvs : List (Key × Json)) :
    rep b (.obj kvs) = .obj (kvs.map fun kv => (kv.1, rep b kv.2)) := by
  cases b
  · simp [rep]
  · simp [rep, replaceNan_obj]

theorem toDict_eq_rep (b : Bool) (r : ResultRec) : toDict b r = rep b (toDictRaw r) := by
  cases b <;> simp [toDict, rep]

theorem fromDict_roundtrip (b : Bool) (r : ResultRec) :
    fromDict (strKeys (toDict b r)) = some r.norm := by
  rw [toDict_eq_rep, toDictRaw, rep_obj, strKeys_obj]
  simp only [List.map, Key.toStr]
  simp [fromDict, fromDictG, field, lookup, getVec_rep, getObj_rep, getInt_rep, getStr_rep, getMat_rep,
    getInts_rep, getTable_rep, ResultRecG.norm]

/-! ### strict JSON ⇔ no ±inf -/

theorem isStrict_nanToNull (x : Fl) : isStrict (nanToNull x) = !x.isInf := by
  cases x <;> simp [nanToNull, isStrict, Fl.isFinite, Fl.isInf]

theorem isStrict_vec (v : List Fl) : isStrict (replaceNan (vecJ v)) = v.all (fun x => !x.isInf) := by
  simp [replaceNan_vecJ, isStrict_arr, List.all_map, Function.comp_def, isStrict_nanToNull]

theorem isStrict_mat (m : Option (List (List Fl))) :
    isStrict (replaceNan (optJ matJ m)) =
      optAll matNoInf m := by
  cases m with
  | none => simp [optJ, replaceNan_null, isStrict, optAll]
  | some m => simp [optJ, replaceNan_matJ, isStrict_arr, List.all_map, Function.comp_def, isStrict_nanToNull, optAll, matNoInf]

theorem isStrict_ints (l : Option (List Int)) : isStrict (replaceNan (optJ intsJ l)) = true := by
  cases l with
  | none => simp [optJ, replaceNan_null, isStrict]
  | some l =>
    simp only [optJ, replaceNan_intsJ]
    simp [intsJ, isStrict_arr, isStrict]

theorem isStrict_cell (c : Cell) : isStrict (cellJ' true c) = c.isFiniteOrMissing := by
  cases c with
  | num x => cases x <;> simp [cellJ', cellJ, replaceNan, isStrict, Cell.isFiniteOrMissing, Fl.isFinite, Fl.isInf]
  | _ => simp [cellJ', cellJ, replaceNan, isStrict, Cell.isFiniteOrMissing]

theorem isStrict_table (t : Option Table) :
    isStrict (replaceNan (optJ tableJ t)) =
      optAll tableNoInf t := by
  cases t with
  | none => simp [optJ, replaceNan_null, isStrict, optAll]
  | some t =>
    simp [optJ, replaceNan_tableJ, tableJ', colJ', isStrict_obj, List.all_map, Function.comp_def, isStrict_cell,
      optAll, tableNoInf]

theorem isStrict_toDict (r : ResultRec) : isStrict (toDict true r) = r.noInf := by
  simp only [toDict, if_true, toDictRaw, replaceNan_obj, isStrict_obj, List.map, List.all]
  simp [isStrict_vec, isStrict_mat, isStrict_ints, isStrict_table, replaceNan_num, isStrict_nanToNull,
    replaceNan_int, replaceNan_str, isStrict, ResultRecG.noInf]

theorem strLines_norm (r : ResultRec) : strLines r.norm = strLines r := by
  cases h : r.diag <;> simp [strLines, strLinesBody, ResultRecG.norm, h]

end Dfols
