/-
  The diagnostic table as a state machine (C18: "the diagnostic table obeys its invariants").

  Source facts, decided over the tables harness/gen_diag.py regenerates from diagnostic_info.py / solver.py on every run:
    * `save_appends_once`   — `save_info_from_control` appends exactly once, on every path through it, to every column that
                              `__init__` creates, and to no other column; the value appended to `iters_total` is the old length;
    * `other_methods_set_last` — every other method only assigns the LAST element of columns `__init__` creates
                              (`update_*`), `to_dataframe` / `to_csv` touch no column by name;
    * `calls_shape`         — all calls are in `solve_main`'s main loop, not in an inner loop; the save call is the first
                              statement of a top-level `if params('logging.save_diagnostic_info')` of the loop body, comes first
                              in source order, and every other call stands under that same test.
  Model + theorem: for every sequence of operations in which each update is preceded by a save (what `calls_shape` gives:
  within an iteration the save comes first, and rows are never removed), no `[-1]` assignment hits an empty column
  (`IndexError`), all columns have the same length = the number of saves (so `pd.DataFrame(data)` is rectangular), and
  `iters_total` is 0, 1, …, rows − 1.
  Trusted: that `params('logging.save_diagnostic_info')` does not change during a run (C07's model of ParameterList:
  values change only through `params(key, new_value=…)`, which the solver calls before the runs start).
-/
import DfolsVerif.Gen.DiagSites

namespace Dfols
namespace DiagTable

/-! ### source facts (generated tables) -/

theorem save_appends_once :
    Gen.diagSaveAppends.map (·.1) = Gen.diagInitKeys ∧
    (∀ c ∈ Gen.diagSaveAppends, c.2.1 = 1 ∧ c.2.2 = 1) ∧
    Gen.diagInitKeys.Nodup ∧
    Gen.diagItersTotalExpr = "len(self.data['iters_total'])" := by decide +kernel

theorem other_methods_set_last :
    ∀ o ∈ Gen.diagMethodOps,
      (o.1 = "save_info_from_control" ∧ (o.2.2 = "append" ∨ (o.2.2 = "len" ∧ o.2.1 = "iters_total"))) ∨
      (o.1 ≠ "save_info_from_control" ∧ o.2.2 = "set-last" ∧ o.2.1 ∈ Gen.diagInitKeys) := by decide +kernel

def loggingLit : Lit := ⟨true, "params('logging.save_diagnostic_info')", "", ""⟩

theorem calls_shape :
    (∀ c ∈ Gen.diagCalls, c.inMainLoop = true ∧ c.innerLoops = 0 ∧ loggingLit ∈ c.path) ∧
    (∀ c ∈ Gen.diagCalls, c.method = "save_info_from_control" ↔ c.rank = 0) ∧
    (∃ c ∈ Gen.diagCalls, c.rank = 0 ∧ c.path = [⟨true, "True", "", ""⟩, loggingLit]) ∧
    Gen.diagSaveGuard = "params('logging.save_diagnostic_info')" ∧
    Gen.diagCallsElsewhere = [] := by decide +kernel

/-! ### model -/

/-- the lengths of the columns, and the contents of `iters_total` -/
structure St where
  cols : List (String × Nat)
  its : List Nat
deriving Repr

def init (keys : List String) : St := { cols := keys.map fun k => (k, 0), its := [] }

/-- `save_info_from_control` (by `save_appends_once`: every column grows by exactly one; `iters_total` gets its old length) -/
def save (s : St) : St := { cols := s.cols.map fun kv => (kv.1, kv.2 + 1), its := s.its ++ [s.its.length] }

/-- `update_*`: `self.data[k][-1] = v` — `none` = IndexError (empty column) or KeyError (no such column) -/
def update (s : St) (k : String) : Option St :=
  match s.cols.lookup k with
  | some (_ + 1) => some s
  | _ => none

inductive Op where
  | save
  | update (k : String)
deriving Repr, DecidableEq

def step (s : St) : Op → Option St
  | .save => some (save s)
  | .update k => update s k

def run (s : St) : List Op → Option St
  | [] => some s
  | o :: os => (step s o).bind fun s' => run s' os

/-- every update is preceded by a save -/
def savedFirst : Bool → List Op → Bool
  | _, [] => true
  | _, .save :: os => savedFirst true os
  | seen, .update _ :: os => seen && savedFirst seen os

def saves : List Op → Nat
  | [] => 0
  | .save :: os => saves os + 1
  | .update _ :: os => saves os

/-- invariant: rectangular with `rows` rows, on the columns `keys`, `iters_total = 0..rows-1` -/
structure Inv (keys : List String) (rows : Nat) (s : St) : Prop where
  cols : s.cols = keys.map fun k => (k, rows)
  its : s.its = List.range rows

theorem inv_init (keys : List String) : Inv keys 0 (init keys) := ⟨rfl, rfl⟩

theorem inv_save {keys : List String} {rows : Nat} {s : St} (h : Inv keys rows s) : Inv keys (rows + 1) (save s) := by
  refine ⟨?_, ?_⟩
  · simp [save, h.cols, List.map_map, Function.comp_def]
  · simp [save, h.its, List.range_succ]

theorem lookup_const (keys : List String) (rows : Nat) (k : String) (hk : k ∈ keys) :
    (keys.map fun k => (k, rows)).lookup k = some rows := by
  induction keys with
  | nil => cases hk
  | cons a as ih =>
    simp only [List.map_cons, List.lookup_cons]
    by_cases h : k = a
    · subst h; simp
    · have : (k == a) = false := by simpa using h
      rw [this]
      exact ih (by cases hk with | head => exact absurd rfl h | tail _ h' => exact h')

theorem update_ok {keys : List String} {rows : Nat} {s : St} (h : Inv keys (rows + 1) s) (k : String) (hk : k ∈ keys) :
    update s k = some s := by
  simp [update, h.cols, lookup_const keys (rows + 1) k hk]

/-- **the table stays rectangular and no update fails**, for every operation sequence in which each update is preceded by
    a save and names a column of `__init__` -/
theorem run_rect (keys : List String) :
    ∀ (ops : List Op) (rows : Nat) (s : St) (seen : Bool), Inv keys rows s → (seen = true → 0 < rows) →
      savedFirst seen ops = true → (∀ k, Op.update k ∈ ops → k ∈ keys) →
      ∃ s', run s ops = some s' ∧ Inv keys (rows + saves ops) s' := by
  intro ops
  induction ops with
  | nil => intro rows s _ h _ _ _; exact ⟨s, rfl, by simpa [saves] using h⟩
  | cons o os ih =>
    intro rows s seen h hseen hsf hk
    cases o with
    | save =>
      have h' := inv_save h
      obtain ⟨s', hr, hi⟩ := ih (rows + 1) (save s) true h' (fun _ => Nat.succ_pos _) (by simpa [savedFirst] using hsf)
        (fun k hk' => hk k (List.mem_cons_of_mem _ hk'))
      refine ⟨s', by simp [run, step, hr], ?_⟩
      have : rows + saves (Op.save :: os) = rows + 1 + saves os := by simp [saves]; omega
      rw [this]; exact hi
    | update k =>
      simp only [savedFirst, Bool.and_eq_true] at hsf
      have hpos : 0 < rows := hseen hsf.1
      obtain ⟨r, rfl⟩ : ∃ r, rows = r + 1 := ⟨rows - 1, by omega⟩
      have hu := update_ok h k (hk k (List.mem_cons_self ..))
      obtain ⟨s', hr, hi⟩ := ih (r + 1) s seen h hseen hsf.2 (fun k' hk' => hk k' (List.mem_cons_of_mem _ hk'))
      exact ⟨s', by simp [run, step, hu, hr], by simpa [saves] using hi⟩

/-- corollary from the empty table -/
theorem run_from_init (keys : List String) (ops : List Op) (hsf : savedFirst false ops = true)
    (hk : ∀ k, Op.update k ∈ ops → k ∈ keys) :
    ∃ s', run (init keys) ops = some s' ∧ (∀ kv ∈ s'.cols, kv.2 = saves ops) ∧ s'.cols.map (·.1) = keys ∧
      s'.its = List.range (saves ops) := by
  obtain ⟨s', hr, hi⟩ := run_rect keys ops 0 (init keys) false (inv_init keys) (by simp) hsf hk
  refine ⟨s', hr, ?_, ?_, ?_⟩
  · intro kv hkv
    rw [hi.cols] at hkv
    simp only [List.mem_map] at hkv
    obtain ⟨k, _, rfl⟩ := hkv
    simp
  · rw [hi.cols]; simp [List.map_map, Function.comp_def]
  · simpa using hi.its

/-- non-vacuity: two iterations with logging on (save, then the updates of a safety step / of a normal step) -/
example : savedFirst false [.save, .update "ratio", .update "iter_type", .save, .update "ratio", .update "slow_iter"] = true ∧
    saves [.save, .update "ratio", .update "iter_type", .save, .update "ratio", .update "slow_iter"] = 2 := by decide

/-- and an update before any save is an IndexError in the model too -/
example : run (init ["ratio"]) [.update "ratio"] = none := by decide

end DiagTable
end Dfols
