/-
  C12 clause (2), the two step lemmas (exact real arithmetic): the trust-region norm is kept by
    * the truncated conjugate-gradient step of `trsbox` (trust_region.py: `resid`, `temp`, `blen`): any step length
      0 ≤ t ≤ blen along `s` keeps the free part of `d` inside the ball of radius² `delsq`;
    * the rotation of `alt_trust_step` (`d_free ← cth·d_free + sth·s`): with `s ⟂ d_free`, `‖s‖ = ‖d_free‖`,
      `cth² + sth² = 1` the norm of the free part is unchanged.
  Vectors are the FREE components (`xbdi == 0`) as functions `Fin n → ℝ`; `x ⬝ᵥ y` is the dot product.
-/
import Mathlib.Analysis.Real.Sqrt
import Mathlib.Data.Matrix.Mul
import Mathlib.Tactic.Ring
import Mathlib.Tactic.Linarith
import Mathlib.Tactic.FieldSimp
import Mathlib.Tactic.Positivity
import Mathlib.Tactic.LinearCombination

namespace Dfols
namespace TrsNorm
open Matrix

variable {n : Nat}

/-- `blen` as computed by trust_region.py lines 323-324 -/
noncomputable def blen (stepsq resid ds : ℝ) : ℝ :=
  let temp := Real.sqrt (stepsq * resid + ds ^ 2)
  if ds ≥ 0 then resid / (temp + ds) else (temp - ds) / stepsq

theorem dot_step (d s : Fin n → ℝ) (t : ℝ) :
    (d + t • s) ⬝ᵥ (d + t • s) = d ⬝ᵥ d + 2 * t * (d ⬝ᵥ s) + t ^ 2 * (s ⬝ᵥ s) := by
  simp only [add_dotProduct, dotProduct_add, smul_dotProduct, dotProduct_smul, smul_eq_mul]
  rw [dotProduct_comm s d]
  ring

/-- scalar core: with `T = sqrt(stepsq·resid + ds²)`, every `0 ≤ t ≤ blen` has `stepsq·t² + 2·ds·t ≤ resid` -/
theorem quad_le (stepsq resid ds t : ℝ) (hs : 0 < stepsq) (hr : 0 ≤ resid) (ht0 : 0 ≤ t)
    (ht : t ≤ blen stepsq resid ds) : stepsq * t ^ 2 + 2 * ds * t ≤ resid := by
  have harg : 0 ≤ stepsq * resid + ds ^ 2 := by positivity
  set T := Real.sqrt (stepsq * resid + ds ^ 2) with hT
  have hT0 : 0 ≤ T := Real.sqrt_nonneg _
  have hT2 : T ^ 2 = stepsq * resid + ds ^ 2 := Real.sq_sqrt harg
  have hTabs : ds ^ 2 ≤ T ^ 2 := by rw [hT2]; nlinarith [mul_nonneg hs.le hr]
  have hTge : ds ≤ T := by nlinarith [sq_nonneg (T - ds), sq_nonneg (T + ds)]
  have hTge' : -T ≤ ds := by nlinarith [sq_nonneg (T - ds), sq_nonneg (T + ds)]
  -- t ≤ (T - ds)/stepsq, i.e. stepsq * t ≤ T - ds
  have hu : stepsq * t ≤ T - ds := by
    unfold blen at ht
    simp only [← hT] at ht
    split at ht
    · rename_i hds
      by_cases hz : T + ds = 0
      · rw [hz, div_zero] at ht
        have : t = 0 := le_antisymm ht ht0
        subst this; simp; linarith
      · have hpos : 0 < T + ds := lt_of_le_of_ne (by linarith) (Ne.symm hz)
        have h1 : t * (T + ds) ≤ resid := by
          have := (le_div_iff₀ hpos).mp ht
          linarith
        -- stepsq * resid = (T - ds)(T + ds)
        have h2 : stepsq * resid = (T - ds) * (T + ds) := by nlinarith
        have h3 : stepsq * t * (T + ds) ≤ (T - ds) * (T + ds) := by
          calc stepsq * t * (T + ds) = stepsq * (t * (T + ds)) := by ring
            _ ≤ stepsq * resid := mul_le_mul_of_nonneg_left h1 hs.le
            _ = (T - ds) * (T + ds) := h2
        exact le_of_mul_le_mul_right h3 hpos
    · have := (le_div_iff₀ hs).mp ht
      linarith
  -- stepsq * f(t) = (u + ds)² - T² ≤ 0 with u = stepsq t ∈ [0, T - ds]
  have hu0 : 0 ≤ stepsq * t := mul_nonneg hs.le ht0
  have hkey : (stepsq * t + ds) ^ 2 ≤ T ^ 2 := by
    have a : stepsq * t + ds ≤ T := by linarith
    have b : -T ≤ stepsq * t + ds := by linarith
    nlinarith
  have : stepsq * (stepsq * t ^ 2 + 2 * ds * t) ≤ stepsq * resid := by nlinarith
  exact le_of_mul_le_mul_left this hs

/-- **truncated CG step stays in the ball**: `resid = delsq − ‖d‖² ≥ 0`, `s ≠ 0`, `0 ≤ t ≤ blen` ⇒ `‖d + t s‖² ≤ delsq`. -/
theorem cg_step_in_ball (d s : Fin n → ℝ) (delsq t : ℝ) (hs : 0 < s ⬝ᵥ s) (hr : 0 ≤ delsq - d ⬝ᵥ d) (ht0 : 0 ≤ t)
    (ht : t ≤ blen (s ⬝ᵥ s) (delsq - d ⬝ᵥ d) (d ⬝ᵥ s)) :
    (d + t • s) ⬝ᵥ (d + t • s) ≤ delsq := by
  have := quad_le (s ⬝ᵥ s) (delsq - d ⬝ᵥ d) (d ⬝ᵥ s) t hs hr ht0 ht
  rw [dot_step]
  nlinarith

/-- scalar core of the boundary case: `blen` is the positive root -/
theorem quad_eq (stepsq resid ds : ℝ) (hs : 0 < stepsq) (hr : 0 < resid) :
    stepsq * (blen stepsq resid ds) ^ 2 + 2 * ds * blen stepsq resid ds = resid := by
  have harg : 0 ≤ stepsq * resid + ds ^ 2 := by positivity
  set T := Real.sqrt (stepsq * resid + ds ^ 2) with hT
  have hT2 : T ^ 2 = stepsq * resid + ds ^ 2 := Real.sq_sqrt harg
  have hTlt : ds ^ 2 < T ^ 2 := by rw [hT2]; nlinarith [mul_pos hs hr]
  have hT0 : 0 ≤ T := Real.sqrt_nonneg _
  have hlt : -T < ds ∧ ds < T := by
    constructor <;> nlinarith [sq_nonneg (T - ds), sq_nonneg (T + ds)]
  have hfac : stepsq * resid = (T - ds) * (T + ds) := by nlinarith
  have hpos : 0 < T + ds := by linarith [hlt.1]
  have key : ∀ t : ℝ, stepsq * t = T - ds → t * (T + ds) = resid → stepsq * t ^ 2 + 2 * ds * t = resid := by
    intro t h1 h2; linear_combination t * h1 + h2
  unfold blen
  simp only [← hT]
  split
  · apply key
    · have h2 : resid / (T + ds) * (T + ds) = resid := div_mul_cancel₀ _ (ne_of_gt hpos)
      have h3 : stepsq * (resid / (T + ds)) * (T + ds) = (T - ds) * (T + ds) := by
        rw [mul_assoc, h2, hfac]
      exact mul_right_cancel₀ (ne_of_gt hpos) h3
    · exact div_mul_cancel₀ _ (ne_of_gt hpos)
  · apply key
    · exact mul_div_cancel₀ _ (ne_of_gt hs)
    · rw [div_mul_eq_mul_div, ← hfac, mul_div_cancel_left₀ _ (ne_of_gt hs)]

/-- at `t = blen` the step reaches the boundary exactly (the case the code then hands to `alt_trust_step`) -/
theorem cg_step_on_boundary (d s : Fin n → ℝ) (delsq : ℝ) (hs : 0 < s ⬝ᵥ s) (hr : 0 < delsq - d ⬝ᵥ d) :
    let t := blen (s ⬝ᵥ s) (delsq - d ⬝ᵥ d) (d ⬝ᵥ s)
    (d + t • s) ⬝ᵥ (d + t • s) = delsq := by
  intro t
  have := quad_eq (s ⬝ᵥ s) (delsq - d ⬝ᵥ d) (d ⬝ᵥ s) hs hr
  rw [dot_step]
  show d ⬝ᵥ d + 2 * t * (d ⬝ᵥ s) + t ^ 2 * (s ⬝ᵥ s) = delsq
  linarith [this]

/-- **the rotation of `alt_trust_step` preserves the norm**: `d' = cth·d + sth·s`, `d ⟂ s`, `‖s‖ = ‖d‖`, `cth² + sth² = 1` -/
theorem rotation_norm (d s : Fin n → ℝ) (cth sth : ℝ) (horth : d ⬝ᵥ s = 0) (hnorm : s ⬝ᵥ s = d ⬝ᵥ d)
    (hcs : cth ^ 2 + sth ^ 2 = 1) :
    (cth • d + sth • s) ⬝ᵥ (cth • d + sth • s) = d ⬝ᵥ d := by
  simp only [add_dotProduct, dotProduct_add, smul_dotProduct, dotProduct_smul, smul_eq_mul]
  rw [dotProduct_comm s d, horth, hnorm]
  have : cth * (cth * d ⬝ᵥ d + sth * 0) + sth * (cth * 0 + sth * d ⬝ᵥ d) = (cth ^ 2 + sth ^ 2) * d ⬝ᵥ d := by ring
  rw [this, hcs, one_mul]

/-- the half-angle parametrisation of lines 509-510 is a rotation: `cth² + sth² = 1` for every `angt` -/
theorem half_angle (angt : ℝ) :
    ((1 - angt ^ 2) / (1 + angt ^ 2)) ^ 2 + (2 * angt / (1 + angt ^ 2)) ^ 2 = 1 := by
  have h : (1 + angt ^ 2) ≠ 0 := by positivity
  field_simp
  ring

end TrsNorm
end Dfols
