/-
  `generated = committed reference`: the tables regenerated from /repo's AST on this run
  (`DfolsVerif/Gen/*.lean`) are exactly the committed reference tables (`DfolsVerif/Spec/*.lean`,
  describing the repaired code).  Any edit to `params.py`'s defaults / type table, to the exit
  constants, `__all__`, message stems, restartability lists of `controller.py`, to
  `OptimResults.__init__`, to the `OptimResults(...)` / `ExitInformation(...)` calls inside `solve`
  or to the constants named in docs/userguide.rst makes one of these `decide`s fail, i.e. breaks the
  build of every theorem stated over the generated tables.
-/
import DfolsVerif.Gen.ParamTable
import DfolsVerif.Gen.ExitCodes
import DfolsVerif.Spec.ParamTable
import DfolsVerif.Spec.ExitCodes

namespace Dfols.GenSpec

theorem paramDefaults_eq : Gen.paramDefaults = Spec.paramDefaults := by decide +kernel

theorem paramTypes_eq : Gen.paramTypes = Spec.paramTypes := by decide +kernel

theorem exitTable_eq : Gen.exitTable = Spec.exitTable := by decide +kernel

end Dfols.GenSpec
