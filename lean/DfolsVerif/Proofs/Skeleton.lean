/-
  Soundness of the monitor evaluation over control-flow skeletons: every execution (every outcome of every test, every repetition
  count of an inner loop) of a skeleton ends in one of the (monitor state, ending) pairs computed by `reach`.  So a Boolean check
  on `reach m p q` — evaluated by the kernel on the term regenerated from /repo's AST — is a statement about ALL paths.
-/
import DfolsVerif.Kernels.Skeleton

namespace Dfols
namespace Skel

theorem mem_ins {α} [DecidableEq α] (x y : α) (l : List α) : y ∈ ins x l ↔ y = x ∨ y ∈ l := by
  unfold ins
  split
  · constructor
    · exact Or.inr
    · rintro (h | h)
      · subst h; assumption
      · exact h
  · simp

theorem mem_dedup {α} [DecidableEq α] (y : α) (l : List α) : y ∈ dedup l ↔ y ∈ l := by
  induction l with
  | nil => simp [dedup]
  | cons x xs ih =>
    have : dedup (x :: xs) = ins x (dedup xs) := rfl
    rw [this, mem_ins, ih]; simp

theorem mem_thenK_fall {Q} {rs : List (Q × Ending)} {k : Q → List (Q × Ending)} {q : Q} {r : Q × Ending}
    (h1 : (q, Ending.fall) ∈ rs) (h2 : r ∈ k q) : r ∈ thenK rs k := by
  unfold thenK
  rw [List.mem_flatMap]
  exact ⟨(q, .fall), h1, by simpa using h2⟩

theorem mem_thenK_jump {Q} {rs : List (Q × Ending)} {k : Q → List (Q × Ending)} {r : Q × Ending}
    (h1 : r ∈ rs) (h2 : r.2 ≠ .fall) : r ∈ thenK rs k := by
  unfold thenK
  rw [List.mem_flatMap]
  exact ⟨r, h1, by simp [h2]⟩

theorem run_append {Q} (m : Mon Q) (q : Q) (a b : List String) : m.run q (a ++ b) = m.run (m.run q a) b := by
  simp [Mon.run, List.foldl_append]

theorem run_replicate_inert {Q} (m : Mon Q) (a : String) (h : ∀ q, m.step q a = q) (n : Nat) (q : Q) :
    m.run q (List.replicate n a) = q := by
  induction n with
  | zero => rfl
  | succ n ih => simp only [List.replicate_succ, Mon.run, List.foldl_cons, h]; exact ih

/-- **soundness**: if the monitor does not react to the actions of inner loops, every execution ends in a listed pair -/
theorem reach_sound {Q} [DecidableEq Q] (m : Mon Q) (p : Prog) (hin : ∀ a ∈ repActs p, ∀ q, m.step q a = q)
    {tr : List String} {e : Ending} (hx : Exec p tr e) : ∀ q, (m.run q tr, e) ∈ reach m p q := by
  induction hx with
  | done => intro q; simp [reach, Mon.run]
  | cont => intro q; simp [reach, Mon.run]
  | brk => intro q; simp [reach, Mon.run]
  | raise => intro q; simp [reach, Mon.run]
  | @act a k tr e _ ih =>
    intro q
    have := ih (fun b hb => hin b (by simpa [repActs] using hb)) (m.step q a)
    simpa [reach, Mon.run] using this
  | @thenFall c t el k tr1 tr2 e _ _ ih1 ih2 =>
    intro q
    have h1 := ih1 (fun a ha => hin a (by simp [repActs, ha])) q
    have h2 := ih2 (fun a ha => hin a (by simp [repActs, ha])) (m.run q tr1)
    rw [run_append]
    simp only [reach, mem_dedup]
    exact mem_thenK_fall (by rw [mem_dedup]; exact List.mem_append_left _ h1) h2
  | thenJump _ hne ih1 =>
    intro q
    have h1 := ih1 (fun a ha => hin a (by simp [repActs, ha])) q
    simp only [reach, mem_dedup]
    exact mem_thenK_jump (by rw [mem_dedup]; exact List.mem_append_left _ h1) hne
  | @elseFall c t el k tr1 tr2 e _ _ ih1 ih2 =>
    intro q
    have h1 := ih1 (fun a ha => hin a (by simp [repActs, ha])) q
    have h2 := ih2 (fun a ha => hin a (by simp [repActs, ha])) (m.run q tr1)
    rw [run_append]
    simp only [reach, mem_dedup]
    exact mem_thenK_fall (by rw [mem_dedup]; exact List.mem_append_right _ h1) h2
  | elseJump _ hne ih1 =>
    intro q
    have h1 := ih1 (fun a ha => hin a (by simp [repActs, ha])) q
    simp only [reach, mem_dedup]
    exact mem_thenK_jump (by rw [mem_dedup]; exact List.mem_append_right _ h1) hne
  | @rep a k tr e n _ ih =>
    intro q
    have h := ih (fun a ha => hin a (by simp [repActs, ha])) q
    rw [run_append, run_replicate_inert m a (hin a (by simp [repActs])) n q]
    simpa [reach] using h

/-- the form in which it is used: a Boolean check over `reach` holds of every execution -/
theorem all_paths {Q} [DecidableEq Q] (m : Mon Q) (p : Prog) (q : Q) (ok : Q → Ending → Bool)
    (hin : ∀ a ∈ repActs p, ∀ q, m.step q a = q) (hall : allReach m p q ok = true)
    {tr : List String} {e : Ending} (hx : Exec p tr e) : ok (m.run q tr) e = true := by
  have := reach_sound m p hin hx q
  unfold allReach at hall
  rw [List.all_eq_true] at hall
  exact hall _ this

end Skel
end Dfols
