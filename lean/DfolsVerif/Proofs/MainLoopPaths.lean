/-
  Path theorems about the skeleton of solve_main's main loop (Gen/MainLoop.lean, regenerated from solver.py on every run).
  Each is: a small deterministic monitor over action names, a kernel evaluation of `reach` on the generated term, and
  `Skel.all_paths` (soundness) — so each holds for EVERY execution of the loop body: every outcome of every test.
-/
import DfolsVerif.Proofs.Skeleton
import DfolsVerif.Gen.MainLoop

namespace Dfols
namespace MainLoopPaths
open Skel

/-! ### the run counter (C10): counters saturate at 2 -/

structure QRuns where
  nruns : Nat
  soft : Nat
  iter0 : Nat
  rhoend : Nat
  bad : Bool
deriving DecidableEq, Repr

def sat (c : Nat) : Nat := min (c + 1) 2

def isOther (a : String) : Bool := a == "nruns:other" || a == "iter:other" || a == "rhoend:other"

def mRuns : Mon QRuns := ⟨fun q a =>
  if a == "nruns" then { q with nruns := sat q.nruns }
  else if a == "soft" then { q with soft := sat q.soft }
  else if a == "iter0" then { q with iter0 := sat q.iter0 }
  else if a == "rhoend" then { q with rhoend := sat q.rhoend }
  else if isOther a then { q with bad := true } else q⟩

def q0Runs : QRuns := ⟨0, 0, 0, 0, false⟩

/-- what must hold at the end of one execution of the loop body -/
def okRuns (q : QRuns) (e : Ending) : Bool :=
  !q.bad &&
  (match e with
   | .brk => q.nruns == 1 && q.iter0 == 0 && q.rhoend == 0 && q.soft ≤ 1
   | .cont => (q.soft == 0 && q.nruns == 0 && q.iter0 == 0 && q.rhoend == 0) ||
              (q.soft == 1 && q.nruns == 1 && q.iter0 == 1 && q.rhoend == 1)
   | .raise => q.nruns == 0 && q.soft == 0
   | .fall => false)

theorem runs_inert : ∀ a ∈ repActs Gen.mainLoop, ∀ q, mRuns.step q a = q := by
  have h : repActs Gen.mainLoop = ["smp"] := by decide +kernel
  rw [h]; intro a ha q; simp at ha; subst ha; rfl

theorem runs_all : allReach mRuns Gen.mainLoop q0Runs okRuns = true := by decide +kernel

theorem runs_paths {tr : List String} {e : Ending} (hx : Exec Gen.mainLoop tr e) : okRuns (mRuns.run q0Runs tr) e = true :=
  all_paths mRuns Gen.mainLoop q0Runs okRuns runs_inert runs_all hx

/-- the monitor's counters are the (saturated) numbers of occurrences in the trace -/
theorem runs_count (tr : List String) : ∀ q : QRuns, mRuns.run q tr =
    { nruns := if tr.count "nruns" = 0 then q.nruns else min (q.nruns + tr.count "nruns") 2,
      soft := if tr.count "soft" = 0 then q.soft else min (q.soft + tr.count "soft") 2,
      iter0 := if tr.count "iter0" = 0 then q.iter0 else min (q.iter0 + tr.count "iter0") 2,
      rhoend := if tr.count "rhoend" = 0 then q.rhoend else min (q.rhoend + tr.count "rhoend") 2,
      bad := q.bad || tr.any isOther } := by
  induction tr with
  | nil => intro q; simp [Mon.run]
  | cons a tr ih =>
    intro q
    have hstep : mRuns.run q (a :: tr) = mRuns.run (mRuns.step q a) tr := rfl
    rw [hstep, ih]
    by_cases h1 : a = "nruns"
    · subst h1; simp [mRuns, sat, isOther, List.count_cons]; split <;> omega
    by_cases h2 : a = "soft"
    · subst h2; simp [mRuns, sat, isOther, List.count_cons]; split <;> omega
    by_cases h3 : a = "iter0"
    · subst h3; simp [mRuns, sat, isOther, List.count_cons]; split <;> omega
    by_cases h4 : a = "rhoend"
    · subst h4; simp [mRuns, sat, isOther, List.count_cons]; split <;> omega
    have e1 : ("nruns" == a) = false := by simpa using fun h => h1 h.symm
    have e2 : ("soft" == a) = false := by simpa using fun h => h2 h.symm
    have e3 : ("iter0" == a) = false := by simpa using fun h => h3 h.symm
    have e4 : ("rhoend" == a) = false := by simpa using fun h => h4 h.symm
    by_cases h5 : isOther a = true
    · simp [mRuns, h1, h2, h3, h4, h5, List.count_cons, e1, e2, e3, e4]
    · simp [mRuns, h1, h2, h3, h4, h5, List.count_cons, e1, e2, e3, e4]

def satOf (c : Nat) : Nat := if c = 0 then 0 else min c 2

theorem satOf_one (c : Nat) : (satOf c == 1) = true ↔ c = 1 := by unfold satOf; split <;> simp <;> omega
theorem satOf_zero (c : Nat) : (satOf c == 0) = true ↔ c = 0 := by unfold satOf; split <;> simp <;> omega
theorem satOf_le_one (c : Nat) : satOf c ≤ 1 ↔ c ≤ 1 := by unfold satOf; split <;> omega

theorem runs_count0 (tr : List String) : mRuns.run q0Runs tr =
    ⟨satOf (tr.count "nruns"), satOf (tr.count "soft"), satOf (tr.count "iter0"), satOf (tr.count "rhoend"), tr.any isOther⟩ := by
  rw [runs_count]; simp [q0Runs, satOf]

/-- **the run counter, in terms of the trace**: every execution of the loop body that leaves the loop (`break`) increments
    `nruns_so_far` exactly once and does not reset the iteration counter or rescale rhoend; every execution that goes on to the next
    iteration either performs no soft restart and leaves the run counter alone, or performs exactly one soft restart, one
    increment, one `current_iter = -1` and one rescaling of rhoend; the body never falls off its end; nothing else writes these. -/
theorem runs_trace {tr : List String} {e : Ending} (hx : Exec Gen.mainLoop tr e) :
    (e = .brk → tr.count "nruns" = 1 ∧ tr.count "iter0" = 0 ∧ tr.count "rhoend" = 0 ∧ tr.count "soft" ≤ 1) ∧
    (e = .cont → (tr.count "soft" = 0 ∧ tr.count "nruns" = 0 ∧ tr.count "iter0" = 0 ∧ tr.count "rhoend" = 0) ∨
                 (tr.count "soft" = 1 ∧ tr.count "nruns" = 1 ∧ tr.count "iter0" = 1 ∧ tr.count "rhoend" = 1)) ∧
    (e = .raise → tr.count "nruns" = 0 ∧ tr.count "soft" = 0) ∧
    e ≠ .fall ∧ tr.any isOther = false := by
  have h := runs_paths hx
  rw [runs_count0] at h
  generalize tr.count "nruns" = a at h ⊢
  generalize tr.count "soft" = b at h ⊢
  generalize tr.count "iter0" = c at h ⊢
  generalize tr.count "rhoend" = d at h ⊢
  generalize tr.any isOther = o at h ⊢
  cases e <;>
    simp only [okRuns, Bool.and_eq_true, Bool.or_eq_true, Bool.not_eq_true', satOf_one, satOf_zero, decide_eq_true_eq,
      satOf_le_one, Bool.and_false, Bool.false_eq_true] at h <;>
    simp only [reduceCtorEq, false_imp_iff, true_and, ne_eq, not_false_eq_true, not_true_eq_false, forall_const, and_true] <;>
    first
      | exact h.elim
      | (obtain ⟨ho, h⟩ := h; refine ⟨?_, ho⟩; first | omega | (rcases h with h | h <;> omega))
      | (obtain ⟨ho, h⟩ := h; exact ⟨by omega, ho⟩)

/-! ### progress (C18 no-stall): an iteration that goes on has done something -/

def isProgress (a : String) : Bool :=
  a == "eval" || a == "grow" || a == "move" || a == "rho" || a == "soft" || a == "T:did_fix_geom"

def mProg : Mon Bool := ⟨fun q a => q || isProgress a⟩

theorem prog_inert : ∀ a ∈ repActs Gen.mainLoop, ∀ q, mProg.step q a = q := by
  have h : repActs Gen.mainLoop = ["smp"] := by decide +kernel
  rw [h]; intro a ha q; simp at ha; subst ha; simp [mProg, isProgress]

theorem prog_all : allReach mProg Gen.mainLoop false (fun q e => e != .cont || q) = true := by decide +kernel

theorem prog_run (tr : List String) : ∀ q, mProg.run q tr = (q || tr.any isProgress) := by
  induction tr with
  | nil => intro q; simp [Mon.run]
  | cons a tr ih =>
    intro q
    have hstep : mProg.run q (a :: tr) = mProg.run (mProg.step q a) tr := rfl
    rw [hstep, ih]; simp [mProg, Bool.or_assoc]

/-- every execution of the loop body that goes on to the next iteration has called `evaluate_objective`, the growing or the
    regression routine, `reduce_rho`, `soft_restart`, or has passed a test `did_fix_geom` that held -/
theorem prog_trace {tr : List String} {e : Ending} (hx : Exec Gen.mainLoop tr e) (he : e = .cont) :
    ∃ a ∈ tr, isProgress a = true := by
  have h := all_paths mProg Gen.mainLoop false _ prog_inert prog_all hx
  rw [prog_run] at h
  subst he
  simpa using h

/-! ### no evaluated point is dropped (C04 / C03) -/

/-- `pend`: a point was evaluated by `evaluate_objective` in the loop body and neither `change_point` nor `save_point` has been
    called since; `excused`: the path went through the NaN branch, through `num_samples_run > 0` being false (nothing was
    evaluated), or through the failure branch directly after the SECOND `choose_point_to_replace` (same point set as the first
    call, whose success is what led to the evaluation); `dropped`: a second evaluation while one was pending. -/
structure QStore where
  pend : Bool
  excused : Bool
  dropped : Bool
  chose : Bool
deriving DecidableEq, Repr

def mStore : Mon QStore := ⟨fun q a =>
  if a == "eval" then { q with pend := true, dropped := q.dropped || q.pend, chose := false }
  else if a == "chg" || a == "sav" then { q with pend := false, chose := false }
  else if a == "T:np.any(np.isnan(rvec_list))" || a == "F:num_samples_run > 0" then { q with excused := true, chose := false }
  else if a == "choose" then { q with chose := true }
  else if a == "T:exit_info is not None" then { q with excused := q.excused || (q.chose && q.pend), chose := false }
  else if a == "smp" then q
  else { q with chose := false }⟩

theorem store_inert : ∀ a ∈ repActs Gen.mainLoop, ∀ q, mStore.step q a = q := by
  have h : repActs Gen.mainLoop = ["smp"] := by decide +kernel
  rw [h]; intro a ha q; simp at ha; subst ha; rfl

theorem store_all : allReach mStore Gen.mainLoop ⟨false, false, false, false⟩
    (fun q _ => !q.dropped && (!q.pend || q.excused)) = true := by decide +kernel

/-- on every execution of the loop body: no second evaluation while an evaluated point is waiting to be stored, and at the end
    of the body an evaluated point has been handed to `change_point` / `save_point` unless the path is one of the three excused ones -/
theorem store_trace {tr : List String} {e : Ending} (hx : Exec Gen.mainLoop tr e) :
    (mStore.run ⟨false, false, false, false⟩ tr).dropped = false ∧
    ((mStore.run ⟨false, false, false, false⟩ tr).pend = true → (mStore.run ⟨false, false, false, false⟩ tr).excused = true) := by
  have h := all_paths mStore Gen.mainLoop ⟨false, false, false, false⟩ _ store_inert store_all hx
  simp only [Bool.and_eq_true, Bool.not_eq_true', Bool.or_eq_true] at h
  refine ⟨h.1, fun hp => ?_⟩
  rcases h.2 with h2 | h2
  · rw [hp] at h2; exact absurd h2 (by simp)
  · exact h2

/-- non-vacuity: the skeleton has executions of every kind (a plain successful iteration; a break; a restart) -/
theorem nonvacuous : (reach mRuns Gen.mainLoop q0Runs).length = 5 ∧ size Gen.mainLoop > 400 := by decide +kernel

/-! ### the exit object (C07 / C10): leaving the loop always carries one -/

def exitActs : List String :=
  ["exit:EXIT_SUCCESS", "exit:EXIT_LINALG_ERROR", "exit:EXIT_EVAL_ERROR", "exit:EXIT_SLOW_WARNING",
   "exit:EXIT_FALSE_SUCCESS_WARNING", "exit:EXIT_AUTO_DETECT_RESTART_WARNING", "exit:EXIT_MAXFUN_WARNING",
   "exit:EXIT_TR_INCREASE_ERROR", "exit:EXIT_INPUT_ERROR", "exit:EXIT_TR_INCREASE_WARNING"]

/-- calls whose result is assigned to `exit_info` (it may be None afterwards) -/
def mayClear : List String :=
  ["soft", "eval", "geom", "grow", "move", "choose", "ratio", "exitinfo:none", "exitinfo:other"]

/-- `true`: `exit_info` is known to be an ExitInformation object (just created, or tested `is not None` since its last assignment) -/
def mExit : Mon Bool := ⟨fun q a =>
  if a == "T:exit_info is not None" then true
  else if a == "F:exit_info is not None" then false
  else if mayClear.contains a then false
  else if exitActs.contains a then true
  else q⟩

theorem exit_inert : ∀ a ∈ repActs Gen.mainLoop, ∀ q, mExit.step q a = q := by
  have h : repActs Gen.mainLoop = ["smp"] := by decide +kernel
  rw [h]; intro a ha q; simp at ha; subst ha; rfl

theorem exit_all : allReach mExit Gen.mainLoop false (fun q e => e != .brk || q) = true := by decide +kernel

/-- every execution of the loop body that leaves the loop has `exit_info` bound to an ExitInformation object: created on the path,
    or returned by a Controller method and tested `is not None` after that assignment -/
theorem exit_trace {tr : List String} {e : Ending} (hx : Exec Gen.mainLoop tr e) (he : e = .brk) :
    mExit.run false tr = true := by
  have h := all_paths mExit Gen.mainLoop false _ exit_inert exit_all hx
  subst he
  simpa using h

/-! ### `did_fix_geom` is read only behind "the geometry call returned no exit object" -/

/-- 0: no geometry call yet; 1: `check_and_fix_geometry` called, `exit_info` not tested since; 2: tested `is None` since;
    3: a `did_fix_geom` test that held was reached in another state -/
def mGeomGuard : Mon Nat := ⟨fun q a =>
  if q == 3 then 3
  else if a == "geom" then 1
  else if a == "F:exit_info is not None" then (if q == 1 then 2 else q)
  else if a == "T:did_fix_geom" then (if q == 2 then 2 else 3)
  else q⟩

theorem geomguard_inert : ∀ a ∈ repActs Gen.mainLoop, ∀ q, mGeomGuard.step q a = q := by
  have h : repActs Gen.mainLoop = ["smp"] := by decide +kernel
  rw [h]; intro a ha q; simp at ha; subst ha
  simp only [mGeomGuard]
  split <;> simp_all

theorem geomguard_all : allReach mGeomGuard Gen.mainLoop 0 (fun q _ => q != 3) = true := by decide +kernel

/-- on every execution of the loop body, a `did_fix_geom` test that holds is reached only after `check_and_fix_geometry` was
    called and `exit_info is not None` was found false since -/
theorem geomguard_trace {tr : List String} {e : Ending} (hx : Exec Gen.mainLoop tr e) : mGeomGuard.run 0 tr ≠ 3 := by
  have h := all_paths mGeomGuard Gen.mainLoop 0 _ geomguard_inert geomguard_all hx
  simpa using h

end MainLoopPaths
end Dfols
