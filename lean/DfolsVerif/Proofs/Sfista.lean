/-
  The S-FISTA parameter block of `ctrsbox_sfista` (translated from /repo on every run, Gen/SfistaFns.lean) is well
  defined over the reals: with the inputs the Controller passes (delta > 0, L_h = lh > 0 validated by `solve`,
  func_tol > 0, sfista.max_iters_scaling ≥ 1 and func_tol.max_iters ≥ 1 validated by the parameter list, ‖H‖₂ ≥ 0)
  the loop runs at least once and at most `max_iters` times, the smoothing parameter `u` and the Lipschitz constant `l`
  are strictly positive — so `2*delta/(MAX_LOOP_ITERS*L_h)`, `1/u` and `g_Fu / l` divide by non-zero numbers, and
  `gnew`, which only the loop body binds, is bound when the function returns.
  NOT modelled: floating-point underflow of the iteration bound to 0.0 (needs delta*L_h/func_tol < 2^-1074).
-/
import DfolsVerif.Gen.SfistaFns
import Mathlib.Analysis.Real.Sqrt
import Mathlib.Algebra.Order.Floor.Ring
import Mathlib.Tactic.Linarith
import Mathlib.Tactic.Positivity

namespace Dfols
namespace Sfista

noncomputable def realOps : SfistaOps ℝ where
  add := (· + ·)
  mul := (· * ·)
  div := (· / ·)
  sqrt := Real.sqrt
  ceil := fun x => ⌈x⌉₊
  ofNat := fun n => (n : ℝ)

variable {scale delta Lh kH tol : ℝ} {maxIters : ℕ}

/-- the argument of `ceil` is strictly positive -/
theorem bound_pos (hs : 1 ≤ scale) (hd : 0 < delta) (hL : 0 < Lh) (_hk : 0 ≤ kH) (ht : 0 < tol) :
    0 < scale * delta * (Lh + Real.sqrt (Lh * Lh + 2 * kH * tol)) / tol := by
  have h1 : 0 ≤ Real.sqrt (Lh * Lh + 2 * kH * tol) := Real.sqrt_nonneg _
  have h2 : 0 < scale := lt_of_lt_of_le one_pos hs
  positivity

/-- **at least one and at most `max_iters` iterations** -/
theorem iters_bounds (hs : 1 ≤ scale) (hd : 0 < delta) (hL : 0 < Lh) (hk : 0 ≤ kH) (ht : 0 < tol) (hm : 1 ≤ maxIters) :
    1 ≤ Gen.sfistaIters realOps scale delta Lh kH tol maxIters ∧
    Gen.sfistaIters realOps scale delta Lh kH tol maxIters ≤ maxIters := by
  have hp := bound_pos hs hd hL hk ht
  have hc : 1 ≤ ⌈scale * delta * (Lh + Real.sqrt (Lh * Lh + 2 * kH * tol)) / tol⌉₊ := Nat.one_le_iff_ne_zero.mpr (by
    intro h0; rw [Nat.ceil_eq_zero] at h0; linarith)
  simp only [Gen.sfistaIters, realOps, Nat.cast_ofNat]
  exact ⟨Nat.le_min.mpr ⟨hc, hm⟩, Nat.min_le_right _ _⟩

/-- the `except ValueError` branch also leaves at least one iteration -/
theorem fallback_bounds (hm : 1 ≤ maxIters) : 1 ≤ Gen.sfistaItersFallback maxIters := hm

/-- the smoothing parameter is strictly positive whenever there is at least one iteration -/
theorem u_pos {K : ℕ} (hK : 1 ≤ K) (hd : 0 < delta) (hL : 0 < Lh) : 0 < Gen.sfistaU realOps K delta Lh := by
  have hK' : (0 : ℝ) < (K : ℝ) := by exact_mod_cast hK
  simp only [Gen.sfistaU, realOps]
  positivity

/-- the step length `1 / l` is well defined: `l > 0` -/
theorem lip_pos {u : ℝ} (hk : 0 ≤ kH) (hu : 0 < u) : 0 < Gen.sfistaLip realOps kH u := by
  simp only [Gen.sfistaLip, realOps]
  positivity

/-- every name in the `return` statement is bound before the loop or unconditionally by its body, the loop is
    `for k in range(MAX_LOOP_ITERS)` and has no early exit -/
theorem return_bound_after_one_iteration :
    (∀ r ∈ Gen.sfistaReturn, r.boundBeforeLoop = true ∨ r.boundInLoopBody = true) ∧
    Gen.sfistaLoopHeader = "for k in range(MAX_LOOP_ITERS)" ∧ Gen.sfistaLoopEarlyExits = [] := by decide

/-- non-vacuity: the default options (`func_tol.max_iters = 500`, scaling 2) with delta = 1, lh = 1, ‖H‖ = 0, tol = 1/1000 -/
example : 1 ≤ Gen.sfistaIters realOps 2 1 1 0 (1/1000) 500 :=
  (iters_bounds (by norm_num) (by norm_num) (by norm_num) (le_refl _) (by norm_num) (by norm_num)).1

end Sfista
end Dfols
