/-
  Soundness of monitor reachability for skeletons with loops and `return` (Kernels/SkeletonL.lean): when the head sets computed
  with fuel are closed wherever a loop is met (`wf`), every execution ends in a listed (monitor state, ending) pair.
-/
import DfolsVerif.Kernels.SkeletonL

namespace Dfols
namespace SkelL

theorem mem_ins {α} [DecidableEq α] (x y : α) (l : List α) : y ∈ ins x l ↔ y = x ∨ y ∈ l := by
  unfold ins
  split
  · constructor
    · exact Or.inr
    · rintro (h | h)
      · subst h; assumption
      · exact h
  · simp

theorem mem_dedup {α} [DecidableEq α] (y : α) (l : List α) : y ∈ dedup l ↔ y ∈ l := by
  induction l with
  | nil => simp [dedup]
  | cons x xs ih =>
    have : dedup (x :: xs) = ins x (dedup xs) := rfl
    rw [this, mem_ins, ih]; simp

theorem mem_thenK_fall {Q} {rs : List (Q × Ending)} {k : Q → List (Q × Ending)} {q : Q} {r : Q × Ending}
    (h1 : (q, Ending.fall) ∈ rs) (h2 : r ∈ k q) : r ∈ thenK rs k := by
  unfold thenK
  rw [List.mem_flatMap]
  exact ⟨(q, .fall), h1, by simpa using h2⟩

theorem mem_thenK_jump {Q} {rs : List (Q × Ending)} {k : Q → List (Q × Ending)} {r : Q × Ending}
    (h1 : r ∈ rs) (h2 : r.2 ≠ .fall) : r ∈ thenK rs k := by
  unfold thenK
  rw [List.mem_flatMap]
  exact ⟨r, h1, by simp [h2]⟩

theorem run_append {Q} (m : Mon Q) (q : Q) (a b : List String) : m.run q (a ++ b) = m.run (m.run q a) b := by
  simp [Mon.run, List.foldl_append]

theorem subset_nextHeads {Q} [DecidableEq Q] (b : Q → List (Q × Ending)) (S : List Q) {x : Q} (h : x ∈ S) :
    x ∈ nextHeads b S := by
  unfold nextHeads; rw [mem_dedup]; exact List.mem_append_left _ h

theorem subset_iterHeads {Q} [DecidableEq Q] (b : Q → List (Q × Ending)) (n : Nat) : ∀ (S : List Q) {x : Q}, x ∈ S →
    x ∈ iterHeads b n S := by
  induction n with
  | zero => intro S x h; exact h
  | succ n ih => intro S x h; exact ih _ (subset_nextHeads b S h)

/-- the loop lemma: from any head in a closed, checked head set, every execution of the loop ends in `loopOut` -/
theorem loop_sound {Q} [DecidableEq Q] (m : Mon Q) (b k : Prog)
    (hb : ∀ tr e, Exec b tr e → ∀ q, wf m b q = true → (m.run q tr, e) ∈ reach m b q)
    (hk : ∀ tr e, Exec k tr e → ∀ q, wf m k q = true → (m.run q tr, e) ∈ reach m k q)
    (H : List Q) (hcl : closed (reach m b) H = true)
    (hall : ∀ h ∈ H, wf m b h = true ∧ wf m k h = true ∧ ∀ r ∈ reach m b h, r.2 = .brk → wf m k r.1 = true)
    {p : Prog} {tr : List String} {e : Ending} (hx : Exec p tr e) (hp : p = .loop b k) :
    ∀ h ∈ H, (m.run h tr, e) ∈ loopOut (reach m b) (reach m k) H := by
  induction hx with
  | done | cont | brk | ret | raise => cases hp
  | act _ _ => cases hp
  | thenFall _ _ _ _ => cases hp
  | thenJump _ _ _ => cases hp
  | elseFall _ _ _ _ => cases hp
  | elseJump _ _ _ => cases hp
  | @loopExit b' k' tr e hk' _ =>
    cases hp
    intro h hh
    have := hk _ _ hk' h (hall h hh).2.1
    unfold loopOut; rw [List.mem_flatMap]
    exact ⟨h, hh, List.mem_append_left _ this⟩
  | @loopIter b' k' tr1 tr2 e1 e hb' hag hrest _ ihrest =>
    cases hp
    intro h hh
    have h1 := hb _ _ hb' h (hall h hh).1
    have hmem : m.run h tr1 ∈ H := by
      unfold closed at hcl
      rw [List.all_eq_true] at hcl
      have := hcl h hh
      rw [List.all_eq_true] at this
      have := this _ h1
      simp only [hag, Bool.not_true, Bool.false_or, List.contains_iff_mem] at this
      exact this
    rw [run_append]
    exact ihrest rfl _ hmem
  | @loopBrk b' k' tr1 tr2 e hb' hk' _ _ =>
    cases hp
    intro h hh
    have h1 := hb _ _ hb' h (hall h hh).1
    have hw := (hall h hh).2.2 _ h1 rfl
    have h2 := hk _ _ hk' _ hw
    rw [run_append]
    unfold loopOut; rw [List.mem_flatMap]
    refine ⟨h, hh, List.mem_append_right _ ?_⟩
    rw [List.mem_flatMap]
    exact ⟨_, h1, by simpa using h2⟩
  | @loopLeave b' k' tr1 e hb' hl _ =>
    cases hp
    intro h hh
    have h1 := hb _ _ hb' h (hall h hh).1
    unfold loopOut; rw [List.mem_flatMap]
    refine ⟨h, hh, List.mem_append_right _ ?_⟩
    rw [List.mem_flatMap]
    refine ⟨_, h1, ?_⟩
    have hne : e ≠ .brk := by intro hc; subst hc; simp [Ending.leaves] at hl
    simp [hne, hl]

/-- **soundness** -/
theorem reach_sound {Q} [DecidableEq Q] (m : Mon Q) : ∀ (p : Prog) (tr : List String) (e : Ending), Exec p tr e →
    ∀ q, wf m p q = true → (m.run q tr, e) ∈ reach m p q := by
  intro p
  induction p with
  | done => intro tr e hx q _; cases hx; simp [reach, Mon.run]
  | cont => intro tr e hx q _; cases hx; simp [reach, Mon.run]
  | brk => intro tr e hx q _; cases hx; simp [reach, Mon.run]
  | ret => intro tr e hx q _; cases hx; simp [reach, Mon.run]
  | raise => intro tr e hx q _; cases hx; simp [reach, Mon.run]
  | act a k ih =>
    intro tr e hx q hw
    cases hx with
    | act h =>
      have := ih _ _ h (m.step q a) (by simpa [wf] using hw)
      simpa [reach, Mon.run] using this
  | ite c t el k iht ihe ihk =>
    intro tr e hx q hw
    simp only [wf, Bool.and_eq_true, List.all_eq_true, Bool.or_eq_true, bne_iff_ne, ne_eq] at hw
    obtain ⟨⟨hwt, hwe⟩, hwk⟩ := hw
    simp only [reach, mem_dedup]
    cases hx with
    | @thenFall _ _ _ _ tr1 tr2 _ h1 h2 =>
      have m1 := iht _ _ h1 q hwt
      have hmem : (m.run q tr1, Ending.fall) ∈ dedup (reach m t q ++ reach m el q) := by
        rw [mem_dedup]; exact List.mem_append_left _ m1
      have hwk' : wf m k (m.run q tr1) = true := by
        rcases hwk _ hmem with h | h
        · exact absurd rfl h
        · exact h
      rw [run_append]
      exact mem_thenK_fall hmem (ihk _ _ h2 _ hwk')
    | thenJump h1 hne =>
      have m1 := iht _ _ h1 q hwt
      exact mem_thenK_jump (by rw [mem_dedup]; exact List.mem_append_left _ m1) hne
    | @elseFall _ _ _ _ tr1 tr2 _ h1 h2 =>
      have m1 := ihe _ _ h1 q hwe
      have hmem : (m.run q tr1, Ending.fall) ∈ dedup (reach m t q ++ reach m el q) := by
        rw [mem_dedup]; exact List.mem_append_right _ m1
      have hwk' : wf m k (m.run q tr1) = true := by
        rcases hwk _ hmem with h | h
        · exact absurd rfl h
        · exact h
      rw [run_append]
      exact mem_thenK_fall hmem (ihk _ _ h2 _ hwk')
    | elseJump h1 hne =>
      have m1 := ihe _ _ h1 q hwe
      exact mem_thenK_jump (by rw [mem_dedup]; exact List.mem_append_right _ m1) hne
  | loop b k ihb ihk =>
    intro tr e hx q hw
    simp only [wf, Bool.and_eq_true, List.all_eq_true, Bool.or_eq_true, bne_iff_ne, ne_eq] at hw
    obtain ⟨hcl, hall⟩ := hw
    simp only [reach, mem_dedup]
    refine loop_sound m b k ihb ihk _ hcl ?_ hx rfl q (subset_iterHeads _ _ _ (by simp))
    intro h hh
    obtain ⟨⟨h1, h2⟩, h3⟩ := hall h hh
    refine ⟨h1, h2, fun r hr hbrk => ?_⟩
    rcases h3 r hr with h | h
    · exact absurd hbrk h
    · exact h

theorem all_paths {Q} [DecidableEq Q] (m : Mon Q) (p : Prog) (q : Q) (ok : Q → Ending → Bool)
    (hall : allReach m p q ok = true) {tr : List String} {e : Ending} (hx : Exec p tr e) : ok (m.run q tr) e = true := by
  unfold allReach at hall
  rw [Bool.and_eq_true, List.all_eq_true] at hall
  exact hall.2 _ (reach_sound m p tr e hx q hall.1)

end SkelL
end Dfols
