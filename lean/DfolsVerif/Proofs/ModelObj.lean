/-
  Stored objective = objective function of the stored (mean) residual and stored point,
  for every operation sequence whose supplied values are consistent; guarded runs keep `KoptMin`.
-/
import DfolsVerif.Proofs.ModelKopt

namespace Dfols
namespace MState

variable {P R : Type}
open Val

/-- every stored objective is `objfn` of the (residual, point) pair it was supplied for -/
def ObjConsistent (objfn : R → P → Val) (s : MState P R) : Prop :=
  ∀ sl ∈ s.slots, sl.obj = objfn sl.gobjSrc.1 sl.gobjSrc.2

/-- the value supplied with an operation is `sumsq(r)+h(x)` of what the operation stores -/
def OpConsistent (objfn : R → P → Val) (avg : Nat → R → R → R) (s : MState P R) : MOp P R → Prop
  | .change _ x r v _ _ => v = objfn r x
  | .addPoint x r v _ => v = objfn r x
  | .sample k r v => ∀ sl, s.slots[k]? = some sl → v = objfn (avg sl.ns sl.resid r) sl.pt
  | _ => True

theorem step_objConsistent (objfn : R → P → Val) (avg : Nat → R → R → R) {s s' : MState P R}
    (hs : ObjConsistent objfn s) {op : MOp P R} (hop : OpConsistent objfn avg s op)
    (h : s.step avg op = .ok s') : ObjConsistent objfn s' := by
  cases op with
  | change k x r v en a =>
    simp only [step, changePoint] at h
    simp only [OpConsistent] at hop
    split at h
    · split at h
      · simp only [Except.ok.injEq] at h
        split at h <;> subst h <;> intro sl hsl <;> simp only [List.mem_append, List.mem_singleton] at hsl <;>
          rcases hsl with hsl | hsl <;> first | exact hs sl hsl | (subst hsl; exact hop)
      · simp at h
    · split at h
      · simp only [Except.ok.injEq] at h
        split at h <;> subst h <;> intro sl hsl <;> rcases mem_set_cases hsl with hsl | hsl <;>
          first | exact hs sl hsl | (subst hsl; exact hop)
      · simp at h
  | swap k1 k2 =>
    simp only [step, swap] at h
    split at h
    · simp only [Except.ok.injEq] at h; subst h
      intro sl hsl; exact hs sl (mem_swapList hsl)
    · simp at h
  | sample k r v =>
    simp only [step, addSample] at h
    split at h
    · simp at h
    · rename_i sl0 hsl0
      simp only [Except.ok.injEq] at h; subst h
      intro sl hsl
      rcases mem_set_cases hsl with hsl | hsl
      · subst hsl; exact hop sl0 hsl0
      · exact hs sl hsl
  | addPoint x r v en =>
    simp only [step] at h
    simp only [OpConsistent] at hop
    split at h
    case isFalse => simp at h
    simp only [Except.ok.injEq, addPoint] at h
    split at h <;> subst h <;> intro sl hsl <;> simp only [List.mem_append, List.mem_singleton] at hsl <;>
      rcases hsl with hsl | hsl <;> first | exact hs sl hsl | (subst hsl; exact hop)
  | shift => simp only [step, Except.ok.injEq] at h; subst h; exact hs
  | save x r v ns en =>
    simp only [step, Except.ok.injEq, savePoint] at h
    split at h <;> subst h <;> exact hs
  | interpolate => simp only [step, Except.ok.injEq] at h; subst h; exact hs
  | factorise =>
    simp only [step, Except.ok.injEq, factorise] at h
    split at h <;> subst h <;> exact hs

/-- all supplied values of an operation sequence are consistent (checked along the run) -/
def RunConsistent (objfn : R → P → Val) (avg : Nat → R → R → R) : MState P R → List (MOp P R) → Prop
  | _, [] => True
  | s, op :: ops => OpConsistent objfn avg s op ∧
      RunConsistent objfn avg (match s.step avg op with | .ok s' => s' | .error _ => s) ops

theorem run_objConsistent (objfn : R → P → Val) (avg : Nat → R → R → R) (ops : List (MOp P R))
    {s : MState P R} (hs : ObjConsistent objfn s) (hops : RunConsistent objfn avg s ops) :
    ObjConsistent objfn (s.run avg ops) := by
  induction ops generalizing s with
  | nil => simpa [run] using hs
  | cons op ops ih =>
    have hrun : s.run avg (op :: ops) =
        (match s.step avg op with | .ok s' => s' | .error _ => s).run avg ops := rfl
    rw [hrun]
    obtain ⟨h1, h2⟩ := hops
    cases hstep : s.step avg op with
    | error e => rw [hstep] at h2; exact ih hs h2
    | ok s' => rw [hstep] at h2; exact ih (step_objConsistent objfn avg hs h1 hstep) h2

/-! ### guarded runs keep the incumbent minimal -/

/-- "the incumbent itself is not overwritten by a worse point" for one operation -/
def OpGuard (s : MState P R) : MOp P R → Prop
  | .change k _ _ v _ a => ChangeGuard s k v a
  | _ => True

instance (s : MState P R) (op : MOp P R) : Decidable (OpGuard s op) := by
  cases op <;> unfold OpGuard <;> exact inferInstance

theorem step_koptMin (avg : Nat → R → R → R) {s s' : MState P R} (hk : s.kopt < s.slots.length)
    (hs : KoptMin s) {op : MOp P R} (hg : OpGuard s op) (h : s.step avg op = .ok s') : KoptMin s' := by
  cases op with
  | change k x r v en a => exact changePoint_koptMin hk hs hg h
  | swap k1 k2 => exact swap_koptMin hs h
  | sample k r v => exact addSample_koptMin avg h
  | addPoint x r v en =>
    simp only [step] at h
    split at h
    · simp only [Except.ok.injEq] at h; subst h; exact addPoint_koptMin hk hs _ _ _ _
    · simp at h
  | shift => simp only [step, Except.ok.injEq] at h; subst h; exact hs
  | save x r v ns en =>
    simp only [step, Except.ok.injEq, savePoint] at h
    split at h <;> subst h <;> exact hs
  | interpolate => simp only [step, Except.ok.injEq] at h; subst h; exact hs
  | factorise =>
    simp only [step, Except.ok.injEq, factorise] at h
    split at h <;> subst h <;> exact hs

def RunGuarded (avg : Nat → R → R → R) : MState P R → List (MOp P R) → Prop
  | _, [] => True
  | s, op :: ops => OpGuard s op ∧
      RunGuarded avg (match s.step avg op with | .ok s' => s' | .error _ => s) ops

instance decRunGuarded (avg : Nat → R → R → R) : (s : MState P R) → (ops : List (MOp P R)) →
    Decidable (RunGuarded avg s ops)
  | _, [] => isTrue trivial
  | s, op :: ops =>
    have := decRunGuarded avg (match s.step avg op with | .ok s' => s' | .error _ => s) ops
    by unfold RunGuarded; exact inferInstance

theorem run_koptMin (avg : Nat → R → R → R) (ops : List (MOp P R)) {s : MState P R}
    (hwf : WF avg s) (hs : KoptMin s) (hg : RunGuarded avg s ops) : KoptMin (s.run avg ops) := by
  induction ops generalizing s with
  | nil => simpa [run] using hs
  | cons op ops ih =>
    have hrun : s.run avg (op :: ops) =
        (match s.step avg op with | .ok s' => s' | .error _ => s).run avg ops := rfl
    rw [hrun]
    obtain ⟨h1, h2⟩ := hg
    cases hstep : s.step avg op with
    | error e => rw [hstep] at h2; exact ih hwf hs h2
    | ok s' =>
      rw [hstep] at h2
      exact ih (step_wf avg hwf hstep) (step_koptMin avg hwf.kopt_lt hs h1 hstep) h2

end MState
end Dfols
