/-
  Where NumPy's global random generator can be reached from — decided over the tables generated from /repo's AST
  on every run (`Gen/RngSites.lean`), no reference copy involved.
-/
import DfolsVerif.Gen.RngSites

namespace Dfols
namespace RngSites

def pos (t : String) : Lit := ⟨true, t, "", ""⟩
def neg (t : String) : Lit := ⟨false, t, "", ""⟩

/-- every direct draw is inside one of the two drawing helpers of util.py, or inside the coordinate initialisation
    under `if self.model.projections` (the rank-repair loops of the projection branch) -/
theorem draws_located : ∀ s ∈ Gen.rngDraws,
    s.func = "util.py:random_orthog_directions_within_bounds" ∨ s.func = "util.py:random_directions_within_bounds" ∨
    (s.func = "controller.py:initialise_coordinate_directions" ∧ pos "self.model.projections" ∈ s.path) := by
  decide +kernel

/-- the drawing helpers are called from five Controller methods only; inside `soft_restart` the call stands under
    `params('restarts.increase_npt')` -/
theorem helper_calls_located : ∀ s ∈ Gen.rngHelperCalls,
    s.func = "controller.py:initialise_random_directions" ∨ s.func = "controller.py:add_new_direction_while_growing" ∨
    s.func = "controller.py:get_new_direction_for_growing" ∨ s.func = "controller.py:move_furthest_points_momentum" ∨
    (s.func = "controller.py:soft_restart" ∧ pos "params('restarts.increase_npt')" ∈ s.path) := by
  decide +kernel

/-- those methods are reached only under the options documented as random: random initial directions, the growing
    phase (`not finished_growing`), momentum extra steps; `soft_restart` and `initialise_coordinate_directions` draw
    only behind `restarts.increase_npt` / `projections` (the two theorems above) -/
theorem method_calls_guarded : ∀ s ∈ Gen.rngMethodCalls,
    (s.callee = "initialise_random_directions" → pos "params('init.random_initial_directions')" ∈ s.path) ∧
    (s.callee = "move_furthest_points_momentum" → pos "params('regression.momentum_extra_steps')" ∈ s.path) ∧
    (s.callee = "add_new_direction_while_growing" → neg "finished_growing" ∈ s.path) ∧
    (s.callee = "get_new_direction_for_growing" → neg "finished_growing" ∈ s.path) ∧
    (s.callee ∈ ["initialise_random_directions", "move_furthest_points_momentum", "add_new_direction_while_growing",
                 "get_new_direction_for_growing", "soft_restart", "initialise_coordinate_directions"]) := by
  decide +kernel

/-- non-vacuity -/
example : Gen.rngDraws.length = 6 ∧ Gen.rngHelperCalls.length = 6 ∧
    (Gen.rngMethodCalls.filter (·.callee = "move_furthest_points_momentum")).length = 1 := by decide +kernel

end RngSites
end Dfols
