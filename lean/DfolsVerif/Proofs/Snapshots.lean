/-
  Snapshot attributes of `Model` are written in three places only, as copies of the right arrays — decided over
  the table generated from /repo's AST on every run (`Gen/Snapshots.lean`).
-/
import DfolsVerif.Gen.Snapshots

namespace Dfols
namespace Snapshots

/-- outside `__init__` (where everything is `None`):
    * `model_jac_eval_nums` is assigned only by `interpolate_mini_models_svd`, as `self.eval_num.copy()`;
    * the saved point is assigned only by `save_point`: `rsave = rvec.copy()`, `jacsave` / `jacsave_eval_nums` as
      copies of the CURRENT Jacobian and of ITS evaluation-number snapshot (not of the live `eval_num`),
      `nsamples_save = nsamples`, `eval_num_save = eval_num`, `objsave = obj`, `xsave = xabs`. -/
theorem snapshots_are_copies : ∀ a ∈ Gen.snapshotAssigns,
    (a.1 = "__init__" ∧ a.2.2 = "None") ∨
    (a.1 = "interpolate_mini_models_svd" ∧ a.2.1 = "model_jac_eval_nums" ∧ a.2.2 = "self.eval_num.copy()") ∨
    (a.1 = "save_point" ∧
      (a.2 = ("xsave", "xabs") ∨ a.2 = ("rsave", "rvec.copy()") ∨ a.2 = ("objsave", "obj") ∨
       a.2 = ("jacsave", "self.model_jac.copy() if self.model_jac is not None else None") ∨
       a.2 = ("nsamples_save", "nsamples") ∨ a.2 = ("eval_num_save", "eval_num") ∨
       a.2 = ("jacsave_eval_nums", "self.model_jac_eval_nums.copy() if self.model_jac_eval_nums is not None else None"))) := by
  decide +kernel

/-- each of them IS assigned (nothing was dropped) -/
theorem snapshots_complete :
    ("interpolate_mini_models_svd", "model_jac_eval_nums", "self.eval_num.copy()") ∈ Gen.snapshotAssigns ∧
    ("save_point", "rsave", "rvec.copy()") ∈ Gen.snapshotAssigns ∧
    ("save_point", "eval_num_save", "eval_num") ∈ Gen.snapshotAssigns ∧
    ("save_point", "nsamples_save", "nsamples") ∈ Gen.snapshotAssigns ∧
    ("save_point", "jacsave_eval_nums", "self.model_jac_eval_nums.copy() if self.model_jac_eval_nums is not None else None")
      ∈ Gen.snapshotAssigns := by
  decide +kernel

end Snapshots
end Dfols
