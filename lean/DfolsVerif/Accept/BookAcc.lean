/-
  L2 acceptor for "which point is kept / returned" (C03, C04, C08, parts of C10, C11 labels).

  It replays the run on the L1 `Model` state machine: P = identity of an evaluation point (`xid`),
  R = the list of evaluation indices whose mean is stored (running mean = list append), objective
  values as order keys supplied by the trace.  It checks, event by event, the call-site protocol
  of controller.py / solver.py:
    * every `change_point` / `add_new_point` / `save_point` stores the evaluations just made, labelled
      with the point number of exactly those evaluations;
    * extra samples go to the row just written, in order;
    * an evaluated point is never dropped (unless its value is NaN) — it is stored or saved before
      the next evaluation group, a soft restart's save, or the end of the run;
    * the incumbent's row is overwritten only by a better value or after the incumbent was saved;
    * `soft_restart` saves the incumbent with its own label and sample count;
    * `get_final_results`, `solve_main`'s return value, the hard-restart merge and the final
      `OptimResults` agree with the state machine.
-/
import DfolsVerif.Accept.Events
import DfolsVerif.Book.ModelState

namespace Dfols
namespace BookAcc

abbrev M := MState Nat (List Nat)

/-- running mean over "lists of evaluation indices" -/
def avgL (_ : Nat) (old new : List Nat) : List Nat := old ++ new

/-- evaluations made for one point and not yet (completely) handed to the model -/
structure Pending where
  pt : Nat                 -- point number (the code's `nx` while these evaluations were made)
  xid : Nat
  evals : List Nat         -- independent evaluation indices, oldest first
  vals : List Val := []    -- their objective values (as computed by the harness from the returned residuals)
  used : Nat := 0          -- how many have been passed to change_point / add_new_sample
  slot : Nat := 0          -- row written by change_point / add_new_point
  closed : Bool := false   -- evaluate_objective has returned
  vmean : Val := .nan      -- objective of the mean of all samples (valid once closed)
deriving Repr

/-- a solution candidate: what `solve_main` returns / `solve` keeps as (xmin, rmin, objmin, nsamples_min, xmin_eval_num) -/
structure Cand where
  pt : Nat
  resid : List Nat
  obj : Val
  ns : Nat
  en : Nat
deriving Repr

inductive Mode where
  | idle                    -- no run active
  | x0 (grp : Pending)      -- sampling x0 (fresh evaluation)
  | old                     -- run started from the previous best (r0 reused): waiting for the controller
  | run                     -- controller exists
deriving Repr

structure St where
  hasH : Bool                              -- a regulariser is present (objective keys of one point may differ by rounding)
  mode : Mode := .idle
  m : Option M := none
  pend : Option Pending := none
  best : Option Cand := none               -- solve's merged result over the runs so far
  nrunsSeen : Nat := 0
  averaged : Bool := false                 -- some point received more than one sample
  -- ghost
  hist : List (Nat × Nat × Nat × Val) := []   -- (i, ptNo, xid, v) of every evaluation, newest first
  offered : List Val := []                    -- value of every evaluation group handed to the model (or dropped as NaN)
deriving Repr

def init (hasH : Bool) : St := { hasH := hasH }

/-- a pending group is settled when all its evaluations reached the model, or it was saved (then `pend = none`) -/
def Pending.settled (p : Pending) : Bool := p.used == p.evals.length && p.evals.length != 0

/-- may the run move on (next evaluation / incumbent save / end of run) with this pending state?
    Yes if nothing is pending, everything pending was stored, or the pending value is NaN
    (the EVAL_ERROR exit deliberately drops a NaN trial point: NaN is never the best value). -/
def pendOK (p : Option Pending) : Bool :=
  match p with
  | none => true
  | some p => p.settled || (p.closed && p.used == 0 && p.vmean.isNaN)

def candOfFinal (f : MState.Final Nat (List Nat)) : Cand :=
  { pt := f.pt, resid := f.resid, obj := f.obj, ns := f.ns, en := f.en }

/-- the hard-restart merge of `solve` (solver.py:1143-1147) -/
def merge (best : Option Cand) (c : Cand) : Cand :=
  match best with
  | none => c
  | some b => if Val.lt c.obj b.obj || b.obj.isNaN then c else b

/-- Guard on a write to row `k`: the incumbent's row may be overwritten only by a value at least as
    good, or when a value at least as good as the incumbent's has been saved. -/
def overwriteOK (m : M) (k : Nat) (v : Val) : Bool :=
  if k = m.kopt then
    decide (Val.Better v m.objopt) ||
      (match m.saved with
       | some sv => decide (Val.Better sv.obj m.objopt)
       | none => false)
  else true

def step (s : St) : Ev → Except String St
  | .rst _ _ _ hasOld _ _ =>
    match s.mode with
    | .idle =>
      if hasOld then
        if s.best.isSome then .ok { s with mode := .old, m := none, pend := none }
        else .error "rst: old residuals reused but there is no previous run"
      else .ok { s with mode := .x0 { pt := 0, xid := 0, evals := [] }, m := none, pend := none }
    | _ => .error "rst: previous run not finished"
  | .obj i _ ptNo xid v _ =>
    match s.mode with
    | .x0 g =>
      if g.evals = [] then
        .ok { s with mode := .x0 { g with pt := ptNo, xid := xid, evals := [i], vals := [v] }, hist := (i, ptNo, xid, v) :: s.hist }
      else if ptNo = g.pt ∧ xid = g.xid then
        .ok { s with mode := .x0 { g with evals := g.evals ++ [i], vals := g.vals ++ [v] }, hist := (i, ptNo, xid, v) :: s.hist,
                     averaged := true }
      else .error "obj: x0 sample with a different point number or x"
    | .run =>
      match s.pend with
      | some p =>
        if p.closed then .error "obj: evaluation outside evaluate_objective"
        else if p.evals = [] then
          if xid = p.xid then
            .ok { s with pend := some { p with pt := ptNo, evals := [i], vals := [v] }, hist := (i, ptNo, xid, v) :: s.hist }
          else .error "obj: evaluated x differs from the one evaluate_objective was called with"
        else if ptNo = p.pt ∧ xid = p.xid then
          .ok { s with pend := some { p with evals := p.evals ++ [i], vals := p.vals ++ [v] }, hist := (i, ptNo, xid, v) :: s.hist,
                       averaged := true }
        else .error "obj: repeated sample with a different point number or x"
      | none => .error "obj: evaluation outside evaluate_objective"
    | _ => .error "obj: evaluation while no run is active"
  | .ctrl label ns v cap _ =>
    match s.mode with
    | .x0 g =>
      if g.evals = [] then .error "ctrl: x0 not evaluated"
      else if label ≠ g.pt then .error "ctrl: row 0 is not labelled with x0's evaluation number"
      else if ns ≠ g.evals.length then .error "ctrl: sample count of x0 wrong"
      else if ¬ s.hasH ∧ g.vals.length = 1 ∧ g.vals.head? ≠ some v then .error "ctrl: objective of x0 differs from the evaluated one"
      else .ok { s with mode := .run, m := some (MState.init cap g.xid g.evals v ns label (g.evals.map (fun e => [e]))),
                        offered := v :: s.offered }
    | .old =>
      match s.best with
      | some b =>
        if label ≠ b.en then .error "ctrl: restarted run does not label its first point with the previous xmin_eval_num"
        else if ns ≠ b.ns then .error "ctrl: restarted run does not reuse the previous sample count"
        else if ¬ s.hasH ∧ v ≠ b.obj then .error "ctrl: restarted run starts from a different objective value"
        else .ok { s with mode := .run, m := some (MState.init cap b.pt b.resid v ns label (b.resid.map (fun e => [e]))),
                          offered := v :: s.offered }
      | none => .error "ctrl: no previous run"
    | _ => .error "ctrl: controller created twice / outside a run"
  | .evb _ xid =>
    match s.mode with
    | .run =>
      if pendOK s.pend then .ok { s with pend := some { pt := 0, xid := xid, evals := [] } }
      else .error "evb: the previously evaluated point was neither stored nor saved"
    | _ => .error "evb: no controller"
  | .eve k _ _ vmean _ _ =>
    match s.pend with
    | some p =>
      if p.closed then .error "eve: not inside evaluate_objective"
      else if k ≠ p.evals.length then .error "eve: num_samples_run differs from the evaluations made"
      else if k = 0 then .ok { s with pend := none }      -- nothing evaluated (budget exhausted)
      else if ¬ s.hasH ∧ p.vals.length = 1 ∧ p.vals.head? ≠ some vmean then .error "eve: objective of the mean differs from the single evaluation's"
      else .ok { s with pend := some { p with closed := true, vmean := vmean }, offered := vmean :: s.offered }
    | none => .error "eve: not inside evaluate_objective"
  | .chg k label allow v src koptAfter =>
    match s.m, s.pend with
    | some m, some p =>
      if ¬ p.closed ∨ p.used ≠ 0 then .error "chg: no freshly evaluated point to store"
      else if label ≠ p.pt then .error "chg: label is not the point number of the evaluations being stored"
      else if p.evals.head? ≠ some src then .error "chg: stored residual is not the first sample of the evaluated point"
      else if ¬ allow then .error "chg: incumbent update disabled"
      else if ¬ s.hasH ∧ p.evals.length = 1 ∧ v ≠ p.vmean then .error "chg: stored objective differs from the evaluated one"
      -- (with several samples the row's value is the objective of their mean, known to the model only after the
      --  add_new_sample calls that follow: the first sample alone may be worse than the incumbent although the mean,
      --  on which the solver based its decision, is better - the guard is applied to single-sample points)
      else if ¬ s.hasH ∧ p.evals.length = 1 ∧ ¬ overwriteOK m k v then .error "chg: incumbent's row overwritten by a worse point without saving it"
      else match m.changePoint k p.xid [src] v label true with
        | .ok m' =>
          if m'.kopt ≠ koptAfter then .error "chg: kopt differs from the model's"
          else .ok { s with m := some m', pend := some { p with used := 1, slot := k } }
        | .error e => .error ("chg: " ++ e)
    | _, _ => .error "chg: no model / nothing evaluated"
  | .adp label v src koptAfter =>
    match s.m, s.pend with
    | some m, some p =>
      if ¬ p.closed ∨ p.used ≠ 0 then .error "adp: no freshly evaluated point to store"
      else if label ≠ p.pt then .error "adp: label is not the point number of the evaluations being stored"
      else if p.evals.head? ≠ some src then .error "adp: stored residual is not the first sample of the evaluated point"
      else if m.slots.length ≠ m.cap then .error "adp: add_new_point while growing (unmodelled)"
      else if ¬ s.hasH ∧ p.evals.length = 1 ∧ v ≠ p.vmean then .error "adp: stored objective differs from the evaluated one"
      else
        let m' := m.addPoint p.xid [src] v label
        if m'.kopt ≠ koptAfter then .error "adp: kopt differs from the model's"
        else .ok { s with m := some m', pend := some { p with used := 1, slot := m.slots.length } }
    | _, _ => .error "adp: no model / nothing evaluated"
  | .smp k v src koptAfter =>
    match s.m, s.pend with
    | some m, some p =>
      if ¬ p.closed ∨ p.used = 0 then .error "smp: extra sample before the point was stored"
      else if k ≠ p.slot then .error "smp: extra sample added to a different row"
      else if p.evals[p.used]? ≠ some src then .error "smp: samples not added in order"
      else match m.addSample avgL k [src] v with
        | .ok m' =>
          if m'.kopt ≠ koptAfter then .error "smp: kopt differs from the model's"
          else .ok { s with m := some m', pend := some { p with used := p.used + 1 } }
        | .error e => .error ("smp: " ++ e)
    | _, _ => .error "smp: no model / nothing evaluated"
  | .sav ns label v acc inc =>
    match s.m with
    | some m =>
      if inc then
        -- soft_restart saving the incumbent
        if ¬ pendOK s.pend then .error "sav(inc): the previously evaluated point was neither stored nor saved"
        else match m.slots[m.kopt]? with
          | some sl =>
            if label ≠ sl.en then .error "sav(inc): incumbent saved with a wrong evaluation number"
            else if ns ≠ sl.ns then .error "sav(inc): incumbent saved with a wrong sample count"
            else if ¬ s.hasH ∧ v ≠ sl.obj then .error "sav(inc): incumbent saved with a different objective"
            else
              let (m', b) := m.savePoint sl.pt sl.resid v ns label
              if b ≠ acc then .error "sav(inc): save_point's answer differs from the model's"
              else .ok { s with m := some m', pend := none }
          | none => .error "sav(inc): kopt out of range"
      else
        match s.pend with
        | some p =>
          if ¬ p.closed ∨ p.used ≠ 0 then .error "sav: no freshly evaluated point to save"
          else if label ≠ p.pt then .error "sav: label is not the point number of the evaluations being saved"
          else if ns ≠ p.evals.length then .error "sav: sample count is not the number of evaluations made"
          else if ¬ s.hasH ∧ v ≠ p.vmean then .error "sav: objective differs from the one of the evaluated mean"
          else
            let (m', b) := m.savePoint p.xid p.evals v ns label
            if b ≠ acc then .error "sav: save_point's answer differs from the model's"
            else .ok { s with m := some m', pend := none }
        | none => .error "sav: nothing evaluated"
    | none => .error "sav: no model"
  | .fin label ns v jac =>
    match s.m with
    | some m =>
      match m.getFinal with
      | some f =>
        if label ≠ f.en ∨ ns ≠ f.ns then .error "fin: get_final_results names a different evaluation / sample count than the model"
        else if v ≠ f.obj then .error "fin: get_final_results returns a different objective than the model"
        else if jac ≠ f.jacNums then .error "fin: Jacobian evaluation numbers differ from the model's snapshot"
        else .ok s
      | none => .error "fin: model has no final result"
    | none => .error "fin: no model"
  | .shf => .ok { s with m := s.m.map MState.shiftBase }
  | .itp ok => .ok (if ok then { s with m := s.m.map MState.interpolate } else s)
  | .swp _ _ => .error "swp: swap_points is never called by the solver (unmodelled here)"
  | .rend _ _ _ _ _ label ns v _ hadCtrl =>
    if ¬ pendOK s.pend then .error "rend: an evaluated point was neither stored nor saved before the run returned"
    else match s.mode with
      | .run =>
        if ¬ hadCtrl then .error "rend: controller flag inconsistent"
        else match s.m.bind MState.getFinal with
          | some f =>
            if label ≠ f.en ∨ ns ≠ f.ns ∨ v ≠ f.obj then .error "rend: returned (eval number, samples, objective) differ from get_final_results"
            else .ok { s with mode := .idle, best := some (merge s.best (candOfFinal f)), pend := none,
                              nrunsSeen := s.nrunsSeen + 1 }
          | none => .error "rend: model has no final result"
      | .x0 g =>
        -- exit straight after sampling x0
        if hadCtrl then .error "rend: controller flag inconsistent"
        else if g.evals = [] then .error "rend: x0 not evaluated"
        else if label ≠ g.pt then .error "rend: exit at x0 does not report x0's evaluation number"
        else if ns ≠ g.evals.length then .error "rend: exit at x0 reports a wrong sample count"
        else if ¬ s.hasH ∧ g.vals.length = 1 ∧ g.vals.head? ≠ some v then .error "rend: exit at x0 reports a different objective than evaluated"
        else
          let c : Cand := { pt := g.xid, resid := g.evals, obj := v, ns := ns, en := label }
          .ok { s with mode := .idle, best := some (merge s.best c), pend := none, nrunsSeen := s.nrunsSeen + 1,
                       offered := v :: s.offered }
      | _ => .error "rend: no run active"
  | .res _ _ _ _ _ label v _ =>
    match s.mode, s.best with
    | .idle, some b =>
      if label ≠ (b.en : Int) then .error "res: soln.xmin_eval_num differs from the kept candidate"
      else if v ≠ b.obj then .error "res: soln.obj differs from the kept candidate"
      else .ok s
    | _, _ => .error "res: result without a finished run"
  | _ => .ok s

def accept (hasH : Bool) (evs : List Ev) : Except String St := evs.foldlM step (init hasH)

end BookAcc
end Dfols
