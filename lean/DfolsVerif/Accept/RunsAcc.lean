/-
  L2 acceptor for exit information and run counting (C10).

  Mirrors the creation sites of `ExitInformation` and the `nruns_so_far` bookkeeping:
    * EXIT_MAXFUN_WARNING is created only when `nf >= maxfun` (controller.py:634, 792-794; solver.py:177);
    * "Objective is sufficiently small" only under the test `obj <= threshold`
      (controller.py:650-657 with threshold `model.min_objective_value()`, solver.py:192-197 with `model.abs_tol`);
    * "rho has reached rhoend" only when `rho > rhoend` is false (solver.py:486/498, 901/912);
    * "Reached maximum number of unsuccessful restarts" only after that many runs
      (controller.py:789-796, solver.py:1155-1156);
    * `nruns` grows by one per successful soft restart and per return of `solve_main`, and is threaded
      through the hard-restart loop.
-/
import DfolsVerif.Accept.Events

namespace Dfols
namespace RunsAcc

structure St where
  maxfun : Nat
  maxUnsucc : Nat
  nf : Nat := 0
  nruns : Nat := 0                 -- completed runs so far (the code's nruns_so_far / nruns)
  inRun : Bool := false
  absTol : Val := .nan
  lastSmall : Option (Val × Val) := none   -- (value, threshold) of the latest "sufficiently small" test that fired
  lastRho : Option (Val × Val) := none     -- (rho, rhoend) when the latest "rho has reached rhoend" exit was created
  -- ghost
  rends : Nat := 0                 -- returns of solve_main
  softOK : Nat := 0                -- successful soft restarts
  rsts : Nat := 0
deriving Repr

def init (maxfun maxUnsucc : Nat) (absTol : Val) : St := { maxfun := maxfun, maxUnsucc := maxUnsucc, absTol := absTol }

def step (s : St) : Ev → Except String St
  | .rst nruns _ _ _ _ _ =>
    if s.inRun then .error "rst: nested run"
    else if nruns ≠ s.nruns then .error "rst: nruns not threaded from the previous run"
    else .ok { s with inRun := true, rsts := s.rsts + 1 }
  | .obj .. => .ok { s with nf := s.nf + 1 }
  | .eve k ex cls vmean thr _ =>
    match ex with
    | some 0 =>
      if cls = .small then
        if k = 0 then .error "eve: small-objective exit without an evaluation"
        else if Val.le vmean thr then .ok { s with lastSmall := some (vmean, thr) }
        else .error "eve: 'sufficiently small' although the objective exceeds the threshold"
      else .error "eve: evaluate_objective created an unexpected success exit"
    | some 1 =>
      if s.maxfun ≤ s.nf then .ok s else .error "eve: max-evaluations warning although budget is left"
    | _ => .ok s
  | .ext flag cls rho rhoend _ =>
    -- (soft_restart constructs a MAXFUN exit object before it knows the reason, so the budget rule is
    --  applied where an exit is *used*: `eve`, `rend`, `res`)
    if cls = .rhoend then
      match rho, rhoend with
      | some r, some re =>
        if flag ≠ EXIT_SUCCESS then .error "ext: rhoend message with a non-success flag"
        else if Val.le r re then .ok { s with lastRho := some (r, re) } else .error "ext: 'rho has reached rhoend' although rho > rhoend"
      | _, _ => .error "ext: rhoend exit without a controller"
    else if cls = .restarts then
      if s.maxUnsucc ≤ s.nruns then .ok s else .error "ext: 'maximum number of unsuccessful restarts' after fewer runs"
    else .ok s
  | .sre exited =>
    if ¬ s.inRun then .error "sre: soft restart outside a run"
    else if exited then .ok s
    else .ok { s with nruns := s.nruns + 1, softOK := s.softOK + 1 }
  | .rend nf _ nruns flag cls _ _ v _ hadCtrl =>
    if ¬ s.inRun then .error "rend: no run active"
    else if nf ≠ s.nf then .error "rend: nf differs"
    else if nruns ≠ s.nruns + 1 then .error "rend: nruns is not the number of completed runs"
    else if flag = EXIT_MAXFUN ∧ ¬ s.maxfun ≤ s.nf then .error "rend: max-evaluations warning although budget is left"
    else if cls = .small ∧ ¬ hadCtrl ∧ ¬ Val.le v s.absTol then .error "rend: exit at x0 'sufficiently small' although obj > abs_tol"
    else .ok { s with inRun := false, nruns := nruns, rends := s.rends + 1,
                      lastSmall := if cls = .small ∧ ¬ hadCtrl then some (v, s.absTol) else s.lastSmall }
  | .res nf _ nruns flag cls _ _ _ =>
    if s.inRun then .error "res: result inside a run"
    else if nf ≠ s.nf then .error "res: nf differs"
    else if nruns ≠ s.nruns then .error "res: soln.nruns is not the number of runs performed"
    else if flag = EXIT_MAXFUN ∧ ¬ s.maxfun ≤ s.nf then .error "res: max-evaluations warning although budget is left"
    else if cls = .restarts ∧ ¬ s.maxUnsucc ≤ s.nruns then .error "res: 'maximum number of unsuccessful restarts' after fewer runs"
    else .ok s
  | _ => .ok s

def accept (maxfun maxUnsucc : Nat) (absTol : Val) (evs : List Ev) : Except String St :=
  evs.foldlM step (init maxfun maxUnsucc absTol)

end RunsAcc
end Dfols
