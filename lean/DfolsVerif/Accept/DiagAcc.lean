/-
  L2 acceptor for the diagnostic table (C18, table-shape clauses).

  `DiagnosticInfo.save_info_from_control(control, nruns, iter_this_run)` appends one row per main-loop
  iteration that reaches it (solver.py, after the trust-region step), with
     iters_total = number of rows so far,  nruns = nruns_so_far,  iter_this_run = current_iter,
     nf = control.nf,  nx = control.nx,  npt = model.npt().
  The model: an event list is accepted iff every row agrees with the acceptor's own count of
  evaluations / points / completed runs and `iter_this_run` counts 0,1,2,… within a run, restarting at 0
  after every (soft or hard) restart.
-/
namespace Dfols
namespace DiagAcc

inductive DEv where
  | obj (newPoint : Bool)                 -- an evaluation; `newPoint` = it opened a new point number
  | softOK                                -- a soft restart succeeded (nruns_so_far += 1, current_iter := -1)
  | runStart (nruns nf nx : Nat)          -- solve_main entered with (nruns_so_far, nf_so_far, nx_so_far)
  | runEnd                                -- solve_main returned (nruns += 1)
  | row (nruns iter nf nx npt : Nat)      -- save_info_from_control
  | result (nf nx nruns : Nat)            -- the OptimResults
deriving Repr

structure St where
  nf : Nat := 0
  nx : Nat := 0
  nruns : Nat := 0
  nextIter : Nat := 0
  maxNpt : Nat := 0
  -- ghost: the table so far, newest first: (iters_total, nruns, iter_this_run, nf, nx, npt)
  rows : List (Nat × Nat × Nat × Nat × Nat × Nat) := []
deriving Repr

def step (maxNpt : Nat) (s : St) : DEv → Except String St
  | .obj np => .ok { s with nf := s.nf + 1, nx := if np then s.nx + 1 else s.nx }
  | .softOK => .ok { s with nruns := s.nruns + 1, nextIter := 0 }
  | .runStart nruns nf nx =>
    if nruns ≠ s.nruns ∨ nf ≠ s.nf ∨ nx ≠ s.nx then .error "runStart: counters handed to solve_main differ"
    else .ok { s with nextIter := 0 }
  | .runEnd => .ok { s with nruns := s.nruns + 1 }
  | .row nruns iter nf nx npt =>
    if nruns ≠ s.nruns then .error "row: nruns is not the number of completed runs"
    else if iter ≠ s.nextIter then .error "row: iter_this_run does not count 0,1,2,... within the run"
    else if nf ≠ s.nf ∨ nx ≠ s.nx then .error "row: nf / nx differ from the evaluations made so far"
    else if npt < 2 ∨ maxNpt < npt then .error "row: number of interpolation points out of range"
    else .ok { s with nextIter := iter + 1, rows := (s.rows.length, nruns, iter, nf, nx, npt) :: s.rows }
  | .result nf nx nruns =>
    if nf ≠ s.nf ∨ nx ≠ s.nx ∨ nruns ≠ s.nruns then .error "result: counters differ"
    else .ok s

def accept (maxNpt : Nat) (evs : List DEv) : Except String St := evs.foldlM (step maxNpt) {}

/-- shape of the table: consecutive row numbers, counters non-decreasing down the table and bounded
    by the current counters, npt in range -/
def TableOK (maxNpt : Nat) : List (Nat × Nat × Nat × Nat × Nat × Nat) → Nat → Nat → Nat → Prop
  | [], _, _, _ => True
  | (i, r, _, f, x, p) :: rest, nruns, nf, nx =>
      i = rest.length ∧ r ≤ nruns ∧ f ≤ nf ∧ x ≤ nx ∧ 2 ≤ p ∧ p ≤ maxNpt ∧ TableOK maxNpt rest r f x

theorem TableOK.mono {maxNpt : Nat} : ∀ (l : List (Nat × Nat × Nat × Nat × Nat × Nat)) {a b c a' b' c' : Nat},
    TableOK maxNpt l a b c → a ≤ a' → b ≤ b' → c ≤ c' → TableOK maxNpt l a' b' c'
  | [], _, _, _, _, _, _, _, _, _, _ => trivial
  | (i, r, t, f, x, p) :: rest, a, b, c, a', b', c', h, h1, h2, h3 => by
    simp only [TableOK] at h ⊢
    obtain ⟨e1, e2, e3, e4, e5, e6, e7⟩ := h
    exact ⟨e1, by omega, by omega, by omega, e5, e6, e7⟩

theorem step_inv {maxNpt : Nat} {s s' : St} {e : DEv} (hi : TableOK maxNpt s.rows s.nruns s.nf s.nx)
    (h : step maxNpt s e = .ok s') : TableOK maxNpt s'.rows s'.nruns s'.nf s'.nx := by
  cases e with
  | obj np =>
    simp only [step, Except.ok.injEq] at h; subst h
    exact TableOK.mono _ hi (Nat.le_refl _) (by simp) (by simp only; split <;> omega)
  | softOK => simp only [step, Except.ok.injEq] at h; subst h; exact TableOK.mono _ hi (by simp) (Nat.le_refl _) (Nat.le_refl _)
  | runStart nruns nf nx =>
    simp only [step] at h
    split at h
    · simp at h
    · simp only [Except.ok.injEq] at h; subst h; exact hi
  | runEnd => simp only [step, Except.ok.injEq] at h; subst h; exact TableOK.mono _ hi (by simp) (Nat.le_refl _) (Nat.le_refl _)
  | row nruns iter nf nx npt =>
    simp only [step] at h
    repeat' split at h
    all_goals (first | (simp at h; done) | skip)
    simp only [Except.ok.injEq] at h; subst h
    rename_i h1 h2 h3 h4
    simp only [ne_eq, Decidable.not_not, not_or, Nat.not_lt] at h1 h2 h3 h4
    simp only [TableOK]
    refine ⟨trivial, by omega, by omega, by omega, h4.1, h4.2, ?_⟩
    rw [h1, h3.1, h3.2]; exact hi
  | result nf nx nruns =>
    simp only [step] at h
    split at h
    · simp at h
    · simp only [Except.ok.injEq] at h; subst h; exact hi

/-- **table shape (C18)**: in every accepted trace the diagnostic table has consecutive row numbers
    0,1,2,…, its nruns / nf / nx columns never decrease and never exceed the current (hence the final)
    counters, and npt stays in [2, maxNpt]. -/
theorem table_ok {maxNpt : Nat} {evs : List DEv} {s : St} (h : accept maxNpt evs = .ok s) :
    TableOK maxNpt s.rows s.nruns s.nf s.nx := by
  have key : ∀ (evs : List DEv) (s0 s1 : St), TableOK maxNpt s0.rows s0.nruns s0.nf s0.nx →
      evs.foldlM (step maxNpt) s0 = .ok s1 → TableOK maxNpt s1.rows s1.nruns s1.nf s1.nx := by
    intro evs
    induction evs with
    | nil => intro s0 s1 hi h; simp only [List.foldlM_nil, pure, Except.pure, Except.ok.injEq] at h; subst h; exact hi
    | cons e es ih =>
      intro s0 s1 hi h
      simp only [List.foldlM_cons, bind, Except.bind] at h
      cases hs : step maxNpt s0 e with
      | error m => simp [hs] at h
      | ok s2 => rw [hs] at h; exact ih s2 s1 (step_inv hi hs) h
  exact key evs {} s trivial h

example : (accept 5 [.runStart 0 0 0, .obj true, .obj true, .obj true, .row 0 0 3 3 3, .obj true, .row 0 1 4 4 3,
    .softOK, .obj true, .row 1 0 5 5 3, .runEnd, .result 5 5 2]).toOption.map (fun s => s.rows.length) = some 3 := by decide
/-- a restart route that forgets `nruns_so_far += 1` makes the next row inconsistent — rejected -/
example : (accept 5 [.runStart 0 0 0, .obj true, .row 0 0 1 1 2, .softOK, .obj true, .row 0 0 2 2 2]).toOption.isNone = true := by decide

end DiagAcc
end Dfols
