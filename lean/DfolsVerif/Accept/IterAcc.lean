/-
  L2 acceptor for progress of the main loop (C18 / termination side of C07, C10).

  An iteration of `solve_main` starts with the interpolation (`itp`).  Reading solver.py, every
  iteration evaluates the objective (`obj`), or reduces rho (`rrho`, `Controller.reduce_rho`), or
  attempts a soft restart (`srb`), or ends the run (`rend`).  The model accepts exactly the event lists
  in which
    * no iteration is left without one of these, and
    * every `reduce_rho` STRICTLY decreases rho, keeps it at or above rhoend, and (inside a streak of
      evaluation-free iterations) starts from a rho no larger than the previous reduction left.
  Radii are order keys of the observed doubles, so "strictly decreasing and bounded below" bounds the
  length of every evaluation-free streak by a difference of keys — there are only finitely many doubles
  between rhoend and rho.  (The pinned tree looped forever here: `reduce_rho` returned the same rho
  once solve_main's rescaled rhoend had dropped below the controller's.)
-/
import DfolsVerif.Val

namespace Dfols
namespace IterAcc

inductive IEv where
  | itp                                   -- an iteration starts
  | obj                                   -- an objective evaluation
  | rrho (before after rhoend : Val)      -- reduce_rho
  | srb                                   -- soft restart attempted
  | runEnd                                -- solve_main returned / a new run starts
deriving Repr

structure St where
  inIter : Bool := false
  progressed : Bool := false
  streak : Nat := 0                 -- reductions in the current evaluation-free, restart-free streak
  startKey : Int := 0               -- rho (key) at the first reduction of the streak
  curKey : Int := 0                 -- rho (key) after the last reduction of the streak
  endKey : Int := 0                 -- rhoend (key) at the last reduction
  maxStreak : Nat := 0              -- ghost: longest streak seen
deriving Repr

def step (s : St) : IEv → Except String St
  | .itp =>
    if s.inIter ∧ ¬ s.progressed then .error "iteration without evaluation, rho reduction, restart or exit"
    else .ok { s with inIter := true, progressed := false }
  | .obj => .ok { s with progressed := true, streak := 0 }
  | .srb => .ok { s with progressed := true, streak := 0 }
  | .runEnd => .ok { s with inIter := false, progressed := false, streak := 0 }
  | .rrho (.num b) (.num a) (.num e) =>
    if ¬ a < b then .error "reduce_rho did not decrease rho"
    else if ¬ e ≤ a then .error "reduce_rho went below rhoend"
    else if s.streak = 0 then
      .ok { s with progressed := true, streak := 1, startKey := b, curKey := a, endKey := e,
                   maxStreak := max s.maxStreak 1 }
    else if ¬ b ≤ s.curKey then .error "rho increased inside an evaluation-free streak"
    else .ok { s with progressed := true, streak := s.streak + 1, curKey := a, endKey := e,
                      maxStreak := max s.maxStreak (s.streak + 1) }
  | .rrho _ _ _ => .error "reduce_rho with a NaN radius"

def accept (evs : List IEv) : Except String St := evs.foldlM step {}

/-- the streak invariant: `streak` strict reductions took rho from `startKey` down to `curKey ≥ endKey` -/
def Inv (s : St) : Prop := s.streak = 0 ∨ ((s.streak : Int) ≤ s.startKey - s.curKey ∧ s.endKey ≤ s.curKey)

theorem step_inv {s s' : St} {e : IEv} (hi : Inv s) (h : step s e = .ok s') : Inv s' := by
  cases e with
  | itp =>
    simp only [step] at h
    split at h
    · simp at h
    · simp only [Except.ok.injEq] at h; subst h; exact hi
  | obj => simp only [step, Except.ok.injEq] at h; subst h; exact Or.inl rfl
  | srb => simp only [step, Except.ok.injEq] at h; subst h; exact Or.inl rfl
  | runEnd => simp only [step, Except.ok.injEq] at h; subst h; exact Or.inl rfl
  | rrho b a e =>
    cases b <;> cases a <;> cases e <;> simp only [step] at h <;> try (simp at h; done)
    rename_i b a e
    split at h
    · simp at h
    · split at h
      · simp at h
      · split at h
        · simp only [Except.ok.injEq] at h; subst h
          right; simp only; omega
        · split at h
          · simp at h
          · simp only [Except.ok.injEq] at h; subst h
            right
            rcases hi with h0 | ⟨h1, h2⟩
            · omega
            · simp only; push_cast; omega

theorem accept_inv {evs : List IEv} {s : St} (h : accept evs = .ok s) : Inv s := by
  have key : ∀ (evs : List IEv) (s0 s1 : St), Inv s0 → evs.foldlM step s0 = .ok s1 → Inv s1 := by
    intro evs
    induction evs with
    | nil => intro s0 s1 hi h; simp only [List.foldlM_nil, pure, Except.pure, Except.ok.injEq] at h; subst h; exact hi
    | cons e es ih =>
      intro s0 s1 hi h
      simp only [List.foldlM_cons, bind, Except.bind] at h
      cases hs : step s0 e with
      | error m => simp [hs] at h
      | ok s2 => rw [hs] at h; exact ih s2 s1 (step_inv hi hs) h
  exact key evs {} s (Or.inl rfl) h

/-- **no stall**: at any point of an accepted run, the number of consecutive evaluation-free,
    restart-free rho reductions is at most the number of doubles between rhoend and the rho the streak
    started from. -/
theorem no_stall {evs : List IEv} {s : St} (h : accept evs = .ok s) (hs : s.streak ≠ 0) :
    (s.streak : Int) ≤ s.startKey - s.endKey := by
  rcases accept_inv h with h0 | ⟨h1, h2⟩
  · exact absurd h0 hs
  · omega

example : (accept [.itp, .obj, .itp, .rrho (.num 100) (.num 50) (.num 10), .itp, .rrho (.num 50) (.num 10) (.num 10),
    .itp, .obj, .runEnd]).toOption.map (fun s => s.maxStreak) = some 2 := by decide
/-- the pinned tree's stall (reduce_rho returning the same rho) is rejected -/
example : (accept [.itp, .rrho (.num 50) (.num 50) (.num 10)]).toOption.isNone = true := by decide
/-- an iteration that does nothing is rejected -/
example : (accept [.itp, .itp]).toOption.isNone = true := by decide

end IterAcc
end Dfols
