/-
  L2 — events of a `dfols.solve` run as recorded by the wrappers of harness/trace.py.
  One constructor per wrapper; numeric payloads that are only compared are `Val` order keys.
  The acceptors (`CountAcc`, `BookAcc`, `RunsAcc`) are folds `step : State → Ev → Except String State`
  over the event list: the set of accepted lists is the model of the solver's discrete behaviour.
-/
import DfolsVerif.Val

namespace Dfols

/-- class of an exit message (substring classification done by the harness, trace.msg_class) -/
inductive MsgCls where
  | small | maxfun | rhoend | noise | restarts | slow | falsesucc | auto | evalnan | trinc | linalg | other
deriving DecidableEq, Repr, Inhabited

inductive Ev where
  /-- `solve_main` entered: threaded counters, whether old r0 is reused, maxfun, npt -/
  | rst (nruns nf nx : Nat) (hasOld : Bool) (maxfun npt : Nat)
  /-- the user's `nsamples` callback answered `k` (the code uses `max(k,1)`) -/
  | ns (k : Int)
  /-- one evaluation through `eval_least_squares_with_regularisation`: `i` = independent call count,
      `evalNo`,`ptNo` = the code's own numbers, `xid` = identity of the argument, `v` = sumsq+h, `ncalls` objfun calls made -/
  | obj (i evalNo ptNo xid : Nat) (v : Val) (ncalls : Nat)
  | objraise
  /-- `Controller.__init__` done: label / sample count / objective of row 0, capacity, small-objective threshold -/
  | ctrl (label ns : Nat) (v : Val) (cap : Nat) (thr : Val)
  /-- `evaluate_objective` entered with `want` samples at point `xid` -/
  | evb (want xid : Nat)
  /-- `evaluate_objective` left: `k` samples run, exit flag (if any) and class, objective of the mean, threshold, any NaN residual -/
  | eve (k : Nat) (exit : Option Int) (cls : MsgCls) (vmean thr : Val) (anyNaN : Bool)
  | chg (k label : Nat) (allow : Bool) (v : Val) (src koptAfter : Nat)
  | smp (k : Nat) (v : Val) (src koptAfter : Nat)
  | adp (label : Nat) (v : Val) (src koptAfter : Nat)
  /-- `save_point(x, rvec, ns, label)`: `v` its objective, `acc` whether saved, `inc` = the incumbent save of `soft_restart` -/
  | sav (ns label : Nat) (v : Val) (acc inc : Bool)
  | fin (label ns : Nat) (v : Val) (jac : Option (List Nat))
  /-- `ExitInformation(flag, msg)` constructed; `rho`,`rhoend`,`nf` of the live controller (none before it exists) -/
  | ext (flag : Int) (cls : MsgCls) (rho rhoend : Option Val) (nf : Option Nat)
  | srb (nruns want : Nat) (vopt : Val)
  | sre (exited : Bool)
  | shf
  | itp (ok : Bool)
  | swp (k1 k2 : Nat)
  /-- `solve_main` returned -/
  | rend (nf nx nruns : Nat) (flag : Int) (cls : MsgCls) (label ns : Nat) (v : Val) (jacNone hadCtrl : Bool)
  /-- the `OptimResults` returned by `solve` -/
  | res (nf nx nruns : Nat) (flag : Int) (cls : MsgCls) (label : Int) (v : Val) (jacNone : Bool)
  /-- radius / diagnostic events handled by other models -/
  | other
deriving Repr, Inhabited

def EXIT_MAXFUN : Int := 1
def EXIT_SUCCESS : Int := 0

end Dfols
