/-
  L2 acceptor for the evaluation counters (C02, C08's "no evaluation after an exception").

  Mirrors: the x0 sampling block of `solve_main` (solver.py:157-202), `Controller.evaluate_objective`
  (controller.py:625-659), the threading of `nf`,`nx` through `solve_main`'s return tuple and the
  hard-restart loop of `solve` (solver.py:1120-1153).
-/
import DfolsVerif.Accept.Events

namespace Dfols
namespace CountAcc

inductive Phase where
  | idle                                   -- between evaluation groups (controller exists, or run finished)
  | x0 (k want nf0 : Nat)                  -- sampling x0: k samples done of `want`, budget counter at start nf0
  | inEval (k want nf0 xid : Nat)          -- inside evaluate_objective
  | dead                                   -- objfun raised: nothing more may be evaluated
deriving DecidableEq, Repr

structure St where
  maxfun : Nat
  nf : Nat := 0
  nx : Nat := 0
  curX : Nat := 0
  lastNs : Nat := 1
  phase : Phase := .idle
  started : Bool := false                  -- a `rst` was seen
  -- ghost: every evaluation so far, newest first: (evalNo, ptNo, xid)
  calls : List (Nat × Nat × Nat) := []
  -- ghost: completed groups (want, got, budget left at start)
  groups : List (Nat × Nat × Nat) := []
deriving Repr

def init (maxfun : Nat) : St := { maxfun := maxfun }

/-- one event -/
def step (s : St) : Ev → Except String St
  | .rst _ nf nx hasOld maxfun _ =>
    if s.phase ≠ .idle then .error "rst: previous run not finished"
    else if nf ≠ s.nf ∨ nx ≠ s.nx then .error "rst: counters not threaded from the previous run"
    else if maxfun ≠ s.maxfun then .error "rst: maxfun changed"
    else if hasOld then .ok { s with started := true }
    else if s.nf < s.maxfun then .ok { s with started := true, phase := .x0 0 0 s.nf }
    else .error "rst: run started with no budget left"
  | .ns k => .ok { s with lastNs := if k ≤ 1 then 1 else k.toNat }
  | .obj i evalNo ptNo xid _ ncalls =>
    if ncalls ≠ 1 then .error "obj: evaluation did not make exactly one objfun call"
    else if i ≠ s.nf + 1 ∨ evalNo ≠ s.nf + 1 then .error "obj: evaluation number is not nf+1"
    else if ¬ s.nf < s.maxfun then .error "obj: budget exceeded"
    else match s.phase with
      | .x0 k want nf0 =>
        if k = 0 then
          if ptNo = s.nx + 1 then
            .ok { s with nf := s.nf + 1, nx := s.nx + 1, curX := xid, phase := .x0 1 s.lastNs nf0,
                         calls := (evalNo, ptNo, xid) :: s.calls }
          else .error "obj: first sample of x0 must open point nx+1"
        else if ptNo = s.nx ∧ xid = s.curX ∧ k < want then
          .ok { s with nf := s.nf + 1, phase := .x0 (k+1) want nf0, calls := (evalNo, ptNo, xid) :: s.calls }
        else .error "obj: repeated sample of x0 with a new point number, a different x, or beyond the requested count"
      | .inEval k want nf0 x =>
        if xid ≠ x then .error "obj: evaluate_objective evaluated a different x"
        else if ¬ k < want then .error "obj: more samples than requested"
        else if k = 0 then
          if ptNo = s.nx + 1 then
            .ok { s with nf := s.nf + 1, nx := s.nx + 1, curX := xid, phase := .inEval 1 want nf0 x,
                         calls := (evalNo, ptNo, xid) :: s.calls }
          else .error "obj: first sample must open point nx+1"
        else if ptNo = s.nx ∧ xid = s.curX then
          .ok { s with nf := s.nf + 1, phase := .inEval (k+1) want nf0 x, calls := (evalNo, ptNo, xid) :: s.calls }
        else .error "obj: repeated sample with a new point number"
      | _ => .error "obj: evaluation outside the x0 block / evaluate_objective"
  | .objraise => .ok { s with phase := .dead }
  | .ctrl .. =>
    match s.phase with
    | .x0 k want nf0 =>
      if k = 0 then .error "ctrl: x0 not evaluated"
      else if k = min want (s.maxfun - nf0) then
        .ok { s with phase := .idle, groups := (want, k, s.maxfun - nf0) :: s.groups }
      else .error "ctrl: x0 did not get the requested number of samples"
    | .idle => .ok s
    | _ => .error "ctrl: controller created inside an evaluation"
  | .evb want xid =>
    if s.phase ≠ .idle then .error "evb: nested evaluation"
    else if want ≠ s.lastNs then .error "evb: number of samples is not max(nsamples(...),1) of the latest callback"
    else .ok { s with phase := .inEval 0 want s.nf xid }
  | .eve k _ _ _ _ _ =>
    match s.phase with
    | .inEval k' want nf0 _ =>
      if k ≠ k' then .error "eve: num_samples_run differs from the evaluations made"
      else if k = min want (s.maxfun - nf0) then
        .ok { s with phase := .idle, groups := (want, k, s.maxfun - nf0) :: s.groups }
      else .error "eve: point did not get the requested number of samples although budget was left"
    | _ => .error "eve: not inside evaluate_objective"
  | .rend nf nx .. =>
    if nf ≠ s.nf ∨ nx ≠ s.nx then .error "rend: returned counters differ from the evaluations made"
    else match s.phase with
      | .idle => .ok s
      | .x0 k want nf0 =>
        if k = 0 then .error "rend: x0 not evaluated"
        else if k = min want (s.maxfun - nf0) then
          .ok { s with phase := .idle, groups := (want, k, s.maxfun - nf0) :: s.groups }
        else .error "rend: x0 did not get the requested number of samples"
      | _ => .error "rend: run ended inside an evaluation"
  | .res nf nx .. =>
    if nf ≠ s.nf ∨ nx ≠ s.nx then .error "res: soln.nf/nx differ from the evaluations made"
    else if s.phase ≠ .idle then .error "res: result returned inside an evaluation"
    else .ok s
  | _ => .ok s

def accept (maxfun : Nat) (evs : List Ev) : Except String St := evs.foldlM step (init maxfun)

end CountAcc
end Dfols
