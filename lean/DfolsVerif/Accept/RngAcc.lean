/-
  L2 acceptor for the use of NumPy's global random generator (C19).

  The wrappers of harness (np.random.normal / np.random.randint patched during a traced solve)
  report every draw with the dfols function it was made for.  The model: a draw is legal only at a
  site that the configuration enables —
    initRandom      initialise_random_directions            init.random_initial_directions
    growing         add_new_direction_while_growing / get_new_direction_for_growing   (growing phase: ndirs_initial < npt-1)
    softIncreaseNpt soft_restart with restarts.increase_npt
    momentum        move_furthest_points_momentum           regression.momentum_extra_steps
    projSelector    initialise_coordinate_directions, projection branch: selector arrays (np.random.randint), drawn once
                    unconditionally and again after every round of the sign-flip repair loop; a selector only chooses
                    which sign flips are TRIED — a flip is kept only when it raises the rank — so it is not counted as a
                    draw that reaches an evaluation point (the harness compares such runs under different RNG states:
                    an observable dependence on the selector is reported as a failing input)
    projRepair      random replacement directions (np.random.normal) of the last repair loop: these become evaluation points
-/
namespace Dfols
namespace RngAcc

inductive Site where
  | initRandom | growing | softIncreaseNpt | momentum | projSelector | projRepair | other
deriving DecidableEq, Repr

structure Cfg where
  randomInit : Bool
  growing : Bool
  softIncreaseNpt : Bool
  momentum : Bool
  projections : Bool
deriving Repr

/-- options documented as using random directions -/
def Cfg.usesRandom (c : Cfg) : Bool := c.randomInit || c.growing || c.softIncreaseNpt || c.momentum

def allowed (c : Cfg) : Site → Bool
  | .initRandom => c.randomInit
  | .growing => c.growing
  | .softIncreaseNpt => c.softIncreaseNpt
  | .momentum => c.momentum
  | .projSelector => c.projections
  | .projRepair => false          -- never documented: a draw here makes the run depend on the RNG state
  | .other => false

structure St where
  draws : Nat := 0                -- draws whose value can reach an evaluation point
  unused : Nat := 0               -- selector draws of the projection branch (value unused unless projRepair follows)
deriving Repr

def step (c : Cfg) (s : St) (site : Site) : Except String St :=
  if allowed c site then
    if site = .projSelector then .ok { s with unused := s.unused + 1 } else .ok { s with draws := s.draws + 1 }
  else .error "random draw at a site the configuration does not enable"

def accept (c : Cfg) (sites : List Site) : Except String St := sites.foldlM (step c) {}

/-- **C19 (model level)**: when no option documented as random is enabled, an accepted run makes no
    random draw whose value can reach an evaluation point (only the unused selector of the projection branch). -/
theorem C19_rng_free (c : Cfg) (hc : c.usesRandom = false) (sites : List Site) (s : St)
    (h : accept c sites = .ok s) : s.draws = 0 ∧ ∀ x ∈ sites, x = .projSelector ∧ c.projections = true := by
  simp only [Cfg.usesRandom, Bool.or_eq_false_iff] at hc
  obtain ⟨⟨⟨h1, h2⟩, h3⟩, h4⟩ := hc
  have key : ∀ (sites : List Site) (s0 s1 : St), sites.foldlM (step c) s0 = .ok s1 →
      s1.draws = s0.draws ∧ ∀ x ∈ sites, x = .projSelector ∧ c.projections = true := by
    intro sites
    induction sites with
    | nil => intro s0 s1 h; simp only [List.foldlM_nil, pure, Except.pure, Except.ok.injEq] at h; subst h; simp
    | cons x xs ih =>
      intro s0 s1 h
      simp only [List.foldlM_cons, bind, Except.bind] at h
      cases hs : step c s0 x with
      | error m => simp [hs] at h
      | ok s2 =>
        rw [hs] at h
        obtain ⟨e1, e2⟩ := ih s2 s1 h
        simp only [step] at hs
        split at hs
        · rename_i hal
          have hx : x = .projSelector ∧ c.projections = true := by
            cases x <;> simp_all [allowed]
          split at hs
          · simp only [Except.ok.injEq] at hs; subst hs
            exact ⟨e1, fun y hy => by
              simp only [List.mem_cons] at hy
              rcases hy with hy | hy
              · subst hy; exact hx
              · exact e2 y hy⟩
          · rename_i hne; exact absurd hx.1 hne
        · simp at hs
  have := key sites {} s h
  exact ⟨this.1, this.2⟩

example : (accept { randomInit := false, growing := false, softIncreaseNpt := false, momentum := false, projections := true }
    [.projSelector, .projSelector]).toOption.map (fun s => (s.draws, s.unused)) = some (0, 2) := by decide
example : (accept { randomInit := false, growing := false, softIncreaseNpt := false, momentum := false, projections := false }
    [.growing]).toOption.isNone = true := by decide

end RngAcc
end Dfols
