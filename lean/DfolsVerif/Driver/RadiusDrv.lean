/- Driver for the radius-update kernels in IEEE doubles. -/
import DfolsVerif.Kernels.Radius
import DfolsVerif.Driver.Proto

namespace Dfols.RadiusDrv
open Dfols.Proto Dfols.Radius

def handle (ts : List String) : String :=
  match ts with
  | "rrho" :: rest =>
    match parseFloats rest with
    | some [a1, a2, rho, rhoend] =>
      let p : TRParams Float := { eta1 := 0, eta2 := 0, gammaDec := 0, gammaInc := 0, gammaIncOverline := 0, alpha1 := a1, alpha2 := a2 }
      let r := reduceRho floatRadOps p rho rhoend
      showFloat r.1 ++ " " ++ showFloat r.2
    | _ => "bad-op"
  | "trupd" :: rest =>
    match parseFloats rest with
    | some [eta1, eta2, gdec, ginc, gincbar, ratio, dnorm, tau, delta, rho] =>
      let p : TRParams Float := { eta1 := eta1, eta2 := eta2, gammaDec := gdec, gammaInc := ginc, gammaIncOverline := gincbar, alpha1 := 0, alpha2 := 0 }
      showFloat (trUpdate floatRadOps p ratio dnorm tau delta rho)
    | _ => "bad-op"
  | "ratio" :: np :: rest =>
    match np.toNat?, parseFloats rest with
    | some nproj, some [pred, actual] =>
      let r := calcRatio floatRadOps pred actual nproj
      showFloat r.1 ++ " " ++ (match r.2 with | none => "-" | some f => toString f) ++ " " ++
        (if mayReplaceKopt floatRadOps r.1 then "1" else "0")
    | _, _ => "bad-op"
  | "geomd" :: rest =>
    match parseFloats rest with
    | some [delta, rho, dist] => showFloat (geomDelta floatRadOps delta rho dist)
    | _ => "bad-op"
  | _ => "bad-op"

end Dfols.RadiusDrv
