/-
  Driver for the L2 acceptors: parses the event lines written by harness/trace.py.
-/
import DfolsVerif.Accept.CountAcc
import DfolsVerif.Accept.BookAcc
import DfolsVerif.Accept.RunsAcc
import DfolsVerif.Driver.Proto

namespace Dfols.AcceptDrv
open Dfols.Proto

def parseCls (s : String) : MsgCls :=
  match s with
  | "small" => .small | "maxfun" => .maxfun | "rhoend" => .rhoend | "noise" => .noise
  | "restarts" => .restarts | "slow" => .slow | "falsesucc" => .falsesucc | "auto" => .auto
  | "evalnan" => .evalnan | "trinc" => .trinc | "linalg" => .linalg | _ => .other

def parseOptInt (s : String) : Option (Option Int) :=
  if s = "-" then some none else s.toInt?.map some

def parseOptVal (s : String) : Option (Option Val) :=
  if s = "-" then some none else (parseVal s).map some

def parseOptNat (s : String) : Option (Option Nat) :=
  if s = "-" then some none else s.toNat?.map some

def parseNatList (s : String) : Option (Option (List Nat)) :=
  if s = "-" then some none else ((s.splitOn ",").mapM (fun (t : String) => t.toNat?)).map some

/-- one protocol line → event (`none` = malformed) -/
def parseEv (ts : List String) : Option Ev :=
  match ts with
  | "rst" :: nruns :: nf :: nx :: hasOld :: maxfun :: npt :: _ => do
      pure (.rst (← nruns.toNat?) (← nf.toNat?) (← nx.toNat?) (← parseBool hasOld) (← maxfun.toNat?) (← npt.toNat?))
  | "ns" :: k :: _ => do pure (.ns (← k.toInt?))
  | ["obj", i, e, p, x, v, nc] => do
      pure (.obj (← i.toNat?) (← e.toNat?) (← p.toNat?) (← x.toNat?) (← parseVal v) (← nc.toNat?))
  | "objraise" :: _ => some .objraise
  | ["ctrl", label, ns, v, cap, thr] => do
      pure (.ctrl (← label.toNat?) (← ns.toNat?) (← parseVal v) (← cap.toNat?) (← parseVal thr))
  | ["evb", want, xid] => do pure (.evb (← want.toNat?) (← xid.toNat?))
  | ["eve", k, ex, cls, vmean, thr, anyNaN] => do
      pure (.eve (← k.toNat?) (← parseOptInt ex) (parseCls cls) (← parseVal vmean) (← parseVal thr) (← parseBool anyNaN))
  | ["chg", k, label, allow, v, src, ko] => do
      pure (.chg (← k.toNat?) (← label.toNat?) (← parseBool allow) (← parseVal v) (← src.toNat?) (← ko.toNat?))
  | ["smp", k, v, src, ko] => do pure (.smp (← k.toNat?) (← parseVal v) (← src.toNat?) (← ko.toNat?))
  | ["adp", label, v, src, ko] => do pure (.adp (← label.toNat?) (← parseVal v) (← src.toNat?) (← ko.toNat?))
  | ["sav", ns, label, v, acc, inc] => do
      pure (.sav (← ns.toNat?) (← label.toNat?) (← parseVal v) (← parseBool acc) (← parseBool inc))
  | ["fin", label, ns, v, jac] => do pure (.fin (← label.toNat?) (← ns.toNat?) (← parseVal v) (← parseNatList jac))
  | ["ext", flag, cls, rho, rhoend, nf] => do
      pure (.ext (← flag.toInt?) (parseCls cls) (← parseOptVal rho) (← parseOptVal rhoend) (← parseOptNat nf))
  | ["srb", nruns, want, vopt] => do pure (.srb (← nruns.toNat?) (← want.toNat?) (← parseVal vopt))
  | ["sre", ex] => do pure (.sre (← parseBool ex))
  | ["shf"] => some .shf
  | ["itp", ok] => do pure (.itp (← parseBool ok))
  | ["swp", k1, k2] => do pure (.swp (← k1.toNat?) (← k2.toNat?))
  | ["rend", nf, nx, nruns, flag, cls, label, ns, v, jn, hc] => do
      pure (.rend (← nf.toNat?) (← nx.toNat?) (← nruns.toNat?) (← flag.toInt?) (parseCls cls) (← label.toNat?) (← ns.toNat?)
              (← parseVal v) (← parseBool jn) (← parseBool hc))
  | ["res", nf, nx, nruns, flag, cls, label, v, jn] => do
      pure (.res (← nf.toNat?) (← nx.toNat?) (← nruns.toNat?) (← flag.toInt?) (parseCls cls) (← label.toInt?) (← parseVal v) (← parseBool jn))
  | t :: _ => if t ∈ ["trs", "ratio", "rat", "rrho", "fgb", "fge", "diag", "rad"] then some .other else none
  | [] => none

/-- fold with the index of the first rejected event -/
def runAcc {σ : Type} (step : σ → Ev → Except String σ) (s0 : σ) (evs : List Ev) : Except (Nat × String) σ :=
  let rec go (s : σ) (i : Nat) : List Ev → Except (Nat × String) σ
    | [] => .ok s
    | e :: es => match step s e with
      | .ok s' => go s' (i+1) es
      | .error m => .error (i, m)
  go s0 0 evs

def showCand : Option BookAcc.Cand → String
  | none => "-"
  | some c => s!"{c.pt}:{c.en}:{c.ns}:{showVal c.obj}:{showNats c.resid}"

def report (maxfun : Nat) (hasH : Bool) (maxUnsucc : Nat) (absTol : Val) (evs : List Ev) : String :=
  let c := match runAcc CountAcc.step (CountAcc.init maxfun) evs with
    | .ok s => s!"count=ok nf={s.nf} nx={s.nx} groups={s.groups.length}"
    | .error (i, m) => s!"count=rej@{i}:{m}"
  let b := match runAcc BookAcc.step (BookAcc.init hasH) evs with
    | .ok s => s!"book=ok best={showCand s.best} averaged={showBool s.averaged} runs={s.nrunsSeen}"
    | .error (i, m) => s!"book=rej@{i}:{m}"
  let r := match runAcc RunsAcc.step (RunsAcc.init maxfun maxUnsucc absTol) evs with
    | .ok s => s!"exits=ok nruns={s.nruns} rends={s.rends} soft={s.softOK} rsts={s.rsts}"
    | .error (i, m) => s!"exits=rej@{i}:{m}"
  c ++ " | " ++ b ++ " | " ++ r

structure DSt where
  active : Bool := false
  maxfun : Nat := 0
  hasH : Bool := false
  maxUnsucc : Nat := 10
  absTol : Val := .nan
  evs : Array Ev := #[]
  bad : Option String := none

def handle (st : DSt) (ts : List String) : DSt × String :=
  match ts with
  | ["begin", maxfun, hasH, mu, atol] =>
    match maxfun.toNat?, parseBool hasH, mu.toNat?, parseVal atol with
    | some mf, some h, some mu, some atol => ({ active := true, maxfun := mf, hasH := h, maxUnsucc := mu, absTol := atol }, "")
    | _, _, _, _ => (st, "bad-op")
  | ["end"] =>
    match st.bad with
    | some b => ({}, "malformed " ++ b)
    | none => ({}, report st.maxfun st.hasH st.maxUnsucc st.absTol st.evs.toList)
  | _ =>
    match parseEv ts with
    | some e => ({ st with evs := st.evs.push e }, "")
    | none => ({ st with bad := some (" ".intercalate ts) }, "")

end Dfols.AcceptDrv
