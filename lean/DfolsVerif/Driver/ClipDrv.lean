/- Driver for the clipping kernels in IEEE doubles (`floatOps`): one scalar operation per line. -/
import DfolsVerif.Kernels.Clip
import DfolsVerif.Driver.Proto

namespace Dfols.ClipDrv
open Dfols.Proto Dfols.Clip

def handle (ts : List String) : String :=
  match ts with
  | "asabs" :: rest =>
    match parseFloats rest with
    | some [xl, xu, xbase, sl, su, x] => showFloat (asAbs floatOps xl xu xbase sl su x)
    | _ => "bad-op"
  | "asabsold" :: rest =>
    match parseFloats rest with
    | some [xbase, sl, su, x] => showFloat (asAbsOld floatOps xbase sl su x)
    | _ => "bad-op"
  | "rmscale" :: rest =>
    match parseFloats rest with
    | some [shift, scale, xl, xu, x] => showFloat (removeScaling floatOps shift scale xl xu x)
    | _ => "bad-op"
  | "clampx0" :: rest =>
    match parseFloats rest with
    | some [xl, xu, x] => showFloat (clampX0 floatOps xl xu x)
    | _ => "bad-op"
  | _ => "bad-op"

end Dfols.ClipDrv
