/-
  Driver for the L1 `Model` bookkeeping state machine: executable instance
  `MState Nat (List Float)` — points are harness-side ids, residual vectors are real doubles,
  the running mean is `t*old + (1-t)*new` elementwise with `t = float(k)/float(k+1)` (model.py:218-219).
-/
import DfolsVerif.Book.ModelState
import DfolsVerif.Driver.Proto

namespace Dfols.ModelDrv
open Dfols.Proto

abbrev St := MState Nat (List Float)

/-- model.py:218-219, bit for bit (elementwise IEEE double arithmetic). -/
def avgF (k : Nat) (old new : List Float) : List Float :=
  let t : Float := Float.ofNat k / Float.ofNat (k + 1)
  List.zipWith (fun f r => t * f + (1 - t) * r) old new

def showSlot (sl : Slot Nat (List Float)) : String :=
  s!"{sl.pt}:{showVal sl.obj}:{sl.ns}:{sl.en}:{showFloats sl.resid}"

def showJac : Option (List Nat) → String
  | none => "-"
  | some l => showNats l

def showSaved : Option (Saved Nat (List Float)) → String
  | none => "-"
  | some sv => s!"{sv.pt}:{showVal sv.obj}:{sv.ns}:{sv.en}:{showFloats sv.resid}:{showJac sv.jacNums}"

/-- canonical digest of everything the Python object exposes -/
def showState (s : St) : String :=
  s!"cap={s.cap} kopt={s.kopt} fact={showBool s.factCur} jac={showJac s.jacNums} saved={showSaved s.saved} slots=" ++
    ";".intercalate (s.slots.map showSlot)

def showFinal : Option (MState.Final Nat (List Float)) → String
  | none => "none"
  | some f => s!"final {f.pt}:{showVal f.obj}:{f.ns}:{f.en}:{showFloats f.resid}:{showJac f.jacNums}"

/-- one protocol line; returns new state and the reply -/
def handle (st : Option St) (ts : List String) : Option St × String :=
  match ts with
  | "minit" :: cap :: pid :: v :: ns0 :: label :: rs =>
    match cap.toNat?, pid.toNat?, parseVal v, ns0.toNat?, label.toNat?, parseFloats rs with
    | some cap, some pid, some v, some ns0, some label, some r =>
      let s : St := MState.init cap pid r v ns0 label [r]
      (some s, "ok " ++ showState s)
    | _, _, _, _, _, _ => (st, "bad-op")
  | _ =>
  match st with
  | none => (st, "bad-op no-state")
  | some s =>
    let ret (r : Except String St) : Option St × String :=
      match r with
      | .ok s' => (some s', "ok " ++ showState s')
      | .error e => (some s, "err " ++ e)
    match ts with
    | "mchange" :: k :: pid :: v :: en :: a :: rs =>
      match k.toNat?, pid.toNat?, parseVal v, en.toNat?, parseBool a, parseFloats rs with
      | some k, some pid, some v, some en, some a, some r => ret (s.changePoint k pid r v en a)
      | _, _, _, _, _, _ => (st, "bad-op")
    | ["mswap", k1, k2] =>
      match k1.toNat?, k2.toNat? with
      | some k1, some k2 => ret (s.swap k1 k2)
      | _, _ => (st, "bad-op")
    | "msample" :: k :: v :: rs =>
      match k.toNat?, parseVal v, parseFloats rs with
      | some k, some v, some r => ret (s.addSample avgF k r v)
      | _, _, _ => (st, "bad-op")
    | "maddpt" :: pid :: v :: en :: rs =>
      match pid.toNat?, parseVal v, en.toNat?, parseFloats rs with
      | some pid, some v, some en, some r => ret (s.step avgF (.addPoint pid r v en))
      | _, _, _, _ => (st, "bad-op")
    | ["mshift"] => ret (.ok s.shiftBase)
    | "msave" :: pid :: v :: ns :: en :: rs =>
      match pid.toNat?, parseVal v, ns.toNat?, en.toNat?, parseFloats rs with
      | some pid, some v, some ns, some en, some r =>
        let (s', b) := s.savePoint pid r v ns en
        (some s', s!"ok saved={showBool b} " ++ showState s')
      | _, _, _, _, _ => (st, "bad-op")
    | ["minterp"] => ret (.ok s.interpolate)
    | ["mfact"] => ret (.ok s.factorise)
    | ["mfinal"] => (st, showFinal s.getFinal)
    | _ => (st, "bad-op")

end Dfols.ModelDrv
