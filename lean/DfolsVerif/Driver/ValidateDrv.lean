/-
  Driver for the L1 `Validate` model, instantiated with the tables regenerated from /repo
  (`Dfols.Gen`).  One request per line, one reply per line (see harness/props/c07.py).

  value tokens:  N | b0 | b1 | i<int> | f<raw 64 bits, decimal> | s | o      (replies print NaN as `fnan`)
  shape tokens:  -  (None)  |  e  (shape ())  |  d1,d2,…
-/
import DfolsVerif.Book.Validate
import DfolsVerif.Gen.ParamTable
import DfolsVerif.Gen.ExitCodes
import DfolsVerif.Driver.Proto

namespace Dfols.ValidateDrv
open Dfols.Py Dfols.Proto

def tables : Tables := { defaults := Gen.paramDefaults, types := Gen.paramTypes, exit := Gen.exitTable }

/-- inverse of `F.ofBits` on representable values -/
def fToBits : F → Option Nat
  | .nan => none
  | .pinf => some 0x7FF0000000000000
  | .ninf => some 0xFFF0000000000000
  | .fin k =>
    let mag := k.natAbs
    let sign : Nat := if k < 0 then 2 ^ 63 else 0
    if mag < 2 ^ 52 then some (sign + mag)
    else
      let e := Nat.log2 mag - 52
      some (sign + (e + 1) * 2 ^ 52 + (mag / 2 ^ e - 2 ^ 52))

def showPy : PyVal → String
  | .none => "N"
  | .bool b => if b then "b1" else "b0"
  | .int i => s!"i{i}"
  | .float x => match fToBits x with | some b => s!"f{b}" | none => "fnan"
  | .str => "s"
  | .other => "o"

def parsePy (s : String) : Option PyVal :=
  if s = "N" then some .none
  else if s = "b0" then some (.bool false)
  else if s = "b1" then some (.bool true)
  else if s = "s" then some .str
  else if s = "o" then some .other
  else if s.startsWith "i" then (s.drop 1).toString.toInt?.map PyVal.int
  else if s.startsWith "f" then (s.drop 1).toString.toNat?.map (fun b => PyVal.float (F.ofBits b))
  else none

def parseShape (s : String) : Option (Option (List Nat)) :=
  if s = "-" then some none
  else if s = "e" then some (some [])
  else ((s.splitOn ",").mapM (fun (t : String) => t.toNat?)).map some

def parseF (s : String) : Option F := s.toNat?.map F.ofBits

def parsePairs : List String → Option (List (String × PyVal))
  | [] => some []
  | k :: v :: rest => do
    let pv ← parsePy v
    let r ← parsePairs rest
    pure ((k, pv) :: r)
  | _ => none

def showPList (pl : PList) : String :=
  ",".intercalate (pl.map fun p => showPy p.val ++ (if p.changed then "*" else ""))

def showOutcome (E : ExitTable) : Outcome → String
  | .unmodelled => "unmodelled"
  | .raised e => "raise " ++ e.name
  | .proceed pl npt maxfun rhobeg scal =>
    s!"proceed npt={showPy npt} maxfun={showPy maxfun} rhobeg={showPy rhobeg} scal={showBool scal} params={showPList pl}"
  | .result r =>
    s!"result flag={r.flag} nf={r.nf} nx={r.nx} nruns={r.nruns} has={showBool r.hasX}{showBool r.hasResid}{showBool r.hasObj}{showBool r.hasJac}{showBool r.hasXminEvalNum}{showBool r.hasJacEvalNums} str={showBool (r.strDefined E)} msg={r.msg}"

structure St where
  pl : PList := []

def showExc {α} (f : α → String) : Except Exc α → String
  | .ok a => "ok " ++ f a
  | .error e => "raise " ++ e.name

def handle (st : St) (ts : List String) : St × String :=
  match ts with
  | "val" :: x0 :: hh :: hp :: lh :: xl :: xu :: pj :: npt :: rb :: re :: mf :: nz :: sc :: drho :: graw :: gsc :: up =>
    let args : Option Args := do
      let x0 ← parseShape x0
      let x0 ← x0
      let hh ← parseBool hh
      let hp ← parseBool hp
      let lh ← parsePy lh
      let xl ← parseShape xl
      let xu ← parseShape xu
      let pj ← parseBool pj
      let npt ← parsePy npt
      let rb ← parsePy rb
      let re ← parsePy re
      let mf ← parsePy mf
      let nz ← parseBool nz
      let sc ← parseBool sc
      let drho ← parseF drho
      let graw ← parseF graw
      let gsc ← parseF gsc
      let up ← match up with
        | ["noup"] => some none
        | "up" :: rest => (parsePairs rest).map some
        | _ => none
      pure { x0shape := x0, hasH := hh, hasProx := hp, lh := lh, xlShape := xl, xuShape := xu, hasProj := pj, npt := npt,
             rhobeg := rb, rhoend := re, maxfun := mf, userParams := up, noise := nz, scaling := sc,
             rhobegDefault := drho, gapRaw := graw, gapScaled := gsc }
    match args with
    | none => (st, "bad-op")
    | some a => (st, showOutcome tables.exit (validate tables a))
  | ["pinit", n, npt, mf, nz] =>
    match n.toInt?, npt.toInt?, mf.toInt?, parseBool nz with
    | some n, some npt, some mf, some nz =>
      let pl := PList.init tables.defaults ⟨n, npt, mf, nz⟩
      ({ st with pl := pl }, "ok " ++ showPList pl)
    | _, _, _, _ => (st, "bad-op")
  | ["pcall", key, v] =>
    match parsePy v with
    | none => (st, "bad-op")
    | some v =>
      match st.pl.call key v with
      | .error e => (st, "raise " ++ e.name)
      | .ok (pl, r) => ({ st with pl := pl }, s!"ok {showPy r} {showPList pl}")
  | ["pcheck", key, v, npt] =>
    match parsePy v, parsePy npt with
    | some v, some npt =>
      match npt.num? with
      | none => (st, "bad-op")
      | some nptF => (st, showExc showBool (checkParam tables.types key v nptF))
    | _, _ => (st, "bad-op")
  | ["pcheckall", npt] =>
    match (parsePy npt).bind PyVal.num? with
    | none => (st, "bad-op")
    | some nptF => (st, showExc (fun ks => ",".intercalate ks) (checkAll tables.types st.pl nptF))
  | ["keys"] => (st, "ok " ++ " ".intercalate (tables.defaults.map (·.1)))
  | ["typekeys"] => (st, "ok " ++ " ".intercalate (tables.types.map (·.1)))
  | ["xmessage", flag] =>
    match flag.toInt? with
    | some f => (st, "ok " ++ tables.exit.message f "<details>")
    | none => (st, "bad-op")
  | ["xrestart", flag] =>
    match flag.toInt? with
    | some f => (st, "ok " ++ (match tables.exit.ableToRestart? f with | some b => showBool b | none => "m"))
    | none => (st, "bad-op")
  | ["xexposes", name] =>
    (st, "ok " ++ (match tables.exit.exposedValue? name with
                    | some v => if tables.exit.exposes name then toString v else "-"
                    | none => "-"))
  | ["xconst", name] => (st, "ok " ++ (match tables.exit.flagOf? name with | some v => toString v | none => "-"))
  | ["xdocflags"] => (st, "ok " ++ ",".intercalate (tables.exit.documentedFlags.map toString))
  | _ => (st, "bad-op")

end Dfols.ValidateDrv
