/-
  Driver for the L0 Dykstra kernel (interpretation X: `List Float`) and for the C09 trace acceptor.
  The `dykstra` that runs here is `Dfols.Dykstra.dykstra` of `Kernels/Dykstra.lean` — the definition
  the theorems of `Proofs/Dykstra.lean` are about — instantiated with IEEE double operations.

  Protocol (one line in, one line out; doubles as raw 64-bit patterns in decimal):

  * `dyko n maxIter tol p x0[n] k (i arg[n] out[n])*k`
      **oracle mode**: projector `i` is the finite function given by the recorded (arg ↦ out) pairs of
      the real run (lookup by bit pattern; a miss yields NaNs).  Everything else — `prev_x - y_i`,
      `y_i := x - (prev_x - prev_y)`, the sweep structure, the stopping test — is recomputed.  The
      elementwise part is bit-reproducible, so arguments/outputs must match bit for bit; the stopping
      sum contains a reduction (`np.linalg.norm`, BLAS) and a `pow`, and is compared with a tolerance.
  * `dykc n maxIter tol p proj*p x0[n]`   with  `proj ::= B l[n] u[n] | S c[n] r | H a[n] b`
      **closed-language mode**: the projectors are computed in Lean as well (`pbox`, `pball` of the
      kernel file; half-space `x - ((a·x - b)/(a·a)) a` if `a·x > b`).
    reply (both): `sweeps stopped cI x[n]` (`cI` = `none` when no sweep was made)
  * `ptrace n k ev*k`   with  `ev ::= s x[n] | d (0|1) x[n] | e x[n]`
      the C09 acceptor `ProjTrace.accept` with `close = np.allclose` computed in `Float`;
    reply: `ok` or `reject <index> <reason>`.
-/
import DfolsVerif.Kernels.Dykstra
import DfolsVerif.Book.ProjTrace
import DfolsVerif.Driver.Proto

namespace Dfols.DykstraDrv
open Dfols.Proto Dfols.Dykstra

abbrev Vec := List Float

def vsub (a b : Vec) : Vec := List.zipWith (· - ·) a b
def vadd (a b : Vec) : Vec := List.zipWith (· + ·) a b
def vscale (s : Float) (a : Vec) : Vec := a.map (s * ·)
/-- left-to-right dot product (NumPy/BLAS may differ in the last bits) -/
def dot (a b : Vec) : Float := (List.zipWith (· * ·) a b).foldl (· + ·) 0.0
/-- `np.linalg.norm` = `sqrt(dot(x,x))` -/
def norm (a : Vec) : Float := Float.sqrt (dot a a)

def fInf : Float := 1.0 / 0.0
def fNaN : Float := 0.0 / 0.0

/-- `np.maximum` on doubles: NaN-propagating, second argument on ties -/
def npMaximum (a b : Float) : Float := if a.isNaN then a else if b.isNaN then b else if a > b then a else b
/-- `np.minimum` -/
def npMinimum (a b : Float) : Float := if a.isNaN then a else if b.isNaN then b else if a < b then a else b
/-- `np.max([a, b])` -/
def npMax2 (a b : Float) : Float := npMaximum a b

/-- IEEE operations of `dykstra` on `n`-vectors; `normSq v = np.linalg.norm(v)**2`. -/
def fOps (n : Nat) : Ops Vec Float where
  sub := vsub
  zero := List.replicate n 0.0
  normSq := fun v => let s := norm v; s * s
  sadd := (· + ·)
  szero := 0.0
  ge := fun a b => decide (a ≥ b)
  infGe := fun t => decide (fInf ≥ t)

def fBallOps : BallOps Vec Float where
  add := vadd
  sub := vsub
  smul := vscale
  norm := norm
  div := (· / ·)
  max := npMax2

/-- projectors of the closed language -/
inductive Proj where
  | box (l u : Vec)
  | ball (c : Vec) (r : Float)
  | half (a : Vec) (b : Float)
  | table (entries : List (List UInt64 × Vec)) (n : Nat)

def bitsOf (v : Vec) : List UInt64 := v.map Float.toBits

def Proj.apply : Proj → Vec → Vec
  | .box l u, x => pbox npMinimum npMaximum x l u
  | .ball c r, x => pball fBallOps x c r
  | .half a b, x =>
    let ax := dot a x
    if ax ≤ b then x else vsub x (vscale ((ax - b) / dot a a) a)
  | .table es n, x =>
    match es.find? (fun e => e.1 == bitsOf x) with
    | some e => e.2
    | none => List.replicate n fNaN

/-! parsing -/

def takeFloats (n : Nat) (ts : List String) : Option (Vec × List String) :=
  if ts.length < n then none else
    match parseFloats (ts.take n) with
    | some v => some (v, ts.drop n)
    | none => none

def takeFloat (ts : List String) : Option (Float × List String) :=
  match ts with
  | t :: rest => (parseFloatBits t).map (fun f => (f, rest))
  | [] => none

def parseProjs (n : Nat) : Nat → List String → Option (List Proj × List String)
  | 0, ts => some ([], ts)
  | k + 1, ts =>
    match ts with
    | "B" :: rest => do
      let (l, r1) ← takeFloats n rest
      let (u, r2) ← takeFloats n r1
      let (ps, r3) ← parseProjs n k r2
      pure (Proj.box l u :: ps, r3)
    | "S" :: rest => do
      let (c, r1) ← takeFloats n rest
      let (r, r2) ← takeFloat r1
      let (ps, r3) ← parseProjs n k r2
      pure (Proj.ball c r :: ps, r3)
    | "H" :: rest => do
      let (a, r1) ← takeFloats n rest
      let (b, r2) ← takeFloat r1
      let (ps, r3) ← parseProjs n k r2
      pure (Proj.half a b :: ps, r3)
    | _ => none

/-- recorded projector calls `(i, arg, out)` -/
def parseCalls (n : Nat) : Nat → List String → Option (List (Nat × Vec × Vec) × List String)
  | 0, ts => some ([], ts)
  | k + 1, ts =>
    match ts with
    | i :: rest => do
      let i ← i.toNat?
      let (a, r1) ← takeFloats n rest
      let (o, r2) ← takeFloats n r1
      let (cs, r3) ← parseCalls n k r2
      pure ((i, a, o) :: cs, r3)
    | [] => none

def showResult (fo : Ops Vec Float) (tol : Float) (r : Result Vec Float) : String :=
  let c := match r.cI with | none => "none" | some c => showFloat c
  s!"{r.sweeps} {showBool (r.stoppedByRule fo tol)} {c} {showFloats r.x}"

def handleDyk (closed : Bool) (ts : List String) : String :=
  match ts with
  | n :: m :: tol :: p :: rest =>
    match n.toNat?, m.toNat?, parseFloatBits tol, p.toNat? with
    | some n, some m, some tol, some p =>
      if closed then
        match parseProjs n p rest with
        | some (projs, r1) =>
          match takeFloats n r1 with
          | some (x0, []) =>
            showResult (fOps n) tol (dykstraFull (fOps n) (projs.map Proj.apply) x0 m tol)
          | _ => "bad-op x0"
        | none => "bad-op projs"
      else
        match takeFloats n rest with
        | some (x0, k :: r1) =>
          match k.toNat? with
          | some k =>
            match parseCalls n k r1 with
            | some (calls, []) =>
              let projs : List Proj := (List.range p).map (fun i =>
                Proj.table ((calls.filter (fun c => c.1 == i)).map (fun c => (bitsOf c.2.1, c.2.2))) n)
              showResult (fOps n) tol (dykstraFull (fOps n) (projs.map Proj.apply) x0 m tol)
            | _ => "bad-op calls"
          | none => "bad-op k"
        | _ => "bad-op x0"
    | _, _, _, _ => "bad-op header"
  | _ => "bad-op"

/-! the C09 trace acceptor on bit patterns -/

abbrev BVec := List UInt64

/-- `np.allclose(xp, x0)` = all of `(|xp-x0| <= atol + rtol*|x0|) & isfinite(x0) | (xp == x0)`,
    `rtol = 1e-5`, `atol = 1e-8` -/
def allclose (xp x0 : BVec) : Bool :=
  (List.zipWith (fun (a b : UInt64) =>
    let x := Float.ofBits a
    let y := Float.ofBits b
    (decide (Float.abs (x - y) ≤ 1e-8 + 1e-5 * Float.abs y) && y.isFinite) || x == y) xp x0).all id

def parseEvents (n : Nat) : Nat → List String → Option (List (ProjTrace.Ev BVec))
  | 0, [] => some []
  | 0, _ => none
  | k + 1, ts =>
    let bits (ts : List String) : Option (BVec × List String) :=
      if ts.length < n then none else
        ((ts.take n).mapM (fun (s : String) => s.toNat?.map Nat.toUInt64)).map (fun v => (v, ts.drop n))
    match ts with
    | "s" :: rest => do
      let (v, r) ← bits rest
      let es ← parseEvents n k r
      pure (.start v :: es)
    | "e" :: rest => do
      let (v, r) ← bits rest
      let es ← parseEvents n k r
      pure (.eval v :: es)
    | "d" :: b :: rest => do
      let b ← parseBool b
      let (v, r) ← bits rest
      let es ← parseEvents n k r
      pure (.dykOut v b :: es)
    | _ => none

def handleTrace (ts : List String) : String :=
  match ts with
  | n :: k :: rest =>
    match n.toNat?, k.toNat? with
    | some n, some k =>
      match parseEvents n k rest with
      | some evs =>
        -- after the fix "always start from the projection of x0" solve() no longer consults np.allclose:
        -- the model's `close` input is constantly false (the theorems hold for every `close`)
        if ProjTrace.accept (fun _ _ => false) evs then "ok"
        else match ProjTrace.firstReject (fun _ _ => false) evs {} 0 with
          | some (i, msg) => s!"reject {i} {msg}"
          | none => "reject ? inconsistent"
      | none => "bad-op events"
    | _, _ => "bad-op header"
  | _ => "bad-op"

def handle (ts : List String) : String :=
  match ts with
  | "dyko" :: rest => handleDyk false rest
  | "dykc" :: rest => handleDyk true rest
  | "ptrace" :: rest => handleTrace rest
  | _ => "bad-op"

end Dfols.DykstraDrv
