/-
  Driver for the L1 `Json` model (property C20): runs `toDict` / `dumpsLoads` / `fromDict` /
  `fromDictOld` / `strLines` of `DfolsVerif/Book/Json.lean` on one concrete result record per line.

  Request (tokens separated by blanks):

    j <replace_nan:0|1>
      X <n> <fl>*n   R <m> <fl>*m   O <fl>
      J ( - | <rows> <cols> <fl>*(rows*cols) )
      C <nf> <nx> <nruns> <flag> <xmin_eval_num>
      M <str>
      E ( - | <k> <int>*k )
      D ( - | <ncols> ( <str:name> <nrows> ( <key> <cell> )*nrows )*ncols )

    <fl>   = nan | inf | -inf | decimal of the 64 raw bits of a finite double
    <str>  = h<hex of the UTF-8 bytes>
    <key>  = i<int> | h<hex>
    <cell> = n | i<int> | f<fl> | h<hex>

  Reply:  ok d=<J> strict=<0|1> t=<J> new=<R|none> old=<R|none> str=<tags> strnew=<tags|none> strold=<tags|raise|none>
    d      = toDict replace_nan r                      (what to_dict() returns)
    strict = isStrict d                                (json.dumps(d, allow_nan=False) does not raise)
    t      = strKeys d                                 (json.loads(json.dumps(d)))
    new    = fromDict t, old = fromDictOld t           (record rendering, obj=N for None)
    str*   = tags of the printed lines of the original / the reloaded objects
-/
import DfolsVerif.Book.Json
import DfolsVerif.Driver.Proto

namespace Dfols.JsonDrv
open Dfols Dfols.Json

/-! ### text helpers -/

def hexDigit (n : Nat) : Char := Char.ofNat (if n < 10 then 48 + n else 87 + n)

def hexOfString (s : String) : String :=
  String.ofList (s.toUTF8.toList.flatMap fun b => [hexDigit (b.toNat / 16), hexDigit (b.toNat % 16)])

def hexVal (c : Char) : Option Nat :=
  if '0' ≤ c ∧ c ≤ '9' then some (c.toNat - 48)
  else if 'a' ≤ c ∧ c ≤ 'f' then some (c.toNat - 87)
  else none

def bytesOfHex : List Char → Option (List UInt8)
  | [] => some []
  | [_] => none
  | a :: b :: r =>
    match hexVal a, hexVal b, bytesOfHex r with
    | some x, some y, some bs => some (UInt8.ofNat (16 * x + y) :: bs)
    | _, _, _ => none

def stringOfHex (cs : List Char) : Option String :=
  (bytesOfHex cs).bind fun bs => String.fromUTF8? (ByteArray.mk bs.toArray)

def showFl : Fl → String
  | .nan => "nan"
  | .inf false => "inf"
  | .inf true => "-inf"
  | .fin b => toString b

def parseFl (s : String) : Option Fl :=
  if s = "nan" then some .nan
  else if s = "inf" then some (.inf false)
  else if s = "-inf" then some (.inf true)
  else s.toNat?.map .fin

def showKey : Key → String
  | .i n => "i" ++ toString n
  | .s name => "h" ++ hexOfString name

def commaSep (xs : List String) : String := ",".intercalate xs

mutual
/-- canonical rendering of plain Python data -/
def showJson : Json → String
  | .null => "N"
  | .bool true => "T"
  | .bool false => "F"
  | .int i => "i" ++ toString i
  | .num x => "f" ++ showFl x
  | .str s => "h" ++ hexOfString s
  | .arr xs => "[" ++ commaSep (showJsonL xs) ++ "]"
  | .obj kvs => "{" ++ commaSep (showJsonF kvs) ++ "}"
def showJsonL : List Json → List String
  | [] => []
  | x :: xs => showJson x :: showJsonL xs
def showJsonF : List (Key × Json) → List String
  | [] => []
  | (k, v) :: r => (showKey k ++ ":" ++ showJson v) :: showJsonF r
end

def showCell : Cell → String
  | .na => "na"
  | .num .nan => "na"
  | .int i => "i" ++ toString i
  | .num x => "f" ++ showFl x
  | .str s => "h" ++ hexOfString s

def showVec (v : List Fl) : String := "[" ++ commaSep (v.map showFl) ++ "]"

def showOpt {α : Type} (f : α → String) : Option α → String
  | none => "-"
  | some a => f a

def showTable (t : Table) : String :=
  "{" ++ commaSep (t.map fun nc =>
    "h" ++ hexOfString nc.1 ++ ":{" ++ commaSep (nc.2.map fun kc => showKey kc.1 ++ ":" ++ showCell kc.2) ++ "}") ++ "}"

/-- canonical rendering of an `OptimResults` object (`showObj` renders the `obj` slot) -/
def showRec {O : Type} (showObj : O → String) (r : ResultRecG O) : String :=
  s!"x={showVec r.x};resid={showVec r.resid};obj={showObj r.obj};" ++
  "jac=" ++ showOpt (fun m => "[" ++ commaSep (m.map showVec) ++ "]") r.jacobian ++
  s!";nf={r.nf};nx={r.nx};nruns={r.nruns};flag={r.flag};msg=h{hexOfString r.msg};xen={r.xminEvalNum};" ++
  "en=" ++ showOpt (fun l => "[" ++ commaSep (l.map toString) ++ "]") r.jacminEvalNums ++
  ";diag=" ++ showOpt showTable r.diag

def showObjOld : Option Fl → String
  | none => "N"
  | some x => showFl x

def showTags (ls : List Line) : String := commaSep (ls.map Line.tag)

/-! ### request parser -/

abbrev P := StateT (List String) Option

def tok : P String := do
  match (← get) with
  | [] => failure
  | t :: r => set r; pure t

def expect (s : String) : P Unit := do
  let t ← tok
  if t = s then pure () else failure

def liftO {α : Type} (o : Option α) : P α :=
  match o with
  | some a => pure a
  | none => failure

def pNat : P Nat := do liftO (← tok).toNat?
def pInt : P Int := do liftO (← tok).toInt?
def pFl : P Fl := do liftO (parseFl (← tok))

def pStrTok (t : String) : Option String :=
  match t.toList with
  | 'h' :: cs => stringOfHex cs
  | _ => none

def pStr : P String := do liftO (pStrTok (← tok))

def rep {α : Type} (p : P α) : Nat → P (List α)
  | 0 => pure []
  | n + 1 => do
    let a ← p
    let as ← rep p n
    pure (a :: as)

def pKey : P Key := do
  let t ← tok
  match t.toList with
  | 'i' :: cs => liftO ((String.ofList cs).toInt?.map Key.i)
  | 'h' :: cs => liftO ((stringOfHex cs).map Key.s)
  | _ => failure

def pCell : P Cell := do
  let t ← tok
  match t.toList with
  | ['n'] => pure .na
  | 'i' :: cs => liftO ((String.ofList cs).toInt?.map Cell.int)
  | 'f' :: cs => liftO ((parseFl (String.ofList cs)).map Cell.num)
  | 'h' :: cs => liftO ((stringOfHex cs).map Cell.str)
  | _ => failure

/-- `-` or a payload -/
def pOpt {α : Type} (p : P α) : P (Option α) := do
  match (← get) with
  | "-" :: r => set r; pure none
  | _ => do let a ← p; pure (some a)

def pMat : P (List (List Fl)) := do
  let rows ← pNat
  let cols ← pNat
  rep (rep pFl cols) rows

def pCol : P (String × Column) := do
  let name ← pStr
  let nrows ← pNat
  let cells ← rep (do let k ← pKey; let c ← pCell; pure (k, c)) nrows
  pure (name, cells)

def pRec : P ResultRec := do
  expect "X"; let x ← rep pFl (← pNat)
  expect "R"; let resid ← rep pFl (← pNat)
  expect "O"; let obj ← pFl
  expect "J"; let jac ← pOpt pMat
  expect "C"; let nf ← pInt; let nx ← pInt; let nruns ← pInt; let flag ← pInt; let xen ← pInt
  expect "M"; let msg ← pStr
  expect "E"; let en ← pOpt (do rep pInt (← pNat))
  expect "D"; let diag ← pOpt (do rep pCol (← pNat))
  pure { x := x, resid := resid, obj := obj, jacobian := jac, nf := nf, nx := nx, nruns := nruns, flag := flag,
         msg := msg, xminEvalNum := xen, jacminEvalNums := en, diag := diag }

def pRequest : P (Bool × ResultRec) := do
  expect "j"
  let b ← liftO (Proto.parseBool (← tok))
  let r ← pRec
  pure (b, r)

/-! ### one protocol line -/

def handle (ts : List String) : String :=
  match pRequest.run ts with
  | some ((b, r), []) =>
    let d := toDict b r
    let t := strKeys d
    let new := fromDict t
    let old := fromDictOld t
    let strold : String :=
      match old with
      | none => "none"
      | some o => match strLinesOld o with
        | none => "raise"
        | some ls => showTags ls
    "ok d=" ++ showJson d ++ " strict=" ++ Proto.showBool (isStrict d) ++ " t=" ++ showJson t ++
      " new=" ++ (match new with | none => "none" | some n => showRec showFl n) ++
      " old=" ++ (match old with | none => "none" | some o => showRec showObjOld o) ++
      " str=" ++ showTags (strLines r) ++
      " strnew=" ++ (match new with | none => "none" | some n => showTags (strLines n)) ++
      " strold=" ++ strold
  | _ => "bad-op"

end Dfols.JsonDrv
