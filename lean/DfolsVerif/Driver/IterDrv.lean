import DfolsVerif.Accept.IterAcc
import DfolsVerif.Accept.DiagAcc
import DfolsVerif.Driver.Proto
import DfolsVerif.Proofs.DiagTable
namespace Dfols.IterDrv
open Dfols.Proto Dfols.IterAcc

def parseEv (t : String) : Option IEv :=
  if t = "i" then some .itp else if t = "o" then some .obj else if t = "s" then some .srb
  else if t = "e" then some .runEnd
  else match t.splitOn ":" with
    | ["r", b, a, e] => do pure (.rrho (← parseVal b) (← parseVal a) (← parseVal e))
    | _ => none

def run (evs : List IEv) : String :=
  let rec go (s : St) (i : Nat) : List IEv → String
    | [] => s!"ok maxStreak={s.maxStreak}"
    | e :: es => match step s e with
      | .ok s' => go s' (i+1) es
      | .error m => s!"rej@{i}:{m}"
  go {} 0 evs

def parseDEv (t : String) : Option DiagAcc.DEv :=
  if t = "o1" then some (.obj true) else if t = "o0" then some (.obj false) else if t = "k" then some .softOK
  else if t = "e" then some .runEnd
  else match t.splitOn ":" with
    | ["b", a, b, c] => do pure (.runStart (← a.toNat?) (← b.toNat?) (← c.toNat?))
    | ["w", a, b, c, d, e] => do pure (.row (← a.toNat?) (← b.toNat?) (← c.toNat?) (← d.toNat?) (← e.toNat?))
    | ["z", a, b, c] => do pure (.result (← a.toNat?) (← b.toNat?) (← c.toNat?))
    | _ => none

def runDiag (maxNpt : Nat) (evs : List DiagAcc.DEv) : String :=
  let rec go (s : DiagAcc.St) (i : Nat) : List DiagAcc.DEv → String
    | [] => s!"ok rows={s.rows.length} nf={s.nf} nx={s.nx} nruns={s.nruns}"
    | e :: es => match DiagAcc.step maxNpt s e with
      | .ok s' => go s' (i+1) es
      | .error m => s!"rej@{i}:{m}"
  go {} 0 evs

/-- the DiagnosticInfo state machine of Proofs/DiagTable.lean on the columns GENERATED from `__init__`: `s` = save,
    `u:<key>` = an `update_*` assignment of the last element of column <key> -/
def parseDOp (t : String) : Option DiagTable.Op :=
  if t = "s" then some .save
  else match t.splitOn ":" with
    | ["u", k] => some (.update k)
    | _ => none

def runDOps (ops : List DiagTable.Op) : String :=
  match DiagTable.run (DiagTable.init Gen.diagInitKeys) ops with
  | none => "fail"
  | some s =>
    let lens := s.cols.map (·.2)
    let rect := lens.all (· == s.its.length)
    s!"ok rows={s.its.length} rect={rect} ncols={s.cols.length} its={s.its == List.range s.its.length}"

/-- `iter <tok>*`  |  `diag <maxNpt> <tok>*`  |  `dops <tok>*` -/
def handle (ts : List String) : String :=
  match ts with
  | "iter" :: rest =>
    match rest.mapM parseEv with
    | some evs => run evs
    | none => "bad-op"
  | "diag" :: m :: rest =>
    match m.toNat?, rest.mapM parseDEv with
    | some mx, some evs => runDiag mx evs
    | _, _ => "bad-op"
  | "dops" :: rest =>
    match rest.mapM parseDOp with
    | some ops => runDOps ops
    | none => "bad-op"
  | _ => "bad-op"
end Dfols.IterDrv
