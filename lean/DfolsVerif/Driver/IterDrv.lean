import DfolsVerif.Accept.IterAcc
import DfolsVerif.Driver.Proto
namespace Dfols.IterDrv
open Dfols.Proto Dfols.IterAcc

def parseEv (t : String) : Option IEv :=
  if t = "i" then some .itp else if t = "o" then some .obj else if t = "s" then some .srb
  else if t = "e" then some .runEnd
  else match t.splitOn ":" with
    | ["r", b, a, e] => do pure (.rrho (← parseVal b) (← parseVal a) (← parseVal e))
    | _ => none

def run (evs : List IEv) : String :=
  let rec go (s : St) (i : Nat) : List IEv → String
    | [] => s!"ok maxStreak={s.maxStreak}"
    | e :: es => match step s e with
      | .ok s' => go s' (i+1) es
      | .error m => s!"rej@{i}:{m}"
  go {} 0 evs

/-- `iter <tok>*` -/
def handle (ts : List String) : String :=
  match ts with
  | "iter" :: rest =>
    match rest.mapM parseEv with
    | some evs => run evs
    | none => "bad-op"
  | _ => "bad-op"
end Dfols.IterDrv
