import DfolsVerif.Accept.RngAcc
import DfolsVerif.Driver.Proto
namespace Dfols.RngDrv
open Dfols.Proto Dfols.RngAcc

def parseSite (s : String) : Site :=
  match s with
  | "initRandom" => .initRandom | "growing" => .growing | "softIncreaseNpt" => .softIncreaseNpt
  | "momentum" => .momentum | "projSelector" => .projSelector | "projRepair" => .projRepair | _ => .other

/-- `rng <randomInit> <growing> <softIncreaseNpt> <momentum> <projections> site*` -/
def handle (ts : List String) : String :=
  match ts with
  | "rng" :: a :: b :: c :: d :: e :: sites =>
    match parseBool a, parseBool b, parseBool c, parseBool d, parseBool e with
    | some a, some b, some c, some d, some e =>
      let cfg : Cfg := { randomInit := a, growing := b, softIncreaseNpt := c, momentum := d, projections := e }
      match accept cfg (sites.map parseSite) with
      | .ok s => s!"ok usesRandom={showBool cfg.usesRandom} draws={s.draws} unused={s.unused}"
      | .error m => "rej " ++ m
    | _, _, _, _, _ => "bad-op"
  | _ => "bad-op"
end Dfols.RngDrv
