/-
  Line protocol helpers shared by all model drivers (no Mathlib).
  Floats cross the protocol as their 64 raw bits in decimal; objective values as order keys
  (`n` = NaN, otherwise a decimal integer).
-/
import DfolsVerif.Val

namespace Dfols.Proto

def tokens (line : String) : List String :=
  (line.splitOn " ").filter (· ≠ "") |>.map (fun s => s.trimAscii.toString) |>.filter (· ≠ "")

def parseVal (s : String) : Option Val :=
  if s = "n" then some Val.nan else s.toInt?.map Val.num

def showVal : Val → String
  | .nan => "n"
  | .num k => toString k

def parseFloatBits (s : String) : Option Float :=
  s.toNat?.map (fun n => Float.ofBits n.toUInt64)

def parseFloats (ts : List String) : Option (List Float) := ts.mapM parseFloatBits

/-- canonical rendering: NaNs (any payload) print as `nan` -/
def showFloat (x : Float) : String := if x.isNaN then "nan" else toString x.toBits.toNat

def showFloats (xs : List Float) : String := ",".intercalate (xs.map showFloat)

def showNats (xs : List Nat) : String := ",".intercalate (xs.map toString)

def showBool (b : Bool) : String := if b then "1" else "0"

def parseBool (s : String) : Option Bool := if s = "1" then some true else if s = "0" then some false else none

end Dfols.Proto
