/- Driver for the TRANSLATED parameter block of ctrsbox_sfista (Gen/SfistaFns.lean) in IEEE doubles. -/
import DfolsVerif.Gen.SfistaFns
import DfolsVerif.Driver.Proto

namespace Dfols.SfistaDrv
open Dfols.Proto

def floatOps : SfistaOps Float where
  add := (· + ·)
  mul := (· * ·)
  div := (· / ·)
  sqrt := Float.sqrt
  ceil := fun x => (Float.ceil x).toUInt64.toNat     -- finite non-negative arguments only (the harness sends no others)
  ofNat := fun n => Float.ofNat n

/-- `sfista <max_iters> <scale> <delta> <L_h> <k_H> <func_tol>` → `<MAX_LOOP_ITERS> <bits of u> <bits of l>` -/
def handle (ts : List String) : String :=
  match ts with
  | "sfista" :: m :: rest =>
    match m.toNat?, parseFloats rest with
    | some maxIters, some [scale, delta, lh, kH, tol] =>
      let K := Gen.sfistaIters floatOps scale delta lh kH tol maxIters
      let u := Gen.sfistaU floatOps K delta lh
      s!"{K} {showFloat u} {showFloat (Gen.sfistaLip floatOps kH u)}"
    | _, _ => "bad-op"
  | _ => "bad-op"

end Dfols.SfistaDrv
