/-
  Driver for the interpolation specification (`Kernels/Interp.lean`), executed over `ℚ`, and for the
  ghost fields of the L1 `Model` state machine.

  * `m…` lines are handed to `ModelDrv.handle` (the C17 driver, unchanged); the reply is extended by
    the ghost fields `ver=<version> fver=<factVersion>` that C16's `fact_flag_sound` speaks about.
  * `i…` lines evaluate the *definitions the theorems are about* on data taken from the real
    `Model` object.  Every double is transmitted exactly as `num/den`; all arithmetic is exact.

      ieval  n m p | Y(p·n) F(p·m) c(m) J(m·n)
             → ok E(p·m) N0(m) N1(n·m)
               E  t i = modelVal c J (Y t) i − F t i          (`Interpolates` ⇔ E = 0)
               N0 i   = Σ_t E t i ,  N1 j i = Σ_t Y t j · E t i   (`IsLSQFit` ⇔ N0 = 0 ∧ N1 = 0)
      ifit   n m p kopt δ | Y(p·n) x((n+1)·m)
             → ok c(m) J(m·n)            `IModel.fit` (col_scale by right_scaling, model.py:386-387)
      ishift n m p | xbase(n) Y(p·n) c(m) J(m·n) sh(n)
             → ok xbase'(n) Y'(p·n) c'(m)                       `IModel.shiftBase`
      ibuild n m | xopt(n) c(m) J(m·n)
             → ok g(n) H(n·n)                                   `IModel.buildFullModel`
      ilag   n p | xopt(n) dg((n+1)·p) y(n)
             → ok L_0(y) … L_{p-1}(y)                           `lagrangeVal`
      iunscale n m | scale(n) J(m·n)
             → ok J'(m·n)                                       `unscaleJac`

  Runs under `lake env lean --run InterpMain.lean`; imports `Mathlib.Data.Matrix.Mul` through the
  kernel file (interpreted, ≈ 2 s start-up).
-/
import DfolsVerif.Kernels.Interp
import DfolsVerif.Driver.ModelDrv

namespace Dfols.InterpDrv
open Dfols.Proto Dfols.Interp

def parseRat (s : String) : Option Rat :=
  match s.splitOn "/" with
  | [a] => a.toInt?.map (fun n => (n : Rat))
  | [a, b] =>
    match a.toInt?, b.toNat? with
    | some n, some d => if d = 0 then none else some (mkRat n d)
    | _, _ => none
  | _ => none

def showRat (r : Rat) : String := if r.den = 1 then toString r.num else s!"{r.num}/{r.den}"

def showRats (xs : List Rat) : String := " ".intercalate (xs.map showRat)

/-- row-major array → function on `Fin r × Fin c` -/
def mat (a : Array Rat) (off r c : Nat) : Matrix (Fin r) (Fin c) Rat :=
  fun i j => a.getD (off + i.val * c + j.val) 0

def vec (a : Array Rat) (off n : Nat) : Fin n → Rat := fun j => a.getD (off + j.val) 0

def flatMat {r c : Nat} (M : Matrix (Fin r) (Fin c) Rat) : List Rat :=
  (List.finRange r).flatMap fun i => (List.finRange c).map fun j => M i j

def flatVec {n : Nat} (v : Fin n → Rat) : List Rat := (List.finRange n).map v

/-- `(n+1)·m` row-major (row 0 = constant row) → `Matrix (Option (Fin n)) (Fin m)` -/
def optMat (a : Array Rat) (off n m : Nat) : Matrix (Option (Fin n)) (Fin m) Rat :=
  fun o i => match o with
    | none => a.getD (off + i.val) 0
    | some j => a.getD (off + (j.val + 1) * m + i.val) 0

def handleI (ts : List String) : String :=
  match ts with
  | "ieval" :: n :: m :: p :: rest =>
    match n.toNat?, m.toNat?, p.toNat?, rest.mapM parseRat with
    | some n, some m, some p, some xs =>
      let a := xs.toArray
      if a.size ≠ p * n + p * m + m + m * n then "bad-op size" else
      let Y := mat a 0 p n
      let F := mat a (p * n) p m
      let c := vec a (p * n + p * m) m
      let J := mat a (p * n + p * m + m) m n
      let E : Matrix (Fin p) (Fin m) Rat := fun t i => modelVal c J (Y t) i - F t i
      let N0 : Fin m → Rat := fun i => ∑ t, (modelVal c J (Y t) i - F t i)
      let N1 : Matrix (Fin n) (Fin m) Rat := fun j i => ∑ t, Y t j * (modelVal c J (Y t) i - F t i)
      "ok " ++ showRats (flatMat E ++ flatVec N0 ++ flatMat N1)
    | _, _, _, _ => "bad-op"
  | "ifit" :: n :: m :: p :: kopt :: δ :: rest =>
    match n.toNat?, m.toNat?, p.toNat?, kopt.toNat?, parseRat δ, rest.mapM parseRat with
    | some n, some m, some p, some kopt, some δ, some xs =>
      let a := xs.toArray
      if a.size ≠ p * n + (n + 1) * m then "bad-op size" else
      if h : kopt < p then
        let s : IModel Rat (Fin p) (Fin n) (Fin m) :=
          { xbase := fun _ => 0, Y := mat a 0 p n, F := fun _ _ => 0, kopt := ⟨kopt, h⟩, c := fun _ => 0, J := fun _ _ => 0 }
        let s' := s.fit δ (optMat a (p * n) n m)
        "ok " ++ showRats (flatVec s'.c ++ flatMat s'.J)
      else "bad-op kopt"
    | _, _, _, _, _, _ => "bad-op"
  | "ishift" :: n :: m :: p :: rest =>
    match n.toNat?, m.toNat?, p.toNat?, rest.mapM parseRat with
    | some n, some m, some p, some xs =>
      let a := xs.toArray
      if a.size ≠ n + p * n + m + m * n + n then "bad-op size" else
      if h : 0 < p then
        let s : IModel Rat (Fin p) (Fin n) (Fin m) :=
          { xbase := vec a 0 n, Y := mat a n p n, F := fun _ _ => 0, kopt := ⟨0, h⟩,
            c := vec a (n + p * n) m, J := mat a (n + p * n + m) m n }
        let s' := s.shiftBase (vec a (n + p * n + m + m * n) n)
        "ok " ++ showRats (flatVec s'.xbase ++ flatMat s'.Y ++ flatVec s'.c)
      else "bad-op p"
    | _, _, _, _ => "bad-op"
  | "ibuild" :: n :: m :: rest =>
    match n.toNat?, m.toNat?, rest.mapM parseRat with
    | some n, some m, some xs =>
      let a := xs.toArray
      if a.size ≠ n + m + m * n then "bad-op size" else
      let s : IModel Rat (Fin 1) (Fin n) (Fin m) :=
        { xbase := fun _ => 0, Y := fun _ => vec a 0 n, F := fun _ _ => 0, kopt := 0,
          c := vec a n m, J := mat a (n + m) m n }
      let gH := s.buildFullModel
      "ok " ++ showRats (flatVec gH.1 ++ flatMat gH.2)
    | _, _, _ => "bad-op"
  | "ilag" :: n :: p :: rest =>
    match n.toNat?, p.toNat?, rest.mapM parseRat with
    | some n, some p, some xs =>
      let a := xs.toArray
      if a.size ≠ n + (n + 1) * p + n then "bad-op size" else
      let xopt := vec a 0 n
      let dg := optMat a n n p
      let y := vec a (n + (n + 1) * p) n
      "ok " ++ showRats ((List.finRange p).map fun k => lagrangeVal dg xopt k y)
    | _, _, _ => "bad-op"
  | "iunscale" :: n :: m :: rest =>
    match n.toNat?, m.toNat?, rest.mapM parseRat with
    | some n, some m, some xs =>
      let a := xs.toArray
      if a.size ≠ n + m * n then "bad-op size" else
      "ok " ++ showRats (flatMat (unscaleJac (vec a 0 n) (mat a n m n)))
    | _, _, _ => "bad-op"
  | _ => "bad-op"

/-- `m…` lines: the C17 driver plus the ghost version counters. -/
def handleM (st : Option ModelDrv.St) (ts : List String) : Option ModelDrv.St × String :=
  let (st', out) := ModelDrv.handle st ts
  match st' with
  | some s => (st', out ++ s!" ver={s.version} fver={s.factVersion}")
  | none => (st', out)

end Dfols.InterpDrv
