/-
  Driver for the L0 kernels `InitDirs` and `RandDirs`, executable instance `α = Float`
  (IEEE binary64; floats cross the protocol as their 64 raw bits).

    cinit  n npt δ  x0[n] xl[n] xu[n] lt[n]                      → ok <npt points>|<swap flags>
    gscale n δ dirn[n] lower[n] upper[n]                          → ok <scale>
    rdirs  num n δ lower[n] upper[n] raws[num·n] nrms[num]        → ok <num directions>
    odirs  num n neg δ lower[n] upper[n] nin qred[nin·nin] nb raws[nb·n] nrms[nb]
                                                                  → ok <num directions>|<block tags>
-/
import DfolsVerif.Kernels.InitDirs
import DfolsVerif.Kernels.RandDirs
import DfolsVerif.Driver.Proto

namespace Dfols.InitDirsDrv
open Dfols.Proto

def vec (l : List Float) : Nat → Float := fun j => l.getD j 0.0

/-- row-major matrix with `cols` columns -/
def mat (l : List Float) (cols : Nat) : Nat → Nat → Float := fun r c => l.getD (r * cols + c) 0.0

def showPts (ps : List (List Float)) : String := ";".intercalate (ps.map showFloats)

def splitAt3 (n : Nat) (l : List Float) : List Float × List Float × List Float :=
  (l.take n, (l.drop n).take n, (l.drop (2 * n)).take n)

def handle (ts : List String) : String :=
  match ts with
  | "cinit" :: n :: npt :: rest =>
    match n.toNat?, npt.toNat? with
    | some n, some npt =>
      let fl := rest.take (1 + 3 * n)
      let bs := rest.drop (1 + 3 * n)
      match parseFloats fl, bs.mapM parseBool with
      | some (d :: xs), some lt =>
        if xs.length ≠ 3 * n ∨ lt.length ≠ n then "bad-op arity" else
        let (x0, xl, xu) := splitAt3 n xs
        let ltf : Nat → Bool := fun i => lt.getD i false
        let pts := InitDirs.evalPoints n npt d (vec x0) (vec xl) (vec xu) ltf
        let fl := InitDirs.swapFlags n d (vec x0) (vec xl) (vec xu) ltf
        "ok " ++ showPts pts ++ "|" ++ ",".intercalate (fl.map showBool)
      | _, _ => "bad-op parse"
    | _, _ => "bad-op"
  | "gscale" :: n :: rest =>
    match n.toNat?, parseFloats rest with
    | some n, some (d :: xs) =>
      if xs.length ≠ 3 * n then "bad-op arity" else
      let (dirn, lo, up) := splitAt3 n xs
      "ok " ++ showFloat (RandDirs.getScale n (vec dirn) d (vec lo) (vec up))
    | _, _ => "bad-op"
  | "rdirs" :: num :: n :: rest =>
    match num.toNat?, n.toNat?, parseFloats rest with
    | some num, some n, some (d :: xs) =>
      if xs.length ≠ 2 * n + num * n + num then "bad-op arity" else
      let lo := xs.take n
      let up := (xs.drop n).take n
      let raws := (xs.drop (2 * n)).take (num * n)
      let nrms := xs.drop (2 * n + num * n)
      "ok " ++ showPts (RandDirs.randDirs num n d (vec lo) (vec up) (mat raws n) (vec nrms))
    | _, _, _ => "bad-op"
  | "odirs" :: num :: n :: neg :: d :: rest =>
    match num.toNat?, n.toNat?, parseBool neg, parseFloatBits d with
    | some num, some n, some neg, some d =>
      match parseFloats (rest.take (2 * n)), (rest.drop (2 * n)) with
      | some lu, nin :: rest2 =>
        match nin.toNat? with
        | some nin =>
          match parseFloats (rest2.take (nin * nin)), rest2.drop (nin * nin) with
          | some q, nb :: rest3 =>
            match nb.toNat?, parseFloats rest3 with
            | some nb, some xs =>
              if xs.length ≠ nb * n + nb then "bad-op arity" else
              let lo := vec (lu.take n)
              let up := vec (lu.drop n)
              let raws := mat (xs.take (nb * n)) n
              let nrms := vec (xs.drop (nb * n))
              let nact := (RandDirs.activeIdx n lo up).length
              if n - nact ≠ nin then s!"bad-op ninactive model={n - nact} real={nin}" else
              let dirs := RandDirs.orthogDirs num n neg d lo up (mat q nin) raws nrms
              let tags := (List.range num).map (RandDirs.blockOf n nin neg)
              "ok " ++ showPts dirs ++ "|" ++ showNats tags
            | _, _ => "bad-op parse"
          | _, _ => "bad-op parse"
        | none => "bad-op"
      | _, _ => "bad-op parse"
    | _, _, _, _ => "bad-op"
  | _ => "bad-op"

end Dfols.InitDirsDrv
