/-
  Driver for the trust-region kernels (`Kernels/Trsbox.lean`, `Kernels/TrsboxLinear.lean`) on `Float`.

  Arithmetic variants (DESIGN 2.1, conditioning-aware comparator):
     L  reductions summed left to right,  x**2 = pow(x,2)
     R  reductions summed right to left,  x**2 = pow(x,2)
     N  left to right, every reduction with ≥ 2 non-zero terms nudged by -1/0/+1 ulp (hash of the
        value and the case seed),            x**2 = x*x

  Protocol (floats as decimal raw bits, see `Proto`):
     trsbox  V seed n xopt[n] g[n] H[n*n] sl[n] su[n] delta   -> ok d=.. g=.. crv=.. alt=b iterc=k nact=k
     trslin  V seed n g[n] a[n] b[n] Delta                    -> ok x=..
     trsgeom V seed n xbase[n] c g[n] lower[n] upper[n] Delta -> ok x=..
     dwb     n d[n] xopt[n] sl[n] su[n] xbdi[n]               -> ok d=..      (elementwise: bit-exact)
     trstep  hasH hasProj bad normRaises predKey                       -> ok solver=<name> zero=b   (decision logic of trust_region_step)
-/
import DfolsVerif.Kernels.Trsbox
import DfolsVerif.Kernels.TrStepRule
import DfolsVerif.Driver.Proto

namespace Dfols.TrsDrv
open Dfols.Proto Dfols.Trs

def mix (z : UInt64) : UInt64 :=
  let z := (z ^^^ (z >>> 30)) * 0xbf58476d1ce4e5b9
  let z := (z ^^^ (z >>> 27)) * 0x94d049bb133111eb
  z ^^^ (z >>> 31)

/-- move a finite non-zero double by -1 / 0 / +1 ulp in magnitude, pseudo-randomly -/
def nudge (seed : UInt64) (x : Float) : Float :=
  if x.isNaN || x.isInf || x == 0.0 then x else
  let b := x.toBits
  match (mix (b + seed * 0x9e3779b97f4a7c15)) % 3 with
  | 0 => x
  | 1 => Float.ofBits (b + 1)
  | _ => Float.ofBits (b - 1)

def redL (l : List Float) : Float := l.foldl (· + ·) 0.0
def redR (l : List Float) : Float := l.foldr (· + ·) 0.0
def redN (seed : UInt64) (l : List Float) : Float :=
  let r := redL l
  if (l.filter (· != 0.0)).length ≥ 2 then nudge seed r else r

def arith (v : String) (seed : UInt64) : Arith :=
  if v = "R" then { red := redR, sq := fun x => Float.pow x 2.0 }
  else if v = "N" then { red := redN seed, sq := fun x => x * x }
  else Arith.ltr

def numOf (A : Arith) : TrsLin.Num Float :=
  { sum := fun n f => A.red ((List.range n).map f), sqrt := Float.sqrt, sq := A.sq, zt := 1.0e-14 }

def showFV (v : FV) : String := showFloats v.toList

def fnOf (v : FV) : Nat → Float := fun i => v.getD i 0.0

/-- split off `k` floats -/
def takeF (k : Nat) (ts : List String) : Option (FV × List String) :=
  if ts.length < k then none else
  match parseFloats (ts.take k) with
  | some l => some (l.toArray, ts.drop k)
  | none => none

def handle (ts : List String) : String :=
  match ts with
  | "trsbox" :: v :: seed :: n :: rest =>
    match seed.toNat?, n.toNat? with
    | some seed, some n =>
      let r := do
        let (xopt, rest) ← takeF n rest
        let (g, rest) ← takeF n rest
        let (H, rest) ← takeF (n * n) rest
        let (sl, rest) ← takeF n rest
        let (su, rest) ← takeF n rest
        let (dl, rest) ← takeF 1 rest
        if rest ≠ [] then none else
        some (trsbox (arith v seed.toUInt64) n xopt g H sl su (dl.getD 0 0.0))
      match r with
      | some r => s!"ok d={showFV r.d} g={showFV r.gnew} crv={showFloat r.crvmin} alt={showBool r.alt} iterc={r.iterc} nact={r.nact}"
      | none => "bad-op"
    | _, _ => "bad-op"
  | "trslin" :: v :: seed :: n :: rest =>
    match seed.toNat?, n.toNat? with
    | some seed, some n =>
      let r := do
        let (g, rest) ← takeF n rest
        let (a, rest) ← takeF n rest
        let (b, rest) ← takeF n rest
        let (dl, rest) ← takeF 1 rest
        if rest ≠ [] then none else
        let x := TrsLin.trsboxLinear (numOf (arith v seed.toUInt64)) n (fnOf g) (fnOf a) (fnOf b) (dl.getD 0 0.0)
        some x
      match r with
      | some x => s!"ok x={showFV x}"
      | none => "bad-op"
    | _, _ => "bad-op"
  | "trsgeom" :: v :: seed :: n :: rest =>
    match seed.toNat?, n.toNat? with
    | some seed, some n =>
      let r := do
        let (xbase, rest) ← takeF n rest
        let (c, rest) ← takeF 1 rest
        let (g, rest) ← takeF n rest
        let (lo, rest) ← takeF n rest
        let (up, rest) ← takeF n rest
        let (dl, rest) ← takeF 1 rest
        if rest ≠ [] then none else
        let x := TrsLin.trsboxGeometry (numOf (arith v seed.toUInt64)) n (fnOf xbase) (c.getD 0 0.0) (fnOf g) (fnOf lo) (fnOf up) (dl.getD 0 0.0)
        some x
      match r with
      | some x => s!"ok x={showFV x}"
      | none => "bad-op"
    | _, _ => "bad-op"
  | "dwb" :: n :: rest =>
    match n.toNat? with
    | some n =>
      let r := do
        let (d, rest) ← takeF n rest
        let (xopt, rest) ← takeF n rest
        let (sl, rest) ← takeF n rest
        let (su, rest) ← takeF n rest
        if rest.length ≠ n then none else
        let xb ← rest.mapM String.toInt?
        some (finish n d xopt sl su xb.toArray)
      match r with
      | some d => s!"ok d={showFV d}"
      | none => "bad-op"
    | none => "bad-op"
  | ["trstep", hasH, hasProj, bad, nr, pr] =>
    match parseBool hasH, parseBool hasProj, parseBool bad, parseBool nr, parseVal pr with
    | some hasH, some hasProj, some bad, some nr, some pr =>
      let sv := TrStep.pickSolver hasH hasProj bad nr
      let z := TrStep.returnedStep hasH pr false true     -- `true` marks "replaced by the zero step"
      s!"ok solver={sv.name} zero={showBool z}"
    | _, _, _, _, _ => "bad-op"
  | _ => "bad-op"

end Dfols.TrsDrv
