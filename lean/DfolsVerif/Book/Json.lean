/-
  L1 bookkeeping model of the JSON mapping of `OptimResults` (property C20; Mathlib-free).

    dfols/solver.py:107-126   OptimResults.to_dict        ↦ `toDictRaw`, `toDict`
    dfols/util.py:274-283     replace_nan_with_none       ↦ `replaceNan`
    json.dumps ∘ json.loads   (transport, trusted)        ↦ `dumpsLoads` (`strKeys`, `isStrict`)
    dfols/solver.py:128-149   OptimResults.from_dict      ↦ `fromDict` (repaired), `fromDictOld` (pinned)
    dfols/solver.py:74-105    OptimResults.__str__        ↦ `strLines`

  What is modelled is the *data mapping*: which Python value sits where, what becomes `None`, what
  `None` becomes on the way back, which keys change type in JSON, and which lines `__str__` prints.
  Not modelled (trusted, see MANIFEST / evidence): `ndarray.tolist()`, `float()`, `int()`, `str()` on
  single values, the text form of a JSON document (`repr` of a finite double reads back as the same
  double; strings survive escaping), pandas' `DataFrame.to_dict()` / `DataFrame.from_dict` beyond
  "column → {row label → cell}", NumPy array printing and `%`-formatting of single values.
-/
namespace Dfols

/-- A Python `float` as JSON sees it. All NaNs are one value (`≈` of the property identifies NaN
    with NaN); a finite double is named by its 64 raw bits. -/
inductive Fl where
  | nan
  | inf (neg : Bool)
  | fin (bits : Nat)
deriving DecidableEq, Repr, Inhabited

namespace Fl
def isNaN : Fl → Bool
  | nan => true
  | _ => false

def isInf : Fl → Bool
  | inf _ => true
  | _ => false

/-- what `json.dumps(allow_nan=False)` accepts -/
def isFinite : Fl → Bool
  | fin _ => true
  | _ => false
end Fl

/-- A Python dict key: `str`, or `int` (the row labels of `DataFrame.to_dict()`). -/
inductive Key where
  | i (n : Int)
  | s (str : String)
deriving DecidableEq, Repr, Inhabited

/-- `json.dumps` writes an `int` key as its decimal text; `json.loads` returns it as `str`. -/
def Key.toStr : Key → String
  | .i n => toString n
  | .s str => str

/-- Plain Python data (what `to_dict()` must return): `None`, `bool`, `int`, `float`, `str`, `list`, `dict`. -/
inductive Json where
  | null
  | bool (b : Bool)
  | int (i : Int)
  | num (x : Fl)
  | str (s : String)
  | arr (xs : List Json)
  | obj (kvs : List (Key × Json))
deriving Repr, Inhabited

namespace Json

/-! ### `replace_nan_with_none` (util.py:274-283): recursive over dicts and lists -/
mutual
def replaceNan : Json → Json
  | .num .nan => .null                      -- isinstance(d, float) and math.isnan(d)
  | .arr xs => .arr (replaceNanL xs)        -- list
  | .obj kvs => .obj (replaceNanF kvs)      -- dict: keys kept, values mapped
  | j => j
def replaceNanL : List Json → List Json
  | [] => []
  | x :: xs => replaceNan x :: replaceNanL xs
def replaceNanF : List (Key × Json) → List (Key × Json)
  | [] => []
  | (k, v) :: r => (k, replaceNan v) :: replaceNanF r
end

/-! ### does a value contain a NaN / only finite floats (strict JSON)? -/
mutual
def hasNaN : Json → Bool
  | .num x => x.isNaN
  | .arr xs => hasNaNL xs
  | .obj kvs => hasNaNF kvs
  | _ => false
def hasNaNL : List Json → Bool
  | [] => false
  | x :: xs => hasNaN x || hasNaNL xs
def hasNaNF : List (Key × Json) → Bool
  | [] => false
  | (_, v) :: r => hasNaN v || hasNaNF r
end

mutual
/-- `json.dumps(j, allow_nan=False)` succeeds: every float is finite (neither NaN nor ±inf). -/
def isStrict : Json → Bool
  | .num x => x.isFinite
  | .arr xs => isStrictL xs
  | .obj kvs => isStrictF kvs
  | _ => true
def isStrictL : List Json → Bool
  | [] => true
  | x :: xs => isStrict x && isStrictL xs
def isStrictF : List (Key × Json) → Bool
  | [] => true
  | (_, v) :: r => isStrict v && isStrictF r
end

/-! ### the JSON transport `json.loads(json.dumps(·))`: identity on values, keys become strings.
    (Two keys that collide after `str()` — `1` and `"1"` — would merge in Python; `to_dict` never
    produces such a dict and the harness never generates one.) -/
mutual
def strKeys : Json → Json
  | .arr xs => .arr (strKeysL xs)
  | .obj kvs => .obj (strKeysF kvs)
  | j => j
def strKeysL : List Json → List Json
  | [] => []
  | x :: xs => strKeys x :: strKeysL xs
def strKeysF : List (Key × Json) → List (Key × Json)
  | [] => []
  | (k, v) :: r => (.s k.toStr, strKeys v) :: strKeysF r
end

/-- `json.loads(json.dumps(j, allow_nan=allowNan))`; `none` = `ValueError: Out of range float values
    are not JSON compliant`. With `allowNan` Python writes the non-standard tokens `NaN`, `Infinity`,
    `-Infinity` and reads them back. -/
def dumpsLoads (allowNan : Bool) (j : Json) : Option Json :=
  if allowNan || isStrict j then some (strKeys j) else none

/-- first value stored under `key` -/
def lookup (key : String) : List (Key × Json) → Option Json
  | [] => none
  | (k, v) :: r => if k = Key.s key then some v else lookup key r

/-- `d[key]` on a dict (`none` = `KeyError` / not a dict) -/
def field (key : String) : Json → Option Json
  | .obj kvs => lookup key kvs
  | _ => none

end Json

/-! ### the result record -/

/-- A cell of the diagnostic table: missing (`None` in an object column), integer, float (NaN is
    pandas' missing value in float and str columns), or string. -/
inductive Cell where
  | na
  | int (i : Int)
  | num (x : Fl)
  | str (s : String)
deriving DecidableEq, Repr, Inhabited

/-- pandas' `isna`: `None` and NaN are the same missing value. -/
def Cell.norm : Cell → Cell
  | .num .nan => .na
  | c => c

def Cell.isFiniteOrMissing : Cell → Bool
  | .num x => !x.isInf
  | _ => true

/-- one column: row label ↦ cell, in row order -/
abbrev Column := List (Key × Cell)
/-- the diagnostic table as `DataFrame.to_dict()` presents it: column name ↦ column, in column order -/
abbrev Table := List (String × Column)

/-- `OptimResults` carrying a solution (any exit other than an input error); `O` is the type of
    the `obj` slot: `Fl` normally, `Option Fl` for objects built by the pinned `from_dict`, which
    can leave `None` there. -/
structure ResultRecG (O : Type) where
  x : List Fl
  resid : List Fl
  obj : O
  jacobian : Option (List (List Fl))          -- None on early termination
  nf : Int
  nx : Int
  nruns : Int
  flag : Int
  msg : String
  xminEvalNum : Int
  jacminEvalNums : Option (List Int)
  diag : Option Table
deriving DecidableEq, Repr

abbrev ResultRec := ResultRecG Fl

/-! ### to_dict (solver.py:107-126) -/
namespace ToDict
def vecJ (v : List Fl) : Json := .arr (v.map .num)                       -- ndarray.tolist(), 1-D
def matJ (m : List (List Fl)) : Json := .arr (m.map vecJ)                -- ndarray.tolist(), 2-D
def intsJ (l : List Int) : Json := .arr (l.map .int)
def optJ {α : Type} (f : α → Json) : Option α → Json                     -- `… if … is not None else None`
  | none => .null
  | some a => f a
def cellJ : Cell → Json
  | .na => .null
  | .int i => .int i
  | .num x => .num x
  | .str s => .str s
def colJ (c : Column) : Json := .obj (c.map fun kc => (kc.1, cellJ kc.2))
def tableJ (t : Table) : Json := .obj (t.map fun nc => (Key.s nc.1, colJ nc.2))   -- DataFrame.to_dict()
end ToDict
open ToDict

/-- solver.py:110-122, same key order -/
def toDictRaw (r : ResultRec) : Json :=
  .obj [ (.s "x", vecJ r.x),
         (.s "resid", vecJ r.resid),
         (.s "obj", .num r.obj),
         (.s "jacobian", optJ matJ r.jacobian),
         (.s "nf", .int r.nf),
         (.s "nx", .int r.nx),
         (.s "nruns", .int r.nruns),
         (.s "flag", .int r.flag),
         (.s "msg", .str r.msg),
         (.s "diagnostic_info", optJ tableJ r.diag),
         (.s "xmin_eval_num", .int r.xminEvalNum),
         (.s "jacmin_eval_nums", optJ intsJ r.jacminEvalNums) ]

/-- solver.py:123-126 -/
def toDict (replaceNan : Bool) (r : ResultRec) : Json :=
  if replaceNan then (toDictRaw r).replaceNan else toDictRaw r

/-! ### from_dict (solver.py:128-149) -/
namespace FromDict

/-- all elements must convert (`np.array(list, dtype=…)` raises otherwise) -/
def allSome {α β : Type} (f : α → Option β) : List α → Option (List β)
  | [] => some []
  | a :: as =>
    match f a, allSome f as with
    | some b, some bs => some (b :: bs)
    | _, _ => none

/-- one element of `np.array(list, dtype=float)`: `None ↦ NaN` (solver.py:132), a float is itself.
    (`to_dict` never puts anything else there; other shapes are outside the model: `none`.) -/
def getFl : Json → Option Fl
  | .null => some .nan
  | .num x => some x
  | _ => none
def getVec : Json → Option (List Fl)
  | .arr xs => allSome getFl xs
  | _ => none
def getMat : Json → Option (List (List Fl))
  | .arr xs => allSome getVec xs
  | _ => none
def getInt : Json → Option Int
  | .int i => some i
  | _ => none
def getInts : Json → Option (List Int)                -- np.array(list, dtype=int)
  | .arr xs => allSome getInt xs
  | _ => none
def getStr : Json → Option String
  | .str s => some s
  | _ => none
/-- `… if soln_dict[k] is not None else None` -/
def getOpt {α : Type} (f : Json → Option α) : Json → Option (Option α)
  | .null => some none
  | j => (f j).map some
/-- a table cell as pandas rebuilds it; `None`/NaN are one missing value -/
def getCell : Json → Option Cell
  | .null => some .na
  | .int i => some (.int i)
  | .num .nan => some .na
  | .num x => some (.num x)
  | .str s => some (.str s)
  | _ => none
def getCol : Json → Option Column
  | .obj kvs => allSome (fun kv => (getCell kv.2).map fun c => (kv.1, c)) kvs
  | _ => none
/-- `pd.DataFrame.from_dict(dict of dicts)`: columns in key order, rows in key order of the columns -/
def getTable : Json → Option Table
  | .obj kvs => allSome (fun kv => (getCol kv.2).map fun c => (kv.1.toStr, c)) kvs
  | _ => none

/-- **repaired** `obj`: `None ↦ NaN`, like every other float field -/
def getObj : Json → Option Fl := getFl
/-- **pinned** `obj = soln_dict['obj']` (solver.py:133): whatever is there, `None` included -/
def getObjOld : Json → Option (Option Fl)
  | .null => some none
  | .num x => some (some x)
  | _ => none

end FromDict
open FromDict

/-- from_dict, parametrised by the treatment of `obj` -/
def fromDictG {O : Type} (getO : Json → Option O) (j : Json) : Option (ResultRecG O) :=
  match j.field "x", j.field "resid", j.field "obj", j.field "jacobian", j.field "nf", j.field "nx",
        j.field "nruns", j.field "flag", j.field "msg", j.field "diagnostic_info",
        j.field "xmin_eval_num", j.field "jacmin_eval_nums" with
  | some jx, some jr, some jo, some jj, some jnf, some jnx, some jnr, some jfl, some jm, some jd, some jxe, some jje =>
    match getVec jx, getVec jr, getO jo, getOpt getMat jj, getInt jnf, getInt jnx, getInt jnr, getInt jfl,
          getStr jm, getOpt getTable jd, getInt jxe, getOpt getInts jje with
    | some x, some resid, some obj, some jac, some nf, some nx, some nruns, some flag, some msg, some diag,
      some xe, some je =>
      some { x := x, resid := resid, obj := obj, jacobian := jac, nf := nf, nx := nx, nruns := nruns,
             flag := flag, msg := msg, xminEvalNum := xe, jacminEvalNums := je, diag := diag }
    | _, _, _, _, _, _, _, _, _, _, _, _ => none
  | _, _, _, _, _, _, _, _, _, _, _, _ => none

/-- `OptimResults.from_dict` with the repair `obj None ↦ NaN` -/
def fromDict (j : Json) : Option ResultRec := fromDictG getObj j
/-- `OptimResults.from_dict` of the pinned tree: `obj` taken as is -/
def fromDictOld (j : Json) : Option (ResultRecG (Option Fl)) := fromDictG getObjOld j

/-! ### what a reloaded record is expected to be -/

def Column.norm (c : Column) : Column := c.map fun kc => (Key.s kc.1.toStr, kc.2.norm)
def Table.norm (t : Table) : Table := t.map fun nc => (nc.1, Column.norm nc.2)

/-- the reloaded image of `r`: everything identical except, in the diagnostic table, row labels
    are their `str()` and `None`/NaN cells are the one missing value. -/
def ResultRecG.norm {O : Type} (r : ResultRecG O) : ResultRecG O := { r with diag := r.diag.map Table.norm }

/-- diagnostic tables agree: same columns in the same order, same rows in the same order (labels
    compared after `str()`), equal cells (`None` ≈ NaN). -/
def Table.Equiv (a b : Table) : Prop := Table.norm a = Table.norm b

def diagEquiv : Option Table → Option Table → Prop
  | none, none => True
  | some a, some b => Table.Equiv a b
  | _, _ => False

/-- `p` holds of the payload, vacuously for `None` -/
def optAll {α : Type} (p : α → Bool) : Option α → Bool
  | none => true
  | some a => p a

def matNoInf (m : List (List Fl)) : Bool := m.all fun row => row.all fun v => !v.isInf
def tableNoInf (t : Table) : Bool := t.all fun nc => nc.2.all fun kc => kc.2.isFiniteOrMissing

/-- none of the record's floats is ±inf (NaN is allowed: it is replaced by `None`) -/
def ResultRecG.noInf (r : ResultRec) : Bool :=
  r.x.all (fun v => !v.isInf) && (r.resid.all (fun v => !v.isInf) && (!r.obj.isInf &&
    (optAll matNoInf r.jacobian && optAll tableNoInf r.diag)))

/-! ### `__str__` (solver.py:74-105): which lines are printed, with which field in them -/

inductive Line where
  | header
  | xmin (v : List Fl)
  | resid (v : List Fl)
  | residTooLong
  | objective (o : Fl)
  | evals (nf nx : Int)
  | runs (n : Int)
  | jac (m : List (List Fl))
  | jacNone
  | jacTooLong
  | diagAvailable
  | xminEval (n : Int)
  | evalNums (l : List Int)
  | evalNumsNone
  | evalNumsTooLong
  | flag (n : Int)
  | msg (s : String)
  | footer
deriving DecidableEq, Repr

def Line.tag : Line → String
  | .header => "header" | .xmin _ => "xmin" | .resid _ => "resid" | .residTooLong => "resid-long"
  | .objective _ => "obj" | .evals _ _ => "evals" | .runs _ => "runs" | .jac _ => "jac"
  | .jacNone => "jac-none" | .jacTooLong => "jac-long" | .diagAvailable => "diag"
  | .xminEval _ => "xmin-eval" | .evalNums _ => "evalnums" | .evalNumsNone => "evalnums-none"
  | .evalNumsTooLong => "evalnums-long" | .flag _ => "flag" | .msg _ => "msg" | .footer => "footer"

/-- `np.size` of a 2-D array given as rows -/
def matSize (m : List (List Fl)) : Nat := (m.map List.length).sum

/-- the lines of `str(soln)` for a result with a solution (`flag != EXIT_INPUT_ERROR` branch; for
    `flag = -1` the code prints only header, flag, message, footer — see `strLinesInputError`). -/
def strLinesBody (r : ResultRec) : List Line :=
  [ .xmin r.x ] ++
  (if r.resid.length < 100 then [ .resid r.resid ] else [ .residTooLong ]) ++
  [ .objective r.obj, .evals r.nf r.nx ] ++
  (if r.nruns > 1 then [ .runs r.nruns ] else []) ++
  (match r.jacobian with
   | some m => if matSize m < 200 then [ .jac m ] else [ .jacTooLong ]
   | none => [ .jacNone ]) ++
  (if r.diag.isSome then [ .diagAvailable ] else []) ++
  [ .xminEval r.xminEvalNum ] ++
  (match r.jacminEvalNums with
   | some l => if l.length < 100 then [ .evalNums l ] else [ .evalNumsTooLong ]
   | none => [ .evalNumsNone ])

def strLines (r : ResultRec) : List Line :=
  [ .header ] ++ (if r.flag != -1 then strLinesBody r else []) ++ [ .flag r.flag, .msg r.msg, .footer ]

/-- printing an object whose `obj` slot may hold `None`: `"%.10g" % None` raises `TypeError`
    (`none`) whenever that line is reached. -/
def strLinesOld (r : ResultRecG (Option Fl)) : Option (List Line) :=
  match r.obj with
  | some o => some (strLines { r with obj := o })
  | none => if r.flag != -1 then none else some [ .header, .flag r.flag, .msg r.msg, .footer ]

end Dfols
