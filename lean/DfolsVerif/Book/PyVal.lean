/-
  Python values as `solve`'s input validation sees them (L1, Mathlib-free).

  * `F`     — a Python `float`, modelled **exactly**: every finite IEEE-754 binary64 number is an
              integer multiple of 2^-1074, so a finite float is `fin k` meaning `k · 2^-1074`
              (`1.0 = fin (2^1074)`), plus `nan`, `ninf`, `pinf`.  Comparisons are IEEE/Python
              comparisons (`false` whenever a NaN takes part).  Python compares an `int` with a
              `float` exactly (no conversion), which is what `F.ofInt` + `F.le` do.
  * `PyVal` — `None | bool | int | float | str | anything else`; wrong types are first-class.
  * `pyLe`, `pyLt`, `pyInt`, `truthy` — `a <= b`, `a < b`, `int(a)`, `bool(a)` with the exceptions
              CPython raises (`TypeError` for unordered types, `ValueError` for `int(nan)` and
              `int("abc")`, `OverflowError` for `int(inf)`).
  * the entry types of the generated tables (`DfolsVerif/Gen/ParamTable.lean`): `TypeTag`,
    `Bound`, `TypeEntry`, `IExpr`, `Cond`, `DExpr`, and their evaluators.
-/
namespace Dfols.Py

/-! ### floats -/

inductive F where
  | nan
  | ninf
  | fin (k : Int)
  | pinf
deriving DecidableEq, Repr, Inhabited

namespace F

/-- `1.0` in units of 2^-1074 -/
def unit : Int := 2 ^ 1074

/-- exact embedding of a Python `int` (used for mixed comparisons, which CPython does exactly) -/
def ofInt (i : Int) : F := fin (i * unit)

/-- decode the 64 raw bits of a binary64 -/
def ofBits (b : Nat) : F :=
  let neg := (b >>> 63) % 2 == 1
  let ex := (b >>> 52) % 2048
  let fr := b % 2 ^ 52
  if ex = 2047 then
    (if fr = 0 then (if neg then ninf else pinf) else nan)
  else
    let mag : Nat := if ex = 0 then fr else (2 ^ 52 + fr) * 2 ^ (ex - 1)
    fin (if neg then -(mag : Int) else (mag : Int))

/-- Python/IEEE `a <= b` -/
def le : F → F → Bool
  | nan, _ => false
  | ninf, nan => false
  | ninf, _ => true
  | fin _, nan => false
  | fin _, ninf => false
  | fin a, fin b => decide (a ≤ b)
  | fin _, pinf => true
  | pinf, pinf => true
  | pinf, _ => false

/-- Python/IEEE `a < b` -/
def lt : F → F → Bool
  | nan, _ => false
  | ninf, nan => false
  | ninf, ninf => false
  | ninf, _ => true
  | fin _, nan => false
  | fin _, ninf => false
  | fin a, fin b => decide (a < b)
  | fin _, pinf => true
  | pinf, _ => false

/-- `2.0 * x` (exact in binary64 apart from overflow, which goes to the infinity of the same sign) -/
def dbl : F → F
  | nan => nan
  | ninf => ninf
  | pinf => pinf
  | fin k =>
    if 2 * k ≥ 2 ^ 1024 * unit then pinf
    else if 2 * k ≤ -(2 ^ 1024 * unit) then ninf
    else fin (2 * k)

/-- `x + d` for a Python int `d` (the only arithmetic the parameter table does: `npt - 1`);
    exact here, correctly rounded in CPython — they agree for |x| < 2^53. -/
def addInt : F → Int → F
  | fin k, d => fin (k + d * unit)
  | x, _ => x

def isNaN : F → Bool
  | nan => true
  | _ => false

def isZero : F → Bool
  | fin k => k == 0
  | _ => false

theorem unit_pos : 0 < unit := by decide +kernel

theorem ofInt_le (a b : Int) : le (ofInt a) (ofInt b) = decide (a ≤ b) := by
  have h := unit_pos
  simp only [ofInt, le]
  by_cases hab : a ≤ b
  · have : a * unit ≤ b * unit := Int.mul_le_mul_of_nonneg_right hab (Int.le_of_lt h)
    simp [hab, this]
  · have : ¬ a * unit ≤ b * unit := by
      intro hc
      exact hab (Int.le_of_mul_le_mul_right hc h)
    simp [hab, this]

theorem ofInt_lt (a b : Int) : lt (ofInt a) (ofInt b) = decide (a < b) := by
  have h := unit_pos
  simp only [ofInt, lt]
  by_cases hab : a < b
  · have : a * unit < b * unit := Int.mul_lt_mul_of_pos_right hab h
    simp [hab, this]
  · have : ¬ a * unit < b * unit := by
      intro hc
      exact hab (Int.lt_of_mul_lt_mul_right hc (Int.le_of_lt h))
    simp [hab, this]

theorem addInt_ofInt (a d : Int) : addInt (ofInt a) d = ofInt (a + d) := by
  simp [addInt, ofInt, Int.add_mul]

end F

/-! ### Python values -/

inductive PyVal where
  | none
  | bool (b : Bool)
  | int (i : Int)
  | float (x : F)
  | str
  | other
deriving DecidableEq, Repr, Inhabited

/-- the exception classes that can leave `solve` during input validation -/
inductive Exc where
  | valueError
  | typeError
  | overflowError
  | assertionError
deriving DecidableEq, Repr, Inhabited

def Exc.name : Exc → String
  | .valueError => "ValueError"
  | .typeError => "TypeError"
  | .overflowError => "OverflowError"
  | .assertionError => "AssertionError"

namespace PyVal

def boolInt (b : Bool) : Int := if b then 1 else 0

/-- numeric view (`bool` is a subclass of `int`) -/
def num? : PyVal → Option F
  | bool b => some (F.ofInt (boolInt b))
  | int i => some (F.ofInt i)
  | float x => some x
  | _ => Option.none

def isNone : PyVal → Bool
  | none => true
  | _ => false

/-- `bool(v)` -/
def truthy : PyVal → Bool
  | none => false
  | bool b => b
  | int i => i != 0
  | float x => !x.isZero
  | str => true      -- generators only use non-empty strings
  | other => true

end PyVal

open PyVal in
/-- `a <= b` -/
def pyLe (a b : PyVal) : Except Exc Bool :=
  match a.num?, b.num? with
  | some x, some y => .ok (F.le x y)
  | _, _ => .error .typeError

open PyVal in
/-- `a < b` -/
def pyLt (a b : PyVal) : Except Exc Bool :=
  match a.num?, b.num? with
  | some x, some y => .ok (F.lt x y)
  | _, _ => .error .typeError

/-- `int(a)` (truncation towards zero for floats; strings here are never numerals) -/
def pyInt : PyVal → Except Exc Int
  | .none => .error .typeError
  | .bool b => .ok (PyVal.boolInt b)
  | .int i => .ok i
  | .float (.fin k) => .ok (k.tdiv F.unit)
  | .float .nan => .error .valueError
  | .float _ => .error .overflowError
  | .str => .error .valueError
  | .other => .error .typeError

/-! ### entry types of the generated parameter table -/

inductive TypeTag where
  | int | float | bool | str
deriving DecidableEq, Repr, Inhabited

/-- a bound of `param_type`: `None`, an int literal, a float literal (raw bits), or `npt + d` -/
inductive Bound where
  | none
  | int (i : Int)
  | flt (bits : Nat)
  | nptPlus (d : Int)
deriving DecidableEq, Repr, Inhabited

structure TypeEntry where
  ty : TypeTag
  noneOk : Bool
  lower : Bound
  upper : Bound
deriving DecidableEq, Repr, Inhabited

/-- the size parameters `ParameterList.__init__` receives -/
structure Sizes where
  n : Int
  npt : Int
  maxfun : Int
  noise : Bool
deriving DecidableEq, Repr, Inhabited

/-- integer expressions over the sizes (`20 * n`, `npt - 1`, `(n+1)*(n+2)//2`, …) -/
inductive IExpr where
  | lit (i : Int)
  | n | npt | maxfun
  | add (a b : IExpr)
  | sub (a b : IExpr)
  | mul (a b : IExpr)
  | fdiv (a b : IExpr)
deriving DecidableEq, Repr, Inhabited

/-- conditions of the conditional defaults -/
inductive Cond where
  | noise
  | gt (a b : IExpr)
  | ge (a b : IExpr)
  | lt (a b : IExpr)
  | le (a b : IExpr)
deriving DecidableEq, Repr, Inhabited

/-- default-value expressions of `ParameterList.__init__` -/
inductive DExpr where
  | none
  | bool (b : Bool)
  | int (e : IExpr)
  | flt (bits : Nat)
  | ite (c : Cond) (t e : DExpr)
deriving DecidableEq, Repr, Inhabited

def IExpr.eval (s : Sizes) : IExpr → Int
  | .lit i => i
  | .n => s.n
  | .npt => s.npt
  | .maxfun => s.maxfun
  | .add a b => a.eval s + b.eval s
  | .sub a b => a.eval s - b.eval s
  | .mul a b => a.eval s * b.eval s
  | .fdiv a b => a.eval s / b.eval s      -- Python `//` is floor division; `Int./` is `Int.div` (floor for positive divisors, the only ones used)

def Cond.eval (s : Sizes) : Cond → Bool
  | .noise => s.noise
  | .gt a b => decide (a.eval s > b.eval s)
  | .ge a b => decide (a.eval s ≥ b.eval s)
  | .lt a b => decide (a.eval s < b.eval s)
  | .le a b => decide (a.eval s ≤ b.eval s)

def DExpr.eval (s : Sizes) : DExpr → PyVal
  | .none => .none
  | .bool b => .bool b
  | .int e => .int (e.eval s)
  | .flt bits => .float (F.ofBits bits)
  | .ite c t e => if c.eval s then t.eval s else e.eval s

/-- value of a bound given the `npt` handed to `check_all_params` (solve's raw local, any number) -/
def Bound.eval (npt : F) : Bound → Option F
  | .none => Option.none
  | .int i => some (F.ofInt i)
  | .flt bits => some (F.ofBits bits)
  | .nptPlus d => some (F.addInt npt d)

/-! ### `check_integer`, `check_float`, `check_bool`, `check_str` (params.py:312-343) -/

/-- `(lower is None or val >= lower) and (upper is None or val <= upper)` -/
def inRange (x : F) (lo hi : Option F) : Bool :=
  (match lo with | Option.none => true | some l => F.le l x) &&
  (match hi with | Option.none => true | some h => F.le x h)

/-- `isinstance(True, int)` holds, so a `bool` passes; a `float` never does. -/
def checkInteger (v : PyVal) (lo hi : Option F) (noneOk : Bool) : Bool :=
  match v with
  | .none => noneOk
  | .bool b => inRange (F.ofInt (PyVal.boolInt b)) lo hi
  | .int i => inRange (F.ofInt i) lo hi
  | _ => false

/-- `isinstance(3, float)` is false, so an `int` fails; NaN fails every range test. -/
def checkFloat (v : PyVal) (lo hi : Option F) (noneOk : Bool) : Bool :=
  match v with
  | .none => noneOk
  | .float x => inRange x lo hi
  | _ => false

def checkBool (v : PyVal) (noneOk : Bool) : Bool :=
  match v with
  | .none => noneOk
  | .bool _ => true
  | _ => false

/-- (no key has type `str`; for a non-string the real code would hit the Python-2 name `unicode`) -/
def checkStr (v : PyVal) (noneOk : Bool) : Bool :=
  match v with
  | .none => noneOk
  | .str => true
  | _ => false

/-- `check_param` once the key's entry is known (params.py:291-302) -/
def checkEntry (te : TypeEntry) (v : PyVal) (npt : F) : Bool :=
  match te.ty with
  | .int => checkInteger v (te.lower.eval npt) (te.upper.eval npt) te.noneOk
  | .float => checkFloat v (te.lower.eval npt) (te.upper.eval npt) te.noneOk
  | .bool => checkBool v te.noneOk
  | .str => checkStr v te.noneOk

end Dfols.Py
