/-
  Exit codes, messages, restartability and the result container's constructor as *data*
  (L1, Mathlib-free).  The generated instance is `Dfols.Gen.exitTable`
  (`DfolsVerif/Gen/ExitCodes.lean`, rewritten from /repo's AST on every run); the committed
  reference describing the repaired code is `Dfols.Spec.exitTable`.

  controller.py:48-57   EXIT_* constants            -> `constants`
  controller.py:42-44   `__all__`                   -> `controllerAll`  (what `from .controller import *` brings into solver.py)
  controller.py:68-90   `ExitInformation.message`   -> `stems`, `unknownStem`
  controller.py:92-99   `able_to_do_restart`        -> `restartYes`, `restartNo`
  solver.py:52-72       `OptimResults.__init__`     -> `resultArityMin/Max`, `resultAttrs`
  solver.py (solve)     `OptimResults(...)` calls   -> `resultCallArities` (source order; the first is the input-error one)
  solver.py (solve)     `ExitInformation(...)`      -> `solveExitMessages` (source order)
  docs/userguide.rst    `soln.EXIT_*`               -> `userGuideExits`
-/
namespace Dfols.Py

structure ExitTable where
  constants : List (String × Int)
  controllerAll : List String
  stems : List (String × String)
  unknownStem : String
  restartYes : List String
  restartNo : List String
  resultArityMin : Nat
  resultArityMax : Nat
  resultAttrs : List (String × String)
  resultCallArities : List Nat
  solveExitMessages : List (String × String)
  userGuideExits : List String
deriving DecidableEq, Repr, Inhabited

namespace ExitTable

def flagOf? (E : ExitTable) (name : String) : Option Int := E.constants.lookup name

/-- `ExitInformation.message(with_stem=True)`: the first `elif self.flag == EXIT_X` that matches. -/
def stemOf (E : ExitTable) (flag : Int) : String :=
  match E.stems.find? (fun p => E.flagOf? p.1 == some flag) with
  | some p => p.2
  | none => E.unknownStem

def message (E : ExitTable) (flag : Int) (details : String) : String := E.stemOf flag ++ details

/-- `able_to_do_restart`; `none` = the third branch, which looks at the message text. -/
def ableToRestart? (E : ExitTable) (flag : Int) : Option Bool :=
  if E.restartYes.any (fun nm => E.flagOf? nm == some flag) then some true
  else if E.restartNo.any (fun nm => E.flagOf? nm == some flag) then some false
  else none

/-- `soln.NAME` works: `OptimResults.__init__` assigns the attribute from a global that
    `from .controller import *` really provides (in `__all__` and defined). -/
def exposes (E : ExitTable) (name : String) : Bool :=
  match E.resultAttrs.lookup name with
  | some g => E.controllerAll.contains g && (E.flagOf? g).isSome
  | none => false

/-- value of `soln.NAME` -/
def exposedValue? (E : ExitTable) (name : String) : Option Int :=
  match E.resultAttrs.lookup name with
  | some g => if E.controllerAll.contains g then E.flagOf? g else none
  | none => none

/-- every `self.X = G` in `OptimResults.__init__` can be executed (otherwise *every* construction raises NameError) -/
def attrsResolvable (E : ExitTable) : Bool :=
  E.resultAttrs.all (fun p => E.controllerAll.contains p.2 && (E.flagOf? p.2).isSome)

/-- the flags the user guide documents -/
def documentedFlags (E : ExitTable) : List Int := E.userGuideExits.filterMap E.flagOf?

/-- a call `OptimResults(a1..ak)` succeeds iff the arity fits -/
def callOk (E : ExitTable) (k : Nat) : Bool := E.resultArityMin ≤ k && k ≤ E.resultArityMax

end ExitTable
end Dfols.Py
