/-
  L1 `Validate` — the input validation of `dfols.solve` (solver.py:943-1090), `ParameterList`
  (params.py:34-309) and the construction of the input-error result, as executable definitions
  (Mathlib-free).  Parametric in the tables (`Tables`): the driver instantiates it with the tables
  regenerated from /repo (`Dfols.Gen`), the theorems with the committed reference (`Dfols.Spec`)
  and `gen_eq_spec`.

  Modelled exactly (same order, first failing check wins, same exceptions):
    solver.py:957-963   scaling_within_bounds switched off without two-sided bounds / with projections
    solver.py:965-976   defaults of xl, xu, npt, rhobeg, maxfun
    solver.py:979-988   projections: bounds become a projection, xl/xu are reset to ±1e20
    solver.py:991-994   ParameterList(int(n), int(npt), int(maxfun), noise); params(key, new_value=val)
    solver.py:1013-1046 the ten argument checks
    solver.py:1048      `maxfun <= npt` (evaluated unconditionally)
    solver.py:1053-1083 check_all_params (evaluated unconditionally) and the five option checks
    solver.py:1086-1090 OptimResults(None, None, None, None, 0, 0, 0, flag, msg, …)
  Supplied by the harness as numbers computed with the code's own elementwise formulas
  (not re-derived here): `rhobegDefault = 0.1*max(max|x0|,1)`, `gapRaw = min(xu-xl)`,
  `gapScaled = min(xu'-xl')` after scaling.  Arrays are represented by their shapes only.
-/
import DfolsVerif.Book.PyVal
import DfolsVerif.Book.ExitTable

namespace Dfols.Py

structure Tables where
  defaults : List (String × DExpr)
  types : List (String × TypeEntry)
  exit : ExitTable

/-! ### ParameterList (params.py:34-141) -/

structure Param where
  key : String
  val : PyVal
  changed : Bool
deriving DecidableEq, Repr, Inhabited

abbrev PList := List Param

namespace PList

/-- `ParameterList.__init__` -/
def init (defaults : List (String × DExpr)) (s : Sizes) : PList :=
  defaults.map fun kd => ⟨kd.1, kd.2.eval s, false⟩

def get? (pl : PList) (key : String) : Option Param := pl.find? (fun p => p.key == key)

def set (pl : PList) (key : String) (v : PyVal) : PList :=
  pl.map fun p => if p.key == key then { p with val := v, changed := true } else p

/-- `params(key, new_value)` (params.py:130-141): `new_value=None` means *read*;
    a second update of the same key and an unknown key raise `ValueError`. -/
def call (pl : PList) (key : String) (new : PyVal) : Except Exc (PList × PyVal) :=
  match pl.get? key with
  | none => .error .valueError
  | some p =>
    if new.isNone then .ok (pl, p.val)
    else if p.changed then .error .valueError
    else .ok (pl.set key new, new)

/-- `params(key)` -/
def read (pl : PList) (key : String) : Except Exc PyVal :=
  match pl.get? key with
  | none => .error .valueError
  | some p => .ok p.val

/-- `for (key, val) in user_params.items(): params(key, new_value=val)` -/
def update : PList → List (String × PyVal) → Except Exc PList
  | pl, [] => .ok pl
  | pl, kv :: rest =>
    match pl.call kv.1 kv.2 with
    | .error e => .error e
    | .ok (pl', _) => update pl' rest

end PList

/-- `check_param` (params.py:291-302): a key without a `param_type` entry hits `assert False`. -/
def checkParam (types : List (String × TypeEntry)) (key : String) (v : PyVal) (npt : F) : Except Exc Bool :=
  match types.lookup key with
  | none => .error .assertionError
  | some te => .ok (checkEntry te v npt)

/-- `check_all_params` (params.py:304-309): the bad keys in dictionary order. -/
def checkAll (types : List (String × TypeEntry)) : PList → F → Except Exc (List String)
  | [], _ => .ok []
  | p :: ps, npt =>
    match checkParam types p.key p.val npt with
    | .error e => .error e
    | .ok ok =>
      match checkAll types ps npt with
      | .error e => .error e
      | .ok rest => .ok (if ok then rest else p.key :: rest)

/-! ### messages and the result object -/

inductive Msg where
  | proxMissing | lhMissing | lhNonpos | nptSmall | rhobegNonpos | rhoendNonpos | rhobegLeRhoend
  | maxfunNonpos | x0NotVector | xlShape | xuShape | gapSmall
  | badParams (keys : List String)
  | safetyBoth | growingBoth | noiseBoth | parallelCoord | resetRho
deriving DecidableEq, Repr, Inhabited

/-- `str(list_of_str)` for keys without quotes or escapes -/
def pyListRepr (ks : List String) : String :=
  "[" ++ ", ".intercalate (ks.map fun k => "'" ++ k ++ "'") ++ "]"

/-- the `msg_details` handed to `ExitInformation` (solver.py:1015-1083) -/
def Msg.text : Msg → String
  | .proxMissing => "Must provide prox_uh input if h is not None"
  | .lhMissing => "Must provide lh input if h is not None"
  | .lhNonpos => "lh must be strictly positive"
  | .nptSmall => "npt must be >= n+1 for linear models with inexact interpolation"
  | .rhobegNonpos => "rhobeg must be strictly positive"
  | .rhoendNonpos => "rhoend must be strictly positive"
  | .rhobegLeRhoend => "rhobeg must be > rhoend"
  | .maxfunNonpos => "maxfun must be strictly positive"
  | .x0NotVector => "x0 must be a vector"
  | .xlShape => "lower bounds must have same shape as x0"
  | .xuShape => "upper bounds must have same shape as x0"
  | .gapSmall => "gap between lower and upper must be at least 2*rhobeg"
  | .badParams ks => "Bad parameters: " ++ pyListRepr ks
  | .safetyBoth => "Safety step while growing: either reduce delta -or- full geom step"
  | .growingBoth => "Growing: either make J full rank -or- perturb trust region step"
  | .noiseBoth => "Must have exactly one of additive or multiplicative noise estimate"
  | .parallelCoord => "Parallel initialisation not yet developed for coordinate initial directions"
  | .resetRho => "Growing: if resetting rho, must also reset delta"

/-- the format strings in source order, as the translator extracts them from `solve` -/
def Msg.formats : List String :=
  [Msg.proxMissing, .lhMissing, .lhNonpos, .nptSmall, .rhobegNonpos, .rhoendNonpos, .rhobegLeRhoend, .maxfunNonpos,
   .x0NotVector, .xlShape, .xuShape, .gapSmall].map Msg.text ++ ["Bad parameters: %s"] ++
  [Msg.safetyBoth, .growingBoth, .noiseBoth, .parallelCoord, .resetRho].map Msg.text

/-- `OptimResults` (solver.py:51-72): which fields are not `None`, the counters, flag and message -/
structure Result where
  hasX : Bool
  hasResid : Bool
  hasObj : Bool
  hasJac : Bool
  nf : Nat
  nx : Nat
  nruns : Nat
  flag : Int
  msg : String
  hasXminEvalNum : Bool
  hasJacEvalNums : Bool
deriving DecidableEq, Repr, Inhabited

/-- `str(soln)` returns (solver.py:74-105): the input-error branch prints only flag and message;
    every other flag formats `len(resid)`, `obj` and `xmin_eval_num`, which must not be `None`. -/
def Result.strDefined (E : ExitTable) (r : Result) : Bool :=
  E.exposes "EXIT_INPUT_ERROR" &&
  (E.exposedValue? "EXIT_INPUT_ERROR" == some r.flag || (r.hasResid && r.hasObj && r.hasXminEvalNum))

inductive Outcome where
  | result (r : Result)
  | raised (e : Exc)
  | proceed (pl : PList) (npt maxfun rhobeg : PyVal) (scaling : Bool)
  | unmodelled
deriving DecidableEq, Repr, Inhabited

/-- solver.py:1086-1090 — `OptimResults(None, None, None, None, 0, 0, 0, exit_flag, exit_msg, …)`.
    The number of arguments at that call site and the constructor's arity are table data
    (`resultCallArities.head?`, `resultArityMin/Max`): a mismatch is the `TypeError` of the pinned tree. -/
def inputErrorResult (E : ExitTable) (m : Msg) : Outcome :=
  match E.flagOf? "EXIT_INPUT_ERROR", E.resultCallArities.head? with
  | some flag, some k =>
    if E.callOk k && E.attrsResolvable then
      .result { hasX := false, hasResid := false, hasObj := false, hasJac := false, nf := 0, nx := 0, nruns := 0,
                flag := flag, msg := E.message flag m.text, hasXminEvalNum := false, hasJacEvalNums := false }
    else .raised .typeError
  | _, _ => .unmodelled

/-! ### arguments of `solve` -/

structure Args where
  x0shape : List Nat                          -- np.shape(x0); n = len(x0)
  hasH : Bool
  hasProx : Bool
  lh : PyVal
  xlShape : Option (List Nat)                 -- bounds[0] (none: `bounds is None` or `bounds[0] is None`)
  xuShape : Option (List Nat)
  hasProj : Bool
  npt : PyVal
  rhobeg : PyVal
  rhoend : PyVal
  maxfun : PyVal
  userParams : Option (List (String × PyVal)) -- dict items in order
  noise : Bool
  scaling : Bool
  rhobegDefault : F
  gapRaw : F
  gapScaled : F
deriving Repr, Inhabited

/-- effective values once the defaults are filled in and the user parameters applied
    (state of `solve` at solver.py:1011) -/
structure Eff where
  n : Nat
  x0shape : List Nat
  hasH : Bool
  hasProx : Bool
  lh : PyVal
  xl : List Nat
  xu : List Nat
  npt : PyVal
  rhobeg : PyVal
  rhoend : PyVal
  maxfun : PyVal
  gap : F
  scaling : Bool
  pl : PList
deriving Repr, Inhabited

inductive Prep where
  | ok (e : Eff)
  | raised (e : Exc)
  | unmodelled
deriving Repr, Inhabited

def zeroF : PyVal := .float (.fin 0)
def tenthBits : Nat := 0x3FB999999999999A      -- 0.1
def twoE20Bits : Nat := 0x4425AF1D78B58C40     -- 1e20 - (-1e20)

/-- solver.py:957-963: scaling survives only with two-sided bounds and without projections -/
def Args.scal (a : Args) : Bool := a.scaling && a.xlShape.isSome && a.xuShape.isSome && !a.hasProj

/-- the scaling is APPLIED only to bounds of x0's shape with a strictly positive width everywhere (fix: bounds of the wrong
    shape, zero-width and inverted boxes are left unscaled, so that the shape / gap tests below report them) -/
def Args.scalApplied (a : Args) (n : Nat) : Bool :=
  a.scal && a.x0shape == [n] && a.xlShape == some [n] && a.xuShape == some [n] && F.lt (F.fin 0) a.gapRaw

/-- solver.py:969-976 -/
def Args.effNpt (a : Args) (n : Nat) : PyVal := if a.npt.isNone then PyVal.int ((n : Int) + 1) else a.npt
def Args.effRhobeg (a : Args) : PyVal :=
  if a.rhobeg.isNone then PyVal.float (if a.scal then F.ofBits tenthBits else a.rhobegDefault) else a.rhobeg
def Args.effMaxfun (a : Args) (n : Nat) : PyVal :=
  if a.maxfun.isNone then PyVal.int (min (100 * ((n : Int) + 1)) 1000) else a.maxfun

/-- state of `solve` at solver.py:1011, given the parameter list after the user's updates -/
def mkEff (a : Args) (n : Nat) (pl : PList) : Eff :=
  { n := n, x0shape := a.x0shape, hasH := a.hasH, hasProx := a.hasProx, lh := a.lh,
    xl := if a.hasProj then [n] else a.xlShape.getD [n],
    xu := if a.hasProj then [n] else a.xuShape.getD [n],
    npt := a.effNpt n, rhobeg := a.effRhobeg, rhoend := a.rhoend, maxfun := a.effMaxfun n,
    gap := if a.hasProj then F.ofBits twoE20Bits else if a.scalApplied n then a.gapScaled else a.gapRaw,
    scaling := a.scalApplied n, pl := pl }

/-- solver.py:945-1009 -/
def prepare (T : Tables) (a : Args) : Prep :=
  match a.x0shape with
  | [] => .unmodelled                           -- 0-d x0: `len(x0)` raises
  | n :: _ =>
      match pyInt (a.effNpt n) with
      | .error e => .raised e
      | .ok nptI =>
        match pyInt (a.effMaxfun n) with
        | .error e => .raised e
        | .ok maxfunI =>
          match (PList.init T.defaults ⟨n, nptI, maxfunI, a.noise⟩).update (a.userParams.getD []) with
          | .error e => .raised e
          | .ok pl => .ok (mkEff a n pl)

/-! ### the checks (solver.py:1011-1083) -/

/-- one `if exit_info is None and <test>: exit_info = ExitInformation(EXIT_INPUT_ERROR, <msg>)` -/
abbrev Test := (Unit → Except Exc Bool) × Msg

/-- the tests in sequence: the first one that holds wins; a later test is not even evaluated
    (so it cannot raise) once one has held; an exception in a test that *is* evaluated propagates. -/
def firstM : List Test → Except Exc (Option Msg)
  | [] => .ok none
  | t :: ts =>
    match t.1 () with
    | .error e => .error e
    | .ok true => .ok (some t.2)
    | .ok false => firstM ts

/-- `np.min(xu - xl) < 2.0 * rhobeg` -/
def gapLt (gap : F) (rhobeg : PyVal) : Except Exc Bool :=
  match rhobeg.num? with
  | some r => .ok (F.lt gap (F.dbl r))
  | none => .error .typeError

/-- solver.py:1013-1046.  The `if h is not None: if … elif … elif …` block is three tests in a row
    (the second is reached only when `prox_uh` is present, the third only when `lh` is present — its
    guard `!e.lh.isNone` is therefore redundant in sequence and only makes the test total on its own). -/
def argTests (e : Eff) : List Test := [
  (fun _ => .ok (e.hasH && !e.hasProx), .proxMissing),
  (fun _ => .ok (e.hasH && e.lh.isNone), .lhMissing),
  (fun _ => if e.hasH && !e.lh.isNone then pyLe e.lh zeroF else .ok false, .lhNonpos),
  (fun _ => pyLt e.npt (.int ((e.n : Int) + 1)), .nptSmall),
  (fun _ => pyLe e.rhobeg zeroF, .rhobegNonpos),
  (fun _ => pyLe e.rhoend zeroF, .rhoendNonpos),
  (fun _ => pyLe e.rhobeg e.rhoend, .rhobegLeRhoend),
  (fun _ => pyLe e.maxfun (.int 0), .maxfunNonpos),
  (fun _ => .ok (e.x0shape != [e.n]), .x0NotVector),
  (fun _ => .ok (e.x0shape != e.xl), .xlShape),
  (fun _ => .ok (e.x0shape != e.xu), .xuShape),
  (fun _ => gapLt e.gap e.rhobeg, .gapSmall) ]

/-- `params(a)` and then, if truthy, `params(b)`: both truthy? (the nested `if`s of solver.py:1057-1065) -/
def bothTruthy (pl : PList) (a b : String) : Except Exc Bool :=
  match pl.read a with
  | .error e => .error e
  | .ok va =>
    if va.truthy then
      match pl.read b with
      | .error e => .error e
      | .ok vb => .ok vb.truthy
    else .ok false

/-- `params(a) and not params(b)` (solver.py:1077, 1081-1083) -/
def truthyAndNot (pl : PList) (a b : String) : Except Exc Bool :=
  match pl.read a with
  | .error e => .error e
  | .ok va =>
    if va.truthy then
      match pl.read b with
      | .error e => .error e
      | .ok vb => .ok (!vb.truthy)
    else .ok false

/-- solver.py:1068-1075: returns (doubling-up?, parameter list possibly with additive level set to 0.0) -/
def noiseStep (pl : PList) : Except Exc (Bool × PList) :=
  match pl.read "noise.quit_on_noise_level" with
  | .error e => .error e
  | .ok q =>
    if q.truthy then
      match pl.read "noise.multiplicative_noise_level" with
      | .error e => .error e
      | .ok mu =>
        match pl.read "noise.additive_noise_level" with
        | .error e => .error e
        | .ok ad =>
          if mu.isNone then
            (if ad.isNone then
              match pl.call "noise.additive_noise_level" zeroF with
              | .error e => .error e
              | .ok (pl', _) => .ok (false, pl')
             else .ok (false, pl))
          else .ok (!ad.isNone, pl)
    else .ok (false, pl)

/-- solver.py:1054-1083, entered with `exit_info is None` -/
def optionChecks (pl : PList) (bad : List String) : Except Exc (Option Msg × PList) :=
  if !bad.isEmpty then .ok (some (.badParams bad), pl) else
  match bothTruthy pl "growing.safety.full_geom_step" "growing.safety.reduce_delta" with
  | .error e => .error e
  | .ok true => .ok (some .safetyBoth, pl)
  | .ok false =>
  match bothTruthy pl "growing.full_rank.use_full_rank_interp" "growing.perturb_trust_region_step" with
  | .error e => .error e
  | .ok true => .ok (some .growingBoth, pl)
  | .ok false =>
  match noiseStep pl with
  | .error e => .error e
  | .ok (true, pl') => .ok (some .noiseBoth, pl')
  | .ok (false, pl') =>
  match truthyAndNot pl' "init.run_in_parallel" "init.random_initial_directions" with
  | .error e => .error e
  | .ok true => .ok (some .parallelCoord, pl')
  | .ok false =>
  match truthyAndNot pl' "growing.reset_rho" "growing.reset_delta" with
  | .error e => .error e
  | .ok true => .ok (some .resetRho, pl')
  | .ok false => .ok (none, pl')

/-- solver.py:1011-1083 as a whole -/
def checkInputs (T : Tables) (e : Eff) : Except Exc (Option Msg × PList) :=
  match firstM (argTests e) with
  | .error x => .error x
  | .ok r1 =>
    match pyLe e.maxfun e.npt with                      -- solver.py:1048, unconditional
    | .error x => .error x
    | .ok _ =>
      match e.npt.num? with
      | none => .error .typeError
      | some nptF =>
        match checkAll T.types e.pl nptF with           -- solver.py:1053, unconditional
        | .error x => .error x
        | .ok bad =>
          match r1 with
          | some m => .ok (some m, e.pl)
          | none => optionChecks e.pl bad

def validate (T : Tables) (a : Args) : Outcome :=
  match prepare T a with
  | .unmodelled => .unmodelled
  | .raised x => .raised x
  | .ok e =>
    match checkInputs T e with
    | .error x => .raised x
    | .ok (some m, _) => inputErrorResult T.exit m
    | .ok (none, pl) => .proceed pl e.npt e.maxfun e.rhobeg e.scaling

end Dfols.Py
