/-
  L2 miniature for C09: which points may be evaluated when projections are supplied.

  Events of a real `dfols.solve(..., projections=[...])` run, as seen by wrappers (no source change):
    * `start x0`        — `solve` entered with the user's starting point,
    * `dykOut x b`      — a call of `dykstra` (as bound in any dfols module) returned `x`; `b` says
                          whether its projector list ended with the bound box `bproj` that
                          `solve` appends (solver.py:979-984),
    * `eval x`          — the objective was called at `x`.

  The accepted traces are the model of "every point handed to the objective went through the
  projection routine":
    * the first evaluated point is the user's `x0` if `np.allclose(xp, x0)` for `xp` the first
      box-last Dykstra output (solver.py:1093-1097), and is `xp` itself otherwise;
    * every later evaluated point is either that first point again (x0 is re-sampled / re-used) or
      the output of an *earlier* `dykstra` call whose projector list ended with the box
      (model.py:143,157: `xpt`, `as_absolute_coordinates`).
  `close` is an input of the model: `np.allclose` for the pinned tree; after the `fix:` commit
  "always start from the projection of x0" the code no longer consults it and the driver passes the
  constant `false` (first evaluation = projection of x0).  No Mathlib.
-/

namespace Dfols
namespace ProjTrace

inductive Ev (V : Type) where
  | start (x0 : V)
  | dykOut (x : V) (boxLast : Bool)
  | eval (x : V)
  deriving DecidableEq, Repr

structure St (V : Type) where
  x0 : Option V := none        -- the user's starting point
  xp : Option V := none        -- first box-last Dykstra output (= projection of x0)
  first : Option V := none     -- first evaluated point
  outs : List V := []          -- all box-last Dykstra outputs so far

section
variable {V : Type} [DecidableEq V]

def step (close : V → V → Bool) (s : St V) : Ev V → Except String (St V)
  | .start a =>
    if s.x0.isSome then .error "second start" else .ok { s with x0 := some a }
  | .dykOut x b =>
    if b then .ok { s with outs := x :: s.outs, xp := s.xp.orElse (fun _ => some x) } else .ok s
  | .eval x =>
    match s.first with
    | some f =>
      if x = f ∨ x ∈ s.outs then .ok s else .error "evaluated point is not a box-last Dykstra output"
    | none =>
      match s.x0, s.xp with
      | some a, some p =>
        if x = (if close p a then a else p) then .ok { s with first := some x }
        else .error "first evaluated point is neither the feasible x0 nor its projection"
      | _, _ => .error "evaluation before x0 was projected"

def run (close : V → V → Bool) (evs : List (Ev V)) : Except String (St V) :=
  evs.foldlM (step close) {}

def accept (close : V → V → Bool) (evs : List (Ev V)) : Bool :=
  match run close evs with
  | .ok _ => true
  | .error _ => false

/-- index of the first rejected event and the reason (driver output) -/
def firstReject (close : V → V → Bool) : List (Ev V) → St V → Nat → Option (Nat × String)
  | [], _, _ => none
  | e :: es, s, i =>
    match step close s e with
    | .ok s' => firstReject close es s' (i + 1)
    | .error msg => some (i, msg)

end

/-! the observables the theorems speak about -/

variable {V : Type}

def evalOf : Ev V → Option V
  | .eval x => some x
  | _ => none
def startOf : Ev V → Option V
  | .start x => some x
  | _ => none
def projOf : Ev V → Option V
  | .dykOut x true => some x
  | _ => none

/-- the first evaluated point of a trace -/
def firstEval (l : List (Ev V)) : Option V := l.findSome? evalOf
/-- the starting point the user passed -/
def firstStart (l : List (Ev V)) : Option V := l.findSome? startOf
/-- the first output of a `dykstra` call whose projector list ended with the box -/
def firstProj (l : List (Ev V)) : Option V := l.findSome? projOf

end ProjTrace
end Dfols
