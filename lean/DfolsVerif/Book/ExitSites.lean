/-
  Creation sites of `ExitInformation` with their path conditions (model types; the table itself is
  generated from /repo's AST on every run: `Gen/ExitSites.lean`, by harness/gen_exitsites.py).

  A path condition is the list of literals that hold where the constructor call stands: the tests of the
  enclosing `if`/`elif`/`else`/`while` statements of the same function with their polarity, positive
  conjunctions split into conjuncts, negated disjunctions split by De Morgan, `not` folded into the
  polarity.  A literal that is a single comparison is kept structured (`lhs op rhs`, canonical
  `ast.unparse` text); anything else is `lhs` = its text, `op = ""`.
-/
namespace Dfols

structure Lit where
  pos : Bool
  lhs : String
  op : String
  rhs : String
deriving DecidableEq, Repr

structure ExitSite where
  func : String                       -- file:function
  flag : String                       -- name of the EXIT_* constant
  msg : String                        -- the message literal
  path : List Lit
  defs : List (String × String)       -- definitions (all assignments in the function) of local names used as whole literals
deriving DecidableEq, Repr

end Dfols
