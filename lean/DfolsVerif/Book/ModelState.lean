/-
  L1 — the bookkeeping of `dfols.model.Model` as a state machine.

  Mirrors (line numbers of dfols/model.py at the pinned commit, after the `fix:` commits):
    __init__            47-116      `init`
    change_point        182-201     `changePoint`
    swap_points         203-213     `swap`
    add_new_sample      215-227     `addSample`
    add_new_point       229-245     `addPoint`
    shift_base          247-258     `shiftBase`
    save_point          260-275     `savePoint`
    get_final_results   277-282     `getFinal`
    factorise_geom_system 310-321   `factorise`
    interpolate_mini_models_svd 343-403 (only its bookkeeping effects) `interpolate`

  What is *not* here: coordinates and linear algebra.  A stored point is represented by an opaque
  token `P` (the harness uses the index of the point in its own table), a residual vector by an
  opaque `R` with the running-mean operation `avg k old new` supplied as a parameter
  (`t*old + (1-t)*new`, `t = k/(k+1)`, for the executable instance over `List Float`).
  Objective values are `Val`s (order keys) supplied with each operation by the caller: the code
  computes them as `sumsq(r) + h(x)`; the harness recomputes them independently.

  Ghost fields (not in the Python object) are marked `-- ghost`.
-/
import DfolsVerif.Val

namespace Dfols

/-- One interpolation point as stored in row `k` of the `Model` arrays. -/
structure Slot (P R : Type) where
  pt   : P            -- points[k,:]
  resid : R           -- fval_v[k,:]
  obj  : Val          -- objval[k]
  ns   : Nat          -- nsamples[k]
  en   : Nat          -- eval_num[k]
  -- ghost: what was supplied when this point was written, and every sample received since
  gpt  : P
  glabel : Nat
  gsamples : List R
  gobjSrc : R × P     -- the (residual, point) pair the stored objective was supplied for
deriving Repr

/-- The saved point (`xsave`, `rsave`, `objsave`, `nsamples_save`, `eval_num_save`, `jacsave_eval_nums`). -/
structure Saved (P R : Type) where
  pt : P
  resid : R
  obj : Val
  ns : Nat
  en : Nat
  jacNums : Option (List Nat)
deriving Repr

structure MState (P R : Type) where
  cap   : Nat                      -- num_pts
  slots : List (Slot P R)          -- rows 0 .. npt_so_far-1 (npt() = min(num_pts, npt_so_far) = slots.length)
  kopt  : Nat
  saved : Option (Saved P R)
  factCur : Bool                   -- factorisation_current
  jacNums : Option (List Nat)      -- model_jac_eval_nums
  -- ghost
  version : Nat                    -- bumped whenever the point set or kopt changes
  factVersion : Nat                -- `version` at the time of the last factorisation
  offered : List Val               -- every objective value ever stored or offered to save_point
deriving Repr

namespace MState

variable {P R : Type}

def npt (s : MState P R) : Nat := s.slots.length

/-- `objval[k]` of a list of rows (NaN outside the valid range: never read by the code). -/
def objL (l : List (Slot P R)) (k : Nat) : Val := (l[k]?.map (·.obj)).getD Val.nan

def objAt (s : MState P R) (k : Nat) : Val := objL s.slots k

def objopt (s : MState P R) : Val := s.objAt s.kopt

/-- `Model.__init__`: one point (x0) with `r0_nsamples` samples, labelled `label`
    (1 in the pinned tree; the evaluation number of x0 after the fix). -/
def init (cap : Nat) (x0 : P) (r0 : R) (v0 : Val) (ns0 : Nat) (label : Nat) (samples0 : List R) : MState P R :=
  { cap := cap,
    slots := [{ pt := x0, resid := r0, obj := v0, ns := ns0, en := label,
                gpt := x0, glabel := label, gsamples := samples0, gobjSrc := (r0, x0) }],
    kopt := 0, saved := none, factCur := false, jacNums := none,
    version := 0, factVersion := 0, offered := [v0] }

/-- the kopt test shared by `change_point` / `add_new_point` (NaN-aware after the fix):
    move the incumbent to the new value if it is strictly smaller, or if the incumbent's value
    is NaN and the new one is not. -/
def improves (v opt : Val) : Bool := Val.lt v opt || (opt.isNaN && !v.isNaN)

/-- `change_point(k, x, rvec, eval_num, allow_kopt_update)`; `v = sumsq(rvec) + h(x)`. -/
def changePoint (s : MState P R) (k : Nat) (x : P) (r : R) (v : Val) (en : Nat) (allowKopt : Bool) :
    Except String (MState P R) :=
  let new : Slot P R := { pt := x, resid := r, obj := v, ns := 1, en := en,
                          gpt := x, glabel := en, gsamples := [r], gobjSrc := (r, x) }
  if k ≥ s.slots.length ∧ s.slots.length < s.cap then
    if k = s.slots.length then
      let opt := s.objopt
      let s' := { s with slots := s.slots ++ [new], factCur := false,
                         version := s.version + 1, offered := v :: s.offered }
      .ok (if allowKopt && improves v opt then { s' with kopt := k } else s')
    else .error "Growing: updating wrong point"
  else if k < s.slots.length then
    -- objopt() is read *after* the write: if k = kopt the comparison is v < v
    let s' := { s with slots := s.slots.set k new, factCur := false,
                       version := s.version + 1, offered := v :: s.offered }
    let opt := s'.objopt
    .ok (if allowKopt && improves v opt then { s' with kopt := k } else s')
  else .error "Invalid index"

/-- swap two rows of every per-point array. -/
def swapList {α : Type} (l : List α) (i j : Nat) : List α :=
  match l[i]?, l[j]? with
  | some a, some b => (l.set i b).set j a
  | _, _ => l

/-- `swap_points(k1, k2)` (after the fix: sample counts travel too). -/
def swap (s : MState P R) (k1 k2 : Nat) : Except String (MState P R) :=
  if k1 < s.slots.length ∧ k2 < s.slots.length then
    let kopt' := if s.kopt = k1 then k2 else if s.kopt = k2 then k1 else s.kopt
    .ok { s with slots := swapList s.slots k1 k2, kopt := kopt', factCur := false,
                 version := s.version + 1 }
  else .error "Invalid index"

/-- index of the first smallest non-NaN value; 0 if there is none
    (`np.flatnonzero(ok)[np.argmin(v[ok])]` with `ok = ~np.isnan(v)`). -/
def argminFrom : List Val → Nat → Nat → Val → Nat
  | [], _, best, _ => best
  | v :: vs, i, best, bv =>
      if improves v bv then argminFrom vs (i+1) i v else argminFrom vs (i+1) best bv

def argminNanLast (vs : List Val) : Nat :=
  match vs with
  | [] => 0
  | v :: rest => argminFrom rest 1 0 v

/-- `add_new_sample(k, rvec_extra)`; `v = sumsq(new mean) + h(x_k)`. -/
def addSample (avg : Nat → R → R → R) (s : MState P R) (k : Nat) (r : R) (v : Val) :
    Except String (MState P R) :=
  match s.slots[k]? with
  | none => .error "Invalid index"
  | some sl =>
    let mean' := avg sl.ns sl.resid r
    let sl' : Slot P R := { sl with resid := mean', obj := v, ns := sl.ns + 1,
                                    gsamples := sl.gsamples ++ [r], gobjSrc := (mean', sl.pt) }
    let slots' := s.slots.set k sl'
    let objs := slots'.map (·.obj)
    -- after the fix: best non-NaN value (first on ties); unchanged if every value is NaN
    let kopt' := if objs.all Val.isNaN then s.kopt else argminNanLast objs
    .ok { s with slots := slots', kopt := kopt',
                 factCur := false,
                 version := if kopt' = s.kopt then s.version else s.version + 1,
                 offered := v :: s.offered }

/-- `add_new_point(x, rvec, eval_num)`. -/
def addPoint (s : MState P R) (x : P) (r : R) (v : Val) (en : Nat) : MState P R :=
  let new : Slot P R := { pt := x, resid := r, obj := v, ns := 1, en := en,
                          gpt := x, glabel := en, gsamples := [r], gobjSrc := (r, x) }
  let opt := s.objopt
  let s' := { s with slots := s.slots ++ [new], cap := s.cap + 1, factCur := false,
                     version := s.version + 1, offered := v :: s.offered }
  if improves v opt then { s' with kopt := s.slots.length } else s'

/-- `shift_base`: coordinates change, identities do not. -/
def shiftBase (s : MState P R) : MState P R :=
  { s with factCur := false, version := s.version + 1 }

/-- the test of `save_point` (NaN-aware after the fix): save when nothing is saved, when the new
    value is `<=` the saved one, or when the saved value is NaN. -/
def saveAccepts (v : Val) (saved : Option Val) : Bool :=
  match saved with
  | none => true
  | some sv => Val.le v sv || (sv.isNaN && !v.isNaN)

/-- `save_point(x, rvec, nsamples, eval_num)`; returns whether it was saved. -/
def savePoint (s : MState P R) (x : P) (r : R) (v : Val) (ns en : Nat) : MState P R × Bool :=
  if saveAccepts v (s.saved.map (·.obj)) then
    ({ s with saved := some { pt := x, resid := r, obj := v, ns := ns, en := en, jacNums := s.jacNums },
              offered := v :: s.offered }, true)
  else ({ s with offered := v :: s.offered }, false)

/-- bookkeeping effect of a successful `interpolate_mini_models_svd`:
    `model_jac_eval_nums = eval_num.copy()` (the whole array, zero beyond `npt_so_far`). -/
def interpolate (s : MState P R) : MState P R :=
  { s with jacNums := some (s.slots.map (·.en) ++ List.replicate (s.cap - s.slots.length) 0),
           factCur := true, factVersion := s.version }

/-- `factorise_geom_system` -/
def factorise (s : MState P R) : MState P R :=
  if s.factCur then s else { s with factCur := true, factVersion := s.version }

structure Final (P R : Type) where
  pt : P
  resid : R
  obj : Val
  ns : Nat
  en : Nat
  jacNums : Option (List Nat)
  fromSaved : Bool
deriving Repr

/-- the test of `get_final_results` (NaN-aware after the fix): prefer the incumbent when nothing is
    saved, when its value is `<=` the saved one, or when the saved value is NaN. -/
def finalPrefersOpt (opt : Val) (saved : Option Val) : Bool :=
  match saved with
  | none => true
  | some sv => Val.le opt sv || sv.isNaN

/-- `get_final_results()` -/
def getFinal (s : MState P R) : Option (Final P R) :=
  match s.slots[s.kopt]? with
  | none => none
  | some sl =>
    if finalPrefersOpt sl.obj (s.saved.map (·.obj)) then
      some { pt := sl.pt, resid := sl.resid, obj := sl.obj, ns := sl.ns, en := sl.en,
             jacNums := s.jacNums, fromSaved := false }
    else
      match s.saved with
      | none => none
      | some sv => some { pt := sv.pt, resid := sv.resid, obj := sv.obj, ns := sv.ns, en := sv.en,
                          jacNums := sv.jacNums, fromSaved := true }

end MState

/-- Operations of the public `Model` interface, as a datatype (for operation sequences). -/
inductive MOp (P R : Type) where
  | change (k : Nat) (x : P) (r : R) (v : Val) (en : Nat) (allowKopt : Bool)
  | swap (k1 k2 : Nat)
  | sample (k : Nat) (r : R) (v : Val)
  | addPoint (x : P) (r : R) (v : Val) (en : Nat)
  | shift
  | save (x : P) (r : R) (v : Val) (ns en : Nat)
  | interpolate
  | factorise
deriving Repr

namespace MState
variable {P R : Type}

/-- one operation; an `error` is a Python `AssertionError` (state unchanged by the caller). -/
def step (avg : Nat → R → R → R) (s : MState P R) : MOp P R → Except String (MState P R)
  | .change k x r v en a => s.changePoint k x r v en a
  | .swap k1 k2 => s.swap k1 k2
  | .sample k r v => s.addSample avg k r v
  | .addPoint x r v en =>
    -- `np.append` writes row `num_pts`, which is row `npt()` only when the set is full; the solver
    -- calls it from `soft_restart` only; the not-full case is outside the model (precondition)
    if s.slots.length = s.cap then .ok (s.addPoint x r v en) else .error "unmodelled: add_new_point while growing"
  | .shift => .ok s.shiftBase
  | .save x r v ns en => .ok (s.savePoint x r v ns en).1
  | .interpolate => .ok s.interpolate
  | .factorise => .ok s.factorise

/-- run a sequence, skipping operations that raise (as a caller catching `AssertionError` would). -/
def run (avg : Nat → R → R → R) (s : MState P R) (ops : List (MOp P R)) : MState P R :=
  ops.foldl (fun st op => match st.step avg op with | .ok s' => s' | .error _ => st) s

end MState
end Dfols
