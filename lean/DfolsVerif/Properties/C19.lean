/-
  C19 — Results are reproducible and caller data are never modified.  **PARTIAL**

  Proved: `C19_rng_free` — in the model (draws are legal only at sites enabled by the configuration,
  `RngAcc`), a configuration without an option documented as random makes no draw that can reach an
  evaluation point.  Real runs are tied to the model by recording every np.random draw with its call
  site (correspondence) and by running each configuration under different global RNG states (search).
  Layer G (tables regenerated from /repo's AST on every run, theorems decided over the tables themselves):
  `C19_src_solve_writes_only_fresh_objects` — an ownership analysis of the body of `solve`: every in-place write goes
  through a name bound to an object created inside the call, and the caller's x0 / bounds / projections / user_params
  are handed on only to readers (the `projections` list reaches the solver as the caller's object only while empty);
  `C19_src_no_state_outlives_a_call` — no class-level binding, no `global`/`nonlocal`, module-level bindings are
  constants / `__all__` / loggers, and the only non-constant default argument is `solve(projections=[])`.
  NOT proved: absence of writes by CALLEES through objects that escape, aliasing through containers (Python aliasing
  is not modelled beyond that analysis): observed with read-only arrays and a byte-for-byte comparison.
-/
import DfolsVerif.Accept.RngAcc
import DfolsVerif.Proofs.RngSites
import DfolsVerif.Proofs.RestartGuards
import DfolsVerif.Proofs.Ownership

namespace Dfols
namespace C19

open RngAcc in
/-- when no option documented as random is enabled, an accepted run makes no random draw that can
    reach an evaluation point (only the unused selector draw of the projection branch can occur) -/
theorem C19_rng_free (c : Cfg) (hc : c.usesRandom = false) (sites : List Site) (s : St)
    (h : accept c sites = .ok s) : s.draws = 0 ∧ ∀ x ∈ sites, x = .projSelector ∧ c.projections = true :=
  RngAcc.C19_rng_free c hc sites s h

/-! ### layer G: where the global generator can be reached from (tables generated from /repo's AST on every run) -/

/-- **static reach of NumPy's global generator**: a draw happens only (i) in the rank-repair loops of the coordinate
    initialisation under `if self.model.projections`, or (ii) in the two drawing helpers of util.py, which are called
    only from `initialise_random_directions` (reached under `init.random_initial_directions`), the two growing
    routines (reached under `not finished_growing`), `move_furthest_points_momentum` (reached under
    `regression.momentum_extra_steps`) and `soft_restart` under `restarts.increase_npt` — exactly the five
    configuration bits `RngAcc` allows draws for. -/
theorem C19_src_rng_reach :
    (∀ s ∈ Gen.rngDraws,
      s.func = "util.py:random_orthog_directions_within_bounds" ∨ s.func = "util.py:random_directions_within_bounds" ∨
      (s.func = "controller.py:initialise_coordinate_directions" ∧ RngSites.pos "self.model.projections" ∈ s.path)) ∧
    (∀ s ∈ Gen.rngHelperCalls,
      s.func = "controller.py:initialise_random_directions" ∨ s.func = "controller.py:add_new_direction_while_growing" ∨
      s.func = "controller.py:get_new_direction_for_growing" ∨ s.func = "controller.py:move_furthest_points_momentum" ∨
      (s.func = "controller.py:soft_restart" ∧ RngSites.pos "params('restarts.increase_npt')" ∈ s.path)) ∧
    (∀ s ∈ Gen.rngMethodCalls,
      (s.callee = "initialise_random_directions" → RngSites.pos "params('init.random_initial_directions')" ∈ s.path) ∧
      (s.callee = "move_furthest_points_momentum" → RngSites.pos "params('regression.momentum_extra_steps')" ∈ s.path) ∧
      (s.callee = "add_new_direction_while_growing" → RngSites.neg "finished_growing" ∈ s.path) ∧
      (s.callee = "get_new_direction_for_growing" → RngSites.neg "finished_growing" ∈ s.path)) :=
  ⟨RngSites.draws_located, RngSites.helper_calls_located,
   fun s hs => ⟨(RngSites.method_calls_guarded s hs).1, (RngSites.method_calls_guarded s hs).2.1,
                (RngSites.method_calls_guarded s hs).2.2.1, (RngSites.method_calls_guarded s hs).2.2.2.1⟩⟩

/-- the one place where the solver turns a random option on by itself: the default growing method becomes the
    (random) perturbation of the trust-region step exactly for inverse problems, `m < n`, as documented — translated
    from `solve_main` on every run -/
theorem C19_growing_default_switch (m n : Int) : Gen.growingSwitchToPerturb m n = true ↔ m < n :=
  RestartGuards.growingSwitch_iff m n

/-! ### layer G: ownership of what `solve` writes to, and state that outlives a call -/

/-- **`solve` writes only to objects it created**: in the ownership analysis of its body (gen_ownership.py: the
    caller's x0 / bounds / projections / user_params start as "caller"; a name becomes "fresh" only through a copying
    form or an expression over fresh names; branches joined pessimistically) every subscript / attribute store,
    augmented assignment, mutating method call and `del` goes through a "fresh" name; caller-owned data are passed on
    only to readers, and the solver proper receives at most the caller's EMPTY `projections` list. -/
theorem C19_src_solve_writes_only_fresh_objects :
    (∀ p ∈ Gen.trackedParams, p ∈ Gen.solveParams) ∧
    (∀ w ∈ Gen.solveWrites, w.owner = "fresh") ∧
    (∀ e ∈ Gen.solveEscapes,
      (e.owner = "caller" → e.callee ∈ Ownership.readers) ∧ (e.owner = "caller-empty" → e.arg = "projections") ∧
      (e.owner = "caller" ∨ e.owner = "caller-empty")) :=
  ⟨Ownership.tracked_are_params, Ownership.writes_fresh, Ownership.escapes_read_only⟩

/-- **nothing a call could leave behind for the next one**: no class-level bindings, no `global` / `nonlocal`
    statements, module-level bindings are constants, `__all__` lists or loggers, and the only default argument that is
    not a constant is `solve(projections=[])`, which the previous theorem shows is never written to. -/
theorem C19_src_no_state_outlives_a_call :
    Gen.classState = [] ∧ Gen.globalStatements = [] ∧
    (∀ b ∈ Gen.moduleState, b.kind = "const" ∨ (b.kind = "names" ∧ b.name = "__all__") ∨
        (b.kind = "logger" ∧ b.name = "module_logger")) ∧
    (∀ b ∈ Gen.nonConstantDefaults, b.file = "solver.py" ∧ b.name = "solve.projections") :=
  ⟨Ownership.no_shared_class_or_global_state.1, Ownership.no_shared_class_or_global_state.2,
   Ownership.module_state_immutable, Ownership.only_mutable_default⟩

end C19
end Dfols
