/-
  C19 — Results are reproducible and caller data are never modified.  **PARTIAL**

  Proved: `C19_rng_free` — in the model (draws are legal only at sites enabled by the configuration,
  `RngAcc`), a configuration without an option documented as random makes no draw that can reach an
  evaluation point.  Real runs are tied to the model by recording every np.random draw with its call
  site (correspondence) and by running each configuration under different global RNG states (search).
  NOT proved: absence of writes to the caller's arrays / dictionary (Python aliasing is not modelled):
  observed with read-only arrays and a byte-for-byte comparison.
-/
import DfolsVerif.Accept.RngAcc

namespace Dfols
namespace C19

open RngAcc in
/-- when no option documented as random is enabled, an accepted run makes no random draw that can
    reach an evaluation point (only the unused selector draw of the projection branch can occur) -/
theorem C19_rng_free (c : Cfg) (hc : c.usesRandom = false) (sites : List Site) (s : St)
    (h : accept c sites = .ok s) : s.draws = 0 ∧ ∀ x ∈ sites, x = .projSelector ∧ c.projections = true :=
  RngAcc.C19_rng_free c hc sites s h

end C19
end Dfols
