/-
  C04 — The best point ever evaluated is never lost.

  "For a deterministic objective without sample averaging, soln.obj is no larger than the objective
  value sum(r^2)+h at every point the solver evaluated, in every run. In particular soln.obj <= f(x0)
  after projection of x0 into the feasible set, and a later run or restart can only improve on an
  earlier one."

  Model: event lists accepted by `BookAcc.accept false` (no regulariser; with a regulariser the
  objective of one point is recomputed at slightly different roundings of x, so the statement only
  holds up to a tolerance: partial, watched by the search).  `Better a b` = "a ≤ b, NaN worst".
-/
import DfolsVerif.Proofs.BookAccB
import DfolsVerif.Proofs.Radius
import DfolsVerif.Gen.KernelFns
import DfolsVerif.Gen.ModelDecisions
import DfolsVerif.Proofs.MainLoopPaths
import DfolsVerif.Proofs.CtrlPaths
import DfolsVerif.Proofs.SolveMainPaths

namespace Dfols
namespace C04

open BookAcc Val

/-- **C04 (full, no regulariser, no averaging)**: whenever the trace ends with the `OptimResults`
    event, its objective is at least as good as the objective of EVERY evaluation event of the trace
    (every run, every restart, every exit route). -/
theorem C04_best {evs : List Ev} {s : St}
    {nf nx nruns : Nat} {flag : Int} {cls : MsgCls} {label : Int} {v : Val} {jn : Bool}
    (h : accept false (evs ++ [Ev.res nf nx nruns flag cls label v jn]) = .ok s) (hav : s.averaged = false) :
    ∀ h ∈ s.hist, Better v h.2.2.2 := by
  have hinv := accept_invB h hav
  unfold accept at h
  rw [List.foldlM_append] at h
  simp only [bind, Except.bind] at h
  cases h1 : evs.foldlM step (init false) with
  | error m => simp [h1] at h
  | ok s1 =>
    rw [h1] at h
    simp only [List.foldlM_cons, List.foldlM_nil, bind, Except.bind] at h
    split at h
    · simp at h
    · rename_i s2 hs2
      simp only [pure, Except.pure, Except.ok.injEq] at h
      subst h
      simp only [step] at hs2
      cases hmode : s1.mode <;> cases hbest : s1.best <;> rw [hmode, hbest] at hs2 <;> simp only at hs2
      case idle.some b =>
        split at hs2
        · simp at hs2
        · split at hs2
          · simp at hs2
          · rename_i hv
            simp only [Except.ok.injEq] at hs2
            subst hs2
            simp only [Decidable.not_not] at hv
            intro hh hmem
            rcases hinv.cover hh hmem with c | ⟨b', c1, c2⟩ | ⟨c0, _⟩ | ⟨p, c1, _⟩ | ⟨g, c1, _⟩
            · rw [c]; exact better_nan _
            · rw [hbest] at c1; simp only [Option.some.injEq] at c1; subst c1; rw [hv]; exact c2
            · rw [hmode] at c0; simp [Mode.isRun] at c0
            · rw [hinv.nopend.2.2 hmode] at c1; simp at c1
            · rw [hmode] at c1; simp at c1
      all_goals simp at hs2

/-- every entry of the history is an evaluation event of the trace (so `C04_best` speaks about all
    `objfun` calls the wrappers recorded) -/
theorem C04_hist_complete {evs : List Ev} {s : St} (h : accept false evs = .ok s) :
    ∀ x ∈ s.hist, ∃ evalNo nc, Ev.obj x.1 evalNo x.2.1 x.2.2.1 x.2.2.2 nc ∈ evs := by
  intro x hx
  rcases foldlM_hist evs h x hx with h0 | h0
  · simp [init] at h0
  · exact h0

/-- **a later run can only improve on an earlier one**: the hard-restart merge keeps a value at
    least as good as both candidates. -/
theorem C04_restart_monotone (best : Option Cand) (c : Cand) :
    Better (merge best c).obj c.obj ∧ ∀ b, best = some b → Better (merge best c).obj b.obj :=
  ⟨merge_right best c, merge_left best c⟩

/-- **the ratio gate (L0, exact arithmetic)**: the solver opens the incumbent's row for replacement
    (`skip_kopt=False`) only when `calculate_ratio` returned without exit and `ratio > 0`; with a defined
    division that implies the trial point is strictly better than the incumbent.  (`calcRatio`,
    `mayReplaceKopt` are compared bit for bit with every `calculate_ratio` call of the traced runs.) -/
theorem C04_ratio_gate (pred actual : ℝ) (nproj : Nat)
    (hex : (Radius.calcRatio realRadOps pred actual nproj).2 = none) (hp : pred ≠ 0)
    (hr : Radius.mayReplaceKopt realRadOps (Radius.calcRatio realRadOps pred actual nproj).1 = true) : 0 < actual :=
  Radius.mayReplaceKopt_imp_decrease pred actual nproj hex hp hr

/-- layer G (translated code): the decision tail of `Controller.calculate_ratio`, the test in front of
    `skip_kopt=False` and the list of call sites passing `skip_kopt=False`, as generated from /repo's AST on
    this run, are the kernels `C04_ratio_gate` speaks about -/
theorem gen_calcRatio_eq {F : Type} (o : RadOps F) (pred actual : F) (nproj : Nat) :
    Gen.calcRatio o pred actual nproj = Radius.calcRatio o pred actual nproj := rfl

theorem gen_mayReplaceKopt_eq {F : Type} (o : RadOps F) (ratio : F) :
    Gen.mayReplaceKopt o ratio = Radius.mayReplaceKopt o ratio := rfl

theorem gen_skipKopt_guards :
    Gen.skipKoptFalseGuards = [("control.choose_point_to_replace", ["ratio > 0.0"])] := by decide

/-- the gate, stated on the translated code -/
theorem C04_gen_ratio_gate (pred actual : ℝ) (nproj : Nat)
    (hex : (Gen.calcRatio realRadOps pred actual nproj).2 = none) (hp : pred ≠ 0)
    (hr : Gen.mayReplaceKopt realRadOps (Gen.calcRatio realRadOps pred actual nproj).1 = true) : 0 < actual := by
  rw [gen_calcRatio_eq] at hex hr
  rw [gen_mayReplaceKopt_eq] at hr
  exact C04_ratio_gate pred actual nproj hex hp hr

/-- layer G (translated code): the four tests of model.py that decide which point `Model` keeps
    (`change_point`, `add_new_point`, `save_point`, `get_final_results`), as generated from /repo's AST on this
    run, are the decisions of the L1 state machine that `BookAcc` replays -/
theorem gen_model_decisions (allow : Bool) (v opt : Val) (saved : Option Val) :
    Gen.changePointUpdatesKopt allow v opt = (allow && MState.improves v opt) ∧
    Gen.addPointUpdatesKopt v opt = MState.improves v opt ∧
    Gen.savePointAccepts saved v = MState.saveAccepts v saved ∧
    Gen.finalPrefersCurrent saved opt = MState.finalPrefersOpt opt saved := by
  refine ⟨rfl, rfl, ?_, ?_⟩ <;> cases saved <;> rfl

/-- layer G (translated code): the test of `solve()` that decides whether a hard-restarted run's result
    replaces the best so far is the one `merge` (hence `C04_restart_monotone`) uses -/
theorem gen_restart_merge (b c : Cand) :
    merge (some b) c = if Gen.restartMergeTakesNew c.obj b.obj then c else b := rfl

/-- a (slightly) negative predicted reduction never passes the gate: it is an exit, whatever its size -/
theorem C04_negative_pred_exits {F : Type} (o : RadOps F) (pred actual : F) (nproj : Nat) (h : o.lt pred (o.lit 0 0) = true) :
    (Radius.calcRatio o pred actual nproj).2 ≠ none := by
  intro hn
  have := (Radius.calcRatio_exit_iff o pred actual nproj).mp hn
  rw [h] at this; exact Bool.noConfusion this

/-! ### non-vacuity: the C03 example trace is accepted with `averaged = false`; its result 40 is the best of 50, 40, 45, 60 -/

def exTrace : List Ev :=
  [ .rst 0 0 0 false 9 3, .ns 1, .obj 1 1 1 7 (.num 50) 1, .ctrl 1 1 (.num 50) 3 (.num 0),
    .evb 1 8, .obj 2 2 2 8 (.num 40) 1, .eve 1 none .other (.num 40) (.num 0) false, .chg 1 2 true (.num 40) 2 1,
    .evb 1 9, .obj 3 3 3 9 (.num 45) 1, .eve 1 none .other (.num 45) (.num 0) false, .chg 2 3 true (.num 45) 3 1,
    .itp true, .srb 0 1 (.num 40), .sav 1 2 (.num 40) true true,
    .evb 1 10, .obj 4 4 4 10 (.num 60) 1, .eve 1 none .other (.num 60) (.num 0) false, .chg 1 4 true (.num 60) 4 1,
    .sre false, .fin 2 1 (.num 40) (some [1, 2, 3]),
    .rend 4 4 2 1 .maxfun 2 1 (.num 40) false true, .res 4 4 2 1 .maxfun 2 (.num 40) false ]

example : (accept false exTrace).toOption.map (fun s => (s.averaged, s.hist.map (·.2.2.2))) =
    some (false, [.num 60, .num 45, .num 40, .num 50]) := by decide

/-- pinned tree: the exit after `calculate_ratio` dropped the evaluated trial point (value 30, the best) — rejected -/
example : (accept false (exTrace.take 12 ++
    [.evb 1 10, .obj 4 4 4 10 (.num 30) 1, .eve 1 none .other (.num 30) (.num 0) false,
     .fin 2 1 (.num 40) none, .rend 4 4 1 (-2) .trinc 2 1 (.num 40) false true])).toOption.isNone = true := by decide

/-- incumbent overwritten by a worse point without saving it first — rejected -/
example : (accept false (exTrace.take 12 ++
    [.evb 1 10, .obj 4 4 4 10 (.num 60) 1, .eve 1 none .other (.num 60) (.num 0) false,
     .chg 1 4 true (.num 60) 4 1])).toOption.isNone = true := by decide

/-! ### layer G: no evaluated point is dropped, at the source -/

/-- **every point evaluated in the main loop is handed to the model**: for EVERY execution of the loop body (skeleton translated
    from solver.py on every run), with the monitor `MainLoopPaths.mStore`: there is never a second `evaluate_objective` while an
    evaluated point waits to be stored, and at the end of the body (continue, break or raise) the evaluated point has gone to
    `change_point` or `save_point` — unless the path went through the NaN branch, through `num_samples_run > 0` being false
    (nothing was evaluated), or through the failure branch directly after the second `choose_point_to_replace` (its first call,
    on the same point set, succeeded).  The pinned tree dropped the trial point on the exit after `calculate_ratio`. -/
theorem C04_src_no_point_dropped {tr : List String} {e : Skel.Ending} (hx : Skel.Exec Gen.mainLoop tr e) :
    (MainLoopPaths.mStore.run ⟨false, false, false, false⟩ tr).dropped = false ∧
    ((MainLoopPaths.mStore.run ⟨false, false, false, false⟩ tr).pend = true →
     (MainLoopPaths.mStore.run ⟨false, false, false, false⟩ tr).excused = true) :=
  MainLoopPaths.store_trace hx

/-- the monitor on the pinned shape of that exit: evaluation, ratio, exit taken without `save_point` — pending and not excused -/
example : (MainLoopPaths.mStore.run ⟨false, false, false, false⟩
    ["eval", "F:np.any(np.isnan(rvec_list))", "F:exit_info is not None", "ratio", "T:exit_info is not None", "nruns"]).pend = true ∧
    (MainLoopPaths.mStore.run ⟨false, false, false, false⟩
    ["eval", "F:np.any(np.isnan(rvec_list))", "F:exit_info is not None", "ratio", "T:exit_info is not None", "nruns"]).excused = false := by
  decide

/-- **the Controller never drops an evaluated point either**: for each of the eight Controller methods that call
    `evaluate_objective` (growing, geometry step and its two callers, both regression routines, `soft_restart`, both
    initialisations; skeletons with loops and `return`s translated from controller.py on every run) and EVERY execution of the
    method (any number of iterations of any loop): outside the documented parallel initialisation there is never a second
    evaluation while an evaluated point waits, and at `return` the evaluated point has gone to `change_point`, `add_new_point` or
    `save_point` — unless nothing was evaluated (`num_samples_run > 0` false) or `choose_point_to_replace` failed for that very
    point (`linalg_error`, growing routine only). -/
theorem C04_src_controller_no_point_dropped {name : String} {p : SkelL.Prog} (hm : (name, p) ∈ CtrlPaths.methods)
    {tr : List String} {e : SkelL.Ending} (hx : SkelL.Exec p tr e) :
    let q := CtrlPaths.mS.run CtrlPaths.q0 tr
    q.par = true ∨ (q.dropped = false ∧ (q.pend = true → q.excused = true)) := by
  intro q
  have h := CtrlPaths.no_drop hm hx
  simp only [CtrlPaths.okS, Bool.or_eq_true, Bool.and_eq_true, Bool.not_eq_true'] at h
  rcases h with h | ⟨h1, h2⟩
  · exact Or.inl h
  · refine Or.inr ⟨h1, fun hp => ?_⟩
    rcases h2 with h2 | h2
    · exact absurd hp (by simp [q, h2])
    · exact h2

/-- non-vacuity: eight methods, and the loop fixed points were reached (`wf`) -/
example : CtrlPaths.methods.length = 8 ∧
    SkelL.wf CtrlPaths.mS Gen.Ctrl.softRestart CtrlPaths.q0 = true ∧ SkelL.size Gen.Ctrl.initialiseCoordinateDirections > 50 := by
  decide +kernel

/-- **what a run returns comes from the final-result query** (whole-function skeleton of solve_main, every execution): the exit taken
    when the initialisation reports an exit and the return after the main loop are each preceded by exactly one call of
    `Model.get_final_results` — which returns the better of the saved point and the incumbent (`C17_final_better`), so a point handed
    to `save_point` on the way out (`C04_src_*_no_point_dropped`) is not lost at the last step -/
theorem C04_src_returns_via_final_results {tr : List String} {e : SkelL.Ending} (hx : SkelL.Exec Gen.solveMainBody tr e) :
    (SolveMainPaths.mF.run ⟨0, false⟩ tr).bad = false :=
  SolveMainPaths.returns_via_final_results hx

end C04
end Dfols
