/-
  C01 — Bound constraints are never violated at any evaluation point.

  "Every point at which the solver calls the user's residual function satisfies lower <= x <= upper
  exactly (componentwise, no tolerance), and so does the returned solution x."

  Kernel theorems (componentwise; vectors are handled elementwise by NumPy): for EVERY rounding of
  `+` and `×` (arbitrary functions, may even produce NaN), every base point, every step, every
  relative bound: the value handed to `objfun` is NaN or lies in `[xl, xu]`.
  Provenance ("every objfun argument is such a value") is layer G: `Gen/CallSites.lean`, regenerated
  from /repo's AST on every run, `callsites_ok` below.
-/
import DfolsVerif.Kernels.Clip
import DfolsVerif.Gen.CallSites
import DfolsVerif.Gen.ClipFns
import DfolsVerif.Proofs.Scaling

namespace Dfols
namespace C01

open Clip

/-- membership in the box, or NaN -/
def InBoxOrNaN (l u : Int) (r : Val) : Prop := r = .nan ∨ ∃ k, r = .num k ∧ l ≤ k ∧ k ≤ u

theorem final_clip (l u : Int) (h : l ≤ u) (y : Val) : InBoxOrNaN l u (npMinV (npMaxV (.num l) y) (.num u)) := by
  cases y with
  | nan => left; rfl
  | num k =>
    right
    simp only [npMaxV, npMinV]
    refine ⟨_, rfl, ?_, ?_⟩ <;> (repeat' split) <;> omega

theorem final_clip' (l u : Int) (h : l ≤ u) (y : Val) : InBoxOrNaN l u (npMinV (npMaxV y (.num l)) (.num u)) := by
  cases y with
  | nan => left; rfl
  | num k =>
    right
    simp only [npMaxV, npMinV]
    refine ⟨_, rfl, ?_, ?_⟩ <;> (repeat' split) <;> omega

/-- **as_absolute_coordinates / xpt(abs)**: in bounds (or NaN) for any rounding of `+`. -/
theorem C01_asAbs_in_bounds (add mul : Val → Val → Val) (l u : Int) (h : l ≤ u) (xbase sl su x : Val) :
    InBoxOrNaN l u (asAbs (valOps add mul) (.num l) (.num u) xbase sl su x) := by
  unfold asAbs
  exact final_clip l u h _

/-- **remove_scaling**: in the ORIGINAL bounds (or NaN) for any rounding of `+`, `×` — whatever the scaled value was. -/
theorem C01_removeScaling_in_bounds (add mul : Val → Val → Val) (l u : Int) (h : l ≤ u) (shift scale x : Val) :
    InBoxOrNaN l u (removeScaling (valOps add mul) shift scale (.num l) (.num u) x) := by
  unfold removeScaling
  exact final_clip' l u h _

/-- **the argument of objfun** (scaled problems: composition of the two) is in the user's bounds or NaN. -/
theorem C01_eval_in_bounds (add mul : Val → Val → Val) (l u : Int) (h : l ≤ u)
    (shift scale xlS xuS xbase sl su x : Val) :
    InBoxOrNaN l u (evalArgScaled (valOps add mul) shift scale (.num l) (.num u) xlS xuS xbase sl su x) := by
  unfold evalArgScaled
  exact C01_removeScaling_in_bounds add mul l u h _ _ _

/-- **x0 clamping**: a non-NaN starting point is moved into the bounds, a feasible one is unchanged. -/
theorem C01_x0_clamp (add mul : Val → Val → Val) (l u : Int) (h : l ≤ u) (k : Int) :
    ∃ r, clampX0 (valOps add mul) (.num l) (.num u) (.num k) = .num r ∧ l ≤ r ∧ r ≤ u ∧ (l ≤ k → k ≤ u → r = k) := by
  simp only [clampX0, valOps, Val.lt]
  by_cases h1 : k < l
  · simp only [h1, decide_true, ↓reduceIte]
    by_cases h2 : u < l
    · omega
    · simp only [h2, decide_false, Bool.false_eq_true, ↓reduceIte]
      exact ⟨l, rfl, by omega, by omega, by omega⟩
  · simp only [h1, decide_false, Bool.false_eq_true, ↓reduceIte]
    by_cases h2 : u < k
    · simp only [h2, decide_true, ↓reduceIte]
      exact ⟨u, rfl, by omega, by omega, by omega⟩
    · simp only [h2, decide_false, Bool.false_eq_true, ↓reduceIte]
      exact ⟨k, rfl, by omega, by omega, fun _ _ => rfl⟩

/-- no NaN is introduced by the clipping itself: numeric inputs and a numeric sum give a numeric result. -/
theorem C01_no_new_nan (add mul : Val → Val → Val) (l u b sl su x s : Int)
    (hadd : add (.num b) (clip (valOps add mul) (.num sl) (.num su) (.num x)) = .num s) :
    ∃ r, asAbs (valOps add mul) (.num l) (.num u) (.num b) (.num sl) (.num su) (.num x) = .num r := by
  unfold asAbs asAbsOld
  simp only [valOps] at hadd ⊢
  rw [hadd]
  exact ⟨_, rfl⟩

/-- layer G (translated code): `Model.as_absolute_coordinates`, `Model.xpt` (both branches), `util.remove_scaling`
    (with the 4-tuple `solve()` builds) and the two masked assignments that push x0 into the box, as generated
    from /repo's AST on this run, ARE the kernels the theorems above speak about (`rfl`) -/
theorem gen_clip_fns {F : Type} (o : ClipOps F) (xl xu xbase sl su x shift scale : F) :
    Gen.asAbs o xl xu xbase sl su x = asAbs o xl xu xbase sl su x ∧
    Gen.xptAbs o xl xu xbase sl su x = asAbs o xl xu xbase sl su x ∧
    Gen.xptRel o sl su x = clip o sl su x ∧
    Gen.removeScaling o shift scale xl xu x = removeScaling o shift scale xl xu x ∧
    Gen.clampX0 o xl xu x = clampX0 o xl xu x :=
  ⟨rfl, rfl, rfl, rfl, rfl⟩

/-- the tuple `remove_scaling` receives is `(shift, scale, xl, xu)` with `xl`, `xu` copies of the USER's bounds taken before
    they are scaled (so that the final clip of `remove_scaling` is onto the user's box, the hypothesis of
    `C01_removeScaling_in_bounds`), `shift = xl`, `scale = xu - xl` — the statements of `solve()` as text; the block is
    entered only for bounds of x0's shape with `xu - xl > 0` everywhere (so `scale` has no zero or negative entry) -/
theorem gen_scaling_setup : Gen.scalingSetup =
    ["if scaling_within_bounds and np.shape(xl) == np.shape(x0) and (np.shape(xu) == np.shape(x0)) and np.all(xu - xl > 0.0):",
     "shift = xl.copy()", "scale = xu - xl", "scaling_changes = (shift, scale, xl.copy(), xu.copy())",
     "x0 = apply_scaling(x0, scaling_changes)", "xl = apply_scaling(xl, scaling_changes)", "xu = apply_scaling(xu, scaling_changes)",
     "apply_scaling: if scaling_changes is None:     return x_raw ; shift, scale = (scaling_changes[0], scaling_changes[1]) ; return (x_raw - shift) / scale"] := by
  decide +kernel

/-- the bound theorem stated on the translated code: whatever `+`/`*` round to, the point produced by the
    current source of `remove_scaling(as_absolute_coordinates(x))` is inside the user's box or NaN -/
theorem C01_gen_eval_in_bounds (add mul : Val → Val → Val) (l u : Int) (h : l ≤ u)
    (shift scale xlS xuS xbase sl su x : Val) :
    InBoxOrNaN l u (Gen.removeScaling (valOps add mul) shift scale (.num l) (.num u)
      (Gen.asAbs (valOps add mul) xlS xuS xbase sl su x)) := by
  rw [(gen_clip_fns (valOps add mul) (.num l) (.num u) xbase sl su _ shift scale).2.2.2.1]
  exact C01_removeScaling_in_bounds add mul l u h shift scale _

/-- **provenance (layer G)**: every call site of `evaluate_objective` in /repo passes a value produced
    by `as_absolute_coordinates`, and every `objfun` evaluation goes through `remove_scaling` — read from
    the AST of controller.py / solver.py on every run. -/
theorem callsites_ok :
    Gen.evalObjSites.all (fun s => s.2.2 == "as_absolute_coordinates") = true ∧
    Gen.objfunSites.all (fun s => s.2.2 == "remove_scaling") = true ∧
    Gen.evalObjSites.length = 11 ∧ Gen.objfunSites.length = 3 := by decide

/-! ### the pinned formulas overshoot (kernel-evaluated IEEE witnesses) -/

/-- `xbase + (xu - xbase) > xu` in binary64 for xbase = -1.23, xu = 0.37 (pinned `as_absolute_coordinates`) -/
theorem C01_old_overshoots :
    decide ((asAbsOld floatOps (-1.23) (-5.0 - (-1.23)) (0.37 - (-1.23)) 9.0 : Float) ≤ 0.37) = false := by
  decide +kernel

/-- the repaired formula on the same input returns exactly the bound -/
theorem C01_new_exact :
    decide ((asAbs floatOps (-5.0) 0.37 (-1.23) (-5.0 - (-1.23)) (0.37 - (-1.23)) 9.0 : Float) == 0.37) = true := by
  decide +kernel

example : InBoxOrNaN 3 9 (asAbs (valOps (fun _ _ => .num 100) (fun _ _ => .nan)) (.num 3) (.num 9) (.num 0) (.num 1) (.num 2) (.num 7)) :=
  C01_asAbs_in_bounds _ _ 3 9 (by omega) _ _ _ _

/-! ### layer G: `scaling_within_bounds` (apply_scaling / remove_scaling translated from util.py on every run) -/

/-- **scaling is a round trip on the box, and un-scaling clamps** (exact arithmetic, any linearly ordered field): with
    `shift = xl`, `scale = xu − xl` as `solve()` defines them (`xl < xu`), the bounds are scaled to 0 and 1, a point of the
    box is scaled into [0, 1] and un-scaled back to itself, and un-scaling ANY internal point gives a point of the user's
    box `[xl, xu]` (the clamp with the third and fourth entries of `scaling_changes`, which are `xl`, `xu`). -/
theorem C01_scaling_roundtrip {K : Type*} [Field K] [LinearOrder K] [IsStrictOrderedRing K] (xl xu x z : K) (h : xl < xu)
    (hx : xl ≤ x ∧ x ≤ xu) :
    let shift := Gen.scalingShiftSrc xl xu
    let scale := Gen.scalingScaleSrc xl xu
    Gen.applyScalingSrc shift scale xl = 0 ∧ Gen.applyScalingSrc shift scale xu = 1 ∧
    (0 ≤ Gen.applyScalingSrc shift scale x ∧ Gen.applyScalingSrc shift scale x ≤ 1) ∧
    Gen.removeScalingSrc shift scale xl xu (Gen.applyScalingSrc shift scale x) = x ∧
    (xl ≤ Gen.removeScalingSrc shift scale xl xu z ∧ Gen.removeScalingSrc shift scale xl xu z ≤ xu) ∧
    Gen.scalingTuple = ["shift", "scale", "xl", "xu"] :=
  ⟨(Scaling.scaled_box xl xu h).1, (Scaling.scaled_box xl xu h).2, Scaling.scaled_in_unit xl xu x h hx,
   Scaling.remove_apply xl xu x h hx, Scaling.remove_in_box _ _ xl xu z h.le, Scaling.tuple_shape⟩

end C01
end Dfols
