/-
  C18 — Trust-region radii and the diagnostic table obey their invariants.

  "At every iteration recorded in soln.diagnostic_info: delta >= rho > 0, rhoend <= rho <= rhobeg
  (rhoend as rescaled by the documented per-restart factor), delta <= 1e10; within one run rho never
  increases (unless the documented reset at the end of the growing phase is enabled) ..."

  Model: the radius-update kernels `Kernels/Radius.lean` (exactly the Python expressions; tied to
  /repo by (i) `radius_src_eq`: the hashed canonical source of EVERY assignment to delta/rho/rhoend,
  regenerated from the AST on every run, equals the reference the kernels were written against, and
  (ii) a bit-exact Float correspondence with the (ratio, dnorm, tau, delta, rho) observed in real runs).
  Theorems are exact-arithmetic (ℝ): rounding is NOT covered (watched by the search on the real table).
  The table-shape clauses (rows, counters) are proved for every trace the `DiagAcc` acceptor accepts
  (`C18_table_shape`); real runs' events are fed to that acceptor (correspondence).
-/
import DfolsVerif.Proofs.Radius
import DfolsVerif.Proofs.RadiusRounded
import Mathlib.Algebra.Order.Floor.Ring
import DfolsVerif.Gen.RadiusSrc
import DfolsVerif.Gen.KernelFns
import DfolsVerif.Spec.RadiusSrc
import DfolsVerif.Accept.IterAcc
import DfolsVerif.Accept.DiagAcc
import DfolsVerif.Proofs.DiagTable
import DfolsVerif.Proofs.MainLoopPaths
import DfolsVerif.Proofs.CtrlPaths
import DfolsVerif.Proofs.SolveMainPaths

namespace Dfols
namespace C18

open Radius

/-- **layer G**: every assignment to `delta`, `rho`, `rhoend` in controller.py / solver.py (with its
    radius-relevant guards), `reduce_rho`'s body and the definitions of `dnorm`, `tau` are textually the
    ones the kernels mirror. -/
theorem radius_src_eq : Gen.radiusSrc = Spec.radiusSrc := by decide

/-! ### layer G, translated code: the functions generated from /repo's AST on this run ARE the kernels -/

/-- `Controller.reduce_rho`, as translated from the current source, is `Radius.reduceRho` -/
theorem gen_reduceRho_eq {F : Type} (o : RadOps F) (p : TRParams F) (delta rho rhoend : F) :
    Gen.reduceRho o p delta rho rhoend = reduceRho o p rho rhoend := rfl

/-- the delta update after `calculate_ratio` in solver.py, as translated from the current source, is
    `Radius.trUpdate` with the decrease factor chosen by `finished_growing` -/
theorem gen_trUpdate_eq {F : Type} (o : RadOps F) (p : TRParams F) (g : F) (fg : Bool) (ratio dnorm tau delta rho : F) :
    Gen.trUpdate o p g fg ratio dnorm tau delta rho =
      trUpdate o { p with gammaDec := if fg then p.gammaDec else g } ratio dnorm tau delta rho := by
  cases fg <;> rfl

/-- `check_and_fix_geometry`'s reduction of delta, as translated, is `Radius.geomDelta` -/
theorem gen_geomDelta_eq {F : Type} (o : RadOps F) (delta rho dist : F) :
    Gen.geomDelta o delta rho dist = geomDelta o delta rho dist := rfl

/-- the safety-step reduction in solver.py, as translated, is `Radius.geomDelta` at `sqrt(distsq)` -/
theorem gen_safetyDelta_eq {F : Type} (o : RadOps F) (delta rho distsq : F) :
    Gen.safetyDelta o delta rho distsq = geomDelta o delta rho (o.sqrt distsq) := rfl

/-- the radius state `(delta, rho, rhoend)` and the operations the solver applies to it -/
inductive ROp where
  | reduce                          -- reduce_rho (the code calls it only while rho > rhoend)
  | tr (ratio dnorm tau : ℝ)        -- delta update after calculate_ratio
  | geom (dist : ℝ)                 -- check_and_fix_geometry(update_delta=True) / safety reduce_delta
  | restart (scale : ℝ)             -- soft restart: delta = rho = rhobeg, rhoend *= scale
  | growReset                       -- end of growing with reset_delta and reset_rho

noncomputable def applyOp (p : TRParams ℝ) (rhobeg : ℝ) : ℝ × ℝ × ℝ → ROp → ℝ × ℝ × ℝ
  | (δ, ρ, ρe), .reduce => if ρe < ρ then ((reduceRho realRadOps p ρ ρe).1, (reduceRho realRadOps p ρ ρe).2, ρe) else (δ, ρ, ρe)
  | (δ, ρ, ρe), .tr ratio dnorm tau => (trUpdate realRadOps p ratio dnorm tau δ ρ, ρ, ρe)
  | (δ, ρ, ρe), .geom dist => (geomDelta realRadOps δ ρ dist, ρ, ρe)
  | (_, _, ρe), .restart scale => (rhobeg, rhobeg, scale * ρe)
  | (_, _, ρe), .growReset => (rhobeg, rhobeg, ρe)

/-- side conditions under which the invariant is preserved: the documented rescaling factor is in (0, 1] -/
def OpOK : ROp → Prop
  | .restart scale => 0 < scale ∧ scale ≤ 1
  | _ => True

theorem applyOp_inv (p : TRParams ℝ) (rhobeg : ℝ) (ha1 : 1 / 250 ≤ p.alpha1) (ha1' : p.alpha1 ≤ 1)
    (s : ℝ × ℝ × ℝ) (op : ROp) (hop : OpOK op) (hi : RadInv rhobeg s.2.2 s.1 s.2.1) :
    RadInv rhobeg (applyOp p rhobeg s op).2.2 (applyOp p rhobeg s op).1 (applyOp p rhobeg s op).2.1 := by
  obtain ⟨δ, ρ, ρe⟩ := s
  obtain ⟨h0, h1, h2, h3⟩ := hi
  simp only at h0 h1 h2 h3
  cases op with
  | reduce =>
    simp only [applyOp]
    split
    · rename_i hgt
      exact (reduceRho_inv p rhobeg ρe δ ρ ⟨h0, h1, h2, h3⟩ hgt ha1 ha1').1
    · exact ⟨h0, h1, h2, h3⟩
  | tr ratio dnorm tau =>
    simp only [applyOp]
    exact ⟨h0, h1, h2, trUpdate_ge_rho p ratio dnorm tau δ ρ (by linarith)⟩
  | geom dist =>
    simp only [applyOp]
    exact ⟨h0, h1, h2, geomDelta_ge_rho δ ρ dist (by linarith)⟩
  | restart scale =>
    simp only [applyOp, OpOK] at hop ⊢
    refine ⟨by nlinarith [hop.1], ?_, le_refl _, le_refl _⟩
    nlinarith [hop.1, hop.2]
  | growReset =>
    simp only [applyOp]
    exact ⟨h0, by linarith, le_refl _, le_refl _⟩

/-- **C18 (radii, exact arithmetic)**: from `delta = rho = rhobeg ≥ rhoend > 0`, after ANY sequence of
    radius operations (any ratios, step norms, tau, distances; any number of restarts):
    `delta ≥ rho`, `rhoend ≤ rho ≤ rhobeg`, `rho > 0`.  Needs `1/250 ≤ alpha1 ≤ 1` (defaults 0.1 / 0.9;
    the parameter table accepts the whole of [0, 1]: recorded finding). -/
theorem C18_radii (p : TRParams ℝ) (rhobeg rhoend : ℝ) (h0 : 0 < rhoend) (h1 : rhoend ≤ rhobeg)
    (ha1 : 1 / 250 ≤ p.alpha1) (ha1' : p.alpha1 ≤ 1) (ops : List ROp) (hops : ∀ op ∈ ops, OpOK op) :
    let s := ops.foldl (applyOp p rhobeg) (rhobeg, rhobeg, rhoend)
    s.2.1 ≤ s.1 ∧ s.2.2 ≤ s.2.1 ∧ s.2.1 ≤ rhobeg ∧ 0 < s.2.1 := by
  have key : ∀ (ops : List ROp) (s : ℝ × ℝ × ℝ), (∀ op ∈ ops, OpOK op) → RadInv rhobeg s.2.2 s.1 s.2.1 →
      RadInv rhobeg (ops.foldl (applyOp p rhobeg) s).2.2 (ops.foldl (applyOp p rhobeg) s).1 (ops.foldl (applyOp p rhobeg) s).2.1 := by
    intro ops
    induction ops with
    | nil => intro s _ hi; exact hi
    | cons op ops ih =>
      intro s hok hi
      simp only [List.foldl_cons]
      exact ih _ (fun o ho => hok o (List.mem_cons_of_mem _ ho))
        (applyOp_inv p rhobeg ha1 ha1' s op (hok op List.mem_cons_self) hi)
  have := key ops (rhobeg, rhobeg, rhoend) hops ⟨h0, h1, le_refl _, le_refl _⟩
  obtain ⟨a, b, c, d⟩ := this
  exact ⟨d, b, c, by linarith⟩

/-- **rho never increases within a run**: only `restart` / `growReset` raise it. -/
theorem C18_rho_nonincreasing (p : TRParams ℝ) (rhobeg : ℝ) (ha1 : 1 / 250 ≤ p.alpha1) (ha1' : p.alpha1 ≤ 1)
    (s : ℝ × ℝ × ℝ) (op : ROp) (hi : RadInv rhobeg s.2.2 s.1 s.2.1)
    (hnr : ∀ sc, op ≠ .restart sc) (hng : op ≠ .growReset) : (applyOp p rhobeg s op).2.1 ≤ s.2.1 := by
  obtain ⟨δ, ρ, ρe⟩ := s
  cases op with
  | reduce =>
    simp only [applyOp]
    split
    · rename_i hgt; exact (reduceRho_inv p rhobeg ρe δ ρ hi hgt ha1 ha1').2.1
    · exact le_refl _
  | tr _ _ _ => exact le_refl _
  | geom _ => exact le_refl _
  | restart sc => exact absurd rfl (hnr sc)
  | growReset => exact absurd rfl hng

/-- **delta ≤ 1e10 without a regulariser** (`tau = 1`): the three ratio classes keep the cap. -/
theorem C18_delta_cap_partial (p : TRParams ℝ) (ratio dnorm delta rho : ℝ)
    (hd : delta ≤ 1e10) (hdn : dnorm ≤ delta) (hrho : rho ≤ delta) (hg0 : 0 ≤ p.gammaDec) (hg : p.gammaDec ≤ 1)
    (hdel : 0 ≤ delta) : trUpdate realRadOps p ratio dnorm 1 delta rho ≤ 1e10 :=
  trUpdate_le_cap p ratio dnorm delta rho hd hdn hrho hg0 hg hdel

/-- **progress**: `reduce_rho` strictly decreases rho when `alpha1 < 1` (so an iteration that evaluates
    nothing and reduces rho makes progress; `alpha1 = 1.0` is accepted by the parameter table and then
    the solver can loop forever: recorded finding). -/
theorem C18_reduce_progress (p : TRParams ℝ) (rhobeg rhoend delta rho : ℝ) (hi : RadInv rhobeg rhoend delta rho)
    (hgt : rhoend < rho) (ha1 : 1 / 250 ≤ p.alpha1) (ha1' : p.alpha1 < 1) :
    (reduceRho realRadOps p rho rhoend).2 < rho :=
  (reduceRho_inv p rhobeg rhoend delta rho hi hgt ha1 (le_of_lt ha1')).2.2 ha1'

/-- **no stall (L2, floats)**: in every event list accepted by `IterAcc` (every iteration evaluates,
    strictly reduces rho, restarts or exits; `reduce_rho` strictly decreases the observed double rho and
    keeps it ≥ rhoend), the number of consecutive evaluation-free, restart-free iterations is at most the
    number of doubles between rhoend and the rho the streak started from: the main loop cannot spin
    without evaluating.  (The pinned tree violated the acceptor's `reduce_rho` rule and did spin.) -/
theorem C18_no_stall {evs : List IterAcc.IEv} {s : IterAcc.St} (h : IterAcc.accept evs = .ok s) (hs : s.streak ≠ 0) :
    (s.streak : Int) ≤ s.startKey - s.endKey := IterAcc.no_stall h hs

/-! ### the radii under rounding

  The same operation sequences, every arithmetic result rounded by an arbitrary monotone, idempotent
  rounding that overshoots by at most a factor 2 (`Proofs/RadiusRounded.lean`); comparisons, `min`, `max`
  exact.  IEEE binary64 round-to-nearest satisfies these laws as long as nothing overflows or underflows. -/

noncomputable def applyOpR (R : Rounding) (p : TRParams ℝ) (rhobeg : ℝ) : ℝ × ℝ × ℝ → ROp → ℝ × ℝ × ℝ
  | (δ, ρ, ρe), .reduce =>
      if ρe < ρ then ((reduceRho (roundedRadOps R) p ρ ρe).1, (reduceRho (roundedRadOps R) p ρ ρe).2, ρe) else (δ, ρ, ρe)
  | (δ, ρ, ρe), .tr ratio dnorm tau => (trUpdate (roundedRadOps R) p ratio dnorm tau δ ρ, ρ, ρe)
  | (δ, ρ, ρe), .geom dist => (geomDelta (roundedRadOps R) δ ρ dist, ρ, ρe)
  | (_, _, ρe), .restart scale => (rhobeg, rhobeg, R.rnd (scale * ρe))
  | (_, _, ρe), .growReset => (rhobeg, rhobeg, ρe)

/-- side conditions: the rescaling factor is in (0, 1] and the rescaled rhoend does not underflow to 0;
    the step norm handed to the delta update is a double -/
def OpOKR (R : Rounding) (ρe : ℝ) : ROp → Prop
  | .restart scale => 0 < scale ∧ scale ≤ 1 ∧ 0 < R.rnd (scale * ρe)
  | .tr _ dnorm _ => R.Rep dnorm
  | _ => True

theorem applyOpR_inv (R : Rounding) (hc : RepConsts R) (p : TRParams ℝ) (rhobeg : ℝ) (hb : R.Rep rhobeg)
    (ha1 : 1 / 250 ≤ p.alpha1) (ha1' : p.alpha1 ≤ 1)
    (s : ℝ × ℝ × ℝ) (op : ROp) (hop : OpOKR R s.2.2 op) (hi : RadInvR R rhobeg s.2.2 s.1 s.2.1) :
    RadInvR R rhobeg (applyOpR R p rhobeg s op).2.2 (applyOpR R p rhobeg s op).1 (applyOpR R p rhobeg s op).2.1 := by
  obtain ⟨δ, ρ, ρe⟩ := s
  obtain ⟨⟨h0, h1, h2, h3⟩, hre, hd, hr⟩ := hi
  simp only at h0 h1 h2 h3 hre hd hr hop
  cases op with
  | reduce =>
    simp only [applyOpR]
    split
    · rename_i hgt
      exact (reduceRho_inv_rounded R hc p rhobeg ρe δ ρ ⟨⟨h0, h1, h2, h3⟩, hre, hd, hr⟩ hgt ha1 ha1').1
    · exact ⟨⟨h0, h1, h2, h3⟩, hre, hd, hr⟩
  | tr ratio dnorm tau =>
    simp only [applyOpR, OpOKR] at hop ⊢
    exact ⟨⟨h0, h1, h2, trUpdate_ge_rho_rounded R hc p ratio dnorm tau δ ρ (by linarith) hr⟩, hre,
      trUpdate_rep R hc p ratio dnorm tau δ ρ hop hr, hr⟩
  | geom dist =>
    simp only [applyOpR]
    exact ⟨⟨h0, h1, h2, geomDelta_ge_rho_rounded R hc δ ρ dist (by linarith) hr⟩, hre, geomDelta_rep R δ ρ dist, hr⟩
  | restart scale =>
    simp only [applyOpR, OpOKR] at hop ⊢
    obtain ⟨hs0, hs1, hpos⟩ := hop
    have hle : R.rnd (scale * ρe) ≤ ρe := R.rnd_le hre (by nlinarith)
    exact ⟨⟨hpos, by linarith, le_refl _, le_refl _⟩, R.rep_rnd _, hb, hb⟩
  | growReset =>
    simp only [applyOpR]
    exact ⟨⟨h0, by linarith, le_refl _, le_refl _⟩, hre, hb, hb⟩

open Classical in
/-- run a sequence of operations, checking each one's side condition against the current `rhoend` -/
noncomputable def runR (R : Rounding) (p : TRParams ℝ) (rhobeg : ℝ) : ℝ × ℝ × ℝ → List ROp → Option (ℝ × ℝ × ℝ)
  | s, [] => some s
  | s, op :: ops => if OpOKR R s.2.2 op then runR R p rhobeg (applyOpR R p rhobeg s op) ops else none

/-- **C18 (radii, under rounding)**: from `delta = rho = rhobeg ≥ rhoend > 0` (doubles), after ANY sequence of
    radius operations whose side conditions hold — any ratios, step norms, tau, distances, any number of
    restarts — with EVERY product, quotient, square root and literal rounded by ANY monotone idempotent
    rounding with `rnd x ≤ 2x`: `delta ≥ rho`, `rhoend ≤ rho ≤ rhobeg`, `rho > 0`. -/
theorem C18_radii_rounded (R : Rounding) (hc : RepConsts R) (p : TRParams ℝ) (rhobeg rhoend : ℝ)
    (hb : R.Rep rhobeg) (he : R.Rep rhoend) (h0 : 0 < rhoend) (h1 : rhoend ≤ rhobeg)
    (ha1 : 1 / 250 ≤ p.alpha1) (ha1' : p.alpha1 ≤ 1) (ops : List ROp) (s : ℝ × ℝ × ℝ)
    (hrun : runR R p rhobeg (rhobeg, rhobeg, rhoend) ops = some s) :
    s.2.1 ≤ s.1 ∧ s.2.2 ≤ s.2.1 ∧ s.2.1 ≤ rhobeg ∧ 0 < s.2.1 := by
  have key : ∀ (ops : List ROp) (s0 s1 : ℝ × ℝ × ℝ), RadInvR R rhobeg s0.2.2 s0.1 s0.2.1 →
      runR R p rhobeg s0 ops = some s1 → RadInvR R rhobeg s1.2.2 s1.1 s1.2.1 := by
    intro ops
    induction ops with
    | nil => intro s0 s1 hi h; simp only [runR, Option.some.injEq] at h; subst h; exact hi
    | cons op ops ih =>
      intro s0 s1 hi h
      simp only [runR] at h
      split at h
      · rename_i hok
        exact ih _ _ (applyOpR_inv R hc p rhobeg hb ha1 ha1' s0 op hok hi) h
      · simp at h
  obtain ⟨⟨a, b, c, d⟩, _⟩ := key ops _ s ⟨⟨h0, h1, le_refl _, le_refl _⟩, he, hb, hb⟩ hrun
  exact ⟨d, b, c, by linarith⟩

/-- non-vacuity of the rounding laws: rounding DOWN to a grid of spacing `1/2^k` is monotone, idempotent and
    never overshoots; the integers (hence all constants of `RepConsts`) are on the grid.  (A second,
    trivial instance is `rnd = id`, which gives back the exact-arithmetic theorem.) -/
noncomputable def gridRounding (k : ℕ) : Rounding where
  rnd x := (⌊x * 2 ^ k⌋ : ℝ) / 2 ^ k
  mono := by
    intro x y h
    have hp : (0 : ℝ) < 2 ^ k := by positivity
    apply div_le_div_of_nonneg_right _ (le_of_lt hp)
    exact_mod_cast Int.floor_le_floor (mul_le_mul_of_nonneg_right h (le_of_lt hp))
  idem := by
    intro x
    have hp : (2 : ℝ) ^ k ≠ 0 := by positivity
    rw [div_mul_cancel₀ _ hp, Int.floor_intCast]
  over := by
    intro x hx
    have hp : (0 : ℝ) < 2 ^ k := by positivity
    have : (⌊x * 2 ^ k⌋ : ℝ) / 2 ^ k ≤ x := by
      rw [div_le_iff₀ hp]; exact Int.floor_le _
    linarith

theorem gridRounding_consts (k : ℕ) : RepConsts (gridRounding k) := by
  have h : ∀ n : ℤ, (gridRounding k).Rep (n : ℝ) := by
    intro n
    have hp : (2 : ℝ) ^ k ≠ 0 := by positivity
    show ((⌊(n : ℝ) * 2 ^ k⌋ : ℤ) : ℝ) / 2 ^ k = n
    have : ((n : ℝ) * 2 ^ k) = ((n * 2 ^ k : ℤ) : ℝ) := by push_cast; ring
    rw [this, Int.floor_intCast]
    push_cast
    field_simp
  exact ⟨by simpa using h 1, by simpa using h 4, by simpa using h 16, by simpa using h 250, by simpa using h 10000000000⟩

/-! ### the diagnostic table -/

abbrev Row := Nat × Nat × Nat × Nat × Nat × Nat   -- (iters_total, nruns, iter_this_run, nf, nx, npt)

theorem tableOK_unfold {maxNpt : Nat} : ∀ (l : List Row) (a b c : Nat), DiagAcc.TableOK maxNpt l a b c →
    (∀ r ∈ l, r.2.1 ≤ a ∧ r.2.2.2.1 ≤ b ∧ r.2.2.2.2.1 ≤ c ∧ 2 ≤ r.2.2.2.2.2 ∧ r.2.2.2.2.2 ≤ maxNpt) ∧
    l.Pairwise (fun newer older => older.2.1 ≤ newer.2.1 ∧ older.2.2.2.1 ≤ newer.2.2.2.1 ∧ older.2.2.2.2.1 ≤ newer.2.2.2.2.1) ∧
    (∀ k (hk : k < l.length), (l[k]).1 = l.length - 1 - k)
  | [], _, _, _, _ => ⟨by simp, List.Pairwise.nil, by simp⟩
  | (i, r, t, f, x, p) :: rest, a, b, c, h => by
    simp only [DiagAcc.TableOK] at h
    obtain ⟨e1, e2, e3, e4, e5, e6, e7⟩ := h
    obtain ⟨ih1, ih2, ih3⟩ := tableOK_unfold rest r f x e7
    refine ⟨?_, ?_, ?_⟩
    · intro q hq
      rcases List.mem_cons.mp hq with rfl | hq
      · exact ⟨e2, e3, e4, e5, e6⟩
      · obtain ⟨g1, g2, g3, g4, g5⟩ := ih1 q hq
        exact ⟨by omega, by omega, by omega, g4, g5⟩
    · refine List.Pairwise.cons ?_ ih2
      intro q hq
      obtain ⟨g1, g2, g3, _, _⟩ := ih1 q hq
      exact ⟨g1, g2, g3⟩
    · intro k hk
      cases k with
      | zero => simp only [List.getElem_cons_zero, List.length_cons]; omega
      | succ k =>
        simp only [List.getElem_cons_succ, List.length_cons]
        have := ih3 k (by simpa using hk)
        omega

/-- **C18, table clauses**: for every event sequence the diagnostic acceptor accepts (rows agree with the
    evaluations, points and completed runs counted so far; `iter_this_run` counts 0,1,2,… within a run),
    the table (newest row first) satisfies: every row's nruns / nf / nx is at most the final counters and
    npt ∈ [2, maxNpt]; down the table nruns, nf, nx never decrease; `iters_total` is 0,1,2,… without gaps. -/
theorem C18_table_shape {maxNpt : Nat} {evs : List DiagAcc.DEv} {s : DiagAcc.St} (h : DiagAcc.accept maxNpt evs = .ok s) :
    (∀ r ∈ s.rows, r.2.1 ≤ s.nruns ∧ r.2.2.2.1 ≤ s.nf ∧ r.2.2.2.2.1 ≤ s.nx ∧ 2 ≤ r.2.2.2.2.2 ∧ r.2.2.2.2.2 ≤ maxNpt) ∧
    s.rows.Pairwise (fun newer older => older.2.1 ≤ newer.2.1 ∧ older.2.2.2.1 ≤ newer.2.2.2.1 ∧ older.2.2.2.2.1 ≤ newer.2.2.2.2.1) ∧
    (∀ k (hk : k < s.rows.length), (s.rows[k]).1 = s.rows.length - 1 - k) :=
  tableOK_unfold _ _ _ _ (DiagAcc.table_ok h)

/-! ### why the hypotheses are needed -/

/-- with `alpha1 < 1/250` rho can drop below rhoend: alpha1 = 1/1000, rho = 300, rhoend = 1 gives 0.3 < 1 -/
noncomputable def badParams : TRParams ℝ :=
  { eta1 := 0, eta2 := 0, gammaDec := 0, gammaInc := 0, gammaIncOverline := 0, alpha1 := 1 / 1000, alpha2 := 1 / 2 }

example : (reduceRho realRadOps badParams 300 1).2 < 1 := by
  simp only [reduceRho, realRadOps, badParams]
  norm_num

/-- non-vacuity of `C18_radii`: defaults -/
example : (1 : ℝ) / 250 ≤ (1 : ℝ) / 10 ∧ (1 : ℝ) / 10 ≤ 1 := by norm_num

/-! ### the diagnostic table as a state machine (source facts generated from diagnostic_info.py / solver.py on every run) -/

/-- **what the source does to the table**: `save_info_from_control` appends exactly once, on every path through it, to
    every column `__init__` creates and to no other (and `iters_total` gets its old length); every other method only assigns
    the last element of such a column; every call is in the main loop of `solve_main` (not in an inner loop) under
    `params('logging.save_diagnostic_info')`, the save call first in source order as the first statement of a top-level
    `if` of the loop body with exactly that test; no other function of solver.py / controller.py calls these methods. -/
theorem C18_src_diag_sites :
    (Gen.diagSaveAppends.map (·.1) = Gen.diagInitKeys ∧ (∀ c ∈ Gen.diagSaveAppends, c.2.1 = 1 ∧ c.2.2 = 1) ∧
      Gen.diagInitKeys.Nodup ∧ Gen.diagItersTotalExpr = "len(self.data['iters_total'])") ∧
    (∀ o ∈ Gen.diagMethodOps,
      (o.1 = "save_info_from_control" ∧ (o.2.2 = "append" ∨ (o.2.2 = "len" ∧ o.2.1 = "iters_total"))) ∨
      (o.1 ≠ "save_info_from_control" ∧ o.2.2 = "set-last" ∧ o.2.1 ∈ Gen.diagInitKeys)) ∧
    ((∀ c ∈ Gen.diagCalls, c.inMainLoop = true ∧ c.innerLoops = 0 ∧ DiagTable.loggingLit ∈ c.path) ∧
      (∀ c ∈ Gen.diagCalls, c.method = "save_info_from_control" ↔ c.rank = 0) ∧
      (∃ c ∈ Gen.diagCalls, c.rank = 0 ∧ c.path = [⟨true, "True", "", ""⟩, DiagTable.loggingLit]) ∧
      Gen.diagSaveGuard = "params('logging.save_diagnostic_info')" ∧ Gen.diagCallsElsewhere = []) :=
  ⟨DiagTable.save_appends_once, DiagTable.other_methods_set_last, DiagTable.calls_shape⟩

/-- **the table is rectangular, no update fails, `iters_total` counts the rows** — for EVERY sequence of
    `DiagnosticInfo` method calls in which each update is preceded by a save (what `C18_src_diag_sites` gives: within an
    iteration the save comes first, rows are never removed) and names a column of `__init__`: the model runs through
    (no `IndexError` from `[-1]` on an empty column), every column has as many entries as there were saves — so
    `pd.DataFrame(data)` gets arrays of one length — on exactly the generated columns, and `iters_total` = 0, …, rows − 1. -/
theorem C18_diag_rectangular (ops : List DiagTable.Op) (hsf : DiagTable.savedFirst false ops = true)
    (hk : ∀ k, DiagTable.Op.update k ∈ ops → k ∈ Gen.diagInitKeys) :
    ∃ s', DiagTable.run (DiagTable.init Gen.diagInitKeys) ops = some s' ∧ (∀ kv ∈ s'.cols, kv.2 = DiagTable.saves ops) ∧
      s'.cols.map (·.1) = Gen.diagInitKeys ∧ s'.its = List.range (DiagTable.saves ops) :=
  DiagTable.run_from_init Gen.diagInitKeys ops hsf hk

/-! ### layer G: no iteration without progress, at the source -/

/-- **no stall, for every path of the translated main loop**: every execution of the loop body that goes on to the next
    iteration has called `evaluate_objective`, the growing routine or the regression routine (which evaluate), `reduce_rho`,
    `soft_restart`, or has passed a `did_fix_geom` test that held (a geometry step was made).  This is the rule `IterAcc`
    enforces on traces (`C18_no_stall`), here decided over ALL syntactic paths of the skeleton regenerated from solver.py. -/
theorem C18_src_no_stall {tr : List String} {e : Skel.Ending} (hx : Skel.Exec Gen.mainLoop tr e) (he : e = .cont) :
    ∃ a ∈ tr, MainLoopPaths.isProgress a = true :=
  MainLoopPaths.prog_trace hx he

/-- **a geometry fix is an evaluation** (skeletons of the two Controller methods, every execution path): `check_and_fix_geometry`
    leaves by `return` only and reports `did_fix_geom = True` only after it has called `geometry_step`; `geometry_step` leaves by
    `return` only and returns no exit object only after it has evaluated the new point and stored it with `change_point`.  In the
    main loop the test `did_fix_geom` is reached only behind `exit_info is None` — so the sixth kind of progress in
    `C18_src_no_stall` is an evaluation too. -/
theorem C18_src_geom_fix_evaluates :
    (∀ {tr : List String} {e : SkelL.Ending}, SkelL.Exec Gen.Ctrl.checkAndFixGeometry tr e →
      e = .ret ∧ ((CtrlPaths.mG.run CtrlPaths.qG0 tr).retTrue = true → (CtrlPaths.mG.run CtrlPaths.qG0 tr).geomstep = true)) ∧
    (∀ {tr : List String} {e : SkelL.Ending}, SkelL.Exec Gen.Ctrl.geometryStep tr e →
      e = .ret ∧ ((CtrlPaths.mG.run CtrlPaths.qG0 tr).retNone = true →
        (CtrlPaths.mG.run CtrlPaths.qG0 tr).eval = true ∧ (CtrlPaths.mG.run CtrlPaths.qG0 tr).chg = true)) :=
  ⟨fun hx => CtrlPaths.checkfix_trace hx, fun hx => CtrlPaths.geomstep_trace hx⟩

/-- in the main loop a `did_fix_geom` test that holds is reached only after `check_and_fix_geometry` was called and `exit_info is not
    None` was found false since (monitor `MainLoopPaths.mGeomGuard` never reaches its error state 3 on any execution path) — the
    hypothesis under which `C18_src_geom_fix_evaluates` makes `T:did_fix_geom` an evaluation -/
theorem C18_src_did_fix_geom_guarded {tr : List String} {e : Skel.Ending} (hx : Skel.Exec Gen.mainLoop tr e) :
    MainLoopPaths.mGeomGuard.run 0 tr ≠ 3 :=
  MainLoopPaths.geomguard_trace hx

/-- **one table row per iteration** (whole-function skeleton of solve_main, every execution, any number of iterations): the only
    method that appends a row to the diagnostic table is called at most once between two `current_iter += 1` and never outside the
    main loop — with `C18_diag_rectangular` (every column grows with that call, and only then): consecutive iteration numbers, one
    row each -/
theorem C18_src_one_row_per_iteration {tr : List String} {e : SkelL.Ending} (hx : SkelL.Exec Gen.solveMainBody tr e) :
    (SolveMainPaths.mD.run ⟨false, 0, false⟩ tr).bad = false :=
  SolveMainPaths.one_row_per_iteration hx

end C18
end Dfols
