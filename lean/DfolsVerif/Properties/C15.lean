/-
  C15 — Dykstra's projection is feasible, near-optimal and respects its stopping rule.

  Statement (properties.jsonl): for any finite list of exact projectors onto convex sets with a
  common point, whenever the routine stops by its tolerance rule the result lies within sqrt(p*tol)
  of every set and within 1e-3 of the true projection onto the intersection (as computed by a
  reference run to machine precision); a point already in all sets is returned unchanged up to
  rounding, the result always lies exactly in the last set when that set is a box, and the routine
  performs at most max_iter sweeps.

  What is proved here, about the definition `Dykstra.dykstra` of `Kernels/Dykstra.lean`
  (util.py:226-249, the same definition the driver runs on `List Float`):

  | clause                          | theorem                      | arithmetic                      |
  |---------------------------------|------------------------------|---------------------------------|
  | within √(p·tol) of every set    | `C15_feasible`, `…_infDist`  | exact (ℝ, any normed space)     |
  | unchanged if already in all sets| `C15_fixed_point`            | ANY with `x-0=x`, `x-x=0`       |
  | exactly in the last set (box)   | `C15_last_box`               | ANY rounding, any linear order  |
  | at most max_iter sweeps         | `C15_sweeps`                 | ANY                             |
  | (harness classification)        | `C15_stopped_of_sweeps_lt`   | exact                           |
  | within 1e-3 of true projection  | `C15_near_optimal`  — stated, NOT proved, see below          |

  The feasibility theorem needs neither convexity nor a common point nor exactness of the
  projectors: only `P_i v ∈ C_i`.  These hypotheses of the property matter for the near-optimality
  clause only.
-/
import DfolsVerif.Proofs.Dykstra
import DfolsVerif.Driver.DykstraDrv
import DfolsVerif.Gen.DykstraFns
import DfolsVerif.Gen.TrProj

namespace Dfols
namespace C15

open Dykstra

/-! ### layer G (translated code): util.dykstra's loop body, pball, and the loop skeleton -/

/-- the body of `for i in range(p)` in `util.dykstra`, as translated from /repo's AST on this run, is the
    kernel's `sub1`; `pball` is the kernel's `pball` (`rfl`) -/
theorem gen_dykstra_body {V S : Type} (o : Ops V S) (P : V → V) (x y : V) :
    Gen.dykstraBody o P x y = sub1 o P x y := rfl

theorem gen_pball {V S : Type} (b : BallOps V S) (x c : V) (r : S) : Gen.pball b x c r = pball b x c r := rfl

/-- the code around that body — initialisation, `while n < max_iter and cI >= tol`, `cI = 0` before each sweep,
    `n += 1` after it, `return x`, the default `max_iter`/`tol` — and `pbox`'s expression are what `loop`,
    `dykstraFull` and `pbox` mirror -/
theorem gen_dykstra_skeleton :
    Gen.dykstraSkeleton = ["x = x0.copy()", "p = len(P)", "y = np.zeros((p, x0.shape[0]))", "n = 0", "cI = float('inf')",
      "while n < max_iter and cI >= tol", "  cI = 0", "  for i in range(0, p): <body>", "  n += 1", "return x",
      "signature P, x0, max_iter=100, tol=1e-10"] ∧
    Gen.pboxSrc = "np.minimum(np.maximum(x, l), u)" := by decide +kernel

/-- **feasibility from the stopping rule.**  `Ps` arbitrary maps with `P_i v ∈ C_i`; if the routine
    stops by its tolerance rule (a sweep was made and it left with `cI < tol`) the returned point is
    within `√(p·tol)` of a point of every `C_i`, `p = len(P)`. -/
theorem C15_feasible {E : Type} [NormedAddCommGroup E] (Ps : List (E → E)) (C : Nat → Set E)
    (hC : ∀ i (hi : i < Ps.length) v, Ps[i] v ∈ C i) (x0 : E) (maxIter : Nat) (tol : ℝ)
    (hstop : (dykstraFull realOps Ps x0 maxIter tol).stoppedByRule realOps tol = true) :
    ∀ i, i < Ps.length →
      ∃ z ∈ C i, ‖dykstra realOps Ps x0 maxIter tol - z‖ ≤ Real.sqrt (Ps.length * tol) :=
  dykstra_feasible_sets Ps C hC x0 maxIter tol hstop

/-- the same with the distance to the set. -/
theorem C15_feasible_infDist {E : Type} [NormedAddCommGroup E] (Ps : List (E → E)) (C : Nat → Set E)
    (hC : ∀ i (hi : i < Ps.length) v, Ps[i] v ∈ C i) (x0 : E) (maxIter : Nat) (tol : ℝ)
    (hstop : (dykstraFull realOps Ps x0 maxIter tol).stoppedByRule realOps tol = true) :
    ∀ i, i < Ps.length →
      Metric.infDist (dykstra realOps Ps x0 maxIter tol) (C i) ≤ Real.sqrt (Ps.length * tol) :=
  dykstra_feasible_infDist Ps C hC x0 maxIter tol hstop

/-- how the harness tells "stopped by rule" from "hit the cap": fewer than `max_iter` sweeps
    (counted through wrapped projectors) ⇒ stopped by rule. -/
theorem C15_stopped_of_sweeps_lt {E : Type} [NormedAddCommGroup E] (Ps : List (E → E)) (x0 : E)
    (maxIter : Nat) (tol : ℝ) (h : (dykstraFull realOps Ps x0 maxIter tol).sweeps < maxIter) :
    (dykstraFull realOps Ps x0 maxIter tol).stoppedByRule realOps tol = true :=
  stopped_of_sweeps_lt Ps x0 maxIter tol h

/-- **at most `max_iter` sweeps** — for every arithmetic `o` and all projectors. -/
theorem C15_sweeps {V S : Type} (o : Ops V S) (Ps : List (V → V)) (x0 : V) (maxIter : Nat) (tol : S) :
    (dykstraFull o Ps x0 maxIter tol).sweeps ≤ maxIter :=
  dykstra_sweeps o Ps x0 maxIter tol

/-- **box last ⇒ exactly inside the box** — `α` any linear order (the non-NaN doubles with ±inf),
    `o` any operations on vectors (every rounding of `-`, every value of the stopping quantity),
    the other projectors arbitrary dimension-preserving maps; needs `max_iter ≥ 1` and a `tol` that
    is not NaN (`inf >= tol`).  With `max_iter = 0` the input is returned unprojected. -/
theorem C15_last_box {α S : Type} [LinearOrder α] (o : Ops (List α) S) (Qs : List (List α → List α))
    (l u : List α) (hlu : l.length = u.length)
    (hle : ∀ i (hl : i < l.length) (hu : i < u.length), l[i] ≤ u[i])
    (hdim : ∀ v w : List α, v.length = l.length → w.length = l.length → (o.sub v w).length = l.length)
    (hzero : o.zero.length = l.length)
    (hQ : ∀ Q ∈ Qs, ∀ v : List α, v.length = l.length → (Q v).length = l.length)
    (x0 : List α) (hx0 : x0.length = l.length) (maxIter : Nat) (tol : S)
    (hmax : 1 ≤ maxIter) (htol : o.infGe tol = true) :
    InBox l u (dykstra o (Qs ++ [fun w => pbox min max w l u]) x0 maxIter tol) :=
  dykstra_last_box o Qs l u hlu hle hdim hzero hQ x0 hx0 maxIter tol hmax htol

/-- the general form: the result satisfies whatever all outputs of the last projector satisfy. -/
theorem C15_last_in {V S : Type} (o : Ops V S) (Qs : List (V → V)) (Pl : V → V) (x0 : V)
    (maxIter : Nat) (tol : S) (T : V → Prop) (hPl : ∀ v, T (Pl v)) (hmax : 1 ≤ maxIter)
    (htol : o.infGe tol = true) : T (dykstra o (Qs ++ [Pl]) x0 maxIter tol) :=
  dykstra_last_in o Qs Pl x0 maxIter tol T hPl hmax htol

/-- **a point already in all sets is returned unchanged** — exactly, in every arithmetic in which
    `x0 - 0 = x0` and `x0 - x0 = 0` (IEEE doubles for finite `x0`; exact arithmetic), provided each
    projector returns `x0` itself (`pbox` does, bit for bit; `pball` computes `c + 1.0*(x0-c)`, which
    is `x0` only up to rounding — that is the "up to rounding" of the property). -/
theorem C15_fixed_point {V S : Type} (o : Ops V S) (x0 : V) (h0 : o.sub x0 o.zero = x0)
    (hxx : o.sub x0 x0 = o.zero) (Ps : List (V → V)) (hP : ∀ P ∈ Ps, P x0 = x0) (maxIter : Nat) (tol : S) :
    dykstra o Ps x0 maxIter tol = x0 :=
  dykstra_fixed_point o x0 h0 hxx Ps hP maxIter tol

/-- exact arithmetic instance, with the two projectors of util.py: a point of the ball / of the box
    is a fixed point of `pball` / `pbox`. -/
theorem C15_fixed_point_real {E : Type} [NormedAddCommGroup E] (x0 : E) (Ps : List (E → E))
    (hP : ∀ P ∈ Ps, P x0 = x0) (maxIter : Nat) (tol : ℝ) : dykstra realOps Ps x0 maxIter tol = x0 :=
  dykstra_fixed_point_real x0 Ps hP maxIter tol

theorem C15_pball_fixes_ball {E : Type} [NormedAddCommGroup E] [NormedSpace ℝ E] (x c : E) (r : ℝ)
    (hr : 0 < r) (hx : ‖x - c‖ ≤ r) : pball realBallOps x c r = x := pball_of_mem x c r hr hx

theorem C15_pbox_fixes_box {α : Type} [LinearOrder α] (x l u : List α) (hlu : l.length = u.length)
    (h : InBox l u x) : pbox min max x l u = x := pbox_of_inBox x l u hlu h

/-
  ### `C15_near_optimal` — stated, NOT proved (and false as stated for loose tolerances)

  theorem C15_near_optimal {E} [NormedAddCommGroup E] [InnerProductSpace ℝ E] [CompleteSpace E]
      (Ps : List (E → E)) (C : Nat → Set E)
      (hconv : ∀ i < Ps.length, Convex ℝ (C i) ∧ IsClosed (C i))
      (hproj : ∀ i (hi : i < Ps.length) v, Ps[i] v ∈ C i ∧ ∀ w ∈ C i, ‖v - Ps[i] v‖ ≤ ‖v - w‖)   -- exact projectors
      (hcommon : (⋂ i < Ps.length, C i).Nonempty)
      (x0 : E) (maxIter : Nat) (tol : ℝ)
      (hstop : (dykstraFull realOps Ps x0 maxIter tol).stoppedByRule realOps tol = true)
      (xstar : E) (hstar : xstar ∈ ⋂ i < Ps.length, C i)
      (hbest : ∀ w ∈ ⋂ i < Ps.length, C i, ‖x0 - xstar‖ ≤ ‖x0 - w‖) :
      ‖dykstra realOps Ps x0 maxIter tol - xstar‖ ≤ 1e-3

  This is NOT a consequence of the stopping rule: `cI < tol` bounds the *movement in the last sweep*,
  and Dykstra's method has no convergence rate (for two sets meeting at a small angle the movement
  per sweep can be tiny while the distance to the limit is still large).  It is in fact FALSE, also
  for the default `tol = 1e-10`, `max_iter = 100`: `C15_near_optimal_counterexample_ieee` below.
  The check observes the clause on the real code instead:
    * random intersections, `tol ≤ 1e-8` and the default: must hold (signature
      `C15:near-optimal-tight-tol` if it ever fails);
    * random intersections, user `tol > 1e-8`: fails regularly — finding `C15:near-optimal-loose-tol`;
    * a fixed corpus of thin intersections (wedge below, thin lens of two unit balls) at the default
      tolerance: fails by construction — finding `C15:near-optimal-thin-intersection`.
-/

/-- **the near-optimality clause is false at the default tolerance** (IEEE doubles, kernel-checked).
    Wedge `{(x,y) : |y| ≤ 1e-3·x}` (two half-planes, non-empty interior), start `(-2e-3, 0)`.  The
    projection onto the wedge is the apex `(0,0)` (the start lies in the polar cone of the wedge).
    Each half-plane is only `2e-6` away from the start, so the first sweep changes the correction
    vectors by `cI ≈ 1.6e-11 < 1e-10`: the routine stops by its rule after ONE sweep and returns a
    point still `≈ 2e-3 > 1e-3` from the apex.  (`fOps`, `Proj.half` are the driver's IEEE
    instantiation of the same `dykstra`; the real `util.dykstra` returns the same point, see the
    crafted corpus of harness/props/c15.py.) -/
theorem C15_near_optimal_counterexample_ieee :
    let Ps : List (DykstraDrv.Vec → DykstraDrv.Vec) :=
      [(DykstraDrv.Proj.half [-1e-3, 1.0] 0.0).apply, (DykstraDrv.Proj.half [-1e-3, -1.0] 0.0).apply]
    let r := dykstraFull (DykstraDrv.fOps 2) Ps [-2e-3, 0.0] 100 1e-10
    r.sweeps = 1 ∧ r.stoppedByRule (DykstraDrv.fOps 2) 1e-10 = true ∧
      decide (DykstraDrv.norm r.x > 1.9e-3) = true := by
  decide +kernel

/-! ### non-vacuity -/

section Examples

/-- `[0,∞)` then `(-∞,1]` on the real line, started at 3: two sweeps, stops by rule, returns 1. -/
noncomputable def exPs : List (ℝ → ℝ) := [fun v => max v 0, fun v => min v 1]
def exC : Nat → Set ℝ := fun i => if i = 0 then Set.Ici 0 else Set.Iic 1

theorem ex_maps_into : ∀ i (hi : i < exPs.length) v, exPs[i] v ∈ exC i := by
  intro i hi v
  have : i = 0 ∨ i = 1 := by simp [exPs] at hi; omega
  rcases this with rfl | rfl
  · show (0 : ℝ) ≤ max v 0
    exact le_max_right v 0
  · show min v 1 ≤ (1 : ℝ)
    exact min_le_right v 1

theorem ex_sweep1 : sweep realOps exPs [0, 0] 3 0 = (1, [0, -2], 4) := by
  norm_num [sweep, sub1, realOps, exPs]

theorem ex_sweep2 : sweep realOps exPs [0, -2] 1 0 = (1, [0, -2], 0) := by
  norm_num [sweep, sub1, realOps, exPs]

theorem ex_run : dykstraFull realOps exPs 3 5 (1 / 10 ^ 10) = ⟨1, [0, -2], 2, some 0⟩ := by
  have hz : (realOps (E := ℝ)).szero = 0 := rfl
  have hl : List.replicate exPs.length (realOps (E := ℝ)).zero = [0, 0] := by simp [exPs, realOps]
  rw [dykstraFull, hl]
  rw [show (5 : Nat) = 4 + 1 from rfl, loop]
  simp only [cont, hz, ex_sweep1]
  rw [if_pos (by simp [realOps])]
  rw [show (4 : Nat) = 3 + 1 from rfl, loop]
  simp only [cont, hz, ex_sweep2]
  rw [if_pos (by norm_num [realOps])]
  rw [show (3 : Nat) = 2 + 1 from rfl, loop]
  norm_num [cont, realOps]

theorem ex_stopped : (dykstraFull realOps exPs 3 5 (1 / 10 ^ 10)).stoppedByRule realOps (1 / 10 ^ 10) = true := by
  rw [ex_run]; norm_num [Result.stoppedByRule, realOps]

/-- `C15_feasible` applied to the concrete run: all its hypotheses hold. -/
example : ∀ i, i < exPs.length →
    ∃ z ∈ exC i, ‖dykstra realOps exPs 3 5 (1 / 10 ^ 10) - z‖ ≤ Real.sqrt (exPs.length * (1 / 10 ^ 10)) :=
  C15_feasible exPs exC ex_maps_into 3 5 (1 / 10 ^ 10) ex_stopped

/-- integer vectors with exact `-`: a box-last run (hypotheses of `C15_last_box` are satisfiable). -/
def intOps : Ops (List Int) Int where
  sub := List.zipWith (· - ·)
  zero := [0, 0]
  normSq := fun v => (v.map (fun a => a * a)).sum
  sadd := (· + ·)
  szero := 0
  ge := fun a b => decide (b ≤ a)
  infGe := fun _ => true

def exShift : List Int → List Int := fun v => v.map (· + 3)

example : dykstra intOps ([exShift] ++ [fun w => pbox min max w [0, 0] [4, 2]]) [7, -9] 3 1 = [4, 0] := by
  decide
example : ∀ v w : List Int, v.length = [0, 0].length → w.length = [0, 0].length →
    (intOps.sub v w).length = [(0 : Int), 0].length := by
  intro v w hv hw; simp [intOps, hv, hw]
example : ∀ Q ∈ [exShift], ∀ v : List Int, v.length = 2 → (Q v).length = 2 := by
  intro Q hQ v hv; simp at hQ; subst hQ; simp [exShift, hv]

/-- fixed point: `[1, 1]` lies in the box and is fixed by the identity. -/
example : dykstra intOps [id, fun w => pbox min max w [0, 0] [4, 2]] [1, 1] 3 1 = [1, 1] := by decide

/-- `max_iter = 0` returns the input unprojected (why `hmax` is a hypothesis of `C15_last_box`). -/
example : dykstra intOps [fun w => pbox min max w [0, 0] [4, 2]] [7, -9] 0 1 = [7, -9] := by decide

end Examples

/-! ### layer G: who calls `dykstra` with which sweep budget and tolerance (table regenerated from the whole package) -/

/-- **the sweep budget handed to `dykstra` is the Dykstra one**: every one of the ten call sites of the package passes as
    `max_iter` / `tol` either the sub-problem solver's own `d_max_iters` / `d_tol` parameters, or
    `params('dykstra.max_iters')` / `params('dykstra.d_tol')`, or — only the two `Model` methods that map a stored point to
    absolute coordinates — nothing (the defaults 100 / 1e-10 of the signature).  In particular no site passes an S-FISTA or
    trust-region iteration count as the sweep budget ("at most max_iter sweeps" is about this argument). -/
theorem C15_src_sweep_budget :
    Gen.dykstraSignature = "P, x0, max_iter=100, tol=1e-10" ∧ Gen.dykstraCalls.length = 10 ∧
    ∀ c ∈ Gen.dykstraCalls,
      (c.2.2.2.1 = "d_max_iters" ∧ c.2.2.2.2 = "d_tol") ∨
      (c.2.2.2.1 = "params('dykstra.max_iters')" ∧ c.2.2.2.2 = "params('dykstra.d_tol')") ∨
      (c.2.2.2.1 = "" ∧ c.2.2.2.2 = "" ∧ (c.1 = "model.py:xpt" ∨ c.1 = "model.py:as_absolute_coordinates")) := by
  decide +kernel

end C15
end Dfols
