/-
  C09 — General convex constraints hold at every evaluation up to Dykstra's tolerance.

  Statement (properties.jsonl): with projection operators supplied, every point evaluated after the
  starting point is an output of the alternating-projection routine: whenever that routine met its
  stopping rule it lies within sqrt(p*tol) of each of the p sets (p counts the user sets plus the
  bound box, tol is the Dykstra tolerance), and it satisfies the bound box exactly because the box
  is projected last. An infeasible x0 is replaced by its projection before the first evaluation.

  Two levels.

  **Kernel level** (about `Dykstra.dykstra`, util.py:226-249; `solve` appends the box last,
  solver.py:979-984):
    * `C09_feasible` (exact arithmetic): a run over `user sets ++ [box]` that stopped by its rule
      returns a point within `√((k+1)·tol)` of each of the `k` user sets and of the box;
    * `C09_box_exact` (ANY rounding, any linear order): with `max_iter ≥ 1` the returned point is in
      the box exactly.
  **Trace level** (about the event model `ProjTrace`, the accepted traces of which are checked
  against wrapper-recorded traces of the real `dfols.solve` on every run):
    * `C09_first_eval`: the first evaluated point is the user's x0 when `allclose(proj(x0), x0)`,
      and is `proj(x0)` — the first box-last Dykstra output — otherwise;
    * `C09_every_eval_projected`: every later evaluated point is the first point again or the
      output of an earlier box-last `dykstra` call;
    * `C09_evals_satisfy` / `C09_evals_in_box`: hence whatever all box-last Dykstra outputs satisfy
      (in particular: exact membership of the box, by `C09_box_exact`) holds at every evaluated
      point other than the first.
  What is *not* a theorem: that the real solver's traces are accepted ones (checked by the trace
  correspondence on real runs), and that each recorded `dykstra` call computes what the Lean
  `dykstra` computes (checked by the call-level correspondence: same sweeps, same `y` updates bit
  for bit with the recorded projector outputs as oracle values).
-/
import DfolsVerif.Proofs.Dykstra
import DfolsVerif.Proofs.ProjTrace
import DfolsVerif.Gen.DykstraFns

namespace Dfols
namespace C09

open Dykstra ProjTrace

/-! ### kernel level -/

/-- layer G (translated code): the body of `util.dykstra`'s inner loop, as translated from /repo's AST on this
    run, is the kernel's `sub1` (`rfl`), and the code around it is the loop `Kernels/Dykstra.lean` mirrors -/
theorem gen_dykstra {V S : Type} (o : Ops V S) (P : V → V) (x y : V) :
    Gen.dykstraBody o P x y = sub1 o P x y ∧
    Gen.dykstraSkeleton = ["x = x0.copy()", "p = len(P)", "y = np.zeros((p, x0.shape[0]))", "n = 0", "cI = float('inf')",
      "while n < max_iter and cI >= tol", "  cI = 0", "  for i in range(0, p): <body>", "  n += 1", "return x",
      "signature P, x0, max_iter=100, tol=1e-10"] :=
  ⟨rfl, by decide +kernel⟩

/-- **feasibility up to Dykstra's tolerance, `p` = user sets + box.**  `Us` are the user's
    projectors (`U_i v ∈ C_i`), `Pb` the box projector (`Pb v ∈ B`) appended last by `solve`. -/
theorem C09_feasible {E : Type} [NormedAddCommGroup E] (Us : List (E → E)) (C : Nat → Set E)
    (Pb : E → E) (B : Set E)
    (hC : ∀ i (hi : i < Us.length) v, Us[i] v ∈ C i) (hB : ∀ v, Pb v ∈ B)
    (x : E) (maxIter : Nat) (tol : ℝ)
    (hstop : (dykstraFull realOps (Us ++ [Pb]) x maxIter tol).stoppedByRule realOps tol = true) :
    (∀ i, i < Us.length → ∃ z ∈ C i,
        ‖dykstra realOps (Us ++ [Pb]) x maxIter tol - z‖ ≤ Real.sqrt ((Us.length + 1 : ℕ) * tol)) ∧
    (∃ z ∈ B, ‖dykstra realOps (Us ++ [Pb]) x maxIter tol - z‖ ≤ Real.sqrt ((Us.length + 1 : ℕ) * tol)) := by
  have hlen : (Us ++ [Pb]).length = Us.length + 1 := by simp
  let C' : Nat → Set E := fun i => if i < Us.length then C i else B
  have hC' : ∀ i (hi : i < (Us ++ [Pb]).length) v, (Us ++ [Pb])[i] v ∈ C' i := by
    intro i hi v
    by_cases h : i < Us.length
    · simp only [C', h, if_true, List.getElem_append_left h]; exact hC i h v
    · have hi' : i = Us.length := by omega
      subst hi'
      simp only [C', lt_irrefl, if_false, List.getElem_concat_length]; exact hB v
  have key := dykstra_feasible_sets (Us ++ [Pb]) C' hC' x maxIter tol hstop
  rw [hlen] at key
  refine ⟨?_, ?_⟩
  · intro i hi
    have := key i (by omega)
    simpa [C', hi] using this
  · have := key Us.length (by omega)
    simpa [C'] using this

/-- **the bound box holds exactly** at every output of a box-last run, for any rounding. -/
theorem C09_box_exact {α S : Type} [LinearOrder α] (o : Ops (List α) S) (Us : List (List α → List α))
    (l u : List α) (hlu : l.length = u.length)
    (hle : ∀ i (hl : i < l.length) (hu : i < u.length), l[i] ≤ u[i])
    (hdim : ∀ v w : List α, v.length = l.length → w.length = l.length → (o.sub v w).length = l.length)
    (hzero : o.zero.length = l.length)
    (hU : ∀ U ∈ Us, ∀ v : List α, v.length = l.length → (U v).length = l.length)
    (x : List α) (hx : x.length = l.length) (maxIter : Nat) (tol : S)
    (hmax : 1 ≤ maxIter) (htol : o.infGe tol = true) :
    InBox l u (dykstra o (Us ++ [fun w => pbox min max w l u]) x maxIter tol) :=
  dykstra_last_box o Us l u hlu hle hdim hzero hU x hx maxIter tol hmax htol

/-! ### trace level -/

section Trace
variable {V : Type} [DecidableEq V]

/-- **an infeasible x0 is replaced by its projection before the first evaluation**: in an accepted
    trace the first evaluated point is determined by the user's `x0 = a` and the first box-last
    Dykstra output `p`: it is `a` when `allclose(p, a)` and `p` otherwise. -/
theorem C09_first_eval (close : V → V → Bool) (pre post : List (Ev V)) (x : V)
    (hacc : accept close (pre ++ Ev.eval x :: post) = true) (hfirst : firstEval pre = none) :
    ∃ a p, firstStart pre = some a ∧ firstProj pre = some p ∧ x = if close p a then a else p := by
  obtain ⟨s, s', hrun, hstep⟩ := accept_split close pre post (Ev.eval x) hacc
  obtain ⟨h1, h2, h3, _⟩ := run_rel close pre s hrun
  rw [hfirst] at h1
  simp only [step, h1] at hstep
  cases ha : s.x0 with
  | none => rw [ha] at hstep; simp at hstep
  | some a =>
    cases hp : s.xp with
    | none => rw [ha, hp] at hstep; simp at hstep
    | some p =>
      rw [ha, hp] at hstep
      simp only at hstep
      by_cases hc : x = (if close p a = true then a else p)
      · exact ⟨a, p, by rw [← h2, ha], by rw [← h3, hp], hc⟩
      · rw [if_neg hc] at hstep; cases hstep

/-- **every point evaluated after the starting point is an output of the projection routine** whose
    projector list ended with the bound box (or is the starting point again). -/
theorem C09_every_eval_projected (close : V → V → Bool) (pre post : List (Ev V)) (x f : V)
    (hacc : accept close (pre ++ Ev.eval x :: post) = true) (hfirst : firstEval pre = some f) :
    x = f ∨ Ev.dykOut x true ∈ pre := by
  obtain ⟨s, s', hrun, hstep⟩ := accept_split close pre post (Ev.eval x) hacc
  obtain ⟨h1, _, _, h4⟩ := run_rel close pre s hrun
  rw [hfirst] at h1
  simp only [step, h1] at hstep
  by_cases hc : x = f ∨ x ∈ s.outs
  · rcases hc with hc | hc
    · exact Or.inl hc
    · exact Or.inr ((h4 x).mp hc)
  · rw [if_neg hc] at hstep; cases hstep

/-- whatever holds of all box-last Dykstra outputs holds at every evaluated point other than the
    first one. -/
theorem C09_evals_satisfy (close : V → V → Bool) (Q : V → Prop) (evs : List (Ev V))
    (hacc : accept close evs = true) (hQ : ∀ x, Ev.dykOut x true ∈ evs → Q x)
    (pre post : List (Ev V)) (x f : V) (hsplit : evs = pre ++ Ev.eval x :: post)
    (hfirst : firstEval pre = some f) (hne : x ≠ f) : Q x := by
  subst hsplit
  rcases C09_every_eval_projected close pre post x f hacc hfirst with h | h
  · exact absurd h hne
  · exact hQ x (by simp [h])

end Trace

/-- **kernel + trace**: if every box-last Dykstra output in the trace is what the model's `dykstra`
    returns for *some* argument, `max_iter ≥ 1` and non-NaN `tol` (any rounding `o`, any user
    projectors `Us`), then every evaluated point other than the first lies in the bound box exactly. -/
theorem C09_evals_in_box {α S : Type} [LinearOrder α] [DecidableEq α] (o : Ops (List α) S)
    (Us : List (List α → List α)) (l u : List α) (hlu : l.length = u.length)
    (hle : ∀ i (hl : i < l.length) (hu : i < u.length), l[i] ≤ u[i])
    (hdim : ∀ v w : List α, v.length = l.length → w.length = l.length → (o.sub v w).length = l.length)
    (hzero : o.zero.length = l.length)
    (hU : ∀ U ∈ Us, ∀ v : List α, v.length = l.length → (U v).length = l.length)
    (close : List α → List α → Bool) (evs : List (Ev (List α)))
    (hacc : accept close evs = true)
    (hgen : ∀ x, Ev.dykOut x true ∈ evs → ∃ (arg : List α) (maxIter : Nat) (tol : S),
        arg.length = l.length ∧ 1 ≤ maxIter ∧ o.infGe tol = true ∧
        x = dykstra o (Us ++ [fun w => pbox min max w l u]) arg maxIter tol)
    (pre post : List (Ev (List α))) (x f : List α) (hsplit : evs = pre ++ Ev.eval x :: post)
    (hfirst : firstEval pre = some f) (hne : x ≠ f) : InBox l u x := by
  apply C09_evals_satisfy close (InBox l u) evs hacc _ pre post x f hsplit hfirst hne
  intro y hy
  obtain ⟨arg, m, tol, harg, hm, ht, rfl⟩ := hgen y hy
  exact C09_box_exact o Us l u hlu hle hdim hzero hU arg harg m tol hm ht

/-! ### non-vacuity -/

section Examples

/-- a feasible-x0 run and an infeasible-x0 run (points are integers, `close` is equality). -/
def exClose : Int → Int → Bool := fun p a => p == a

-- x0 = 5 infeasible (projection 3): first evaluation at 3, then 4 (a Dykstra output), x0 again, …
def exTrace : List (Ev Int) :=
  [.start 5, .dykOut 3 true, .eval 3, .dykOut 9 false, .dykOut 4 true, .eval 4, .eval 3, .eval 4]

example : accept exClose exTrace = true := by decide
-- evaluating the un-projected infeasible x0 is rejected
example : accept exClose [.start 5, .dykOut 3 true, .eval 5] = false := by decide
-- evaluating the output of a ball-last (trust-region sub-problem) call is rejected
example : accept exClose [.start 3, .dykOut 3 true, .eval 3, .dykOut 9 false, .eval 9] = false := by decide
-- evaluating a point that is no Dykstra output is rejected
example : accept exClose [.start 3, .dykOut 3 true, .eval 3, .dykOut 4 true, .eval 7] = false := by decide
-- a feasible x0 is evaluated as given
example : accept exClose [.start 3, .dykOut 3 true, .eval 3] = true := by decide

/-- the hypotheses of `C09_feasible` are satisfiable: `Us = [max · 0]`, box `(-∞,1]`, cf. `C15.lean`. -/
noncomputable def exUs : List (ℝ → ℝ) := [fun v => max v 0]
noncomputable def exPb : ℝ → ℝ := fun v => min v 1

theorem ex_sweep1 : sweep realOps (exUs ++ [exPb]) [0, 0] 3 0 = (1, [0, -2], 4) := by
  norm_num [sweep, sub1, realOps, exUs, exPb]
theorem ex_sweep2 : sweep realOps (exUs ++ [exPb]) [0, -2] 1 0 = (1, [0, -2], 0) := by
  norm_num [sweep, sub1, realOps, exUs, exPb]

theorem ex_run : dykstraFull realOps (exUs ++ [exPb]) 3 5 (1 / 10 ^ 10) = ⟨1, [0, -2], 2, some 0⟩ := by
  have hz : (realOps (E := ℝ)).szero = 0 := rfl
  have hl : List.replicate (exUs ++ [exPb]).length (realOps (E := ℝ)).zero = [0, 0] := by
    simp [exUs, realOps]
  rw [dykstraFull, hl]
  rw [show (5 : Nat) = 4 + 1 from rfl, loop]
  simp only [cont, hz, ex_sweep1]
  rw [if_pos (by simp [realOps])]
  rw [show (4 : Nat) = 3 + 1 from rfl, loop]
  simp only [cont, hz, ex_sweep2]
  rw [if_pos (by norm_num [realOps])]
  rw [show (3 : Nat) = 2 + 1 from rfl, loop]
  norm_num [cont, realOps]

example : (∀ i, i < exUs.length → ∃ z ∈ (fun _ => Set.Ici (0 : ℝ)) i,
      ‖dykstra realOps (exUs ++ [exPb]) 3 5 (1 / 10 ^ 10) - z‖ ≤ Real.sqrt ((exUs.length + 1 : ℕ) * (1 / 10 ^ 10))) ∧
    (∃ z ∈ Set.Iic (1 : ℝ),
      ‖dykstra realOps (exUs ++ [exPb]) 3 5 (1 / 10 ^ 10) - z‖ ≤ Real.sqrt ((exUs.length + 1 : ℕ) * (1 / 10 ^ 10))) :=
  C09_feasible exUs (fun _ => Set.Ici (0 : ℝ)) exPb (Set.Iic 1)
    (by
      intro i hi v
      have : i = 0 := by simp [exUs] at hi; omega
      subst this
      show (0 : ℝ) ≤ max v 0
      exact le_max_right v 0)
    (fun v => min_le_right v 1) 3 5 (1 / 10 ^ 10)
    (by rw [ex_run]; norm_num [Result.stoppedByRule, realOps])

end Examples

end C09
end Dfols
