/-
  C02 — Evaluation budget and evaluation counters are exact.

  "The residual function is called at most maxfun times in total over all runs, restarts and
  repeated samples, and soln.nf equals the number of calls actually made. Evaluations are numbered
  1,2,... and evaluation points 1,2,... without gaps; calls that share a point number receive the
  identical x, each point gets exactly the number of samples the nsamples callback asked for unless
  the budget runs out, and soln.nx equals the last point number."

  The model is the set of event lists accepted by `CountAcc.accept` (the x0 sampling block of
  `solve_main`, `Controller.evaluate_objective`, the counters threaded through `solve_main` /
  the hard-restart loop).  All theorems hold for EVERY accepted list: every objective function,
  every `nsamples` callback, every restart history, every length.
-/
import DfolsVerif.Proofs.CountAcc

namespace Dfols
namespace C02

open CountAcc

/-- **budget & nf**: in every accepted trace the number of objective evaluations never exceeds
    `maxfun`, and the counter equals the number of evaluations made. -/
theorem C02_budget {maxfun : Nat} {evs : List Ev} {s : St} (h : accept maxfun evs = .ok s) :
    (evs.filter isObj).length ≤ maxfun ∧ s.nf = (evs.filter isObj).length ∧ s.calls.length = s.nf := by
  have hi := accept_inv h
  have hn := foldlM_nf evs h
  simp only [init, Nat.zero_add] at hn
  exact ⟨by rw [← hn.1]; have := hi.budget; rw [hn.2] at this; exact this, hn.1, hi.count⟩

theorem C02_result_aux {maxfun : Nat} {evs : List Ev} {s1 : St} {nf nx : Nat}
    (hne : nf = s1.nf ∧ nx = s1.nx)
    (hb : (evs.filter isObj).length ≤ maxfun ∧ s1.nf = (evs.filter isObj).length ∧ s1.calls.length = s1.nf)
    (hi : CountAcc.Inv s1) :
    nf = (evs.filter isObj).length ∧ nf ≤ maxfun ∧
    (match s1.calls with | [] => nx = 0 | (_, p, _) :: _ => nx = p) := by
  refine ⟨by rw [hne.1, hb.2.1], by rw [hne.1, hb.2.1]; exact hb.1, ?_⟩
  have hh := hi.head
  cases hc : s1.calls with
  | nil => simp only [hc] at hh ⊢; rw [hne.2, hh]
  | cons c rest =>
    obtain ⟨e, p, x⟩ := c
    simp only [hc] at hh ⊢
    rw [hne.2, hh.1]

/-- **soln.nf / soln.nx**: a result event is accepted only with the exact counters, so whenever the
    trace ends with the `OptimResults`, its `nf` is the number of evaluations made (≤ maxfun) and its
    `nx` is the last point number. -/
theorem C02_result_counters {maxfun : Nat} {evs : List Ev} {s : St}
    {nf nx nruns : Nat} {flag : Int} {cls : MsgCls} {label : Int} {v : Val} {jn : Bool}
    (h : accept maxfun (evs ++ [Ev.res nf nx nruns flag cls label v jn]) = .ok s) :
    nf = (evs.filter isObj).length ∧ nf ≤ maxfun ∧
    (match s.calls with | [] => nx = 0 | (_, p, _) :: _ => nx = p) := by
  unfold accept at h
  rw [List.foldlM_append] at h
  simp only [bind, Except.bind] at h
  cases h1 : evs.foldlM step (init maxfun) with
  | error m => simp [h1] at h
  | ok s1 =>
    rw [h1] at h
    simp only [List.foldlM_cons, List.foldlM_nil, bind, Except.bind, step] at h
    have hb := C02_budget (maxfun := maxfun) (evs := evs) (s := s1) h1
    have hi := accept_inv (maxfun := maxfun) (evs := evs) h1
    split at h
    · simp at h
    · rename_i s2 hs2
      simp only [pure, Except.pure, Except.ok.injEq] at h
      subst h
      split at hs2
      · simp at hs2
      · rename_i hne
        split at hs2
        · simp at hs2
        · simp only [Except.ok.injEq] at hs2
          subst hs2
          simp only [not_or, Decidable.not_not] at hne
          exact C02_result_aux hne hb hi

/-- **numbering**: evaluations carry the numbers 1,2,…,nf in call order; point numbers start at 1,
    never decrease and never skip; calls sharing a point number received the identical `x`. -/
theorem C02_numbering {maxfun : Nat} {evs : List Ev} {s : St} (h : accept maxfun evs = .ok s) :
    (∀ (j : Nat) (hj : j < s.calls.length), (s.calls[j]).1 = s.calls.length - j) ∧
    (∀ (j : Nat) (hj : j + 1 < s.calls.length),
        (s.calls[j]).2.1 = (s.calls[j+1]).2.1 ∨ (s.calls[j]).2.1 = (s.calls[j+1]).2.1 + 1) ∧
    (∀ (hl : 0 < s.calls.length), (s.calls[s.calls.length - 1]).2.1 = 1) ∧
    (∀ a ∈ s.calls, ∀ b ∈ s.calls, a.2.1 = b.2.1 → a.2.2 = b.2.2) := by
  have hi := accept_inv h
  exact ⟨wf_evalNo _ hi.wf, (wf_ptNo_steps _ hi.wf).1, (wf_ptNo_steps _ hi.wf).2, wf_sameX _ hi.wf⟩

/-- **samples per point**: every completed evaluation group (x0 or `evaluate_objective`) received
    exactly `min(requested, budget left)` samples, where `requested = max(nsamples(...), 1)`. -/
theorem C02_samples {maxfun : Nat} {evs : List Ev} {s : St} (h : accept maxfun evs = .ok s) :
    ∀ g ∈ s.groups, g.2.1 = min g.1 g.2.2 := (accept_inv h).groups

/-! ### non-vacuity: a legal trace with averaging and budget exhaustion mid-point -/

def exTrace : List Ev :=
  [ .rst 0 0 0 false 4 3, .ns 2, .obj 1 1 1 7 (.num 5) 1, .obj 2 2 1 7 (.num 6) 1,
    .ctrl 1 2 (.num 5) 3 (.num 0), .ns 3, .evb 3 8, .obj 3 3 2 8 (.num 4) 1, .obj 4 4 2 8 (.num 4) 1,
    .eve 2 (some 1) .maxfun (.num 4) (.num 0) false,
    .rend 4 2 1 1 .maxfun 2 2 (.num 4) true true, .res 4 2 1 1 .maxfun 2 (.num 4) true ]

example : (accept 4 exTrace).toOption.map (fun s => (s.nf, s.nx, s.groups)) = some (4, 2, [(3, 2, 2), (2, 2, 4)]) := by
  decide

/-- an over-budget evaluation is rejected -/
example : (accept 1 [.rst 0 0 0 false 1 3, .ns 2, .obj 1 1 1 7 (.num 5) 1, .obj 2 2 1 7 (.num 6) 1]).toOption.isNone = true := by
  decide

end C02
end Dfols
