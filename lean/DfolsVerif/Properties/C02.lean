/-
  C02 — Evaluation budget and evaluation counters are exact.

  "The residual function is called at most maxfun times in total over all runs, restarts and
  repeated samples, and soln.nf equals the number of calls actually made. Evaluations are numbered
  1,2,... and evaluation points 1,2,... without gaps; calls that share a point number receive the
  identical x, each point gets exactly the number of samples the nsamples callback asked for unless
  the budget runs out, and soln.nx equals the last point number."

  The model is the set of event lists accepted by `CountAcc.accept` (the x0 sampling block of
  `solve_main`, `Controller.evaluate_objective`, the counters threaded through `solve_main` /
  the hard-restart loop).  All theorems hold for EVERY accepted list: every objective function,
  every `nsamples` callback, every restart history, every length.
-/
import DfolsVerif.Proofs.CountAcc
import DfolsVerif.Proofs.EvalLoop
import DfolsVerif.Gen.EvalLoopFns
import DfolsVerif.Proofs.EvalLoopAcc
import DfolsVerif.Proofs.RestartGuards
import DfolsVerif.Proofs.SolveMainCalls
import DfolsVerif.Proofs.TrySites

namespace Dfols
namespace C02

open CountAcc

/-- **budget & nf**: in every accepted trace the number of objective evaluations never exceeds
    `maxfun`, and the counter equals the number of evaluations made. -/
theorem C02_budget {maxfun : Nat} {evs : List Ev} {s : St} (h : accept maxfun evs = .ok s) :
    (evs.filter isObj).length ≤ maxfun ∧ s.nf = (evs.filter isObj).length ∧ s.calls.length = s.nf := by
  have hi := accept_inv h
  have hn := foldlM_nf evs h
  simp only [init, Nat.zero_add] at hn
  exact ⟨by rw [← hn.1]; have := hi.budget; rw [hn.2] at this; exact this, hn.1, hi.count⟩

theorem C02_result_aux {maxfun : Nat} {evs : List Ev} {s1 : St} {nf nx : Nat}
    (hne : nf = s1.nf ∧ nx = s1.nx)
    (hb : (evs.filter isObj).length ≤ maxfun ∧ s1.nf = (evs.filter isObj).length ∧ s1.calls.length = s1.nf)
    (hi : CountAcc.Inv s1) :
    nf = (evs.filter isObj).length ∧ nf ≤ maxfun ∧
    (match s1.calls with | [] => nx = 0 | (_, p, _) :: _ => nx = p) := by
  refine ⟨by rw [hne.1, hb.2.1], by rw [hne.1, hb.2.1]; exact hb.1, ?_⟩
  have hh := hi.head
  cases hc : s1.calls with
  | nil => simp only [hc] at hh ⊢; rw [hne.2, hh]
  | cons c rest =>
    obtain ⟨e, p, x⟩ := c
    simp only [hc] at hh ⊢
    rw [hne.2, hh.1]

/-- **soln.nf / soln.nx**: a result event is accepted only with the exact counters, so whenever the
    trace ends with the `OptimResults`, its `nf` is the number of evaluations made (≤ maxfun) and its
    `nx` is the last point number. -/
theorem C02_result_counters {maxfun : Nat} {evs : List Ev} {s : St}
    {nf nx nruns : Nat} {flag : Int} {cls : MsgCls} {label : Int} {v : Val} {jn : Bool}
    (h : accept maxfun (evs ++ [Ev.res nf nx nruns flag cls label v jn]) = .ok s) :
    nf = (evs.filter isObj).length ∧ nf ≤ maxfun ∧
    (match s.calls with | [] => nx = 0 | (_, p, _) :: _ => nx = p) := by
  unfold accept at h
  rw [List.foldlM_append] at h
  simp only [bind, Except.bind] at h
  cases h1 : evs.foldlM step (init maxfun) with
  | error m => simp [h1] at h
  | ok s1 =>
    rw [h1] at h
    simp only [List.foldlM_cons, List.foldlM_nil, bind, Except.bind, step] at h
    have hb := C02_budget (maxfun := maxfun) (evs := evs) (s := s1) h1
    have hi := accept_inv (maxfun := maxfun) (evs := evs) h1
    split at h
    · simp at h
    · rename_i s2 hs2
      simp only [pure, Except.pure, Except.ok.injEq] at h
      subst h
      split at hs2
      · simp at hs2
      · rename_i hne
        split at hs2
        · simp at hs2
        · simp only [Except.ok.injEq] at hs2
          subst hs2
          simp only [not_or, Decidable.not_not] at hne
          exact C02_result_aux hne hb hi

/-- **numbering**: evaluations carry the numbers 1,2,…,nf in call order; point numbers start at 1,
    never decrease and never skip; calls sharing a point number received the identical `x`. -/
theorem C02_numbering {maxfun : Nat} {evs : List Ev} {s : St} (h : accept maxfun evs = .ok s) :
    (∀ (j : Nat) (hj : j < s.calls.length), (s.calls[j]).1 = s.calls.length - j) ∧
    (∀ (j : Nat) (hj : j + 1 < s.calls.length),
        (s.calls[j]).2.1 = (s.calls[j+1]).2.1 ∨ (s.calls[j]).2.1 = (s.calls[j+1]).2.1 + 1) ∧
    (∀ (hl : 0 < s.calls.length), (s.calls[s.calls.length - 1]).2.1 = 1) ∧
    (∀ a ∈ s.calls, ∀ b ∈ s.calls, a.2.1 = b.2.1 → a.2.2 = b.2.2) := by
  have hi := accept_inv h
  exact ⟨wf_evalNo _ hi.wf, (wf_ptNo_steps _ hi.wf).1, (wf_ptNo_steps _ hi.wf).2, wf_sameX _ hi.wf⟩

/-- **samples per point**: every completed evaluation group (x0 or `evaluate_objective`) received
    exactly `min(requested, budget left)` samples, where `requested = max(nsamples(...), 1)`. -/
theorem C02_samples {maxfun : Nat} {evs : List Ev} {s : St} (h : accept maxfun evs = .ok s) :
    ∀ g ∈ s.groups, g.2.1 = min g.1 g.2.2 := (accept_inv h).groups

/-! ### non-vacuity: a legal trace with averaging and budget exhaustion mid-point -/

def exTrace : List Ev :=
  [ .rst 0 0 0 false 4 3, .ns 2, .obj 1 1 1 7 (.num 5) 1, .obj 2 2 1 7 (.num 6) 1,
    .ctrl 1 2 (.num 5) 3 (.num 0), .ns 3, .evb 3 8, .obj 3 3 2 8 (.num 4) 1, .obj 4 4 2 8 (.num 4) 1,
    .eve 2 (some 1) .maxfun (.num 4) (.num 0) false,
    .rend 4 2 1 1 .maxfun 2 2 (.num 4) true true, .res 4 2 1 1 .maxfun 2 (.num 4) true ]

example : (accept 4 exTrace).toOption.map (fun s => (s.nf, s.nx, s.groups)) = some (4, 2, [(3, 2, 2), (2, 2, 4)]) := by
  decide

/-- an over-budget evaluation is rejected -/
example : (accept 1 [.rst 0 0 0 false 1 3, .ns 2, .obj 1 1 1 7 (.num 5) 1, .obj 2 2 1 7 (.num 6) 1]).toOption.isNone = true := by
  decide

/-! ### the two sampling loops, translated from the source (layer G) and their exact behaviour (L0)

  `CountAcc` above constrains where evaluations may appear in a trace.  The two loops that actually spend
  the budget — `Controller.evaluate_objective` and the block at x0 in `solve_main` — are in addition
  translated statement by statement from /repo's AST on every run (`Gen/EvalLoopFns.lean`), proved equal to
  the kernels `Kernels/EvalLoop.lean` by `rfl`, and the kernels' behaviour is proved for all budgets,
  counters and sample counts. -/

open EvalLoop in
/-- the loop bodies and the states they start from, as generated from the current source, are the kernels -/
theorem gen_evalLoops (maxfun nf nx : Nat) (s : EvalLoop.LoopSt) :
    Gen.evalObjBody maxfun s = evalObjBody maxfun s ∧ Gen.x0Body maxfun s = x0Body maxfun s ∧
    (∀ n, forRange n (Gen.evalObjBody maxfun) (Gen.evalObjInit nf nx) = evaluateObjective maxfun nf nx n) ∧
    (∀ n, forRange (n - 1) (Gen.x0Body maxfun) (Gen.x0Init nf nx) = evaluateX0 maxfun nf nx n) :=
  ⟨rfl, rfl, fun _ => rfl, fun _ => rfl⟩

/-- every evaluation call of a block is made at the block's one point expression (`remove_scaling(x, …)` with
    the loop-invariant `x`): calls that share a point number receive the identical x -/
theorem gen_sample_points : Gen.samplePointArgs =
    [("evalObj", ["remove_scaling(x, self.scaling_changes)"]),
     ("x0", ["remove_scaling(x0, scaling_changes)", "remove_scaling(x0, scaling_changes)"])] := by decide +kernel

open EvalLoop in
/-- **`evaluate_objective`, every budget** (on the translated loop): starting from counters `(nf, nx)` with
    `nf ≤ maxfun` and asked for `n` samples it makes `k = min n (maxfun - nf)` calls, numbered `nf+1 … nf+k`
    without gaps, all carrying the ONE new point number `nx+1`; `num_samples_run = k`; `nf` never passes
    `maxfun`; the max-evaluations warning is created exactly when fewer than `n` samples could be taken. -/
theorem C02_evaluate_objective (maxfun nf nx n : Nat) (hb : nf ≤ maxfun) :
    let k := min n (maxfun - nf)
    let t := forRange n (Gen.evalObjBody maxfun) (Gen.evalObjInit nf nx)
    t.nf = nf + k ∧ t.nf ≤ maxfun ∧ t.runs = k ∧ t.nx = (if k = 0 then nx else nx + 1) ∧
    t.calls = (List.range k).map (fun j => (nf + j + 1, nx + 1)) ∧
    (t.exit = some 1 ↔ k < n) ∧ (t.exit = none ↔ k = n) := by
  have h := evaluateObjective_spec maxfun nf nx n
  simp only at h
  obtain ⟨h1, h2, h3, h4, h5, h6, h7⟩ := h
  exact ⟨h1, h7 hb, h3, h2, h4, h5, h6⟩

open EvalLoop in
/-- **the block at x0, every budget** (on the translated loop): entered with `nf_so_far < maxfun` and `n ≥ 1`
    samples requested it makes `1 + min (n-1) (maxfun - nf_so_far - 1)` calls, numbered consecutively from
    `nf_so_far + 1`, all at point number `nx_so_far + 1`, never passes `maxfun`, and creates the warning
    exactly when samples are missing.  (Entered with `nf_so_far = maxfun` the first, unconditional call
    would pass the budget: `solve`'s restart loop tests `nf < maxfun` before every run — acceptor rule `rst`.) -/
theorem C02_x0_block (maxfun nf nx n : Nat) (hn : 1 ≤ n) (hb : nf + 1 ≤ maxfun) :
    let k := min (n - 1) (maxfun - (nf + 1))
    let t := forRange (n - 1) (Gen.x0Body maxfun) (Gen.x0Init nf nx)
    t.nf = nf + 1 + k ∧ t.nf ≤ maxfun ∧ t.runs = 1 + k ∧ t.nx = nx + 1 ∧
    t.calls = (List.range (k + 1)).map (fun j => (nf + j + 1, nx + 1)) ∧ (t.exit = some 1 ↔ 1 + k < n) := by
  have h := evaluateX0_spec maxfun nf nx n hn
  simp only at h
  obtain ⟨h1, h2, h3, h4, h5, h6⟩ := h
  exact ⟨h1, h6 hb, h3, h2, h4, h5⟩

/-- **refinement L0 → L2**: the event block `evb, obj…, eve` that the TRANSLATED `evaluate_objective` loop produces
    (its calls, its `num_samples_run`) is accepted by the counter acceptor from any idle state with the same
    counters, and the acceptor ends idle with the loop's counters: the acceptor's rules contain the behaviour
    of the code they mirror. -/
theorem C02_loop_refines_acceptor (maxfun nf nx want x : Nat) (v : Val) (s : St)
    (hm : s.maxfun = maxfun) (hp : s.phase = .idle) (hn : s.nf = nf) (hx : s.nx = nx) (hl : s.lastNs = want)
    (hb : nf ≤ maxfun) (ex : Option Int) (cls : MsgCls) (vm thr : Val) (nan : Bool) :
    let t := EvalLoop.forRange want (Gen.evalObjBody maxfun) (Gen.evalObjInit nf nx)
    ∃ s', ([Ev.evb want x] ++ t.calls.map (EvalLoopAcc.objEv x v) ++ [Ev.eve t.runs ex cls vm thr nan]).foldlM step s = .ok s' ∧
      s'.phase = .idle ∧ s'.nf = t.nf ∧ s'.nx = t.nx ∧ s'.maxfun = maxfun :=
  EvalLoopAcc.evaluateObjective_accepted maxfun nf nx want x v s hm hp hn hx hl hb ex cls vm thr nan

/-- **the hard-restart loop of `solve`, translated from the source**: another run is started only with `nf < maxfun`,
    so the unconditional first evaluation of a restarted run (`C02_x0_block`'s hypothesis `nf + 1 ≤ maxfun`) stays
    within the budget. -/
theorem C02_hard_restart_guard (useRestarts useSoft able : Bool) (nf maxfun nruns last maxUnsucc : Int)
    (h : Gen.hardRestartGuard useRestarts useSoft able nf maxfun nruns last maxUnsucc = true) :
    nf + 1 ≤ maxfun ∧ useRestarts = true ∧ useSoft = false ∧ able = true := by
  obtain ⟨h1, h2, h3, h4, _⟩ := RestartGuards.hardRestartGuard_sound useRestarts useSoft able nf maxfun nruns last maxUnsucc h
  exact ⟨by omega, h2, h3, h4⟩

/-- **refinement L0 → L2, block at x0**: the events `rst …, ns want, obj…, ctrl …` that the TRANSLATED x0 block produces are
    accepted by the counter acceptor from any idle state with the same counters and budget left, and leave it idle with
    the block's counters. -/
theorem C02_x0_refines_acceptor (maxfun nf nx want x nruns npt : Nat) (v : Val) (s : St)
    (hm : s.maxfun = maxfun) (hp : s.phase = .idle) (hn : s.nf = nf) (hx : s.nx = nx)
    (hb : nf < maxfun) (hw : 1 ≤ want) (lab ns' cap : Nat) (v0 thr : Val) :
    let t := EvalLoop.forRange (want - 1) (Gen.x0Body maxfun) (Gen.x0Init nf nx)
    ∃ s', ([Ev.rst nruns nf nx false maxfun npt, Ev.ns (want : Int)] ++ t.calls.map (EvalLoopAcc.objEv x v) ++
            [Ev.ctrl lab ns' v0 cap thr]).foldlM step s = .ok s' ∧
      s'.phase = .idle ∧ s'.nf = t.nf ∧ s'.nx = t.nx ∧ s'.maxfun = maxfun :=
  EvalLoopAcc.evaluateX0_accepted maxfun nf nx want x nruns npt v s hm hp hn hx hb hw lab ns' cap v0 thr

/-- non-vacuity / worked example: 3 samples asked with one evaluation left -/
example : (EvalLoop.forRange 3 (Gen.evalObjBody 10) (Gen.evalObjInit 9 4)) =
    { nf := 10, nx := 5, incremented := true, runs := 1, exit := some 1, calls := [(10, 5)] } := by decide

/-! ### layer G: the counters travel from run to run (table of every `solve_main` call / return, regenerated on every run) -/

/-- **`nf`, `nx`, `nruns` are threaded through every run**: `solve` passes `nruns, nf, nx` at positions 10–12 of each of its three
    `solve_main` calls and rebinds `nf, nx, nruns, exit_info` from EVERY result — also from a restarted run that did not improve —,
    and each `return` of `solve_main` hands back the controller's counters at those positions (seeded change C02_10 rebound them
    only after a successful restart) -/
theorem C02_src_counters_threaded :
    (Gen.solveMainTargets.length = 3 ∧ ∀ t ∈ Gen.solveMainTargets, t.length = 12 ∧ (t.drop 5).take 4 = ["nf", "nx", "nruns", "exit_info"]) ∧
    (Gen.solveMainReturns.length = 3 ∧ ∀ r ∈ Gen.solveMainReturns, r.length = 12 ∧
      ((r.drop 5).take 2 = ["nf", "nx"] ∨ (r.drop 5).take 2 = ["control.nf", "control.nx"]) ∧ (r.drop 8).take 1 = ["exit_info"]) ∧
    (∀ c ∈ Gen.solveMainCalls, (c.1.drop 10).take 3 = ["nruns", "nf", "nx"]) :=
  SolveMainCalls.counters_threaded

/-- **every call of the residual function is a counted one** (call graph regenerated from the AST of the whole package): `objfun` is
    called by `eval_least_squares_with_regularisation` only, which is called by `Controller.evaluate_objective` and by the x0 block of
    `solve_main` only — the two loops of `C02_evaluate_objective` / `C02_x0_block`; `evaluate_objective` itself is called from the main
    loop and from the six Controller methods whose control flow is translated (`Gen/MainLoop.lean`, `Gen/CtrlSkel.lean`) -/
theorem C02_src_objfun_choke_points :
    Gen.objfunCallers = ["eval_least_squares_with_regularisation"] ∧
    (Gen.callEdges.filter (fun e => e.2 == "eval_least_squares_with_regularisation")).map (·.1) = ["evaluate_objective", "solve_main"] ∧
    (Gen.callEdges.filter (fun e => e.2 == "evaluate_objective")).map (·.1) =
      ["add_new_direction_while_growing", "geometry_step", "initialise_coordinate_directions", "initialise_random_directions",
       "move_furthest_points_momentum", "soft_restart", "solve_main"] :=
  TrySites.choke_points

end C02
end Dfols
