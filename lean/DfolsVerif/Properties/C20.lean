/-
  C20 — Results survive a JSON round trip and always print.

  Statement (properties.jsonl): for every result object that carries a solution (any exit other than
  an input error) - including early termination without a Jacobian, NaN entries and diagnostic
  tables - to_dict() yields plain JSON-serialisable data (strict JSON when NaN replacement is on),
  and from_dict(json.loads(json.dumps(to_dict()))) reproduces every field (arrays, counters, flag,
  message, evaluation numbers, diagnostic table) exactly, with None mapped back to NaN. str() of the
  original and of the reloaded object are identical.

  Model: `DfolsVerif/Book/Json.lean` (`toDict` = solver.py:107-126 + util.py:274-283, `dumpsLoads` =
  the JSON transport, `fromDict` = solver.py:128-149 with the repair `obj None ↦ NaN`, `fromDictOld` =
  the pinned loader, `strLines` = solver.py:74-105).  All theorems quantify over **every** record
  `r : ResultRec`: any lengths (so both sides of the printing thresholds 100 / 200 / 100), any
  pattern of NaN / ±inf / finite doubles, Jacobian / evaluation numbers / diagnostic table present or
  absent, any table (any columns, any row labels, int / float / str / missing cells).

  `≈`: floats are `Fl` with a single NaN, so `=` on float fields *is* "equal, NaN matching NaN".
  For the diagnostic table `≈` is `Table.Equiv`: same columns in the same order, same rows in the
  same order with labels compared after `str()` (JSON object keys are strings — the reloaded table
  has labels "0","1",… where the solver's has 0,1,…; stated, not hidden), cells equal with `None` and
  NaN being the one missing value (pandas `isna`).

  Trusted, not proved (see TRUSTED_EXTRA in harness/props/c20.py): the text form of JSON, pandas'
  DataFrame ⇄ dict-of-dicts, NumPy printing — `str()` equality is reduced to equality of the list of
  printed lines *with their field payloads* (`strLines`).
-/
import DfolsVerif.Proofs.Json
import DfolsVerif.Proofs.JsonFields

namespace Dfols
namespace C20

open Json ToDict FromDict

/-- field-by-field agreement of a reloaded record `r'` with the original `r` -/
structure Agrees (r r' : ResultRec) : Prop where
  x : r'.x = r.x
  resid : r'.resid = r.resid
  obj : r'.obj = r.obj
  jacobian : r'.jacobian = r.jacobian
  nf : r'.nf = r.nf
  nx : r'.nx = r.nx
  nruns : r'.nruns = r.nruns
  flag : r'.flag = r.flag
  msg : r'.msg = r.msg
  xminEvalNum : r'.xminEvalNum = r.xminEvalNum
  jacminEvalNums : r'.jacminEvalNums = r.jacminEvalNums
  diag : diagEquiv r.diag r'.diag

theorem agrees_norm (r : ResultRec) : Agrees r r.norm := by
  refine ⟨rfl, rfl, rfl, rfl, rfl, rfl, rfl, rfl, rfl, rfl, rfl, ?_⟩
  cases h : r.diag with
  | none => simp [ResultRecG.norm, h, diagEquiv]
  | some t => simp [ResultRecG.norm, h, diagEquiv, Table.Equiv, Table.norm_norm]

/-- **round trip.** Whatever the `replace_nan` flag and whatever the `allow_nan` mode of
    `json.dumps`: if the dump succeeds, `from_dict` succeeds on the reloaded document, every field of
    the result agrees with the original (`Agrees`) and `str()` prints the same lines with the same
    payloads. With `allow_nan=True` (Python's default) the dump always succeeds. -/
theorem C20_roundtrip (replaceNan allowNan : Bool) (r : ResultRec) (j : Json)
    (hj : dumpsLoads allowNan (toDict replaceNan r) = some j) :
    ∃ r', fromDict j = some r' ∧ Agrees r r' ∧ strLines r' = strLines r := by
  have hj' : j = strKeys (toDict replaceNan r) := by
    unfold dumpsLoads at hj
    split at hj
    · exact (Option.some.inj hj).symm
    · exact absurd hj (by simp)
  subst hj'
  exact ⟨r.norm, fromDict_roundtrip replaceNan r, agrees_norm r, strLines_norm r⟩

theorem C20_roundtrip_lenient_total (replaceNan : Bool) (r : ResultRec) :
    dumpsLoads true (toDict replaceNan r) = some (strKeys (toDict replaceNan r)) := by
  simp [dumpsLoads]

/-- **strict (NaN part).** With `replace_nan=True` the dict contains no NaN — and this is a fact
    about `replace_nan_with_none` on *every* value, not only on result dicts. -/
theorem C20_strict (r : ResultRec) : hasNaN (toDict true r) = false := by
  simp [toDict, hasNaN_replaceNan]

theorem C20_strict_any (j : Json) : hasNaN (replaceNan j) = false := hasNaN_replaceNan j

/-
  FULL STRENGTH of "strict JSON when NaN replacement is on" would be

      ∀ r, isStrict (toDict true r) = true        -- i.e. json.dumps(…, allow_nan=False) never raises

  This is FALSE: ±inf is a float that `replace_nan_with_none` leaves alone and strict JSON cannot
  write (`C20_inf_counterexample`; known finding `C20:inf-not-strict-json`). What holds, exactly:
-/
/-- **strict (±inf part), partial.** `json.dumps(to_dict(), allow_nan=False)` succeeds **iff** no
    float of the record (x, resid, obj, Jacobian, table cells) is ±inf; when it does succeed the
    round trip is the one of `C20_roundtrip`; when it does not, the lenient dump still round-trips. -/
theorem C20_inf_partial (r : ResultRec) :
    (isStrict (toDict true r) = r.noInf) ∧
    ((dumpsLoads false (toDict true r)).isSome = r.noInf) ∧
    (∃ r', (dumpsLoads true (toDict true r)).bind fromDict = some r' ∧ Agrees r r') := by
  refine ⟨isStrict_toDict r, ?_, ?_⟩
  · simp only [dumpsLoads, Bool.false_or, isStrict_toDict]
    cases r.noInf <;> simp
  · refine ⟨r.norm, ?_, agrees_norm r⟩
    simp [dumpsLoads, fromDict_roundtrip]

/-- **None ↦ NaN, for every float field including `obj`.** In the dict, `None` sits exactly at the
    NaN positions of `x`, `resid`, `obj` and the Jacobian (`nanToNull`), and the loader's element
    conversion maps each of them back. -/
theorem C20_none_to_nan (r : ResultRec) :
    (toDict true r).field "x" = some (.arr (r.x.map nanToNull)) ∧
    (toDict true r).field "resid" = some (.arr (r.resid.map nanToNull)) ∧
    (toDict true r).field "obj" = some (nanToNull r.obj) ∧
    (toDict true r).field "jacobian" =
      some (optJ (fun m => .arr (m.map fun row => .arr (row.map nanToNull))) r.jacobian) ∧
    (∀ v : List Fl, getVec (.arr (v.map nanToNull)) = some v) ∧
    (∀ m : List (List Fl), getMat (.arr (m.map fun row => Json.arr (row.map nanToNull))) = some m) ∧
    (∀ x : Fl, getObj (nanToNull x) = some x) ∧
    getObj .null = some .nan := by
  refine ⟨?_, ?_, ?_, ?_, getVec_nanToNull, getMat_nanToNull, getFl_nanToNull, rfl⟩
  · simp [toDict, toDictRaw, replaceNan_obj, field, lookup, replaceNan_vecJ]
  · simp [toDict, toDictRaw, replaceNan_obj, field, lookup, replaceNan_vecJ]
  · simp [toDict, toDictRaw, replaceNan_obj, field, lookup, replaceNan_num]
  · cases h : r.jacobian <;>
      simp [toDict, toDictRaw, replaceNan_obj, field, lookup, optJ, h, replaceNan_null, replaceNan_matJ]

/-- **str().** Printing depends on the table only through its presence, so the relabelled table of
    the reloaded object prints the same line. -/
theorem C20_str (r r' : ResultRec) (h : Agrees r r') : strLines r' = strLines r := by
  obtain ⟨hx, hr, ho, hj, hnf, hnx, hnr, hfl, hm, hxe, hje, hd⟩ := h
  have hd' : r'.diag.isSome = r.diag.isSome := by
    cases h1 : r.diag <;> cases h2 : r'.diag <;> simp_all [diagEquiv]
  simp [strLines, strLinesBody, hx, hr, ho, hj, hnf, hnx, hnr, hfl, hm, hxe, hje, hd']

/-! ### non-vacuity: a record with NaN in every float field, no Jacobian labels, a diagnostic table
    with int labels, a NaN cell, a `None` cell and a string cell -/

def exRec : ResultRec :=
  { x := [.fin 4607182418800017408, .nan], resid := [.nan, .fin 0, .fin 9223372036854775808],
    obj := .nan, jacobian := some [[.fin 1, .nan], [.nan, .fin 2]], nf := 7, nx := 5, nruns := 2, flag := -3,
    msg := "Error (linear algebra): Singular matrix", xminEvalNum := 3, jacminEvalNums := none,
    diag := some [("ratio", [(.i 0, .num (.fin 5)), (.i 1, .num .nan)]),
                  ("iter_type", [(.i 0, .str "Safety"), (.i 1, .na)]),
                  ("nf", [(.i 0, .int 3), (.i 1, .int 4)])] }

/-- an early exit: no Jacobian, labels `[0]`, no table; ±inf objective -/
def exEarly : ResultRec :=
  { x := [.fin 0], resid := [.inf false], obj := .inf false, jacobian := none, nf := 1, nx := 1, nruns := 1,
    flag := 0, msg := "Success: Objective is sufficiently small", xminEvalNum := 0,
    jacminEvalNums := some [0], diag := none }

-- the hypothesis of `C20_roundtrip` is met with strict dumping, and the reload is what is claimed
example : dumpsLoads false (toDict true exRec) = some (strKeys (toDict true exRec)) := by rfl
example : fromDict (strKeys (toDict true exRec)) = some exRec.norm := by decide
example : exRec.norm ≠ exRec := by decide          -- the table's labels / missing cells did change form
example : (toDict true exRec).field "obj" = some .null := by rfl
example : (toDict false exRec).field "obj" = some (.num .nan) := by rfl
example : hasNaN (toDict false exRec) = true := by decide   -- without replacement NaN stays
example : dumpsLoads false (toDict false exRec) = none := by decide
example : (strLines exRec).map Line.tag =
    ["header", "xmin", "resid", "obj", "evals", "runs", "jac", "diag", "xmin-eval", "evalnums-none",
     "flag", "msg", "footer"] := by decide

/-- sizes on the far side of the three printing thresholds (m = 100, Jacobian size 200, 100 labels) -/
def exBig : ResultRec :=
  { exEarly with resid := List.replicate 100 (.fin 0), obj := .fin 0,
                 jacobian := some (List.replicate 20 (List.replicate 10 .nan)),
                 jacminEvalNums := some (List.replicate 100 1) }

example : (strLines exBig).map Line.tag =
    ["header", "xmin", "resid-long", "obj", "evals", "jac-long", "xmin-eval", "evalnums-long",
     "flag", "msg", "footer"] := by decide
example : (fromDict (strKeys (toDict true exBig))).map (·.jacobian) = some exBig.jacobian := by decide +kernel

/-- ±inf: the strict dump raises (known finding `C20:inf-not-strict-json`), the lenient one round-trips. -/
theorem C20_inf_counterexample :
    ∃ r : ResultRec, hasNaN (toDict true r) = false ∧ isStrict (toDict true r) = false ∧
      dumpsLoads false (toDict true r) = none ∧
      (dumpsLoads true (toDict true r)).bind fromDict = some r := by
  refine ⟨exEarly, ?_, ?_, ?_, ?_⟩ <;> decide

example : exEarly.noInf = false := by decide
example : exRec.noInf = true := by decide

/-! ### the pinned tree's loader (before the `fix:` commit) and why it fails -/

/-- pinned `from_dict` (solver.py:133 `obj = soln_dict['obj']`): a NaN objective comes back as
    `None`, so the reloaded object differs from the original in `obj` and `str()` of it raises
    (`"%.10g" % None`), while the repaired loader restores NaN. -/
theorem C20_old_obj_none :
    ∃ (r : ResultRec) (r' : ResultRecG (Option Fl)),
      (dumpsLoads false (toDict true r)).bind fromDictOld = some r' ∧
      r.obj = .nan ∧ r'.obj = none ∧ strLinesOld r' = none ∧
      ((dumpsLoads false (toDict true r)).bind fromDict).map (·.obj) = some .nan := by
  refine ⟨exRec, { exRec.norm with obj := none }, ?_, ?_, ?_, ?_, ?_⟩ <;> decide

/-- the pinned loader is fine whenever `obj` is a number (the defect is exactly the NaN case) -/
example : ((dumpsLoads true (toDict true exEarly)).bind fromDictOld).map (·.obj) = some (some (.inf false)) := by
  decide

/-! ### layer G: the wiring of `OptimResults`, regenerated from solver.py on every run -/

/-- the keys of the model's `to_dict`, in order -/
def modelKeys (r : ResultRec) : List String :=
  match toDictRaw r with
  | .obj kvs => kvs.filterMap fun kv => match kv.1 with | .s k => some k | _ => none
  | _ => []

/-- **the model writes the keys the code writes**, in the same order (the code's list is generated from the AST of
    `OptimResults.to_dict`) -/
theorem C20_src_keys (r : ResultRec) : modelKeys r = Gen.toDictWrites.map (·.1) := by
  simp [modelKeys, toDictRaw, Gen.toDictWrites]

/-- **the round trip is wired to the identity in the source**: every attribute `to_dict` writes under a key comes back,
    through the local variable `from_dict` reads that key into, the position of that variable in the constructor call,
    and the constructor's assignment of that parameter, as the SAME attribute (`diagnostic_info`: set after
    construction); `to_dict` writes and `from_dict` reads the same keys, each once; the written and the read conversion of
    every key belong together (float arrays / the integer array / `None → NaN` objective / integers / message — the field
    kinds of the record model); and `__str__` reads only attributes the constructor binds. -/
theorem C20_src_roundtrip_wiring :
    (∀ w ∈ Gen.toDictWrites, JsonFields.attrAfterRoundTrip w.1 = some w.2.1) ∧
    (∀ w ∈ Gen.toDictWrites, w.1 ∈ Gen.fromDictKeysRead) ∧
    (∀ k ∈ Gen.fromDictKeysRead, k ∈ Gen.toDictWrites.map (·.1)) ∧
    (Gen.toDictWrites.map (·.1)).Nodup ∧
    (∀ r ∈ Gen.fromDictReads, ∃ w ∈ Gen.toDictWrites, w.1 = r.1 ∧ (w.2.2, r.2.2) ∈ JsonFields.pairedConversions) ∧
    (∀ a ∈ Gen.strReads, a ∈ Gen.ctorAssigns.map (·.1) ∨ a ∈ Gen.ctorOther.map (·.1)) :=
  ⟨JsonFields.roundtrip_wiring, JsonFields.same_keys.1, JsonFields.same_keys.2.1, JsonFields.same_keys.2.2.1,
   JsonFields.conversions_paired.1, JsonFields.str_reads_bound⟩

end C20
end Dfols
