/-
  C11 — The returned Jacobian is the fit through the evaluations it names.   **PARTIAL**

  Statement (properties.jsonl): when a Jacobian is returned for a bound-constrained or
  unconstrained problem with a fully initialised point set, `soln.jacobian` equals — up to rounding
  amplified by the conditioning of the point set — the linear interpolant (npt = n+1) or
  least-squares regression fit (npt > n+1) of the recorded residual vectors at the evaluation
  points listed in `soln.jacmin_eval_nums`, expressed in the user's original coordinates even when
  internal scaling was used.  For linear residuals it therefore equals A.

  ── What is proved here ─────────────────────────────────────────────────────────────────────────
  (A) labels, for **every** sequence of `Model` operations (L1 state machine of C17):
        `C11_labels` — the evaluation numbers handed out by `get_final_results` (incumbent's or the
        saved point's copy) are the snapshot `model_jac_eval_nums = eval_num.copy()` that some
        `interpolate` of the sequence took of the slots' labels, and each of those labels is the
        label supplied with the point stored in that slot (C17's ghost label).
      NOT covered here: that the label supplied *is* the evaluation's true number `nx` — that is
      C03; broken in the pinned tree after hard restarts (`eval_num[0] = 1`, pinned model.py:89;
      repaired by `fix:` ea879d3, `x0_eval_num`), which is why the harness reports such runs under
      the signature `C11:hard-restart-relabel(C03)`.
  (E) algebra (exact arithmetic, `Kernels/Interp.lean`):
        `internal_fit_in_abs_coords` — the fit in `xbase`-relative coordinates is the fit in
                               (scaled) absolute coordinates, whatever the current `xbase`
                               (so base shifts between evaluations and the fit do not matter);
        `unscale_jacobian`   — an interpolant in scaled coordinates, un-scaled column-wise
                               (solver.py:1170-1172), is the interpolant in user coordinates;
        `unscale_regression` — the same for the least-squares fit (normal equations transfer);
        `jacobian_fits_user_points`, `jacobian_regression_user_points` — both steps combined;
        `jacobian_linear_eq_A`, `jacobian_linear_eq_A_regression` — for `r(x) = A x − b` the
                               returned matrix is `A`.
  ── What is NOT proved (stated as `C11_full` at the end) ─────────────────────────────────────────
  LAPACK exactness (hypotheses `Interpolates` / `IsLSQFit`, discharged from the QR equations in
  C16) and the conditioning-proportional error bound; that `solve`/`solve_main` pass exactly
  `get_final_results()`'s pair on (L2 acceptor, not part of this work package).
-/
import DfolsVerif.Proofs.Interp
import DfolsVerif.Proofs.ModelSnapshot
import DfolsVerif.Proofs.Snapshots
import DfolsVerif.Gen.Unscale

set_option linter.unusedSectionVars false

namespace Dfols
namespace C11

open Matrix
open Interp (modelVal Interpolates IsLSQFit FullRank IModel affineResid unscalePoint unscaleJac)

/-! ### labels -/

section Labels

open MState

variable {P R : Type}

/-- **C11_labels** — for every operation sequence: what `get_final_results` returns as
    `jacmin_eval_nums` is either `None` (no fit yet) or the array of the slots' labels as it was
    when an `interpolate` of the sequence ran (`ops = ops1 ++ interpolate :: ops2`, labels of the
    state after `ops1`), and every one of those labels is the one supplied with the point stored in
    its slot.  Covers both branches of `get_final_results` (incumbent / saved point). -/
theorem C11_labels (avg : Nat → R → R → R) (cap : Nat) (hcap : 1 ≤ cap) (x0 : P) (r0 : R) (v0 : Val)
    (label : Nat) (ops : List (MOp P R)) (f : Final P R)
    (hf : ((init cap x0 r0 v0 1 label [r0]).run avg ops).getFinal = some f) :
    f.jacNums = none ∨
    ∃ ops1 ops2, ops = ops1 ++ MOp.interpolate :: ops2 ∧
      f.jacNums = some (labelsOf ((init cap x0 r0 v0 1 label [r0]).run avg ops1)) ∧
      ∀ sl ∈ ((init cap x0 r0 v0 1 label [r0]).run avg ops1).slots, sl.en = sl.glabel := by
  have hsnap := run_snapshot avg (init cap x0 r0 v0 1 label [r0]) rfl rfl ops
  have key : Snap avg (init cap x0 r0 v0 1 label [r0]) ops f.jacNums := by
    rcases getFinal_jacNums hf with h | ⟨sv, hsv, h⟩
    · rw [h]; exact hsnap.1
    · rw [h]; exact hsnap.2 sv hsv
  rcases key with h | ⟨ops1, ops2, e1, e2⟩
  · exact Or.inl h
  · refine Or.inr ⟨ops1, ops2, e1, e2, fun sl hsl => ?_⟩
    exact ((run_wf avg ops1 (init_wf avg cap hcap x0 r0 v0 1 label [r0] rfl rfl)).slots_ok sl hsl).label

/-- the snapshot itself: `interpolate` copies the labels of all rows (zeros beyond `npt_so_far`;
    none when the point set is fully initialised). -/
theorem interpolate_snapshot (s : MState P R) :
    s.interpolate.jacNums = some (labelsOf s) ∧
    (s.slots.length = s.cap → s.interpolate.jacNums = some (s.slots.map (·.en))) := by
  refine ⟨rfl, fun h => ?_⟩
  simp [interpolate, h]

/-- `save_point` stores the *current* snapshot with the point. -/
theorem savePoint_carries (s : MState P R) (x : P) (r : R) (v : Val) (ns en : Nat)
    (h : (s.savePoint x r v ns en).2 = true) :
    ∃ sv, (s.savePoint x r v ns en).1.saved = some sv ∧ sv.jacNums = s.jacNums := by
  unfold savePoint at h ⊢
  split
  · exact ⟨_, rfl, rfl⟩
  · rename_i hacc; simp [hacc] at h

def exAvg (k : Nat) (m r : Int) : Int := (k * m + r) / (k + 1)

/-- non-vacuity: fit, save the incumbent, replace a point (labels change), the saved point wins at
    the end — and still carries the labels `[1,2,3]` of the fit, not the current `[1,7,3]`. -/
def exOps : List (MOp Nat Int) :=
  [ .change 1 10 6 (.num 36) 2 true, .change 2 11 7 (.num 49) 3 true, .interpolate,
    .save 12 1 (.num 1) 1 4, .change 1 13 9 (.num 81) 7 true ]

example : (((init 3 0 5 (.num 25) 1 1 [5]).run exAvg exOps).getFinal.map (·.jacNums)) = some (some [1, 2, 3]) := by
  decide
example : ((init 3 0 5 (.num 25) 1 1 [5]).run exAvg exOps).slots.map (·.en) = [1, 7, 3] := by decide

end Labels

/-! ### algebra -/

section Exact

variable {K : Type*} [Field K] {ι ν μ : Type*} [Fintype ι] [Fintype ν] [Fintype μ]

/-- the internal model is a model of the *absolute* (scaled) points `xbase + y_t`, with constant
    term `c − J·xbase`: `xbase` (hence any number of base shifts) drops out. -/
theorem internal_fit_in_abs_coords (s : IModel K ι ν μ) :
    (Interpolates s.Y s.F s.c s.J → Interpolates (fun t => s.absPoint t) s.F (s.c - s.J *ᵥ s.xbase) s.J) ∧
    (IsLSQFit s.Y s.F s.c s.J → IsLSQFit (fun t => s.absPoint t) s.F (s.c - s.J *ᵥ s.xbase) s.J) := by
  have hY : (s.shiftBase (-s.xbase)).Y = fun t => s.absPoint t := by
    funext t; simp only [IModel.shiftBase, IModel.absPoint]; abel
  have hc : (s.shiftBase (-s.xbase)).c = s.c - s.J *ᵥ s.xbase := by
    simp only [IModel.shiftBase, Matrix.mulVec_neg]; abel
  constructor
  · intro h
    have := IModel.shiftBase_interpolates s (-s.xbase) h
    rwa [hY, hc] at this
  · intro h
    have := IModel.shiftBase_isLSQFit s (-s.xbase) h
    rwa [hY, hc] at this

/-- **unscale_jacobian** — if `c + J_s z` interpolates the data at the scaled points `z_t`, then
    `J_s / scale` (column-wise) with the matching constant interpolates them at the user points
    `x_t = shift + z_t∘scale` (`remove_scaling`). -/
theorem unscale_jacobian {scale : ν → K} (hs : ∀ j, scale j ≠ 0) (shift : ν → K) (Z : Matrix ι ν K)
    (F : Matrix ι μ K) (c : μ → K) (J : Matrix μ ν K) (h : Interpolates Z F c J) :
    Interpolates (fun t => unscalePoint shift scale (Z t)) F
      (c - unscaleJac scale J *ᵥ shift) (unscaleJac scale J) :=
  Interp.unscale_jacobian hs shift Z F c J h

/-- the same for the regression fit. -/
theorem unscale_regression {scale : ν → K} (hs : ∀ j, scale j ≠ 0) (shift : ν → K) (Z : Matrix ι ν K)
    (F : Matrix ι μ K) (c : μ → K) (J : Matrix μ ν K) (h : IsLSQFit Z F c J) :
    IsLSQFit (fun t => unscalePoint shift scale (Z t)) F
      (c - unscaleJac scale J *ᵥ shift) (unscaleJac scale J) :=
  Interp.unscale_regression hs shift Z F c J h

/-- the points at which `objfun` was called, in the user's coordinates:
    `remove_scaling(xbase + points[t])` (solver.py:162 ff., controller.evaluate_objective). -/
def userPoint (s : IModel K ι ν μ) (shift scale : ν → K) (t : ι) : ν → K :=
  unscalePoint shift scale (s.absPoint t)

/-- constant term of the returned model in user coordinates. -/
def userConst (s : IModel K ι ν μ) (shift scale : ν → K) : μ → K :=
  (s.c - s.J *ᵥ s.xbase) - unscaleJac scale s.J *ᵥ shift

/-- **npt = n+1** — the matrix `solve` returns (`model_jac`, columns divided by `scale`) is the
    Jacobian of the affine interpolant of the stored residual vectors **at the user-coordinate
    evaluation points**. -/
theorem jacobian_fits_user_points (s : IModel K ι ν μ) {scale : ν → K} (hs : ∀ j, scale j ≠ 0)
    (shift : ν → K) (h : Interpolates s.Y s.F s.c s.J) :
    Interpolates (fun t => userPoint s shift scale t) s.F (userConst s shift scale) (unscaleJac scale s.J) :=
  Interp.unscale_jacobian hs shift _ s.F _ s.J ((internal_fit_in_abs_coords s).1 h)

/-- **npt > n+1** — … of the least-squares regression fit at the user-coordinate points. -/
theorem jacobian_regression_user_points (s : IModel K ι ν μ) {scale : ν → K} (hs : ∀ j, scale j ≠ 0)
    (shift : ν → K) (h : IsLSQFit s.Y s.F s.c s.J) :
    IsLSQFit (fun t => userPoint s shift scale t) s.F (userConst s shift scale) (unscaleJac scale s.J) :=
  Interp.unscale_regression hs shift _ s.F _ s.J ((internal_fit_in_abs_coords s).2 h)

/-- general position is a property of the point set, not of the coordinates used. -/
theorem userPoints_fullRank (s : IModel K ι ν μ) {scale : ν → K} (hs : ∀ j, scale j ≠ 0) (shift : ν → K)
    (hY : FullRank s.Y) : FullRank (fun t => userPoint s shift scale t : Matrix ι ν K) := by
  have h1 : FullRank (fun t => s.absPoint t : Matrix ι ν K) := by
    have := hY.translate s.xbase
    have e : (fun t => s.Y t + s.xbase : Matrix ι ν K) = fun t => s.absPoint t := by
      funext t; simp only [IModel.absPoint]; abel
    rwa [e] at this
  exact h1.unscale hs shift

/-- **for linear residuals it equals A** (interpolation): the stored residuals are
    `A x_t − b` at the user points `x_t`, the internal model interpolates them, the points are in
    general position  ⇒  the returned (un-scaled) Jacobian is `A`. -/
theorem jacobian_linear_eq_A (s : IModel K ι ν μ) {scale : ν → K} (hs : ∀ j, scale j ≠ 0) (shift : ν → K)
    (A : Matrix μ ν K) (b : μ → K) (hF : ∀ t, s.F t = affineResid A b (userPoint s shift scale t))
    (hY : FullRank s.Y) (h : Interpolates s.Y s.F s.c s.J) : unscaleJac scale s.J = A := by
  have h1 := jacobian_fits_user_points s hs shift h
  have hF' : s.F = fun t => affineResid A b (0 + userPoint s shift scale t) := by
    funext t; rw [hF t, zero_add]
  rw [hF'] at h1
  exact (Interp.interp_affine_exact (userPoints_fullRank s hs shift hY) h1).1

end Exact

section Ordered

variable {K : Type*} [Field K] [LinearOrder K] [IsStrictOrderedRing K]
  {ι ν μ : Type*} [Fintype ι] [Fintype ν] [Fintype μ]

/-- **for linear residuals it equals A** (regression, npt > n+1, full column rank). -/
theorem jacobian_linear_eq_A_regression (s : IModel K ι ν μ) {scale : ν → K} (hs : ∀ j, scale j ≠ 0)
    (shift : ν → K) (A : Matrix μ ν K) (b : μ → K)
    (hF : ∀ t, s.F t = affineResid A b (userPoint s shift scale t))
    (hY : FullRank s.Y) (h : IsLSQFit s.Y s.F s.c s.J) : unscaleJac scale s.J = A := by
  have h1 := jacobian_regression_user_points s hs shift h
  have hF' : s.F = fun t => affineResid A b (0 + userPoint s shift scale t) := by
    funext t; rw [hF t, zero_add]
  rw [hF'] at h1
  exact (Interp.regression_affine_exact (userPoints_fullRank s hs shift hY) h1).1

end Ordered

/-! ### non-vacuity (ℚ) -/

section Examples

/-- user problem `r(x) = A x − b`, `A = [[2,0],[1,4]]`, `b = (1,1)`; internal scaling
    `shift = (10,-3)`, `scale = (2, 1/2)`; internal base `xbase = (1,1)`; three points. -/
def exA : Matrix (Fin 2) (Fin 2) ℚ := Matrix.of ![![2, 0], ![1, 4]]
def exb : Fin 2 → ℚ := ![1, 1]
def exShift : Fin 2 → ℚ := ![10, -3]
def exScale : Fin 2 → ℚ := ![2, 1 / 2]

/-- internal model: `J_s = A·diag(scale) = [[4,0],[2,2]]`,
    `c = A(shift + xbase∘scale) − b = (23, 1)`. -/
def exS : IModel ℚ (Fin 3) (Fin 2) (Fin 2) where
  xbase := ![1, 1]
  Y := Matrix.of ![![0, 0], ![1, 0], ![0, 1]]
  F := Matrix.of ![![23, 1], ![27, 3], ![23, 3]]
  kopt := 0
  c := ![23, 1]
  J := Matrix.of ![![4, 0], ![2, 2]]

theorem exS_interp : Interpolates exS.Y exS.F exS.c exS.J := by
  have h : (Matrix.of fun t => modelVal exS.c exS.J (exS.Y t) : Matrix (Fin 3) (Fin 2) ℚ) = exS.F := by
    decide +kernel
  exact fun t => congrFun h t
theorem exS_data : ∀ t, exS.F t = affineResid exA exb (userPoint exS exShift exScale t) := by
  have h : exS.F = (Matrix.of fun t => affineResid exA exb (userPoint exS exShift exScale t) :
      Matrix (Fin 3) (Fin 2) ℚ) := by decide +kernel
  exact fun t => congrFun h t
theorem exScale_ne : ∀ j, exScale j ≠ 0 := by decide +kernel

theorem exS_fullRank : FullRank exS.Y := by
  intro a v h
  have h0 := h 0
  have h1 := h 1
  have h2 := h 2
  simp [exS, dotProduct, Fin.sum_univ_two] at h0 h1 h2
  subst h0
  simp at h1 h2
  refine ⟨rfl, ?_⟩
  funext j
  fin_cases j
  · simpa using h1
  · simpa using h2

/-- the hypotheses of `jacobian_linear_eq_A` are satisfiable, and its conclusion checks. -/
example : unscaleJac exScale exS.J = exA :=
  jacobian_linear_eq_A exS exScale_ne exShift exA exb exS_data exS_fullRank exS_interp
example : unscaleJac exScale exS.J = exA := by decide +kernel

end Examples

/-
  ── C11_full (stated, NOT proved) ───────────────────────────────────────────────────────────────
  For every `soln = dfols.solve(objfun, x0, bounds=…, scaling_within_bounds=…, npt=…, …)` without
  projections / regulariser, with `soln.jacobian is not None` and a fully initialised point set,
  let `x_k, r_k` be the argument and (mean) result of the evaluation numbered `k` by an
  independent wrapper around `objfun`, `K = soln.jacmin_eval_nums`, and `(c*, J*)` the
  minimiser of `Σ_{k∈K} ‖c + J x_k − r_k‖²`.  Then
        ‖soln.jacobian − J*‖_max ≤ C · eps · cond(W_user) · max(‖J*‖_max, max_k‖r_k‖ / diam{x_k}) ,
  and for `objfun(x) = A x − b` the same bound holds with `J* = A`.

  Missing for a proof: as for C16 (floating-point QR; LAPACK), plus C03 (labels are true
  evaluation numbers — false in the pinned tree after hard restarts), plus the L2 statement that `solve`
  returns `get_final_results()`'s pair (with hard restarts: the pair of the best run).
  The harness (`harness/props/c11.py`) checks the displayed inequality (with the extra factor
  `posfac = 1 + max(|shift|/scale + |z|)/delta` for the rounding of the evaluation points themselves)
  on real runs with C = 32·(n+1) and records the distribution of `lhs / (eps·cond·posfac·scale)`.
-/

/-- **layer G: snapshots are copies** — decided over the generated table of every assignment in model.py to a snapshot
    attribute: the evaluation numbers a Jacobian was built from are `self.eval_num.copy()` taken in
    `interpolate_mini_models_svd`; the saved point takes copies of the residual, of the CURRENT Jacobian and of ITS
    evaluation-number snapshot (not of the live `eval_num`) — and each of these assignments is present. -/
theorem C11_src_snapshots :
    (∀ a ∈ Gen.snapshotAssigns,
      (a.1 = "__init__" ∧ a.2.2 = "None") ∨
      (a.1 = "interpolate_mini_models_svd" ∧ a.2.1 = "model_jac_eval_nums" ∧ a.2.2 = "self.eval_num.copy()") ∨
      (a.1 = "save_point" ∧
        (a.2 = ("xsave", "xabs") ∨ a.2 = ("rsave", "rvec.copy()") ∨ a.2 = ("objsave", "obj") ∨
         a.2 = ("jacsave", "self.model_jac.copy() if self.model_jac is not None else None") ∨
         a.2 = ("nsamples_save", "nsamples") ∨ a.2 = ("eval_num_save", "eval_num") ∨
         a.2 = ("jacsave_eval_nums", "self.model_jac_eval_nums.copy() if self.model_jac_eval_nums is not None else None")))) ∧
    ("interpolate_mini_models_svd", "model_jac_eval_nums", "self.eval_num.copy()") ∈ Gen.snapshotAssigns ∧
    ("save_point", "jacsave_eval_nums", "self.model_jac_eval_nums.copy() if self.model_jac_eval_nums is not None else None")
      ∈ Gen.snapshotAssigns :=
  ⟨Snapshots.snapshots_are_copies, Snapshots.snapshots_complete.1, Snapshots.snapshots_complete.2.2.2.2⟩

/-- **layer G: the un-scaling the theorems are about is the un-scaling `solve` performs** — the single store into
    `jacmin` in `solve`, translated from solver.py on every run (`Gen.jacUnscaleEntry`: entry (r, i) of the returned
    matrix), is entry (r, i) of `unscaleJac scale J`, the matrix of `unscale_jacobian` / `unscale_regression` /
    `jacobian_fits_user_points`; it runs for every column (`for i in range(n)`) exactly when there is a scaling and a
    Jacobian, and no later statement of `solve` binds `jacmin` again or starts another run (so the matrix that is
    returned is the one that was un-scaled). -/
theorem C11_src_unscale_jacobian {K : Type*} [Field K] {ν μ : Type*} (shift scale : ν → K) (J : Matrix μ ν K) (r : μ) (i : ν) :
    unscaleJac scale J r i = Gen.jacUnscaleEntry (fun a b => J a b) shift scale r i ∧
    Gen.jacUnscaleGuard = "scaling_changes is not None and jacmin is not None" ∧
    Gen.jacUnscaleLoop = "for i in range(n)" ∧ Gen.jacBoundAfterUnscale = [] :=
  ⟨rfl, by decide, by decide, by decide⟩

end C11
end Dfols
