/-
  C10 — Exit flags and messages tell the truth.

  "A success flag with 'objective is sufficiently small' implies soln.obj <= max(abs_tol, rel_tol*f(x0));
  success with 'rho has reached rhoend' implies the trust-region lower bound equals rhoend at the last
  iteration; the max-evaluations warning implies nf == maxfun; 'maximum number of unsuccessful
  restarts' implies at least that many runs were performed; soln.nruns is one more than the number of
  restarts performed; and a success flag is never attached to a non-finite objective."

  Model: event lists accepted by `RunsAcc.accept` (creation sites of `ExitInformation`, `nruns`
  bookkeeping) together with `CountAcc` (budget) — all statements hold for EVERY accepted list.
-/
import DfolsVerif.Proofs.RunsAcc
import DfolsVerif.Proofs.CountAcc
import DfolsVerif.Gen.ExitSites
import DfolsVerif.Proofs.RestartGuards
import DfolsVerif.Proofs.MainLoopPaths
import DfolsVerif.Proofs.SolveMainCalls
import DfolsVerif.Proofs.SolveMainPaths

namespace Dfols
namespace C10

open RunsAcc

/-- unpack "the trace ends with the OptimResults event" -/
theorem res_last {a b : Nat} {c : Val} {evs : List Ev} {s : St}
    {nf nx nruns : Nat} {flag : Int} {cls : MsgCls} {label : Int} {v : Val} {jn : Bool}
    (h : accept a b c (evs ++ [Ev.res nf nx nruns flag cls label v jn]) = .ok s) :
    accept a b c evs = .ok s ∧ s.inRun = false ∧ nf = s.nf ∧ nruns = s.nruns ∧
    (flag = EXIT_MAXFUN → s.maxfun ≤ s.nf) ∧ (cls = .restarts → s.maxUnsucc ≤ s.nruns) := by
  unfold accept at h ⊢
  rw [List.foldlM_append] at h
  simp only [bind, Except.bind] at h
  cases h1 : evs.foldlM step (init a b c) with
  | error m => simp [h1] at h
  | ok s1 =>
    rw [h1] at h
    simp only [List.foldlM_cons, List.foldlM_nil, bind, Except.bind] at h
    split at h
    · simp at h
    · rename_i s2 hs2
      simp only [pure, Except.pure, Except.ok.injEq] at h
      subst h
      simp only [step] at hs2
      repeat' split at hs2
      all_goals (first | (simp at hs2; done) | skip)
      simp only [Except.ok.injEq] at hs2
      subst hs2
      rename_i h1' h2' h3' h4' h5'
      simp only [ne_eq, Decidable.not_not, Bool.not_eq_true, not_and] at h1' h2' h3' h4' h5'
      exact ⟨rfl, h1', h2', h3', h4', h5'⟩

/-- **nruns = 1 + number of restarts**: the reported number of runs is the number of returns of
    `solve_main` (= number of times it was entered: 1 + hard restarts) plus the number of successful
    soft restarts. -/
theorem C10_nruns {a b : Nat} {c : Val} {evs : List Ev} {s : St}
    {nf nx nruns : Nat} {flag : Int} {cls : MsgCls} {label : Int} {v : Val} {jn : Bool}
    (h : accept a b c (evs ++ [Ev.res nf nx nruns flag cls label v jn]) = .ok s) :
    nruns = s.rsts + s.softOK ∧ s.rsts = s.rends := by
  obtain ⟨h0, hin, _, hn, _, _⟩ := res_last h
  have hi := accept_inv h0
  have := hi.rsts
  simp only [hin] at this
  exact ⟨by rw [hn, hi.nruns]; simp at this; omega, by simpa using this⟩

/-- **max-evaluations warning ⇒ the budget is used up** (with `C02_budget`: `nf = maxfun`). -/
theorem C10_maxfun {a b : Nat} {c : Val} {evs : List Ev} {s : St}
    {nf nx nruns : Nat} {cls : MsgCls} {label : Int} {v : Val} {jn : Bool}
    (h : accept a b c (evs ++ [Ev.res nf nx nruns EXIT_MAXFUN cls label v jn]) = .ok s) :
    a ≤ nf := by
  obtain ⟨h0, _, hnf, _, hm, _⟩ := res_last h
  have : s.maxfun = a := by
    have : ∀ (evs : List Ev) (s0 s1 : St), evs.foldlM step s0 = .ok s1 → s1.maxfun = s0.maxfun := by
      intro evs
      induction evs with
      | nil => intro s0 s1 h; simp only [List.foldlM_nil, pure, Except.pure, Except.ok.injEq] at h; subst h; rfl
      | cons e evs ih =>
        intro s0 s1 h
        simp only [List.foldlM_cons, bind, Except.bind] at h
        cases hs : step s0 e with
        | error m => simp [hs] at h
        | ok s2 =>
          rw [hs] at h
          rw [ih s2 s1 h]
          cases e <;> simp only [step] at hs <;> (repeat' split at hs) <;>
            (first | (simp at hs; done) | (simp only [Except.ok.injEq] at hs; subst hs; rfl))
    exact this evs _ _ h0
  rw [hnf, ← this]; exact hm rfl

/-- **'maximum number of unsuccessful restarts' ⇒ at least that many runs**. -/
theorem C10_restarts {a b : Nat} {c : Val} {evs : List Ev} {s : St}
    {nf nx nruns : Nat} {flag : Int} {label : Int} {v : Val} {jn : Bool}
    (h : accept a b c (evs ++ [Ev.res nf nx nruns flag .restarts label v jn]) = .ok s) :
    s.maxUnsucc ≤ nruns := by
  obtain ⟨_, _, _, hn, _, hr⟩ := res_last h
  rw [hn]; exact hr rfl

/-- **'sufficiently small' ⇒ the tested value is ≤ its threshold** (the threshold is
    `model.min_objective_value() = max(abs_tol, rel_tol*f(x0 of the run))`, or `abs_tol` for an exit at
    x0; that the *returned* objective is at least as good as the tested value is C04). -/
theorem C10_small {a b : Nat} {c : Val} {evs : List Ev} {s : St} (h : accept a b c evs = .ok s) :
    ∀ v thr, s.lastSmall = some (v, thr) → Val.le v thr = true ∧ v.isNaN = false := by
  intro v thr hv
  have := (accept_inv h).small v thr hv
  refine ⟨this, ?_⟩
  cases v <;> cases thr <;> simp_all [Val.le, Val.isNaN]

/-- **'rho has reached rhoend' ⇒ rho ≤ rhoend when the exit was created** (with C18's `rhoend ≤ rho`: equality). -/
theorem C10_rhoend {a b : Nat} {c : Val} {evs : List Ev} {s : St} (h : accept a b c evs = .ok s) :
    ∀ r re, s.lastRho = some (r, re) → Val.le r re = true := (accept_inv h).rho

/-
  `C10_success_finite` (stated, NOT proved, and false in general): "a success flag is never attached to
  a non-finite objective".  For the small-objective exit it follows from `C10_small` (the tested value
  is not NaN and ≤ a finite threshold).  For the other success exits (rhoend, noise level, maximum
  unsuccessful restarts) it fails exactly when NO evaluation of the whole run returned a finite
  objective (recorded known finding `C10:success-with-nonfinite-objective|no-finite-evaluation`);
  when some evaluation was finite, C04/C08 give a finite result.
-/

/-! ### non-vacuity -/

def exTrace : List Ev :=
  [ .rst 0 0 0 false 3 3, .obj 1 1 1 7 (.num 5) 1, .ctrl 1 1 (.num 5) 3 (.num 0),
    .evb 1 8, .obj 2 2 2 8 (.num 0) 1, .eve 1 (some 0) .small (.num 0) (.num 1) false,
    .ext 0 .small none none none, .rend 2 2 1 0 .small 2 1 (.num 0) true true,
    .res 2 2 1 0 .small 2 (.num 0) true ]

example : (accept 3 10 (.num 1) exTrace).toOption.map (fun s => (s.nruns, s.rsts, s.softOK, s.lastSmall)) =
    some (1, 1, 0, some (.num 0, .num 1)) := by decide

/-- the pinned tree's double increment (`nruns = 2` without a restart) is rejected -/
example : (accept 1 10 (.num 1) [.rst 0 0 0 false 1 3, .obj 1 1 1 7 (.num 5) 1,
    .rend 1 1 2 1 .maxfun 1 1 (.num 5) true false]).toOption.isNone = true := by decide

/-! ### layer G — the creation sites themselves (table generated from /repo's AST on this run)

  The acceptor rules above mirror the places where `ExitInformation` objects are created.  The theorems
  below are about the generated table of ALL such places (`Gen.exitSites`: function, flag, message and the
  path condition under which the constructor call stands) and are decided over the whole table: no
  reference copy is involved, so an unrelated edit keeps them, while a new or moved site that creates the
  flag/message outside its defining test breaks them. -/

/-- every site creating the max-evaluations warning stands under a budget test (`nf >= maxfun`), or is
    `soft_restart`'s refusal `not ok_to_do_restart` with `ok_to_do_restart` defined as
    `runs-since-success < max_unsuccessful and nf < maxfun` (the other reason for the refusal is turned into
    the 'unsuccessful restarts' success by the next statement, see `C10_src_restarts`) -/
theorem C10_src_maxfun : ∀ s ∈ Gen.exitSites, s.flag = "EXIT_MAXFUN_WARNING" →
    (s.path.any (fun l => l ∈ [⟨true, "self.nf", ">=", "self.maxfun"⟩, ⟨true, "nf", ">=", "maxfun"⟩]) = true) ∨
    (⟨false, "ok_to_do_restart", "", ""⟩ ∈ s.path ∧
      s.defs = [("ok_to_do_restart", "nruns_so_far - self.last_successful_run < params('restarts.max_unsuccessful_restarts') and self.nf < self.maxfun")]) := by
  decide +kernel

/-- every site creating 'Objective is sufficiently small' is a success and stands under
    `<objective of the evaluations just made> <= threshold`, the threshold being `model.min_objective_value()`
    inside a run and `model.abs_tol` at the starting point -/
theorem C10_src_small : ∀ s ∈ Gen.exitSites, s.msg = "Objective is sufficiently small" →
    s.flag = "EXIT_SUCCESS" ∧
    (s.path.any (fun l => l.pos && l.op == "<=" &&
        ((l.rhs == "self.model.min_objective_value()" &&
            (l.lhs == "sumsq(np.mean(rvec_list[:num_samples_run, :], axis=0))" ||
             l.lhs == "sumsq(np.mean(rvec_list[:num_samples_run, :], axis=0)) + self.h(remove_scaling(x, self.scaling_changes), *self.argsh)")) ||
         (l.rhs == "params('model.abs_tol')" &&
            (l.lhs == "sumsq(r0_avg)" || l.lhs == "sumsq(r0_avg) + h(remove_scaling(x0, scaling_changes), *argsh)")))) = true) := by
  decide +kernel

/-- the threshold: `max(abs_tol, rel_tol * f(x0))`, or `abs_tol` when `f(x0)` is not finite -/
theorem C10_src_threshold : Gen.minObjectiveValueSrc =
    "if not np.isfinite(self.objbeg):     return self.abs_tol ; return max(self.abs_tol, self.rel_tol * self.objbeg)" := by
  decide +kernel

/-- every site creating 'rho has reached rhoend' is a success and stands where `control.rho > rhoend` is false -/
theorem C10_src_rhoend : ∀ s ∈ Gen.exitSites, s.msg = "rho has reached rhoend" →
    s.flag = "EXIT_SUCCESS" ∧ ⟨false, "control.rho", ">", "rhoend"⟩ ∈ s.path := by
  decide +kernel

/-- every site creating 'Reached maximum number of unsuccessful restarts' is a success and stands under
    `runs since the last successful one >= restarts.max_unsuccessful_restarts` -/
theorem C10_src_restarts : ∀ s ∈ Gen.exitSites, s.msg = "Reached maximum number of unsuccessful restarts" →
    s.flag = "EXIT_SUCCESS" ∧
    (s.path.any (fun l => l.pos && l.op == ">=" && l.rhs == "params('restarts.max_unsuccessful_restarts')" &&
        (l.lhs == "nruns_so_far - self.last_successful_run" || l.lhs == "nruns - last_successful_run")) = true) := by
  decide +kernel

/-- a success flag is created for exactly four documented reasons -/
theorem C10_src_success_reasons : ∀ s ∈ Gen.exitSites, s.flag = "EXIT_SUCCESS" →
    s.msg ∈ ["Objective is sufficiently small", "rho has reached rhoend", "All points within noise level",
             "Reached maximum number of unsuccessful restarts"] := by
  decide +kernel

/-- **`soft_restart`'s admission test, translated from the source** (`Gen.softRestartRefusal`, integers as in Python):
    it refuses with the max-evaluations warning only when `nf ≥ maxfun` (and the restart limit is not the reason), with
    'maximum number of unsuccessful restarts' only when that many runs went by, creates no other exit, and proceeds
    exactly when both tests pass — the semantic counterpart of `C10_src_maxfun`'s second disjunct. -/
theorem C10_soft_refusal (nruns last maxUnsucc nf maxfun : Int) :
    (∀ m, Gen.softRestartRefusal nruns last maxUnsucc nf maxfun = some (1, m) → maxfun ≤ nf ∧ nruns - last < maxUnsucc) ∧
    (∀ m, Gen.softRestartRefusal nruns last maxUnsucc nf maxfun = some (0, m) → maxUnsucc ≤ nruns - last) ∧
    (∀ f m, Gen.softRestartRefusal nruns last maxUnsucc nf maxfun = some (f, m) → f = 0 ∨ f = 1) ∧
    (Gen.softRestartRefusal nruns last maxUnsucc nf maxfun = none ↔ (nruns - last < maxUnsucc ∧ nf < maxfun)) :=
  RestartGuards.softRestartRefusal_truthful nruns last maxUnsucc nf maxfun

/-- non-vacuity: the table has sites of each kind -/
example : (Gen.exitSites.filter (·.flag = "EXIT_MAXFUN_WARNING")).length = 3 ∧
    (Gen.exitSites.filter (·.msg = "Objective is sufficiently small")).length = 4 ∧
    (Gen.exitSites.filter (·.msg = "rho has reached rhoend")).length = 2 := by decide +kernel

/-! ### layer G: the control-flow skeleton of solve_main's main loop (translated from the AST on every run) -/

/-- **`nruns` is one more than the number of restarts, at the source**: for EVERY execution of the main-loop body (every outcome
    of every test; `Skel.Exec` over the skeleton `Gen.mainLoop` translated from solver.py): leaving the loop increments
    `nruns_so_far` exactly once; going on to the next iteration either touches nothing, or performs exactly one soft restart
    together with exactly one increment, one `current_iter = -1` and one rescaling of rhoend; an exception leaves the counter
    alone; the body never falls off its end; no other statement writes `nruns_so_far`, `current_iter` (besides `+= 1`) or `rhoend`.
    With the translated x0 block / loop prelude this is the rule `RunsAcc` enforces on traces (`C10_nruns`). -/
theorem C10_src_nruns_once {tr : List String} {e : Skel.Ending} (hx : Skel.Exec Gen.mainLoop tr e) :
    (e = .brk → tr.count "nruns" = 1 ∧ tr.count "iter0" = 0 ∧ tr.count "rhoend" = 0 ∧ tr.count "soft" ≤ 1) ∧
    (e = .cont → (tr.count "soft" = 0 ∧ tr.count "nruns" = 0 ∧ tr.count "iter0" = 0 ∧ tr.count "rhoend" = 0) ∨
                 (tr.count "soft" = 1 ∧ tr.count "nruns" = 1 ∧ tr.count "iter0" = 1 ∧ tr.count "rhoend" = 1)) ∧
    (e = .raise → tr.count "nruns" = 0 ∧ tr.count "soft" = 0) ∧
    e ≠ .fall ∧ tr.any MainLoopPaths.isOther = false :=
  MainLoopPaths.runs_trace hx

/-- after the loop: the final-result query, then the `return` that hands `nruns_so_far` and `exit_info` back -/
theorem C10_src_after_loop :
    Gen.afterLoop = ["final", "return:(x, rvec, obj, jacmin, nsamples, control.nf, control.nx, nruns_so_far, exit_info, diagnostic_info, x_eval_num, jac_eval_nums)"] := by
  decide +kernel

/-- non-vacuity: the skeleton is the whole loop body (> 400 nodes) and has executions of all five kinds -/
example : (Skel.reach MainLoopPaths.mRuns Gen.mainLoop MainLoopPaths.q0Runs).length = 5 ∧ Skel.size Gen.mainLoop > 400 :=
  MainLoopPaths.nonvacuous

/-- **the loop is never left without an exit object**: on every execution of the main-loop body that ends in `break`, `exit_info`
    is an ExitInformation — created on that path or tested `is not None` after the call that returned it — so the flag and
    message `solve` reads from it exist (monitor `MainLoopPaths.mExit`) -/
theorem C10_src_exit_object_on_break {tr : List String} {e : Skel.Ending} (hx : Skel.Exec Gen.mainLoop tr e) (he : e = .brk) :
    MainLoopPaths.mExit.run false tr = true :=
  MainLoopPaths.exit_trace hx he

/-- the run counter a run hands back: `nruns_so_far + 1` at the two returns that stand before the main loop, `nruns_so_far` after the
    loop (where every `break` has added exactly one: `C10_src_nruns_once`) — every entry of `solve_main` adds one run -/
theorem C10_src_nruns_returned :
    Gen.solveMainReturns.map (fun r => (r.drop 7).take 1) = [["nruns_so_far + 1"], ["nruns_so_far + 1"], ["nruns_so_far"]] :=
  SolveMainCalls.nruns_returned

/-- **`nruns` over a whole run of `solve_main`, any number of iterations**: the skeleton of the WHOLE function (prelude, main loop
    as a loop, final statements — translated from solver.py on every run) is executed in every possible way — every outcome of every
    test, any number of main-loop iterations and soft restarts; on every execution Python can take (`while True:` is left by `break`
    only) that ends by `return`, the run counter handed back is `nruns_so_far` + 1 + the number of soft restarts PERFORMED (monitor
    `SolveMainPaths.mN`: `d = 3` means increments − performed restarts = 1); nothing else writes the counter, and the function is
    left by `return` or `raise` only.  With `C02_src_counters_threaded` (how `solve` threads the counter through hard restarts):
    `soln.nruns` is one more than the number of restarts performed. -/
theorem C10_src_nruns_whole_run {tr : List String} {e : SkelL.Ending} (hx : SkelL.Exec Gen.solveMainBody tr e) :
    (SolveMainPaths.mN.run SolveMainPaths.q0 tr).infeasible = true ∨
    (e = .ret ∧ (SolveMainPaths.mN.run SolveMainPaths.q0 tr).d = 3) ∨
    (e = .raise ∧ 1 ≤ (SolveMainPaths.mN.run SolveMainPaths.q0 tr).d ∧ (SolveMainPaths.mN.run SolveMainPaths.q0 tr).d ≤ 3) :=
  SolveMainPaths.whole_run hx

/-- non-vacuity: the fixed points of the loops were reached (`wf`), and feasible returning paths exist -/
example : SkelL.wf SolveMainPaths.mN Gen.solveMainBody SolveMainPaths.q0 = true ∧
    (⟨3, false, false, false⟩, SkelL.Ending.ret) ∈ SkelL.reach SolveMainPaths.mN Gen.solveMainBody SolveMainPaths.q0 ∧
    SkelL.size Gen.solveMainBody > 600 := by decide +kernel

/-- **every `return` of solve_main carries an exit object** (whole-function skeleton, any number of iterations): on every execution
    Python can take that ends by `return` — the exit at x0, the exit during the initialisation, the final return — `exit_info` is an
    ExitInformation object, so `solve` finds a flag and a message -/
theorem C10_src_exit_object_at_return {tr : List String} {e : SkelL.Ending} (hx : SkelL.Exec Gen.solveMainBody tr e) (he : e = .ret) :
    (SolveMainPaths.mE.run ⟨false, false, false⟩ tr).infeasible = true ∨ (SolveMainPaths.mE.run ⟨false, false, false⟩ tr).known = true :=
  SolveMainPaths.exit_at_return hx he

end C10
end Dfols
