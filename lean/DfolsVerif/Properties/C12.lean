/-
  C12 — the box trust-region sub-problem solver `trsbox` returns feasible, decreasing steps.  **PARTIAL**

  Statement (properties.jsonl): for every gradient g, symmetric matrix H (PSD or indefinite), radius
  delta > 0 and box containing the current point, the step d
    (1) satisfies the box exactly,
    (2) has ‖d‖ ≤ delta (1 + 1e-8),
    (3) does not increase the quadratic model,
    (4) reduces it at least as much as the steepest-descent step truncated at the first bound or
        the trust-region boundary,
    (5) and the returned gradient equals g + H d.

  What is proved here (model: `Kernels/Trsbox.lean`, a line-by-line port of
  `dfols/trust_region.py:234-553`, tied to the Python by the correspondence suite of `./check C12`):

    (1)  `trsbox_box`              any rounding — the clipped point is in the box (arbitrary linear
                                   order, uninterpreted `+`/`-`), flagged components on the bound itself
         `trsbox_box_exact`        exact arithmetic — `sl ≤ xopt + d ≤ su`
         `trsbox_returns_clipped`  EVERY return path of the port ends in that clipping (all inputs)
         `trsbox_result_in_box`    hence the returned array is `xnew ⊖ xopt` with `xnew` in the box
    (5)  `trsbox_gnew`             (exact) `gnew = g + H d` is preserved by the CG update (346-347)
         `trsbox_gnew_alt`         (exact) … and by the rotation of the alternative iteration (517-521),
                                   together with the auxiliary invariant `hred = H d_red`
    (3,4) first iteration only:
         `trsbox_first_step_cauchy` (exact) the first CG iterate `t·s`, `s = -g` on the free variables,
                                   has model value `-sdec = -t(‖s‖² - t/2·sHs)` (line 349) `≤ -t‖s‖²/2 ≤ 0`
                                   whenever `0 ≤ t` respects the curvature bound of line 321.

  Stated, NOT proved (kept at full strength below as `C12_full`): clauses (2), (3), (4) for the
  *returned* step.  The search of `./check C12` tests all five clauses directly on the real function.
-/
import DfolsVerif.Proofs.TrsBox
import DfolsVerif.Gen.TrsClip
import Mathlib.Algebra.BigOperators.Fin
import Mathlib.Tactic.NormNum
import Mathlib.Tactic.Positivity
import DfolsVerif.Proofs.TrsNorm

namespace Dfols
namespace C12

open TrsLin Trs TrsProofs Matrix

/-! ### clause (1): the box -/

/-- **any rounding**: whatever `xopt ⊕ d` rounds to (arbitrary `+` on an arbitrary linear order, no
    algebraic law assumed), the point `xnew` computed by `d_within_bounds` (lines 549-551) lies in
    `[sl, su]` in every coordinate with `sl ≤ su`; coordinates flagged `xbdi = ∓1` are the bound itself. -/
theorem trsbox_box {α : Type} [LinearOrder α] [Add α] (d xopt sl su : Nat → α) (xbdi : Nat → Int) (i : Nat)
    (h : sl i ≤ su i) :
    sl i ≤ xnewClip d xopt sl su xbdi i ∧ xnewClip d xopt sl su xbdi i ≤ su i ∧
    (xbdi i = -1 → xnewClip d xopt sl su xbdi i = sl i) ∧
    (xbdi i = 1 → xnewClip d xopt sl su xbdi i = su i) :=
  ⟨(xnewClip_mem d xopt sl su xbdi i h).1, (xnewClip_mem d xopt sl su xbdi i h).2,
   xnewClip_fixed_lower d xopt sl su xbdi i, xnewClip_fixed_upper d xopt sl su xbdi i⟩

/-- **exact arithmetic**: the returned step `d = xnew - xopt` satisfies `sl ≤ xopt + d ≤ su`. -/
theorem trsbox_box_exact {α : Type} [AddCommGroup α] [LinearOrder α] (d xopt sl su : Nat → α) (xbdi : Nat → Int)
    (i : Nat) (h : sl i ≤ su i) :
    sl i ≤ xopt i + dWithinBounds d xopt sl su xbdi i ∧ xopt i + dWithinBounds d xopt sl su xbdi i ≤ su i :=
  dWithinBounds_exact d xopt sl su xbdi i h

/-- **every return path is clipped**: for all inputs (any `Arith`, any data, NaNs included) the step
    returned by the port is `d_within_bounds` of the un-clipped step and the `xbdi` flags left by the
    CG loop / the alternative iteration. -/
theorem trsbox_returns_clipped (A : Arith) (n : Nat) (xopt g H sl su : FV) (delta : Float) :
    ∃ (dRaw : FV) (xbdi : Array Int),
      (trsbox A n xopt g H sl su delta).d =
        finishG n (at' dRaw) (at' xopt) (at' sl) (at' su) (fun i => xbdi.getD i 0) :=
  ⟨_, _, trsbox_d_eq_finish A n xopt g H sl su delta⟩

/-- what `d_within_bounds` returns, for any scalar type with a linear order and arbitrary (rounded)
    `+`, `-`: an array of length `n` whose `i`-th entry is `xnew_i ⊖ xopt_i` with `sl_i ≤ xnew_i ≤ su_i`.
    (`Float` restricted to non-NaN values is such a type — IEEE assumption of the trusted base; with
    `trsbox_returns_clipped` this is the box clause for every input of the port.) -/
theorem trsbox_result_in_box {α : Type} [LinearOrder α] [Add α] [Sub α] (n : Nat) (dRaw xopt sl su : Nat → α)
    (xbdi : Nat → Int) (hbox : ∀ i < n, sl i ≤ su i) :
    (finishG n dRaw xopt sl su xbdi).size = n ∧
    ∀ i, i < n → ∃ xnew : α, sl i ≤ xnew ∧ xnew ≤ su i ∧ (finishG n dRaw xopt sl su xbdi)[i]? = some (xnew - xopt i) :=
  finishG_spec n dRaw xopt sl su xbdi hbox

/-! ### clause (5): gnew = g + H d (exact arithmetic, any commutative ring) -/

/-- CG update (lines 346-347). -/
theorem trsbox_gnew {n : Nat} {K : Type} [CommRing K] (H : Matrix (Fin n) (Fin n) K) (g d s gnew hs : Fin n → K) (t : K)
    (hinv : gnew = g + H *ᵥ d) (hhs : hs = H *ᵥ s) :
    gnew + t • hs = g + H *ᵥ (d + t • s) := gnew_cg_update H g d s gnew hs t hinv hhs

/-- rotation of the alternative iteration (lines 517-521); the final clipping (which can perturb the
    identity by rounding only — exact arithmetic: `dWithinBounds_id`) comes after. -/
theorem trsbox_gnew_alt {n : Nat} {K : Type} [CommRing K] (H : Matrix (Fin n) (Fin n) K) (g d s gnew hs hred : Fin n → K)
    (cth sth : K) (free : Fin n → Prop) [DecidablePred free]
    (hinv : gnew = g + H *ᵥ d) (hhred : hred = H *ᵥ (fun i => if free i then d i else 0))
    (hhs : hs = H *ᵥ s) (hs0 : ∀ i, ¬ free i → s i = 0) :
    let d' : Fin n → K := fun i => if free i then cth * d i + sth * s i else d i
    gnew + ((cth - 1) • hred + sth • hs) = g + H *ᵥ d' ∧
    cth • hred + sth • hs = H *ᵥ (fun i => if free i then d' i else 0) :=
  gnew_alt_update H g d s gnew hs hred cth sth free hinv hhred hhs hs0

/-! ### clauses (3), (4): the first iteration -/

/-- (exact) The first CG iteration moves along `s = -g` on the free variables (lines 281-283), by
    `t = stplen ≥ 0` with `t ≤ ‖s‖²/sHs` when `sHs > 0` (line 321; the truncations at the trust-region
    boundary `blen` and at the first bound, lines 330-336, only make `t` smaller).  Then the model value
    is exactly `-sdec` of line 349, and it is at most `-t‖s‖²/2 ≤ 0`. -/
theorem trsbox_first_step_cauchy {n : Nat} {K : Type} [Field K] [LinearOrder K] [IsStrictOrderedRing K]
    (g : Fin n → K) (H : Matrix (Fin n) (Fin n) K) (free : Fin n → Prop) [DecidablePred free] (t : K)
    (ht : 0 ≤ t) :
    let s : Fin n → K := fun i => if free i then -g i else 0
    (0 < s ⬝ᵥ (H *ᵥ s) → t ≤ (s ⬝ᵥ s) / (s ⬝ᵥ (H *ᵥ s))) →
    Q g H (t • s) = -(t * (s ⬝ᵥ s - (1 / 2) * t * (s ⬝ᵥ (H *ᵥ s)))) ∧
    Q g H (t • s) ≤ -((1 / 2) * t * (s ⬝ᵥ s)) ∧ Q g H (t • s) ≤ 0 := by
  intro s hcurv
  have h := first_step_decrease g H s t (sd_dir_dot g free) ht hcurv
  refine ⟨h.1, h.2, le_trans h.2 ?_⟩
  have hss : 0 ≤ s ⬝ᵥ s := by
    simp only [dotProduct]
    exact Finset.sum_nonneg fun i _ => mul_self_nonneg _
  have : 0 ≤ (1 / 2) * t * (s ⬝ᵥ s) := by positivity
  linarith

/-! ### the full statement (NOT proved)

  C12_full (exact arithmetic, ordered field with square root; `trsbox` run with `Arith` over that field):
    for all n ≥ 1, g, symmetric H, sl ≤ xopt ≤ su, delta > 0, with (d, gnew, _) = trsbox xopt g H sl su delta:
      (1) ∀ i, sl i ≤ xopt i + d i ≤ su i                                   -- proved: `trsbox_box_exact` + `trsbox_returns_clipped`
      (2) Σ d i² ≤ delta²
      (3) Q g H d ≤ 0
      (4) Q g H d ≤ Q g H dC,  dC = the projected steepest-descent step truncated at the first bound,
                               the trust-region boundary or the 1-d minimiser
      (5) gnew = g + H d                                                    -- proved for each update: `trsbox_gnew`, `trsbox_gnew_alt`
  Missing invariants for (2)-(4), by loop:
    CG loop:   `sl ≤ xopt + d ≤ su` (bound scan 330-336 picks the smallest ratio);  `Σ_free d² ≤ delsq`
               (`blen` is the positive root of `‖d + t s‖² = delsq`);  `s·gnew_free = -gredsq` and conjugacy, giving
               `Q(d_k) - Q(d_{k+1}) = sdec ≥ 0` (only the first iteration is proved: `trsbox_first_step_cauchy`);
               `delsq` bookkeeping `delsq = delta² - Σ_fixed d²`.
    alt loop:  the rotation `d_free ← cth d_free + sth s` with `s ⟂ d_free`, `‖s‖ = ‖d_free‖`, `cth² + sth² = 1`
               preserves `‖d_free‖`;  `angbd` keeps the rotated point inside the bounds;  `sdec` of line 508 is the
               true decrease of Q along the rotation.
    final clip: is the identity on a step that already satisfies the bounds (`dWithinBounds_id`, proved).
  The port over `Float` is not a definition over an ordered field (it uses `Float.floor`, `toUInt64`, libm `pow`), so
  even with these invariants the theorem would be about a second, exact copy of the loops.  Watched instead by the
  search (all five clauses, every run) and the correspondence (Lean port vs Python).
-/

/-! ### clause (2), step lemmas (exact real arithmetic) and their tie to the source -/

/-- **a truncated CG step of `trsbox` stays in the trust region** (free components; `resid = delsq − ‖d‖² ≥ 0`): every step
    length `0 ≤ t ≤ blen`, `blen` computed exactly as in trust_region.py (`C12_src_step_formulas`), keeps `‖d + t s‖² ≤ delsq`.
    `stplen` is `blen` or smaller (`min(blen, ·)`, then only ever decreased under `if temp < stplen`). -/
theorem C12_cg_step_in_ball {n : Nat} (d s : Fin n → ℝ) (delsq t : ℝ) (hs : 0 < s ⬝ᵥ s) (hr : 0 ≤ delsq - d ⬝ᵥ d)
    (ht0 : 0 ≤ t) (ht : t ≤ TrsNorm.blen (s ⬝ᵥ s) (delsq - d ⬝ᵥ d) (d ⬝ᵥ s)) :
    (d + t • s) ⬝ᵥ (d + t • s) ≤ delsq :=
  TrsNorm.cg_step_in_ball d s delsq t hs hr ht0 ht

/-- at `t = blen` the step lies ON the boundary (then the code goes on with `alt_trust_step`) -/
theorem C12_cg_step_on_boundary {n : Nat} (d s : Fin n → ℝ) (delsq : ℝ) (hs : 0 < s ⬝ᵥ s) (hr : 0 < delsq - d ⬝ᵥ d) :
    (d + TrsNorm.blen (s ⬝ᵥ s) (delsq - d ⬝ᵥ d) (d ⬝ᵥ s) • s) ⬝ᵥ (d + TrsNorm.blen (s ⬝ᵥ s) (delsq - d ⬝ᵥ d) (d ⬝ᵥ s) • s) = delsq :=
  TrsNorm.cg_step_on_boundary d s delsq hs hr

/-- **the rotation of `alt_trust_step` keeps the norm of the free part**: `d ← cth·d + sth·s` with `s ⟂ d`, `‖s‖ = ‖d‖` and the
    half-angle values `cth = (1 − angt²)/(1 + angt²)`, `sth = 2 angt/(1 + angt²)` of the source, for every `angt` -/
theorem C12_rotation_keeps_norm {n : Nat} (d s : Fin n → ℝ) (angt : ℝ) (horth : d ⬝ᵥ s = 0) (hnorm : s ⬝ᵥ s = d ⬝ᵥ d) :
    let cth := (1 - angt ^ 2) / (1 + angt ^ 2)
    let sth := 2 * angt / (1 + angt ^ 2)
    (cth • d + sth • s) ⬝ᵥ (cth • d + sth • s) = d ⬝ᵥ d :=
  TrsNorm.rotation_norm d s _ _ horth hnorm (TrsNorm.half_angle angt)

/-- **layer G**: the formulas above are the ones in trust_region.py (canonical text regenerated on every run) -/
theorem C12_src_step_formulas : Gen.trsboxStepFormulas =
    [("trsbox", "resid = delsq - sumsq(d[xbdi == 0])"),
     ("trsbox", "temp = sqrt(stepsq * resid + ds ** 2)"),
     ("trsbox", "blen = resid / (temp + ds) if ds >= 0.0 else (temp - ds) / stepsq"),
     ("trsbox", "stplen = blen if shs <= 0.0 else min(blen, gredsq / shs)"),
     ("trsbox", "stplen = temp  # under: if temp < stplen"),
     ("alt_trust_step", "cth = (1.0 - angt ** 2) / (1.0 + angt ** 2)"),
     ("alt_trust_step", "sth = 2.0 * angt / (1.0 + angt ** 2)"),
     ("alt_trust_step", "d[xbdi == 0] = cth * d[xbdi == 0] + sth * s[xbdi == 0]")] := by
  decide +kernel

/-- the hypotheses are satisfiable: d = (1, 0), s = (0, 1), delsq = 4: blen = √3, and the step lands on the boundary -/
example : (0 : ℝ) < (![0, 1] : Fin 2 → ℝ) ⬝ᵥ ![0, 1] ∧ (0 : ℝ) < 4 - (![1, 0] : Fin 2 → ℝ) ⬝ᵥ ![1, 0] := by
  simp [dotProduct, Fin.sum_univ_two]

/-! ### non-vacuity -/

/-- a "rounding" addition that is not even monotone: the box clause still holds (by `decide`). -/
example :
    let add' : Int → Int → Int := fun a b => if (a + b) % 2 = 0 then a + b + 7 else a + b - 5
    let _ : Add Int := ⟨add'⟩
    ∀ i < 3, (-1 : Int) ≤ xnewClip (fun _ => 3) (fun i => (i : Int)) (fun _ => -1) (fun _ => 2) (fun i => if i = 2 then 1 else 0) i ∧
             xnewClip (fun _ => 3) (fun i => (i : Int)) (fun _ => -1) (fun _ => 2) (fun i => if i = 2 then 1 else 0) i ≤ 2 := by
  decide

/-- hypotheses of `trsbox_gnew` are satisfiable: the initial state `d = 0`, `gnew = g`. -/
example {n : Nat} {K : Type} [CommRing K] (H : Matrix (Fin n) (Fin n) K) (g : Fin n → K) : g = g + H *ᵥ 0 := by simp

/-- hypotheses of `trsbox_first_step_cauchy` are satisfiable with a non-trivial step: n = 2, H = 2·I,
    g = (1, 1), both variables free, t = 1/2 (the 1-d minimiser): `Q = -1/2`. -/
example : Q (K := ℚ) (n := 2) (fun _ => 1) (fun i j => if i = j then 2 else 0) ((1 / 2 : ℚ) • fun _ => (-1 : ℚ)) = -(1 / 2) := by
  simp [Q, dotProduct, mulVec]
  norm_num

/-! ### layer G: `d_within_bounds` translated from trust_region.py on every run -/

/-- **the clipping the box theorems are about is the clipping in the source**: the component-wise translation of
    `trust_region.d_within_bounds` (elementwise `np.maximum(np.minimum(xopt + d, su), sl)`, then the two masked stores
    `xnew[xbdi == -1] = sl[..]`, `xnew[xbdi == 1] = su[..]`, then `xnew - xopt`) is the kernel `dWithinBounds` of
    `trsbox_box` / `trsbox_box_exact` / `trsbox_returns_clipped` — for any scalar type (no law of arithmetic used). -/
theorem gen_dWithinBounds_eq {α : Type} [Add α] [Sub α] [Min α] [Max α] (d xopt sl su : Nat → α) (xbdi : Nat → Int) :
    Gen.dWithinBoundsSrc d xopt sl su xbdi = dWithinBounds d xopt sl su xbdi := by
  funext i
  simp only [Gen.dWithinBoundsSrc, dWithinBounds, xnewClip]
  by_cases h1 : xbdi i = 1
  · have h2 : ¬ xbdi i = -1 := by omega
    simp [h1]
  · simp [h1]

/-- **every step the Python branch of `trsbox` returns went through `d_within_bounds`**: each `return` of
    `alt_trust_step` returns `d_within_bounds(d, xopt, sl, su, xbdi)`; `trsbox` returns that expression, or the `d`
    it has just received from `alt_trust_step`, or (compiled-extension branch, not modelled) `trustregion.solve`;
    and `d_within_bounds` is called nowhere else. -/
theorem C12_src_returns_clipped :
    (∀ r ∈ Gen.trsboxReturns, r.1 = "alt_trust_step" → r.2.1 = "d_within_bounds(d, xopt, sl, su, xbdi)") ∧
    (∀ r ∈ Gen.trsboxReturns, r.1 = "trsbox" →
      r.2.1 = "d_within_bounds(d, xopt, sl, su, xbdi)" ∨
      (r.2.1 = "d" ∧ r.2.2 = "d, gnew = alt_trust_step(n, xopt, H, sl, su, d, xbdi, nact, gnew, qred)") ∨
      r.2.1 = "trustregion.solve(g, H, delta, sl=np.minimum(sl - xopt, -ZERO_THRESH), su=np.maximum(su - xopt, ZERO_THRESH), verbose_output=True)") ∧
    (∀ c ∈ Gen.dWithinBoundsCalls, c.2.1 = "return" ∧ c.2.2 = "d_within_bounds(d, xopt, sl, su, xbdi)") ∧
    ("trsbox", "d_within_bounds(d, xopt, sl, su, xbdi)", "") ∈ Gen.trsboxReturns := by
  decide +kernel

end C12
end Dfols
