/-
  C14 — The initial interpolation set is feasible and well poised next to bounds; random direction
  generators.

  Statement (properties.jsonl): with the default coordinate initialisation, for any starting point
  (interior, on a face or corner, within a hair of a bound, or infeasible) the first npt evaluations
  are the projected x0 followed by points that all lie inside the bounds, each between 0.01*rhobeg
  and 2*rhobeg from x0, and together affinely independent with condition number of the scaled
  interpolation matrix below 1e4.  The random-direction generators used for random initialisation,
  growing and restarts return the requested number of directions, each inside the given bounds and
  no longer than the requested length.

  What is proved here, about the models `Kernels/InitDirs.lean` and `Kernels/RandDirs.lean`
  (tied to /repo by the bit-exact correspondences of harness/props/c14.py):

  * (any linear order, arbitrary arithmetic = any rounding)  `first_is_clamped_x0`,
    `coord_init_in_bounds`, `coord_init_count`, `rand_dirs_in_bounds`, `rand_dirs_count`,
    `orthog_dirs_in_bounds`, `orthog_dirs_count`;
    `coord_init_old_overshoots`: kernel-evaluated IEEE witness that the pinned (pre-`fix:`) formula
    `xbase + clip` left the box (46 ulp), and that the repaired one lands on `xu`;
  * (exact arithmetic over a linearly ordered field; hypothesis: rhobeg > 0 and gap ≥ 2·rhobeg in
    every coordinate, NOTHING about x0; every outcome of the objective-dependent swap)
    `coord_init_points`, `coord_init_pair_points`, `coord_init_distance`, `first_two_steps_distinct`,
    `coord_init_affinely_independent`, `coord_init_affineIndependent` (Mathlib's `AffineIndependent`),
    `coord_init_full_column_rank`;
    `coord_init_needs_gap` shows the gap hypothesis (which `solve` enforces) cannot be dropped;
  * (exact arithmetic, `lower ≤ 0 ≤ upper`)  `rand_dirs_length`, `rand_dirs_norm`,
    `orthog_dirs_length_partial`, `orthog_dirs_norm_partial`.

  PARTIAL, and why:
  * NOT PROVED (stated only): `cond(W) < 1e4` for the scaled interpolation matrix
        W = [1 | (y_t − x_opt)/max_t ‖y_t − x_opt‖]            (model.py:307-320)
    — a statement about singular values; the search checks it numerically on every run
    (worst value seen for n ≤ 8: ≈ 2.2e3 in 10⁴ solver runs, ≈ 2.4e3 in a directed search over the step table).
  * FINDING (recorded, not repaired — a design choice of the code): the property says every returned
    direction is "no longer than the requested length".  Block 4 of
    `random_orthog_directions_within_bounds` ("extra directions for active constraints",
    util.py:148-157) returns `min(2·delta, upper[idx])·e_idx`, i.e. length up to `2·delta`, whenever
    the free side of an active coordinate is farther than `delta`:  `orthog_block4_value`,
    `orthog_block4_two_delta`.  The full-strength statement
        ∀ c j, |orthogDir … c j| ≤ δ·|w_c j|          (all five blocks)
    is therefore FALSE; `orthog_dirs_length_partial` proves it for blocks 1, 2, 3, 5 and `≤ 2δ` for block 4.
  * The length theorems need `lower ≤ 0 ≤ upper`.  The asserts of util.py:111-112 also accept
    `upper ∈ [-1e-15, 0)` / `lower ∈ (0, 1e-15]` (round-off of `su − xopt`); that band is outside the
    theorems (there `get_scale` can return a negative scale); the search samples it.
-/
import DfolsVerif.Proofs.InitDirs
import DfolsVerif.Proofs.RandDirs
import Mathlib.LinearAlgebra.AffineSpace.Independent

namespace Dfols
namespace C14

open InitDirs RandDirs

/-! ## Coordinate initialisation -/

section anyRounding
variable {α : Type} [LinearOrder α] [Add α] [Sub α] [Mul α] [Neg α] [OfScientific α]

/-- **the first evaluation is the projected x0** (any arithmetic): component-wise the nearest point
    of `[xl, xu]`, inside the bounds, and x0 itself when x0 is feasible. -/
theorem first_is_clamped_x0 (n : Nat) (δ : α) (x0 xl xu : Nat → α) (lt : Nat → Bool) (j : Nat)
    (h : xl j ≤ xu j) :
    evalPoint n δ x0 xl xu lt 0 j = min (max (xl j) (x0 j)) (xu j) ∧
      (xl j ≤ evalPoint n δ x0 xl xu lt 0 j ∧ evalPoint n δ x0 xl xu lt 0 j ≤ xu j) ∧
      (xl j ≤ x0 j → x0 j ≤ xu j → evalPoint n δ x0 xl xu lt 0 j = x0 j) := by
  have e : evalPoint n δ x0 xl xu lt 0 j = clampX0 (x0 j) (xl j) (xu j) := by
    unfold evalPoint xbase; rw [if_pos rfl]
  rw [e]
  exact ⟨clampX0_eq _ _ _ h, clampX0_mem h _, fun h1 h2 => clampX0_of_mem h1 h2⟩

/-- **every evaluation point lies inside the bounds** — for every linear order and arbitrary
    `+ − × neg` (any rounding), every x0, every step `k`, every swap outcome, no gap hypothesis:
    the repaired `as_absolute_coordinates` ends with a clip to `[xl, xu]`. -/
theorem coord_init_in_bounds (n : Nat) (δ : α) (x0 xl xu : Nat → α) (lt : Nat → Bool) (k j : Nat)
    (h : xl j ≤ xu j) :
    xl j ≤ evalPoint n δ x0 xl xu lt k j ∧ evalPoint n δ x0 xl xu lt k j ≤ xu j := by
  by_cases hk : k = 0
  · subst hk; exact (first_is_clamped_x0 n δ x0 xl xu lt j h).2.1
  · unfold evalPoint; rw [if_neg hk]; exact asAbs_mem h _ _ _ _

/-- the model produces exactly `npt` points of dimension `n` -/
theorem coord_init_count (n npt : Nat) (δ : α) (x0 xl xu : Nat → α) (lt : Nat → Bool) :
    (evalPoints n npt δ x0 xl xu lt).length = npt ∧ ∀ p ∈ evalPoints n npt δ x0 xl xu lt, p.length = n := by
  unfold evalPoints
  refine ⟨by simp, ?_⟩
  intro p hp
  simp only [List.mem_map] at hp
  obtain ⟨k, _, rfl⟩ := hp
  simp

end anyRounding

/-- the pinned tree's `as_absolute_coordinates` (`xbase + clip`, before the `fix:` commit) leaves
    the box in IEEE double arithmetic: x0 = -0.9369995049241533, xu = -0.003785818666755223,
    rhobeg = 1: the first coordinate step is evaluated at `x0 + (xu - x0)`, 46 ulp above `xu`.
    (kernel-evaluated `Float` witness; found by the correspondence check) -/
theorem coord_init_old_overshoots :
    let x0 : Nat → Float := fun _ => Float.ofBits 13829675694476644669   -- -0.9369995049241533
    let xl : Nat → Float := fun _ => Float.ofBits 14242959524133701434   -- -1e20
    let xu : Nat → Float := fun _ => Float.ofBits 13794247962887976494   -- -0.003785818666755223
    evalPointOld 1 (1.0 : Float) x0 xl xu (fun _ => false) 1 0 > xu 0 ∧
      evalPoint 1 (1.0 : Float) x0 xl xu (fun _ => false) 1 0 = xu 0 := by
  decide +kernel

section exact
variable {K : Type} [Field K] [LinearOrder K] [IsStrictOrderedRing K]

/-- **single-coordinate points** (exact).  For `rhobeg > 0`, gap `≥ 2·rhobeg`, ANY x0 and any swap
    outcome, the k-th evaluation point, `1 ≤ k ≤ 2n`, is `x0c + t·e_i` (x0c = projected x0) with
    `0.01·rhobeg ≤ |t| ≤ 2·rhobeg`, and it is inside the bounds. -/
theorem coord_init_points (n : Nat) (δ : K) (x0 xl xu : Nat → K) (lt : Nat → Bool)
    (hδ : 0 < δ) (hgap : ∀ j, j < n → 2 * δ ≤ xu j - xl j) (k : Nat) (h1 : 1 ≤ k) (h2 : k ≤ 2 * n) :
    ∃ i, i < n ∧ ∃ t : K,
      (∀ j, j < n → evalPoint n δ x0 xl xu lt k j = evalPoint n δ x0 xl xu lt 0 j + if j = i then t else 0) ∧
      δ / 100 ≤ |t| ∧ |t| ≤ 2 * δ ∧
      xl i ≤ evalPoint n δ x0 xl xu lt 0 i + t ∧ evalPoint n δ x0 xl xu lt 0 i + t ≤ xu i := by
  have hb : Box n δ xl xu := ⟨hδ, hgap⟩
  have e0 : ∀ j, evalPoint n δ x0 xl xu lt 0 j = xbase x0 xl xu j := fun j => by unfold evalPoint; rw [if_pos rfl]
  refine ⟨dirOf n k, dirOf_lt h1 h2, stepOf n δ x0 xl xu k, ?_, ?_, ?_, ?_⟩
  · intro j hj; rw [e0]; exact evalPoint_single hb lt h1 h2 hj
  · exact ((stepOf_ok hb h1 h2).abs hδ).1
  · exact ((stepOf_ok hb h1 h2).abs hδ).2
  · rw [e0]; exact stepOf_mem hb h1 h2

/-- **two-coordinate points** (exact), `2n < k < npt ≤ (n+1)(n+2)/2`: the point is
    `x0c + t_p·e_p + t_q·e_q`, `p ≠ q`, with `0.01·rhobeg ≤ |t_p|, |t_q| ≤ rhobeg` (a row that was
    swapped holds the step `-rhobeg`, never a `2·rhobeg` step), inside the bounds. -/
theorem coord_init_pair_points (n : Nat) (δ : K) (x0 xl xu : Nat → K) (lt : Nat → Bool)
    (hδ : 0 < δ) (hgap : ∀ j, j < n → 2 * δ ≤ xu j - xl j) (k : Nat) (h1 : 2 * n + 1 ≤ k) (h2 : k ≤ n * n + n) :
    ∃ p q, p < n ∧ q < n ∧ p ≠ q ∧ ∃ tp tq : K,
      (∀ j, j < n → evalPoint n δ x0 xl xu lt k j =
        evalPoint n δ x0 xl xu lt 0 j + if j = p then tp else if j = q then tq else 0) ∧
      (δ / 100 ≤ |tp| ∧ |tp| ≤ δ) ∧ (δ / 100 ≤ |tq| ∧ |tq| ≤ δ) ∧
      (xl p ≤ evalPoint n δ x0 xl xu lt 0 p + tp ∧ evalPoint n δ x0 xl xu lt 0 p + tp ≤ xu p) ∧
      (xl q ≤ evalPoint n δ x0 xl xu lt 0 q + tq ∧ evalPoint n δ x0 xl xu lt 0 q + tq ≤ xu q) := by
  have hb : Box n δ xl xu := ⟨hδ, hgap⟩
  have e0 : ∀ j, evalPoint n δ x0 xl xu lt 0 j = xbase x0 xl xu j := fun j => by unfold evalPoint; rw [if_pos rfl]
  obtain ⟨hp1, hp2, hq1, hq2, hne⟩ := pairIdx_spec h1 h2
  have hp : (pairIdx n k).1 - 1 < n := by omega
  have hq : (pairIdx n k).2 - 1 < n := by omega
  have hpq : (pairIdx n k).1 - 1 ≠ (pairIdx n k).2 - 1 := by omega
  refine ⟨(pairIdx n k).1 - 1, (pairIdx n k).2 - 1, hp, hq, hpq,
    pairStep δ x0 xl xu lt ((pairIdx n k).1 - 1), pairStep δ x0 xl xu lt ((pairIdx n k).2 - 1), ?_, ?_, ?_, ?_, ?_⟩
  · intro j hj
    rw [e0, evalPoint_pair hb lt h1 hj]
    congr 1
    by_cases h : j = (pairIdx n k).1 - 1
    · simp [h]
    · by_cases h' : j = (pairIdx n k).2 - 1
      · simp [h', Ne.symm hpq]
      · simp [h, h']
  · have := (pairStep_ok (x0 := x0) hb lt hp).abs hδ; rwa [one_mul] at this
  · have := (pairStep_ok (x0 := x0) hb lt hq).abs hδ; rwa [one_mul] at this
  · rw [e0]; exact pairStep_mem hb lt hp
  · rw [e0]; exact pairStep_mem hb lt hq

/-- `(n+1)(n+2)/2 ≤ n² + n + 1`: the range of `k` covered by `coord_init_pair_points` contains every
    `k < npt ≤ (n+1)(n+2)/2` the solver allows (controller.py:150). -/
theorem npt_range (n k npt : Nat) (hk : k < npt) (hnpt : npt ≤ (n + 1) * (n + 2) / 2) : k ≤ n * n + n := by
  have h : (n + 1) * (n + 2) / 2 ≤ n * n + n + 1 := by
    apply Nat.div_le_of_le_mul
    nlinarith
  omega

/-- **distance from x0** (exact): every point after the first lies between `0.01·rhobeg` and
    `2·rhobeg` from the projected x0 (squared Euclidean distance, all `1 ≤ k ≤ n² + n`). -/
theorem coord_init_distance (n : Nat) (δ : K) (x0 xl xu : Nat → K) (lt : Nat → Bool)
    (hδ : 0 < δ) (hgap : ∀ j, j < n → 2 * δ ≤ xu j - xl j) (k : Nat) (h1 : 1 ≤ k) (h2 : k ≤ n * n + n) :
    (δ / 100) ^ 2 ≤ ∑ j ∈ Finset.range n, (evalPoint n δ x0 xl xu lt k j - evalPoint n δ x0 xl xu lt 0 j) ^ 2 ∧
      (∑ j ∈ Finset.range n, (evalPoint n δ x0 xl xu lt k j - evalPoint n δ x0 xl xu lt 0 j) ^ 2) ≤ (2 * δ) ^ 2 := by
  by_cases hk : k ≤ 2 * n
  · obtain ⟨i, hi, t, hpt, hlo, hhi, _⟩ := coord_init_points n δ x0 xl xu lt hδ hgap k h1 hk
    have hs : (∑ j ∈ Finset.range n, (evalPoint n δ x0 xl xu lt k j - evalPoint n δ x0 xl xu lt 0 j) ^ 2) = t ^ 2 := by
      rw [Finset.sum_eq_single i]
      · rw [hpt i hi]; simp
      · intro j hj hji; rw [hpt j (Finset.mem_range.mp hj)]; simp [hji]
      · intro h; exact absurd (Finset.mem_range.mpr hi) h
    rw [hs, ← sq_abs t]
    exact ⟨pow_le_pow_left₀ (by positivity) hlo 2, pow_le_pow_left₀ (abs_nonneg t) hhi 2⟩
  · obtain ⟨p, q, hp, hq, hpq, tp, tq, hpt, ⟨hp1, hp2⟩, ⟨hq1, hq2⟩, _⟩ :=
      coord_init_pair_points n δ x0 xl xu lt hδ hgap k (by omega) h2
    have hs : (∑ j ∈ Finset.range n, (evalPoint n δ x0 xl xu lt k j - evalPoint n δ x0 xl xu lt 0 j) ^ 2)
        = tp ^ 2 + tq ^ 2 := by
      have : ∀ j ∈ Finset.range n, (evalPoint n δ x0 xl xu lt k j - evalPoint n δ x0 xl xu lt 0 j) ^ 2
          = (if j = p then tp ^ 2 else 0) + (if j = q then tq ^ 2 else 0) := by
        intro j hj
        rw [hpt j (Finset.mem_range.mp hj)]
        by_cases h : j = p
        · subst h; simp [hpq]
        · by_cases h' : j = q
          · subst h'; simp [h]
          · simp [h, h']
      rw [Finset.sum_congr rfl this, Finset.sum_add_distrib, Finset.sum_ite_eq', Finset.sum_ite_eq',
        if_pos (Finset.mem_range.mpr hp), if_pos (Finset.mem_range.mpr hq)]
    have a1 : (δ / 100) ^ 2 ≤ tp ^ 2 := by rw [← sq_abs tp]; exact pow_le_pow_left₀ (by positivity) hp1 2
    have a2 : tp ^ 2 ≤ δ ^ 2 := by rw [← sq_abs tp]; exact pow_le_pow_left₀ (abs_nonneg _) hp2 2
    have a3 : tq ^ 2 ≤ δ ^ 2 := by rw [← sq_abs tq]; exact pow_le_pow_left₀ (abs_nonneg _) hq2 2
    rw [hs]
    constructor
    · nlinarith [sq_nonneg tq]
    · nlinarith [sq_nonneg δ]

/-- **the two steps along one coordinate are distinct and non-zero** (exact): points `i+1` and
    `n+i+1` differ from x0c and from each other in coordinate `i`. -/
theorem first_two_steps_distinct (n : Nat) (δ : K) (x0 xl xu : Nat → K) (lt : Nat → Bool)
    (hδ : 0 < δ) (hgap : ∀ j, j < n → 2 * δ ≤ xu j - xl j) (i : Nat) (hi : i < n) :
    evalPoint n δ x0 xl xu lt (i + 1) i ≠ evalPoint n δ x0 xl xu lt 0 i ∧
      evalPoint n δ x0 xl xu lt (n + i + 1) i ≠ evalPoint n δ x0 xl xu lt 0 i ∧
      evalPoint n δ x0 xl xu lt (i + 1) i ≠ evalPoint n δ x0 xl xu lt (n + i + 1) i := by
  have hb : Box n δ xl xu := ⟨hδ, hgap⟩
  have hc := hb.coord x0 hi
  have e0 : evalPoint n δ x0 xl xu lt 0 i = xbase x0 xl xu i := by unfold evalPoint; rw [if_pos rfl]
  have d1 : dirOf n (i + 1) = i := by unfold dirOf; rw [if_pos (by omega)]; omega
  have d2 : dirOf n (n + i + 1) = i := by unfold dirOf; rw [if_neg (by omega)]; omega
  have e1 := evalPoint_single (x0 := x0) hb lt (k := i + 1) (by omega) (by omega) hi
  have e2 := evalPoint_single (x0 := x0) hb lt (k := n + i + 1) (by omega) (by omega) hi
  rw [d1, if_pos rfl] at e1
  rw [d2, if_pos rfl] at e2
  have s1 : stepOf n δ x0 xl xu (i + 1) = clip (slOf x0 xl xu i) (suOf x0 xl xu i) (step1 δ (suOf x0 xl xu i)) := by
    unfold stepOf; rw [d1]; dsimp only; rw [if_pos (by omega)]
  have s2 : stepOf n δ x0 xl xu (n + i + 1) =
      clip (slOf x0 xl xu i) (suOf x0 xl xu i) (step2 δ (slOf x0 xl xu i) (suOf x0 xl xu i)) := by
    unfold stepOf; rw [d2]; dsimp only; rw [if_neg (by omega)]
  have n1 := (step1_ok hc).ne_zero hδ
  have n2 := (step2_ok hc).ne_zero hδ
  have n3 := steps_distinct hc
  rw [e0, e1, e2, s1, s2]
  refine ⟨?_, ?_, ?_⟩
  · intro h; exact n1 (by linarith)
  · intro h; exact n2 (by linarith)
  · intro h; exact n3 (by linarith)

/-- **the first n+1 points are affinely independent** (exact): the matrix of directions
    `D i j = (x_{i+1} − x_0)_j`, `i, j < n`, is diagonal with non-zero diagonal, so no non-trivial
    combination of its rows vanishes. -/
theorem coord_init_affinely_independent (n : Nat) (δ : K) (x0 xl xu : Nat → K) (lt : Nat → Bool)
    (hδ : 0 < δ) (hgap : ∀ j, j < n → 2 * δ ≤ xu j - xl j) :
    (∀ i j, i < n → j < n → i ≠ j →
        evalPoint n δ x0 xl xu lt (i + 1) j - evalPoint n δ x0 xl xu lt 0 j = 0) ∧
    (∀ i, i < n → evalPoint n δ x0 xl xu lt (i + 1) i - evalPoint n δ x0 xl xu lt 0 i ≠ 0) ∧
    (∀ c : Nat → K,
      (∀ j, j < n → ∑ i ∈ Finset.range n,
          c i * (evalPoint n δ x0 xl xu lt (i + 1) j - evalPoint n δ x0 xl xu lt 0 j) = 0) →
      ∀ i, i < n → c i = 0) := by
  have hb : Box n δ xl xu := ⟨hδ, hgap⟩
  have e0 : ∀ j, evalPoint n δ x0 xl xu lt 0 j = xbase x0 xl xu j := fun j => by unfold evalPoint; rw [if_pos rfl]
  have d1 : ∀ i, i < n → dirOf n (i + 1) = i := fun i hi => by unfold dirOf; rw [if_pos (by omega)]; omega
  have hD : ∀ i j, i < n → j < n → evalPoint n δ x0 xl xu lt (i + 1) j - evalPoint n δ x0 xl xu lt 0 j
      = if j = i then stepOf n δ x0 xl xu (i + 1) else 0 := by
    intro i j hi hj
    rw [e0, evalPoint_single hb lt (by omega) (by omega) hj, d1 i hi]; ring
  have hne : ∀ i, i < n → stepOf n δ x0 xl xu (i + 1) ≠ 0 := fun i hi =>
    (stepOf_ok (x0 := x0) hb (k := i + 1) (by omega) (by omega)).ne_zero hδ
  refine ⟨?_, ?_, ?_⟩
  · intro i j hi hj hij; rw [hD i j hi hj, if_neg (Ne.symm hij)]
  · intro i hi; rw [hD i i hi hi, if_pos rfl]; exact hne i hi
  · intro c hc j hj
    have := hc j hj
    rw [Finset.sum_eq_single j] at this
    · rw [hD j j hj hj, if_pos rfl] at this
      exact (mul_eq_zero.mp this).resolve_right (hne j hj)
    · intro i hi hij; rw [hD i j (Finset.mem_range.mp hi) hj, if_neg (Ne.symm hij), mul_zero]
    · intro h; exact absurd (Finset.mem_range.mpr hj) h

/-- **full column rank for every `npt ≥ n+1`** (exact): the design matrix with rows `x_k − x_0`,
    `1 ≤ k < npt`, has trivial kernel (so `[1 | X]`, the interpolation matrix, has rank `n+1`). -/
theorem coord_init_full_column_rank (n npt : Nat) (δ : K) (x0 xl xu : Nat → K) (lt : Nat → Bool)
    (hδ : 0 < δ) (hgap : ∀ j, j < n → 2 * δ ≤ xu j - xl j) (hnpt : n + 1 ≤ npt) (v : Nat → K)
    (hv : ∀ k, 1 ≤ k → k < npt → ∑ j ∈ Finset.range n,
        (evalPoint n δ x0 xl xu lt k j - evalPoint n δ x0 xl xu lt 0 j) * v j = 0) :
    ∀ j, j < n → v j = 0 := by
  obtain ⟨hoff, hdiag, _⟩ := coord_init_affinely_independent n δ x0 xl xu lt hδ hgap
  intro j hj
  have := hv (j + 1) (by omega) (by omega)
  rw [Finset.sum_eq_single j] at this
  · exact (mul_eq_zero.mp this).resolve_left (hdiag j hj)
  · intro i hi hij; rw [hoff j i hj (Finset.mem_range.mp hi) (Ne.symm hij), zero_mul]
  · intro h; exact absurd (Finset.mem_range.mpr hj) h

/-- **the first n+1 points are affinely independent**, in Mathlib's own sense (`AffineIndependent`),
    as points of `Fin n → K` (exact). -/
theorem coord_init_affineIndependent (n : Nat) (δ : K) (x0 xl xu : Nat → K) (lt : Nat → Bool)
    (hδ : 0 < δ) (hgap : ∀ j, j < n → 2 * δ ≤ xu j - xl j) :
    AffineIndependent K (fun k : Fin (n + 1) => (fun j : Fin n => evalPoint n δ x0 xl xu lt k.val j.val)) := by
  obtain ⟨hoff, hdiag, _⟩ := coord_init_affinely_independent n δ x0 xl xu lt hδ hgap
  rw [affineIndependent_iff_linearIndependent_vsub K _ (0 : Fin (n + 1))]
  rw [Fintype.linearIndependent_iff]
  intro g hg i
  obtain ⟨⟨k, hk⟩, hk0⟩ := i
  have hk1 : 1 ≤ k := by
    rcases Nat.eq_zero_or_pos k with h | h
    · subst h; exact absurd rfl hk0
    · exact h
  have hj : k - 1 < n := by omega
  have := congrFun hg ⟨k - 1, hj⟩
  simp only [Finset.sum_apply, Pi.smul_apply, vsub_eq_sub, Pi.sub_apply, smul_eq_mul, Pi.zero_apply] at this
  rw [Finset.sum_eq_single ⟨⟨k, hk⟩, hk0⟩] at this
  · have hd := hdiag (k - 1) hj
    rw [show k - 1 + 1 = k by omega] at hd
    exact (mul_eq_zero.mp this).resolve_right hd
  · rintro ⟨⟨k', hk'⟩, hk0'⟩ _ hne
    have hk1' : 1 ≤ k' := by
      rcases Nat.eq_zero_or_pos k' with h | h
      · subst h; exact absurd rfl hk0'
      · exact h
    have hne' : k' - 1 ≠ k - 1 := by
      intro h
      apply hne
      have : k' = k := by omega
      subst this; rfl
    have ho := hoff (k' - 1) (k - 1) (by omega) hj hne'
    rw [show k' - 1 + 1 = k' by omega] at ho
    show g _ * _ = 0
    simp only [Fin.val_zero] at ho ⊢
    rw [ho, mul_zero]
  · intro h; exact absurd (Finset.mem_univ _) h
end exact

/-- the gap hypothesis cannot be dropped: `xl = 0, xu = x0 = 1/200, rhobeg = 1` (gap < 2·rhobeg,
    rejected by `solve`) puts the first coordinate step ON x0's … `xl`, at distance 0.005 < 0.01·rhobeg. -/
theorem coord_init_needs_gap :
    evalPoint 1 (1 : ℚ) (fun _ => 1 / 200) (fun _ => 0) (fun _ => 1 / 200) (fun _ => false) 1 0 = 0 ∧
      evalPoint 1 (1 : ℚ) (fun _ => 1 / 200) (fun _ => 0) (fun _ => 1 / 200) (fun _ => false) 0 0 = 1 / 200 := by
  decide +kernel

/-! non-vacuity: a corner start, `n = 2`, `npt = 6`, both comparisons true — hypotheses hold and the
    six points are (0,0), (1,0), (0,1), (2,0), (0,2), (1,1). -/
example : (∀ j, j < 2 → 2 * (1 : ℚ) ≤ (fun _ => (5 : ℚ)) j - (fun _ => (0 : ℚ)) j) ∧
    evalPoints 2 6 (1 : ℚ) (fun _ => -3) (fun _ => 0) (fun _ => 5) (fun _ => true)
      = [[0, 0], [1, 0], [0, 1], [2, 0], [0, 2], [1, 1]] := by
  constructor
  · intro j _; norm_num
  · decide +kernel

/-- interior start with both swaps taken: the pair point combines the two `-rhobeg` steps. -/
example : evalPoints 2 6 (1 : ℚ) (fun _ => 2) (fun _ => 0) (fun _ => 5) (fun _ => true)
    = [[2, 2], [3, 2], [2, 3], [1, 2], [2, 1], [1, 1]] := by decide +kernel

/-! ## Random direction generators -/

section gensAnyRounding
variable {α : Type} [LinearOrder α] [Add α] [Sub α] [Mul α] [Div α] [Neg α] [OfScientific α]

omit [Add α] [Sub α] in
/-- **the requested number of directions**, each of dimension `n` -/
theorem rand_dirs_count (num n : Nat) (δ : α) (lower upper : Nat → α) (raws : Nat → Nat → α) (nrms : Nat → α) :
    (randDirs num n δ lower upper raws nrms).length = num ∧
      ∀ d ∈ randDirs num n δ lower upper raws nrms, d.length = n := by
  unfold randDirs
  refine ⟨by simp, ?_⟩
  intro d hd
  simp only [List.mem_map] at hd
  obtain ⟨k, _, rfl⟩ := hd
  simp

omit [Add α] [Sub α] in
/-- **every direction of `random_directions_within_bounds` is inside the given bounds** — for every
    linear order and arbitrary `+ − × ÷` (any rounding), any draws and any computed norm. -/
theorem rand_dirs_in_bounds (n : Nat) (δ : α) (lower upper raw : Nat → α) (nrm : α) (j : Nat)
    (h : lower j ≤ upper j) :
    lower j ≤ randDir n δ lower upper raw nrm j ∧ randDir n δ lower upper raw nrm j ≤ upper j :=
  clipDir_mem h _

omit [Add α] in
theorem orthog_dirs_count (num n : Nat) (neg : Bool) (δ : α) (lower upper : Nat → α) (qred raws : Nat → Nat → α)
    (nrms : Nat → α) :
    (orthogDirs num n neg δ lower upper qred raws nrms).length = num ∧
      ∀ d ∈ orthogDirs num n neg δ lower upper qred raws nrms, d.length = n := by
  unfold orthogDirs
  refine ⟨by simp, ?_⟩
  intro d hd
  simp only [List.mem_map] at hd
  obtain ⟨k, _, rfl⟩ := hd
  simp

omit [Add α] in
/-- **every direction of `random_orthog_directions_within_bounds` is inside the given bounds**
    (all five blocks; any rounding, any `Q`, any draws). -/
theorem orthog_dirs_in_bounds (n : Nat) (neg : Bool) (δ : α) (lower upper : Nat → α) (qred raws : Nat → Nat → α)
    (nrms : Nat → α) (c j : Nat) (h : lower j ≤ upper j) :
    lower j ≤ orthogDir n neg δ lower upper qred raws nrms c j ∧
      orthogDir n neg δ lower upper qred raws nrms c j ≤ upper j :=
  clipDir_mem h _

end gensAnyRounding

section gensExact
variable {K : Type} [Field K] [LinearOrder K] [IsStrictOrderedRing K]

/-- **length, componentwise** (exact): with `lower ≤ 0 ≤ upper` every component of a direction of
    `random_directions_within_bounds` satisfies `|d_j| ≤ delta·|u_j|`, `u = dirn/‖dirn‖` the
    normalised (sign-corrected) draw — whatever value was used for the norm. -/
theorem rand_dirs_length (n : Nat) (δ : K) (lower upper raw : Nat → K) (nrm : K) (hδ : 0 < δ)
    (hl : ∀ j, j < n → lower j ≤ 0) (hu : ∀ j, j < n → 0 ≤ upper j) (j : Nat) (hj : j < n) :
    |randDir n δ lower upper raw nrm j| ≤ δ * |unitOf lower upper raw nrm j| := by
  unfold randDir scaledDir
  rw [mul_comm]
  exact abs_scaled_le hl hu hδ.le hj

/-- **length** (exact): if the normalised draw has unit length, the direction is no longer than `delta`. -/
theorem rand_dirs_norm (n : Nat) (δ : K) (lower upper raw : Nat → K) (nrm : K) (hδ : 0 < δ)
    (hl : ∀ j, j < n → lower j ≤ 0) (hu : ∀ j, j < n → 0 ≤ upper j)
    (hunit : ∑ j ∈ Finset.range n, unitOf lower upper raw nrm j ^ 2 = 1) :
    ∑ j ∈ Finset.range n, randDir n δ lower upper raw nrm j ^ 2 ≤ δ ^ 2 := by
  have := sum_sq_le (n := n) (s0 := δ) (fun j hj => rand_dirs_length n δ lower upper raw nrm hδ hl hu j hj)
  rwa [hunit, mul_one] at this

/-- the vector that block `blockOf … c` scales (blocks 1, 3: a column of `±Q`; 2: `±e_idx`;
    5: the normalised draw; 4: `e_idx`) -/
def orthogUnit (n : Nat) (neg : Bool) (lower upper : Nat → K) (qred raws : Nat → Nat → K) (nrms : Nat → K)
    (c j : Nat) : K :=
  let act := activeIdx n lower upper
  let nin := n - act.length
  if c < nin then qFull lower upper qred j c
  else if c < n then single (act.getD (c - nin) 0) (signOf lower (act.getD (c - nin) 0)) j
  else if neg && c < n + nin then -(qFull lower upper qred j (c - n))
  else if neg && c < 2 * n then single (act.getD (c - n - nin) 0) 1 j
  else unitOf lower upper (raws (c - if neg then 2 * n else n)) (nrms (c - if neg then 2 * n else n)) j

theorem signOf_abs (lower : Nat → K) (j : Nat) : |signOf lower j| = 1 := by
  unfold signOf
  simp only [lit1]
  split_ifs <;> simp

theorem block4Entry_abs {δ lo up : K} (hδ : 0 < δ) (h : lo ≤ up) (s : K) (hs : |s| = 1) :
    |block4Entry δ lo up s| ≤ 2 * δ := by
  unfold block4Entry
  simp only [lit2, lit05]
  split_ifs with hg
  · rw [abs_mul, abs_mul, hs, abs_of_pos hδ, abs_of_pos (by norm_num : (0 : K) < 2)]; linarith
  · rw [abs_mul, abs_mul, hs, abs_of_nonneg (by linarith : 0 ≤ up - lo), abs_of_pos (by norm_num : (0 : K) < 1 / 2)]
    have := not_lt.mp hg
    linarith

/-- **length of the orthogonal directions, PARTIAL** (exact, `lower ≤ 0 ≤ upper`):
    blocks 1, 2, 3, 5: `|d_j| ≤ delta·|w_j|` for the scaled vector `w` (unit length when `Q` has
    orthonormal columns / the draw is normalised);  block 4: only `|d_j| ≤ 2·delta`, and zero off `idx`
    (`|d_j| ≤ 2·delta·|e_idx j|`). -/
theorem orthog_dirs_length_partial (n : Nat) (neg : Bool) (δ : K) (lower upper : Nat → K) (qred raws : Nat → Nat → K)
    (nrms : Nat → K) (hδ : 0 < δ) (hl : ∀ j, lower j ≤ 0) (hu : ∀ j, 0 ≤ upper j) (c j : Nat) (hj : j < n) :
    |orthogDir n neg δ lower upper qred raws nrms c j| ≤
      (if blockOf n (n - (activeIdx n lower upper).length) neg c = 4 then 2 * δ else δ) *
        |orthogUnit n neg lower upper qred raws nrms c j| := by
  have hl' : ∀ j, j < n → lower j ≤ 0 := fun j _ => hl j
  have hu' : ∀ j, j < n → 0 ≤ upper j := fun j _ => hu j
  unfold orthogDir orthogRaw orthogUnit blockOf
  dsimp only
  by_cases h1 : c < n - (activeIdx n lower upper).length
  · simp only [h1, if_true]
    norm_num
    exact abs_scaled_le hl' hu' hδ.le hj
  · simp only [h1, if_false]
    by_cases h2 : c < n
    · simp only [h2, if_true]
      norm_num
      exact abs_scaled_le hl' hu' hδ.le hj
    · simp only [h2, if_false]
      by_cases h3 : (neg && decide (c < n + (n - (activeIdx n lower upper).length))) = true
      · simp only [h3, if_true]
        norm_num
        rw [← mul_neg]
        have := abs_scaled_le (w := fun t => -qFull lower upper qred t (c - n)) (s0 := δ) hl' hu' hδ.le hj
        rwa [abs_neg] at this
      · simp only [h3, Bool.false_eq_true, if_false]
        by_cases h4 : (neg && decide (c < 2 * n)) = true
        · simp only [h4, if_true]
          -- block 4
          generalize hidx : (activeIdx n lower upper).getD (c - n - (n - (activeIdx n lower upper).length)) 0 = idx
          have hb := abs_scaled_le (w := single idx (block4Entry δ (lower idx) (upper idx) (signOf lower idx)))
            (s0 := 1) hl' hu' (by norm_num) hj
          rw [lit1]
          refine le_trans hb ?_
          rw [one_mul]
          unfold single
          simp only [lit0]
          split_ifs with hji
          · rw [abs_one, mul_one]
            exact block4Entry_abs hδ (le_trans (hl idx) (hu idx)) _ (signOf_abs lower idx)
          · simp
        · simp only [h4, Bool.false_eq_true, if_false]
          norm_num
          unfold scaledDir
          rw [mul_comm]
          exact abs_scaled_le hl' hu' hδ.le hj

/-- **Euclidean length, PARTIAL** (exact): a direction outside block 4 whose scaled vector has unit
    length is no longer than `delta`; a block-4 direction is no longer than `2·delta`. -/
theorem orthog_dirs_norm_partial (n : Nat) (neg : Bool) (δ : K) (lower upper : Nat → K) (qred raws : Nat → Nat → K)
    (nrms : Nat → K) (hδ : 0 < δ) (hl : ∀ j, lower j ≤ 0) (hu : ∀ j, 0 ≤ upper j) (c : Nat)
    (hunit : ∑ j ∈ Finset.range n, orthogUnit n neg lower upper qred raws nrms c j ^ 2 = 1) :
    ∑ j ∈ Finset.range n, orthogDir n neg δ lower upper qred raws nrms c j ^ 2 ≤
      (if blockOf n (n - (activeIdx n lower upper).length) neg c = 4 then 2 * δ else δ) ^ 2 := by
  have := sum_sq_le (n := n) (fun j hj => orthog_dirs_length_partial n neg δ lower upper qred raws nrms hδ hl hu c j hj)
  rwa [hunit, mul_one] at this

/-- `get_scale` of a multiple of a coordinate vector looks at that coordinate only -/
theorem getScale_single (n idx : Nat) (v s0 : K) (lower upper : Nat → K) (hidx : idx < n) :
    getScale n (single idx v) s0 lower upper = scaleStep (single idx v) lower upper s0 idx := by
  unfold getScale
  have key : ∀ m, (List.range m).foldl (scaleStep (single idx v) lower upper) s0 =
      if idx < m then scaleStep (single idx v) lower upper s0 idx else s0 := by
    intro m
    induction m with
    | zero => simp
    | succ m ih =>
      rw [List.range_succ, List.foldl_append, ih]
      simp only [List.foldl_cons, List.foldl_nil]
      by_cases h1 : idx < m
      · have hne : m ≠ idx := by omega
        rw [if_pos h1, if_pos (by omega)]
        unfold scaleStep single
        simp [hne, lit0]
      · by_cases h2 : idx = m
        · subst h2; simp
        · rw [if_neg h1, if_neg (by omega)]
          have hne : m ≠ idx := fun h => h2 h.symm
          unfold scaleStep single
          simp [hne, lit0]
  rw [key n, if_pos hidx]

/-- **the finding, in general** (exact): for a variable on its lower bound (`lower idx = 0`) whose
    upper bound is farther than `delta`, the block-4 direction is `min(2·delta, upper idx)·e_idx`
    — longer than `delta` by construction. (Symmetric for a variable on its upper bound.) -/
theorem orthog_block4_value (n : Nat) (δ : K) (lower upper : Nat → K) (qred raws : Nat → Nat → K)
    (nrms : Nat → K) (hδ : 0 < δ) (c : Nat)
    (hc1 : n + (n - (activeIdx n lower upper).length) ≤ c) (hc2 : c < 2 * n)
    (idx : Nat) (hidx : (activeIdx n lower upper).getD (c - n - (n - (activeIdx n lower upper).length)) 0 = idx)
    (hn : idx < n) (hlow : lower idx = 0) (hup : δ < upper idx) :
    orthogDir n true δ lower upper qred raws nrms c idx = min (2 * δ) (upper idx) ∧
      δ < orthogDir n true δ lower upper qred raws nrms c idx := by
  have hval : orthogDir n true δ lower upper qred raws nrms c idx = min (2 * δ) (upper idx) := by
    unfold orthogDir orthogRaw
    dsimp only
    have h1 : ¬ c < n - (activeIdx n lower upper).length := by omega
    have h2 : ¬ c < n := by omega
    have h3 : ¬ c < n + (n - (activeIdx n lower upper).length) := by omega
    simp only [h1, h2, h3, hc2, if_false, if_true, Bool.true_and, decide_false, decide_true, Bool.false_eq_true]
    rw [hidx, getScale_single n idx _ _ lower upper hn]
    have hs : signOf lower idx = 1 := by unfold signOf; simp [hlow, lit0, lit1]
    have he : block4Entry δ (lower idx) (upper idx) (signOf lower idx) = 2 * δ := by
      unfold block4Entry
      rw [hs, hlow, sub_zero, if_pos hup, lit2, mul_one]
    rw [he]
    unfold scaleStep single
    simp only [if_true, lit0, lit1, pymin_eq_min]
    have hpos : (0 : K) < 2 * δ := by linarith
    rw [if_neg (not_lt.mpr hpos.le), if_pos hpos]
    have hmul : min 1 (upper idx / (2 * δ)) * (2 * δ) = min (2 * δ) (upper idx) := by
      rcases le_total 1 (upper idx / (2 * δ)) with h | h
      · rw [min_eq_left h, one_mul, min_eq_left]
        rwa [le_div_iff₀ hpos, one_mul] at h
      · rw [min_eq_right h, div_mul_cancel₀ _ hpos.ne', min_eq_right]
        rwa [div_le_iff₀ hpos, one_mul] at h
    rw [hmul]
    apply clipDir_of_mem
    · rw [hlow]; exact le_min hpos.le (by linarith)
    · exact min_le_right _ _
  refine ⟨hval, ?_⟩
  rw [hval]
  exact lt_min (by linarith) hup

end gensExact

/-- **the finding, concretely**: `random_orthog_directions_within_bounds(2, 1.0, [0.0], [3.0])`
    returns `[[1.0], [2.0]]` — the second direction has length `2·delta`. -/
theorem orthog_block4_two_delta :
    orthogDirs 2 1 true (1 : ℚ) (fun _ => 0) (fun _ => 3) (fun _ _ => 0) (fun _ _ => 0) (fun _ => 1) = [[1], [2]] ∧
      blockOf 1 0 true 1 = 4 := by
  decide +kernel

/-- the hypotheses of `orthog_block4_value` are satisfiable (same call as above) -/
example : orthogDir 1 true (1 : ℚ) (fun _ => 0) (fun _ => 3) (fun _ _ => 0) (fun _ _ => 0) (fun _ => 1) 1 0 = min (2 * 1) 3 ∧
    (1 : ℚ) < orthogDir 1 true (1 : ℚ) (fun _ => 0) (fun _ => 3) (fun _ _ => 0) (fun _ _ => 0) (fun _ => 1) 1 0 :=
  orthog_block4_value 1 1 (fun _ => 0) (fun _ => 3) (fun _ _ => 0) (fun _ _ => 0) (fun _ => 1) (by norm_num) 1
    (by decide +kernel) (by decide) 0 (by decide +kernel) (by decide) rfl (by norm_num)

/-! non-vacuity of the generator theorems: a box with one active lower bound (the draw -3 is flipped to 3),
    one inactive variable whose lower bound -1/2 limits the scale to 5/8 -/
example : randDirs 1 2 (1 : ℚ) (fun j => if j = 0 then 0 else -1 / 2) (fun _ => 4)
    (fun _ j => if j = 0 then -3 else -4) (fun _ => 5) = [[3 / 8, -1 / 2]] := by decide +kernel

end C14
end Dfols
