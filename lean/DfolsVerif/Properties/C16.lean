/-
  C16 — Interpolation models reproduce their data and survive base shifts.   **PARTIAL**

  Statement (properties.jsonl): after fitting, with n+1 affinely independent points each residual
  model reproduces the stored residual at every interpolation point; with more points the fit is
  the least-squares solution (residual orthogonal to the design columns); with fewer points
  (growing phase) the data are still interpolated.  Lagrange functions satisfy L_k(y_j) = δ_kj (or
  sum to one for regression), and shifting the internal base point changes neither model values at
  fixed absolute points nor the assembled gradient and Hessian — all up to rounding proportional
  to the conditioning of the point set.  (n ≤ 6, m ≤ 6, 2..2n+1 points, spreads over 4 decades, far
  base points, arbitrary interleavings of point replacement, base shifts and re-fits.)

  ── What is proved here ─────────────────────────────────────────────────────────────────────────
  (E) exact arithmetic over any field `K`, any dimensions (no bound on n, m, npt), about the
      specification `Kernels/Interp.lean` of model.py:309-450:
        `interp_reproduces`, `interp_reproduces_square`, `interp_reproduces_growing`,
        `regression_normal_eqs`, `lagrange_delta`, `lagrange_sum_one`, `shift_base_invariant`,
        `refit_after_shift`, `full_rank_completion_interpolates` (+ `full_rank_completion_old`:
        the pinned assignment of `model_const` before the SVD completion does not interpolate).
      The LAPACK calls enter as *hypotheses* stating their defining equations
      (`W = Q R`, `QᵀQ = 1`, `R x = QᵀF`  /  `Wᵀ = Q R`, `Rᵀ Rb = F`).
  (A) discrete, for **every** sequence of `Model` operations (no length bound), on the L1 state
      machine `Book/ModelState.lean` that the C17 correspondence ties to the real class:
        `fact_flag_sound`     (ghost version counter, via `MState.run_wf`),
        `fact_flag_geometry`  (the same without the ghost: points and kopt unchanged since the
                               factorisation was computed),
        `fact_flag_old_add_sample` (the pinned `add_new_sample` violated both).

  ── What is NOT proved (stated, see `C16_full` at the end) ───────────────────────────────────────
  * LAPACK exactness: that `scipy.linalg.qr` / `solve_triangular` return matrices satisfying the
    hypotheses above.
  * every "up to rounding proportional to the conditioning" clause: no IEEE-754 error analysis is
    available for Lean/Mathlib.  The correspondence and the search of `harness/props/c16.py` watch
    this part with the tolerance `64·(n+1)·eps·cond(W)·scale` and record the measured distribution
    of `error / (eps·cond(W)·scale)`.
-/
import DfolsVerif.Proofs.Interp
import DfolsVerif.Proofs.ModelSnapshot

set_option linter.unusedSectionVars false

namespace Dfols
namespace C16

open Matrix
open Interp (design rightScaling colScale modelJac modelConst modelVal lagrangeVal Interpolates IsLSQFit
  FullRank IModel)

section Exact

variable {K : Type*} [Field K] {ι ν μ : Type*} [Fintype ι] [Fintype ν] [Fintype μ]

/-- **data reproduced** (n+1 points, or fewer in the growing phase) — if the value `x` returned by
    the solve satisfies `W x = fval_v`, then after the assignments of
    `interpolate_mini_models_svd` every residual model reproduces the stored residual at every
    interpolation point.  Holds for every `δ` (`approx_delta`): the preconditioner drops out. -/
theorem interp_reproduces (s : IModel K ι ν μ) (δ : K) (x : Matrix (Option ν) μ K)
    (hsolve : design s.Y s.xopt δ * x = s.F) :
    ∀ t, modelVal (s.fit δ x).c (s.fit δ x).J (s.Y t) = s.F t :=
  Interp.interp_reproduces s.Y s.F s.xopt δ x hsolve

/-- **n+1 affinely independent points, the code path that runs** (model.py:329, 349-350): reduced
    QR of the square, nonsingular `W`, then `R x = Qᵀ fval_v`. -/
theorem interp_reproduces_square [DecidableEq ν] (e : ι ≃ Option ν) (s : IModel K ι ν μ) (δ : K)
    (hdet : ((design s.Y s.xopt δ).submatrix e.symm id).det ≠ 0)
    (Q : Matrix ι (Option ν) K) (R : Matrix (Option ν) (Option ν) K) (x : Matrix (Option ν) μ K)
    (hW : design s.Y s.xopt δ = Q * R) (hQ : Qᵀ * Q = 1) (hx : R * x = Qᵀ * s.F) :
    ∀ t, modelVal (s.fit δ x).c (s.fit δ x).J (s.Y t) = s.F t :=
  interp_reproduces s δ x
    (Interp.solves_of_normal_eqs_square e _ hdet x s.F (Interp.qr_normal_eqs hW hQ hx))

/-- **growing phase** (fewer than n+1 points; model.py:332, 345-346): QR of `Wᵀ`, `Rᵀ Rb = fval_v`,
    `x = Q Rb` (the minimal-norm solution) — the data are still interpolated. -/
theorem interp_reproduces_growing [DecidableEq ι] (s : IModel K ι ν μ) (δ : K)
    (Q : Matrix (Option ν) ι K) (R : Matrix ι ι K) (Rb : Matrix ι μ K)
    (hW : (design s.Y s.xopt δ)ᵀ = Q * R) (hQ : Qᵀ * Q = 1) (hRb : Rᵀ * Rb = s.F) :
    ∀ t, modelVal (s.fit δ (Q * Rb)).c (s.fit δ (Q * Rb)).J (s.Y t) = s.F t :=
  interp_reproduces s δ (Q * Rb) (Interp.qr_growing hW hQ hRb)

/-- **more than n+1 points** — the fit is the least-squares solution: for every residual component
    the misfit is orthogonal to the column of ones and to every coordinate column. -/
theorem regression_normal_eqs [DecidableEq ν] (s : IModel K ι ν μ) {δ : K} (hδ : δ ≠ 0)
    (Q : Matrix ι (Option ν) K) (R : Matrix (Option ν) (Option ν) K) (x : Matrix (Option ν) μ K)
    (hW : design s.Y s.xopt δ = Q * R) (hQ : Qᵀ * Q = 1) (hx : R * x = Qᵀ * s.F) :
    IsLSQFit s.Y s.F (s.fit δ x).c (s.fit δ x).J :=
  Interp.regression_normal_eqs s.Y s.F s.xopt hδ x (Interp.qr_normal_eqs hW hQ hx)

/-- **Lagrange functions, interpolation**: `L_k(y_t) = δ_tk`. -/
theorem lagrange_delta [DecidableEq ι] (s : IModel K ι ν μ) (δ : K) (x : Matrix (Option ν) ι K)
    (hsolve : design s.Y s.xopt δ * x = 1) (t k : ι) :
    lagrangeVal (colScale (rightScaling δ) x) s.xopt k (s.Y t) = if t = k then 1 else 0 :=
  Interp.lagrange_delta s.Y s.xopt δ x hsolve t k

/-- **base shifts** — `shift_base` moves no point in absolute coordinates, changes no model value at
    a fixed absolute point, leaves `build_full_model()`'s `(g, H)` unchanged, and an
    interpolating / least-squares model stays one.  Pure ring identities. -/
theorem shift_base_invariant (s : IModel K ι ν μ) (sh : ν → K) :
    (∀ t, (s.shiftBase sh).absPoint t = s.absPoint t) ∧
    (∀ x, (s.shiftBase sh).valueAtAbs x = s.valueAtAbs x) ∧
    (s.shiftBase sh).buildFullModel = s.buildFullModel ∧
    (Interpolates s.Y s.F s.c s.J →
      Interpolates (s.shiftBase sh).Y (s.shiftBase sh).F (s.shiftBase sh).c (s.shiftBase sh).J) ∧
    (IsLSQFit s.Y s.F s.c s.J →
      IsLSQFit (s.shiftBase sh).Y (s.shiftBase sh).F (s.shiftBase sh).c (s.shiftBase sh).J) :=
  IModel.shift_base_invariant s sh

/-- **shift then re-fit** (interleavings): on a point set in general position, re-fitting after a
    base shift gives exactly the model that `shift_base` had already produced. -/
theorem refit_after_shift (s : IModel K ι ν μ) (sh : ν → K) (hY : FullRank s.Y)
    (h : Interpolates s.Y s.F s.c s.J) (c2 : μ → K) (J2 : Matrix μ ν K)
    (h2 : Interpolates (s.shiftBase sh).Y s.F c2 J2) :
    c2 = (s.shiftBase sh).c ∧ J2 = (s.shiftBase sh).J := by
  have hY' : FullRank (s.shiftBase sh).Y := by
    have := hY.translate (-sh)
    simpa [IModel.shiftBase, sub_eq_add_neg] using this
  exact Interp.interp_unique hY' h2 (IModel.shiftBase_interpolates s sh h)

/-- **full-rank completion** (`make_full_rank=True`, the solver's default while growing when m ≥ n):
    replacing the Jacobian by a completion `Jn` that agrees with it on every interpolation direction
    keeps the data interpolated — *because* the constant term is recomputed from `Jn`
    (model.py:410, added by `fix:` e983ea1). -/
theorem full_rank_completion_interpolates (s : IModel K ι ν μ) (dg : Matrix (Option ν) μ K) (Jn : Matrix μ ν K)
    (hfit : Interpolates s.Y s.F (modelConst dg s.xopt) (modelJac dg))
    (hJn : ∀ t, Jn *ᵥ (s.Y t - s.xopt) = modelJac dg *ᵥ (s.Y t - s.xopt)) :
    Interpolates s.Y s.F (s.fitCompleted dg Jn).c (s.fitCompleted dg Jn).J :=
  Interp.fitCompleted_interpolates s dg Jn hfit hJn

end Exact

section Ordered

variable {K : Type*} [Field K] [LinearOrder K] [IsStrictOrderedRing K]
  {ι ν μ : Type*} [Fintype ι] [Fintype ν] [Fintype μ]

/-- **Lagrange functions, regression**: they sum to one at every point `y` (full column rank). -/
theorem lagrange_sum_one [DecidableEq ι] (s : IModel K ι ν μ) (hY : FullRank s.Y) {δ : K} (hδ : δ ≠ 0)
    (x : Matrix (Option ν) ι K)
    (hsolve : (design s.Y s.xopt δ)ᵀ * (design s.Y s.xopt δ * x - 1) = 0) (y : ν → K) :
    ∑ k, lagrangeVal (colScale (rightScaling δ) x) s.xopt k y = 1 :=
  Interp.lagrange_sum_one hY s.xopt hδ x hsolve y

end Ordered

/-! ### non-vacuity: concrete rational instances (kernel-evaluated) -/

section Examples

/-- 3 points in the plane, `kopt = 1`, two residuals. -/
def exS : IModel ℚ (Fin 3) (Fin 2) (Fin 2) where
  xbase := ![100, -7]
  Y := Matrix.of ![![1, 1], ![3, 1], ![1, 2]]
  F := Matrix.of ![![5, 0], ![1, 2], ![4, -3]]
  kopt := 1
  c := 0
  J := 0

/-- the solution of `W x = F` for `δ = 2` (rows of `W`: `(1,-1,0)`, `(1,0,0)`, `(1,-1,1/2)`). -/
def exX : Matrix (Option (Fin 2)) (Fin 2) ℚ := Matrix.of fun o i =>
  match o with
  | none => ![1, 2] i
  | some j => (![![-4, 2], ![-2, -6]] : Fin 2 → Fin 2 → ℚ) j i

example : design exS.Y exS.xopt 2 * exX = exS.F := by decide +kernel
example : (exS.fit 2 exX).J = Matrix.of ![![-2, -1], ![1, -3]] := by decide +kernel
example : (exS.fit 2 exX).c = ![8, 2] := by decide +kernel
example : ∀ t, modelVal (exS.fit 2 exX).c (exS.fit 2 exX).J (exS.Y t) = exS.F t :=
  interp_reproduces exS 2 exX (by decide +kernel)
def exE : Fin 3 ≃ Option (Fin 2) where
  toFun t := ![none, some 0, some 1] t
  invFun o := match o with
    | none => 0
    | some j => j.succ
  left_inv := by intro t; fin_cases t <;> rfl
  right_inv := by
    intro o
    rcases o with _ | j
    · rfl
    · fin_cases j <;> rfl

/-- the points of `exS` are affinely independent -/
theorem exS_fullRank : FullRank exS.Y :=
  Interp.fullRank_of_det_ne_zero exE exS.Y exS.xopt (δ := 2) (by norm_num) (by decide +kernel)
/-- a base shift changes `c` but not `(g, H)` -/
example : ((exS.fit 2 exX).shiftBase ![3, 1]).c = ![1, 2] ∧
    ((exS.fit 2 exX).shiftBase ![3, 1]).buildFullModel = (exS.fit 2 exX).buildFullModel ∧
    (exS.fit 2 exX).buildFullModel.1 = ![0, -14] := by decide +kernel

/-- Lagrange functions of `exS` (solution of `W x = I`, `δ = 2`). -/
def exL : Matrix (Option (Fin 2)) (Fin 3) ℚ := Matrix.of fun o k =>
  match o with
  | none => ![0, 1, 0] k
  | some j => (![![-1, 1, 0], ![-2, 0, 2]] : Fin 2 → Fin 3 → ℚ) j k

example : ∀ t k, lagrangeVal (colScale (rightScaling 2) exL) exS.xopt k (exS.Y t) = if t = k then 1 else 0 :=
  lagrange_delta exS 2 exL (by decide +kernel)

/-- growing phase: 2 points in the plane (`n = 2`), `kopt = 0`, `δ = 5`; `Wᵀ = Q R` with rational
    orthonormal `Q` (3-4-5), `Rᵀ Rb = F`, `x = Q Rb = (7, -3, -4)`. -/
def exG : IModel ℚ (Fin 2) (Fin 2) (Fin 1) where
  xbase := ![0, 0]
  Y := Matrix.of ![![1, 1], ![4, 5]]
  F := Matrix.of ![![7], ![2]]
  kopt := 0
  c := 0
  J := 0

def exGQ : Matrix (Option (Fin 2)) (Fin 2) ℚ := Matrix.of fun o k =>
  match o with
  | none => ![1, 0] k
  | some j => (![![0, 3 / 5], ![0, 4 / 5]] : Fin 2 → Fin 2 → ℚ) j k

def exGR : Matrix (Fin 2) (Fin 2) ℚ := Matrix.of ![![1, 1], ![0, 1]]
def exGRb : Matrix (Fin 2) (Fin 1) ℚ := Matrix.of ![![7], ![-5]]

example : ∀ t, modelVal (exG.fit 5 (exGQ * exGRb)).c (exG.fit 5 (exGQ * exGRb)).J (exG.Y t) = exG.F t :=
  interp_reproduces_growing exG 5 exGQ exGR exGRb (by decide +kernel) (by decide +kernel) (by decide +kernel)
example : (exG.fit 5 (exGQ * exGRb)).J = Matrix.of ![![-3 / 5, -4 / 5]] := by decide +kernel

/-- growing phase, full-rank completion with the base point **not** among the points
    (`xbase = 0`, points `(1,1)` and `(4,5)`, `xopt = (1,1)`): the fitted Jacobian `(-3/5, -4/5)`
    is completed by a component orthogonal to the only direction `(3,4)`. -/
def exGJn : Matrix (Fin 1) (Fin 2) ℚ := Matrix.of ![![-3 / 5 + 4, -4 / 5 - 3]]

/-- the completion leaves the action on the interpolation direction unchanged … -/
theorem exGJn_agrees : ∀ t, exGJn *ᵥ (exG.Y t - exG.xopt) =
    modelJac (colScale (rightScaling 5) (exGQ * exGRb)) *ᵥ (exG.Y t - exG.xopt) := by decide +kernel

/-- … so the repaired assignment interpolates (hypotheses of `full_rank_completion_interpolates`
    are satisfiable) … -/
example : Interpolates exG.Y exG.F (exG.fitCompleted (colScale (rightScaling 5) (exGQ * exGRb)) exGJn).c
    (exG.fitCompleted (colScale (rightScaling 5) (exGQ * exGRb)) exGJn).J :=
  full_rank_completion_interpolates exG _ exGJn
    (Interp.interp_reproduces exG.Y exG.F exG.xopt 5 (exGQ * exGRb)
      (Interp.qr_growing (R := exGR) (by decide +kernel) (by decide +kernel) (by decide +kernel)))
    exGJn_agrees

/-- … whereas the pinned assignment (constant term from the un-completed Jacobian) misses the data
    by `(Jn − J)·xopt = 1` at both points: values `(8, 3)` instead of `(7, 2)`. -/
theorem full_rank_completion_old :
    ¬ Interpolates exG.Y exG.F (exG.fitCompletedOld (colScale (rightScaling 5) (exGQ * exGRb)) exGJn).c
        (exG.fitCompletedOld (colScale (rightScaling 5) (exGQ * exGRb)) exGJn).J ∧
    (Matrix.of fun t => modelVal (exG.fitCompletedOld (colScale (rightScaling 5) (exGQ * exGRb)) exGJn).c
        (exG.fitCompletedOld (colScale (rightScaling 5) (exGQ * exGRb)) exGJn).J (exG.Y t) :
        Matrix (Fin 2) (Fin 1) ℚ) = Matrix.of ![![8], ![3]] := by
  have h2 : (Matrix.of fun t => modelVal (exG.fitCompletedOld (colScale (rightScaling 5) (exGQ * exGRb)) exGJn).c
        (exG.fitCompletedOld (colScale (rightScaling 5) (exGQ * exGRb)) exGJn).J (exG.Y t) :
        Matrix (Fin 2) (Fin 1) ℚ) = Matrix.of ![![8], ![3]] := by decide +kernel
  refine ⟨fun h => ?_, h2⟩
  have h0 := congrFun (h 0) 0
  have e0 := congrFun (congrFun h2 0) 0
  simp only [Matrix.of_apply] at e0
  rw [e0] at h0
  revert h0
  decide +kernel

/-- regression: 4 points on a line (`n = 1`), one residual; reduced QR with rational factors. -/
def exR : IModel ℚ (Fin 4) (Fin 1) (Fin 1) where
  xbase := ![10]
  Y := Matrix.of ![![2], ![0], ![2], ![0]]
  F := Matrix.of ![![1], ![2], ![3], ![4]]
  kopt := 1
  c := 0
  J := 0

def exQ : Matrix (Fin 4) (Option (Fin 1)) ℚ := Matrix.of fun t o =>
  match o with
  | none => 1 / 2
  | some _ => ![1 / 2, -1 / 2, 1 / 2, -1 / 2] t

def exRm : Matrix (Option (Fin 1)) (Option (Fin 1)) ℚ := Matrix.of fun o o' =>
  match o, o' with
  | none, none => 2
  | none, some _ => 1
  | some _, none => 0
  | some _, some _ => 1

/-- `x = R⁻¹ Qᵀ F`: `Qᵀ F = (5, -1)`, so `x = (3, -1)`. -/
def exRx : Matrix (Option (Fin 1)) (Fin 1) ℚ := Matrix.of fun o _ =>
  match o with
  | none => 3
  | some _ => -1

example : IsLSQFit exR.Y exR.F (exR.fit 2 exRx).c (exR.fit 2 exRx).J :=
  regression_normal_eqs exR (by norm_num) exQ exRm exRx (by decide +kernel) (by decide +kernel) (by decide +kernel)
/-- the fit is `3 - y/2`: values `2, 3` at `y = 2, 0`, the means of `(1,3)` and `(2,4)`;
    it does **not** interpolate (4 data, 2 coefficients). -/
example : (exR.fit 2 exRx).c = ![3] ∧ (exR.fit 2 exRx).J = Matrix.of ![![-1 / 2]] := by decide +kernel

theorem exR_fullRank : FullRank exR.Y := by
  intro a v h
  have h0 := h 0
  have h1 := h 1
  simp [exR, dotProduct] at h0 h1
  subst h1
  refine ⟨rfl, ?_⟩
  funext j
  fin_cases j
  simpa using h0

/-- regression Lagrange functions of `exR`: `x = (WᵀW)⁻¹Wᵀ`. -/
def exRL : Matrix (Option (Fin 1)) (Fin 4) ℚ := Matrix.of fun o k =>
  match o with
  | none => ![0, 1 / 2, 0, 1 / 2] k
  | some _ => ![1 / 2, -1 / 2, 1 / 2, -1 / 2] k

example : ∀ y, ∑ k, lagrangeVal (colScale (rightScaling 2) exRL) exR.xopt k y = 1 :=
  lagrange_sum_one exR exR_fullRank (by norm_num) exRL (by decide +kernel)

end Examples

/-! ### `factorisation_current` -/

section Flag

open MState

variable {P R : Type}

/-- **fact_flag_sound** — for **every** sequence of `Model` operations: if
    `factorisation_current` is set, the factorisation was computed at the current version of the
    point set (`version` is bumped by every change of a point or of `kopt`;
    `Proofs/ModelState.lean`, `WF.fact`, proved by induction over the sequence in `run_wf`). -/
theorem fact_flag_sound (avg : Nat → R → R → R) (cap : Nat) (hcap : 1 ≤ cap) (x0 : P) (r0 : R) (v0 : Val)
    (label : Nat) (ops : List (MOp P R)) :
    let s := (init cap x0 r0 v0 1 label [r0]).run avg ops
    s.factCur = true → s.factVersion = s.version :=
  (run_wf avg ops (init_wf avg cap hcap x0 r0 v0 1 label [r0] rfl rfl)).fact

/-- **the same without the ghost counter** — if the flag is set after `ops`, then `ops` splits as
    `ops1 ++ op :: ops2` with `op ∈ {interpolate, factorise}` and the stored points (in row order)
    and `kopt` right after `op` are exactly those at the end: the cached `Q, R` were computed from
    the data `interpolation_matrix()` would read now. -/
theorem fact_flag_geometry (avg : Nat → R → R → R) (cap : Nat) (x0 : P) (r0 : R) (v0 : Val)
    (label : Nat) (ops : List (MOp P R)) :
    let s0 := init cap x0 r0 v0 1 label [r0]
    (s0.run avg ops).factCur = true →
    ∃ ops1 op ops2, ops = ops1 ++ op :: ops2 ∧ isFactOp op = true ∧
      geom (s0.run avg (ops1 ++ [op])) = geom (s0.run avg ops) :=
  run_fact_geometry avg (init cap x0 r0 v0 1 label [r0]) rfl ops

/-- pinned `add_new_sample` (model.py:215-227 at the pinned commit): the arg-min may move `kopt`,
    `factorisation_current` is left as it was.  (Repaired by `fix:` 9170e86.) -/
def addSampleOld (avg : Nat → R → R → R) (s : MState P R) (k : Nat) (r : R) (v : Val) : MState P R :=
  match s.addSample avg k r v with
  | .ok s' => { s' with factCur := s.factCur }
  | .error _ => s

def exAvg (k : Nat) (m r : Int) : Int := (k * m + r) / (k + 1)

/-- three points, incumbent in row 0, factorised. -/
def exFlagState : MState Nat Int :=
  (init 3 0 5 (.num 25) 1 1 [5]).run exAvg
    [.change 1 10 6 (.num 36) 2 true, .change 2 11 7 (.num 49) 3 true, .factorise]

/-- with the pinned formula a further sample at the incumbent moves `kopt` to row 1 while the flag
    stays set: the cached QR is centred on the old `xopt` (both readings of the invariant fail). -/
theorem fact_flag_old_add_sample :
    WF exAvg exFlagState ∧ exFlagState.factCur = true ∧
    (addSampleOld exAvg exFlagState 0 15 (.num 100)).factCur = true ∧
    geom (addSampleOld exAvg exFlagState 0 15 (.num 100)) ≠ geom exFlagState ∧
    (addSampleOld exAvg exFlagState 0 15 (.num 100)).factVersion ≠
      (addSampleOld exAvg exFlagState 0 15 (.num 100)).version := by
  refine ⟨run_wf _ _ (init_wf exAvg 3 (by omega) 0 5 _ 1 1 [5] rfl rfl), ?_, ?_, ?_, ?_⟩ <;> decide

/-- non-vacuity of `fact_flag_sound` / `fact_flag_geometry`: a sequence ending with the flag set,
    and the repaired `addSample` clearing it on the same input. -/
example : exFlagState.factCur = true ∧ exFlagState.factVersion = exFlagState.version := by decide
example : ((exFlagState.step exAvg (.sample 0 15 (.num 100))).toOption.map (·.factCur)) = some false := by decide

end Flag

/-
  ── C16_full (stated, NOT proved) ───────────────────────────────────────────────────────────────
  For the floating-point `Model` object `md` after `md.interpolate_mini_models_svd()` returned
  `True`, with `W = md.interpolation_matrix()[0]`, `κ = cond₂(W)`, `eps = 2⁻⁵²`,
  `scale = max(1, max|fval_v|, max|model_const| + ‖model_jac‖·max‖y_t‖)`:

    npt ≤ n+1 :  ‖model_value(y_t) − fval_v[t]‖∞            ≤ C·κ·eps·scale     for every t
    npt > n+1 :  ‖W0ᵀ (model_value(Y) − fval_v)‖∞           ≤ C·κ·eps·scale·‖W0‖
    Lagrange  :  |L_k(y_t) − δ_tk| ≤ C·κ·eps  (npt ≤ n+1),   |Σ_k L_k(y) − 1| ≤ C·κ·eps (npt > n+1)
    shift     :  model values at fixed absolute points and (g, H) change by at most
                 C·eps·(|c| + ‖J‖·(‖shift‖ + ‖y‖)) resp. the corresponding bound for g, H

  for a modest constant C depending on (n, m) only, and after *every* interleaving of
  change_point / add_new_sample / swap_points / shift_base / fit.

  Missing for a proof: (1) a formal IEEE-754 model with the standard backward-error results for
  Householder QR and triangular solves (Higham, ASNA Thms 19.4, 8.5) — not available in
  Lean/Mathlib; (2) LAPACK itself (dgeqrf/dorgqr/dtrtrs) is compiled Fortran outside any proof.
  What is proved instead: the exact-arithmetic identities above (the C = 0 case, assuming the
  defining equations of the LAPACK results) and the discrete soundness of the staleness flag for
  every operation sequence.  The harness measures the left-hand sides on the real object and
  reports the distribution of `lhs / (κ·eps·scale)` (tolerance constant C = 64·(n+1)).
-/

end C16
end Dfols
