/-
  C03 — The returned solution is a point that was really evaluated.

  "soln.x is the point that was passed to the residual function as evaluation point number
  soln.xmin_eval_num, soln.resid is the mean of the residual vectors returned there, and soln.obj
  equals sum(resid^2) + h(x) — for every termination route and across noise averaging, scaling, soft
  restarts and hard restarts."

  Model: the event lists accepted by `BookAcc.accept`, which replays the run on the L1 `Model`
  state machine and checks the call-site protocol (labels passed to change_point / add_new_point /
  save_point, soft_restart's incumbent save, the exit at x0, the first point of a restarted run,
  the hard-restart merge, the final `OptimResults`).
  Theorem: for EVERY accepted event list that ends with the `OptimResults` event, the reported
  evaluation number, objective and (point, residual-sample list) are those of a candidate whose
  samples are evaluations that really happened, all at that point number and all at the same `x`.
  What the harness adds on real runs (correspondence): soln.x equals the argument of those calls and
  soln.resid the mean of their results (the acceptor returns the call indices).
-/
import DfolsVerif.Proofs.BookAccT
import DfolsVerif.Gen.BookSites
import DfolsVerif.Spec.BookSites
import DfolsVerif.Gen.BookCalls

namespace Dfols
namespace C03

open BookAcc

/-- **C03 (labels are truthful)**. -/
theorem C03_label {hasH : Bool} {evs : List Ev} {s : St}
    {nf nx nruns : Nat} {flag : Int} {cls : MsgCls} {label : Int} {v : Val} {jn : Bool}
    (h : accept hasH (evs ++ [Ev.res nf nx nruns flag cls label v jn]) = .ok s) :
    ∃ b : Cand, s.best = some b ∧ label = (b.en : Int) ∧ v = b.obj ∧ b.resid ≠ [] ∧
      ∀ e ∈ b.resid, ∃ evalNo ve nc, Ev.obj e evalNo b.en b.pt ve nc ∈ evs := by
  have hinv := accept_invT h
  unfold accept at h
  rw [List.foldlM_append] at h
  simp only [bind, Except.bind] at h
  cases h1 : evs.foldlM step (init hasH) with
  | error m => simp [h1] at h
  | ok s1 =>
    rw [h1] at h
    simp only [List.foldlM_cons, List.foldlM_nil, bind, Except.bind] at h
    have hhist := foldlM_hist evs h1
    split at h
    · simp at h
    · rename_i s2 hs2
      simp only [pure, Except.pure, Except.ok.injEq] at h
      subst h
      simp only [step] at hs2
      cases hmode : s1.mode <;> cases hbest : s1.best <;> rw [hmode, hbest] at hs2 <;> simp only at hs2
      case idle.some b =>
        split at hs2
        · simp at hs2
        · rename_i hlab
          split at hs2
          · simp at hs2
          · rename_i hv
            simp only [Except.ok.injEq] at hs2
            subst hs2
            simp only [Decidable.not_not] at hlab hv
            have hT := hinv.best b hbest
            refine ⟨b, hbest, hlab, hv, hT.1, ?_⟩
            intro e he
            obtain ⟨ve, hve⟩ := hT.2 e he
            rcases hhist _ hve with h0 | ⟨a, c, h0⟩
            · simp [init] at h0
            · exact ⟨a, ve, c, h0⟩
      all_goals simp at hs2

/-- **layer G**: the 40-odd book-keeping call sites of controller.py / solver.py (change_point,
    add_new_point, add_new_sample, save_point, get_final_results, shift_base with their argument
    expressions; the hard-restart merge of `solve`; every `return` of `solve_main`) are textually the ones
    the acceptor `BookAcc` mirrors — regenerated from /repo's AST on every run. -/
theorem booksites_eq : Gen.bookSites = Spec.bookSites := by decide

/-! ### layer G, semantic: the call-site protocol decided over the generated table of ALL calls

  `Gen.bookCalls` lists every call of `change_point`, `add_new_point`, `add_new_sample`, `save_point` made by
  controller.py / solver.py with its argument expressions (regenerated from the AST on every run).  The theorems
  below are decided over the whole table and involve no reference copy: an unrelated edit keeps them, a call
  that hands over anything else breaks them. -/

/-- every point written into the interpolation set carries the FIRST sample taken there and is labelled with the
    point counter `nx` (never the call counter `nf`) -/
theorem C03_src_points_labelled : ∀ c ∈ Gen.bookCalls,
    (c.callee = "change_point" → c.args.length = 4 ∧ c.args[2]? = some "rvec_list[0, :]" ∧
        (c.args[3]? = some "self.nx" ∨ c.args[3]? = some "control.nx") ∧ c.kwargs = []) ∧
    (c.callee = "add_new_point" → c.args = ["xnew", "rvec_list[0, :]", "self.nx"] ∧ c.kwargs = []) := by
  decide +kernel

/-- every further sample goes to a row by `add_new_sample(k, rvec_extra=rvec_list[i, :])` where `i` is the variable of
    the innermost enclosing loop `for i in range(1, num_samples_run)`: samples 2, 3, … of the group just evaluated, each
    exactly once -/
theorem C03_src_samples : ∀ c ∈ Gen.bookCalls, c.callee = "add_new_sample" →
    c.args.length = 1 ∧ c.kwargs = [("rvec_extra", "rvec_list[i, :]")] ∧ c.loop = "i in range(1, num_samples_run)" := by
  decide +kernel

/-- every `save_point` hands over an absolute point together with (a) the mean of the samples ACTUALLY taken
    (`rvec_list[:num_samples_run, :]`), their number and the point counter, or (b) the incumbent with its own
    residual, sample count and evaluation number (`soft_restart`), or (c) `soft_restart`'s pass-through parameters -/
theorem C03_src_saves : ∀ c ∈ Gen.bookCalls, c.callee = "save_point" →
    c.kwargs = [("x_in_abs_coords", "True")] ∧
    (c.args = ["x", "np.mean(rvec_list[:num_samples_run, :], axis=0)", "num_samples_run", "self.nx"] ∨
     c.args = ["x", "np.mean(rvec_list[:num_samples_run, :], axis=0)", "num_samples_run", "control.nx"] ∨
     c.args = ["self.model.xopt(abs_coordinates=True)", "self.model.ropt()", "self.model.nsamples[self.model.kopt]",
               "self.model.eval_num[self.model.kopt]"] ∨
     c.args = ["x_in_abs_coords_to_save", "rvec_to_save", "nsamples_to_save", "self.nx"]) := by
  decide +kernel

/-- `add_new_point` (written for a full interpolation set; the L1 model's `addPoint` rejects it otherwise) is called
    only where `self.model.npt() >= self.model.num_pts` has been tested -/
theorem C03_src_add_new_point_on_full_set : ∀ c ∈ Gen.bookCalls, c.callee = "add_new_point" →
    (⟨true, "self.model.npt()", ">=", "self.model.num_pts"⟩ : Lit) ∈ c.path := by
  decide +kernel

/-- non-vacuity: the table has calls of each kind -/
example : (Gen.bookCalls.filter (·.callee = "change_point")).length = 9 ∧
    (Gen.bookCalls.filter (·.callee = "save_point")).length = 14 ∧
    (Gen.bookCalls.filter (·.callee = "add_new_sample")).length = 10 := by decide +kernel

/-- the same for every intermediate state: whatever `solve` currently holds as its best candidate
    consists of evaluations really made at the point it is labelled with. -/
theorem C03_candidate_truthful {hasH : Bool} {evs : List Ev} {s : St} (h : accept hasH evs = .ok s) :
    ∀ b, s.best = some b → b.resid ≠ [] ∧ ∀ e ∈ b.resid, ∃ ve, (e, b.en, b.pt, ve) ∈ s.hist :=
  fun b hb => (accept_invT h).best b hb

/-! ### non-vacuity: exit at x0 (2 samples), then a run with a soft-restart save -/

def exTrace : List Ev :=
  [ .rst 0 0 0 false 9 3, .ns 1, .obj 1 1 1 7 (.num 50) 1, .ctrl 1 1 (.num 50) 3 (.num 0),
    .evb 1 8, .obj 2 2 2 8 (.num 40) 1, .eve 1 none .other (.num 40) (.num 0) false, .chg 1 2 true (.num 40) 2 1,
    .evb 1 9, .obj 3 3 3 9 (.num 45) 1, .eve 1 none .other (.num 45) (.num 0) false, .chg 2 3 true (.num 45) 3 1,
    .itp true, .srb 0 1 (.num 40), .sav 1 2 (.num 40) true true,
    .evb 1 10, .obj 4 4 4 10 (.num 60) 1, .eve 1 none .other (.num 60) (.num 0) false, .chg 1 4 true (.num 60) 4 1,
    .sre false, .fin 2 1 (.num 40) (some [1, 2, 3]),
    .rend 4 4 2 1 .maxfun 2 1 (.num 40) false true, .res 4 4 2 1 .maxfun 2 (.num 40) false ]

example : (accept false exTrace).toOption.map (fun s => s.best.map (fun b => (b.pt, b.en, b.resid))) = some (some (8, 2, [2])) := by
  decide

/-- pinned tree (before the fix): soft_restart saved the incumbent labelled with the latest `nx` (3) — rejected -/
example : (accept false (exTrace.take 14 ++ [.sav 1 3 (.num 40) true true])).toOption.isNone = true := by decide

end C03
end Dfols
