/-
  C06 — Convex regularised least squares converges to the regularised optimum.  **PARTIAL**

  "... the returned objective sum(r^2)+h(x) is within 1e-3*(1+F*) of the true minimum F* and the run
  reports success; extra arguments for h and for the proximal operator are passed through unchanged."

  Proved here (the mechanisms the repairs touched):
    * `C06_box_frame`   — the projector handed to the regularised sub-problem maps EVERY absolute point
                          into the box `[xbase+sl, xbase+su]` (any rounding of the two sums);
                          `C06_old_wrong_box`: the pinned projector `pbox(x, sl, su)` does not.
    * `C06_args_passthrough` — in the call model every `h` / `prox_uh` call carries exactly the user's
                          argument tuples (real runs are checked against it with sentinel objects).
    * the step handed to the main loop never has a negative predicted reduction: `C13.zero_step_rule`.
    * soln.obj includes h(x): C03 / C17 (`C17_obj_matches`).
    * `C06_sfista_parameters` / `C06_sfista_returns_bound_names` — the parameter block of the S-FISTA sub-problem
                          solver (iteration count, smoothing parameter, Lipschitz constant), TRANSLATED from
                          trust_region.py on every run, is well defined over the reals for the inputs the
                          Controller passes: 1 ≤ MAX_LOOP_ITERS ≤ max_iters, u > 0, l > 0, and `gnew` (bound
                          only by the loop body) is bound at the `return`.  The same translated terms are run
                          in IEEE doubles against the real function (driver SfistaMain).
  NOT proved (stated): `C06_full` — convergence of the outer iteration + S-FISTA to within
  1e-3(1+F*) and the success flag: a convergence-with-rounding statement; the search decides it on
  the property's input space against a long-run proximal-gradient oracle.
-/
import DfolsVerif.Properties.C01
import DfolsVerif.Proofs.HCalls
import DfolsVerif.Proofs.Sfista
import DfolsVerif.Proofs.SolveMainCalls

namespace Dfols
namespace C06

/-- `pbox(x, l, u) = np.minimum(np.maximum(x, l), u)` with `l = xbase ⊕ sl`, `u = xbase ⊕ su` (any rounding ⊕) -/
def boxProj (add : Val → Val → Val) (xbase sl su x : Val) : Val :=
  npMinV (npMaxV x (add xbase sl)) (add xbase su)

/-- **the regularised sub-problem's projector lands in the absolute box**, whatever the rounding of
    `xbase + sl`, `xbase + su` (as long as those are numbers with lo ≤ hi), for every point `x`. -/
theorem C06_box_frame (add : Val → Val → Val) (xbase sl su x : Val) (lo hi : Int)
    (hlo : add xbase sl = .num lo) (hhi : add xbase su = .num hi) (h : lo ≤ hi) :
    C01.InBoxOrNaN lo hi (boxProj add xbase sl su x) := by
  unfold boxProj
  rw [hlo, hhi]
  exact C01.final_clip' lo hi h x

/-- pinned code: `pbox(x, sl, su)` applied to an ABSOLUTE point: xbase = 10, sl = -1, su = 1, x = 10
    is mapped to 1, which is outside the true box [9, 11]. -/
theorem C06_old_wrong_box :
    npMinV (npMaxV (.num 10) (.num (-1))) (.num 1) = .num 1 ∧ ¬ ((9 : Int) ≤ 1) := by decide

/-! ### argument pass-through: call model -/

inductive Call where
  | h (args : Nat)        -- a call of the regulariser with argument tuple `args` (identity of the tuple's objects)
  | prox (args : Nat)     -- a call of the proximal operator
deriving DecidableEq, Repr

def callOK (argsh argsprox : Nat) : Call → Bool
  | .h a => a == argsh
  | .prox a => a == argsprox

def accept (argsh argsprox : Nat) (cs : List Call) : Bool := cs.all (callOK argsh argsprox)

theorem C06_args_passthrough (argsh argsprox : Nat) (cs : List Call) (hacc : accept argsh argsprox cs = true) :
    (∀ a, Call.h a ∈ cs → a = argsh) ∧ (∀ a, Call.prox a ∈ cs → a = argsprox) := by
  simp only [accept, List.all_eq_true] at hacc
  exact ⟨fun a ha => by simpa [callOK] using hacc _ ha, fun a ha => by simpa [callOK] using hacc _ ha⟩

example : accept 7 9 [.h 7, .prox 9, .h 7] = true := by decide
example : accept 7 9 [.h 7, .prox 8] = false := by decide

/-- **layer G, the pass-through clause** (decided over the generated table of every call of the regulariser in the package):
    `h` is always called with one point and `*argsh` — the extra arguments reach it unchanged everywhere — and always at
    `remove_scaling(·)` of an internal point, i.e. in the user's coordinates; the model value used for predicted reductions
    evaluates it at the trial point `xopt + s` -/
theorem C06_src_h_calls :
    (∀ c ∈ Gen.hCalls, c.npos = 1 ∧ c.nkw = 0 ∧ (c.star = "self.argsh" ∨ c.star = "argsh") ∧
      ((c.point ≠ "" ∧ (c.scaling = "self.scaling_changes" ∨ c.scaling = "scaling_changes")) ∨
       (c.func = "util.py:eval_least_squares_with_regularisation" ∧ c.arg = "x"))) ∧
    (∀ c ∈ Gen.hCalls, c.func = "util.py:model_value" → c.point = "xopt + s") ∧
    ((∀ c ∈ Gen.proxCalls, c.2.1 = "argsprox" ∧ c.2.2 = 2) ∧ Gen.proxCalls ≠ [] ∧
     (∀ w ∈ Gen.sfistaWiring, w.2.1 = "self.argsh" ∧ w.2.2.1 = "self.argsprox" ∧ w.2.2.2.1 = "self.h" ∧ w.2.2.2.2 = "self.prox_uh") ∧
     Gen.sfistaWiring.length = 4) :=
  ⟨HCalls.h_sees_user_coordinates, HCalls.model_value_h, HCalls.prox_args_pass_through⟩

/-! ### layer G: the S-FISTA parameter block (translated from trust_region.ctrsbox_sfista on every run) -/

/-- **the regularised sub-problem solver's parameters are well defined**: for delta > 0, L_h > 0 (`solve` rejects
    lh ≤ 0), func_tol > 0, `sfista.max_iters_scaling` ≥ 1 and `func_tol.max_iters` ≥ 1 (parameter table), ‖H‖₂ ≥ 0:
    the loop runs at least once and at most `max_iters` times, and the smoothing parameter `u` and the Lipschitz
    constant `l = k_H + 1/u` are strictly positive — no division by zero in `2*delta/(MAX_LOOP_ITERS*L_h)`, `1/u`,
    `g_Fu / l`.  (Real arithmetic; underflow of the bound to 0.0 is outside the model.) -/
theorem C06_sfista_parameters (scale delta Lh kH tol : ℝ) (maxIters : ℕ)
    (hs : 1 ≤ scale) (hd : 0 < delta) (hL : 0 < Lh) (hk : 0 ≤ kH) (ht : 0 < tol) (hm : 1 ≤ maxIters) :
    let K := Gen.sfistaIters Sfista.realOps scale delta Lh kH tol maxIters
    let u := Gen.sfistaU Sfista.realOps K delta Lh
    1 ≤ K ∧ K ≤ maxIters ∧ 0 < u ∧ 0 < Gen.sfistaLip Sfista.realOps kH u ∧ 1 ≤ Gen.sfistaItersFallback maxIters := by
  intro K u
  have hK := Sfista.iters_bounds hs hd hL hk ht hm
  have hu : 0 < u := Sfista.u_pos hK.1 hd hL
  exact ⟨hK.1, hK.2, hu, Sfista.lip_pos hk hu, Sfista.fallback_bounds hm⟩

/-- the names `ctrsbox_sfista` returns are bound before its loop or unconditionally by the loop body, the loop is
    `for k in range(MAX_LOOP_ITERS)` without early exit — with `C06_sfista_parameters` (≥ 1 iteration) every returned
    name is bound (`gnew` is bound ONLY by the loop body) -/
theorem C06_sfista_returns_bound_names :
    (∀ r ∈ Gen.sfistaReturn, r.boundBeforeLoop = true ∨ r.boundInLoopBody = true) ∧
    Gen.sfistaLoopHeader = "for k in range(MAX_LOOP_ITERS)" ∧ Gen.sfistaLoopEarlyExits = [] :=
  Sfista.return_bound_after_one_iteration

/-! ### layer G: every `solve_main(...)` call of `solve` (first run, both forms of a hard restart) -/

/-- **the regulariser survives hard restarts**: each of the three `solve_main` calls in `solve` (table regenerated from
    solver.py on every run) passes 22 positional arguments that line up with `solve_main`'s own parameter list — only the
    starting point (`xmin`) and the running counters differ in name — so `h`, `lh`, `argsh`, `prox_uh`, `argsprox` stand at
    positions 17..21 in every call, and keyword arguments never shadow a positional parameter. -/
theorem C06_src_restart_keeps_regulariser :
    (Gen.solveMainCalls.all SolveMainCalls.callOK = true ∧ Gen.solveMainCalls.length = 3) ∧
    ((Gen.solveMainParams.drop 17).take 5 = ["h", "lh", "argsh", "prox_uh", "argsprox"] ∧
     ∀ c ∈ Gen.solveMainCalls, (c.1.drop 17).take 5 = ["h", "lh", "argsh", "prox_uh", "argsprox"]) :=
  ⟨SolveMainCalls.all_calls_ok, SolveMainCalls.regulariser_positions⟩

end C06
end Dfols
