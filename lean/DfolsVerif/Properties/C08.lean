/-
  C08 — Bad objective values at any evaluation are survived gracefully.

  "If the residual function returns NaN, ±inf or overflow-sized values at any single evaluation (or at
  all of them), solve still terminates without raising, keeps all bound and budget guarantees, returns
  a finite x that was evaluated, and a bad value never displaces a finite best point found earlier:
  whenever some evaluation before the fault was finite, the returned objective is finite and (without
  averaging) no larger than the best of them. An exception raised inside the residual function
  propagates to the caller unchanged and no further evaluations are requested."

  The bookkeeping theorems C02/C03/C04 never assumed finite values: objective values are arbitrary
  `Val`s (NaN, and ±inf / 1e200-overflow as ordinary order keys).  This file states the consequences.
  NOT covered by a theorem: that the numerics after a fault never raise (LinAlgError/ValueError from
  LAPACK on non-finite data) — that is the search's fault enumeration on the real code.
-/
import DfolsVerif.Proofs.BookAccB
import DfolsVerif.Properties.C04
import DfolsVerif.Properties.C02
import DfolsVerif.Proofs.ExitSitesC08
import DfolsVerif.Proofs.TrySites

namespace Dfols
namespace C08

open Val

/-- **a bad value never displaces a finite best point**: if ANY evaluation of the run had a non-NaN
    objective `k`, the returned objective is a number `j ≤ k` (so it is not NaN, and it is below every
    finite value seen — in particular not +inf when something finite was seen). No averaging, no regulariser. -/
theorem C08_finite_kept {evs : List Ev} {s : BookAcc.St}
    {nf nx nruns : Nat} {flag : Int} {cls : MsgCls} {label : Int} {v : Val} {jn : Bool}
    (h : BookAcc.accept false (evs ++ [Ev.res nf nx nruns flag cls label v jn]) = .ok s)
    (hav : s.averaged = false) :
    ∀ x ∈ s.hist, ∀ k, x.2.2.2 = .num k → ∃ j, v = .num j ∧ j ≤ k := by
  intro x hx k hk
  have hb := C04.C04_best h hav x hx
  rw [hk] at hb
  cases v with
  | nan => simp [Better] at hb
  | num j => exact ⟨j, rfl, by simpa [Better] using hb⟩

/-- **budget and numbering hold verbatim with any values** (the counting acceptor never looks at them). -/
theorem C08_budget {maxfun : Nat} {evs : List Ev} {s : CountAcc.St} (h : CountAcc.accept maxfun evs = .ok s) :
    (evs.filter CountAcc.isObj).length ≤ maxfun ∧ s.nf = (evs.filter CountAcc.isObj).length :=
  ⟨(C02.C02_budget h).1, (C02.C02_budget h).2.1⟩

/-- **an exception inside the residual function ends the evaluations**: in an accepted trace no
    evaluation event follows an `objraise` event. -/
theorem C08_exception {maxfun : Nat} {pre post : List Ev} {s : CountAcc.St}
    (h : CountAcc.accept maxfun (pre ++ Ev.objraise :: post) = .ok s) :
    ∀ e ∈ post, CountAcc.isObj e = false := by
  unfold CountAcc.accept at h
  rw [List.foldlM_append] at h
  simp only [bind, Except.bind] at h
  cases h1 : pre.foldlM CountAcc.step (CountAcc.init maxfun) with
  | error m => simp [h1] at h
  | ok s1 =>
    rw [h1] at h
    simp only [List.foldlM_cons, bind, Except.bind, CountAcc.step] at h
    exact CountAcc.dead_foldlM post rfl h

/-- the returned point is an evaluated one (C03) — restated for completeness -/
theorem C08_returned_x_evaluated {hasH : Bool} {evs : List Ev} {s : BookAcc.St} (h : BookAcc.accept hasH evs = .ok s) :
    ∀ b, s.best = some b → b.resid ≠ [] ∧ ∀ e ∈ b.resid, ∃ ve, (e, b.en, b.pt, ve) ∈ s.hist :=
  fun b hb => (BookAcc.accept_invT h).best b hb

/-! ### non-vacuity: NaN at the second evaluation, finite values kept -/

def exTrace : List Ev :=
  [ .rst 0 0 0 false 9 3, .ns 1, .obj 1 1 1 7 (.num 50) 1, .ctrl 1 1 (.num 50) 3 (.num 0),
    .evb 1 8, .obj 2 2 2 8 .nan 1, .eve 1 none .other .nan (.num 0) true, .chg 1 2 true .nan 2 0,
    .evb 1 9, .obj 3 3 3 9 (.num 45) 1, .eve 1 none .other (.num 45) (.num 0) false, .chg 2 3 true (.num 45) 3 2,
    .fin 3 1 (.num 45) none, .rend 3 3 1 1 .maxfun 3 1 (.num 45) false true, .res 3 3 1 1 .maxfun 3 (.num 45) false ]

example : (BookAcc.accept false exTrace).toOption.map (fun s => (s.averaged, s.best.map (·.obj))) =
    some (false, some (.num 45)) := by decide

/-- **source level** (decided over the generated table of all exit creation sites): the evaluation-error exit is created
    in exactly one place, under the NaN test on the residuals just returned; linear-algebra failures become the
    linalg-error exit at named sites only -/
theorem C08_src_fault_exits :
    (∀ s ∈ Gen.exitSites, s.flag = "EXIT_EVAL_ERROR" →
      s.func = "solver.py:solve_main" ∧ s.msg = "NaN received from objective function evaluation" ∧
      (⟨true, "np.any(np.isnan(rvec_list))", "", ""⟩ : Lit) ∈ s.path) ∧
    (Gen.exitSites.filter (·.flag = "EXIT_EVAL_ERROR")).length = 1 :=
  ⟨ExitSitesC08.evalError_sites, by decide +kernel⟩

/-! ### layer G: no handler of the package can intercept an exception of the residual function -/

/-- **no `try` block reaches the residual function** (tables regenerated from the AST of the whole package on every run: the seven
    `try` blocks with the functions called in their bodies, the call graph between package functions, the functions that call
    `objfun`): a package function reachable through the call graph from a call made inside ANY `try` body neither is `objfun` nor
    calls it — so an exception raised inside the residual function meets no `except` clause of the package on its way to the caller
    (seeded change C08_9 moved the `objfun` call into the `try … except OverflowError` of
    `eval_least_squares_with_regularisation`).  Calls into NumPy / SciPy are not package functions; user projections and the
    regulariser are other callbacks. -/
theorem C08_src_no_handler_around_objfun {f : String} (h : TrySites.Reach Gen.callEdges TrySites.roots f) :
    f ∉ Gen.objfunCallers ∧ f ≠ "objfun" :=
  TrySites.no_handler_around_objfun h

/-- non-vacuity: seven `try` blocks, one direct caller of the residual function, a non-trivial reachable set -/
example : Gen.trySites.length = 7 ∧ Gen.objfunCallers = ["eval_least_squares_with_regularisation"] ∧ TrySites.reachSet.length > 20 := by
  decide +kernel

end C08
end Dfols
