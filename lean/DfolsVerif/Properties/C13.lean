/-
  C13 — geometry and convex-constrained step solvers stay inside their regions.  **PARTIAL**

  Statement (properties.jsonl):
    (1) the geometry-improving step for bound constraints (`trsbox_geometry`) lies inside the box (to
        1e-12 relative) and the ball of radius Delta,
    (2) attains the global maximum of |c + g's| over that region to 1e-6 relative,
    (3) never worse than not moving;
    (4) the projected-gradient, smoothed-FISTA and convex geometry solvers always return steps with
        ‖d‖ ≤ Delta (1 + 1e-8);
    (5) the regularised step handed to the main loop never has a negative predicted reduction.

  Proved here
    (1) `trsbox_linear_box_ball`, `trsbox_geometry_box_ball`   (exact arithmetic: ordered field + sqrt spec;
        the box is the one the code uses, widened by ZERO_THRESH = 1e-14 on each side — lines 631-632 —
        which is where the property's "1e-12 relative" comes from)
    (3) `trsbox_linear_descent`, `trsbox_geometry_not_worse`   (exact)
    (4) `convex_step_norm_le`, `ctrsbox_geometry_norm_le`      (exact, real normed space) — via `Dykstra.ball_last`
        ("dykstra with the trust-region ball as last projector and max_iter ≥ 1 returns a point within Δ of the centre");
        `convex_step_in_ball`, `ctrsbox_geometry_in_ball`      the same over coordinates `Nat → K`, against the locally
        stated hypothesis `LastBall`
    (5) `zero_step_rule`, `zero_step_rule_nan`, `zero_step_rule_value`, `pred_reduction_of_zero_step`
        (NaN-aware, every rounding)
  Model: `Kernels/TrsboxLinear.lean` (one polymorphic definition; the same code runs on `Float` in the
  correspondence of `./check C13`), `Kernels/TrStepRule.lean`.

  Stated, NOT proved: (2) global optimality (`trsbox_linear_optimal`, see the block at the end).
-/
import DfolsVerif.Proofs.TrsLinear
import DfolsVerif.Kernels.TrStepRule
import DfolsVerif.Proofs.TrsConvexBall
import Mathlib.Analysis.Real.Sqrt
import DfolsVerif.Gen.TrProj
import DfolsVerif.Gen.TrsClip

namespace Dfols
namespace C13

open TrsLin TrsProofs TrStep ConvexStep

variable {K : Type} [Field K] [LinearOrder K] [IsStrictOrderedRing K]

/-! ### (1), (3): trsbox_linear and trsbox_geometry, exact arithmetic -/

/-- **`trsbox_linear` stays in the box and the ball** (exact): every coordinate of the result lies in
    `[min(a_in, -ZT), max(b_in, ZT)]` (the box of lines 631-632) and `Σ x_i² ≤ Δ²`.
    No hypothesis on `g`, `a_in`, `b_in`, `Δ` at all (for `a_in ≤ 0 ≤ b_in` the box contains the centre). -/
theorem trsbox_linear_box_ball {sqrt : K → K} (hs : SqrtSpec sqrt) {zt : K} (hzt : 0 < zt) (n : Nat)
    (g aIn bIn : Nat → K) (Δ : K) :
    let x := vget (trsboxLinear (exactNum sqrt zt) n g aIn bIn Δ)
    (∀ k < n, minv (aIn k) (-zt) ≤ x k ∧ x k ≤ maxv (bIn k) zt) ∧ sumTo n (fun i => x i * x i) ≤ Δ * Δ := by
  have h := trsboxLinear_good hs hzt n g aIn bIn Δ
  exact ⟨h.1, h.2.1⟩

/-- the result is a descent point for the linear objective, coordinate by coordinate: `g_i x_i ≤ 0`,
    hence `g·x ≤ 0 = g·0`. -/
theorem trsbox_linear_descent {sqrt : K → K} (hs : SqrtSpec sqrt) {zt : K} (hzt : 0 < zt) (n : Nat)
    (g aIn bIn : Nat → K) (Δ : K) :
    let x := vget (trsboxLinear (exactNum sqrt zt) n g aIn bIn Δ)
    (∀ k < n, g k * x k ≤ 0) ∧ sumTo n (fun i => g i * x i) ≤ 0 := by
  have h := trsboxLinear_good hs hzt n g aIn bIn Δ
  exact ⟨h.2.2, dot_nonpos_of_good h⟩

/-- **the geometry step stays in the (widened) box and the ball** (exact), `s = x_returned - xbase`. -/
theorem trsbox_geometry_box_ball {sqrt : K → K} (hs : SqrtSpec sqrt) {zt : K} (hzt : 0 < zt) (n : Nat)
    (xbase : Nat → K) (c : K) (g lower upper : Nat → K) (Δ : K) :
    let s := vget (geomStep (exactNum sqrt zt) n xbase c g lower upper Δ)
    (∀ k < n, minv (lower k - xbase k) (-zt) ≤ s k ∧ s k ≤ maxv (upper k - xbase k) zt) ∧
    sumTo n (fun i => s i * s i) ≤ Δ * Δ :=
  geomStep_box_ball hs hzt n xbase c g lower upper Δ

/-- in absolute coordinates: `lower - ZT ≤ x ≤ upper + ZT` whenever `lower ≤ xbase ≤ upper`
    (in fact `min(lower, xbase - ZT) ≤ x ≤ max(upper, xbase + ZT)` always). -/
theorem trsbox_geometry_abs_box {sqrt : K → K} (hs : SqrtSpec sqrt) {zt : K} (hzt : 0 < zt) (n : Nat)
    (xbase : Nat → K) (c : K) (g lower upper : Nat → K) (Δ : K) (k : Nat) (hk : k < n)
    (hl : lower k ≤ xbase k) (hu : xbase k ≤ upper k) :
    lower k - zt ≤ vget (trsboxGeometry (exactNum sqrt zt) n xbase c g lower upper Δ) k ∧
    vget (trsboxGeometry (exactNum sqrt zt) n xbase c g lower upper Δ) k ≤ upper k + zt := by
  have h := (geomStep_box_ball hs hzt n xbase c g lower upper Δ).1 k hk
  rw [vget_trsboxGeometry _ n xbase c g lower upper Δ k hk]
  constructor
  · have h1 : minv (lower k - xbase k) (-zt) ≥ lower k - xbase k - zt := by
      unfold minv; split_ifs <;> linarith
    linarith [h.1]
  · have h2 : maxv (upper k - xbase k) zt ≤ upper k - xbase k + zt := by
      unfold maxv; split_ifs <;> linarith
    linarith [h.2]

/-- **never worse than not moving** (exact): `|c + g·s| ≥ |c|` for the step chosen at lines 714-717. -/
theorem trsbox_geometry_not_worse {sqrt : K → K} (hs : SqrtSpec sqrt) {zt : K} (hzt : 0 < zt) (n : Nat)
    (xbase : Nat → K) (c : K) (g lower upper : Nat → K) (Δ : K) :
    |c| ≤ |c + sumTo n fun i => g i * vget (geomStep (exactNum sqrt zt) n xbase c g lower upper Δ) i| :=
  geomStep_not_worse hs hzt n xbase c g lower upper Δ

/-- non-vacuity of `SqrtSpec`, and the statements over the reals with `Real.sqrt` and ZT = 1e-14. -/
theorem sqrtSpec_real : SqrtSpec Real.sqrt := fun x hx => ⟨Real.sqrt_nonneg x, Real.mul_self_sqrt hx⟩

theorem trsbox_geometry_real (n : Nat) (xbase : Nat → ℝ) (c : ℝ) (g lower upper : Nat → ℝ) (Δ : ℝ) :
    let zt : ℝ := 1 / 10 ^ 14
    let s := vget (geomStep (exactNum Real.sqrt zt) n xbase c g lower upper Δ)
    (∀ k < n, minv (lower k - xbase k) (-zt) ≤ s k ∧ s k ≤ maxv (upper k - xbase k) zt) ∧
    sumTo n (fun i => s i * s i) ≤ Δ * Δ ∧ |c| ≤ |c + sumTo n fun i => g i * s i| := by
  intro zt s
  have hzt : (0 : ℝ) < zt := by positivity
  exact ⟨(geomStep_box_ball sqrtSpec_real hzt n xbase c g lower upper Δ).1,
         (geomStep_box_ball sqrtSpec_real hzt n xbase c g lower upper Δ).2,
         geomStep_not_worse sqrtSpec_real hzt n xbase c g lower upper Δ⟩

/-! ### (4): the convex solvers end with a projection whose last projector is the ball -/

/-- squared-norm ball in the first `n` coordinates -/
def InBall (n : Nat) (Δ : K) (d : Nat → K) : Prop := sumTo n (fun i => d i * d i) ≤ Δ * Δ

/-- **hypothesis discharged by wp-dykstra's `ball_last`**: the point `p` returned by
    `dykstra(P ++ [pball(·, xopt, Δ)], x0, max_iter ≥ 1)` satisfies `‖p - xopt‖ ≤ Δ`, for every start `x0`. -/
def LastBall (n : Nat) (xopt : Nat → K) (Δ : K) (dyk : (Nat → K) → Nat → K) : Prop :=
  ∀ x0, InBall n Δ fun i => dyk x0 i - xopt i

/-- `proj` of `ctrsbox_sfista` (133-137), `ctrsbox_pgd` (194-198), `ctrsbox_linear` (596-600):
    `proj(d0) = dykstra(P, xopt + d0) - xopt`. -/
def projStep (xopt : Nat → K) (dyk : (Nat → K) → Nat → K) (d0 : Nat → K) : Nat → K :=
  fun i => dyk (fun j => xopt j + d0 j) i - xopt i

/-- **`ctrsbox_pgd`, `ctrsbox_sfista`, `ctrsbox_linear` return `‖d‖ ≤ Δ`** (exact), given `LastBall`. -/
theorem convex_step_in_ball (n : Nat) (xopt : Nat → K) (Δ : K) (dyk : (Nat → K) → Nat → K)
    (hlast : LastBall n xopt Δ dyk) (ws : List (Nat → K)) :
    InBall n Δ (runProj (fun _ => 0) (projStep xopt dyk) ws) := by
  refine runProj_inv (InBall n Δ) _ _ ?_ (fun w => hlast _) ws
  unfold InBall
  rw [sumTo_eq_sum]
  simp only [mul_zero, Finset.sum_const_zero]
  exact mul_self_nonneg Δ

/-- **`ctrsbox_geometry`** (683-698) returns one of two `ctrsbox_linear` results. -/
theorem ctrsbox_geometry_in_ball (n : Nat) (xopt : Nat → K) (Δ : K) (dyk : (Nat → K) → Nat → K)
    (hlast : LastBall n xopt Δ dyk) (wsMin wsMax : List (Nat → K)) (pickMin : Bool) :
    InBall n Δ (if pickMin then runProj (fun _ => 0) (projStep xopt dyk) wsMin
                else runProj (fun _ => 0) (projStep xopt dyk) wsMax) := by
  split_ifs
  · exact convex_step_in_ball n xopt Δ dyk hlast wsMin
  · exact convex_step_in_ball n xopt Δ dyk hlast wsMax

/-- **clause (4) with `LastBall` discharged** by `Dykstra.ball_last` (exact arithmetic, any real normed space,
    arbitrary user projections, `dykstra.max_iters ≥ 1`, `Δ > 0`): the step returned by `ctrsbox_pgd`,
    `ctrsbox_sfista`, `ctrsbox_linear` — the last `dykstra(P ++ [ball], xopt + w) - xopt`, or the zero step —
    has norm at most `Δ`. -/
theorem convex_step_norm_le {E : Type} [NormedAddCommGroup E] [NormedSpace ℝ E] (Qs : List (E → E)) (xopt : E)
    (Δ : ℝ) (hΔ : 0 < Δ) (maxIter : Nat) (tol : ℝ) (hmax : 1 ≤ maxIter) (ws : List E) :
    ‖runProj 0 (projReal Qs xopt Δ maxIter tol) ws‖ ≤ Δ :=
  TrsProofs.convex_step_norm_le Qs xopt Δ hΔ maxIter tol hmax ws

/-- … and `ctrsbox_geometry` returns one of two such steps. -/
theorem ctrsbox_geometry_norm_le {E : Type} [NormedAddCommGroup E] [NormedSpace ℝ E] (Qs : List (E → E)) (xopt : E)
    (Δ : ℝ) (hΔ : 0 < Δ) (maxIter : Nat) (tol : ℝ) (hmax : 1 ≤ maxIter) (wsMin wsMax : List E) (pickMin : Bool) :
    ‖if pickMin then runProj 0 (projReal Qs xopt Δ maxIter tol) wsMin
      else runProj 0 (projReal Qs xopt Δ maxIter tol) wsMax‖ ≤ Δ := by
  split_ifs
  · exact TrsProofs.convex_step_norm_le Qs xopt Δ hΔ maxIter tol hmax wsMin
  · exact TrsProofs.convex_step_norm_le Qs xopt Δ hΔ maxIter tol hmax wsMax

/-- `LastBall` is satisfiable: the exact ball projection alone (identity inside, radial scaling outside)
    in dimension 1 over ℚ. -/
example : LastBall (K := ℚ) 1 (fun _ => 0) 2 (fun x _ => max (-2) (min 2 (x 0))) := by
  intro x0
  unfold InBall
  simp only [sumTo, sub_zero, zero_add]
  have h1 : (-2 : ℚ) ≤ max (-2) (min 2 (x0 0)) := le_max_left _ _
  have h2 : max (-2) (min 2 (x0 0)) ≤ (2 : ℚ) := max_le (by norm_num) (min_le_left _ _)
  nlinarith

/-! ### (5): the zero-step rule of `Controller.trust_region_step` (controller.py:550-553) -/

/-- **the returned regularised step never has a negative predicted reduction**: for any step type,
    any predicted-reduction function `pr` into NaN-aware values with `pr 0 = 0` (see
    `pred_reduction_of_zero_step`), the step chosen by lines 551-553 satisfies `¬ (pr r < 0)`. -/
theorem zero_step_rule {D : Type} (pr : D → Val) (d zero : D) (h0 : pr zero = Val.num 0) :
    Val.lt (pr (chooseStep (pr d) d zero)) (Val.num 0) = false := by
  unfold chooseStep
  by_cases h : Val.lt (pr d) (Val.num 0) = true
  · rw [if_pos h, h0]; simp [Val.lt]
  · rw [if_neg h]; simpa using h

/-- what exactly holds when `pred_reduction` is NaN: `NaN < 0.0` is `False`, so the step is KEPT and the
    step handed to the main loop has a NaN (not a negative) predicted reduction. -/
theorem zero_step_rule_nan {D : Type} (pr : D → Val) (d zero : D) (h : pr d = Val.nan) :
    chooseStep (pr d) d zero = d ∧ pr (chooseStep (pr d) d zero) = Val.nan := by
  simp [chooseStep, h, Val.lt]

/-- the complete case analysis: either the solver's step is kept with a NaN predicted reduction, or
    the returned step's predicted reduction is a number `≥ 0`. -/
theorem zero_step_rule_value {D : Type} (pr : D → Val) (d zero : D) (h0 : pr zero = Val.num 0) :
    (pr d = Val.nan ∧ chooseStep (pr d) d zero = d) ∨
    ∃ k : Int, 0 ≤ k ∧ pr (chooseStep (pr d) d zero) = Val.num k := by
  cases hd : pr d with
  | nan => exact Or.inl ⟨rfl, by simp [chooseStep, Val.lt]⟩
  | num k =>
    right
    by_cases hk : k < 0
    · exact ⟨0, le_rfl, by simp [chooseStep, Val.lt, hk, h0]⟩
    · exact ⟨k, not_lt.mp hk, by simp [chooseStep, Val.lt, hk, hd]⟩

/-- the rule is applied exactly in the regularised branch (`h is not None`). -/
theorem zero_step_only_with_regulariser {D : Type} (pr : Val) (d zero : D) :
    returnedStep false pr d zero = d ∧ returnedStep true pr d zero = chooseStep pr d zero := by
  simp [returnedStep, checksDecrease]

/-- `pr 0 = 0`: for the zero step `pred_reduction = h(x) ⊖ (0 ⊕ h(x))` (`model_value` of `d = 0` is
    `np.dot(0, g + 0.5·H·0) = 0` for finite `g`, `H`; then `rtn += h(x + 0)`), which is exactly `0` for
    ANY rounding that satisfies the two IEEE facts `0 ⊕ a = a` and `a ⊖ a = 0` (true for finite `a`),
    provided `h` is deterministic (`h(x + 0) = h(x)`). -/
theorem pred_reduction_of_zero_step {α : Type} [Zero α] (add sub : α → α → α)
    (hadd : ∀ a, add 0 a = a) (hsub : ∀ a, sub a a = 0) (hx : α) : sub hx (add 0 hx) = 0 := by
  rw [hadd, hsub]

/-- IEEE doubles, kernel-evaluated: finite `h(x)` gives exactly `0.0`; `h(x) = +inf` gives NaN, and
    `NaN < 0.0` is false (the step is kept). -/
example : (((1.5 : Float) - (0.0 + 1.5)) == 0.0) = true := by decide +kernel
example : ((((1.0 : Float) / 0.0) - (0.0 + (1.0 : Float) / 0.0)).isNaN) = true := by decide +kernel
example : (decide (((0.0 : Float) / 0.0) < 0.0)) = false := by decide +kernel

/-- the dispatch of lines 513-548 (which solver is reached), checked exhaustively. -/
example : pickSolver false false false false = .trsbox ∧ pickSolver false false true false = .trsbox ∧
    pickSolver false true false false = .pgd ∧ pickSolver false true true false = .zeroBadModel ∧
    pickSolver true false false false = .sfistaBox ∧ pickSolver true true false false = .sfista ∧
    pickSolver true false true false = .zeroBadModel ∧ pickSolver true true true false = .zeroBadModel ∧
    (∀ a b c, pickSolver a b c true = .linalgError) := by decide

/-- non-vacuity of `zero_step_rule`: a negative, a positive and a NaN prediction. -/
example : chooseStep (Val.num (-3)) "d" "0" = "0" ∧ chooseStep (Val.num 5) "d" "0" = "d" ∧
    chooseStep Val.nan "d" "0" = "d" := by decide

/-! ### stated, NOT proved

  trsbox_linear_optimal (exact): for `x = trsboxLinear g a_in b_in Δ` and every `y` with
      `widenLo a_in ≤ y ≤ widenHi b_in`, `Σ y_i² ≤ Δ²`:   `g·x ≤ g·y`.
  Hence (2): `|c + g·s|` of `trsbox_geometry` is the global maximum over the widened box ∩ ball, and within
  `ZT·‖g‖₁` of the maximum over the true box (the property's 1e-6 relative).
  Proof sketch (not formalised): by the invariant `Inv` of `Proofs/TrsLinear.lean` the result is
  `x_k = clip(U·(-g_k), a_k, b_k)` for the final sphere parameter `U` — the sphere parameter is
  non-decreasing over the iterations (`U'² Σ_free' dirn² = U² Σ_free' dirn² + (U² - T'²) dirn_j²`), so every
  fixed coordinate stays clipped — and either `‖x‖ = Δ` or every non-constant coordinate sits on a bound;
  KKT with multiplier `1/(2U)` for the ball and Cauchy–Schwarz give optimality.
  Watched by the search of `./check C13` against the clipped-ray bisection oracle on every input.
-/

/-- **layer G**: in the three convex-constrained solvers the list handed to Dykstra is a fresh copy of the user's projectors
    with the trust-region ball `pball(·, centre, Delta)` appended LAST — so a returned point lies exactly in the ball
    (`C15_last_in`), which is what `convex_step_in_ball` / `ctrsbox_geometry_in_ball` rest on, and the caller's list is never
    modified.  Statements as generated from trust_region.py on every run. -/
theorem gen_trproj_last : Gen.trprojPlacement =
    [("ctrsbox_sfista", ["trproj = lambda w: pball(w, xopt, delta)", "P = list(projections)", "P.append(trproj)"]),
     ("ctrsbox_pgd", ["trproj = lambda w: pball(w, xopt, delta)", "P = list(projections)", "P.append(trproj)"]),
     ("ctrsbox_linear", ["trproj = lambda w: pball(w, xbase, Delta)", "P = list(projections)", "P.append(trproj)"])] := by
  decide +kernel

/-- **layer G: `ball_step` translated from trust_region.py on every run is the `ballStep` of the port** the
    `trsbox_linear_*` / `trsbox_geometry_*` theorems are about (any numeric record: the three dot products, the
    `sqrt(gsqnorm) < ZERO_THRESH` guard returning 0, and the `max(0, ·)` under the square root). -/
theorem gen_ballStep_eq {α : Type} [OfNat α 0] [Add α] [Sub α] [Mul α] [Div α] [Neg α] [LT α] [LE α]
    [DecidableLT α] [DecidableLE α] (N : TrsLin.Num α) (n : Nat) (x0 g : Nat → α) (Delta : α) :
    Gen.ballStepSrc N n x0 g Delta = TrsLin.ballStep N n x0 g Delta := rfl

end C13
end Dfols
