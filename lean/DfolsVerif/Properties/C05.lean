/-
  C05 — Linear least-squares problems are solved to global optimality.   **PARTIAL**

  Statement (properties.jsonl): when the residuals are linear, r(x) = A x − b with A of full column
  rank and moderate conditioning, optionally with finite bounds and with or without internal
  scaling, the solver with its default budget returns a feasible point whose objective is within
  1e-6·(1+f*) of the true constrained minimum f*, and reports success.

  ── What is proved here (E: exact arithmetic, `Kernels/Interp.lean`) ────────────────────────────
  the *mechanisms* the property's anchors name, not the end-to-end claim:
    `interp_affine_exact`      n+1 affinely independent points: the interpolation model of affine
                               residuals **is** the residual function, `model_jac = A`
                               (`A` in the solver's internal, possibly scaled, coordinates);
    `regression_affine_exact`  the same for the least-squares fit (npt > n+1, full column rank);
    `gauss_newton_exact`       `build_full_model()`'s `(g, H) = (2Jᵀr, 2JᵀJ)` is the exact
                               second-order expansion of `‖m(xopt + d)‖²`;
    `objective_model_exact`    hence for affine residuals the quadratic model equals the true
                               objective at every trial point;
    `ratio_eq_one`, `ratio_eq_one_regression`
                               and `calculate_ratio`'s `actual_reduction / pred_reduction` is
                               exactly 1 whenever `pred_reduction ≠ 0`: every trust-region step is
                               "very successful", no radius decrease is caused by a bad ratio.
  ── What is NOT proved (stated as `C05_full` at the end) ─────────────────────────────────────────
  the end-to-end bound `f − f* ≤ 1e-6·(1+f*)`, feasibility of the returned point (C01), and the
  success flag: a convergence-with-rounding statement about the whole iteration (trsbox with
  active bounds — C12, radius management — C18, termination — C10).  No proof is attempted; the
  failing-input search of `harness/props/c05.py` (against `scipy.optimize.lsq_linear`) is what
  watches it, and the correspondence observes `ratio ≈ 1` at every trust-region step.
-/
import DfolsVerif.Proofs.Interp

set_option linter.unusedSectionVars false

namespace Dfols
namespace C05

open Matrix
open Interp (modelVal Interpolates IsLSQFit FullRank IModel affineResid sumsq quadModel)

section Exact

variable {K : Type*} [Field K] {ι ν μ : Type*} [Fintype ι] [Fintype ν] [Fintype μ]

/-- **interp_affine_exact** — residuals `r(x) = A x − b`, stored residuals `fval_v[t] = r(xbase+y_t)`,
    `(c, J)` satisfying the interpolation equations on a point set in general position
    (n+1 points: affinely independent)  ⇒  `J = A` and `c + J y = r(xbase + y)` for **every** `y`. -/
theorem interp_affine_exact {A : Matrix μ ν K} {b : μ → K} (s : IModel K ι ν μ) (hY : FullRank s.Y)
    (hF : ∀ t, s.F t = affineResid A b (s.absPoint t)) (h : Interpolates s.Y s.F s.c s.J) :
    s.J = A ∧ ∀ y, modelVal s.c s.J y = affineResid A b (s.xbase + y) := by
  have hF' : s.F = fun t => affineResid A b (s.xbase + s.Y t) := funext hF
  rw [hF'] at h
  exact Interp.interp_affine_exact hY h

/-- **gauss_newton_exact** — with `(g, H) = build_full_model()`:
    `‖m(xopt + d)‖² = ‖m(xopt)‖² + g·d + ½ d·H d`  (as computed by `util.model_value`). -/
theorem gauss_newton_exact (h2 : (2 : K) ≠ 0) (s : IModel K ι ν μ) (d : ν → K) :
    sumsq (modelVal s.c s.J (s.xopt + d)) =
      sumsq (modelVal s.c s.J s.xopt) + quadModel s.buildFullModel.1 s.buildFullModel.2 d :=
  Interp.gauss_newton_exact h2 s d

/-- for affine residuals the quadratic model is the true objective at every trial point. -/
theorem objective_model_exact (h2 : (2 : K) ≠ 0) {A : Matrix μ ν K} {b : μ → K} (s : IModel K ι ν μ)
    (hY : FullRank s.Y) (hF : ∀ t, s.F t = affineResid A b (s.absPoint t))
    (h : Interpolates s.Y s.F s.c s.J) (d : ν → K) :
    sumsq (affineResid A b (s.xbase + (s.xopt + d))) =
      sumsq (s.F s.kopt) + quadModel s.buildFullModel.1 s.buildFullModel.2 d := by
  obtain ⟨_, hex⟩ := interp_affine_exact s hY hF h
  rw [← hex, gauss_newton_exact h2, hex, hF s.kopt]
  rfl

/-- **ratio_eq_one** — `calculate_ratio` (controller.py:736-757, no regulariser):
    `actual_reduction = objopt − sumsq(r(xopt+d))`, `pred_reduction = −model_value(g, H, d)`;
    for affine residuals and an interpolation set in general position their quotient is 1. -/
theorem ratio_eq_one (h2 : (2 : K) ≠ 0) {A : Matrix μ ν K} {b : μ → K} (s : IModel K ι ν μ)
    (hY : FullRank s.Y) (hF : ∀ t, s.F t = affineResid A b (s.absPoint t))
    (h : Interpolates s.Y s.F s.c s.J) (d : ν → K)
    (hpred : - quadModel s.buildFullModel.1 s.buildFullModel.2 d ≠ 0) :
    (sumsq (s.F s.kopt) - sumsq (affineResid A b (s.xbase + (s.xopt + d)))) /
      (- quadModel s.buildFullModel.1 s.buildFullModel.2 d) = 1 := by
  rw [objective_model_exact h2 s hY hF h d, div_eq_one_iff_eq hpred]
  ring

end Exact

section Ordered

variable {K : Type*} [Field K] [LinearOrder K] [IsStrictOrderedRing K]
  {ι ν μ : Type*} [Fintype ι] [Fintype ν] [Fintype μ]

/-- **regression_affine_exact** — more than n+1 points of full column rank: the least-squares fit
    of affine residuals is the residual function, `J = A`. -/
theorem regression_affine_exact {A : Matrix μ ν K} {b : μ → K} (s : IModel K ι ν μ) (hY : FullRank s.Y)
    (hF : ∀ t, s.F t = affineResid A b (s.absPoint t)) (h : IsLSQFit s.Y s.F s.c s.J) :
    s.J = A ∧ ∀ y, modelVal s.c s.J y = affineResid A b (s.xbase + y) := by
  have hF' : s.F = fun t => affineResid A b (s.xbase + s.Y t) := funext hF
  rw [hF'] at h
  exact Interp.regression_affine_exact hY h

/-- `ratio = 1` with a regression model. -/
theorem ratio_eq_one_regression {A : Matrix μ ν K} {b : μ → K} (s : IModel K ι ν μ)
    (hY : FullRank s.Y) (hF : ∀ t, s.F t = affineResid A b (s.absPoint t))
    (h : IsLSQFit s.Y s.F s.c s.J) (d : ν → K)
    (hpred : - quadModel s.buildFullModel.1 s.buildFullModel.2 d ≠ 0) :
    (sumsq (s.F s.kopt) - sumsq (affineResid A b (s.xbase + (s.xopt + d)))) /
      (- quadModel s.buildFullModel.1 s.buildFullModel.2 d) = 1 := by
  obtain ⟨_, hex⟩ := regression_affine_exact s hY hF h
  have h2 : (2 : K) ≠ 0 := two_ne_zero
  have := Interp.ratio_eq_one h2 s (affineResid A b) hex d hpred
  rw [hF s.kopt]
  exact this

end Ordered

/-! ### non-vacuity (ℚ): a 2×2 linear problem, three points, a trial step -/

section Examples

def exA : Matrix (Fin 2) (Fin 2) ℚ := Matrix.of ![![2, 0], ![1, 4]]
def exb : Fin 2 → ℚ := ![1, 1]

/-- `xbase = (1,1)`, points `(0,0), (1,0), (0,1)` relative to it, `kopt = 0`;
    data and model are those of `r(x) = A x − b`. -/
def exS : IModel ℚ (Fin 3) (Fin 2) (Fin 2) where
  xbase := ![1, 1]
  Y := Matrix.of ![![0, 0], ![1, 0], ![0, 1]]
  F := Matrix.of ![![1, 4], ![3, 5], ![1, 8]]
  kopt := 0
  c := ![1, 4]
  J := exA

theorem exS_fullRank : FullRank exS.Y := by
  intro a v h
  have h0 := h 0
  have h1 := h 1
  have h2 := h 2
  simp [exS, dotProduct, Fin.sum_univ_two] at h0 h1 h2
  subst h0
  simp at h1 h2
  refine ⟨rfl, ?_⟩
  funext j
  fin_cases j
  · simpa using h1
  · simpa using h2

theorem exS_data : ∀ t, exS.F t = affineResid exA exb (exS.absPoint t) := by
  have h : exS.F = (Matrix.of fun t => affineResid exA exb (exS.absPoint t) : Matrix (Fin 3) (Fin 2) ℚ) := by
    decide +kernel
  exact fun t => congrFun h t

theorem exS_interp : Interpolates exS.Y exS.F exS.c exS.J := by
  have h : (Matrix.of fun t => modelVal exS.c exS.J (exS.Y t) : Matrix (Fin 3) (Fin 2) ℚ) = exS.F := by
    decide +kernel
  exact fun t => congrFun h t

/-- a trial step with non-zero predicted reduction: the theorem applies … -/
example : (sumsq (exS.F exS.kopt) - sumsq (affineResid exA exb (exS.xbase + (exS.xopt + ![-1 / 2, -1])))) /
    (- quadModel exS.buildFullModel.1 exS.buildFullModel.2 ![-1 / 2, -1]) = 1 :=
  ratio_eq_one (by norm_num) exS exS_fullRank exS_data exS_interp _ (by decide +kernel)
/-- … and the numbers are what they should be (`f = 17 → 1/4`, predicted reduction `67/4`). -/
example : sumsq (exS.F exS.kopt) = 17 ∧
    sumsq (affineResid exA exb (exS.xbase + (exS.xopt + ![-1 / 2, -1]))) = 1 / 4 ∧
    - quadModel exS.buildFullModel.1 exS.buildFullModel.2 ![-1 / 2, -1] = 67 / 4 := by decide +kernel

end Examples

/-
  ── C05_full (stated, NOT proved) ───────────────────────────────────────────────────────────────
  For all m ≥ n ≥ 1, A ∈ ℝ^{m×n} of full column rank with cond₂(A) ≤ 1e3, b ∈ ℝ^m, x0 ∈ ℝ^n,
  bounds xl < xu (possibly infinite; x0 clipped into them), `scaling_within_bounds ∈ {False, True}`
  (finite bounds), `npt ∈ [n+1, 2n+1]`, default `maxfun`, `rhobeg`, `rhoend`:
      soln = dfols.solve(lambda x: A @ x − b, x0, bounds=(xl, xu), …)   satisfies
      xl ≤ soln.x ≤ xu,   soln.obj − f* ≤ 1e-6·(1 + f*),   soln.flag == EXIT_SUCCESS (0),
  where f* = min { ‖A x − b‖² : xl ≤ x ≤ xu }.

  Missing for a proof: a convergence proof of the DFO-LS iteration *in floating point* — the
  theorems above give exact models and ratio 1 in exact arithmetic, C12 gives feasibility and
  decrease of `trsbox` steps, C18 the radius invariants, C10 the meaning of the exits; combining
  them into a rate ("reaches 1e-6·(1+f*) before rho < rhoend or maxfun") needs an error analysis of
  the interpolation step (conditioning of the point set after geometry steps) that is out of reach
  here.  What watches it: `harness/props/c05.py` — search on the property's input space against
  `scipy.optimize.lsq_linear` (quick 150, thorough 3 000 instances).
-/

end C05
end Dfols
