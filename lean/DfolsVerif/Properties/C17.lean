/-
  C17 — Model bookkeeping stays consistent under any sequence of updates.

  Statement (properties.jsonl): after any sequence of point replacements, added samples, added
  points, swaps and base shifts: each stored objective equals sum(stored residual^2)+h at the stored
  point; the stored residual of a repeatedly sampled point is the arithmetic mean of its samples and
  its sample count is exact; evaluation numbers travel with their points; the incumbent index always
  designates the smallest stored objective unless the incumbent itself was overwritten by a worse
  point; and the final-result query returns the better of the saved point and the incumbent,
  preferring any finite value over NaN.

  All theorems quantify over **every** operation list `ops` (no length bound), every objective
  value pattern (`Val`, NaN included), arbitrary point / residual types.
-/
import DfolsVerif.Proofs.ModelObj
import DfolsVerif.Proofs.RunningMean
import DfolsVerif.Gen.ModelDecisions
import DfolsVerif.Proofs.HCalls
import DfolsVerif.Gen.RowWrites

namespace Dfols
namespace C17

open MState Val

/-! ### layer G (translated code): the four tests in model.py that decide which point is kept, as generated
    from /repo's AST on this run, ARE the decisions of the L1 state machine (`by rfl`). -/

/-- `change_point`: `if allow_kopt_update and (objval[k] < objopt() or (isnan(objopt()) and not isnan(objval[k])))` -/
theorem gen_changePoint_decision (allow : Bool) (v opt : Val) :
    Gen.changePointUpdatesKopt allow v opt = (allow && improves v opt) := rfl

/-- `add_new_point`: `if obj < objopt() or (isnan(objopt()) and not isnan(obj))` -/
theorem gen_addPoint_decision (v opt : Val) : Gen.addPointUpdatesKopt v opt = improves v opt := rfl

/-- `save_point`: `if objsave is None or obj <= objsave or (isnan(objsave) and not isnan(obj))` -/
theorem gen_savePoint_decision (saved : Option Val) (v : Val) : Gen.savePointAccepts saved v = saveAccepts v saved := by
  cases saved <;> rfl

/-- `get_final_results`: `if objsave is None or objopt() <= objsave or isnan(objsave)` -/
theorem gen_getFinal_decision (saved : Option Val) (opt : Val) : Gen.finalPrefersCurrent saved opt = finalPrefersOpt opt saved := by
  cases saved <;> rfl

variable {P R : Type}

/-- **labels, counts and means travel with their points** — for every reachable state:
    every row's evaluation number is the one supplied with the point stored there, its sample count
    is exactly the number of samples received, and its residual is the running mean (as computed by
    the code's recurrence `avg`) of exactly those samples. -/
theorem C17_labels_counts_means (avg : Nat → R → R → R) (cap : Nat) (hcap : 1 ≤ cap)
    (x0 : P) (r0 : R) (v0 : Val) (label : Nat) (ops : List (MOp P R)) :
    ∀ sl ∈ ((init cap x0 r0 v0 1 label [r0]).run avg ops).slots,
      sl.en = sl.glabel ∧ sl.pt = sl.gpt ∧ sl.ns = sl.gsamples.length ∧
      meanOf avg sl.gsamples = some sl.resid := by
  intro sl hsl
  have h := (run_wf avg ops (init_wf avg cap hcap x0 r0 v0 1 label [r0] rfl rfl)).slots_ok sl hsl
  exact ⟨h.label, h.point, h.count, h.mean⟩

/-- (exact arithmetic) the code's recurrence computes the arithmetic mean. -/
theorem C17_mean_is_arithmetic_mean {K : Type} [Field K] [CharZero K] (rs : List K) (h : rs ≠ []) :
    meanOf avgK rs = some (rs.sum / (rs.length : K)) := meanOf_avgK rs h

/-- **stored objective = sumsq(stored residual) + h(stored point)**, given that every value handed
    to the model was computed that way (`RunConsistent`, which is what the harness checks
    independently on the real object). -/
theorem C17_obj_matches (objfn : R → P → Val) (avg : Nat → R → R → R) (cap : Nat) (hcap : 1 ≤ cap)
    (x0 : P) (r0 : R) (label : Nat) (ops : List (MOp P R))
    (hops : RunConsistent objfn avg (init cap x0 r0 (objfn r0 x0) 1 label [r0]) ops) :
    ∀ sl ∈ ((init cap x0 r0 (objfn r0 x0) 1 label [r0]).run avg ops).slots,
      sl.obj = objfn sl.resid sl.pt := by
  intro sl hsl
  have hwf := (run_wf avg ops (init_wf avg cap hcap x0 r0 (objfn r0 x0) 1 label [r0] rfl rfl)).slots_ok sl hsl
  have hobj := run_objConsistent objfn avg ops (s := init cap x0 r0 (objfn r0 x0) 1 label [r0])
    (by intro sl hsl; simp only [init, List.mem_singleton] at hsl; subst hsl; rfl) hops sl hsl
  rw [hobj, hwf.src]

/-- **the incumbent index designates the best stored value** (NaN worst) after every sequence in
    which the incumbent's own row is never overwritten by a worse point (`RunGuarded`). -/
theorem C17_kopt_min (avg : Nat → R → R → R) (cap : Nat) (hcap : 1 ≤ cap)
    (x0 : P) (r0 : R) (v0 : Val) (label : Nat) (ops : List (MOp P R))
    (hg : RunGuarded avg (init cap x0 r0 v0 1 label [r0]) ops) :
    let s := (init cap x0 r0 v0 1 label [r0]).run avg ops
    ∀ j, Better s.objopt (s.objAt j) := by
  intro s j
  have hwf := init_wf avg cap hcap x0 r0 v0 1 label [r0] rfl rfl
  have h0 : KoptMin (init cap x0 r0 v0 1 label [r0]) := by
    intro j
    cases j with
    | zero => exact Better.refl _
    | succ j => simp [init, objL, better_nan]
  exact run_koptMin avg ops hwf h0 hg j

/-- **the final-result query** always answers, and with a value at least as good (NaN worst) as
    both the incumbent's and the saved one — in particular a finite value is preferred to NaN. -/
theorem C17_final_better (avg : Nat → R → R → R) (cap : Nat) (hcap : 1 ≤ cap)
    (x0 : P) (r0 : R) (v0 : Val) (label : Nat) (ops : List (MOp P R)) :
    let s := (init cap x0 r0 v0 1 label [r0]).run avg ops
    ∃ f, s.getFinal = some f ∧ Better f.obj s.objopt ∧ ∀ sv, s.saved = some sv → Better f.obj sv.obj := by
  intro s
  have hwf := run_wf avg ops (init_wf avg cap hcap x0 r0 v0 1 label [r0] rfl rfl)
  have hsome := getFinal_isSome hwf.kopt_lt
  cases hf : s.getFinal with
  | none => simp [s, hf] at hsome
  | some f => exact ⟨f, rfl, getFinal_better hf⟩

/-- the saved value only improves: after `save_point` it is at least as good as the offer and as
    whatever was saved before. -/
theorem C17_save_keeps_best (s : MState P R) (x : P) (r : R) (v : Val) (ns en : Nat) :
    ∃ sv, (s.savePoint x r v ns en).1.saved = some sv ∧ Better sv.obj v ∧
      (∀ old, s.saved = some old → Better sv.obj old.obj) := savePoint_better s x r v ns en

/-! ### non-vacuity: a concrete non-trivial sequence (ties, NaN, swap, extra samples) -/

def exAvg (k : Nat) (m r : Int) : Int := (k * m + r) / (k + 1)

def exOps : List (MOp Nat Int) :=
  [ .change 1 10 4 (.num 16) 2 true, .change 2 11 3 (.num 9) 3 true, .sample 2 5 (.num 16),
    .swap 0 2, .save 12 1 (.nan) 1 4, .save 13 2 (.num 4) 1 5, .addPoint 14 0 (.num 0) 6,
    .change 0 15 7 (.nan) 7 true, .shift, .interpolate ]

example : RunGuarded exAvg (init 3 0 5 (.num 25) 1 1 [5]) exOps := by decide
example : ((init 3 0 5 (.num 25) 1 1 [5]).run exAvg exOps).kopt = 3 := by decide
example : (((init 3 0 5 (.num 25) 1 1 [5]).run exAvg exOps).getFinal.map (·.en)) = some 6 := by decide

/-! ### the pinned tree's formulas (before the `fix:` commits) and why they fail -/

/-- pinned `swap_points`: sample counts stay behind. -/
def swapOld (s : MState P R) (k1 k2 : Nat) : MState P R :=
  match s.slots[k1]?, s.slots[k2]? with
  | some a, some b =>
    { s with slots := (s.slots.set k1 { b with ns := a.ns }).set k2 { a with ns := b.ns } }
  | _, _ => s

/-- after a swap of a twice-sampled point the count no longer matches the samples received. -/
theorem C17_old_swap_counts :
    ∃ s : MState Nat Int, WF exAvg s ∧ ¬ (∀ sl ∈ (swapOld s 0 1).slots, sl.ns = sl.gsamples.length) := by
  refine ⟨(init 2 0 5 (.num 25) 1 1 [5]).run exAvg [.change 1 10 4 (.num 16) 2 true, .sample 1 6 (.num 25)], ?_, ?_⟩
  · exact run_wf _ _ (init_wf exAvg 2 (by omega) 0 5 _ 1 1 [5] rfl rfl)
  · decide

/-- pinned `get_final_results` test: `objsave is None or objopt <= objsave`. -/
def finalPrefersOptOld (opt : Val) (saved : Option Val) : Bool :=
  match saved with
  | none => true
  | some sv => Val.le opt sv

/-- a saved NaN shadows a finite incumbent in the pinned tree. -/
theorem C17_old_nan_shadow : finalPrefersOptOld (.num 3) (some .nan) = false := by decide

/-- pinned `add_new_sample`: `np.argmin` returns the first NaN. -/
def argminOld (vs : List Val) : Nat :=
  match vs.findIdx? Val.isNaN with
  | some i => i
  | none => argminNanLast vs

theorem C17_old_argmin_nan : argminOld [.num 3, .nan, .num 1] = 1 ∧ argminNanLast [.num 3, .nan, .num 1] = 2 := by
  decide

/-- **layer G** (decided over the generated table of every call of the regulariser): the five places in model.py that store an
    objective evaluate `h` at the point they store AS IT IS USED (`as_absolute_coordinates` / `xpt(k, abs_coordinates=True)`:
    clipped to the bounds, projected), in the user's coordinates and with the user's extra arguments — the source-level
    side of `C17_obj_matches` -/
theorem C17_src_h_at_stored_point :
    (Gen.hCalls.filter (fun c => c.func.startsWith "model.py:")).map (fun c => (c.func, c.point)) =
      [("model.py:__init__", "x0"), ("model.py:change_point", "self.as_absolute_coordinates(x)"),
       ("model.py:add_new_sample", "self.xpt(k, abs_coordinates=True)"), ("model.py:add_new_point", "self.as_absolute_coordinates(x)"),
       ("model.py:save_point", "xabs")] ∧
    (∀ c ∈ Gen.hCalls, c.npos = 1 ∧ c.nkw = 0 ∧ (c.star = "self.argsh" ∨ c.star = "argsh") ∧
      ((c.point ≠ "" ∧ (c.scaling = "self.scaling_changes" ∨ c.scaling = "scaling_changes")) ∨
       (c.func = "util.py:eval_least_squares_with_regularisation" ∧ c.arg = "x"))) :=
  ⟨HCalls.model_h_at_stored_point, HCalls.h_sees_user_coordinates⟩

/-! ### layer G: the five per-point arrays travel together (table of every write to them, regenerated from model.py) -/

/-- arrays written by a method (in source order, duplicates removed by the caller's comparison) -/
def writtenBy (m : String) : List String := (Gen.rowWrites.filter (fun w => w.1 == m)).map (·.2.1)

/-- **points, residuals, objectives, sample counts and evaluation numbers travel together** (decided over the table of ALL writes
    to `points`, `fval_v`, `objval`, `nsamples`, `eval_num` in `Model`): `change_point` rewrites row `k` in all five arrays (sample
    count 1, the evaluation number it was given), `swap_points` swaps the same two rows `[k1, k2] ← [k2, k1]` in all five (the pinned
    code left `nsamples` behind: `C17_swap_old`), `add_new_point` appends one entry to all five, `add_new_sample` updates row `k` of
    the residual, the objective and the count only, `shift_base` moves coordinates only, and no other method writes them. -/
theorem C17_src_rows_travel_together :
    (Gen.rowWrites.map (·.1)).eraseDups = ["__init__", "change_point", "swap_points", "add_new_sample", "add_new_point", "shift_base"] ∧
    (writtenBy "change_point").eraseDups = ["points", "fval_v", "objval", "nsamples", "eval_num"] ∧
    (Gen.rowWrites.filter (fun w => w.1 == "change_point")).all (fun w => w.2.2.1 == "k" || w.2.2.1 == "(k, :)") = true ∧
    ("change_point", "nsamples", "k", "1") ∈ Gen.rowWrites ∧ ("change_point", "eval_num", "k", "eval_num") ∈ Gen.rowWrites ∧
    (Gen.rowWrites.filter (fun w => w.1 == "swap_points")).map (fun w => (w.2.1, w.2.2.2)) =
      [("points", "self.points[[k2, k1], :]"), ("fval_v", "self.fval_v[[k2, k1], :]"), ("objval", "self.objval[[k2, k1]]"),
       ("eval_num", "self.eval_num[[k2, k1]]"), ("nsamples", "self.nsamples[[k2, k1]]")] ∧
    (Gen.rowWrites.filter (fun w => w.1 == "swap_points")).all (fun w => w.2.2.1 == "[k1, k2]" || w.2.2.1 == "([k1, k2], :)") = true ∧
    (writtenBy "add_new_point") = ["points", "fval_v", "objval", "nsamples", "eval_num"] ∧
    (Gen.rowWrites.filter (fun w => w.1 == "add_new_point")).all (fun w => w.2.2.1 == "" && w.2.2.2.startsWith "np.append(self.") = true ∧
    (writtenBy "add_new_sample").eraseDups = ["fval_v", "objval", "nsamples"] ∧
    writtenBy "shift_base" = ["points"] := by
  decide +kernel

end C17
end Dfols
