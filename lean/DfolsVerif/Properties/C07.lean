/-
  C07 — solve always returns a well-formed result; bad input is reported, not raised.

  Statement (properties.jsonl): for every input in the documented domain solve returns a results
  object whose flag is one of the documented exit codes with a non-empty message, and printing it
  works.  Invalid arguments (non-positive or inconsistent radii, npt < n+1, too-narrow bounds,
  missing or non-positive Lipschitz constant or missing prox for a regulariser, out-of-range or
  wrongly typed user parameters, contradictory options) yield a result with the input-error flag and
  zero evaluations instead of an exception; an unknown parameter name raises ValueError; and the
  result object exposes every exit-code constant named in the user guide.

  What is proved here (model: `Book/Validate.lean`; every theorem is about the tables **regenerated
  from /repo on this run**, `genTables`, through `gen_eq_spec`):

  * `C07_input_error_iff`, `C07_first_failing_check_wins`, `C07_in_domain_never_raises`,
    `C07_input_error_result`, `C07_flag_documented` — the validation part of `solve`, for **all**
    arguments of the documented types (all shapes, all numbers incl. NaN/±inf, all dictionaries of
    user parameters with values of any type);
  * `C07_unknown_key`, `C07_user_params_effect` — `ParameterList.__call__` under `solve`'s loop;
  * `C07_table_total` — every default passes its own check for all n ≥ 1, npt ≥ n+1, maxfun ≥ 1 and
    both noise flags;
  * `C07_exit_constants`, `C07_messages_match_source` — table facts.

  Not proved here (full statement kept): the clause "for every input in the documented domain solve
  returns a result whose flag is documented, with a non-empty message, and printing works" for inputs
  that *pass* validation is a statement about `solve_main` (L2, every accepted trace ends in an
  `ExitInformation` whose flag is a generated constant).  `C07_flag_documented` proves it for the
  input-error path; for the other paths it is watched by the failing-input search of the check, which
  is also where the accepted-but-crashing boundary values (`slow.history_for_slow = 0`,
  `tr_radius.alpha1 = 1.0`, …) and the `RuntimeError` of the projection initialisation show up.
-/
import DfolsVerif.Proofs.Validate
import DfolsVerif.Proofs.ParamTable
import DfolsVerif.Proofs.GenSpec
import DfolsVerif.Gen.ExitSites
import DfolsVerif.Proofs.TrySites
import DfolsVerif.Proofs.SolveMainPaths

namespace Dfols
namespace C07

open Py

/-- the tables regenerated from /repo on this run (what the driver executes) -/
def genTables : Tables := { defaults := Gen.paramDefaults, types := Gen.paramTypes, exit := Gen.exitTable }

/-- the committed reference (the repaired code) -/
def specTables : Tables := { defaults := Spec.paramDefaults, types := Spec.paramTypes, exit := Spec.exitTable }

/-- **generated = committed reference** -/
theorem gen_eq_spec : genTables = specTables := by
  simp only [genTables, specTables, GenSpec.paramDefaults_eq, GenSpec.paramTypes_eq, GenSpec.exitTable_eq]

/-! ### facts about the reference tables (all by evaluation) -/

theorem spec_keys_nodup : (specTables.defaults.map (·.1)).Nodup := by decide +kernel

theorem spec_typed : ∀ k ∈ specTables.defaults.map (·.1), (specTables.types.lookup k).isSome = true := by decide +kernel

theorem spec_no_str : ∀ kt ∈ specTables.types, kt.2.ty ≠ TypeTag.str := by decide +kernel

theorem spec_option_keys : ∀ k ∈ optionKeys, k ∈ specTables.defaults.map (·.1) := by decide +kernel

/-! ### C07_table_total -/

/-- the sizes `solve` can hand to `ParameterList` once its own checks have passed -/
def ValidSizes (s : Sizes) : Prop := 1 ≤ s.n ∧ s.n + 1 ≤ s.npt ∧ 1 ≤ s.maxfun

/-- the four keys whose default or bounds depend on the sizes -/
def sizeKeys : List (String × DExpr) :=
  [ ("slow.max_slow_iters", .int (.mul (.lit 20) .n)),
    ("restarts.soft.max_fake_successful_steps", .int .maxfun),
    ("restarts.max_npt", .int .npt),
    ("growing.ndirs_initial", .int (.sub .npt (.lit 1))) ]

theorem spec_split : specTables.defaults.all (fun kd => closedOk specTables.types kd || sizeKeys.contains kd) = true := by
  decide +kernel

theorem sizeKeys_ok (s : Sizes) (hs : ValidSizes s) :
    ∀ kd ∈ sizeKeys, ∃ te, specTables.types.lookup kd.1 = some te ∧ checkEntry te (kd.2.eval s) (F.ofInt s.npt) = true := by
  obtain ⟨h1, h2, h3⟩ := hs
  intro kd hkd
  simp only [sizeKeys, List.mem_cons, List.mem_nil_iff, or_false] at hkd
  rcases hkd with rfl | rfl | rfl | rfl
  · refine ⟨⟨.int, false, .int 0, .none⟩, by decide, ?_⟩
    simp only [checkEntry, checkInteger, DExpr.eval, IExpr.eval, Bound.eval, inRange, F.ofInt_le, Bool.and_true, decide_eq_true_eq]
    omega
  · refine ⟨⟨.int, false, .int 1, .none⟩, by decide, ?_⟩
    simp only [checkEntry, checkInteger, DExpr.eval, IExpr.eval, Bound.eval, inRange, F.ofInt_le, Bool.and_true, decide_eq_true_eq]
    omega
  · refine ⟨⟨.int, false, .nptPlus 0, .none⟩, by decide, ?_⟩
    simp only [checkEntry, checkInteger, DExpr.eval, IExpr.eval, Bound.eval, inRange, F.addInt_ofInt, F.ofInt_le, Bool.and_true,
      decide_eq_true_eq]
    omega
  · refine ⟨⟨.int, false, .int 1, .nptPlus (-1)⟩, by decide, ?_⟩
    simp only [checkEntry, checkInteger, DExpr.eval, IExpr.eval, Bound.eval, inRange, F.addInt_ofInt, F.ofInt_le, Bool.and_eq_true,
      decide_eq_true_eq]
    omega

/-- **every default key has a table entry and every default passes its own check**, for all
    n ≥ 1, npt ≥ n+1, maxfun ≥ 1 and both noise flags — hence `check_all_params` reports no bad key
    when the user sets nothing. -/
theorem C07_table_total (s : Sizes) (hs : ValidSizes s) :
    (∀ kd ∈ genTables.defaults, ∃ te, genTables.types.lookup kd.1 = some te ∧
        checkEntry te (kd.2.eval s) (F.ofInt s.npt) = true) ∧
    checkAll genTables.types (PList.init genTables.defaults s) (F.ofInt s.npt) = .ok [] := by
  rw [gen_eq_spec]
  have hall : ∀ kd ∈ specTables.defaults, ∃ te, specTables.types.lookup kd.1 = some te ∧
      checkEntry te (kd.2.eval s) (F.ofInt s.npt) = true := by
    intro kd hkd
    have := List.all_eq_true.1 spec_split kd hkd
    simp only [Bool.or_eq_true] at this
    rcases this with hc | hsz
    · exact closedOk_sound hc s _
    · exact sizeKeys_ok s hs kd (by simpa using hsz)
  refine ⟨hall, ?_⟩
  rw [checkAll_ok (by intro k hk; rw [PList.keys_init] at hk; exact spec_typed k hk)]
  simp only [badKeys, Except.ok.injEq, List.map_eq_nil_iff, List.filter_eq_nil_iff]
  intro p hp
  simp only [PList.init, List.mem_map] at hp
  obtain ⟨kd, hkd, rfl⟩ := hp
  obtain ⟨te, hte, hck⟩ := hall kd hkd
  simp [hte, hck]

example : ValidSizes ⟨3, 7, 50, true⟩ := ⟨by decide, by decide, by decide⟩

/-! ### C07_unknown_key, C07_user_params_effect -/

/-- **an unknown parameter name raises `ValueError`** — never a result, never a run: on arguments
    of the documented types, if any key of `user_params` is not a key of the table then `validate`
    raises `ValueError` (raised by `params(key, new_value=val)` before any check is made). -/
theorem C07_unknown_key (a : Args) (hm : a.Modelled)
    (hnpt : a.npt = .none ∨ ∃ i, a.npt = .int i) (hmf : a.maxfun = .none ∨ ∃ i, a.maxfun = .int i)
    (hunk : ∃ kv ∈ a.userParams.getD [], kv.1 ∉ genTables.defaults.map (·.1)) :
    validate genTables a = .raised .valueError := by
  cases hx : a.x0shape with
  | nil => simp [Args.Modelled, Args.modelled, hx] at hm
  | cons n rest =>
    have hnotun := Args.modelled_cons hx hm
    obtain ⟨nptI, hnptI⟩ : ∃ i, pyInt (a.effNpt n) = .ok i := by
      rcases hnpt with hnone | ⟨i, hi⟩
      · exact ⟨(n : Int) + 1, by simp [Args.effNpt, hnone, PyVal.isNone, pyInt]⟩
      · exact ⟨i, by simp [Args.effNpt, hi, PyVal.isNone, pyInt]⟩
    obtain ⟨mfI, hmfI⟩ : ∃ i, pyInt (a.effMaxfun n) = .ok i := by
      rcases hmf with hnone | ⟨i, hi⟩
      · exact ⟨min (100 * ((n : Int) + 1)) 1000, by simp [Args.effMaxfun, hnone, PyVal.isNone, pyInt]⟩
      · exact ⟨i, by simp [Args.effMaxfun, hi, PyVal.isNone, pyInt]⟩
    obtain ⟨e, he⟩ := PList.update_unknown (pl := PList.init genTables.defaults ⟨n, nptI, mfI, a.noise⟩)
      (ups := a.userParams.getD []) (by rw [PList.keys_init]; exact hunk)
    have := PList.update_error he
    subst this
    simp only [validate, prepare, hx, hnotun, Bool.false_eq_true, ↓reduceIte, hnptI, hmfI, he]

/-- **`user_params` has dictionary semantics with `None` = "leave the default"**: on the documented
    domain the parameter list `solve` works with holds, under every key, the user's value when one
    other than `None` was given and the default otherwise; and a *second* update of a key raises
    `ValueError` (`ParameterList.__call__`, second clause). -/
theorem C07_user_params_effect :
    (∀ a : Args, a.InDomain genTables →
      ∃ pl, prepare genTables a = .ok (mkEff a a.n pl) ∧ pl.keys = genTables.defaults.map (·.1) ∧
        ∀ k, pl.val k = PList.effective (a.userParams.getD []) k ((PList.init genTables.defaults a.sizes).val k)) ∧
    (∀ (pl : PList) (k : String) (v w : PyVal) (pl' : PList) (r : PyVal), v.isNone = false → w.isNone = false →
      pl.call k v = .ok (pl', r) → pl'.call k w = .error .valueError) := by
  constructor
  · intro a h
    obtain ⟨pl, h1, _, _, h4, h5⟩ := prepare_ok genTables a h
    exact ⟨pl, h1, h4, h5⟩
  · intro pl k v w pl' r hv hw hc
    unfold PList.call at hc
    split at hc
    · cases hc
    · next p hp =>
      rw [hv] at hc
      simp only [Bool.false_eq_true, ↓reduceIte] at hc
      split at hc
      · cases hc
      · cases hc
        simp [PList.call, PList.get?_set_same hp, hw]

/-! ### C07_input_error_iff -/

/-- **the documented reasons for an input error**, spelled out over the effective values
    (`mkEff`: defaults filled in, user parameters applied), in the order the code tests them. -/
def Invalid (T : Tables) (e : Eff) : Prop :=
  -- regulariser given without its proximal operator / without or with a non-positive Lipschitz constant
  (e.hasH = true ∧ e.hasProx = false) ∨
  (e.hasH = true ∧ e.lh.isNone = true) ∨
  (e.hasH = true ∧ e.lh.isNone = false ∧ F.le e.lhF (.fin 0) = true) ∨
  -- npt < n+1
  F.lt e.nptF (F.ofInt ((e.n : Int) + 1)) = true ∨
  -- rhobeg ≤ 0, rhoend ≤ 0, rhobeg ≤ rhoend, maxfun ≤ 0
  F.le e.rhobegF (.fin 0) = true ∨
  F.le e.rhoendF (.fin 0) = true ∨
  F.le e.rhobegF e.rhoendF = true ∨
  F.le e.maxfunF (F.ofInt 0) = true ∨
  -- shapes
  e.x0shape ≠ [e.n] ∨
  e.x0shape ≠ e.xl ∨
  e.x0shape ≠ e.xu ∨
  -- min(xu - xl) < 2·rhobeg
  F.lt e.gap (F.dbl e.rhobegF) = true ∨
  -- some parameter value fails its table entry (wrong type, out of range, NaN, None where not allowed)
  (∃ p ∈ e.pl, ∃ te, T.types.lookup p.key = some te ∧ checkEntry te p.val e.nptF = false) ∨
  -- the five contradictory option combinations
  ((e.pl.val "growing.safety.full_geom_step").truthy = true ∧ (e.pl.val "growing.safety.reduce_delta").truthy = true) ∨
  ((e.pl.val "growing.full_rank.use_full_rank_interp").truthy = true ∧ (e.pl.val "growing.perturb_trust_region_step").truthy = true) ∨
  ((e.pl.val "noise.quit_on_noise_level").truthy = true ∧ (e.pl.val "noise.multiplicative_noise_level").isNone = false ∧
      (e.pl.val "noise.additive_noise_level").isNone = false) ∨
  ((e.pl.val "init.run_in_parallel").truthy = true ∧ (e.pl.val "init.random_initial_directions").truthy = false) ∨
  ((e.pl.val "growing.reset_rho").truthy = true ∧ (e.pl.val "growing.reset_delta").truthy = false)

theorem filter_map_isEmpty {α β : Type} (f : α → Bool) (g : α → β) (l : List α) :
    ((l.filter f).map g).isEmpty = false ↔ ∃ x ∈ l, f x = true := by
  induction l with
  | nil => simp
  | cons x xs ih =>
    simp only [List.filter_cons]
    cases hf : f x
    · simp [hf, ih]
    · simp [hf]

theorem badKeys_ne_nil (types : List (String × TypeEntry)) (pl : PList) (npt : F) :
    (badKeys types pl npt).isEmpty = false ↔ ∃ p ∈ pl, ∃ te, types.lookup p.key = some te ∧ checkEntry te p.val npt = false := by
  unfold badKeys
  rw [filter_map_isEmpty]
  constructor
  · rintro ⟨p, hp, hc⟩
    refine ⟨p, hp, ?_⟩
    cases hl : types.lookup p.key with
    | none => simp [hl] at hc
    | some te => exact ⟨te, rfl, by simpa [hl] using hc⟩
  · rintro ⟨p, hp, te, hl, hc⟩
    exact ⟨p, hp, by simp [hl, hc]⟩

theorem conds_iff (T : Tables) (e : Eff) : (∃ c ∈ e.conds T, c.1 = true) ↔ Invalid T e := by
  have hb := badKeys_ne_nil T.types e.pl e.nptF
  simp only [Eff.conds, Eff.argConds, optionConds, List.cons_append, List.nil_append, List.mem_cons, List.mem_nil_iff, or_false,
    exists_eq_or_imp, exists_eq_left, Bool.and_eq_true, Bool.not_eq_true', bne_iff_ne, ne_eq, Invalid, hb, and_assoc]

/-- the effective state `solve` checks is well formed on the documented domain (tables = generated) -/
theorem eff_ok (a : Args) (h : a.InDomain genTables) :
    ∃ pl, prepare genTables a = .ok (mkEff a a.n pl) ∧ (mkEff a a.n pl).Numeric ∧ pl.Inv ∧
      (∀ k ∈ optionKeys, k ∈ pl.keys) ∧ (∀ k ∈ pl.keys, (genTables.types.lookup k).isSome = true) := by
  obtain ⟨pl, h1, h2, h3, h4, _⟩ := prepare_ok genTables a h
  refine ⟨pl, h1, h2, h3, ?_, ?_⟩
  · intro k hk; rw [h4, gen_eq_spec]; exact spec_option_keys k hk
  · intro k hk; rw [h4] at hk; rw [gen_eq_spec] at hk ⊢; exact spec_typed k hk

/-- **input error iff one of the documented conditions holds.**  For all arguments of the
    documented types: `solve`'s validation ends in the input-error branch **iff** `Invalid` holds of
    the effective values — and otherwise it proceeds to the solver; it never raises
    (`C07_in_domain_never_raises`). -/
theorem C07_input_error_iff (a : Args) (h : a.InDomain genTables) :
    ∃ pl, prepare genTables a = .ok (mkEff a a.n pl) ∧
      ((∃ m pl', checkInputs genTables (mkEff a a.n pl) = .ok (some m, pl')) ↔ Invalid genTables (mkEff a a.n pl)) ∧
      ((∃ pl', checkInputs genTables (mkEff a a.n pl) = .ok (none, pl')) ↔ ¬ Invalid genTables (mkEff a a.n pl)) := by
  obtain ⟨pl, h1, h2, h3, h4, h5⟩ := eff_ok a h
  obtain ⟨pl', hc, _⟩ := checkInputs_ok genTables (mkEff a a.n pl) h2 h3 h4 h5
  have key1 : ∀ o : Option Msg, (∃ m pl'', (Except.ok (o, pl') : Except Exc (Option Msg × PList)) = .ok (some m, pl'')) ↔ o.isSome = true := by
    intro o; cases o <;> simp
  have key2 : ∀ o : Option Msg, (∃ pl'', (Except.ok (o, pl') : Except Exc (Option Msg × PList)) = .ok (none, pl'')) ↔ ¬ o.isSome = true := by
    intro o; cases o <;> simp
  have key3 : ((((mkEff a a.n pl).conds genTables).find? (·.1)).map (·.2)).isSome = true ↔ Invalid genTables (mkEff a a.n pl) := by
    rw [Option.isSome_map, List.find?_isSome, ← conds_iff]
  refine ⟨pl, h1, ?_, ?_⟩
  · rw [hc, key1, key3]
  · rw [hc, key2, key3]

/-- **first failing check wins, exact order**: the message is that of the first documented
    condition (in the order of `Eff.conds` = source order) that holds. -/
theorem C07_first_failing_check_wins (a : Args) (h : a.InDomain genTables) :
    ∃ pl pl', prepare genTables a = .ok (mkEff a a.n pl) ∧
      checkInputs genTables (mkEff a a.n pl) = .ok ((((mkEff a a.n pl).conds genTables).find? (·.1)).map (·.2), pl') ∧
      ∀ m, (((mkEff a a.n pl).conds genTables).find? (·.1)).map (·.2) = some m →
        ∃ i, ∃ hi : i < ((mkEff a a.n pl).conds genTables).length,
          ((mkEff a a.n pl).conds genTables)[i] = (true, m) ∧
          ∀ j, (hj : j < i) → (((mkEff a a.n pl).conds genTables)[j]'(Nat.lt_trans hj hi)).1 = false := by
  obtain ⟨pl, h1, h2, h3, h4, h5⟩ := eff_ok a h
  obtain ⟨pl', hc, _⟩ := checkInputs_ok genTables (mkEff a a.n pl) h2 h3 h4 h5
  refine ⟨pl, pl', h1, hc, ?_⟩
  intro m hm
  cases hf : List.find? (·.1) ((mkEff a a.n pl).conds genTables) with
  | none => rw [hf] at hm; cases hm
  | some c =>
    rw [hf] at hm
    simp only [Option.map_some, Option.some.injEq] at hm
    obtain ⟨hc1, i, hi, hget, hbefore⟩ := List.find?_eq_some_iff_getElem.1 hf
    refine ⟨i, hi, ?_, ?_⟩
    · rw [hget]; cases c; simp_all
    · intro j hj
      have := hbefore j hj
      simpa using this

/-! ### the input-error result -/

/-- `OptimResults(None, None, None, None, 0, 0, 0, EXIT_INPUT_ERROR, "Error (bad input): …", None, None)` -/
def inputErrorRes (m : Msg) : Result :=
  { hasX := false, hasResid := false, hasObj := false, hasJac := false, nf := 0, nx := 0, nruns := 0, flag := -1,
    msg := "Error (bad input): " ++ m.text, hasXminEvalNum := false, hasJacEvalNums := false }

theorem spec_input_error_result (m : Msg) : inputErrorResult specTables.exit m = .result (inputErrorRes m) := by
  have h1 : specTables.exit.flagOf? "EXIT_INPUT_ERROR" = some (-1) := by decide +kernel
  have h2 : specTables.exit.resultCallArities.head? = some 11 := by decide +kernel
  have h3 : (specTables.exit.callOk 11 && specTables.exit.attrsResolvable) = true := by decide +kernel
  have h4 : specTables.exit.stemOf (-1) = "Error (bad input): " := by decide +kernel
  simp only [inputErrorResult, h1, h2, h3, ↓reduceIte, ExitTable.message, h4, inputErrorRes]

/-- **no exception on the documented domain**: validation ends either in a result object or by
    entering the solver. -/
theorem C07_in_domain_never_raises (a : Args) (h : a.InDomain genTables) :
    (∃ r, validate genTables a = .result r) ∨ (∃ pl npt maxfun rhobeg scal, validate genTables a = .proceed pl npt maxfun rhobeg scal) := by
  obtain ⟨pl, h1, h2, h3, h4, h5⟩ := eff_ok a h
  obtain ⟨pl', hc, _⟩ := checkInputs_ok genTables (mkEff a a.n pl) h2 h3 h4 h5
  unfold validate
  rw [h1]
  simp only [hc]
  cases hf : (((mkEff a a.n pl).conds genTables).find? (·.1)).map (·.2) with
  | none => exact Or.inr ⟨_, _, _, _, _, rfl⟩
  | some m =>
    refine Or.inl ⟨inputErrorRes m, ?_⟩
    simp only
    rw [gen_eq_spec]
    exact spec_input_error_result m

/-- **the input-error result is well formed**: whenever validation returns a result object — for
    *any* arguments, typed or not — it carries the input-error flag −1, `nf = nx = nruns = 0`, no
    solution data, a non-empty message starting with the documented stem, and `str()` is defined. -/
theorem C07_input_error_result (a : Args) (r : Result) (h : validate genTables a = .result r) :
    r.flag = -1 ∧ r.nf = 0 ∧ r.nx = 0 ∧ r.nruns = 0 ∧
    r.hasX = false ∧ r.hasResid = false ∧ r.hasObj = false ∧ r.hasJac = false ∧
    (∃ m : Msg, r.msg = "Error (bad input): " ++ m.text) ∧ r.msg ≠ "" ∧
    r.strDefined genTables.exit = true := by
  have hr : ∃ m : Msg, inputErrorResult genTables.exit m = .result r := by
    unfold validate at h
    split at h
    · cases h
    · cases h
    · split at h
      · cases h
      · next m _ _ => exact ⟨m, h⟩
      · cases h
  obtain ⟨m, hm⟩ := hr
  rw [gen_eq_spec, spec_input_error_result] at hm
  cases hm
  refine ⟨rfl, rfl, rfl, rfl, rfl, rfl, rfl, rfl, ⟨m, rfl⟩, ?_, ?_⟩
  · intro hcontra
    have := congrArg String.length hcontra
    simp only [inputErrorRes, String.length_append] at this
    have h19 : "Error (bad input): ".length = 19 := by decide +kernel
    have h0 : "".length = 0 := by decide +kernel
    omega
  · rw [gen_eq_spec]
    have h1 : specTables.exit.exposes "EXIT_INPUT_ERROR" = true := by decide +kernel
    have h2 : specTables.exit.exposedValue? "EXIT_INPUT_ERROR" = some (-1) := by decide +kernel
    simp [Result.strDefined, h1, h2, inputErrorRes]

/-- **the flag is a documented exit code** (input-error path): it is the value of a constant the
    user guide names, and the result object exposes that constant with that value.
    The statement for the other exits is L2 (see header). -/
theorem C07_flag_documented (a : Args) (r : Result) (h : validate genTables a = .result r) :
    r.flag ∈ genTables.exit.documentedFlags ∧
    ∃ name ∈ genTables.exit.userGuideExits, genTables.exit.exposedValue? name = some r.flag := by
  have := (C07_input_error_result a r h).1
  rw [this, gen_eq_spec]
  exact ⟨by decide +kernel, "EXIT_INPUT_ERROR", by decide +kernel, by decide +kernel⟩

/-! ### C07_exit_constants, C07_messages_match_source -/

/-- **the result object exposes every exit-code constant named in the user guide**, with the value
    the controller defines; every attribute assignment in `OptimResults.__init__` can be executed;
    every named constant has its own message stem; every `OptimResults(...)` call in `solve` has the
    constructor's arity. -/
theorem C07_exit_constants :
    (∀ name ∈ genTables.exit.userGuideExits,
        genTables.exit.exposes name = true ∧ genTables.exit.exposedValue? name = genTables.exit.flagOf? name ∧
        (genTables.exit.flagOf? name).isSome = true ∧ (genTables.exit.stems.lookup name).isSome = true) ∧
    genTables.exit.attrsResolvable = true ∧
    (∀ k ∈ genTables.exit.resultCallArities, genTables.exit.callOk k = true) := by
  rw [gen_eq_spec]; decide +kernel

/-- the model's message texts are the strings of the `ExitInformation(EXIT_INPUT_ERROR, …)` calls in
    `solve`, in source order (so `Msg`'s constructor order is the order of the checks) -/
theorem C07_messages_match_source :
    (genTables.exit.solveExitMessages.filter (·.1 == "EXIT_INPUT_ERROR")).map (·.2) = Msg.formats := by
  rw [gen_eq_spec]; decide +kernel

/-! ### non-vacuity: concrete arguments -/

/-- n = 2, everything defaulted except `rhoend = 1e-8`; gap 2e20 (no bounds) -/
def exArgs : Args :=
  { x0shape := [2], hasH := false, hasProx := false, lh := .none, xlShape := none, xuShape := none, hasProj := false,
    npt := .none, rhobeg := .none, rhoend := .float (F.ofBits 0x3E45798EE2308C3A), maxfun := .none, userParams := none,
    noise := false, scaling := false, rhobegDefault := F.ofBits 0x3FB999999999999A, gapRaw := F.ofBits 0x4425AF1D78B58C40,
    gapScaled := .fin 0 }

/-- valid input proceeds to the solver -/
example : (match validate specTables exArgs with
           | .proceed _ npt maxfun rhobeg scal => (npt, maxfun, rhobeg, scal) == (.int 3, .int 300, .float (F.ofBits 0x3FB999999999999A), false)
           | _ => false) = true := by
  decide +kernel

/-- `rhobeg = -1.0`: input error with the documented message -/
example : validate specTables { exArgs with rhobeg := .float (F.ofBits 0xBFF0000000000000) } = .result
    { hasX := false, hasResid := false, hasObj := false, hasJac := false, nf := 0, nx := 0, nruns := 0, flag := -1,
      msg := "Error (bad input): rhobeg must be strictly positive", hasXminEvalNum := false, hasJacEvalNums := false } := by
  decide +kernel

/-- an `int` for a `float` parameter and a NaN are both "Bad parameters" (dictionary order of the table) -/
example : validate specTables { exArgs with userParams := some [("tr_radius.eta2", .float .nan), ("tr_radius.eta1", .int 0)] } = .result
    { hasX := false, hasResid := false, hasObj := false, hasJac := false, nf := 0, nx := 0, nruns := 0, flag := -1,
      msg := "Error (bad input): Bad parameters: ['tr_radius.eta1', 'tr_radius.eta2']", hasXminEvalNum := false, hasJacEvalNums := false } := by
  decide +kernel

/-- a `bool` passes `check_integer` (isinstance(True, int)); `None` leaves the default -/
example : (match validate specTables { exArgs with userParams := some [("slow.max_slow_iters", .bool true), ("tr_radius.eta1", .none)] } with
           | .proceed pl _ _ _ _ => (pl.val "slow.max_slow_iters", pl.val "tr_radius.eta1") == (.bool true, .float (F.ofBits 0x3FB999999999999A))
           | _ => false) = true := by
  decide +kernel

/-- unknown key: `ValueError` even though `rhobeg` is invalid too -/
example : validate specTables { exArgs with rhobeg := .int 0, userParams := some [("tr_radius.eta3", .int 0)] } = .raised .valueError := by
  decide +kernel

example : exArgs.InDomain specTables :=
  { modelled := (by decide : exArgs.modelled = true), lh := by decide, npt := Or.inl rfl, maxfun := Or.inl rfl, rhobeg := Or.inl rfl, rhoend := by decide,
    known := by decide, dict := by decide }

/-! ### the pinned tree (before the `fix:` commits) -/

/-- the pinned exit table: `OptimResults(...)` called with 9 of 11 arguments on the input-error
    path; `EXIT_TR_INCREASE_WARNING` not exported by `controller.__all__`; the result object sets
    only seven `EXIT_*` attributes -/
def exitTableOld : ExitTable :=
  { Spec.exitTable with
    controllerAll := Spec.exitTable.controllerAll.filter (· != "EXIT_TR_INCREASE_WARNING"),
    resultAttrs := Spec.exitTable.resultAttrs.filter
      (fun p => !(["EXIT_TR_INCREASE_WARNING", "EXIT_EVAL_ERROR", "EXIT_AUTO_DETECT_RESTART_WARNING"].contains p.1)),
    resultCallArities := [9, 11] }

/-- in the pinned tree **every** input error surfaces as `TypeError` instead of a result -/
theorem C07_old_nine_argument_call (m : Msg) : inputErrorResult exitTableOld m = .raised .typeError := by
  have h1 : exitTableOld.flagOf? "EXIT_INPUT_ERROR" = some (-1) := by decide +kernel
  have h2 : exitTableOld.resultCallArities.head? = some 9 := by decide +kernel
  have h3 : (exitTableOld.callOk 9 && exitTableOld.attrsResolvable) = false := by decide +kernel
  simp only [inputErrorResult, h1, h2, h3, Bool.false_eq_true, ↓reduceIte]

/-- … and two constants the user guide names are not exposed by the result object -/
theorem C07_old_missing_constants :
    "EXIT_TR_INCREASE_WARNING" ∈ exitTableOld.userGuideExits ∧ exitTableOld.exposes "EXIT_TR_INCREASE_WARNING" = false ∧
    "EXIT_EVAL_ERROR" ∈ exitTableOld.userGuideExits ∧ exitTableOld.exposes "EXIT_EVAL_ERROR" = false := by
  decide +kernel

/-! ### layer G: the input checks themselves (generated table of `ExitInformation` creation sites) -/

/-- every `ExitInformation(EXIT_INPUT_ERROR, …)` of /repo, in source order, with the tests it stands under
    (regenerated from the AST on every run): the eighteen checks, each behind `exit_info is None` (first failing
    check wins), with exactly the comparisons `Book/Validate.lean` (`argTests`, `optionChecks`) evaluates -/
theorem C07_src_input_checks :
    (Gen.exitSites.filter (fun s => s.flag = "EXIT_INPUT_ERROR")).map (fun s => (s.msg, s.path)) = [
    ("Must provide prox_uh input if h is not None", [⟨true, "exit_info", "is", "None"⟩, ⟨true, "h", "is not", "None"⟩, ⟨true, "prox_uh", "is", "None"⟩]),
    ("Must provide lh input if h is not None", [⟨true, "exit_info", "is", "None"⟩, ⟨true, "h", "is not", "None"⟩, ⟨false, "prox_uh", "is", "None"⟩, ⟨true, "lh", "is", "None"⟩]),
    ("lh must be strictly positive", [⟨true, "exit_info", "is", "None"⟩, ⟨true, "h", "is not", "None"⟩, ⟨false, "prox_uh", "is", "None"⟩, ⟨false, "lh", "is", "None"⟩, ⟨true, "lh", "<=", "0.0"⟩]),
    ("npt must be >= n+1 for linear models with inexact interpolation", [⟨true, "exit_info", "is", "None"⟩, ⟨true, "npt", "<", "n + 1"⟩]),
    ("rhobeg must be strictly positive", [⟨true, "exit_info", "is", "None"⟩, ⟨true, "rhobeg", "<=", "0.0"⟩]),
    ("rhoend must be strictly positive", [⟨true, "exit_info", "is", "None"⟩, ⟨true, "rhoend", "<=", "0.0"⟩]),
    ("rhobeg must be > rhoend", [⟨true, "exit_info", "is", "None"⟩, ⟨true, "rhobeg", "<=", "rhoend"⟩]),
    ("maxfun must be strictly positive", [⟨true, "exit_info", "is", "None"⟩, ⟨true, "maxfun", "<=", "0"⟩]),
    ("x0 must be a vector", [⟨true, "exit_info", "is", "None"⟩, ⟨true, "np.shape(x0)", "!=", "(n,)"⟩]),
    ("lower bounds must have same shape as x0", [⟨true, "exit_info", "is", "None"⟩, ⟨true, "np.shape(x0)", "!=", "np.shape(xl)"⟩]),
    ("upper bounds must have same shape as x0", [⟨true, "exit_info", "is", "None"⟩, ⟨true, "np.shape(x0)", "!=", "np.shape(xu)"⟩]),
    ("gap between lower and upper must be at least 2*rhobeg", [⟨true, "exit_info", "is", "None"⟩, ⟨true, "np.min(xu - xl)", "<", "2.0 * rhobeg"⟩]),
    ("<expr> 'Bad parameters: %s' % str(bad_keys)", [⟨true, "exit_info", "is", "None"⟩, ⟨false, "all_ok", "", ""⟩]),
    ("Safety step while growing: either reduce delta -or- full geom step", [⟨true, "exit_info", "is", "None"⟩, ⟨true, "params('growing.safety.full_geom_step')", "", ""⟩, ⟨true, "params('growing.safety.reduce_delta')", "", ""⟩]),
    ("Growing: either make J full rank -or- perturb trust region step", [⟨true, "exit_info", "is", "None"⟩, ⟨true, "params('growing.full_rank.use_full_rank_interp')", "", ""⟩, ⟨true, "params('growing.perturb_trust_region_step')", "", ""⟩]),
    ("Must have exactly one of additive or multiplicative noise estimate", [⟨true, "exit_info", "is", "None"⟩, ⟨true, "params('noise.quit_on_noise_level')", "", ""⟩, ⟨false, "params('noise.multiplicative_noise_level')", "is", "None"⟩, ⟨true, "params('noise.additive_noise_level')", "is not", "None"⟩]),
    ("Parallel initialisation not yet developed for coordinate initial directions", [⟨true, "exit_info", "is", "None"⟩, ⟨true, "params('init.run_in_parallel')", "", ""⟩, ⟨false, "params('init.random_initial_directions')", "", ""⟩]),
    ("Growing: if resetting rho, must also reset delta", [⟨true, "exit_info", "is", "None"⟩, ⟨true, "params('growing.reset_rho')", "", ""⟩, ⟨false, "params('growing.reset_delta')", "", ""⟩])] := by
  decide +kernel

/-- input errors are created by `solve` only, and nowhere else is a check skipped by a missing `exit_info is None` -/
theorem C07_src_input_checks_guarded : ∀ s ∈ Gen.exitSites, s.flag = "EXIT_INPUT_ERROR" →
    s.func = "solver.py:solve" ∧ s.path.head? = some ⟨true, "exit_info", "is", "None"⟩ := by
  decide +kernel

/-! ### layer G: an input error costs no evaluation -/

/-- **zero evaluations on an input error, at the source** (call tables regenerated from the AST of the whole package on every run):
    no package function reachable through the call graph from any call that `solve` makes up to and including its input-error
    `return` calls the residual function, and none of those calls is the residual function, the regulariser, its proximal operator,
    the `nsamples` callback, `solve_main` or `dykstra` (which calls the user's projections) — the source-level side of "a result
    with the input-error flag and zero evaluations" -/
theorem C07_src_no_evaluation_before_validation {f : String} (h : TrySites.Reach Gen.callEdges Gen.solvePreludeCalls f) :
    f ∉ Gen.objfunCallers ∧ f ∉ ["objfun", "h", "prox_uh", "nsamples", "solve_main", "dykstra"] :=
  TrySites.no_evaluation_before_validation h

/-- non-vacuity: the prelude does call package functions (parameter list, scaling, exit objects) -/
example : "check_all_params" ∈ Gen.solvePreludeCalls ∧ "apply_scaling" ∈ Gen.solvePreludeCalls ∧ TrySites.preludeReach.length > 28 := by
  decide +kernel

/-- **`solve` always returns a results object, at the source** (skeleton of the whole of `solve`, translated from solver.py on every
    run; every outcome of every test, any number of hard restarts): every execution ends by `return results` where `results` was
    constructed by `OptimResults(...)` on that path — the function never falls off its end and contains no `raise` of its own
    (exceptions raised inside callees, and `assert`s, are outside the skeleton: they are what the run-time suites look for) -/
theorem C07_src_solve_returns_result {tr : List String} {e : SkelL.Ending} (hx : SkelL.Exec Gen.solveBody tr e) :
    e = .ret ∧ (SolveMainPaths.mSo.run ⟨false, 0, false, false⟩ tr).retRes = true ∧
    (SolveMainPaths.mSo.run ⟨false, 0, false, false⟩ tr).retOther = false :=
  SolveMainPaths.solve_returns_result hx

end C07
end Dfols
