/- REFERENCE copy (tree the kernels in Kernels/Radius.lean mirror): (site, 60-bit sha256 of the canonical source) of every radius update in dfols. -/
namespace Dfols.Spec

def radiusSrc : List (String × Nat) := [
  --  => self.delta = rhobeg
  ("controller.py:__init__", 111365340266900679),
  --  => self.rho = rhobeg
  ("controller.py:__init__", 133206246242544548),
  --  => self.rhoend = rhoend
  ("controller.py:__init__", 538300041914807582),
  -- update_delta => self.delta = max(min(0.1 * self.delta, 0.5 * dist), 1.5 * self.rho)
  ("controller.py:check_and_fix_geometry", 311663391531391168),
  --  => self.delta = max(alpha2 * self.rho, new_rho)
  ("controller.py:reduce_rho", 813676699184646718),
  --  => self.rho = new_rho
  ("controller.py:reduce_rho", 579075010870105369),
  --  => self.delta = self.rhobeg
  ("controller.py:soft_restart", 281256855755524613),
  --  => self.rho = self.rhobeg
  ("controller.py:soft_restart", 525327935537087032),
  --  => self.rhoend = params('restarts.rhoend_scale') * self.rhoend
  ("controller.py:soft_restart", 905589769271236738),
  -- params('growing.reset_delta') => control.delta = rhobeg
  ("solver.py:solve_main", 73585342246539980),
  -- params('growing.reset_rho') => control.rho = rhobeg
  ("solver.py:solve_main", 956703711787010433),
  -- dnorm < tau * params('general.safety_step_thresh') * control.rho and (not finished_growing) and params('growing.safety.do_safety_step') & params('growing.safety.reduce_delta') => control.delta = max(min(0.1 * control.delta, 0.5 * sqrt(distsq)), 1.5 * control.rho)
  ("solver.py:solve_main", 549724852827403426),
  -- not(dnorm < tau * params('general.safety_step_thresh') * control.rho and (not finished_growing) and params('growing.safety.do_safety_step')) & not(dnorm < params('general.safety_step_thresh') * control.rho and finished_growing) & ratio < params('tr_radius.eta1') => control.delta = min(params('tr_rad
  ("solver.py:solve_main", 732851430783400425),
  -- not(dnorm < tau * params('general.safety_step_thresh') * control.rho and (not finished_growing) and params('growing.safety.do_safety_step')) & not(dnorm < params('general.safety_step_thresh') * control.rho and finished_growing) & ratio < params('tr_radius.eta1') => control.delta = min(params('growin
  ("solver.py:solve_main", 171285425623918745),
  -- not(dnorm < tau * params('general.safety_step_thresh') * control.rho and (not finished_growing) and params('growing.safety.do_safety_step')) & not(dnorm < params('general.safety_step_thresh') * control.rho and finished_growing) & not(ratio < params('tr_radius.eta1')) & ratio <= params('tr_radius.eta
  ("solver.py:solve_main", 521300518083423342),
  -- not(dnorm < tau * params('general.safety_step_thresh') * control.rho and (not finished_growing) and params('growing.safety.do_safety_step')) & not(dnorm < params('general.safety_step_thresh') * control.rho and finished_growing) & not(ratio < params('tr_radius.eta1')) & ratio <= params('tr_radius.eta
  ("solver.py:solve_main", 936958531970004045),
  -- not(dnorm < tau * params('general.safety_step_thresh') * control.rho and (not finished_growing) and params('growing.safety.do_safety_step')) & not(dnorm < params('general.safety_step_thresh') * control.rho and finished_growing) & not(ratio < params('tr_radius.eta1')) & not(ratio <= params('tr_radius
  ("solver.py:solve_main", 500198342658802137),
  -- not(dnorm < tau * params('general.safety_step_thresh') * control.rho and (not finished_growing) and params('growing.safety.do_safety_step')) & not(dnorm < params('general.safety_step_thresh') * control.rho and finished_growing) & control.delta <= 1.5 * control.rho => control.delta = control.rho
  ("solver.py:solve_main", 1098935155247155443),
  -- alpha1 = params('tr_radius.alpha1') ; alpha2 = params('tr_radius.alpha2') ; ratio = self.rho / self.rhoend ; if ratio <= 16.0:     new_rho = self.rhoend elif ratio <= 250.0:     new_rho = sqrt(ratio) * self.rhoend else:     new_rho = alpha1 * self.rho ; self.delta = max(alpha2 * self.rho, new_rho) ;
  ("controller.py:reduce_rho:body", 683985372567739315),
  -- tau = 1.0
  ("solver.py:tau", 629690147472403641),
  -- dnorm = min(LA.norm(d), control.delta)
  ("solver.py:dnorm", 216941183020570493),
  -- tau = min(criticality_measure / (LA.norm(gopt) + lh), 1.0)
  ("solver.py:tau", 187815589352009347),
  -- tau = 1.0
  ("solver.py:tau", 629690147472403641)
]

end Dfols.Spec
